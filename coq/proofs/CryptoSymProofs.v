(** Proofs about [model/CryptoSym.v]: C34 (command signatures), C36 (wrapped
    keys), C37 (context-bound encryption), C38 (AFC channel key agreement). *)
From Coq Require Import String.
From Aranya Require Import base.Tactics gen.GenCrypto model.TupleHash model.CryptoFrames model.CryptoSym
  proofs.TupleHashProofs.
Local Open Scope N_scope.

(** * The generated call sites the framings are built from (pinned) *)
Lemma sites_pinned :
  site_cmd_digest = ("SignPolicyCommand-v1", "", ["author"; "name"; "parent_id"; "data"])%string
  /\ site_cmd_id = ("PolicyCommandId-v1", "", ["cmd"; "sig.raw_sig()"])%string
  /\ site_merge_id = ("MergeCommandId-v1", "", ["left"; "right"])%string
  /\ site_sk_id = ("$context", "", ["::core::borrow::Borrow::borrow(&pk)"])%string
  /\ find_site "$name::id" "id_new" (tl framings_misc) = ("$CONTEXT", "", ["::core::borrow::Borrow::borrow(&pk.export())"])%string
  /\ find_site "new" "tuple_hash" framings_id = ("ID-v1", "", ["data.into_iter().chain(iter::once(tag))"])%string
  /\ calls_sign_cmd = ["cmd.digest"; "self.id"; "Signature"; "self.sk.sign"; "policy::cmd_id"]%string
  /\ calls_verify_cmd = ["cmd.digest"; "self.id"; "self.pk.verify"; "policy::cmd_id"]%string
  /\ ffi_verify_accept_condition = "bool::from(id.ct_eq(&command_id))"%string
  /\ site_wrap_ad = ("DefaultEngine", "", ["T::ID"; "id"])%string
  /\ site_unwrap_ad = ("DefaultEngine", "", ["T::ID"; "key.id"])%string
  /\ unwrap_match_arms = [("Aead", "Aead"); ("Decap", "Decap"); ("Mac", "Mac"); ("Prk", "Prk"); ("Seed", "Seed"); ("Signing", "Signing")]%string
  /\ alg_id_variants = ["Aead"; "Decap"; "Mac"; "Prk"; "Seed"; "Signing"]%string
  /\ site_groupkey_ctx = ("GroupKey", "", ["label"; "parent"; "author_sign_pk.id()"])%string
  /\ site_groupkey_extract = ("kdf-ext-v1", "EventKey_prk", ["salt=[]"; "seed"])%string
  /\ site_groupkey_expand = ("kdr-exp-v1", "EventKey_key", ["prk=prk"; "info"])%string
  /\ site_sealed_groupkey_info = ("GroupKey-v1", "", ["group"])%string
  /\ site_open_groupkey_info = ("GroupKey-v1", "", ["group"])%string
  /\ site_psk_seal_info = ("PskSeed-v1", "", ["group=group"])%string
  /\ site_psk_open_info = ("PskSeed-v1", "", ["group=group"])%string
  /\ site_uni_info = ("AfcUniKey-v1", "", ["parent_cmd_id=parent_cmd_id"; "seal_id=seal_id"; "open_id=open_id"; "label_id=label_id"])%string.
Proof. repeat split; reflexivity. Qed.

Lemma bytes_eqb_eq a b : bytes_eqb a b = true <-> a = b.
Proof.
  revert b; induction a as [|x a IH]; destruct b as [|y b]; cbn; split; intros H; try congruence; try discriminate.
  - apply andb_true_iff in H. destruct H as [H1 H2]. apply N.eqb_eq in H1. apply IH in H2. congruence.
  - inv H. rewrite N.eqb_refl. cbn. now apply IH.
Qed.

(** * C34 *)
Section CmdSigProofs.
  Variable oids : list bytes.
  Variable H : bytes -> bytes.
  Variables SK PK SIG : Type.
  Variable pub : SK -> PK.
  Variable pk_bytes : PK -> bytes.
  Variable sig_bytes : SIG -> bytes.
  Variable Sign : SK -> bytes -> SIG.
  Variable Verify : PK -> bytes -> SIG -> bool.

  (** Idealisations. *)
  Hypothesis H_inj : forall a b, H a = H b -> a = b.
  Hypothesis pk_bytes_inj : forall p q, pk_bytes p = pk_bytes q -> p = q.
  Hypothesis sig_bytes_inj : forall s t, sig_bytes s = sig_bytes t -> s = t.
  Hypothesis pub_inj : forall k k', pub k = pub k' -> k = k'.
  Hypothesis sig_correct : forall k d, Verify (pub k) d (Sign k d) = true.
  (** unforgeable and unique: whatever verifies is the signing of that very digest by the key's owner *)
  Hypothesis sig_binding : forall p d s, Verify p d s = true -> exists k, p = pub k /\ s = Sign k d.
  (** signatures are free terms *)
  Hypothesis sign_inj : forall k d k' d', Sign k d = Sign k' d' -> k = k' /\ d = d'.

  Notation signing_key_id := (signing_key_id oids H PK pk_bytes).
  Notation cmd_digest := (cmd_digest oids H).
  Notation cmd_id := (cmd_id oids H SIG sig_bytes).
  Notation sign_cmd := (sign_cmd oids H SK PK SIG pub pk_bytes sig_bytes Sign).
  Notation verify_cmd := (verify_cmd oids H PK SIG pk_bytes sig_bytes Verify).
  Notation ffi_verify := (ffi_verify oids H PK SIG pk_bytes sig_bytes Verify).

  Lemma signing_key_id_inj p q : signing_key_id p = signing_key_id q -> p = q.
  Proof.
    unfold CryptoSym.signing_key_id, key_id_input. intros E. apply H_inj in E.
    apply id_input_injective in E. destruct E as [_ E].
    change (site_args site_sk_id) with ["::core::borrow::Borrow::borrow(&pk)"%string] in E.
    cbn [map] in E. inv E. now apply pk_bytes_inj.
  Qed.

  Lemma cmd_digest_inj a c a' c' : cmd_digest a c = cmd_digest a' c' -> a = a' /\ c = c'.
  Proof.
    unfold CryptoSym.cmd_digest, cmd_digest_input. intros E. apply H_inj in E.
    apply cs_tuple_input_injective in E. destruct E as [_ E].
    change (site_args site_cmd_digest) with ["author"; "name"; "parent_id"; "data"]%string in E.
    cbn in E. inv E. split; auto. destruct c, c'; cbn in *; congruence.
  Qed.

  Lemma cmd_id_inj d s d' s' : cmd_id d s = cmd_id d' s' -> d = d' /\ s = s'.
  Proof.
    unfold CryptoSym.cmd_id, cmd_id_input. intros E. apply H_inj in E.
    apply id_input_injective in E. destruct E as [_ E].
    change (site_args site_cmd_id) with ["cmd"; "sig.raw_sig()"]%string in E.
    cbn in E. inv E. split; auto.
  Qed.

  Lemma verify_sign k c : verify_cmd (pub k) c (fst (sign_cmd k c)) = Some (snd (sign_cmd k c)).
  Proof. unfold CryptoSym.verify_cmd, CryptoSym.sign_cmd. cbn [fst snd]. now rewrite sig_correct. Qed.

  Lemma verify_honest_sig k c p c' id' :
    verify_cmd p c' (fst (sign_cmd k c)) = Some id' -> p = pub k /\ c' = c /\ id' = snd (sign_cmd k c).
  Proof.
    unfold CryptoSym.verify_cmd, CryptoSym.sign_cmd. cbn [fst snd].
    destruct (Verify p _ _) eqn:V; [|discriminate]. intros E; inv E.
    apply sig_binding in V. destruct V as (k' & -> & V).
    apply sign_inj in V. destruct V as [-> V].
    apply cmd_digest_inj in V. destruct V as [_ ->]. auto.
  Qed.

  Lemma verify_unique k c s' id' :
    verify_cmd (pub k) c s' = Some id' -> s' = fst (sign_cmd k c) /\ id' = snd (sign_cmd k c).
  Proof.
    unfold CryptoSym.verify_cmd, CryptoSym.sign_cmd. cbn [fst snd].
    destruct (Verify _ _ _) eqn:V; [|discriminate]. intros E; inv E.
    apply sig_binding in V. destruct V as (k' & Hp & ->). apply pub_inj in Hp. subst. auto.
  Qed.

  Lemma ffi_verify_iff p c claimed s : ffi_verify p c claimed s = true <-> verify_cmd p c s = Some claimed.
  Proof.
    unfold CryptoSym.ffi_verify. destruct (verify_cmd p c s) as [id|].
    - rewrite bytes_eqb_eq. split; congruence.
    - split; discriminate.
  Qed.

  Lemma cmd_ids_unique k c k' c' : snd (sign_cmd k c) = snd (sign_cmd k' c') -> k = k' /\ c = c'.
  Proof.
    unfold CryptoSym.sign_cmd. cbn [snd]. intros E. apply cmd_id_inj in E. destruct E as [_ E].
    apply sign_inj in E. destruct E as [-> E]. apply cmd_digest_inj in E. tauto.
  Qed.
End CmdSigProofs.

(** Idealised hash and signature scheme. *)
Definition ideal_sig (SK PK SIG : Type) (pub : SK -> PK) (pk_bytes : PK -> bytes) (sig_bytes : SIG -> bytes)
    (Sign : SK -> bytes -> SIG) (Verify : PK -> bytes -> SIG -> bool) : Prop :=
  (forall p q, pk_bytes p = pk_bytes q -> p = q)
  /\ (forall s t, sig_bytes s = sig_bytes t -> s = t)
  /\ (forall k k', pub k = pub k' -> k = k')
  /\ (forall k d, Verify (pub k) d (Sign k d) = true)
  /\ (forall p d s, Verify p d s = true -> exists k, p = pub k /\ s = Sign k d)
  /\ (forall k d k' d', Sign k d = Sign k' d' -> k = k' /\ d = d').

(** C34: sign and verify derive the same id; a signature verifies only for
    the command (data, name, parent) it was made over and only under the
    signer's key; under the signer's key only that exact signature verifies;
    the FFI verify accepts exactly when the claimed id is the derived one;
    ids determine signer and command. *)
Definition cmd_sig_binds_stmt : Prop :=
  forall (oids : list bytes) (H : bytes -> bytes) (SK PK SIG : Type) (pub : SK -> PK)
         (pk_bytes : PK -> bytes) (sig_bytes : SIG -> bytes) (Sign : SK -> bytes -> SIG)
         (Verify : PK -> bytes -> SIG -> bool),
    (forall a b, H a = H b -> a = b) ->
    ideal_sig SK PK SIG pub pk_bytes sig_bytes Sign Verify ->
    let sign_cmd := sign_cmd oids H SK PK SIG pub pk_bytes sig_bytes Sign in
    let verify_cmd := verify_cmd oids H PK SIG pk_bytes sig_bytes Verify in
    let ffi_verify := ffi_verify oids H PK SIG pk_bytes sig_bytes Verify in
    (forall k c, verify_cmd (pub k) c (fst (sign_cmd k c)) = Some (snd (sign_cmd k c)))
    /\ (forall k c p c' id', verify_cmd p c' (fst (sign_cmd k c)) = Some id' ->
          p = pub k /\ c' = c /\ id' = snd (sign_cmd k c))
    /\ (forall k c s' id', verify_cmd (pub k) c s' = Some id' ->
          s' = fst (sign_cmd k c) /\ id' = snd (sign_cmd k c))
    /\ (forall p c claimed s, ffi_verify p c claimed s = true <-> verify_cmd p c s = Some claimed)
    /\ (forall k c k' c', snd (sign_cmd k c) = snd (sign_cmd k' c') -> k = k' /\ c = c').
Lemma cmd_sig_binds_proof : cmd_sig_binds_stmt.
Proof.
  intros oids H SK PK SIG pub pk_bytes sig_bytes Sign Verify Hinj (Hpk & Hsb & Hpub & Hcor & Hbind & Hsinj).
  cbv zeta. repeat split.
  - intros. eapply verify_sign; eauto.
  - eapply verify_honest_sig in H0; eauto. tauto.
  - eapply verify_honest_sig in H0; eauto. tauto.
  - eapply verify_honest_sig in H0; eauto. tauto.
  - eapply verify_unique in H0; eauto. tauto.
  - eapply verify_unique in H0; eauto. tauto.
  - apply ffi_verify_iff.
  - apply ffi_verify_iff.
  - eapply cmd_ids_unique in H0; eauto. tauto.
  - eapply cmd_ids_unique in H0; eauto. tauto.
Qed.

(** Non-vacuity for C34: a concrete (toy) hash and signature scheme satisfy the idealisations. *)
Definition toy_sign (k : N) (d : bytes) : N * bytes := (k, d).
Definition toy_verify (p : N) (d : bytes) (s : N * bytes) : bool := (fst s =? p) && bytes_eqb (snd s) d.
Example toy_ideal_sig :
  ideal_sig N N (N * bytes) (fun k => k) (fun p => [p]) (fun s => fst s :: snd s) toy_sign toy_verify.
Proof.
  unfold ideal_sig, toy_sign, toy_verify. repeat split; intros; cbn in *; try congruence.
  - destruct s, t; cbn in *; congruence.
  - rewrite N.eqb_refl. cbn. now apply bytes_eqb_eq.
  - apply andb_true_iff in H. destruct H as [H1 H2]. apply N.eqb_eq in H1. apply bytes_eqb_eq in H2.
    exists p. destruct s; cbn in *; subst; auto.
Qed.
Example cmd_sig_nonvacuous :
  let c := {| c_data := [1; 2; 3]; c_name := [97; 98]; c_parent := repeat 7 32 |} in
  let c' := {| c_data := [98; 1; 2; 3]; c_name := [97]; c_parent := repeat 7 32 |} in
  let oids := [[1]; [2]; [3]; [4]; [5]; [6]] in
  let sc := sign_cmd oids (fun x => x) N N (N * bytes) (fun k => k) (fun p => [p]) (fun s => fst s :: snd s) toy_sign 9 c in
  verify_cmd oids (fun x => x) N (N * bytes) (fun p => [p]) (fun s => fst s :: snd s) toy_verify 9 c (fst sc) = Some (snd sc)
  /\ verify_cmd oids (fun x => x) N (N * bytes) (fun p => [p]) (fun s => fst s :: snd s) toy_verify 9 c' (fst sc) = None
  /\ verify_cmd oids (fun x => x) N (N * bytes) (fun p => [p]) (fun s => fst s :: snd s) toy_verify 8 c (fst sc) = None.
Proof. vm_compute. repeat split; reflexivity. Qed.

(** * AEAD as a free constructor *)
Definition ideal_aead {K : Type} (Seal : K -> bytes -> bytes -> bytes -> bytes * bytes)
    (Open : K -> bytes -> bytes -> bytes -> bytes -> option bytes) : Prop :=
  (forall k n ad pt, Open k n ad (fst (Seal k n ad pt)) (snd (Seal k n ad pt)) = Some pt)
  /\ (forall k n ad ct tag pt, Open k n ad ct tag = Some pt -> Seal k n ad pt = (ct, tag))
  /\ (forall k n ad pt k' n' ad' pt', Seal k n ad pt = Seal k' n' ad' pt' -> k = k' /\ n = n' /\ ad = ad' /\ pt = pt').

(** * C36 *)
Lemma alg_kind_eqb_eq a b : alg_kind_eqb a b = true <-> a = b.
Proof. destruct a, b; cbn; split; intros; congruence || discriminate. Qed.

Lemma wrap_unwrap_ad_inj oids a i a' i' :
  unwrap_ad_input oids a i = wrap_ad_input oids a' i' -> a = a' /\ i = i'.
Proof.
  unfold unwrap_ad_input, wrap_ad_input.
  change (site_args site_unwrap_ad) with ["T::ID"; "key.id"]%string.
  change (site_args site_wrap_ad) with ["T::ID"; "id"]%string.
  change (site_domain site_unwrap_ad) with (site_domain site_wrap_ad).
  intros E. apply cs_tuple_input_injective in E. destruct E as [_ E]. inv E. auto.
Qed.
Lemma wrap_unwrap_ad_same oids a i : unwrap_ad_input oids a i = wrap_ad_input oids a i.
Proof. reflexivity. Qed.

(** C36: unwrapping what the same engine wrapped returns the secret; a wrapped
    key whose ciphertext and tag are those of an honest wrapping unwraps only
    under the same engine key, nonce, id and algorithm id, to the same secret;
    and only as the algorithm kind it was wrapped as. *)
Definition wrapped_key_binds_stmt : Prop :=
  forall (oids : list bytes) (H : bytes -> bytes) (AKey : Type)
         (Seal : AKey -> bytes -> bytes -> bytes -> bytes * bytes)
         (Open : AKey -> bytes -> bytes -> bytes -> bytes -> option bytes)
         (alg_bytes : alg_kind -> bytes),
    (forall a b, H a = H b -> a = b) -> ideal_aead Seal Open ->
    let wrap := wrap oids H AKey Seal alg_bytes in
    let unwrap := unwrap oids H AKey Open alg_bytes in
    (forall k kind id n secret, unwrap k kind (wrap k kind id n secret) = UOk secret)
    /\ (forall k kind id n secret k' kind' w' s,
          unwrap k' kind' w' = UOk s ->
          w_ct w' = w_ct (wrap k kind id n secret) -> w_tag w' = w_tag (wrap k kind id n secret) ->
          k' = k /\ w_nonce w' = n /\ w_id w' = id /\ alg_bytes kind' = alg_bytes kind
          /\ kind' = w_kind w' /\ s = secret)
    /\ (forall k kind id n secret k' kind' s,
          unwrap k' kind' (wrap k kind id n secret) = UOk s -> k' = k /\ kind' = kind /\ s = secret)
    /\ (forall k kind id n secret kind',
          kind' <> kind -> unwrap k kind' (wrap k kind id n secret) <> UOk secret).
Lemma wrapped_key_binds_proof : wrapped_key_binds_stmt.
Proof.
  intros oids H AKey Seal Open alg_bytes Hinj (Hcor & Hauth & Hsinj). cbv zeta.
  assert (Hb : forall k kind id n secret k' kind' w' s,
          unwrap oids H AKey Open alg_bytes k' kind' w' = UOk s ->
          w_ct w' = w_ct (wrap oids H AKey Seal alg_bytes k kind id n secret) ->
          w_tag w' = w_tag (wrap oids H AKey Seal alg_bytes k kind id n secret) ->
          k' = k /\ w_nonce w' = n /\ w_id w' = id /\ alg_bytes kind' = alg_bytes kind
          /\ kind' = w_kind w' /\ s = secret).
  { intros k kind id n secret k' kind' w' s Hu Hct Htag.
    unfold unwrap in Hu. destruct (Open _ _ _ _ _) as [data|] eqn:Eo; [|discriminate].
    destruct (alg_kind_eqb kind' (w_kind w')) eqn:Ek; [|discriminate]. inv Hu.
    apply alg_kind_eqb_eq in Ek. apply Hauth in Eo.
    unfold wrap in Hct, Htag. destruct (Seal k n _ secret) as [ct tag] eqn:Es. cbn [w_ct w_tag] in *.
    rewrite Hct, Htag, <- Es in Eo. apply Hsinj in Eo. destruct Eo as (-> & -> & Ead & ->).
    apply Hinj in Ead. apply wrap_unwrap_ad_inj in Ead. destruct Ead as [Ha Hi]. repeat split; auto. }
  repeat split.
  - intros k kind id n secret. unfold unwrap, wrap.
    destruct (Seal k n _ secret) as [ct tag] eqn:Es. cbn [w_id w_nonce w_kind w_ct w_tag].
    rewrite wrap_unwrap_ad_same.
    pose proof (Hcor k n (H (wrap_ad_input oids (alg_bytes kind) id)) secret) as Hc. rewrite Es in Hc. cbn [fst snd] in Hc.
    rewrite Hc. replace (alg_kind_eqb kind kind) with true by (symmetry; now apply alg_kind_eqb_eq). reflexivity.
  - eapply Hb in H0; eauto. tauto.
  - eapply Hb in H0; eauto. tauto.
  - eapply Hb in H0; eauto. tauto.
  - eapply Hb in H0; eauto. tauto.
  - eapply Hb in H0; eauto. tauto.
  - eapply Hb in H0; eauto. tauto.
  - eapply Hb in H0; eauto. tauto.
  - eapply Hb in H0; eauto. destruct H0 as (_ & _ & _ & _ & Hk & _).
    unfold wrap in Hk. destruct (Seal k n _ secret). cbn in Hk. auto.
  - eapply Hb in H0; eauto. tauto.
  - intros k kind id n secret kind' Hne Hu. eapply Hb in Hu; eauto.
    destruct Hu as (_ & _ & _ & _ & Hk & _). unfold wrap in Hk. destruct (Seal k n _ secret). cbn in Hk. auto.
Qed.

(** * C37 *)
Lemma gk_info_inj oids H : (forall a b, H a = H b -> a = b) ->
  forall c c', gk_info oids H c = gk_info oids H c' -> c = c'.
Proof.
  intros Hinj c c' E. unfold gk_info, groupkey_info_input in E. apply Hinj in E.
  apply cs_tuple_input_injective in E. destruct E as [_ E].
  change (site_args site_groupkey_ctx) with ["label"; "parent"; "author_sign_pk.id()"]%string in E.
  cbn in E. inv E. destruct c, c'; cbn in *; congruence.
Qed.

Definition ideal_hpke {SK PK SS KEY : Type} (pub : SK -> PK) (dh : SK -> PK -> SS)
    (KemKdf : list SS -> list PK -> SS) (KeySched : bool -> SS -> bytes -> KEY) : Prop :=
  (forall a b, pub a = pub b -> a = b)
  /\ (forall a b, dh a (pub b) = dh b (pub a))
  /\ (forall l c l' c', KemKdf l c = KemKdf l' c' -> l = l' /\ c = c')
  /\ (forall m s i m' s' i', KeySched m s i = KeySched m' s' i' -> m = m' /\ s = s' /\ i = i').

Definition ideal_ctx_aead {K : Type} (Seal : K -> bytes -> bytes -> bytes * bytes)
    (Open : K -> bytes -> bytes -> bytes -> option bytes) : Prop :=
  (forall k ad pt, Open k ad (fst (Seal k ad pt)) (snd (Seal k ad pt)) = Some pt)
  /\ (forall k ad ct tag pt, Open k ad ct tag = Some pt -> Seal k ad pt = (ct, tag))
  /\ (forall k ad pt k' ad' pt', Seal k ad pt = Seal k' ad' pt' -> k = k' /\ ad = ad' /\ pt = pt').

Lemma group_info_inj s oids g g' :
  site_args s = ["group"%string] \/ site_args s = ["group=group"%string] ->
  hpke_info oids (info_struct_input s (group_env g)) = hpke_info oids (info_struct_input s (group_env g')) -> g = g'.
Proof.
  unfold hpke_info, info_struct_input. intros Hs E. apply app_inv_tail in E. apply app_inv_head in E.
  destruct Hs as [Hs | Hs]; rewrite Hs in E; cbn [map concat before_eq group_env] in E;
    cbn in E; rewrite !app_nil_r in E; auto.
Qed.

(** C37: group keys, sealed group keys and sealed PSK seeds round-trip, and
    opening succeeds only with the same key material and the same context
    (label, parent command, author key; group; sender and recipient keys). *)
Definition seal_open_context_stmt : Prop :=
  forall (oids : list bytes) (H : bytes -> bytes),
    (forall a b, H a = H b -> a = b) ->
    (* group keys *)
    (forall (AKey : Type) Seal Open (Kdf : bytes -> bytes -> AKey),
       ideal_aead Seal Open ->
       (forall s i s' i', Kdf s i = Kdf s' i' -> s = s' /\ i = i') ->
       (forall seed c n pt,
          let info := gk_info oids H c in
          gk_open oids H AKey Open Kdf seed c n (fst (Seal (Kdf seed info) n info pt)) (snd (Seal (Kdf seed info) n info pt)) = Some pt
          /\ gk_seal oids H AKey Seal Kdf seed c n pt
             = n ++ fst (Seal (Kdf seed info) n info pt) ++ snd (Seal (Kdf seed info) n info pt))
       /\ (forall seed c n pt seed' c' n' pt',
          let info := gk_info oids H c in
          gk_open oids H AKey Open Kdf seed' c' n' (fst (Seal (Kdf seed info) n info pt)) (snd (Seal (Kdf seed info) n info pt)) = Some pt' ->
          seed' = seed /\ c' = c /\ n' = n /\ pt' = pt))
    (* HPKE-sealed group keys and PSK seeds *)
    /\ (forall (SK PK SS KEY : Type) pub dh KemKdf (KeySched : bool -> SS -> bytes -> KEY) Seal Open,
       @ideal_hpke SK PK SS KEY pub dh KemKdf KeySched -> ideal_ctx_aead Seal Open ->
       (forall e r seed group,
          let '(enc, (ct, tag)) := seal_group_key oids SK PK SS pub dh KEY KemKdf KeySched Seal e (pub r) seed group in
          open_group_key oids SK PK SS pub dh KEY KemKdf KeySched Open r enc ct tag group = Some seed)
       /\ (forall e r seed group r' enc' group' seed',
          let '(enc, (ct, tag)) := seal_group_key oids SK PK SS pub dh KEY KemKdf KeySched Seal e (pub r) seed group in
          open_group_key oids SK PK SS pub dh KEY KemKdf KeySched Open r' enc' ct tag group' = Some seed' ->
          r' = r /\ enc' = enc /\ group' = group /\ seed' = seed)
       /\ (forall e s r seed group,
          let '(enc, (ct, tag)) := seal_psk_seed oids SK PK SS pub dh KEY KemKdf KeySched Seal e s (pub r) seed group in
          open_psk_seed oids SK PK SS pub dh KEY KemKdf KeySched Open r (pub s) enc ct tag group = Some seed)
       /\ (forall e s r seed group r' pkS' enc' group' seed',
          let '(enc, (ct, tag)) := seal_psk_seed oids SK PK SS pub dh KEY KemKdf KeySched Seal e s (pub r) seed group in
          open_psk_seed oids SK PK SS pub dh KEY KemKdf KeySched Open r' pkS' enc' ct tag group' = Some seed' ->
          r' = r /\ pkS' = pub s /\ enc' = enc /\ group' = group /\ seed' = seed)).
Lemma seal_open_context_proof : seal_open_context_stmt.
Proof.
  intros oids H Hinj. split.
  - intros AKey Seal Open Kdf (Hcor & Hauth & Hsinj) Hk. split.
    + intros seed c n pt. cbv zeta. split.
      * unfold gk_open. apply Hcor.
      * unfold gk_seal. destruct (Seal _ n _ pt). reflexivity.
    + intros seed c n pt seed' c' n' pt'. cbv zeta. unfold gk_open. intros E.
      apply Hauth in E. rewrite <- surjective_pairing in E. apply Hsinj in E.
      destruct E as (Ek & -> & Ei & ->). apply Hk in Ek. destruct Ek as [-> _].
      apply (gk_info_inj oids H Hinj) in Ei. auto.
  - intros SK PK SS KEY pub dh KemKdf KeySched Seal Open (Hpub & Hcomm & Hkem & Hks) (Hcor & Hauth & Hsinj).
    repeat split.
    + intros e r seed group. unfold seal_group_key, open_group_key, hpke_send, hpke_recv.
      destruct (Seal _ _ seed) as [ct tag] eqn:Es.
      change site_open_groupkey_info with site_sealed_groupkey_info.
      rewrite (Hcomm r e).
      match type of Es with Seal ?k ?ad _ = _ => pose proof (Hcor k ad seed) as Hc end.
      rewrite Es in Hc. exact Hc.
    + intros e r seed group r' enc' group' seed'. unfold seal_group_key, open_group_key, hpke_send, hpke_recv.
      destruct (Seal _ _ seed) as [ct tag] eqn:Es. intros E. apply Hauth in E. rewrite <- Es in E.
      change site_open_groupkey_info with site_sealed_groupkey_info in E.
      apply Hsinj in E. destruct E as (Ek & _ & ->).
      apply Hks in Ek. destruct Ek as (_ & Ess & Ei). apply Hkem in Ess. destruct Ess as [_ Ec]. inv Ec.
      apply Hpub in H2. subst.
      apply group_info_inj in Ei; [|left; reflexivity]. auto.
    + intros e s r seed group. unfold seal_psk_seed, open_psk_seed, hpke_send, hpke_recv.
      destruct (Seal _ _ seed) as [ct tag] eqn:Es.
      change site_psk_open_info with site_psk_seal_info.
      rewrite (Hcomm r e), (Hcomm r s).
      match type of Es with Seal ?k ?ad _ = _ => pose proof (Hcor k ad seed) as Hc end.
      rewrite Es in Hc. exact Hc.
    + intros e s r seed group r' pkS' enc' group' seed'. unfold seal_psk_seed, open_psk_seed, hpke_send, hpke_recv.
      destruct (Seal _ _ seed) as [ct tag] eqn:Es. intros E. apply Hauth in E. rewrite <- Es in E.
      change site_psk_open_info with site_psk_seal_info in E.
      apply Hsinj in E. destruct E as (Ek & _ & ->).
      apply Hks in Ek. destruct Ek as (_ & Ess & Ei). apply Hkem in Ess. destruct Ess as [_ Ec]. inv Ec.
      apply Hpub in H2. subst.
      apply group_info_inj in Ei; [|right; reflexivity]. auto.
Qed.

(** * C38 *)
Definition uni_wf (p : uni_params) : Prop :=
  length (u_parent p) = 32%nat /\ length (u_seal_id p) = 32%nat /\ length (u_open_id p) = 32%nat
  /\ length (u_label p) = 32%nat.

Lemma uni_info_inj oids p p' : uni_wf p -> uni_wf p' ->
  hpke_info oids (uni_info p) = hpke_info oids (uni_info p') -> p = p'.
Proof.
  intros (H1 & H2 & H3 & H4) (H1' & H2' & H3' & H4') E.
  unfold hpke_info, uni_info, uni_info_input, info_struct_input in E.
  apply app_inv_tail in E. apply app_inv_head in E.
  change (site_args site_uni_info) with ["parent_cmd_id=parent_cmd_id"; "seal_id=seal_id"; "open_id=open_id"; "label_id=label_id"]%string in E.
  cbn [map] in E.
  apply fixed_concat_injective_proof in E.
  - cbn in E. inv E. destruct p, p'; cbn in *; congruence.
  - cbn. repeat constructor; cbn; congruence.
Qed.

(** C38: the key the author derives from its secret and the key the peer
    derives from the author's encapsulation are the same key exactly when
    the encapsulation is the author's, both sides use each other's key pairs
    and the same parent command, label, sealing and opening device; channels
    with seal_id = open_id are rejected; a device running the handler derives
    the seal end only of channels it seals and the open end only of channels
    it opens, never both ends of one channel. *)
Definition uni_keys_agree_iff_stmt : Prop :=
  forall (oids : list bytes) (SK PK SS KEY : Type) pub dh KemKdf (KeySched : bool -> SS -> bytes -> KEY),
    @ideal_hpke SK PK SS KEY pub dh KemKdf KeySched ->
    let from_author := uni_from_author_secret oids SK PK SS pub dh KEY KemKdf KeySched in
    let from_peer := uni_from_peer_encap oids SK PK SS pub dh KEY KemKdf KeySched in
    let secrets_new := uni_secrets_new oids SK PK SS pub dh KEY KemKdf KeySched in
    (forall root a b p p' enc b' apk' k1 k2,
       uni_wf p -> uni_wf p' ->
       from_author root a (pub b) p = Some k1 -> from_peer enc b' apk' p' = Some k2 ->
       (k1 = k2 <-> enc = pub root /\ b' = b /\ apk' = pub a /\ p' = p))
    /\ (forall root a b p, u_seal_id p <> u_open_id p ->
          exists enc k, secrets_new root a (pub b) p = Some (root, enc)
                        /\ from_author root a (pub b) p = Some k /\ from_peer enc b (pub a) p = Some k)
    /\ (forall root a bpk enc b apk p, u_seal_id p = u_open_id p ->
          secrets_new root a bpk p = None /\ from_author root a bpk p = None /\ from_peer enc b apk p = None)
    /\ (forall d parent open_id label parent' seal_id' label' p p',
          handler_created d parent open_id label = Some p ->
          handler_received d parent' seal_id' label' = Some p' ->
          u_seal_id p = d /\ u_open_id p <> d /\ u_open_id p' = d /\ u_seal_id p' <> d /\ p <> p').
Lemma bytes_eqb_false a b : bytes_eqb a b = false <-> a <> b.
Proof. split; intros H. - intros E. apply bytes_eqb_eq in E. congruence. - destruct (bytes_eqb a b) eqn:E; auto. apply bytes_eqb_eq in E. contradiction. Qed.
Lemma uni_keys_agree_iff_proof : uni_keys_agree_iff_stmt.
Proof.
  intros oids SK PK SS KEY pub dh KemKdf KeySched (Hpub & Hcomm & Hkem & Hks). cbv zeta.
  split; [|split; [|split]].
  - intros root a b p p' enc b' apk' k1 k2 Hw Hw' H1 H2.
    unfold uni_from_author_secret, uni_from_peer_encap in *.
    destruct (bytes_eqb (u_seal_id p) (u_open_id p)); [discriminate|].
    destruct (bytes_eqb (u_seal_id p') (u_open_id p')); [discriminate|]. inv H1. inv H2.
    unfold hpke_send, hpke_recv. cbn [snd]. split.
    + intros E. apply Hks in E. destruct E as (_ & Ess & Ei).
      apply Hkem in Ess. destruct Ess as [_ Ec]. inv Ec. apply Hpub in H1. subst.
      apply uni_info_inj in Ei; auto.
    + intros (-> & -> & -> & ->). now rewrite (Hcomm b root), (Hcomm b a).
  - intros root a b p Hne. unfold uni_secrets_new, uni_from_author_secret, uni_from_peer_encap.
    replace (bytes_eqb (u_seal_id p) (u_open_id p)) with false by (symmetry; now apply bytes_eqb_false).
    eexists _, _. repeat split. unfold hpke_send, hpke_recv. cbn [fst snd].
    now rewrite (Hcomm b root), (Hcomm b a).
  - intros root a bpk enc b apk p He.
    unfold uni_secrets_new, uni_from_author_secret, uni_from_peer_encap.
    replace (bytes_eqb (u_seal_id p) (u_open_id p)) with true by (symmetry; now apply bytes_eqb_eq). auto.
  - intros d parent open_id label parent' seal_id' label' p p' Hc Hr.
    unfold handler_created in Hc. unfold handler_received in Hr.
    destruct (bytes_eqb d open_id) eqn:E1; inv Hc. destruct (bytes_eqb seal_id' d) eqn:E2; inv Hr.
    apply bytes_eqb_false in E1, E2. cbn. repeat split; auto. intros Hp. inv Hp. congruence.
Qed.

(** The handler guards and channel constructions the model transcribes. *)
Lemma handler_pinned :
  handler_uni_channel_created_guard = ("self.device_id == effect.open_id", "AuthorMustBeSealer")%string
  /\ handler_uni_channel_created_channel = ["parent_cmd_id:effect.parent_cmd_id"; "seal_id:self.device_id"; "open_id:effect.open_id"; "our_sk"; "their_pk"; "label_id:effect.label_id"]%string
  /\ handler_uni_channel_created_variant = "SealOnly"%string
  /\ handler_uni_channel_received_guard = ("effect.seal_id == self.device_id", "AuthorMustBeSealer")%string
  /\ handler_uni_channel_received_channel = ["parent_cmd_id:effect.parent_cmd_id"; "seal_id:effect.seal_id"; "open_id:self.device_id"; "our_sk"; "their_pk"; "label_id:effect.label_id"]%string
  /\ handler_uni_channel_received_variant = "OpenOnly"%string
  /\ uni_same_id_guards = ["ch.seal_id == ch.open_id"; "ch.seal_id == ch.open_id"; "ch.seal_id == ch.open_id"]%string
  /\ find_site "UniSecrets::new" "hpke_setup_send_deterministically" framings_afc_uni
     = ("", "", ["Mode::Auth(&author_sk.sk)"; "peer_pk.pk"; "[ch.info().as_bytes()]"; "root_sk.clone().into_inner()"])%string
  /\ find_site "$name::from_author_secret" "hpke_setup_send_deterministically" framings_afc_uni
     = ("", "", ["Mode::Auth(&author_sk.sk)"; "peer_pk.pk"; "[ch.info().as_bytes()]"; "secret.sk.into_inner()"])%string
  /\ find_site "$name::from_peer_encap" "hpke_setup_recv" framings_afc_uni
     = ("", "", ["Mode::Auth(&author_pk.pk)"; "enc.as_inner()"; "peer_sk.sk"; "[ch.info().as_bytes()]"])%string
  /\ find_site "EncryptionPublicKey::seal_group_key" "hpke_setup_send" framings_aranya
     = ("", "", ["rng"; "Mode::Base"; "pk"; "[info.as_bytes()]"])%string
  /\ find_site "EncryptionKey::open_group_key" "hpke_setup_recv" framings_aranya
     = ("", "", ["Mode::Base"; "enc.0"; "sk"; "[info.as_bytes()]"])%string
  /\ find_site "EncryptionKey::seal_psk_seed" "hpke_setup_send" framings_tls_psk
     = ("", "", ["rng"; "Mode::Auth(&sk)"; "peer_pk.pk"; "[info.as_bytes()]"])%string
  /\ find_site "EncryptionKey::open_psk_seed" "hpke_setup_recv" framings_tls_psk
     = ("", "", ["Mode::Auth(&peer_pk.pk)"; "encap.0"; "sk"; "[info.as_bytes()]"])%string.
Proof. repeat split; reflexivity. Qed.

(** * Non-vacuity: concrete (toy) primitives satisfy the idealisations *)
Ltac tinj := match goal with H : tuple_input _ = tuple_input _ |- _ => apply tuple_input_injective_proof in H; inv H end.
Definition toy_aead_seal (k : N) (n ad pt : bytes) : bytes * bytes := (pt, tuple_input [[k]; n; ad; pt]).
Definition toy_aead_open (k : N) (n ad ct tag : bytes) : option bytes :=
  if bytes_eqb tag (tuple_input [[k]; n; ad; ct]) then Some ct else None.
Example toy_ideal_aead : ideal_aead toy_aead_seal toy_aead_open.
Proof.
  unfold ideal_aead, toy_aead_seal, toy_aead_open. repeat split.
  - intros. cbn [fst snd]. replace (bytes_eqb _ _) with true; auto. symmetry. now apply bytes_eqb_eq.
  - intros k n ad ct tag pt. destruct (bytes_eqb _ _) eqn:E; [|discriminate]. intros X; inv X.
    apply bytes_eqb_eq in E. now subst.
  - pose proof (f_equal snd H) as Ht; cbn [snd] in Ht. tinj. reflexivity.
  - pose proof (f_equal snd H) as Ht; cbn [snd] in Ht. tinj. reflexivity.
  - pose proof (f_equal snd H) as Ht; cbn [snd] in Ht. tinj. reflexivity.
  - exact (f_equal fst H).
Qed.

Definition toy_dh (a b : N) : bytes := [N.min a b; N.max a b].
Definition toy_kemkdf (l : list bytes) (c : list N) : bytes := tuple_input (c :: l).
Definition toy_keysched (m : bool) (s i : bytes) : bool * bytes * bytes := (m, s, i).
Example toy_ideal_hpke : @ideal_hpke N N bytes (bool * bytes * bytes) (fun k => k) toy_dh toy_kemkdf toy_keysched.
Proof.
  unfold ideal_hpke, toy_dh, toy_kemkdf, toy_keysched. repeat split; intros; try congruence.
  - now rewrite N.min_comm, N.max_comm.
  - tinj. reflexivity.
  - tinj. reflexivity.
Qed.
Definition toy_ctx_seal (k : bool * bytes * bytes) (ad pt : bytes) : bytes * bytes :=
  (pt, tuple_input [[if fst (fst k) then 1 else 0]; snd (fst k); snd k; ad; pt]).
Definition toy_ctx_open (k : bool * bytes * bytes) (ad ct tag : bytes) : option bytes :=
  if bytes_eqb tag (snd (toy_ctx_seal k ad ct)) then Some ct else None.
Example toy_ideal_ctx_aead : ideal_ctx_aead toy_ctx_seal toy_ctx_open.
Proof.
  unfold ideal_ctx_aead, toy_ctx_open. repeat split.
  - intros. unfold toy_ctx_seal at 1 3. cbn [fst snd]. replace (bytes_eqb _ _) with true; auto.
    symmetry. now apply bytes_eqb_eq.
  - intros k ad ct tag pt. destruct (bytes_eqb _ _) eqn:E; [|discriminate]. intros X; inv X.
    apply bytes_eqb_eq in E. subst. unfold toy_ctx_seal. reflexivity.
  - unfold toy_ctx_seal in H. pose proof (f_equal snd H) as Ht; cbn [snd] in Ht. clear H. tinj.
    destruct k as [[m s] i], k' as [[m' s'] i']. cbn in *. destruct m, m'; try discriminate; congruence.
  - unfold toy_ctx_seal in H. pose proof (f_equal snd H) as Ht; cbn [snd] in Ht. tinj. reflexivity.
  - unfold toy_ctx_seal in H. exact (f_equal fst H).
Qed.
Example uni_keys_nonvacuous :
  let p := {| u_parent := repeat 1 32; u_seal_id := repeat 2 32; u_open_id := repeat 3 32; u_label := repeat 4 32 |} in
  let p' := {| u_parent := repeat 1 32; u_seal_id := repeat 2 32; u_open_id := repeat 3 32; u_label := repeat 5 32 |} in
  let oids := [[1]; [2]; [3]; [4]; [5]; [6]] in
  uni_wf p /\ uni_wf p'
  /\ uni_from_author_secret oids N N bytes (fun k => k) toy_dh _ toy_kemkdf toy_keysched 11 22 33 p
     = uni_from_peer_encap oids N N bytes (fun k => k) toy_dh _ toy_kemkdf toy_keysched 11 33 22 p
  /\ uni_from_author_secret oids N N bytes (fun k => k) toy_dh _ toy_kemkdf toy_keysched 11 22 33 p
     <> uni_from_peer_encap oids N N bytes (fun k => k) toy_dh _ toy_kemkdf toy_keysched 11 33 22 p'
  /\ uni_from_author_secret oids N N bytes (fun k => k) toy_dh _ toy_kemkdf toy_keysched 11 22 33 p <> None.
Proof. cbv zeta. repeat split; try reflexivity; vm_compute; discriminate. Qed.

(** * C37, APQ topic keys *)
Lemma apq_sites_pinned :
  site_topic_msg_seal_ad = ("apq msg", "", ["version.to_be_bytes()[..]"; "topic.as_bytes()[..]"; "ident.enc_key.id()"; "ident.sign_key.id()"])%string
  /\ site_topic_msg_open_ad = ("apq msg", "", ["version.to_be_bytes()[..]"; "topic.as_bytes()[..]"; "ident.enc_key.id()"; "ident.sign_key.id()"])%string
  /\ site_topic_extract = ("APQ-v1", "topic_key_prk", ["salt=[]"; "seed"])%string
  /\ site_topic_expand = ("APQ-v1", "topic_key_key", ["prk=prk"; "version.to_be_bytes()"; "topic"])%string
  /\ site_topic_seal_info = ("TopicKeyRotation-v1", "", ["version=U32::new(version.as_u32())"; "topic=topic.0"])%string
  /\ site_topic_open_info = ("TopicKeyRotation-v1", "", ["version=U32::new(version.as_u32())"; "topic=topic.0"])%string
  /\ find_site "ReceiverPublicKey::seal_topic_key" "hpke_setup_send" framings_apq
     = ("", "", ["rng"; "Mode::Auth(&sk.sk)"; "pk"; "[ad.as_bytes()]"])%string
  /\ find_site "ReceiverSecretKey::open_topic_key" "hpke_setup_recv" framings_apq
     = ("", "", ["Mode::Auth(&pk.pk)"; "enc.0"; "sk"; "[ad.as_bytes()]"])%string
  /\ apq_aead_calls = [("seal_message", "seal", ["out"; "nonce"; "plaintext"; "ad"]);
                       ("open_message", "open", ["dst"; "nonce"; "ciphertext"; "ad"]);
                       ("seal_topic_key", "seal", ["mutdst"; "key.seed"; "ad"]);
                       ("open_topic_key", "open", ["mutseed"; "ciphertext"; "ad"]);
                       ("open_topic_key", "from_seed", ["seed"; "version"; "topic"])]%string
  /\ apq_sender_fields = ["enc_key"; "sign_key"]%string
  /\ find_site "SenderSigningKey::sign" "tuple_hash" framings_apq
     = ("apq record", "", ["version.to_be_bytes()"; "topic.as_bytes()[..]"; "public().id()"; "record"])%string
  /\ find_site "SenderVerifyingKey::verify" "tuple_hash" framings_apq
     = ("apq record", "", ["version.to_be_bytes()"; "topic.as_bytes()[..]"; "id()"; "record"])%string
  /\ In ("apq.rs", "TopicKeyRotationInfo", [("domain", "[u8;19]"); ("version", "U32<BE>"); ("topic", "[u8;16]")])%string repr_c_structs.
Proof. repeat split; try reflexivity. vm_compute. tauto. Qed.

Lemma tk_ad_inj oids H : (forall a b, H a = H b -> a = b) ->
  forall c c', tk_open_ad oids H c' = tk_seal_ad oids H c -> c' = c.
Proof.
  intros Hinj c c' E. unfold tk_open_ad, tk_seal_ad, topic_msg_open_ad_input, topic_msg_seal_ad_input in E.
  apply Hinj in E.
  change (site_domain site_topic_msg_open_ad) with (site_domain site_topic_msg_seal_ad) in E.
  apply cs_tuple_input_injective in E. destruct E as [_ E].
  change (site_args site_topic_msg_open_ad) with ["version.to_be_bytes()[..]"; "topic.as_bytes()[..]"; "ident.enc_key.id()"; "ident.sign_key.id()"]%string in E.
  change (site_args site_topic_msg_seal_ad) with ["version.to_be_bytes()[..]"; "topic.as_bytes()[..]"; "ident.enc_key.id()"; "ident.sign_key.id()"]%string in E.
  cbn in E. inv E. destruct c, c'; cbn in *; congruence.
Qed.
Lemma tk_ad_same oids H c : tk_open_ad oids H c = tk_seal_ad oids H c.
Proof. reflexivity. Qed.

Lemma rot_info_inj s oids v t v' t' :
  site_args s = ["version=U32::new(version.as_u32())"; "topic=topic.0"]%string ->
  length v = length v' -> length t = length t' ->
  hpke_info oids (info_struct_input s (rot_env v t)) = hpke_info oids (info_struct_input s (rot_env v' t')) ->
  v = v' /\ t = t'.
Proof.
  unfold hpke_info, info_struct_input. intros Hs Hv Ht E. apply app_inv_tail in E. apply app_inv_head in E.
  rewrite Hs in E. cbn [map] in E.
  apply fixed_concat_injective_proof in E.
  - cbn in E. inv E. auto.
  - cbn. repeat constructor; auto.
Qed.

(** C37 for topic keys: messages sealed under a topic key round-trip and open
    only under the same key, nonce, version, topic, sender encryption-key id
    and sender signing-key id (each a separate component); the key of a topic
    key is determined by (seed, version, topic); HPKE-sealed topic keys
    round-trip and open only for the same recipient, sender, encapsulation,
    version and topic. *)
Definition topic_seal_open_context_stmt : Prop :=
  forall (oids : list bytes) (H : bytes -> bytes),
    (forall a b, H a = H b -> a = b) ->
    (forall (AKey : Type) Seal Open (Kdf : bytes -> bytes -> AKey),
       ideal_aead Seal Open ->
       (forall s i s' i', Kdf s i = Kdf s' i' -> s = s' /\ i = i') ->
       (forall key c n pt,
          let ad := tk_seal_ad oids H c in
          tk_open_message oids H AKey Open key c n (fst (Seal key n ad pt)) (snd (Seal key n ad pt)) = Some pt
          /\ tk_seal_message oids H AKey Seal key c n pt = n ++ fst (Seal key n ad pt) ++ snd (Seal key n ad pt))
       /\ (forall key c n pt key' c' n' pt',
          let ad := tk_seal_ad oids H c in
          tk_open_message oids H AKey Open key' c' n' (fst (Seal key n ad pt)) (snd (Seal key n ad pt)) = Some pt' ->
          key' = key /\ t_version c' = t_version c /\ t_topic c' = t_topic c
          /\ t_enc_id c' = t_enc_id c /\ t_sign_id c' = t_sign_id c /\ n' = n /\ pt' = pt)
       /\ (forall seed v t seed' v' t',
          length v = 4%nat -> length v' = 4%nat -> length t = 16%nat -> length t' = 16%nat ->
          tk_key AKey Kdf seed v t = tk_key AKey Kdf seed' v' t' -> seed = seed' /\ v = v' /\ t = t'))
    /\ (forall (SK PK SS KEY : Type) pub dh KemKdf (KeySched : bool -> SS -> bytes -> KEY) Seal Open,
       @ideal_hpke SK PK SS KEY pub dh KemKdf KeySched -> ideal_ctx_aead Seal Open ->
       (forall e s r seed v t,
          let '(enc, (ct, tag)) := seal_topic_key oids SK PK SS pub dh KEY KemKdf KeySched Seal e s (pub r) seed v t in
          open_topic_key oids SK PK SS pub dh KEY KemKdf KeySched Open r (pub s) enc ct tag v t = Some seed)
       /\ (forall e s r seed v t r' pkS' enc' v' t' seed',
          length v = length v' -> length t = length t' ->
          let '(enc, (ct, tag)) := seal_topic_key oids SK PK SS pub dh KEY KemKdf KeySched Seal e s (pub r) seed v t in
          open_topic_key oids SK PK SS pub dh KEY KemKdf KeySched Open r' pkS' enc' ct tag v' t' = Some seed' ->
          r' = r /\ pkS' = pub s /\ enc' = enc /\ v' = v /\ t' = t /\ seed' = seed)).
Lemma topic_seal_open_context_proof : topic_seal_open_context_stmt.
Proof.
  intros oids H Hinj. split.
  - intros AKey Seal Open Kdf (Hcor & Hauth & Hsinj) Hk. split; [|split].
    + intros key c n pt. cbv zeta. split.
      * unfold tk_open_message. rewrite tk_ad_same. apply Hcor.
      * unfold tk_seal_message. destruct (Seal key n _ pt). reflexivity.
    + intros key c n pt key' c' n' pt'. cbv zeta. unfold tk_open_message. intros E.
      apply Hauth in E. rewrite <- surjective_pairing in E. apply Hsinj in E.
      destruct E as (-> & -> & Ead & ->). apply (tk_ad_inj oids H Hinj) in Ead. subst. repeat split; reflexivity.
    + intros seed v t seed' v' t' Hv Hv' Ht Ht' E. unfold tk_key in E. apply Hk in E. destruct E as [-> E].
      change topic_expand_info_args with ["version.to_be_bytes()"; "topic"]%string in E. cbn [map] in E.
      apply fixed_concat_injective_proof in E.
      * cbn in E. inv E. auto.
      * cbn. repeat constructor; cbn; congruence.
  - intros SK PK SS KEY pub dh KemKdf KeySched Seal Open (Hpub & Hcomm & Hkem & Hks) (Hcor & Hauth & Hsinj).
    split.
    + intros e s r seed v t. unfold seal_topic_key, open_topic_key, hpke_send, hpke_recv.
      destruct (Seal _ _ seed) as [ct tag] eqn:Es.
      change site_topic_open_info with site_topic_seal_info.
      rewrite (Hcomm r e), (Hcomm r s).
      match type of Es with Seal ?k ?ad _ = _ => pose proof (Hcor k ad seed) as Hc end.
      rewrite Es in Hc. exact Hc.
    + intros e s r seed v t r' pkS' enc' v' t' seed' Hv Ht.
      unfold seal_topic_key, open_topic_key, hpke_send, hpke_recv.
      destruct (Seal _ _ seed) as [ct tag] eqn:Es. intros E. apply Hauth in E. rewrite <- Es in E.
      change site_topic_open_info with site_topic_seal_info in E.
      apply Hsinj in E. destruct E as (Ek & _ & ->).
      apply Hks in Ek. destruct Ek as (_ & Ess & Ei). apply Hkem in Ess. destruct Ess as [_ Ec]. inv Ec.
      apply Hpub in H2. subst.
      apply (rot_info_inj site_topic_seal_info oids _ _ _ _ eq_refl (eq_sym Hv) (eq_sym Ht)) in Ei.
      destruct Ei as [-> ->]. repeat split; reflexivity.
Qed.

Example topic_keys_nonvacuous :
  let c := {| t_version := [0; 0; 0; 3]; t_topic := repeat 5 16; t_enc_id := repeat 6 32; t_sign_id := repeat 7 32 |} in
  let c_sign := {| t_version := [0; 0; 0; 3]; t_topic := repeat 5 16; t_enc_id := repeat 6 32; t_sign_id := repeat 6 32 |} in
  let oids := [[1]; [2]; [3]; [4]; [5]; [6]] in
  let sealed := toy_aead_seal 9 [1; 2] (tk_seal_ad oids (fun x => x) c) [104; 105] in
  tk_open_message oids (fun x => x) N toy_aead_open 9 c [1; 2] (fst sealed) (snd sealed) = Some [104; 105]
  /\ tk_open_message oids (fun x => x) N toy_aead_open 9 c_sign [1; 2] (fst sealed) (snd sealed) = None.
Proof. vm_compute. split; reflexivity. Qed.
