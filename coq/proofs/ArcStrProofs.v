(** Proofs about the atomic reference count model [model/ArcStr.v] (C33). *)
From Coq Require Import String.
From Aranya Require Import base.Tactics base.Interleave gen.GenConc model.ArcStr.
Open Scope string_scope.
Open Scope list_scope.
Open Scope nat_scope.

Lemma arcstr_ops_pinned :
  arcstr_ops =
  [("clone", "fetch_add", "Relaxed");     (* site 30 *)
   ("drop", "fetch_sub", "Release");      (* site 31 *)
   ("drop", "fence", "Acquire");          (* site 32 *)
   ("drop", "dealloc", "")].              (* site 33 *)
Proof. reflexivity. Qed.

Lemma max_refcount_pinned : max_refcount = 9223372036854775807%N.
Proof. reflexivity. Qed.

Record AInv (g : astate) : Prop := {
  a_strong : strong (sh g) = N.of_nat (ahandles g + leaked (sh g));
  a_live : 1 <= ahandles g -> afreed (sh g) = 0 /\ n_apc AFence g + n_apc AFree g = 0;
  a_dead : ahandles g = 0 ->
           afreed (sh g) + n_apc AFence g + n_apc AFree g = (if leaked (sh g) =? 0 then 1 else 0);
  a_uaf : auaf (sh g) = false;
  a_own : forall t l, at_ g t l ->
          (apc_of l = AClone \/ apc_of l = ARead \/ apc_of l = ADrop) -> 1 <= held l
}.

Lemma sumf_repeat0 {A} (f : A -> nat) x n : f x = 0 -> sumf f (repeat x n) = 0.
Proof. intros H. induction n; cbn; auto. rewrite H, IHn. reflexivity. Qed.

Lemma AInv_init n : AInv (ainit n).
Proof.
  unfold ainit. constructor; unfold ahandles, n_held, n_apc; cbn [sh th strong afreed auaf pool leaked sumf];
    rewrite ?sumf_repeat0 by reflexivity; cbn; auto; try lia.
  intros t l H. unfold at_ in H. cbn [th] in H. destruct t; cbn [nth_error] in H.
  - inv H. cbn. lia.
  - apply nth_error_In in H. apply repeat_spec in H. subst. cbn. intros [H|[H|H]]; discriminate.
Qed.

Theorem astep_preserves g e g' : AInv g -> agstep e g = Some g' -> AInv g'.
Proof.
  intros HI Hs. apply gstep_inv in Hs. destruct Hs as (l & l' & Hat & Hst & Hth).
  pose proof (at_after _ _ _ _ _ _ _ _ _ Hat Hth) as Hafter.
  pose proof (a_own _ HI _ _ Hat) as Kown.
  unfold at_ in Hat.
  pose proof (sumf_upd held _ _ _ l' Hat) as SH.
  pose proof (sumf_upd (is_apc AFence) _ _ _ l' Hat) as S1.
  pose proof (sumf_upd (is_apc AFree) _ _ _ l' Hat) as S2.
  pose proof (sumf_ge held _ _ _ Hat) as GH.
  pose proof (sumf_ge (is_apc AFence) _ _ _ Hat) as G1.
  pose proof (sumf_ge (is_apc AFree) _ _ _ Hat) as G2.
  rewrite <- Hth in *.
  destruct HI as [K1 K2 K3 K4 K5].
  unfold ahandles, n_held, n_apc in *.
  destruct g as [[st fr ua po le] ths]; destruct g' as [s' ths']; cbn [sh th strong afreed auaf pool leaked] in *.
  destruct e as [t o]; destruct l as [p n]; cbn [atid] in *.
  unfold astep, atouch in Hst. cbn [apc_of held strong afreed auaf pool leaked] in *.
  subst ua.
  destruct p; [destruct o|..]; cbn [is_apc apc_of held] in *;
    repeat (destr_if_in Hst; try discriminate); inv Hst;
    repeat match goal with E : (1 <=? _) = true |- _ => apply Nat.leb_le in E end;
    repeat match goal with E : (_ <=? _)%N = _ |- _ => first [apply N.leb_le in E | apply N.leb_gt in E] end;
    repeat match goal with E : (_ =? _)%N = _ |- _ => first [apply N.eqb_eq in E | apply N.eqb_neq in E] end;
    cbn [is_apc apc_of held] in *;
    try (assert (1 <= n) by (first [apply Kown; auto | lia]));
    destruct (Nat.eqb_spec le 0);
    try (assert (fr = 0) by lia; subst fr; cbn [Nat.ltb Nat.leb orb] in * );
    (constructor; unfold ahandles, n_held, n_apc; cbn [sh th strong afreed auaf pool leaked];
     [ try lia | try (intros; lia) | try (intros; repeat match goal with |- context [Nat.eqb ?a ?b] => destruct (Nat.eqb_spec a b) end; lia) | try reflexivity
     | let t0 := fresh "t0" in let x := fresh "x" in let H := fresh "H" in let Hp := fresh "Hp" in
       intros t0 x H Hp; apply Hafter in H; destruct H as [[? ?]|[? H]];
       [ subst; cbn [apc_of held] in *; first [lia | destruct Hp as [Hp|[Hp|Hp]]; discriminate | idtac]
       | eapply K5; eauto ] ]).
Qed.

Theorem AInv_run n sched : AInv (arun sched (ainit n)).
Proof.
  unfold arun. apply invariant_run with (Inv := AInv).
  - apply AInv_init.
  - intros g e g' HI Hs. eapply astep_preserves; eauto.
Qed.

Lemma AInv_exec g e : AInv g -> AInv (exec atid astep g e).
Proof.
  intros HI. unfold exec. destruct (gstep atid astep e g) eqn:E; auto. eapply astep_preserves; eauto.
Qed.

(** ---- statements (C33) ---- *)

Definition refcount_is_handles_stmt : Prop :=
  forall (n : nat) (sched : list aevent),
  let g := arun sched (ainit n) in
  strong (sh g) = N.of_nat (ahandles g + leaked (sh g))
  /\ (leaked (sh g) = 0 -> strong (sh g) = N.of_nat (ahandles g)).
Lemma refcount_is_handles_proof : refcount_is_handles_stmt.
Proof.
  intros n sched g. pose proof (a_strong _ (AInv_run n sched)) as K. fold g in K. split; auto.
  intros E. rewrite E, Nat.add_0_r in K. auto.
Qed.

Definition no_read_after_free_stmt : Prop :=
  forall (n : nat) (sched : list aevent),
  let g := arun sched (ainit n) in
  auaf (sh g) = false
  /\ forall t l, at_ g t l ->
     (apc_of l = AClone \/ apc_of l = ARead \/ apc_of l = ADrop) -> afreed (sh g) = 0.
Lemma no_read_after_free_proof : no_read_after_free_stmt.
Proof.
  intros n sched g. pose proof (AInv_run n sched) as HI. fold g in HI. split.
  - apply (a_uaf _ HI).
  - intros t l Hat Hp. apply (a_live _ HI).
    pose proof (a_own _ HI _ _ Hat Hp). pose proof (sumf_ge held _ _ _ Hat).
    unfold ahandles, n_held. lia.
Qed.

Definition freed_at_most_once_stmt : Prop :=
  forall (n : nat) (sched : list aevent),
  let g := arun sched (ainit n) in
  afreed (sh g) <= 1 /\ (1 <= ahandles g -> afreed (sh g) = 0).
Lemma freed_at_most_once_proof : freed_at_most_once_stmt.
Proof.
  intros n sched g. pose proof (AInv_run n sched) as HI. fold g in HI.
  pose proof (a_live _ HI) as K2. pose proof (a_dead _ HI) as K3. split.
  - destruct (Nat.eq_dec (ahandles g) 0) as [E|E].
    + specialize (K3 E). destruct (leaked (sh g) =? 0); lia.
    + destruct K2; lia.
  - intros H. apply K2; auto.
Qed.

(** A clone can only fail its overflow assertion from a state with more than
    MAX_REFCOUNT live handles; as long as that never happens no increment is leaked. *)
Definition small (n : nat) (sched : list aevent) : Prop :=
  forall k, (N.of_nat (ahandles (arun (firstn k sched) (ainit n))) <= max_refcount)%N.

Lemma leaked_step g e g' :
  AInv g -> agstep e g = Some g' -> leaked (sh g) = 0 ->
  (N.of_nat (ahandles g) <= max_refcount)%N -> leaked (sh g') = 0.
Proof.
  intros HI Hs Hl Hsm. pose proof (a_strong _ HI) as K1. rewrite Hl, Nat.add_0_r in K1.
  apply gstep_inv in Hs. destruct Hs as (l & l' & _ & Hst & _).
  destruct g' as [s' ths']. cbn [sh] in *. destruct e as [t o]. unfold astep in Hst.
  destruct (apc_of l); [destruct o|..]; repeat (destr_if_in Hst; try discriminate); inv Hst; cbn [leaked]; auto.
  apply N.leb_gt in E. lia.
Qed.

Lemma no_overflow_from sched : forall g : astate,
  AInv g -> leaked (sh g) = 0 ->
  (forall k, (N.of_nat (ahandles (arun (firstn k sched) g)) <= max_refcount)%N) ->
  leaked (sh (arun sched g)) = 0.
Proof.
  induction sched as [|e r IH]; intros g HI Hl Hs; auto.
  unfold arun in *. cbn [run fold_left].
  change (fold_left (exec atid astep) r (exec atid astep g e)) with (run atid astep r (exec atid astep g e)).
  apply IH.
  - apply AInv_exec; auto.
  - unfold exec. destruct (gstep atid astep e g) eqn:E; auto.
    eapply leaked_step; eauto. apply (Hs 0).
  - intros k. apply (Hs (S k)).
Qed.

Definition no_overflow_stmt : Prop :=
  forall (n : nat) (sched : list aevent),
  small n sched -> leaked (sh (arun sched (ainit n))) = 0.
Lemma no_overflow_proof : no_overflow_stmt.
Proof. intros n sched Hs. apply no_overflow_from; auto. apply AInv_init. Qed.

(** Quiescence: no handle is left and every thread is idle. *)
Definition aquiescent (g : astate) : Prop :=
  ahandles g = 0 /\ forall t l, at_ g t l -> apc_of l = AIdle.
Definition no_leak_stmt : Prop :=
  forall (n : nat) (sched : list aevent),
  let g := arun sched (ainit n) in
  small n sched -> aquiescent g -> afreed (sh g) = 1.
Lemma no_leak_proof : no_leak_stmt.
Proof.
  intros n sched g Hs [H0 Hq]. pose proof (AInv_run n sched) as HI. fold g in HI.
  pose proof (a_dead _ HI H0) as K3. pose proof (no_overflow_proof n sched Hs) as Hl. fold g in Hl.
  rewrite Hl in K3. cbn in K3.
  assert (Z : forall p, p <> AIdle -> n_apc p g = 0).
  { intros p Hp. unfold n_apc. apply sumf_all_zero. intros x Hx. apply In_nth_error in Hx. destruct Hx as [i Hi].
    unfold is_apc. rewrite (Hq i x Hi). destruct p; congruence. }
  rewrite (Z AFence), (Z AFree) in K3 by discriminate. lia.
Qed.

(** ---- non-vacuity ---- *)
Definition ademo : list aevent :=
  [AEv 0 OClone; AEv 0 OClone; AEv 0 OGive; AEv 1 OTake;        (* a clone moves to thread 1 *)
   AEv 1 OClone; AEv 0 ODrop; AEv 1 OClone; AEv 0 ODrop;          (* clone races with a drop *)
   AEv 1 ORead; AEv 1 ORead;
   AEv 1 ODrop; AEv 1 ODrop; AEv 1 ODrop; AEv 1 ODrop;            (* two drops: the second is the last *)
   AEv 1 ODrop; AEv 1 ODrop].                                      (* fence, free *)
Example ademo_trace :
  map (fun k => let g := arun (firstn k ademo) (ainit 1) in (strong (sh g), ahandles g, afreed (sh g)))
      [2; 4; 8; 12; 14; 16]
  = [(2%N, 2, 0); (2%N, 2, 0); (2%N, 2, 0); (1%N, 1, 0); (0%N, 0, 0); (0%N, 0, 1)].
Proof. vm_compute. reflexivity. Qed.
Example ademo_small : small 1 ademo.
Proof.
  intros k. do 17 (destruct k as [|k]; [vm_compute; discriminate|]).
  rewrite firstn_all2 by (cbn; lia). vm_compute; discriminate.
Qed.
Example ademo_quiescent : aquiescent (arun ademo (ainit 1)).
Proof.
  split; [vm_compute; reflexivity|].
  intros t l H. unfold at_ in H. vm_compute in H.
  destruct t as [|[|t]]; cbn in H; try (inv H; reflexivity). destruct t; discriminate.
Qed.
