(** Lemmas: the guarded sites of [model/FrontendLocal.v] are unreachable. *)
From Coq Require Import String List Bool NArith Arith Lia.
From Aranya Require Import model.FrontendLocal.
Import ListNotations.
Open Scope string_scope.
Open Scope list_scope.

Definition no_panic {A} (r : res A) : Prop := match r with Panic _ => False | Ret _ => True end.

Lemma hex_nibble_no_panic ch : no_panic (hex_char_to_nibble ch).
Proof.
  unfold hex_char_to_nibble, sub8, add8, bind.
  destruct ((48 <=? ch)%N && (ch <=? 57)%N) eqn:E1.
  { apply andb_true_iff in E1 as [A B]. rewrite A. exact I. }
  destruct ((97 <=? ch)%N && (ch <=? 102)%N) eqn:E2.
  { apply andb_true_iff in E2 as [A B]. rewrite A.
    assert (H : (ch - 97 + 10 <=? 255)%N = true) by (apply N.leb_le; apply N.leb_le in A, B; lia).
    rewrite H. exact I. }
  destruct ((65 <=? ch)%N && (ch <=? 70)%N) eqn:E3.
  { apply andb_true_iff in E3 as [A B]. rewrite A.
    assert (H : (ch - 65 + 10 <=? 255)%N = true) by (apply N.leb_le; apply N.leb_le in A, B; lia).
    rewrite H. exact I. }
  exact I.
Qed.

(** The sum of two offsets bounded by [isize::MAX] (both are positions in, or lengths of, one
    string) fits in [usize]; so does such an offset plus a small constant. *)
Lemma offsets_no_wrap a b : (a <= isize_max -> b <= isize_max -> no_panic (addu "a+b" a b))%N.
Proof.
  intros Ha Hb. unfold addu.
  assert (H1 : (a + b <=? usize_max)%N = true) by (apply N.leb_le; unfold isize_max, usize_max in *; lia).
  rewrite H1. exact I.
Qed.

Lemma offset_plus_small_no_wrap a c : (a <= isize_max -> c <= 16 -> no_panic (addu "a+c" a c))%N.
Proof.
  intros Ha Hc. unfold addu.
  assert (H1 : (a + c <=? usize_max)%N = true) by (apply N.leb_le; unfold isize_max, usize_max in *; lia).
  rewrite H1. exact I.
Qed.

Lemma last_opt_in {A} (l : list A) x : last_opt l = Some x -> In x l.
Proof.
  unfold last_opt. destruct (rev l) as [|y r] eqn:E; [discriminate|]. intros H. injection H as ->.
  apply in_rev. rewrite E. left; auto.
Qed.

Lemma last_opt_none {A} (l : list A) : last_opt l = None -> l = [].
Proof.
  unfold last_opt. destruct (rev l) eqn:E; [|discriminate]. intros _.
  rewrite <- (rev_involutive l), E. reflexivity.
Qed.

(** [add]: the [Occupied] arm is unreachable whatever the stack is; with a function scope that
    has a block, no site of [add] panics. *)
Lemma its_add_unreachable globals locals k : its_add globals locals k <> Panic "unreachable!()".
Proof.
  unfold its_add. destruct (has k globals); [discriminate|].
  destruct (last_opt locals) as [fs|]; [|discriminate].
  destruct (existsb (has k) fs) eqn:E; [discriminate|].
  destruct (last_opt fs) as [b|] eqn:Eb; [|discriminate].
  destruct (has k b) eqn:Hb; [|discriminate].
  exfalso. apply last_opt_in in Eb.
  assert (existsb (has k) fs = true) by (apply existsb_exists; eauto). congruence.
Qed.

Lemma its_add_no_panic globals locals k :
  locals <> [] -> Forall (fun fs => fs <> []) locals -> no_panic (its_add globals locals k).
Proof.
  intros Hne Hall. pose proof (its_add_unreachable globals locals k) as Hu.
  unfold its_add in *. destruct (has k globals); [exact I|].
  destruct (last_opt locals) as [fs|] eqn:El; [|apply last_opt_none in El; contradiction].
  destruct (existsb (has k) fs); [exact I|].
  destruct (last_opt fs) as [b|] eqn:Eb.
  - destruct (has k b); [congruence|exact I].
  - apply last_opt_none in Eb. apply last_opt_in in El. rewrite Forall_forall in Hall.
    apply Hall in El. contradiction.
Qed.

(** Bracketed use of the scope stack never panics and restores the stack. *)
Definition st_inv (s : stack) : Prop := s <> [] /\ Forall (fun n => 1 <= n) s.

Lemma run_bracketed p : forall s, st_inv s ->
  match run p s with RPanic _ => False | RStop => True | RDone s' => s' = s end.
Proof.
  induction p as [|body IHb rest IHr|body IHb rest IHr|rest IHr|]; intros s [Hne Hall]; cbn [run].
  - reflexivity.
  - (* function *)
    unfold enter_function.
    assert (Hi : st_inv (s ++ [1])).
    { split; [destruct s; discriminate|]. apply Forall_app; split; auto. }
    specialize (IHb _ Hi). destruct (run body (s ++ [1])) as [x|  |s2]; auto. subst s2.
    unfold exit_function. rewrite rev_app_distr. cbn. rewrite rev_involutive.
    apply IHr. split; auto.
  - (* block *)
    unfold enter_block. destruct (rev s) as [|n r] eqn:Er.
    { exfalso. apply Hne. rewrite <- (rev_involutive s), Er. reflexivity. }
    assert (Hs : s = rev r ++ [n]) by (rewrite <- (rev_involutive s), Er; reflexivity).
    assert (Hi : st_inv (rev (S n :: r))).
    { cbn. split; [destruct (rev r); discriminate|].
      subst s. apply Forall_app in Hall as [H1 H2]. apply Forall_app; split; auto.
      constructor; auto. lia. }
    specialize (IHb _ Hi). destruct (run body (rev (S n :: r))) as [x| |s2]; auto. subst s2.
    unfold exit_block. rewrite rev_involutive.
    cbn [rev]. rewrite <- Hs. apply IHr. split; auto.
  - (* use *)
    unfold use_scope. destruct (rev s) as [|n r] eqn:Er.
    { exfalso. apply Hne. rewrite <- (rev_involutive s), Er. reflexivity. }
    destruct n as [|n].
    + exfalso. assert (Hs : s = rev r ++ [0]) by (rewrite <- (rev_involutive s), Er; reflexivity).
      subst s. apply Forall_app in Hall as [_ H2]. inversion H2; subst. lia.
    + apply IHr. split; auto.
  - exact I.
Qed.

Lemma initial_stack_inv : st_inv [1].
Proof. split; [discriminate|repeat constructor]. Qed.

Lemma walk_arms_no_panic {A B} (arms : list A) (patterns : list B) :
  length arms = length patterns -> no_panic (walk_arms arms patterns).
Proof.
  revert patterns. induction arms as [|a arms IH]; intros [|p ps]; cbn; intros H; try discriminate; auto.
Qed.

Lemma expr_type_after_no_panic {A} (arms : list A) : arms <> [] -> no_panic (expr_type_after arms).
Proof.
  intros Hne. unfold expr_type_after.
  assert (H : forall l (t : option unit), (t <> None \/ l <> []) ->
              fold_left (fun (t : option unit) (_ : A) => Some tt) l t <> None).
  { induction l as [|x l IH]; intros t [Ht|Ht]; cbn; auto; try congruence; apply IH; left; discriminate. }
  specialize (H arms None (or_intror Hne)).
  destruct (fold_left _ arms None); [exact I|congruence].
Qed.

Lemma for_last_no_panic {A} (todo done : list A) : no_panic (for_last done todo).
Proof.
  revert done. induction todo as [|x rest IH]; intros done; cbn; [exact I|].
  destruct (last_opt (done ++ x :: rest)) eqn:E; [apply IH|].
  apply last_opt_none in E. destruct done; discriminate.
Qed.

Lemma two_defaults_no_panic {A} (v : list A) : no_panic (two_defaults v).
Proof.
  unfold two_defaults. destruct (1 <? length v)%nat eqn:E; [|exact I].
  apply Nat.ltb_lt in E. destruct v as [|a [|b r]]; cbn in *; try lia; exact I.
Qed.

Lemma validate_after_resolve labels : no_panic (validate_labels (resolve_targets labels)).
Proof.
  unfold validate_labels, resolve_targets.
  destruct (existsb is_temp (filter (fun l => negb (is_temp l)) labels)) eqn:E; [|exact I].
  apply existsb_exists in E as (l & Hin & Ht). apply filter_In in Hin as [_ Hn].
  rewrite Ht in Hn. discriminate.
Qed.

Lemma binding_prologue_no_panic values : no_panic (binding_prologue values).
Proof.
  unfold binding_prologue. destruct (find is_ident values) as [[n|]|] eqn:E; try exact I.
  apply find_some in E as [_ E]. discriminate.
Qed.

Lemma ffi_codegen_no_panic stub : no_panic (ffi_codegen stub).
Proof. destruct stub; exact I. Qed.

Lemma compile_action_ret_no_panic b : no_panic (compile_action_ret (parsed_action_ret b)).
Proof. destruct b; exact I. Qed.

Lemma parse_type_no_panic depth : forall style outer is_old,
  (style <> StUnknown -> outer <> None) -> no_panic (parse_type_depth depth style outer is_old).
Proof.
  induction depth as [|d IH]; intros style outer is_old H; cbn.
  - destruct style; cbn; try exact I.
    + destruct outer; [exact I|]. apply H; [discriminate|reflexivity].
    + destruct is_old; [|exact I]. destruct outer; [exact I|]. apply H; [discriminate|reflexivity].
  - destruct style; cbn.
    + apply IH. intros _. discriminate.
    + destruct outer; [exact I|]. apply H; [discriminate|reflexivity].
    + destruct is_old.
      * destruct outer; [exact I|]. apply H; [discriminate|reflexivity].
      * apply IH. intros _. discriminate.
Qed.

Lemma insert_all_no_panic names : forall seen,
  nodupb names = true -> (forall n, In n names -> existsb (String.eqb n) seen = false) ->
  no_panic (insert_all seen names).
Proof.
  induction names as [|n rest IH]; intros seen Hd Hs; cbn; [exact I|].
  rewrite (Hs n (or_introl eq_refl)). cbn in Hd. apply andb_true_iff in Hd as [Hn Hr].
  apply IH; auto. intros m Hm. cbn.
  destruct (String.eqb m n) eqn:E.
  - apply String.eqb_eq in E. subst. apply negb_true_iff in Hn.
    assert (existsb (String.eqb n) rest = true) by (apply existsb_exists; exists n; split; auto; apply String.eqb_refl).
    congruence.
  - cbn. apply Hs. right; auto.
Qed.

Lemma grammar_identifier_valid bs :
  grammar_identifier bs = true -> identifier_validate bs = true.
Proof.
  destruct bs as [|b r]; cbn [grammar_identifier identifier_validate]; [auto|].
  intros H. apply andb_true_iff in H as [Ha Hr]. rewrite Ha, Hr. cbn [andb].
  apply negb_true_iff. apply not_true_is_false. intros E.
  apply existsb_exists in E as (c & Hc & Ec). apply N.eqb_eq in Ec.
  assert (Hz : is_alnum_ 0 = false) by reflexivity.
  assert (Hz' : is_alpha 0 = false) by reflexivity.
  destruct Hc as [Hb|Hc].
  - subst b. rewrite <- Ec in Ha. congruence.
  - rewrite forallb_forall in Hr. specialize (Hr _ Hc). rewrite <- Ec in Hr. congruence.
Qed.
