(** Forward simulation: the reference semantics of [model/Lang.v] against the
    VM ([model/Vm.v]) running the code laid out by [model/CompileDirect.v]. *)
From Aranya Require Import base.Tactics model.VmBase gen.GenVm model.Vm model.Lang model.Typing
  model.Compile model.CompileDirect proofs.SimBase proofs.CompileEqns proofs.CompileLayout.
Local Open Scope N_scope.

(** * The I/O oracle of the reference semantics as a [MachineIO] *)

(** A foreign function that honours its signature: it consumes its arguments from the
    stack and pushes its result (an FFI that finds the stack full reports it). *)
Definition vm_io_of {St} (lio : lang_io St) (p : policy) : MachineIO St :=
  {| io_fact_insert := lio_insert lio;
     io_fact_delete := lio_delete lio;
     io_fact_query := lio_query lio;
     io_effect := lio_effect lio;
     io_call := fun s mid pid stack ctx =>
       match find (fun d => N.eqb (ffi_mid d) mid && N.eqb (ffi_pid d) pid) (p_ffi p) with
       | None => (s, [], RErr (error_new (ME_FfiModuleNotDefined mid)))
       | Some d =>
         let n := List.length (ffi_params d) in
         let '(s', r) := lio_ffi lio s mid pid (rev (firstn n stack)) ctx in
         match r with
         | RErr e => (s', [], RErr (error_new e))
         | ROk v =>
           if len (skipn n stack) <? STACK_SIZE
           then (s', repeat SO_Pop n ++ [SO_Push v], ROk tt)
           else (s', [], RErr (error_new ME_StackOverflow))
         end
       end;
     io_serialize := fun s _ => (s, RErr 0);
     io_deserialize := fun s _ _ => (s, RErr 0) |}.

Definition field_of (f : ident * TypeKind) : Field := mkField (fst f) (snd f).

(** Splitting [at_pc] facts about a laid-out piece of code into its parts. *)
Ltac split_at H :=
  repeat match type of H with
         | at_pc _ _ (_ ++ _) =>
           let H1 := fresh H in apply at_pc_app in H; destruct H as [H1 H]; autorewrite with len in H; split_at H1
         | at_pc _ _ (_ :: _) =>
           let H1 := fresh H in apply at_pc_cons in H; destruct H as [H1 H]
         | at_pc _ _ [] => clear H
         end.

(** the instruction at the current pc: some hypothesis names it, up to arithmetic *)
Ltac lookup :=
  cbn [rs_pc];
  match goal with
  | H : nth_error (progmem _) (N.to_nat ?a) = Some _ |- nth_error (progmem _) (N.to_nat ?b) = Some _ =>
    replace b with a by lia; exact H
  end.

Ltac in_range := split; cbn [depth rs_call_state rs_pc]; [lia | intros _; lia].


Section Sim.
  Context {St : Type}.
  Variable dbg : bool.               (* cfg!(debug_assertions) of the VM build *)
  Variable lio : lang_io St.
  Variable p : policy.
  Variable is_debug : bool.          (* the compiler's debug flag *)
  Variable m : Machine.
  Notation io := (vm_io_of lio p).
  Notation RS := (RunState St).
  Notation S := (@mkRunState St).
  Notation mruno := (SimBase.mruno dbg io m).

  (** the machine holds no source map, fits the address space, and carries the policy's
      globals and struct definitions *)
  Hypothesis Hcm : codemap m = None.
  Hypothesis Hlen : len (progmem m) <= usize_max.
  Hypothesis Hglob : forall x, option_map const_to_value (amap_get x (globals m)) = amap_get x (globals_of p).
  Hypothesis Hsd : forall n, struct_def m n
                             = option_map (fun fs => mkStructDef n (map field_of fs)) (struct_fields_of p n).

  Variable la : Label -> N.
  Variable cmd : ident.
  Variable in_recall : bool.

  (** the callees, as the reference semantics sees them (instantiated with one unit of fuel less) *)
  Variable call_fun : ident -> list Value -> world St -> outcome St Value.
  Variable call_fin : ident -> list Value -> world St -> outcome St unit.
  Variable call_recall : ident -> list Value -> world St -> outcome St unit.
  Variable fin_exit : ExitReason.

  Notation sz_expr := (CompileDirect.sz_expr p is_debug).
  Notation sz_exprs := (CompileDirect.sz_exprs p is_debug).
  Notation sz_fields := (CompileDirect.sz_fields p is_debug).
  Notation sz_stmt := (CompileDirect.sz_stmt p is_debug).
  Notation sz_stmts := (CompileDirect.sz_stmts p is_debug).
  Notation sz_earms := (CompileDirect.sz_earms p is_debug).
  Notation sz_sarms := (CompileDirect.sz_sarms p is_debug).
  Notation sz_branches := (CompileDirect.sz_branches p is_debug).
  Notation d_expr := (CompileDirect.d_expr p is_debug la cmd in_recall).
  Notation d_exprs := (CompileDirect.d_exprs p is_debug la cmd in_recall).
  Notation d_fields := (CompileDirect.d_fields p is_debug la cmd in_recall).
  Notation d_stmt := (CompileDirect.d_stmt p is_debug la cmd in_recall).
  Notation d_stmts := (CompileDirect.d_stmts p is_debug la cmd in_recall).
  Notation d_earms := (CompileDirect.d_earms p is_debug la cmd in_recall).
  Notation d_sarms := (CompileDirect.d_sarms p is_debug la cmd in_recall).
  Notation d_branches := (CompileDirect.d_branches p is_debug la cmd in_recall).
  Notation eval_expr := (Lang.eval_expr lio p is_debug call_fun call_fin call_recall fin_exit).
  Notation eval_exprs := (Lang.eval_exprs lio p is_debug call_fun call_fin call_recall fin_exit).
  Notation eval_fields := (Lang.eval_fields lio p is_debug call_fun call_fin call_recall fin_exit).
  Notation eval_stmt := (Lang.eval_stmt lio p is_debug call_fun call_fin call_recall fin_exit).
  Notation eval_stmts := (Lang.eval_stmts lio p is_debug call_fun call_fin call_recall fin_exit).
  Notation eval_earms := (Lang.eval_earms lio p is_debug call_fun call_fin call_recall fin_exit).
  Notation eval_sarms := (Lang.eval_sarms lio p is_debug call_fun call_fin call_recall fin_exit).
  Notation eval_branches := (Lang.eval_branches lio p is_debug call_fun call_fin call_recall fin_exit).
  Notation G := (globals_of p).

  (** the frame of the function being evaluated: its call-state, the scopes of its callers,
      the stack below its own values, the query iterators *)
  Variable cs : list N.
  Variable outer : scope_t.
  Variable base : list Value.
  Variable qi : list (Fact * list query_item).

  Definition depth (s : RS) : nat := List.length (rs_call_state s).
  (** every visited state is at this depth or deeper, and at this depth inside [lo, hi) *)
  Definition Qr (lo hi : N) (s : RS) : Prop :=
    (List.length cs <= depth s)%nat /\ (depth s = List.length cs -> lo <= rs_pc s < hi).

  Definition st (en : env) (sg : list Value) (pc : N) (w : world St) : RS :=
    S (en :: outer) (sg ++ base) cs pc (w_ctx w) qi (w_io w).

  (** what a [return] leads to: back in the caller, or - in the outermost function - a normal exit *)
  Definition is_ret (v : Value) (w : world St) (r : mres) : Prop :=
    match cs with
    | [] => False
    | sp :: rest =>
      sp = len base /\
      match rest with
      | [] => exists sc pcr, r = MExit ER_Normal (S sc (v :: base) [] pcr (w_ctx w) qi (w_io w))
      | ra :: cs' => r = MTo (S outer (v :: base) cs' (ra + 1) (w_ctx w) qi (w_io w))
      end
    end.

  Definition sim_out {A} (Q : RS -> Prop) (s : RS) (o : outcome St A) (fin : A -> world St -> RS) : Prop :=
    match o with
    | OVal a w => mruno Q s (MTo (fin a w))
    | ORet v w => hd 0 cs = len base -> cs <> [] -> exists r, is_ret v w r /\ mruno Q s r
    | OExit r w => exists s', mruno Q s (MExit r s') /\ rs_io s' = w_io w /\ rs_ctx s' = w_ctx w
    | OErr e w => exists s', mruno Q s (MErr e s') /\ rs_io s' = w_io w
    | OWrong | OFuel => True
    end.

  Lemma mruno_done' (Q : RS -> Prop) s s' : s = s' -> mruno Q s (MTo s').
  Proof. intros ->. apply mruno_done. Qed.

  Lemma sim_out_trans {A} (Q : RS -> Prop) s s1 (o : outcome St A) fin :
    mruno Q s (MTo s1) -> sim_out Q s1 o fin -> sim_out Q s o fin.
  Proof.
    intros H. destruct o; cbn; auto.
    - intros H1. eapply mruno_trans; eauto.
    - intros H1 Hb Hc. destruct (H1 Hb Hc) as (r & Hr & Hm). exists r; split; auto. eapply mruno_trans; eauto.
    - intros (s' & Hm & Hi). exists s'; split; auto. eapply mruno_trans; eauto.
    - intros (s' & Hm & Hi). exists s'; split; auto. eapply mruno_trans; eauto.
  Qed.

  (** sequencing: the continuation runs from the state the first part ends in *)
  Lemma sim_bind {A B} (Q : RS -> Prop) s (o : outcome St A) fin (k : A -> world St -> outcome St B) fin' :
    sim_out Q s o fin ->
    (forall a w, o = OVal a w -> sim_out Q (fin a w) (k a w) fin') ->
    sim_out Q s (obind o k) fin'.
  Proof.
    intros H Hk. destruct o; cbn in *; auto.
    eapply sim_out_trans; eauto.
  Qed.

  Lemma sim_lift {A} (Q : RS -> Prop) s s1 (out : outcome St A) fin :
    (forall o, mruno Q s1 o -> mruno Q s o) -> sim_out Q s1 out fin -> sim_out Q s out fin.
  Proof.
    intros H. destruct out; cbn; auto.
    - intros H1 Hb Hc. destruct (H1 Hb Hc) as (r & Hr & Hm). exists r; split; auto.
    - intros (s' & Hm & Hi). exists s'; split; auto.
    - intros (s' & Hm & Hi). exists s'; split; auto.
  Qed.

  (** ** Scopes: the reference environment is the innermost function scope of the machine *)
  Lemma blocks_get_env x en : blocks_get x en = env_lookup x en.
  Proof. induction en as [|b r IH]; cbn [blocks_get env_lookup]; auto. Qed.

  Lemma contains_glob x : amap_contains x (globals m) = amap_contains x G.
  Proof. unfold amap_contains. rewrite <- Hglob. destruct (amap_get x (globals m)); reflexivity. Qed.

  Lemma scope_get_env x en v : env_get G x en = Some v -> scope_get m x (en :: outer) = ROk v.
  Proof.
    unfold env_get, scope_get. change (blocks_get x en) with (env_lookup x en). destruct (env_lookup x en); [congruence|].
    rewrite <- Hglob. destruct (amap_get x (globals m)); cbn; congruence.
  Qed.
  Lemma scope_set_env x v en en' : env_set G x v en = Some en' -> scope_set m x v (en :: outer) = ROk (en' :: outer).
  Proof.
    unfold env_set, scope_set. rewrite contains_glob. destruct (amap_contains x G); [discriminate|].
    destruct (existsb (amap_contains x) en); [discriminate|]. destruct en; [discriminate|]. intros H; inversion H; subst. reflexivity.
  Qed.

  (** ** The statements proved, by syntactic category *)
  Definition P_expr (e : expr) : Prop := forall lo hi en sg pc w,
    at_pc m pc (d_expr pc e) -> lo <= pc -> pc + sz_expr e <= hi ->
    sim_out (Qr lo hi) (st en sg pc w) (eval_expr en w e) (fun v w' => st en (v :: sg) (pc + sz_expr e) w').


  (** one instruction, then the rest *)
  Ltac vstep :=
    eapply sim_lift;
    [ let o := fresh "o" in let Hk := fresh "Hk" in intros o Hk;
      first
        [ eapply (s_push dbg io m Hcm Hlen);
          [ lookup | cbn [Vm.exec]; vm_unf; reflexivity | reflexivity | in_range | exact Hk ]
        | eapply (s_go dbg io m Hcm Hlen);
          [ lookup | cbn [Vm.exec]; vm_unf; reflexivity | reflexivity | in_range | exact Hk ] ]
    | cbv beta iota delta [set_pc set_stack rs_stack rs_scope rs_pc rs_call_state rs_ctx rs_io rs_query_iters] ].

  Lemma case_EInt z : P_expr (EInt z).
  Proof.
    intros lo hi en sg pc w Hat Hlo Hhi. rewrite eval_expr_EInt. rewrite sz_expr_EInt in *. rewrite d_expr_EInt in Hat.
    split_at Hat. unfold st. cbn [sim_out].
    vstep. Show.
  Abort.
End Sim.

