(** Forward simulation: the reference semantics of [model/Lang.v] against the
    VM ([model/Vm.v]) running the code laid out by [model/CompileDirect.v]. *)
From Aranya Require Import base.Tactics model.VmBase gen.GenVm model.Vm model.Lang model.Typing
  model.Compile model.CompileDirect proofs.SimBase proofs.CompileEqns proofs.CompileLayout.
Local Open Scope N_scope.

(** * The I/O oracle of the reference semantics as a [MachineIO] *)

(** A foreign function that honours its signature: it consumes its arguments from the
    stack and pushes its result (an FFI that finds the stack full reports it). *)
Definition vm_io_of {St} (lio : lang_io St) (p : policy) : MachineIO St :=
  {| io_fact_insert := lio_insert lio;
     io_fact_delete := lio_delete lio;
     io_fact_query := lio_query lio;
     io_effect := lio_effect lio;
     io_call := fun s mid pid stack ctx =>
       match find (fun d => N.eqb (ffi_mid d) mid && N.eqb (ffi_pid d) pid) (p_ffi p) with
       | None => (s, [], RErr (error_new (ME_FfiModuleNotDefined mid)))
       | Some d =>
         let n := List.length (ffi_params d) in
         let '(s', r) := lio_ffi lio s mid pid (rev (firstn n stack)) ctx in
         match r with
         | RErr e => (s', [], RErr (error_new e))
         | ROk v =>
           if len (skipn n stack) <? STACK_SIZE
           then (s', repeat SO_Pop n ++ [SO_Push v], ROk tt)
           else (s', [], RErr (error_new ME_StackOverflow))
         end
       end;
     io_serialize := fun s _ => (s, RErr 0);
     io_deserialize := fun s _ _ => (s, RErr 0) |}.

Definition field_of (f : ident * TypeKind) : Field := mkField (fst f) (snd f).

Definition depth {St} (s : RunState St) : nat := List.length (rs_call_state s).

(** Splitting [at_pc] facts about a laid-out piece of code into its parts. *)
Ltac split_at H :=
  repeat match type of H with
         | at_pc _ _ (_ ++ _) =>
           let H1 := fresh H in apply at_pc_app in H; destruct H as [H1 H]; autorewrite with len in H; split_at H1
         | at_pc _ _ (_ :: _) =>
           let H1 := fresh H in apply at_pc_cons in H; destruct H as [H1 H]
         | at_pc _ _ [] => clear H
         end.

(** the instruction at the current pc: some hypothesis names it, up to arithmetic *)
Ltac lookup :=
  cbn [rs_pc];
  match goal with
  | H : nth_error (progmem _) (N.to_nat ?a) = Some _ |- nth_error (progmem _) (N.to_nat ?b) = Some _ =>
    replace b with a by lia; exact H
  end.

Ltac in_range := split; unfold depth; cbn [rs_call_state rs_pc]; [lia | intros _; lia].


(** * The fragment the simulation is proved for

    Everything of [Lang.v] except [substruct], [as] (cast), foreign calls and the fact / effect
    statements of finish blocks ([create], [update], [delete], [emit]). *)
Fixpoint fr_expr (e : expr) : bool :=
  match e with
  | EUnit | EInt _ | EStr _ | EBool _ | EEnum _ _ | ENone | EVar _ | ETodo => true
  | EWrap _ e | EDot e _ | ENot e | EIs e _ | EReturn e => fr_expr e
  | EStruct _ fs => fr_fields fs
  | ESubstruct _ _ | ECast _ _ | EFfi _ _ _ => false
  | EAnd a b | EOr a b | EBin _ a b | ECoalesce a b => fr_expr a && fr_expr b
  | EIf c t f => fr_expr c && fr_expr t && fr_expr f
  | EBlock ss e => fr_stmts ss && fr_expr e
  | EMatch e arms => fr_expr e && fr_earms arms
  | ECall _ args | ERecall _ args => fr_exprs args
  end
with fr_exprs (es : exprs) : bool :=
  match es with ENil => true | ECons e r => fr_expr e && fr_exprs r end
with fr_fields (fs : fields) : bool :=
  match fs with FNil => true | FCons _ e r => fr_expr e && fr_fields r end
with fr_stmt (s : stmt) : bool :=
  match s with
  | SLet _ e | SReturn e | SDebugAssert e => fr_expr e
  | SCheck e els => fr_expr e && fr_expr els
  | SIf bs fb => fr_branches bs && fr_ostmts fb
  | SMatch e arms => fr_expr e && fr_sarms arms
  | SFinish ss => fr_stmts ss
  | SCreate _ _ _ | SUpdate _ _ _ _ | SDelete _ _ | SEmit _ => false
  | SCall _ args | SRecall _ args => fr_exprs args
  end
with fr_stmts (ss : stmts) : bool :=
  match ss with SNil => true | SCons s r => fr_stmt s && fr_stmts r end
with fr_ostmts (o : ostmts) : bool :=
  match o with ONone => true | OSome ss => fr_stmts ss end
with fr_ovals (o : ovals) : bool :=
  match o with VNone => true | VSome fs => fr_fields fs end
with fr_earms (a : earms) : bool :=
  match a with EANil => true | EACons _ e r => fr_expr e && fr_earms r end
with fr_sarms (a : sarms) : bool :=
  match a with SANil => true | SACons _ ss r => fr_stmts ss && fr_sarms r end
with fr_branches (b : branches) : bool :=
  match b with BNil => true | BCons c ss r => fr_expr c && fr_stmts ss && fr_branches r end.

Section Sim.
  Context {St : Type}.
  Variable dbg : bool.               (* cfg!(debug_assertions) of the VM build *)
  Variable lio : lang_io St.
  Variable p : policy.
  Variable is_debug : bool.          (* the compiler's debug flag *)
  Variable m : Machine.
  Notation io := (vm_io_of lio p).
  Notation RS := (RunState St).
  Notation S := (@mkRunState St).
  Notation mruno := (SimBase.mruno dbg io m).

  (** the machine holds no source map, fits the address space, and carries the policy's
      globals and struct definitions *)
  Hypothesis Hcm : codemap m = None.
  Hypothesis Hlen : len (progmem m) <= usize_max.
  Hypothesis Hglob : forall x, option_map const_to_value (amap_get x (globals m)) = amap_get x (globals_of p).
  Hypothesis Hsd : forall n, struct_def m n
                             = option_map (fun fs => mkStructDef n (map field_of fs)) (struct_fields_of p n).

  Variable la : Label -> N.
  Variable cmd : ident.
  Variable in_recall : bool.

  (** the callees, as the reference semantics sees them (instantiated with one unit of fuel less) *)
  Variable call_fun : ident -> list Value -> world St -> outcome St Value.
  Variable call_fin : ident -> list Value -> world St -> outcome St unit.
  Variable call_recall : ident -> list Value -> world St -> outcome St unit.
  Variable fin_exit : ExitReason.

  Notation sz_expr := (CompileDirect.sz_expr p is_debug).
  Notation sz_exprs := (CompileDirect.sz_exprs p is_debug).
  Notation sz_fields := (CompileDirect.sz_fields p is_debug).
  Notation sz_stmt := (CompileDirect.sz_stmt p is_debug).
  Notation sz_stmts := (CompileDirect.sz_stmts p is_debug).
  Notation sz_earms := (CompileDirect.sz_earms p is_debug).
  Notation sz_sarms := (CompileDirect.sz_sarms p is_debug).
  Notation sz_branches := (CompileDirect.sz_branches p is_debug).
  Notation d_expr := (CompileDirect.d_expr p is_debug la cmd in_recall).
  Notation d_exprs := (CompileDirect.d_exprs p is_debug la cmd in_recall).
  Notation d_fields := (CompileDirect.d_fields p is_debug la cmd in_recall).
  Notation d_stmt := (CompileDirect.d_stmt p is_debug la cmd in_recall).
  Notation d_stmts := (CompileDirect.d_stmts p is_debug la cmd in_recall).
  Notation d_earms := (CompileDirect.d_earms p is_debug la cmd in_recall).
  Notation d_sarms := (CompileDirect.d_sarms p is_debug la cmd in_recall).
  Notation d_branches := (CompileDirect.d_branches p is_debug la cmd in_recall).
  Notation eval_expr := (Lang.eval_expr lio p is_debug call_fun call_fin call_recall fin_exit).
  Notation eval_exprs := (Lang.eval_exprs lio p is_debug call_fun call_fin call_recall fin_exit).
  Notation eval_fields := (Lang.eval_fields lio p is_debug call_fun call_fin call_recall fin_exit).
  Notation eval_stmt := (Lang.eval_stmt lio p is_debug call_fun call_fin call_recall fin_exit).
  Notation eval_stmts := (Lang.eval_stmts lio p is_debug call_fun call_fin call_recall fin_exit).
  Notation eval_earms := (Lang.eval_earms lio p is_debug call_fun call_fin call_recall fin_exit).
  Notation eval_sarms := (Lang.eval_sarms lio p is_debug call_fun call_fin call_recall fin_exit).
  Notation eval_branches := (Lang.eval_branches lio p is_debug call_fun call_fin call_recall fin_exit).
  Notation G := (globals_of p).

  (** the frame of the function being evaluated: its call-state, the scopes of its callers,
      the stack below its own values, the query iterators *)
  Variable cs : list N.
  Variable outer : scope_t.
  Variable base : list Value.
  Variable qi : list (Fact * list query_item).
  (** whether the frame begins with [SaveSP] (functions with a return type) *)
  Variable has_sp : bool.
  Definition slack : nat := if has_sp then 1%nat else 0%nat.

  (** every visited state is at this depth or deeper (one less while a [Return] executes, after
      [RestoreSP] dropped the saved stack pointer), and at this depth inside [lo, hi) *)
  Definition Qr (lo hi : N) (s : RS) : Prop :=
    (List.length cs <= depth s + slack)%nat /\ (depth s = List.length cs -> lo <= rs_pc s < hi).

  Definition st (en : env) (sg : list Value) (pc : N) (w : world St) : RS :=
    S (en :: outer) (sg ++ base) cs pc (w_ctx w) qi (w_io w).

  (** what a [return] leads to: back in the caller, or - in the outermost function - a normal exit *)
  Definition is_ret (v : Value) (w : world St) (r : mres) : Prop :=
    match cs with
    | [] => False
    | sp :: rest =>
      sp = len base /\
      match rest with
      | [] => exists sc pcr, r = MExit ER_Normal (S sc (v :: base) [] pcr (w_ctx w) qi (w_io w))
      | ra :: cs' => r = MTo (S outer (v :: base) cs' (ra + 1) (w_ctx w) qi (w_io w))
      end
    end.

  Definition sim_out {A} (Q : RS -> Prop) (s : RS) (o : outcome St A) (fin : A -> world St -> RS) : Prop :=
    match o with
    | OVal a w => mruno Q s (MTo (fin a w))
    | ORet v w => has_sp = true -> hd 0 cs = len base -> cs <> [] -> exists r, is_ret v w r /\ mruno Q s r
    | OExit r w => exists s', mruno Q s (MExit r s') /\ rs_io s' = w_io w /\ rs_ctx s' = w_ctx w
    | OErr e w => exists s', mruno Q s (MErr e s') /\ rs_io s' = w_io w
    | OWrong | OFuel => True
    end.

  Lemma mruno_done' (Q : RS -> Prop) s s' : s = s' -> mruno Q s (MTo s').
  Proof. intros ->. apply mruno_done. Qed.

  Lemma sim_out_trans {A} (Q : RS -> Prop) s s1 (o : outcome St A) fin :
    mruno Q s (MTo s1) -> sim_out Q s1 o fin -> sim_out Q s o fin.
  Proof.
    intros H. destruct o; cbn; auto.
    - intros H1. eapply mruno_trans; eauto.
    - intros H1 Ha Hb Hc. destruct (H1 Ha Hb Hc) as (r & Hr & Hm). exists r; split; auto. eapply mruno_trans; eauto.
    - intros (s' & Hm & Hi). exists s'; split; auto. eapply mruno_trans; eauto.
    - intros (s' & Hm & Hi). exists s'; split; auto. eapply mruno_trans; eauto.
  Qed.

  (** sequencing: the continuation runs from the state the first part ends in *)
  Lemma sim_bind {A B} (Q : RS -> Prop) s (o : outcome St A) fin (k : A -> world St -> outcome St B) fin' :
    sim_out Q s o fin ->
    (forall a w, o = OVal a w -> sim_out Q (fin a w) (k a w) fin') ->
    sim_out Q s (obind o k) fin'.
  Proof.
    intros H Hk. destruct o; cbn in *; auto.
    eapply sim_out_trans; eauto.
  Qed.

  (** machine steps after the value has been computed *)
  Lemma sim_post {A} (Q : RS -> Prop) s (o : outcome St A) fin fin' :
    sim_out Q s o fin ->
    (forall a w, o = OVal a w -> sim_out Q (fin a w) (OVal a w) fin') ->
    sim_out Q s o fin'.
  Proof.
    intros H Hk. destruct o; cbn in *; auto.
    eapply mruno_trans; eauto.
  Qed.

  Lemma sim_lift {A} (Q : RS -> Prop) s s1 (out : outcome St A) fin :
    (forall o, mruno Q s1 o -> mruno Q s o) -> sim_out Q s1 out fin -> sim_out Q s out fin.
  Proof.
    intros H. destruct out; cbn; auto.
    - intros H1 Ha Hb Hc. destruct (H1 Ha Hb Hc) as (r & Hr & Hm). exists r; split; auto.
    - intros (s' & Hm & Hi). exists s'; split; auto.
    - intros (s' & Hm & Hi). exists s'; split; auto.
  Qed.

  (** ** Scopes: the reference environment is the innermost function scope of the machine *)
  Lemma blocks_get_env x en : blocks_get x en = env_lookup x en.
  Proof. induction en as [|b r IH]; cbn [blocks_get env_lookup]; auto. Qed.

  Lemma contains_glob x : amap_contains x (globals m) = amap_contains x G.
  Proof. unfold amap_contains. rewrite <- Hglob. destruct (amap_get x (globals m)); reflexivity. Qed.

  Lemma scope_get_env x en v : env_get G x en = Some v -> scope_get m x (en :: outer) = ROk v.
  Proof.
    unfold env_get, scope_get. change (blocks_get x en) with (env_lookup x en). destruct (env_lookup x en); [congruence|].
    rewrite <- Hglob. destruct (amap_get x (globals m)); cbn; congruence.
  Qed.
  Lemma scope_set_env x v en en' : env_set G x v en = Some en' -> scope_set m x v (en :: outer) = ROk (en' :: outer).
  Proof.
    unfold env_set, scope_set. rewrite contains_glob. destruct (amap_contains x G); [discriminate|].
    destruct (existsb (amap_contains x) en); [discriminate|]. destruct en; [discriminate|]. intros H; inversion H; subst. reflexivity.
  Qed.

  (** ** The statements proved, by syntactic category *)
  Definition P_expr (e : expr) : Prop := forall lo hi en sg pc w,
    at_pc m pc (d_expr pc e) -> lo <= pc -> pc + sz_expr e <= hi ->
    sim_out (Qr lo hi) (st en sg pc w) (eval_expr en w e) (fun v w' => st en (v :: sg) (pc + sz_expr e) w').


  (** one instruction, then the rest *)
  Ltac vstep :=
    cbn [app];
    eapply sim_lift;
    [ let o := fresh "o" in let Hk := fresh "Hk" in intros o Hk;
      first
        [ eapply (s_push dbg io m Hcm Hlen);
          [ lookup | cbn [Vm.exec]; vm_unf_np; reflexivity | reflexivity | in_range | exact Hk ]
        | eapply (s_go dbg io m Hlen);
          [ lookup | cbn [Vm.exec]; vm_unf; reflexivity | reflexivity | in_range | exact Hk ] ]
    | cbv beta iota delta [set_pc set_stack rs_stack rs_scope rs_pc rs_call_state rs_ctx rs_io rs_query_iters] ].

  Ltac vjump :=
    cbn [app];
    eapply sim_lift;
    [ let o := fresh "o" in let Hk := fresh "Hk" in intros o Hk;
      eapply (s_jump dbg io m Hlen);
      [ lookup | cbn [Vm.exec]; vm_unf; reflexivity | in_range | exact Hk ]
    | ].

  Lemma sim_out_fin {A} (Q : RS -> Prop) s (o : outcome St A) fin fin' :
    (forall a w, fin a w = fin' a w) -> sim_out Q s o fin -> sim_out Q s o fin'.
  Proof. intros H. destruct o; cbn; auto. rewrite H. auto. Qed.

  Ltac vdone := cbn [sim_out]; apply mruno_done'; cbn [const_to_value app]; try reflexivity; f_equal; try lia.
  (* the address a piece is embedded at, written as in its own layout *)
  Ltac norm_at :=
    repeat match goal with
           | H : at_pc _ ?A (CompileDirect.d_expr _ _ _ _ _ ?B _) |- _ =>
             lazymatch A with B => fail | _ => replace A with B in H by lia end
           | H : at_pc _ ?A (CompileDirect.d_exprs _ _ _ _ _ ?B _) |- _ =>
             lazymatch A with B => fail | _ => replace A with B in H by lia end
           | H : at_pc _ ?A (CompileDirect.d_fields _ _ _ _ _ ?B _) |- _ =>
             lazymatch A with B => fail | _ => replace A with B in H by lia end
           | H : at_pc _ ?A (CompileDirect.d_stmt _ _ _ _ _ ?B _) |- _ =>
             lazymatch A with B => fail | _ => replace A with B in H by lia end
           | H : at_pc _ ?A (CompileDirect.d_stmts _ _ _ _ _ ?B _) |- _ =>
             lazymatch A with B => fail | _ => replace A with B in H by lia end
           | H : at_pc _ ?A (CompileDirect.d_earms _ _ _ _ _ ?B _ _) |- _ =>
             lazymatch A with B => fail | _ => replace A with B in H by lia end
           | H : at_pc _ ?A (CompileDirect.d_sarms _ _ _ _ _ ?B _ _) |- _ =>
             lazymatch A with B => fail | _ => replace A with B in H by lia end
           | H : at_pc _ ?A (CompileDirect.d_branches _ _ _ _ _ ?B _ _) |- _ =>
             lazymatch A with B => fail | _ => replace A with B in H by lia end
           end.
  Ltac start_case Hat :=
    autorewrite with deq in *; cbv zeta in Hat; split_at Hat; norm_at.

  (** applying an induction hypothesis at a state whose pc / stack are equal to the expected ones *)
  Lemma P_expr_at e (IH : P_expr e) lo hi en sg stk pc pc' w fin' :
    at_pc m pc (d_expr pc e) -> pc' = pc -> stk = sg ++ base -> lo <= pc -> pc + sz_expr e <= hi ->
    (forall a w', st en (a :: sg) (pc + sz_expr e) w' = fin' a w') ->
    sim_out (Qr lo hi) (S (en :: outer) stk cs pc' (w_ctx w) qi (w_io w)) (eval_expr en w e) fin'.
  Proof.
    intros Hat -> -> Hlo Hhi Hf. eapply sim_out_fin; [exact Hf|]. apply IH; auto.
  Qed.
  Ltac fin_eq := let a := fresh in let w := fresh in intros a w; first [reflexivity | unfold st; f_equal; lia].
  Ltac use_IH IH sg' :=
    eapply (P_expr_at _ IH _ _ _ sg'); [eassumption | | | | | ]; [lia | reflexivity | lia | lia | fin_eq].

  Lemma case_EUnit : P_expr EUnit.
  Proof. intros lo hi en sg pc w Hat Hlo Hhi. rewrite eval_expr_EUnit. start_case Hat. unfold st. vstep. vdone. Qed.
  Lemma case_EInt z : P_expr (EInt z).
  Proof. intros lo hi en sg pc w Hat Hlo Hhi. rewrite eval_expr_EInt. start_case Hat. unfold st. vstep. vdone. Qed.
  Lemma case_EStr z : P_expr (EStr z).
  Proof. intros lo hi en sg pc w Hat Hlo Hhi. rewrite eval_expr_EStr. start_case Hat. unfold st. vstep. vdone. Qed.
  Lemma case_EBool z : P_expr (EBool z).
  Proof. intros lo hi en sg pc w Hat Hlo Hhi. rewrite eval_expr_EBool. start_case Hat. unfold st. vstep. vdone. Qed.
  Lemma case_ENone : P_expr ENone.
  Proof. intros lo hi en sg pc w Hat Hlo Hhi. rewrite eval_expr_ENone. start_case Hat. unfold st. vstep. vdone. Qed.
  Lemma case_EEnum en' v : P_expr (EEnum en' v).
  Proof.
    intros lo hi en sg pc w Hat Hlo Hhi. rewrite eval_expr_EEnum. start_case Hat.
    destruct (enum_value p en' v); [|exact I]. unfold st. vstep. vdone.
  Qed.
  Lemma case_ETodo : P_expr ETodo.
  Proof.
    intros lo hi en sg pc w Hat Hlo Hhi. rewrite eval_expr_ETodo. start_case Hat. unfold st. cbn [sim_out].
    eexists. split; [eapply (s_exit dbg io m Hlen); [lookup|cbn [Vm.exec]; vm_unf; reflexivity|in_range]|].
    split; reflexivity.
  Qed.

  Lemma case_EAnd a b : P_expr a -> P_expr b -> P_expr (EAnd a b).
  Proof.
    intros IHa IHb lo hi en sg pc w Hat Hlo Hhi. rewrite eval_expr_EAnd. start_case Hat. unfold st.
    eapply sim_bind; [use_IH IHa sg|]. intros va w1 _.
    destruct va as [| | [|] | | | | | | | | |]; try exact I; unfold st.
    - vjump. use_IH IHb sg.
    - vstep. vstep. vjump. vdone.
  Qed.

  Lemma case_EOr a b : P_expr a -> P_expr b -> P_expr (EOr a b).
  Proof.
    intros IHa IHb lo hi en sg pc w Hat Hlo Hhi. rewrite eval_expr_EOr. start_case Hat. unfold st.
    eapply sim_bind; [use_IH IHa sg|]. intros va w1 _.
    destruct va as [| | [|] | | | | | | | | |]; try exact I; unfold st.
    - vjump. vstep. vdone.
    - vstep. eapply sim_post; [use_IH IHb sg|]. intros vb w2 _. unfold st. vjump. vdone.
  Qed.

  Lemma case_ENot a : P_expr a -> P_expr (ENot a).
  Proof.
    intros IHa lo hi en sg pc w Hat Hlo Hhi. rewrite eval_expr_ENot. start_case Hat. unfold st.
    eapply sim_bind; [use_IH IHa sg|]. intros va w1 _.
    destruct va; try exact I; unfold st. vstep. vdone.
  Qed.

  Lemma case_EWrap wt e : P_expr e -> P_expr (EWrap wt e).
  Proof.
    intros IHe lo hi en sg pc w Hat Hlo Hhi. rewrite eval_expr_EWrap. start_case Hat. unfold st.
    eapply sim_bind; [use_IH IHe sg|]. intros v w1 _. unfold st. vstep.
    cbn [sim_out]. apply mruno_done'. destruct wt; cbn [wrap]; f_equal; lia.
  Qed.

  Lemma case_EVar x : P_expr (EVar x).
  Proof.
    intros lo hi en sg pc w Hat Hlo Hhi. rewrite eval_expr_EVar. start_case Hat.
    destruct (env_get G x en) as [v|] eqn:E; [|exact I]. unfold st.
    eapply sim_lift.
    - intros o Hk. eapply (s_push dbg io m Hcm Hlen); [lookup| | |in_range|exact Hk].
      + cbn [Vm.exec]. vm_unf_np. rewrite (scope_get_env _ _ _ E). reflexivity.
      + reflexivity.
    - cbv beta iota delta [set_pc set_stack rs_stack rs_scope rs_pc rs_call_state rs_ctx rs_io rs_query_iters].
      vdone.
  Qed.

  Lemma amap_get_remove {V} (f : ident) (l : amap V) x :
    amap_get f l = Some x -> exists r, amap_remove f l = Some (x, r).
  Proof.
    induction l as [|[k v] l IH]; cbn [amap_get amap_remove]; [discriminate|].
    destruct (String.eqb f k).
    - intros H; inversion H; subst. eauto.
    - intros H. destruct (IH H) as [r Hr]. rewrite Hr. eauto.
  Qed.

  Lemma case_EDot e f : P_expr e -> P_expr (EDot e f).
  Proof.
    intros IHe lo hi en sg pc w Hat Hlo Hhi. rewrite eval_expr_EDot. start_case Hat. unfold st.
    eapply sim_bind; [use_IH IHe sg|]. intros v w1 _.
    destruct v as [| | | | |sv| | | | | |]; try exact I.
    destruct (amap_get f (Struct_fields sv)) as [x|] eqn:E; [|exact I].
    destruct (amap_get_remove _ _ _ E) as [r Hr]. unfold st.
    eapply sim_lift.
    - intros o Hk. eapply (s_push dbg io m Hcm Hlen); [lookup| | |in_range|exact Hk].
      + cbn [Vm.exec app]. vm_unf_np. rewrite Hr. reflexivity.
      + reflexivity.
    - cbv beta iota delta [set_pc set_stack rs_stack rs_scope rs_pc rs_call_state rs_ctx rs_io rs_query_iters].
      vdone.
  Qed.

  Lemma case_EIs e some : P_expr e -> P_expr (EIs e some).
  Proof.
    intros IHe lo hi en sg pc w Hat Hlo Hhi. rewrite eval_expr_EIs. start_case Hat. unfold st.
    eapply sim_bind; [use_IH IHe sg|]. intros v w1 _. unfold st.
    destruct some; cbn [app] in *; split_at Hat.
    - vstep. cbn [sim_out]. apply mruno_done'. f_equal; try lia.
      all: try (destruct v as [| | | | | | | | | |[?|]|[?|?]]; reflexivity).
    - vstep. vstep. cbn [sim_out]. apply mruno_done'. f_equal; try lia.
      all: try (destruct v as [| | | | | | | | | |[?|]|[?|?]]; reflexivity).
  Qed.

  Lemma case_EIf c t f : P_expr c -> P_expr t -> P_expr f -> P_expr (EIf c t f).
  Proof.
    intros IHc IHt IHf lo hi en sg pc w Hat Hlo Hhi. rewrite eval_expr_EIf. start_case Hat. unfold st.
    eapply sim_bind; [use_IH IHc sg|]. intros vc w1 _.
    destruct vc as [| | [|] | | | | | | | | |]; try exact I; unfold st.
    - vjump. use_IH IHt sg.
    - vstep. eapply sim_post; [use_IH IHf sg|]. intros vb w2 _. unfold st. vjump. vdone.
  Qed.

  Lemma case_ECoalesce a b : P_expr a -> P_expr b -> P_expr (ECoalesce a b).
  Proof.
    intros IHa IHb lo hi en sg pc w Hat Hlo Hhi. rewrite eval_expr_ECoalesce. start_case Hat. unfold st.
    eapply sim_bind; [use_IH IHa sg|]. intros va w1 _.
    destruct va as [| | | | | | | | | |[x|]|]; try exact I; unfold st.
    - vstep. vstep. vjump. vstep. vdone.
    - vstep. vstep. vstep. vstep. eapply sim_post; [use_IH IHb sg|]. intros vb w2 _. unfold st. vjump. vdone.
  Qed.

  Lemma case_EBin op a b : P_expr a -> P_expr b -> P_expr (EBin op a b).
  Proof.
    intros IHa IHb lo hi en sg pc w Hat Hlo Hhi. rewrite eval_expr_EBin. start_case Hat. unfold st.
    eapply sim_bind; [use_IH IHa sg|]. intros va w1 _. unfold st.
    eapply sim_bind; [use_IH IHb (va :: sg)|]. intros vb w2 _. unfold st.
    destruct op; cbn [cmp_instrs] in *; autorewrite with len in *; split_at Hat; cbn [eval_binop int_op].
    - vstep. vdone.
    - vstep. vstep. vdone.
    - destruct va; try exact I; destruct vb; try exact I. vstep. vdone.
    - destruct va; try exact I; destruct vb; try exact I. vstep. vdone.
    - destruct va; try exact I; destruct vb; try exact I. vstep. vstep. vdone.
    - destruct va; try exact I; destruct vb; try exact I. vstep. vstep. vdone.
  Qed.

  (** ** Statements *)
  Definition P_stmt (s : stmt) : Prop := forall lo hi en sg pc w,
    at_pc m pc (d_stmt pc s) -> lo <= pc -> pc + sz_stmt s <= hi ->
    sim_out (Qr lo hi) (st en sg pc w) (eval_stmt en w s) (fun en' w' => st en' sg (pc + sz_stmt s) w').
  Definition P_stmts (ss : stmts) : Prop := forall lo hi en sg pc w,
    at_pc m pc (d_stmts pc ss) -> lo <= pc -> pc + sz_stmts ss <= hi ->
    sim_out (Qr lo hi) (st en sg pc w) (eval_stmts en w ss) (fun en' w' => st en' sg (pc + sz_stmts ss) w').

  Lemma P_stmts_at ss (IH : P_stmts ss) lo hi en sg stk pc pc' w fin' :
    at_pc m pc (d_stmts pc ss) -> pc' = pc -> stk = sg ++ base -> lo <= pc -> pc + sz_stmts ss <= hi ->
    (forall a w', st a sg (pc + sz_stmts ss) w' = fin' a w') ->
    sim_out (Qr lo hi) (S (en :: outer) stk cs pc' (w_ctx w) qi (w_io w)) (eval_stmts en w ss) fin'.
  Proof. intros Hat -> -> Hlo Hhi Hf. eapply sim_out_fin; [exact Hf|]. apply IH; auto. Qed.
  Ltac use_IHss IH en' sg' :=
    eapply (P_stmts_at _ IH _ _ en' sg'); [eassumption | | | | | ]; [lia | reflexivity | lia | lia | fin_eq].

  (** statements only ever extend the innermost block *)
  Lemma env_set_tail x v en en' : env_set G x v en = Some en' -> exists b, en' = b :: tl en.
  Proof.
    unfold env_set. destruct (amap_contains x G); [discriminate|].
    destruct (existsb _ en); [discriminate|]. destruct en; [discriminate|]. intros H; inversion H. eauto.
  Qed.

  Ltac inv_obind H :=
    repeat match type of H with
           | obind ?o _ = OVal _ _ => let E := fresh "E" in destruct o eqn:E; cbn [obind] in H; try discriminate
           | match ?x with _ => _ end = OVal _ _ => let E := fresh "E" in destruct x eqn:E; try discriminate
           | (let '(_, _) := ?x in _) = OVal _ _ => let E := fresh "E" in destruct x eqn:E; try discriminate
           end.

  Lemma eval_branches_some bs : forall en w e w', eval_branches en w bs = OVal (Some e) w' -> e = en.
  Proof.
    induction bs as [|c ss r IH]; intros en w e w' H; autorewrite with evq in H.
    - discriminate.
    - inv_obind H; try (inversion H; subst; reflexivity). eapply IH; eauto.
  Qed.

  Lemma eval_sarms_same arms : forall en w v e w', eval_sarms en w v arms = OVal e w' -> e = en.
  Proof.
    induction arms as [|pt ss r IH]; intros en w v e w' H; autorewrite with evq in H.
    - discriminate.
    - inv_obind H; try (inversion H; subst; reflexivity). eapply IH; eauto.
  Qed.

  Lemma eval_stmt_tail s en w en' w' : eval_stmt en w s = OVal en' w' -> en <> [] -> exists b, en' = b :: tl en.
  Proof.
    intros H Hne. destruct en as [|b0 r]; [congruence|]. cbn [tl].
    destruct s; autorewrite with evq in H; inv_obind H;
      try (inversion H; subst; eauto; fail);
      try (match goal with E : env_set _ _ _ _ = Some _ |- _ => apply env_set_tail in E; inversion H; subst; exact E end).
    all: try match goal with E : eval_branches _ _ _ = OVal (Some _) _ |- _ => apply eval_branches_some in E; inversion H; subst; eauto end.
    apply eval_sarms_same in H. subst. eauto.
  Qed.

  Lemma eval_stmts_tail ss : forall en w en' w', eval_stmts en w ss = OVal en' w' -> en <> [] -> exists b, en' = b :: tl en.
  Proof.
    induction ss as [|s r IH]; intros en w en' w' H Hne; autorewrite with evq in H.
    - inversion H; subst. destruct en'; [congruence|]. eauto.
    - inv_obind H. destruct (eval_stmt_tail _ _ _ _ _ E Hne) as [b ->].
      destruct (IH _ _ _ _ H) as [b' ->]; [discriminate|]. cbn [tl]. eauto.
  Qed.

  Lemma case_EBlock ss e : P_stmts ss -> P_expr e -> P_expr (EBlock ss e).
  Proof.
    intros IHss IHe lo hi en sg pc w Hat Hlo Hhi. rewrite eval_expr_EBlock. start_case Hat. unfold st.
    vstep.
    eapply sim_bind; [use_IHss IHss (env_push en) sg|]. intros en1 w1 E1.
    destruct (eval_stmts_tail _ _ _ _ _ E1) as [b Hb]; [discriminate|]. cbn [tl env_push] in Hb. subst en1. unfold st.
    eapply sim_post; [use_IH IHe sg|]. intros v w2 _. unfold st.
    vstep. vdone.
  Qed.

  Lemma case_SNil : P_stmts SNil.
  Proof.
    intros lo hi en sg pc w Hat Hlo Hhi. rewrite eval_stmts_SNil. autorewrite with deq in *. cbn [sim_out].
    apply mruno_done'. unfold st. f_equal. lia.
  Qed.
  Lemma case_SCons s ss : P_stmt s -> P_stmts ss -> P_stmts (SCons s ss).
  Proof.
    intros IHs IHss lo hi en sg pc w Hat Hlo Hhi. rewrite eval_stmts_SCons. start_case Hat.
    eapply sim_bind; [eapply IHs; eauto; lia|]. intros en1 w1 _.
    eapply sim_out_fin; [|eapply IHss; eauto; lia]. fin_eq.
  Qed.

  Lemma case_SLet x e : P_expr e -> P_stmt (SLet x e).
  Proof.
    intros IHe lo hi en sg pc w Hat Hlo Hhi. rewrite eval_stmt_SLet. start_case Hat. unfold st.
    eapply sim_bind; [use_IH IHe sg|]. intros v w1 _.
    destruct (env_set G x v en) as [en'|] eqn:E; [|exact I]. unfold st.
    eapply sim_lift.
    - intros o Hk. eapply (s_go dbg io m Hlen); [lookup| | |in_range|exact Hk].
      + cbn [Vm.exec app]. vm_unf. rewrite (scope_set_env _ _ _ _ E). reflexivity.
      + reflexivity.
    - cbv beta iota delta [set_pc set_stack rs_stack rs_scope rs_pc rs_call_state rs_ctx rs_io rs_query_iters].
      vdone.
  Qed.

  (** ** Returning *)
  Lemma pop_while_gt_base sg : pop_while_gt (sg ++ base) (len base) = base.
  Proof.
    induction sg as [|x sg IH]; cbn [app].
    - destruct base as [|y r] eqn:E; [reflexivity|]. cbn [pop_while_gt].
      destruct (len (y :: r) <? len (y :: r)) eqn:E1; [lia|reflexivity].
    - cbn [pop_while_gt]. destruct (len base <? len (x :: sg ++ base)) eqn:E1; [exact IH|].
      autorewrite with len in E1. lia.
  Qed.

  Lemma ss_small : STACK_SIZE + 1 <= usize_max.
  Proof. intros H. vm_compute in H. discriminate. Qed.

  Lemma ret_sim lo hi en sg pc v w :
    nth_error (progmem m) (N.to_nat pc) = Some I_RestoreSP ->
    nth_error (progmem m) (N.to_nat (pc + 1)) = Some I_Return ->
    lo <= pc -> pc + 2 <= hi ->
    has_sp = true -> hd 0 cs = len base -> cs <> [] ->
    exists r, is_ret v w r /\ mruno (Qr lo hi) (st en (v :: sg) pc w) r.
  Proof.
    intros H1 H2 Hlo Hhi Hhas Hsp Hne.
    assert (Hslack : slack = 1%nat) by (unfold slack; rewrite Hhas; reflexivity).
    destruct (Wb_dec (st en (v :: sg) pc w)) as [Hw|Hw].
    2:{ (* outside the representation invariant *)
        unfold is_ret. destruct cs as [|sp [|ra cs']] eqn:Ecs; [congruence| |]; cbn [hd] in Hsp.
        - exists (MExit ER_Normal (S (en :: outer) (v :: base) [] pc (w_ctx w) qi (w_io w))).
          split; [split; [exact Hsp|exists (en :: outer), pc; reflexivity]|apply mruno_bad; exact Hw].
        - eexists. split; [split; [exact Hsp|reflexivity]|apply mruno_bad; exact Hw]. }
    assert (Hbase : len base <= STACK_SIZE).
    { destruct Hw as [Hw _]. unfold st in Hw. cbn [rs_stack] in Hw. autorewrite with len in Hw. lia. }
    assert (Hra : forall a, In a cs -> a < usize_max).
    { destruct Hw as [_ Hw]. unfold st in Hw. cbn [rs_call_state] in Hw. rewrite Forall_forall in Hw. exact Hw. }
    clear Hw. unfold is_ret, st.
    destruct cs as [|sp rest] eqn:Ecs; [congruence|]. cbn [hd] in Hsp. subst sp.
    pose proof ss_small as Hss.
    assert (Hadd : usize_checked_add (len base) 1 = Some (len base + 1)).
    { unfold usize_checked_add. destruct (len base + 1 <=? usize_max) eqn:E; [reflexivity|lia]. }
    (* after RestoreSP: the value on top of the base stack, the saved pointer gone *)
    assert (Hrs : forall o,
      mruno (Qr lo hi) (S (en :: outer) (v :: base) rest (pc + 1) (w_ctx w) qi (w_io w)) o ->
      mruno (Qr lo hi) (S (en :: outer) ((v :: sg) ++ base) (len base :: rest) pc (w_ctx w) qi (w_io w)) o).
    { intros o Hk. cbn [app]. destruct sg as [|x sg'].
      - eapply (s_go dbg io m Hlen); [lookup| | |unfold Qr; rewrite Ecs; in_range|].
        + cbn [Vm.exec app]. vm_unf. rewrite Hadd.
          replace (len (v :: base) ?= len base + 1) with Eq
            by (symmetry; apply N.compare_eq_iff; autorewrite with len; lia). reflexivity.
        + reflexivity.
        + exact Hk.
      - destruct (len base <? STACK_SIZE) eqn:Efull.
        + eapply (s_go dbg io m Hlen); [lookup| | |unfold Qr; rewrite Ecs; in_range|].
          * cbn [Vm.exec app]. vm_unf. rewrite Hadd.
            replace (len (v :: x :: sg' ++ base) ?= len base + 1) with Gt
              by (symmetry; apply N.compare_gt_iff; autorewrite with len; lia).
            cbv beta iota zeta delta [bind pop_nopos pop_with gets pop_value modify set_stack rs_stack push_nopos push_with push_value
                                      rs_scope rs_call_state rs_pc rs_ctx rs_query_iters rs_io].
            change (x :: sg' ++ base) with ((x :: sg') ++ base). rewrite pop_while_gt_base. rewrite Efull. reflexivity.
          * reflexivity.
          * exact Hk.
        + eapply (s_ovf dbg io m Hlen); [lookup| | |unfold Qr; rewrite Ecs; in_range].
          * cbn [Vm.exec app]. vm_unf. rewrite Hadd.
            replace (len (v :: x :: sg' ++ base) ?= len base + 1) with Gt
              by (symmetry; apply N.compare_gt_iff; autorewrite with len; lia).
            cbv beta iota zeta delta [bind pop_nopos pop_with gets pop_value modify set_stack rs_stack push_nopos push_with push_value
                                      rs_scope rs_call_state rs_pc rs_ctx rs_query_iters rs_io fail_nopos].
            change (x :: sg' ++ base) with ((x :: sg') ++ base). rewrite pop_while_gt_base. rewrite Efull. reflexivity.
          * reflexivity. }
    destruct rest as [|ra cs'].
    - eexists. split; [split; [reflexivity|do 2 eexists; reflexivity]|].
      apply Hrs. eapply (s_exit dbg io m Hlen); [lookup|cbn [Vm.exec]; vm_unf; reflexivity|].
      unfold Qr; rewrite Ecs; split; unfold depth; cbn [rs_call_state rs_pc List.length]; [try rewrite Hslack; lia|intros; lia].
    - eexists. split; [split; [reflexivity|reflexivity]|].
      apply Hrs. eapply mruno_step; [| |apply mruno_done].
      + unfold Qr; rewrite Ecs; split; unfold depth; cbn [rs_call_state rs_pc List.length]; [try rewrite Hslack; lia|intros; lia].
      + rewrite (step_at dbg io m Hlen _ I_Return) by lookup.
        cbn [Vm.exec]. vm_unf. cbv beta iota zeta delta [advance_pc bind gets rs_pc modify set_pc rs_scope rs_stack rs_call_state rs_ctx rs_query_iters rs_io].
        assert (Hr : usize_checked_add ra 1 = Some (ra + 1)).
        { unfold usize_checked_add. assert (ra < usize_max) by (apply Hra; try rewrite Ecs; cbn; auto).
          destruct (ra + 1 <=? usize_max) eqn:E; [reflexivity|lia]. }
        rewrite Hr. reflexivity.
  Qed.

  Lemma case_EReturn e : P_expr e -> P_expr (EReturn e).
  Proof.
    intros IHe lo hi en sg pc w Hat Hlo Hhi. rewrite eval_expr_EReturn. start_case Hat. unfold st.
    eapply sim_bind; [use_IH IHe sg|]. intros v w1 _. cbn [sim_out]. intros Hhas Hsp Hne.
    eapply ret_sim; eauto; try lia.
  Qed.
  Lemma case_SReturn e : P_expr e -> P_stmt (SReturn e).
  Proof.
    intros IHe lo hi en sg pc w Hat Hlo Hhi. rewrite eval_stmt_SReturn. start_case Hat. unfold st.
    eapply sim_bind; [use_IH IHe sg|]. intros v w1 _. cbn [sim_out]. intros Hhas Hsp Hne.
    eapply ret_sim; eauto; try lia.
  Qed.

  Lemma case_SCheck e els : P_expr e -> P_expr els -> P_stmt (SCheck e els).
  Proof.
    intros IHe IHels lo hi en sg pc w Hat Hlo Hhi. rewrite eval_stmt_SCheck. start_case Hat. unfold st.
    eapply sim_bind; [use_IH IHe sg|]. intros v w1 _.
    destruct v as [| | [|] | | | | | | | | |]; try exact I; unfold st.
    - vjump. vdone.
    - vstep. eapply sim_bind; [use_IH IHels sg|]. intros; exact I.
  Qed.

  Lemma dbg_on e pc en w : is_debug = true ->
    d_stmt pc (SDebugAssert e) = d_expr pc e ++ [I_Branch (T_Resolved (pc + sz_expr e + 2)); I_Exit ER_Panic]
    /\ sz_stmt (SDebugAssert e) = sz_expr e + 2
    /\ eval_stmt en w (SDebugAssert e)
       = obind (eval_expr en w e) (fun v w => match v with
                                              | V_Bool true => OVal en w
                                              | V_Bool false => OExit ER_Panic w
                                              | _ => OWrong
                                              end).
  Proof. intros H. destruct is_debug; [|discriminate]. repeat split. Qed.
  Lemma dbg_off e pc en w : is_debug = false ->
    d_stmt pc (SDebugAssert e) = [] /\ sz_stmt (SDebugAssert e) = 0 /\ eval_stmt en w (SDebugAssert e) = OVal en w.
  Proof. intros H. destruct is_debug; [discriminate|]. repeat split. Qed.

  Lemma case_SDebugAssert e : P_expr e -> P_stmt (SDebugAssert e).
  Proof.
    intros IHe lo hi en sg pc w Hat Hlo Hhi.
    destruct (Bool.bool_dec is_debug true) as [Ed|Ed].
    - destruct (dbg_on e pc en w Ed) as (Hd & Hs & He). rewrite Hd in Hat. rewrite Hs in *. rewrite He.
      split_at Hat; norm_at. unfold st.
      eapply sim_bind; [use_IH IHe sg|]. intros v w1 _.
      destruct v as [| | [|] | | | | | | | | |]; try exact I; unfold st.
      + vjump. vdone.
      + vstep. cbn [sim_out]. eexists. split; [eapply (s_exit dbg io m Hlen); [lookup|cbn [Vm.exec]; vm_unf; reflexivity|in_range]|].
        split; reflexivity.
    - apply Bool.not_true_is_false in Ed. destruct (dbg_off e pc en w Ed) as (Hd & Hs & He). rewrite Hs in *. rewrite He.
      cbn [sim_out]. apply mruno_done'. unfold st. f_equal. lia.
  Qed.

  (** ** if statements *)
  Definition P_branches (bs : branches) : Prop := forall lo hi en sg pc endl w,
    at_pc m pc (d_branches pc endl bs) -> lo <= pc -> pc + sz_branches bs <= hi ->
    sim_out (Qr lo hi) (st en sg pc w) (eval_branches en w bs)
            (fun r w' => match r with
                         | Some _ => st en sg endl w'
                         | None => st en sg (pc + sz_branches bs) w'
                         end).
  Definition P_ostmts (o : ostmts) : Prop := match o with ONone => True | OSome ss => P_stmts ss end.

  Lemma case_BNil : P_branches BNil.
  Proof.
    intros lo hi en sg pc endl w Hat Hlo Hhi. rewrite eval_branches_BNil. autorewrite with deq in *.
    cbn [sim_out]. apply mruno_done'. unfold st. f_equal. lia.
  Qed.
  Lemma case_BCons c ss bs : P_expr c -> P_stmts ss -> P_branches bs -> P_branches (BCons c ss bs).
  Proof.
    intros IHc IHss IHbs lo hi en sg pc endl w Hat Hlo Hhi. rewrite eval_branches_BCons. start_case Hat. unfold st.
    eapply sim_bind; [use_IH IHc sg|]. intros v w1 _.
    destruct v as [| | [|] | | | | | | | | |]; try exact I; unfold st.
    - vstep. vstep. vstep.
      eapply sim_bind; [use_IHss IHss (env_push en) sg|]. intros en1 w2 E1.
      destruct (eval_stmts_tail _ _ _ _ _ E1) as [b Hb]; [discriminate|]. cbn [tl env_push] in Hb. subst en1. unfold st.
      vstep. vjump. vdone.
    - vstep. vjump.
      eapply sim_out_fin; [|eapply (IHbs lo hi en sg); eauto; lia].
      intros [e'|] w'; unfold st; f_equal; lia.
  Qed.

  Lemma case_SIf bs fb : P_branches bs -> P_ostmts fb -> P_stmt (SIf bs fb).
  Proof.
    intros IHbs IHfb lo hi en sg pc w Hat Hlo Hhi. rewrite eval_stmt_SIf. autorewrite with deq in *. cbv zeta in Hat.
    destruct fb as [|ss]; split_at Hat; norm_at.
    - eapply sim_bind; [eapply (IHbs lo hi en sg pc (pc + sz_branches bs + 0)); eauto; lia|].
      intros [e'|] w1 E1; cbn [sim_out]; apply mruno_done'; unfold st; try (apply eval_branches_some in E1; subst e'); f_equal; lia.
    - cbn [P_ostmts] in IHfb.
      eapply sim_bind; [eapply (IHbs lo hi en sg pc (pc + sz_branches bs + (1 + sz_stmts ss + 1))); eauto; lia|].
      intros [e'|] w1 E1.
      + cbn [sim_out]. apply mruno_done'. apply eval_branches_some in E1. subst e'. unfold st. f_equal. lia.
      + unfold st. vstep.
        eapply sim_bind; [use_IHss IHfb (env_push en) sg|]. intros en1 w2 E2.
        destruct (eval_stmts_tail _ _ _ _ _ E2) as [b Hb]; [discriminate|]. cbn [tl env_push] in Hb. subst en1. unfold st.
        vstep. vdone.
  Qed.

  Hypothesis Hfin : fin_exit = if in_recall then ER_Check else ER_Normal.

  Lemma case_SFinish ss : P_stmts ss -> P_stmt (SFinish ss).
  Proof.
    intros IHss lo hi en sg pc w Hat Hlo Hhi. rewrite eval_stmt_SFinish. start_case Hat. unfold st.
    vstep. vstep.
    eapply sim_bind; [use_IHss IHss (env_push en) sg|]. intros en1 w2 E2.
    destruct (eval_stmts_tail _ _ _ _ _ E2) as [b Hb]; [discriminate|]. cbn [tl env_push] in Hb. subst en1. unfold st.
    vstep. cbn [sim_out]. eexists. split; [eapply (s_exit dbg io m Hlen); [lookup|cbn [Vm.exec]; vm_unf; rewrite Hfin; reflexivity|in_range]|].
    split; reflexivity.
  Qed.

  (** ** match *)

  (** a literal pattern pushes its value *)
  Lemma lit_sim l : forall lo hi en sg pc w lv,
    at_pc m pc (d_lit p l) -> lo <= pc -> pc + len (d_lit p l) <= hi -> lit_value p l = Some lv ->
    mruno (Qr lo hi) (st en sg pc w) (MTo (st en (lv :: sg) (pc + len (d_lit p l)) w)).
  Proof.
    induction l; intros lo hi en sg pc w lv Hat Hlo Hhi Hv; cbn [d_lit lit_value] in *;
      autorewrite with len in *; split_at Hat;
      try (inversion Hv; subst; clear Hv; unfold st;
           eapply (s_push dbg io m Hcm Hlen); [lookup|cbn [Vm.exec]; reflexivity|reflexivity|in_range|];
           cbv beta iota delta [set_pc set_stack rs_stack rs_scope rs_pc rs_call_state rs_ctx rs_io rs_query_iters];
           apply mruno_done'; cbn [const_to_value]; f_equal; lia).
    - (* LEnum *) destruct (enum_value p enum variant) as [i|] eqn:E; [|discriminate]. cbn [option_map] in Hv.
      inversion Hv; subst. unfold st.
      eapply (s_push dbg io m Hcm Hlen); [lookup|cbn [Vm.exec]; reflexivity|reflexivity|in_range|].
      cbv beta iota delta [set_pc set_stack rs_stack rs_scope rs_pc rs_call_state rs_ctx rs_io rs_query_iters].
      apply mruno_done'; cbn [const_to_value]; f_equal; lia.
    - destruct (lit_value p l) as [x|] eqn:E; [|discriminate]. cbn [option_map] in Hv. inversion Hv; subst.
      eapply mruno_trans; [eapply (IHl lo hi en sg pc w x); eauto; lia|]. unfold st.
      eapply (s_push dbg io m Hcm Hlen); [lookup|cbn [Vm.exec app]; vm_unf_np; reflexivity|reflexivity|in_range|].
      cbv beta iota delta [set_pc set_stack rs_stack rs_scope rs_pc rs_call_state rs_ctx rs_io rs_query_iters].
      apply mruno_done'; f_equal; lia.
    - destruct (lit_value p l) as [x|] eqn:E; [|discriminate]. cbn [option_map] in Hv. inversion Hv; subst.
      eapply mruno_trans; [eapply (IHl lo hi en sg pc w x); eauto; lia|]. unfold st.
      eapply (s_push dbg io m Hcm Hlen); [lookup|cbn [Vm.exec app]; vm_unf_np; reflexivity|reflexivity|in_range|].
      cbv beta iota delta [set_pc set_stack rs_stack rs_scope rs_pc rs_call_state rs_ctx rs_io rs_query_iters].
      apply mruno_done'; f_equal; lia.
    - destruct (lit_value p l) as [x|] eqn:E; [|discriminate]. cbn [option_map] in Hv. inversion Hv; subst.
      eapply mruno_trans; [eapply (IHl lo hi en sg pc w x); eauto; lia|]. unfold st.
      eapply (s_push dbg io m Hcm Hlen); [lookup|cbn [Vm.exec app]; vm_unf_np; reflexivity|reflexivity|in_range|].
      cbv beta iota delta [set_pc set_stack rs_stack rs_scope rs_pc rs_call_state rs_ctx rs_io rs_query_iters].
      apply mruno_done'; f_equal; lia.
  Qed.

  Lemma is_wrap_eq wt v :
    match wt, v with
    | W_Some, V_Option (Some _) => true
    | W_Ok, V_Result (ROk _) => true
    | W_Err, V_Result (RErr _) => true
    | _, _ => false
    end = match unwrap wt v with Some _ => true | None => false end.
  Proof. destruct wt; destruct v as [| | | | | | | | | |[?|]|[?|?]]; reflexivity. Qed.

  Ltac mstep_push :=
    cbn [app]; eapply (s_push dbg io m Hcm Hlen);
    [lookup|cbn [Vm.exec app]; vm_unf_np; reflexivity|reflexivity|in_range|];
    cbv beta iota delta [set_pc set_stack rs_stack rs_scope rs_pc rs_call_state rs_ctx rs_io rs_query_iters].
  Ltac mstep_go :=
    cbn [app]; eapply (s_go dbg io m Hlen);
    [lookup|cbn [Vm.exec app]; vm_unf; reflexivity|reflexivity|in_range|];
    cbv beta iota delta [set_pc set_stack rs_stack rs_scope rs_pc rs_call_state rs_ctx rs_io rs_query_iters].
  Ltac mstep_jump :=
    cbn [app]; eapply (s_jump dbg io m Hlen);
    [lookup|cbn [Vm.exec app]; vm_unf; reflexivity|in_range|].

  (** the tests of one arm: a match branches to the arm, otherwise control falls through *)
  Lemma tests_sim ps : forall lo hi en sg pc w v arm,
    at_pc m pc (d_tests p ps arm) -> lo <= pc -> pc + len (d_tests p ps arm) <= hi ->
    match any_match p v ps with
    | None => True
    | Some true => mruno (Qr lo hi) (st en (v :: sg) pc w) (MTo (st en (v :: sg) arm w))
    | Some false => mruno (Qr lo hi) (st en (v :: sg) pc w) (MTo (st en (v :: sg) (pc + len (d_tests p ps arm)) w))
    end.
  Proof.
    induction ps as [|pt r IH]; intros lo hi en sg pc w v arm Hat Hlo Hhi; cbn [any_match d_tests] in *.
    - apply mruno_done'. unfold st. f_equal. autorewrite with len. lia.
    - destruct pt as [l|wt x]; cbn [pat_match].
      + destruct (lit_value p l) as [lv|] eqn:El; cbn [option_map]; [|exact I].
        autorewrite with len in *. split_at Hat.
        assert (Hpre : forall o,
          mruno (Qr lo hi) (S (en :: outer) (V_Bool (value_eqb v lv) :: v :: sg ++ base) cs (pc + 1 + len (d_lit p l) + 1)
                              (w_ctx w) qi (w_io w)) o ->
          mruno (Qr lo hi) (st en (v :: sg) pc w) o).
        { intros o Hk. unfold st. mstep_push.
          eapply mruno_trans; [eapply (lit_sim l lo hi en (v :: v :: sg) (pc + 1) w lv); eauto; lia|]. unfold st.
          mstep_push. exact Hk. }
        destruct (value_eqb v lv) eqn:Ev.
        * apply Hpre. mstep_jump. apply mruno_done'. reflexivity.
        * specialize (IH lo hi en sg (pc + 1 + len (d_lit p l) + 1 + 1) w v arm).
          destruct (any_match p v r) as [[|]|]; auto.
          -- apply Hpre. mstep_go. eapply IH; eauto; try lia.
             replace (pc + 1 + len (d_lit p l) + 1 + 1) with (pc + (0 + 1) + len (d_lit p l) + (0 + 1 + 1)) by lia. exact Hat.
          -- apply Hpre. mstep_go. eapply mruno_trans; [eapply IH; eauto; try lia|].
             ++ replace (pc + 1 + len (d_lit p l) + 1 + 1) with (pc + (0 + 1) + len (d_lit p l) + (0 + 1 + 1)) by lia. exact Hat.
             ++ apply mruno_done'. unfold st. f_equal. lia.
      + autorewrite with len in *. split_at Hat.
        assert (Hpre : forall o,
          mruno (Qr lo hi) (S (en :: outer) (V_Bool (match unwrap wt v with Some _ => true | None => false end) :: v :: sg ++ base)
                              cs (pc + 1 + 1) (w_ctx w) qi (w_io w)) o ->
          mruno (Qr lo hi) (st en (v :: sg) pc w) o).
        { intros o Hk. unfold st. mstep_push. mstep_push. rewrite is_wrap_eq. exact Hk. }
        destruct (unwrap wt v) as [inner|] eqn:Eu.
        * apply Hpre. mstep_jump. apply mruno_done'. reflexivity.
        * specialize (IH lo hi en sg (pc + 1 + 1 + 1) w v arm).
          destruct (any_match p v r) as [[|]|]; auto.
          -- apply Hpre. mstep_go. eapply IH; eauto; try lia.
             replace (pc + 1 + 1 + 1) with (pc + (0 + 1 + 1 + 1)) by lia. exact Hat.
          -- apply Hpre. mstep_go. eapply mruno_trans; [eapply IH; eauto; try lia|].
             ++ replace (pc + 1 + 1 + 1) with (pc + (0 + 1 + 1 + 1)) by lia. exact Hat.
             ++ apply mruno_done'. unfold st. f_equal. lia.
  Qed.

  (** which arm the reference semantics selects: [None] = undefined, [Some None] = no pattern matches *)
  Fixpoint first_match (pats : list pattern) (v : Value) : option (option nat) :=
    match pats with
    | [] => Some None
    | pt :: r =>
      match (match pt with PDefault => Some true | PVals ps => any_match p v ps end) with
      | None => None
      | Some true => Some (Some O)
      | Some false => option_map (option_map Datatypes.S) (first_match r v)
      end
    end.

  Lemma patterns_sim pats : forall lo hi en sg pc w v addrs,
    at_pc m pc (d_patterns p pats addrs) -> lo <= pc -> pc + len (d_patterns p pats addrs) <= hi ->
    match first_match pats v with
    | None => True
    | Some (Some k) => mruno (Qr lo hi) (st en (v :: sg) pc w) (MTo (st en (v :: sg) (nth k addrs 0) w))
    | Some None => mruno (Qr lo hi) (st en (v :: sg) pc w) (MTo (st en (v :: sg) (pc + len (d_patterns p pats addrs)) w))
    end.
  Proof.
    induction pats as [|pt r IH]; intros lo hi en sg pc w v addrs Hat Hlo Hhi; cbn [first_match d_patterns] in *.
    - apply mruno_done'. unfold st. f_equal. autorewrite with len. lia.
    - autorewrite with len in *. split_at Hat.
      destruct pt as [ps|]; cbn [d_pattern] in *.
      + pose proof (tests_sim ps lo hi en sg pc w v (hd 0 addrs) Hat0 Hlo ltac:(lia)) as Ht.
        destruct (any_match p v ps) as [[|]|]; auto.
        * destruct addrs; exact Ht.
        * specialize (IH lo hi en sg (pc + len (d_tests p ps (hd 0 addrs))) w v (tl addrs) Hat ltac:(lia) ltac:(lia)).
          destruct (first_match r v) as [[k|]|]; cbn [option_map]; auto.
          -- eapply mruno_trans; [exact Ht|]. destruct addrs; [destruct k; exact IH|exact IH].
          -- eapply mruno_trans; [exact Ht|]. eapply mruno_trans; [exact IH|]. apply mruno_done'. unfold st. f_equal. lia.
      + autorewrite with len in *. split_at Hat0. unfold st. mstep_jump. apply mruno_done'. destruct addrs; reflexivity.
  Qed.

  (** entering an arm: a new block, the scrutinee unwrapped into the bound variable or dropped *)
  Lemma arm_head_sim pt lo hi en sg pc w v en' :
    at_pc m pc (d_arm_head pt) -> lo <= pc -> pc + len (d_arm_head pt) <= hi ->
    arm_env G en v pt = Some en' ->
    mruno (Qr lo hi) (st en (v :: sg) pc w) (MTo (st en' sg (pc + len (d_arm_head pt)) w))
    /\ exists b, en' = b :: en.
  Proof.
    intros Hat Hlo Hhi Ha. unfold arm_env, d_arm_head in *.
    destruct (match pt with PVals ps => first_bind ps | PDefault => None end) as [[wt x]|].
    - autorewrite with len in *. split_at Hat.
      destruct (unwrap wt v) as [inner|] eqn:Eu; [|discriminate].
      split; [|apply env_set_tail in Ha; exact Ha].
      assert (Hun : forall s0,
        rs_stack s0 = v :: sg ++ base ->
        Vm.exec dbg io m (I_Unwrap wt) s0 = ipush m inner (set_stack s0 (sg ++ base))).
      { intros s0 Hs0. destruct s0 as [a1 a2 a3 a4 a5 a6 a7]. cbn [rs_stack] in Hs0. subst a2.
        cbn [Vm.exec]. vm_unf_np.
        destruct wt; destruct v as [| | | | | | | | | |[?|]|[?|?]]; try discriminate; inversion Eu; subst; reflexivity. }
      unfold st. mstep_go.
      eapply (s_push dbg io m Hcm Hlen); [lookup|apply Hun; reflexivity|reflexivity|in_range|].
      cbv beta iota delta [set_pc set_stack rs_stack rs_scope rs_pc rs_call_state rs_ctx rs_io rs_query_iters].
      eapply (s_go dbg io m Hlen); [lookup| | |in_range|].
      { cbn [Vm.exec app]. vm_unf. pose proof (scope_set_env _ _ _ _ Ha) as Hs.
        match goal with |- context [match ?X with ROk _ => _ | RErr _ => _ end] =>
          assert (Hx : X = ROk (en' :: outer)) by exact Hs; rewrite Hx end. reflexivity. }
      { reflexivity. }
      cbv beta iota delta [set_pc set_stack rs_stack rs_scope rs_pc rs_call_state rs_ctx rs_io rs_query_iters].
      apply mruno_done'. f_equal. lia.
    - autorewrite with len in *. split_at Hat. inversion Ha; subst. split; [|unfold env_push; eauto].
      unfold st. mstep_go. mstep_go. apply mruno_done'. unfold env_push. f_equal. lia.
  Qed.

  (** the code ranges of the arms *)
  Fixpoint earm_sizes (arms : earms) : list N :=
    match arms with
    | EANil => []
    | EACons pt e r => (len (d_arm_head pt) + sz_expr e + 2) :: earm_sizes r
    end.
  Fixpoint sarm_sizes (arms : sarms) : list N :=
    match arms with
    | SANil => []
    | SACons pt ss r => (len (d_arm_head pt) + sz_stmts ss + 2) :: sarm_sizes r
    end.

  Lemma first_match_lt pats v : forall k, first_match pats v = Some (Some k) -> (k < List.length pats)%nat.
  Proof.
    induction pats as [|pt r IH]; intros k H; cbn [first_match] in H; [discriminate|].
    destruct (match pt with PDefault => Some true | PVals ps => any_match p v ps end) as [[|]|]; try discriminate.
    - inversion H. cbn. lia.
    - destruct (first_match r v) as [[k'|]|]; cbn in H; try discriminate. inversion H. specialize (IH k' eq_refl). cbn. lia.
  Qed.

  Lemma earm_bounds arms : forall pc0 k, (k < List.length (earms_patterns arms))%nat ->
    pc0 <= nth k (earm_addrs p is_debug arms pc0) 0
    /\ nth k (earm_addrs p is_debug arms pc0) 0 + nth k (earm_sizes arms) 0 <= pc0 + sz_earms arms.
  Proof.
    induction arms as [|pt e r IH]; intros pc0 k Hk.
    - cbn in Hk. lia.
    - change (earms_patterns (EACons pt e r)) with (pt :: earms_patterns r) in Hk. cbn [List.length] in Hk.
      rewrite sz_earms_EACons. cbn [earm_addrs earm_sizes].
      destruct k as [|k]; cbn [nth]; [lia|].
      destruct (IH (pc0 + len (d_arm_head pt) + sz_expr e + 2) k ltac:(lia)). lia.
  Qed.
  Lemma sarm_bounds arms : forall pc0 k, (k < List.length (sarms_patterns arms))%nat ->
    pc0 <= nth k (sarm_addrs p is_debug arms pc0) 0
    /\ nth k (sarm_addrs p is_debug arms pc0) 0 + nth k (sarm_sizes arms) 0 <= pc0 + sz_sarms arms.
  Proof.
    induction arms as [|pt ss r IH]; intros pc0 k Hk.
    - cbn in Hk. lia.
    - change (sarms_patterns (SACons pt ss r)) with (pt :: sarms_patterns r) in Hk. cbn [List.length] in Hk.
      rewrite sz_sarms_SACons. cbn [sarm_addrs sarm_sizes].
      destruct k as [|k]; cbn [nth]; [lia|].
      destruct (IH (pc0 + len (d_arm_head pt) + sz_stmts ss + 2) k ltac:(lia)). lia.
  Qed.
  (** distinct arms occupy disjoint ranges *)
  Lemma earm_disjoint arms : forall pc0 j k, j <> k ->
    (j < List.length (earms_patterns arms))%nat -> (k < List.length (earms_patterns arms))%nat ->
    nth j (earm_addrs p is_debug arms pc0) 0 + nth j (earm_sizes arms) 0 <= nth k (earm_addrs p is_debug arms pc0) 0
    \/ nth k (earm_addrs p is_debug arms pc0) 0 + nth k (earm_sizes arms) 0 <= nth j (earm_addrs p is_debug arms pc0) 0.
  Proof.
    induction arms as [|pt e r IH]; intros pc0 j k Hjk Hj Hk.
    - cbn in Hj. lia.
    - change (earms_patterns (EACons pt e r)) with (pt :: earms_patterns r) in Hj, Hk. cbn [List.length] in Hj, Hk.
      cbn [earm_addrs earm_sizes].
      destruct j as [|j], k as [|k]; cbn [nth]; try congruence.
      + left. destruct (earm_bounds r (pc0 + len (d_arm_head pt) + sz_expr e + 2) k ltac:(lia)). lia.
      + right. destruct (earm_bounds r (pc0 + len (d_arm_head pt) + sz_expr e + 2) j ltac:(lia)). lia.
      + apply IH; try lia.
  Qed.
  Lemma sarm_disjoint arms : forall pc0 j k, j <> k ->
    (j < List.length (sarms_patterns arms))%nat -> (k < List.length (sarms_patterns arms))%nat ->
    nth j (sarm_addrs p is_debug arms pc0) 0 + nth j (sarm_sizes arms) 0 <= nth k (sarm_addrs p is_debug arms pc0) 0
    \/ nth k (sarm_addrs p is_debug arms pc0) 0 + nth k (sarm_sizes arms) 0 <= nth j (sarm_addrs p is_debug arms pc0) 0.
  Proof.
    induction arms as [|pt ss r IH]; intros pc0 j k Hjk Hj Hk.
    - cbn in Hj. lia.
    - change (sarms_patterns (SACons pt ss r)) with (pt :: sarms_patterns r) in Hj, Hk. cbn [List.length] in Hj, Hk.
      cbn [sarm_addrs sarm_sizes].
      destruct j as [|j], k as [|k]; cbn [nth]; try congruence.
      + left. destruct (sarm_bounds r (pc0 + len (d_arm_head pt) + sz_stmts ss + 2) k ltac:(lia)). lia.
      + right. destruct (sarm_bounds r (pc0 + len (d_arm_head pt) + sz_stmts ss + 2) j ltac:(lia)). lia.
      + apply IH; try lia.
  Qed.

  Definition P_earms (arms : earms) : Prop := forall lo hi en sg pc0 endl v w k,
    at_pc m pc0 (d_earms pc0 endl arms) ->
    (* the selected arm runs inside its own range *)
    lo <= nth k (earm_addrs p is_debug arms pc0) 0 ->
    nth k (earm_addrs p is_debug arms pc0) 0 + nth k (earm_sizes arms) 0 <= hi ->
    first_match (earms_patterns arms) v = Some (Some k) ->
    sim_out (Qr lo hi) (st en (v :: sg) (nth k (earm_addrs p is_debug arms pc0) 0) w) (eval_earms en w v arms)
            (fun r w' => st en (r :: sg) endl w').

  Lemma case_EANil : P_earms EANil.
  Proof. intros lo hi en sg pc0 endl v w k Hat Hlo Hhi Hk. cbn in Hk. discriminate. Qed.

  Lemma case_EACons pt e arms : P_expr e -> P_earms arms -> P_earms (EACons pt e arms).
  Proof.
    intros IHe IHarms lo hi en sg pc0 endl v w k Hat Hlo Hhi Hk.
    rewrite eval_earms_EACons. start_case Hat.
    change (earms_patterns (EACons pt e arms)) with (pt :: earms_patterns arms) in Hk. cbn [first_match] in Hk.
    cbn [earm_addrs earm_sizes] in *.
    destruct (match pt with PDefault => Some true | PVals ps => any_match p v ps end) as [[|]|]; [| |exact I].
    - inversion Hk; subst k. cbn [nth] in *.
      destruct (arm_env G en v pt) as [en'|] eqn:Ea; [|exact I].
      destruct (arm_head_sim pt lo hi en sg pc0 w v en' Hat0 Hlo ltac:(lia) Ea) as [Hh [b Hb]]. subst en'.
      eapply sim_out_trans; [exact Hh|]. unfold st.
      eapply sim_post; [use_IH IHe sg|]. intros r w2 _. unfold st.
      vstep. vjump. vdone.
    - destruct (first_match (earms_patterns arms) v) as [[k'|]|] eqn:Ef; cbn [option_map] in Hk; try discriminate.
      inversion Hk; subst k. cbn [nth] in *.
      eapply (IHarms lo hi en sg); eauto; try lia.
  Qed.

  Lemma case_EMatch e arms : P_expr e -> P_earms arms -> P_expr (EMatch e arms).
  Proof.
    intros IHe IHarms lo hi en sg pc w Hat Hlo Hhi. rewrite eval_expr_EMatch. start_case Hat. unfold st.
    eapply sim_bind; [use_IH IHe sg|]. intros v w1 _.
    set (pats := earms_patterns arms) in *.
    set (base_pc := pc + sz_expr e + len (d_patterns p pats [])) in *.
    pose proof (patterns_sim pats lo hi en sg (pc + sz_expr e) w1 v (earm_addrs p is_debug arms base_pc) Hat1 ltac:(lia)) as Hp.
    rewrite len_d_patterns in Hp. specialize (Hp ltac:(lia)).
    destruct (first_match pats v) as [[k|]|] eqn:Ef.
    - eapply sim_out_trans; [exact Hp|].
      destruct (earm_bounds arms base_pc k (first_match_lt _ _ _ Ef)) as [Hb1 Hb2].
      eapply sim_out_fin; [|eapply (IHarms lo hi en sg base_pc (base_pc + sz_earms arms) v w1 k); eauto; try (subst base_pc; lia)].
      + intros r w'. unfold st. f_equal. subst base_pc. lia.
      + rewrite len_d_patterns in Hat. exact Hat.
    - (* no pattern matches: the reference semantics has no rule *)
      assert (Hw : eval_earms en w1 v arms = OWrong \/ True) by auto.
      clear Hw.
      assert (Hnone : forall arms', first_match (earms_patterns arms') v = Some None -> eval_earms en w1 v arms' = OWrong).
      { induction arms' as [|pt e' r IHr]; intros Hf.
        - apply eval_earms_EANil.
        - rewrite eval_earms_EACons. change (earms_patterns (EACons pt e' r)) with (pt :: earms_patterns r) in Hf.
          cbn [first_match] in Hf.
          destruct (match pt with PDefault => Some true | PVals ps => any_match p v ps end) as [[|]|]; try discriminate.
          apply IHr. destruct (first_match (earms_patterns r) v) as [[?|]|]; cbn in Hf; try discriminate. reflexivity. }
      rewrite (Hnone arms Ef). exact I.
    - assert (Hnone : forall arms', first_match (earms_patterns arms') v = None -> eval_earms en w1 v arms' = OWrong).
      { induction arms' as [|pt e' r IHr]; intros Hf.
        - cbn in Hf. discriminate.
        - rewrite eval_earms_EACons. change (earms_patterns (EACons pt e' r)) with (pt :: earms_patterns r) in Hf.
          cbn [first_match] in Hf.
          destruct (match pt with PDefault => Some true | PVals ps => any_match p v ps end) as [[|]|]; try discriminate; auto.
          apply IHr. destruct (first_match (earms_patterns r) v) as [[?|]|]; cbn in Hf; try discriminate. reflexivity. }
      rewrite (Hnone arms Ef). exact I.
  Qed.

  Definition P_sarms (arms : sarms) : Prop := forall lo hi en sg pc0 endl v w k,
    at_pc m pc0 (d_sarms pc0 endl arms) ->
    lo <= nth k (sarm_addrs p is_debug arms pc0) 0 ->
    nth k (sarm_addrs p is_debug arms pc0) 0 + nth k (sarm_sizes arms) 0 <= hi ->
    first_match (sarms_patterns arms) v = Some (Some k) ->
    sim_out (Qr lo hi) (st en (v :: sg) (nth k (sarm_addrs p is_debug arms pc0) 0) w) (eval_sarms en w v arms)
            (fun en' w' => st en' sg endl w').

  Lemma case_SANil : P_sarms SANil.
  Proof. intros lo hi en sg pc0 endl v w k Hat Hlo Hhi Hk. cbn in Hk. discriminate. Qed.

  Lemma case_SACons pt ss arms : P_stmts ss -> P_sarms arms -> P_sarms (SACons pt ss arms).
  Proof.
    intros IHss IHarms lo hi en sg pc0 endl v w k Hat Hlo Hhi Hk.
    rewrite eval_sarms_SACons. start_case Hat.
    change (sarms_patterns (SACons pt ss arms)) with (pt :: sarms_patterns arms) in Hk. cbn [first_match] in Hk.
    cbn [sarm_addrs sarm_sizes] in *.
    destruct (match pt with PDefault => Some true | PVals ps => any_match p v ps end) as [[|]|]; [| |exact I].
    - inversion Hk; subst k. cbn [nth] in *.
      destruct (arm_env G en v pt) as [en'|] eqn:Ea; [|exact I].
      destruct (arm_head_sim pt lo hi en sg pc0 w v en' Hat0 Hlo ltac:(lia) Ea) as [Hh [b Hb]]. subst en'.
      eapply sim_out_trans; [exact Hh|]. unfold st.
      eapply sim_bind; [use_IHss IHss (b :: en) sg|]. intros en1 w2 E1.
      destruct (eval_stmts_tail _ _ _ _ _ E1) as [b' Hb']; [discriminate|]. cbn [tl] in Hb'. subst en1. unfold st.
      vstep. vjump. vdone.
    - destruct (first_match (sarms_patterns arms) v) as [[k'|]|] eqn:Ef; cbn [option_map] in Hk; try discriminate.
      inversion Hk; subst k. cbn [nth] in *.
      eapply (IHarms lo hi en sg); eauto; try lia.
  Qed.

  Lemma case_SMatch e arms : P_expr e -> P_sarms arms -> P_stmt (SMatch e arms).
  Proof.
    intros IHe IHarms lo hi en sg pc w Hat Hlo Hhi. rewrite eval_stmt_SMatch. start_case Hat. unfold st.
    eapply sim_bind; [use_IH IHe sg|]. intros v w1 _.
    set (pats := sarms_patterns arms) in *.
    set (base_pc := pc + sz_expr e + len (d_patterns p pats [])) in *.
    pose proof (patterns_sim pats lo hi en sg (pc + sz_expr e) w1 v (sarm_addrs p is_debug arms base_pc) Hat1 ltac:(lia)) as Hp.
    rewrite len_d_patterns in Hp. specialize (Hp ltac:(lia)).
    destruct (first_match pats v) as [[k|]|] eqn:Ef.
    - eapply sim_out_trans; [exact Hp|].
      destruct (sarm_bounds arms base_pc k (first_match_lt _ _ _ Ef)) as [Hb1 Hb2].
      eapply sim_out_fin; [|eapply (IHarms lo hi en sg base_pc (base_pc + sz_sarms arms) v w1 k); eauto; try (subst base_pc; lia)].
      + intros r w'. unfold st. f_equal. subst base_pc. lia.
      + rewrite len_d_patterns in Hat. exact Hat.
    - assert (Hnone : forall arms', first_match (sarms_patterns arms') v = Some None -> eval_sarms en w1 v arms' = OWrong).
      { induction arms' as [|pt e' r IHr]; intros Hf.
        - apply eval_sarms_SANil.
        - rewrite eval_sarms_SACons. change (sarms_patterns (SACons pt e' r)) with (pt :: sarms_patterns r) in Hf.
          cbn [first_match] in Hf.
          destruct (match pt with PDefault => Some true | PVals ps => any_match p v ps end) as [[|]|]; try discriminate.
          apply IHr. destruct (first_match (sarms_patterns r) v) as [[?|]|]; cbn in Hf; try discriminate. reflexivity. }
      rewrite (Hnone arms Ef). exact I.
    - assert (Hnone : forall arms', first_match (sarms_patterns arms') v = None -> eval_sarms en w1 v arms' = OWrong).
      { induction arms' as [|pt e' r IHr]; intros Hf.
        - cbn in Hf. discriminate.
        - rewrite eval_sarms_SACons. change (sarms_patterns (SACons pt e' r)) with (pt :: sarms_patterns r) in Hf.
          cbn [first_match] in Hf.
          destruct (match pt with PDefault => Some true | PVals ps => any_match p v ps end) as [[|]|]; try discriminate; auto.
          apply IHr. destruct (first_match (sarms_patterns r) v) as [[?|]|]; cbn in Hf; try discriminate. reflexivity. }
      rewrite (Hnone arms Ef). exact I.
  Qed.

  (** ** Calls *)
  Definition P_exprs (es : exprs) : Prop := forall lo hi en sg pc w,
    at_pc m pc (d_exprs pc es) -> lo <= pc -> pc + sz_exprs es <= hi ->
    sim_out (Qr lo hi) (st en sg pc w) (eval_exprs en w es) (fun vs w' => st en (rev vs ++ sg) (pc + sz_exprs es) w').

  Lemma case_ENil : P_exprs ENil.
  Proof.
    intros lo hi en sg pc w Hat Hlo Hhi. rewrite eval_exprs_ENil. autorewrite with deq in *. cbn [sim_out].
    apply mruno_done'. unfold st. cbn [rev app]. f_equal. lia.
  Qed.
  Lemma case_ECons e es : P_expr e -> P_exprs es -> P_exprs (ECons e es).
  Proof.
    intros IHe IHes lo hi en sg pc w Hat Hlo Hhi. rewrite eval_exprs_ECons. start_case Hat. unfold st.
    eapply sim_bind; [use_IH IHe sg|]. intros v w1 _.
    eapply sim_bind; [eapply (IHes lo hi en (v :: sg)); eauto; lia|]. intros vs w2 _.
    cbn [sim_out]. apply mruno_done'. unfold st. f_equal; [cbn [rev]; repeat rewrite <- app_assoc; reflexivity|lia].
  Qed.

  (** What a callee does, seen from the state the call instruction leaves: the arguments on the
      stack, a fresh function scope, the return address on the call stack. *)
  Definition call_spec {A} (lbl : ident -> Label) (callee : ident -> list Value -> world St -> outcome St A)
      (push : A -> list Value -> list Value) : Prop :=
    forall f vs w scs sg0 cs0 ra qi0,
      ra < len (progmem m) ->
      let s := S ([ [] ] :: scs) (rev vs ++ sg0) (ra :: cs0) (la (lbl f)) (w_ctx w) qi0 (w_io w) in
      let Qd := fun s' : RS => (List.length (ra :: cs0) <= depth s')%nat in
      match callee f vs w with
      | OVal a w' => mruno Qd s (MTo (S scs (push a sg0) cs0 (ra + 1) (w_ctx w') qi0 (w_io w')))
      | OExit r w' => exists s', mruno Qd s (MExit r s') /\ rs_io s' = w_io w' /\ rs_ctx s' = w_ctx w'
      | OErr e w' => exists s', mruno Qd s (MErr e s') /\ rs_io s' = w_io w'
      | ORet _ _ => False
      | OWrong | OFuel => True
      end.

  Hypothesis Hcall_fun : call_spec (fun f => mkLabel f LT_Function) call_fun (fun v sg => v :: sg).
  Hypothesis Hcall_fin : call_spec (fun f => mkLabel f LT_Function) call_fin (fun _ sg => sg).
  Hypothesis Hcall_recall : call_spec (fun n => recall_label cmd n) call_recall (fun _ sg => sg).

  (** the callee's states are deeper than the caller's frame *)
  Lemma Qd_Qr lo hi ra (s : RS) : (List.length (ra :: cs) <= depth s)%nat -> Qr lo hi s.
  Proof. cbn [List.length]. intros H. split; [lia|intros E; lia]. Qed.

  Lemma call_sim {A} lbl (callee : ident -> list Value -> world St -> outcome St A) push lo hi en sg pc w f vs
      (fin : A -> world St -> RS) :
    call_spec lbl callee push ->
    nth_error (progmem m) (N.to_nat pc) = Some (I_Call (T_Resolved (la (lbl f)))) ->
    lo <= pc < hi ->
    (forall a w', S (en :: outer) (push a (sg ++ base)) cs (pc + 1) (w_ctx w') qi (w_io w') = fin a w') ->
    sim_out (Qr lo hi) (st en (rev vs ++ sg) pc w) (callee f vs w) fin.
  Proof.
    intros Hspec Hi Hr Hfn.
    assert (Hpc : pc < len (progmem m)) by (eapply nth_lt; eauto).
    specialize (Hspec f vs w (en :: outer) (sg ++ base) cs pc qi Hpc). cbv zeta in Hspec.
    assert (Hcallstep : forall o,
      mruno (Qr lo hi) (S ([ [] ] :: en :: outer) (rev vs ++ sg ++ base) (pc :: cs) (la (lbl f)) (w_ctx w) qi (w_io w)) o ->
      mruno (Qr lo hi) (st en (rev vs ++ sg) pc w) o).
    { intros o Hk. unfold st. rewrite <- app_assoc.
      eapply (s_jump dbg io m Hlen); [lookup|cbn [Vm.exec]; vm_unf; reflexivity|in_range|exact Hk]. }
    destruct (callee f vs w) as [a w'|v w'|r w'|e w'| |]; cbn [sim_out]; auto.
    - apply Hcallstep. eapply mruno_weaken; [|rewrite <- Hfn; exact Hspec]. intros x Hx. apply (Qd_Qr lo hi pc). exact Hx.
    - contradiction.
    - destruct Hspec as (s' & Hm & Hio). exists s'. split; auto.
      apply Hcallstep. eapply mruno_weaken; [|exact Hm]. intros x Hx. apply (Qd_Qr lo hi pc). exact Hx.
    - destruct Hspec as (s' & Hm & Hio). exists s'. split; auto.
      apply Hcallstep. eapply mruno_weaken; [|exact Hm]. intros x Hx. apply (Qd_Qr lo hi pc). exact Hx.
  Qed.

  Lemma builtin_cases f :
    (builtin_instr f = None /\ forall vs, eval_builtin f vs = None)
    \/ exists i g, builtin_instr f = Some i
         /\ (forall vs, eval_builtin f vs = Some (match vs with [a; b] => int_op g a b | _ => None end))
         /\ (forall s0 x y sg0, rs_stack s0 = V_Int y :: V_Int x :: sg0 ->
              Vm.exec dbg io m i s0 = ipush m (g x y) (set_stack s0 sg0)).
  Proof.
    unfold builtin_instr, eval_builtin.
    destruct (String.eqb f "add"); [right; do 2 eexists; split; [reflexivity|split; [intros [|? [|? [|? ?]]]; reflexivity|]]|].
    { intros [a1 a2 a3 a4 a5 a6 a7] x y sg0 Hs. cbn [rs_stack] in Hs. subst a2. cbn [Vm.exec]. vm_unf_np. reflexivity. }
    destruct (String.eqb f "saturating_add"); [right; do 2 eexists; split; [reflexivity|split; [intros [|? [|? [|? ?]]]; reflexivity|]]|].
    { intros [a1 a2 a3 a4 a5 a6 a7] x y sg0 Hs. cbn [rs_stack] in Hs. subst a2. cbn [Vm.exec]. vm_unf_np. reflexivity. }
    destruct (String.eqb f "sub"); [right; do 2 eexists; split; [reflexivity|split; [intros [|? [|? [|? ?]]]; reflexivity|]]|].
    { intros [a1 a2 a3 a4 a5 a6 a7] x y sg0 Hs. cbn [rs_stack] in Hs. subst a2. cbn [Vm.exec]. vm_unf_np. reflexivity. }
    destruct (String.eqb f "saturating_sub"); [right; do 2 eexists; split; [reflexivity|split; [intros [|? [|? [|? ?]]]; reflexivity|]]|].
    { intros [a1 a2 a3 a4 a5 a6 a7] x y sg0 Hs. cbn [rs_stack] in Hs. subst a2. cbn [Vm.exec]. vm_unf_np. reflexivity. }
    left. split; [reflexivity|intros; reflexivity].
  Qed.

  Lemma case_ECall f args : P_exprs args -> P_expr (ECall f args).
  Proof.
    intros IHa lo hi en sg pc w Hat Hlo Hhi. rewrite eval_expr_ECall. start_case Hat. unfold st.
    eapply sim_bind; [eapply (IHa lo hi en sg); eauto; lia|]. intros vs w1 _.
    unfold d_call in Hat1.
    destruct (builtin_cases f) as [[Hb He]|(i & g & Hb & He & Hx)]; rewrite Hb in Hat1; rewrite He.
    - eapply call_sim; eauto; try lia. intros a w'. unfold st. f_equal. lia.
    - destruct vs as [|a [|b [|c r]]]; try exact I.
      unfold int_op. destruct a; try exact I. destruct b; try exact I.
      unfold st. cbn [rev app].
      eapply sim_lift.
      + intros o Hk. eapply (s_push dbg io m Hcm Hlen); [lookup|apply Hx; reflexivity|reflexivity|in_range|exact Hk].
      + cbv beta iota delta [set_pc set_stack rs_stack rs_scope rs_pc rs_call_state rs_ctx rs_io rs_query_iters]. vdone.
  Qed.


  Lemma case_SCall f args : P_exprs args -> P_stmt (SCall f args).
  Proof.
    intros IHa lo hi en sg pc w Hat Hlo Hhi. rewrite eval_stmt_SCall. start_case Hat. unfold st.
    eapply sim_bind; [eapply (IHa lo hi en sg); eauto; lia|]. intros vs w1 _.
    unfold d_call in Hat1.
    destruct (builtin_cases f) as [[Hb He]|(i & g & Hb & He & Hx)]; rewrite He; [|exact I].
    rewrite Hb in Hat1.
    eapply sim_bind with (fin := fun (_ : unit) w' => st en sg (pc + (sz_exprs args + 1)) w').
    - eapply call_sim; eauto; try lia. intros a w'. unfold st. f_equal. lia.
    - intros [] w2 _. cbn [sim_out]. apply mruno_done'. reflexivity.
  Qed.

  (** [recall name(args)]: [this] and [envelope] are passed along, the context becomes a recall context *)
  Lemma recall_sim {B} lo hi en sg pc w name vs (fin : B -> world St -> RS) :
    at_pc m pc (d_recall la cmd name) -> lo <= pc -> pc + 3 <= hi ->
    sim_out (Qr lo hi) (st en (rev vs ++ sg) pc w)
      (match env_get G "this" en, env_get G "envelope" en, w_ctx w with
       | Some this, Some envelope, CC_Policy c =>
         obind (call_recall name (vs ++ [this; envelope])%list (mkWorld (w_io w) (CC_Recall c)))
               (fun _ _ => @OWrong St B)
       | _, _, _ => OWrong
       end) fin.
  Proof.
    intros Hat Hlo Hhi. unfold d_recall in Hat. split_at Hat.
    destruct (env_get G "this" en) as [this|] eqn:Et; [|exact I].
    destruct (env_get G "envelope" en) as [envelope|] eqn:Ee; [|exact I].
    destruct (w_ctx w) as [| | |c|] eqn:Ec; try exact I.
    assert (Hpc : pc + 1 + 1 < len (progmem m)) by (eapply nth_lt; eauto).
    pose proof (Hcall_recall name (vs ++ [this; envelope]) (mkWorld (w_io w) (CC_Recall c)) (en :: outer) (sg ++ base) cs
                             (pc + 1 + 1) qi Hpc) as Hspec. cbv zeta in Hspec. cbn [w_ctx w_io] in Hspec.
    assert (Hpre : forall o,
      mruno (Qr lo hi) (S ([ [] ] :: en :: outer) (rev (vs ++ [this; envelope]) ++ sg ++ base) (pc + 1 + 1 :: cs)
                          (la (recall_label cmd name)) (CC_Recall c) qi (w_io w)) o ->
      mruno (Qr lo hi) (st en (rev vs ++ sg) pc w) o).
    { intros o Hk. unfold st. rewrite Ec.
      eapply (s_push dbg io m Hcm Hlen); [lookup| |reflexivity|in_range|].
      { cbn [Vm.exec]. vm_unf_np. rewrite (scope_get_env _ _ _ Et). reflexivity. }
      cbv beta iota delta [set_pc set_stack rs_stack rs_scope rs_pc rs_call_state rs_ctx rs_io rs_query_iters].
      eapply (s_push dbg io m Hcm Hlen); [lookup| |reflexivity|in_range|].
      { cbn [Vm.exec]. vm_unf_np. rewrite (scope_get_env _ _ _ Ee). reflexivity. }
      cbv beta iota delta [set_pc set_stack rs_stack rs_scope rs_pc rs_call_state rs_ctx rs_io rs_query_iters].
      eapply (s_jump dbg io m Hlen); [lookup|cbn [Vm.exec]; vm_unf; reflexivity|in_range|].
      rewrite rev_app_distr in Hk. cbn [rev app] in Hk. rewrite <- app_assoc. exact Hk. }
    destruct (call_recall name (vs ++ [this; envelope]) (mkWorld (w_io w) (CC_Recall c))) as [a w'|v w'|r w'|e w'| |];
      cbn [obind sim_out]; auto.
    - contradiction.
    - destruct Hspec as (s' & Hm & Hio). exists s'. split; auto.
      apply Hpre. eapply mruno_weaken; [|exact Hm]. intros x Hx. apply (Qd_Qr lo hi (pc + 1 + 1)). exact Hx.
    - destruct Hspec as (s' & Hm & Hio). exists s'. split; auto.
      apply Hpre. eapply mruno_weaken; [|exact Hm]. intros x Hx. apply (Qd_Qr lo hi (pc + 1 + 1)). exact Hx.
  Qed.

  Lemma case_ERecall name args : P_exprs args -> P_expr (ERecall name args).
  Proof.
    intros IHa lo hi en sg pc w Hat Hlo Hhi. rewrite eval_expr_ERecall. start_case Hat. unfold st.
    eapply sim_bind; [eapply (IHa lo hi en sg); eauto; lia|]. intros vs w1 _.
    eapply (recall_sim lo hi en sg (pc + sz_exprs args) w1 name vs); eauto; try lia.
  Qed.
  Lemma case_SRecall name args : P_exprs args -> P_stmt (SRecall name args).
  Proof.
    intros IHa lo hi en sg pc w Hat Hlo Hhi. rewrite eval_stmt_SRecall. start_case Hat. unfold st.
    eapply sim_bind; [eapply (IHa lo hi en sg); eauto; lia|]. intros vs w1 _.
    eapply (recall_sim lo hi en sg (pc + sz_exprs args) w1 name vs); eauto; try lia.
  Qed.

  (** ** Struct literals *)
  Definition P_fields (fs : fields) : Prop := forall lo hi en sg pc w name def acc,
    at_pc m pc (d_fields pc fs) -> lo <= pc -> pc + sz_fields fs <= hi ->
    struct_fields_of p name = Some def ->
    sim_out (Qr lo hi) (st en (V_Struct (mkStruct name acc) :: sg) pc w) (eval_fields en w fs def acc)
            (fun acc' w' => st en (V_Struct (mkStruct name acc') :: sg) (pc + sz_fields fs) w').

  Lemma existsb_field_of f def :
    existsb (fun f0 => String.eqb (Field_name f0) f) (map field_of def) = existsb (fun fd => String.eqb (fst fd) f) def.
  Proof. induction def as [|d r IH]; cbn; auto. rewrite IH. reflexivity. Qed.

  Lemma case_FNil : P_fields FNil.
  Proof.
    intros lo hi en sg pc w name def acc Hat Hlo Hhi Hd. rewrite eval_fields_FNil. autorewrite with deq in *.
    cbn [sim_out]. apply mruno_done'. unfold st. f_equal. lia.
  Qed.
  Lemma case_FCons f e fs : P_expr e -> P_fields fs -> P_fields (FCons f e fs).
  Proof.
    intros IHe IHfs lo hi en sg pc w name def acc Hat Hlo Hhi Hd. rewrite eval_fields_FCons. start_case Hat. unfold st.
    eapply sim_bind; [use_IH IHe (V_Struct (mkStruct name acc) :: sg)|]. intros v w1 _.
    destruct (existsb (fun fd => String.eqb (fst fd) f) def) eqn:Ex; [|exact I]. unfold st.
    eapply sim_lift.
    - intros o Hk. eapply (s_push dbg io m Hcm Hlen); [lookup| | |in_range|exact Hk].
      + cbn [Vm.exec app]. vm_unf_np. cbn [Struct_name Struct_fields]. rewrite Hsd, Hd. cbn [option_map StructDef_items].
        rewrite existsb_field_of, Ex. reflexivity.
      + reflexivity.
    - cbv beta iota delta [set_pc set_stack rs_stack rs_scope rs_pc rs_call_state rs_ctx rs_io rs_query_iters].
      eapply sim_out_fin; [|eapply (IHfs lo hi en sg (pc + sz_expr e + 1) w1 name def); eauto; lia].
      intros a w'. unfold st. f_equal. lia.
  Qed.

  Lemma case_EStruct name fs : P_fields fs -> P_expr (EStruct name fs).
  Proof.
    intros IHfs lo hi en sg pc w Hat Hlo Hhi. rewrite eval_expr_EStruct. start_case Hat.
    destruct (struct_fields_of p name) as [def|] eqn:Hd; [|exact I]. unfold st.
    vstep.
    eapply sim_bind; [eapply (IHfs lo hi en sg (pc + 1) w name def []); eauto; lia|]. intros flds w1 _.
    cbn [sim_out]. apply mruno_done'. unfold st. f_equal. lia.
  Qed.

  (** ** C23: the code of an untaken operand or branch is not visited

      [Qx lo hi xlo xhi]: as [Qr lo hi], and moreover no state of this frame has its pc in
      [xlo, xhi) - the code range of the operand / branch that is not taken. *)
  Definition Qx (lo hi xlo xhi : N) (s : RS) : Prop :=
    (List.length cs <= depth s + slack)%nat
    /\ (depth s = List.length cs -> lo <= rs_pc s < hi /\ ~ (xlo <= rs_pc s < xhi)).

  Lemma Qr_Qx a b lo hi xlo xhi s :
    Qr a b s -> lo <= a -> b <= hi -> (b <= xlo \/ xhi <= a) -> Qx lo hi xlo xhi s.
  Proof. intros [H1 H2] Ha Hb Hd. split; auto. intros E. specialize (H2 E). lia. Qed.

  Ltac in_rangex := split; unfold depth; cbn [rs_call_state rs_pc]; [lia | intros _; lia].
  Ltac xstep_push :=
    cbn [app]; eapply (s_push dbg io m Hcm Hlen);
    [lookup|cbn [Vm.exec app]; vm_unf_np; reflexivity|reflexivity|in_rangex|];
    cbv beta iota delta [set_pc set_stack rs_stack rs_scope rs_pc rs_call_state rs_ctx rs_io rs_query_iters].
  Ltac xstep_go :=
    cbn [app]; eapply (s_go dbg io m Hlen);
    [lookup|cbn [Vm.exec app]; vm_unf; reflexivity|reflexivity|in_rangex|];
    cbv beta iota delta [set_pc set_stack rs_stack rs_scope rs_pc rs_call_state rs_ctx rs_io rs_query_iters].
  Ltac xstep_jump :=
    cbn [app]; eapply (s_jump dbg io m Hlen);
    [lookup|cbn [Vm.exec app]; vm_unf; reflexivity|in_rangex|].

  (** the evaluated operand, run inside its own code range *)
  Lemma operand_run a (IHa : P_expr a) en sg pc w v w1 lo hi xlo xhi :
    at_pc m pc (d_expr pc a) -> eval_expr en w a = OVal v w1 ->
    lo <= pc -> pc + sz_expr a <= hi -> (pc + sz_expr a <= xlo \/ xhi <= pc) ->
    mruno (Qx lo hi xlo xhi) (st en sg pc w) (MTo (st en (v :: sg) (pc + sz_expr a) w1)).
  Proof.
    intros Hat He Hlo Hhi Hd.
    pose proof (IHa pc (pc + sz_expr a) en sg pc w Hat ltac:(lia) ltac:(lia)) as H. rewrite He in H. cbn [sim_out] in H.
    eapply mruno_weaken; [|exact H]. intros x Hx. eapply Qr_Qx; eauto; lia.
  Qed.

  (** [a && b] with [a] false: no pc of [b]'s code is visited, and the result is [false] *)
  Theorem and_untaken a b : P_expr a -> forall en sg pc w w1,
    at_pc m pc (d_expr pc (EAnd a b)) -> eval_expr en w a = OVal (V_Bool false) w1 ->
    let mid := pc + sz_expr a + 3 in
    mruno (Qx pc (pc + sz_expr (EAnd a b)) mid (mid + sz_expr b)) (st en sg pc w)
          (MTo (st en (V_Bool false :: sg) (pc + sz_expr (EAnd a b)) w1)).
  Proof.
    intros IHa en sg pc w w1 Hat He mid. subst mid. start_case Hat.
    eapply mruno_trans; [eapply (operand_run a IHa); eauto; lia|]. unfold st.
    xstep_go. xstep_push. xstep_jump. apply mruno_done'. f_equal. lia.
  Qed.

  (** [a || b] with [a] true *)
  Theorem or_untaken a b : P_expr a -> forall en sg pc w w1,
    at_pc m pc (d_expr pc (EOr a b)) -> eval_expr en w a = OVal (V_Bool true) w1 ->
    let pb := pc + sz_expr a + 1 in
    mruno (Qx pc (pc + sz_expr (EOr a b)) pb (pb + sz_expr b)) (st en sg pc w)
          (MTo (st en (V_Bool true :: sg) (pc + sz_expr (EOr a b)) w1)).
  Proof.
    intros IHa en sg pc w w1 Hat He pb. subst pb. start_case Hat.
    eapply mruno_trans; [eapply (operand_run a IHa); eauto; lia|]. unfold st.
    xstep_jump. xstep_push. apply mruno_done'. f_equal. lia.
  Qed.

  (** [a or b] with [a] some value *)
  Theorem coalesce_untaken a b : P_expr a -> forall en sg pc w w1 x,
    at_pc m pc (d_expr pc (ECoalesce a b)) -> eval_expr en w a = OVal (V_Option (Some x)) w1 ->
    let pb := pc + sz_expr a + 4 in
    mruno (Qx pc (pc + sz_expr (ECoalesce a b)) pb (pb + sz_expr b)) (st en sg pc w)
          (MTo (st en (x :: sg) (pc + sz_expr (ECoalesce a b)) w1)).
  Proof.
    intros IHa en sg pc w w1 x Hat He pb. subst pb. start_case Hat.
    eapply mruno_trans; [eapply (operand_run a IHa); eauto; lia|]. unfold st.
    xstep_push. xstep_push. xstep_jump. xstep_push. apply mruno_done'. f_equal. lia.
  Qed.

  Lemma sim_out_weaken {A} (Q Q' : RS -> Prop) s (o : outcome St A) fin :
    (forall x, Q x -> Q' x) -> sim_out Q s o fin -> sim_out Q' s o fin.
  Proof.
    intros HQ. destruct o; cbn; auto.
    - apply mruno_weaken; auto.
    - intros H Ha Hb Hc. destruct (H Ha Hb Hc) as (r & Hr & Hm). exists r. split; auto. eapply mruno_weaken; eauto.
    - intros (s' & Hm & Hi). exists s'. split; auto. eapply mruno_weaken; eauto.
    - intros (s' & Hm & Hi). exists s'. split; auto. eapply mruno_weaken; eauto.
  Qed.

  (** [if c { t } else { f }]: the branch that is not selected is not visited, whatever the
      selected one does *)
  Theorem if_true_untaken c t f : P_expr c -> P_expr t -> forall en sg pc w w1,
    at_pc m pc (d_expr pc (EIf c t f)) -> eval_expr en w c = OVal (V_Bool true) w1 ->
    let pf := pc + sz_expr c + 1 in
    sim_out (Qx pc (pc + sz_expr (EIf c t f)) pf (pf + sz_expr f)) (st en sg pc w) (eval_expr en w1 t)
            (fun v w' => st en (v :: sg) (pc + sz_expr (EIf c t f)) w').
  Proof.
    intros IHc IHt en sg pc w w1 Hat He pf. subst pf. start_case Hat.
    eapply sim_out_trans; [eapply (operand_run c IHc); eauto; lia|]. unfold st.
    eapply sim_lift; [intros o Hk; xstep_jump; exact Hk|].
    eapply sim_out_weaken; [|eapply sim_out_fin; [|eapply (IHt (pc + sz_expr c + 1 + sz_expr f + 1) (pc + (sz_expr c + 1 + sz_expr f + 1 + sz_expr t)) en sg); eauto; lia]].
    - intros x Hx. eapply Qr_Qx; eauto; lia.
    - intros v w'. unfold st. f_equal. lia.
  Qed.
  Theorem if_false_untaken c t f : P_expr c -> P_expr f -> forall en sg pc w w1,
    at_pc m pc (d_expr pc (EIf c t f)) -> eval_expr en w c = OVal (V_Bool false) w1 ->
    let pt := pc + sz_expr c + 1 + sz_expr f + 1 in
    sim_out (Qx pc (pc + sz_expr (EIf c t f)) pt (pt + sz_expr t)) (st en sg pc w) (eval_expr en w1 f)
            (fun v w' => st en (v :: sg) (pc + sz_expr (EIf c t f)) w').
  Proof.
    intros IHc IHf en sg pc w w1 Hat He pt. subst pt. start_case Hat.
    eapply sim_out_trans; [eapply (operand_run c IHc); eauto; lia|]. unfold st.
    eapply sim_lift; [intros o Hk; xstep_go; exact Hk|].
    eapply sim_post.
    - eapply sim_out_weaken; [|eapply (IHf (pc + sz_expr c + 1) (pc + sz_expr c + 1 + sz_expr f) en sg); eauto; lia].
      intros x Hx. eapply Qr_Qx; eauto; lia.
    - intros v w2 _. unfold st. cbn [sim_out]. xstep_jump. apply mruno_done'. f_equal. lia.
  Qed.

  (** [match]: no arm other than the selected one is visited *)
  Theorem match_arm_untaken e arms : P_expr e -> P_earms arms -> forall en sg pc w v w1 k j,
    at_pc m pc (d_expr pc (EMatch e arms)) -> eval_expr en w e = OVal v w1 ->
    first_match (earms_patterns arms) v = Some (Some k) ->
    j <> k -> (j < List.length (earms_patterns arms))%nat ->
    let base_pc := pc + sz_expr e + len (d_patterns p (earms_patterns arms) []) in
    let xlo := nth j (earm_addrs p is_debug arms base_pc) 0 in
    sim_out (Qx pc (pc + sz_expr (EMatch e arms)) xlo (xlo + nth j (earm_sizes arms) 0)) (st en sg pc w)
            (eval_earms en w1 v arms) (fun r w' => st en (r :: sg) (pc + sz_expr (EMatch e arms)) w').
  Proof.
    intros IHe IHarms en sg pc w v w1 k j Hat He Hf Hjk Hj base_pc xlo. subst xlo. start_case Hat.
    set (pats := earms_patterns arms) in *. fold base_pc in Hat.
    pose proof (first_match_lt _ _ _ Hf) as Hk.
    destruct (earm_bounds arms base_pc k Hk) as [Hk1 Hk2]. destruct (earm_bounds arms base_pc j Hj) as [Hj1 Hj2].
    pose proof (earm_disjoint arms base_pc j k Hjk Hj Hk) as Hd.
    eapply sim_out_trans; [eapply (operand_run e IHe); eauto; subst base_pc; lia|].
    pose proof (patterns_sim pats (pc + sz_expr e) base_pc en sg (pc + sz_expr e) w1 v (earm_addrs p is_debug arms base_pc)
                             Hat1 ltac:(lia)) as Hp.
    rewrite len_d_patterns in Hp. specialize (Hp ltac:(subst base_pc; lia)). rewrite Hf in Hp.
    eapply sim_out_trans; [eapply mruno_weaken; [|exact Hp]; intros x Hx; eapply Qr_Qx; eauto; subst base_pc; lia|].
    eapply sim_out_weaken; [|eapply sim_out_fin; [|eapply (IHarms (nth k (earm_addrs p is_debug arms base_pc) 0)
        (nth k (earm_addrs p is_debug arms base_pc) 0 + nth k (earm_sizes arms) 0) en sg base_pc (base_pc + sz_earms arms) v w1 k); eauto; try lia]].
    - intros x Hx. eapply Qr_Qx; eauto; subst base_pc; lia.
    - intros r w'. unfold st. f_equal. subst base_pc. lia.
    - rewrite len_d_patterns in Hat. exact Hat.
  Qed.

  Theorem match_stmt_arm_untaken e arms : P_expr e -> P_sarms arms -> forall en sg pc w v w1 k j,
    at_pc m pc (d_stmt pc (SMatch e arms)) -> eval_expr en w e = OVal v w1 ->
    first_match (sarms_patterns arms) v = Some (Some k) ->
    j <> k -> (j < List.length (sarms_patterns arms))%nat ->
    let base_pc := pc + sz_expr e + len (d_patterns p (sarms_patterns arms) []) in
    let xlo := nth j (sarm_addrs p is_debug arms base_pc) 0 in
    sim_out (Qx pc (pc + sz_stmt (SMatch e arms)) xlo (xlo + nth j (sarm_sizes arms) 0)) (st en sg pc w)
            (eval_sarms en w1 v arms) (fun en' w' => st en' sg (pc + sz_stmt (SMatch e arms)) w').
  Proof.
    intros IHe IHarms en sg pc w v w1 k j Hat He Hf Hjk Hj base_pc xlo. subst xlo. start_case Hat.
    set (pats := sarms_patterns arms) in *. fold base_pc in Hat.
    pose proof (first_match_lt _ _ _ Hf) as Hk.
    destruct (sarm_bounds arms base_pc k Hk) as [Hk1 Hk2]. destruct (sarm_bounds arms base_pc j Hj) as [Hj1 Hj2].
    pose proof (sarm_disjoint arms base_pc j k Hjk Hj Hk) as Hd.
    eapply sim_out_trans; [eapply (operand_run e IHe); eauto; subst base_pc; lia|].
    pose proof (patterns_sim pats (pc + sz_expr e) base_pc en sg (pc + sz_expr e) w1 v (sarm_addrs p is_debug arms base_pc)
                             Hat1 ltac:(lia)) as Hp.
    rewrite len_d_patterns in Hp. specialize (Hp ltac:(subst base_pc; lia)). rewrite Hf in Hp.
    eapply sim_out_trans; [eapply mruno_weaken; [|exact Hp]; intros x Hx; eapply Qr_Qx; eauto; subst base_pc; lia|].
    eapply sim_out_weaken; [|eapply sim_out_fin; [|eapply (IHarms (nth k (sarm_addrs p is_debug arms base_pc) 0)
        (nth k (sarm_addrs p is_debug arms base_pc) 0 + nth k (sarm_sizes arms) 0) en sg base_pc (base_pc + sz_sarms arms) v w1 k); eauto; try lia]].
    - intros x Hx. eapply Qr_Qx; eauto; subst base_pc; lia.
    - intros r w'. unfold st. f_equal. subst base_pc. lia.
    - rewrite len_d_patterns in Hat. exact Hat.
  Qed.

  (** [if c { ss } else ...] as a statement: when [c] holds nothing after the block is visited;
      when it does not, the block is not *)
  Theorem if_stmt_true_untaken c ss bs : P_expr c -> P_stmts ss -> forall en sg pc endl w w1,
    at_pc m pc (d_branches pc endl (BCons c ss bs)) -> eval_expr en w c = OVal (V_Bool true) w1 ->
    let next := pc + sz_expr c + 2 + 1 + sz_stmts ss + 1 + 1 in
    sim_out (Qx pc (pc + sz_branches (BCons c ss bs)) next (next + sz_branches bs)) (st en sg pc w)
            (eval_stmts (env_push en) w1 ss) (fun _ w' => st en sg endl w').
  Proof.
    intros IHc IHss en sg pc endl w w1 Hat He next. subst next. start_case Hat.
    eapply sim_out_trans; [eapply (operand_run c IHc); eauto; lia|]. unfold st.
    eapply sim_lift; [intros o Hk; xstep_go; xstep_go; xstep_go; exact Hk|].
    eapply sim_post.
    - eapply sim_out_weaken; [|eapply (P_stmts_at _ IHss (pc + sz_expr c + 2 + 1) (pc + sz_expr c + 2 + 1 + sz_stmts ss) (env_push en) sg);
                                 [eassumption|lia|reflexivity|lia|lia|fin_eq]].
      intros x Hx. eapply Qr_Qx; eauto; lia.
    - intros en1 w2 E2.
      assert (Hen : exists b, en1 = b :: en).
      { destruct (eval_stmts_tail _ _ _ _ _ E2) as [b Hb]; [discriminate|]. cbn [tl env_push] in Hb. eauto. }
      destruct Hen as [b ->]. unfold st. cbn [sim_out].
      xstep_go. xstep_jump. apply mruno_done'. reflexivity.
  Qed.
  Theorem if_stmt_false_untaken c ss bs : P_expr c -> P_branches bs -> forall en sg pc endl w w1,
    at_pc m pc (d_branches pc endl (BCons c ss bs)) -> eval_expr en w c = OVal (V_Bool false) w1 ->
    let pb := pc + sz_expr c + 2 in
    sim_out (Qx pc (pc + sz_branches (BCons c ss bs)) pb (pb + 1 + sz_stmts ss + 1 + 1)) (st en sg pc w)
            (eval_branches en w1 bs)
            (fun r w' => match r with
                         | Some _ => st en sg endl w'
                         | None => st en sg (pc + sz_branches (BCons c ss bs)) w'
                         end).
  Proof.
    intros IHc IHbs en sg pc endl w w1 Hat He pb. subst pb. start_case Hat.
    eapply sim_out_trans; [eapply (operand_run c IHc); eauto; lia|]. unfold st.
    eapply sim_lift; [intros o Hk; xstep_go; xstep_jump; exact Hk|].
    eapply sim_out_weaken; [|eapply sim_out_fin; [|eapply (IHbs (pc + sz_expr c + 2 + 1 + sz_stmts ss + 1 + 1)
       (pc + (sz_expr c + 2 + 1 + sz_stmts ss + 1 + 1 + sz_branches bs)) en sg); eauto; lia]].
    - intros x Hx. eapply Qr_Qx; eauto; lia.
    - intros [e'|] w'; unfold st; f_equal; lia.
  Qed.

  (** ** All of the fragment *)
  Theorem sim_all :
    (forall e, fr_expr e = true -> P_expr e)
    /\ (forall es, fr_exprs es = true -> P_exprs es)
    /\ (forall fs, fr_fields fs = true -> P_fields fs)
    /\ (forall s, fr_stmt s = true -> P_stmt s)
    /\ (forall ss, fr_stmts ss = true -> P_stmts ss)
    /\ (forall o, fr_ostmts o = true -> P_ostmts o)
    /\ (forall o : ovals, True)
    /\ (forall a, fr_earms a = true -> P_earms a)
    /\ (forall a, fr_sarms a = true -> P_sarms a)
    /\ (forall b, fr_branches b = true -> P_branches b).
  Proof.
    apply syntax_mutind; intros; auto;
      match goal with H : _ = true |- _ => cbn in H; try discriminate end;
      repeat match goal with H : _ && _ = true |- _ => apply andb_prop in H; destruct H end.
    all: first
      [ apply case_EUnit | apply case_EInt | apply case_EStr | apply case_EBool | apply case_EEnum | apply case_ENone
      | apply case_EWrap; auto | apply case_EVar | apply case_EStruct; auto | apply case_EDot; auto
      | apply case_EAnd; auto | apply case_EOr; auto | apply case_ENot; auto | apply case_EBin; auto
      | apply case_EIs; auto | apply case_ECoalesce; auto | apply case_EIf; auto | apply case_EBlock; auto
      | apply case_EMatch; auto | apply case_ECall; auto | apply case_EReturn; auto | apply case_ERecall; auto
      | apply case_ETodo | apply case_ENil | apply case_ECons; auto | apply case_FNil | apply case_FCons; auto
      | apply case_SLet; auto | apply case_SCheck; auto | apply case_SIf; auto | apply case_SMatch; auto
      | apply case_SReturn; auto | apply case_SFinish; auto | apply case_SCall; auto | apply case_SRecall; auto
      | apply case_SDebugAssert; auto | apply case_SNil | apply case_SCons; auto
      | apply case_EANil | apply case_EACons; auto | apply case_SANil | apply case_SACons; auto
      | apply case_BNil | apply case_BCons; auto | exact I | idtac ].
    cbn [P_ostmts]. auto.
  Qed.
End Sim.
