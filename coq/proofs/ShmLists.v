(** List-level facts about the channel list operations of [model/Shm.v]:
    [matches], [find], [swap_remove], [list_remove_if]. *)
From Coq Require Import String.
From Aranya Require Import gen.GenShm base.Tactics base.Sched model.Shm.
From Coq Require Import Permutation.

(** ** Pinned generated constants *)
Lemma matches_spec d o :
  matches d o = match d, o with
                | DSeal, OSeal | DSeal, OAny | DOpen, OOpen | DOpen, OAny => true
                | _, _ => false
                end.
Proof. destruct d, o; vm_compute; reflexivity. Qed.

Lemma gen_modulus_is_u32 : gen_modulus = (2 ^ 32)%N.
Proof. vm_compute. reflexivity. Qed.
Lemma gen_modulus_pos : (0 < gen_modulus)%N.
Proof. vm_compute. reflexivity. Qed.

Lemma init_values :
  next_chan_id_init = 0%N /\ generation_init = 0%N /\ list_init_len_zero_cap_max = true
  /\ off_of_name read_off_init = OA /\ off_of_name write_off_init = OB
  /\ matches_is_bit_and_nonzero = true.
Proof. vm_compute. repeat split; reflexivity. Qed.

Definition ids (l : list chan) : list N := map cid l.

Lemma chan_ok_any id c : chan_ok id OAny c = (cid c =? id)%N.
Proof. unfold chan_ok. rewrite matches_spec. destruct (cdir c); rewrite andb_true_r; reflexivity. Qed.

Lemma chan_ok_dir id d c : chan_ok id (op_of_dir d) c = true -> cid c = id /\ cdir c = d.
Proof.
  unfold chan_ok. rewrite matches_spec. intros H. apply andb_prop in H as [H1 H2].
  apply N.eqb_eq in H1. split; auto. destruct (cdir c), d; cbn in *; congruence.
Qed.

Lemma chan_ok_id id o c : chan_ok id o c = true -> cid c = id.
Proof. unfold chan_ok. intros H. apply andb_prop in H as [H1 _]. apply N.eqb_eq in H1; auto. Qed.

(** ** find *)
Lemma find_lin_some l id o : forall i c j,
  find_lin l id o i = Some (c, j) -> In c l /\ chan_ok id o c = true.
Proof.
  induction l as [|x l IH]; intros i c j H; cbn in *; try discriminate.
  destruct (chan_ok id o x) eqn:E.
  - inv H. auto.
  - apply IH in H as [H1 H2]. auto.
Qed.

Lemma find_lin_idx l id o : forall i c j,
  find_lin l id o i = Some (c, j) -> i <= j /\ nth_error l (j - i) = Some c.
Proof.
  induction l as [|x l IH]; intros i c j H; cbn in *; try discriminate.
  destruct (chan_ok id o x) eqn:E.
  - inv H. rewrite Nat.sub_diag. auto.
  - apply IH in H as [H1 H2]. split; [lia|].
    replace (j - i) with (S (j - S i)) by lia. exact H2.
Qed.

Lemma find_lin_none l id o : forall i,
  find_lin l id o i = None <-> (forall c, In c l -> chan_ok id o c = false).
Proof.
  induction l as [|x l IH]; intros i; cbn.
  - split; auto. intros _ c [].
  - destruct (chan_ok id o x) eqn:E.
    + split; [discriminate|]. intros H. specialize (H x (or_introl eq_refl)). congruence.
    + rewrite IH. split.
      * intros H c [->|Hc]; auto.
      * intros H c Hc. apply H. auto.
Qed.

Lemma find_some l id h o c j : find l id h o = Some (c, j) -> In c l /\ chan_ok id o c = true.
Proof.
  unfold find. destruct h as [h|]; [|apply find_lin_some].
  destruct (nth_error l h) as [x|] eqn:E; [|apply find_lin_some].
  destruct (chan_ok id o x) eqn:E2; [|apply find_lin_some].
  intros H; inv H. split; auto. eapply nth_error_In; eauto.
Qed.

Lemma find_none l id h o : find l id h o = None <-> (forall c, In c l -> chan_ok id o c = false).
Proof.
  unfold find. destruct h as [h|]; [|apply find_lin_none].
  destruct (nth_error l h) as [x|] eqn:E; [|apply find_lin_none].
  destruct (chan_ok id o x) eqn:E2; [|apply find_lin_none].
  split; [discriminate|]. intros H. apply nth_error_In in E. apply H in E. congruence.
Qed.

(** with distinct ids, [find] returns the one channel with that id *)
Lemma nodup_ids_unique l c c' : NoDup (ids l) -> In c l -> In c' l -> cid c = cid c' -> c = c'.
Proof.
  induction l as [|x l IH]; intros Hnd Hc Hc' He; [destruct Hc|].
  cbn in Hnd. inv Hnd. destruct Hc as [->|Hc], Hc' as [->|Hc']; auto.
  - exfalso. apply H1. rewrite He. apply in_map; auto.
  - exfalso. apply H1. rewrite <- He. apply in_map; auto.
Qed.

Lemma find_present l id h o c :
  In c l -> chan_ok id o c = true -> exists c' j, find l id h o = Some (c', j).
Proof.
  intros Hc Hok. destruct (find l id h o) as [[c' j]|] eqn:E; eauto.
  rewrite find_none in E. apply E in Hc. congruence.
Qed.

(** ** swap_remove *)
Lemma unsnoc_spec l b x : unsnoc l = Some (b, x) -> l = b ++ [x].
Proof.
  revert b x; induction l as [|y l IH]; intros b x H; cbn in *; try discriminate.
  destruct (unsnoc l) as [[b' x']|] eqn:E.
  - inv H. rewrite (IH _ _ eq_refl). reflexivity.
  - inv H. destruct l; cbn in *; auto. destruct (unsnoc l) as [[? ?]|]; discriminate.
Qed.

Lemma unsnoc_none l : unsnoc l = None -> l = [].
Proof. destruct l; cbn; auto. destruct (unsnoc l) as [[? ?]|]; discriminate. Qed.

Lemma unsnoc_app b x : unsnoc (b ++ [x]) = Some (b, x).
Proof.
  induction b as [|y b IH]; cbn; auto. rewrite IH. reflexivity.
Qed.

Lemma set_nth_perm body : forall idx x y,
  nth_error body idx = Some x -> Permutation (y :: body) (x :: set_nth body idx y).
Proof.
  induction body as [|z body IH]; intros [|idx] x y H; cbn in *; try discriminate.
  - inv H. apply perm_swap.
  - specialize (IH _ _ y H).
    eapply perm_trans; [apply perm_swap|].
    eapply perm_trans; [apply perm_skip; exact IH|]. apply perm_swap.
Qed.

Lemma set_nth_firstn body : forall idx y, firstn idx (set_nth body idx y) = firstn idx body.
Proof.
  induction body as [|z body IH]; intros [|idx] y; cbn; auto. rewrite IH; auto.
Qed.

Lemma set_nth_length body : forall idx y, length (set_nth body idx y) = length body.
Proof. induction body as [|z body IH]; intros [|idx] y; cbn; auto. Qed.

Lemma swap_remove_some l idx l' :
  swap_remove l idx = Some l' ->
  exists x, nth_error l idx = Some x /\ Permutation l (x :: l') /\ firstn idx l' = firstn idx l.
Proof.
  unfold swap_remove. destruct (unsnoc l) as [[body y]|] eqn:E; [|discriminate].
  apply unsnoc_spec in E. subst l.
  destruct (idx <? length body) eqn:E1.
  - intros H; inv H. apply Nat.ltb_lt in E1.
    destruct (nth_error body idx) as [x|] eqn:Ex; [|apply nth_error_None in Ex; lia].
    exists x. split; [|split].
    + rewrite nth_error_app1; auto.
    + eapply perm_trans; [apply Permutation_sym, Permutation_cons_append|].
      apply set_nth_perm; auto.
    + rewrite set_nth_firstn. rewrite firstn_app.
      replace (idx - length body) with 0 by lia. cbn. rewrite app_nil_r. reflexivity.
  - destruct (idx =? length body) eqn:E2; [|discriminate].
    intros H; inv H. apply Nat.eqb_eq in E2. subst idx.
    exists y. split; [|split].
    + rewrite nth_error_app2 by lia. rewrite Nat.sub_diag. reflexivity.
    + apply Permutation_sym, Permutation_cons_append.
    + rewrite firstn_app, Nat.sub_diag, firstn_all. cbn. rewrite app_nil_r. reflexivity.
Qed.

Lemma swap_remove_total l idx : idx < length l -> exists l', swap_remove l idx = Some l'.
Proof.
  intros H. unfold swap_remove. destruct (unsnoc l) as [[body y]|] eqn:E.
  - apply unsnoc_spec in E. subst l. rewrite app_length in H. cbn in H.
    destruct (idx <? length body) eqn:E1; eauto.
    apply Nat.ltb_ge in E1. replace (idx =? length body) with true; eauto.
    symmetry. apply Nat.eqb_eq. lia.
  - apply unsnoc_none in E. subst. cbn in H. lia.
Qed.

Lemma swap_remove_length l idx l' : swap_remove l idx = Some l' -> length l = S (length l').
Proof.
  intros H. apply swap_remove_some in H as (x & _ & Hp & _).
  apply Permutation_length in Hp. exact Hp.
Qed.

(** ** list_remove_if *)
Definition keeps (p : pred) (c : chan) : bool := negb (papply p c).

Lemma firstn_S_nth {A} (l : list A) : forall idx x,
  nth_error l idx = Some x -> firstn (S idx) l = firstn idx l ++ [x].
Proof.
  induction l as [|y l IH]; intros [|idx] x H; cbn in *; try discriminate.
  - inv H. reflexivity.
  - rewrite (IH _ _ H). reflexivity.
Qed.

Lemma filter_all_true {A} (f : A -> bool) l : Forall (fun c => f c = true) l -> filter f l = l.
Proof. induction 1; cbn; auto. rewrite H, IHForall. reflexivity. Qed.

Lemma Permutation_filter {A} (f : A -> bool) l l' : Permutation l l' -> Permutation (filter f l) (filter f l').
Proof.
  induction 1; cbn; auto.
  - destruct (f x); auto.
  - destruct (f x), (f y); auto. apply perm_swap.
  - eapply perm_trans; eauto.
Qed.

Lemma remove_if_loop_spec p : forall fuel l idx upd,
  length l - idx < fuel ->
  Forall (fun c => keeps p c = true) (firstn idx l) ->
  exists l' u, remove_if_loop fuel p l idx upd = Some (l', u)
    /\ Permutation l' (filter (keeps p) l)
    /\ (u = false -> upd = false /\ l' = l)
    /\ (upd = true -> u = true).
Proof.
  induction fuel as [|fuel IH]; intros l idx upd Hf Hpre; [lia|].
  cbn [remove_if_loop].
  destruct (nth_error l idx) as [c|] eqn:En.
  - destruct (papply p c) eqn:Ep.
    + assert (Hlt : idx < length l) by (apply nth_error_Some; congruence).
      destruct (swap_remove_total l idx Hlt) as [l2 H2]. rewrite H2.
      pose proof (swap_remove_some _ _ _ H2) as (x & Hx & Hperm & Hfirst).
      rewrite En in Hx. inv Hx.
      pose proof (swap_remove_length _ _ _ H2) as Hlen.
      destruct (IH l2 idx true) as (l' & u & Hr & Hp' & Hu & Hu2).
      { lia. } { rewrite Hfirst. exact Hpre. }
      exists l', u. rewrite Hr. split; [reflexivity|]. split; [|split].
      * eapply perm_trans; [exact Hp'|].
        apply (Permutation_filter (keeps p)) in Hperm. cbn in Hperm.
        unfold keeps at 2 in Hperm. rewrite Ep in Hperm. cbn in Hperm.
        apply Permutation_sym. exact Hperm.
      * intros ->. specialize (Hu2 eq_refl). discriminate.
      * intros _. apply Hu2. reflexivity.
    + destruct (IH l (S idx) upd) as (l' & u & Hr & Hp' & Hu & Hu2).
      { assert (idx < length l) by (apply nth_error_Some; congruence). lia. }
      { rewrite (firstn_S_nth _ _ _ En). apply Forall_app. split; auto.
        constructor; auto. unfold keeps. rewrite Ep. reflexivity. }
      exists l', u. rewrite Hr. auto.
  - exists l, upd. split; [reflexivity|]. split; [|split]; auto.
    apply nth_error_None in En. rewrite firstn_all2 in Hpre by lia.
    rewrite filter_all_true; auto.
Qed.

Lemma list_remove_if_spec p l :
  exists l' u, list_remove_if p l = Some (l', u)
    /\ Permutation l' (filter (keeps p) l)
    /\ (u = false -> l' = l).
Proof.
  unfold list_remove_if.
  destruct (remove_if_loop_spec p (S (length l)) l 0 false) as (l' & u & H1 & H2 & H3 & _).
  { lia. } { cbn. constructor. }
  exists l', u. split; auto. split; auto. intros Hu. apply H3 in Hu. tauto.
Qed.

(** ** Consequences for ids *)
Lemma perm_ids l l' : Permutation l l' -> Permutation (ids l) (ids l').
Proof. apply Permutation_map. Qed.

Lemma nodup_perm_cons x l l' : Permutation l (x :: l') -> NoDup (ids l) -> NoDup (ids l') /\ ~ In (cid x) (ids l').
Proof.
  intros Hp Hnd. apply perm_ids in Hp. cbn in Hp.
  eapply Permutation_NoDup in Hnd; [|exact Hp]. inv Hnd. auto.
Qed.

Lemma filter_ids_nodup (f : chan -> bool) l : NoDup (ids l) -> NoDup (ids (filter f l)).
Proof.
  induction l as [|x l IH]; cbn; intros H; [constructor|]. inv H.
  destruct (f x); cbn; auto. constructor; auto.
  intros Hin. apply H2. unfold ids in *. rewrite in_map_iff in *.
  destruct Hin as (c & Hc & Hin). apply filter_In in Hin as [Hin _]. eauto.
Qed.

Lemma NoDup_app_snoc {A} (l : list A) x : NoDup l /\ ~ In x l -> NoDup (l ++ [x]).
Proof.
  intros [Hnd Hx]. induction l as [|y l IH]; cbn; [constructor; auto; constructor|].
  inv Hnd. constructor.
  - intros Hin. apply in_app_or in Hin as [Hin|[<-|[]]]; auto. apply Hx. left; reflexivity.
  - apply IH; auto. intros Hin. apply Hx. right; auto.
Qed.
