(** The in-process AFC state ([model/MemAfc.v]): loans are exclusive, removal
    revokes them for good, and the sequence numbers of a channel never repeat. *)
From Coq Require Import String.
From Aranya Require Import gen.GenShm base.Tactics base.Sched model.Shm model.MemAfc proofs.ShmLists proofs.ShmSteps.

(** pinned skeletons of memory.rs / lender.rs *)
Local Open Scope string_scope.
Lemma skeleton_memory :
  sk_mem_afc_setup_seal_ctx = ["mutex_lock"; "map_get_mut_or_notfound"; "dir_ne_seal_notfound"; "lend_or_notfound"]
  /\ sk_mem_afc_setup_open_ctx = ["mutex_lock"; "map_get_mut_or_notfound"; "dir_ne_open_notfound"; "lend_or_notfound"]
  /\ sk_mem_afc_seal = ["loan_get_mut_or_notfound"; "call_f_on_key"]
  /\ sk_mem_afc_open = ["loan_get_mut_or_notfound"; "call_f_on_key"]
  /\ sk_mem_afc_exists = ["mutex_lock"; "map_contains"]
  /\ sk_mem_aranya_add = ["mutex_lock"; "next_id_take"; "next_id_checked_inc"; "map_insert_new_lender"]
  /\ sk_mem_aranya_remove = ["mutex_lock"; "map_remove"]
  /\ sk_mem_aranya_remove_all = ["mutex_lock"; "map_clear"]
  /\ sk_mem_aranya_remove_if = ["mutex_lock"; "map_retain_not_f"]
  /\ sk_mem_aranya_exists = ["mutex_lock"; "map_contains"].
Proof. repeat split; reflexivity. Qed.
Lemma skeleton_lender :
  sk_biarc_try_clone = ["state_swap_shared"; "unshared_some"; "shared_none"]
  /\ sk_biarc_get_if_shared = ["state_load"; "unshared_none"; "shared_some"]
  /\ sk_biarc_drop = ["state_swap_unshared"; "free_if_was_unshared"]
  /\ sk_lender_lend = ["try_clone"] /\ sk_lender_get_mut = ["get_if_shared"].
Proof. repeat split; reflexivity. Qed.
Local Close Scope string_scope.

(** ** live loans *)
Definition is_live (id : N) (l : loan) : bool := (lid l =? id)%N && negb (ldropped l).
Definition cnt (id : N) (ls : list loan) : nat := length (filter (is_live id) ls).
Fixpoint count_live (id : N) (cs : list cthread) : nat :=
  match cs with
  | [] => 0
  | t :: r => cnt id (cloans t) + count_live id r
  end.

Lemma count_upd id cs : forall i t t',
  nth_error cs i = Some t ->
  count_live id (upd_nth cs i (fun _ => t')) + cnt id (cloans t) = count_live id cs + cnt id (cloans t').
Proof.
  induction cs as [|x cs IH]; intros [|i] t t' H; cbn in *; try discriminate.
  - inv H. lia.
  - specialize (IH _ _ t' H). lia.
Qed.

Lemma cnt_app id a b : cnt id (a ++ b) = cnt id a + cnt id b.
Proof. unfold cnt. rewrite filter_app, app_length. reflexivity. Qed.

Lemma cnt_set_loan id ls : forall c x y,
  nth_error ls c = Some x ->
  cnt id (set_loan ls c y) + (if is_live id x then 1 else 0) = cnt id ls + (if is_live id y then 1 else 0).
Proof.
  unfold cnt. induction ls as [|z ls IH]; intros [|c] x y H; cbn in *; try discriminate.
  - inv H. destruct (is_live id x), (is_live id y); cbn; lia.
  - specialize (IH _ _ y H). destruct (is_live id z); cbn; lia.
Qed.

Definition all_loans (cs : list cthread) : list loan := concat (map cloans cs).

(** ** the invariant *)
Definition cell_ok (cs : list cthread) (c : cell) : Prop :=
  count_live (mid c) cs <= 1
  /\ (shared c = true -> lender c = true /\ count_live (mid c) cs = 1)
  /\ (lender c = true -> shared c = false -> count_live (mid c) cs = 0).

(** newest first: sequence numbers of the successful seals on channel [id] *)
Fixpoint chan_seqs (id : N) (tr : list (N * N)) : list N :=
  match tr with
  | [] => []
  | (i, s) :: r => if (i =? id)%N then s :: chan_seqs id r else chan_seqs id r
  end.
Fixpoint contig_from (b : N) (l : list N) : Prop :=
  match l with
  | [] => True
  | s :: rest => s = (b + N.of_nat (length rest))%N /\ contig_from b rest
  end.
Definition seq_ok (smax : N) (tr : list (N * N)) (c : cell) : Prop :=
  contig_from (mseq0 c) (chan_seqs (mid c) tr)
  /\ mseq c = (mseq0 c + N.of_nat (length (chan_seqs (mid c) tr)))%N
  /\ Forall (fun s => (s < smax)%N) (chan_seqs (mid c) tr).

Record minv (g : MG) : Prop := {
  mi_nodup : NoDup (map mid (cells g));
  mi_lt : forall c, In c (cells g) -> (mid c < mnext g)%N;
  mi_cells : Forall (cell_ok (mcs g)) (cells g);
  mi_loans : forall t l, In t (mcs g) -> In l (cloans t) ->
             exists c, In c (cells g) /\ mid c = lid l /\ mdir c = ldir l;
  mi_seq : Forall (seq_ok (msmax g) (mtrace g)) (cells g);
  mi_trace : forall i s, In (i, s) (mtrace g) -> exists c, In c (cells g) /\ mid c = i }.

Lemma find_cell_some cs f c : find_cell cs f = Some c -> In c cs /\ f c = true.
Proof.
  induction cs as [|x cs IH]; cbn; [discriminate|]. destruct (f x) eqn:E.
  - intros H; inv H. auto.
  - intros H. apply IH in H. tauto.
Qed.
Lemma find_cell_none cs f : find_cell cs f = None -> forall c, In c cs -> f c = false.
Proof.
  induction cs as [|x cs IH]; cbn; [intros _ c []|]. destruct (f x) eqn:E; [discriminate|].
  intros H c [->|Hc]; auto.
Qed.

Lemma nodup_mid_unique cs c c' : NoDup (map mid cs) -> In c cs -> In c' cs -> mid c = mid c' -> c = c'.
Proof.
  induction cs as [|x cs IH]; intros Hnd Hc Hc' He; [destruct Hc|].
  cbn in Hnd. inv Hnd. destruct Hc as [->|Hc], Hc' as [->|Hc']; auto.
  - exfalso. apply H1. rewrite He. apply in_map; auto.
  - exfalso. apply H1. rewrite <- He. apply in_map; auto.
Qed.

Lemma upd_cell_mids cs id f : (forall c, mid (f c) = mid c) -> map mid (upd_cell cs id f) = map mid cs.
Proof.
  intros Hf. unfold upd_cell. rewrite map_map. apply map_ext. intros c. destruct (mid c =? id)%N; auto.
Qed.
Lemma drop_lenders_mids sel cs : map mid (drop_lenders sel cs) = map mid cs.
Proof.
  unfold drop_lenders. rewrite map_map. apply map_ext. intros c. destruct (lender c && sel c); auto.
Qed.

Lemma count_live_no_loans id cs :
  (forall t l, In t cs -> In l (cloans t) -> lid l <> id) -> count_live id cs = 0.
Proof.
  induction cs as [|t cs IH]; cbn; auto. intros H.
  rewrite IH by (intros; eapply H; eauto; right; auto).
  assert (E : cnt id (cloans t) = 0); [|lia].
  unfold cnt. assert (Hf : forall ls, (forall l, In l ls -> lid l <> id) -> filter (is_live id) ls = []).
  { induction ls as [|l ls IHl]; cbn; auto. intros Hl. unfold is_live at 1.
    replace (lid l =? id)%N with false by (symmetry; apply N.eqb_neq; apply Hl; left; auto). cbn.
    apply IHl. intros; apply Hl; right; auto. }
  rewrite Hf; [reflexivity|]. intros l Hl. eapply H; [left; reflexivity|exact Hl].
Qed.

Lemma minv_init smax wp cps : minv (minit smax wp cps).
Proof.
  constructor; cbn; auto; try constructor; try tauto.
  intros t l Ht. apply in_map_iff in Ht as (p & <- & _). cbn. tauto.
Qed.

(** writer steps *)
Lemma cell_ok_dropped cs c : cell_ok cs c -> cell_ok cs (cell_with c (mseq c) false false).
Proof. intros (H1 & _ & _). split; cbn; auto. split; discriminate. Qed.

Lemma minv_mwstep g : minv g -> minv (mwstep g).
Proof.
  intros [Hnd Hlt Hcells Hloans Hseq Htr]. unfold mwstep.
  destruct (mprog (mw g)) as [|op rest]; [constructor; auto|].
  assert (Hdrop : forall sel,
    minv {| cells := drop_lenders sel (cells g); mnext := mnext g;
            mw := {| mprog := rest; mlog := (op, WOkUnit) :: mlog (mw g) |};
            mcs := mcs g; msmax := msmax g; mtrace := mtrace g |}).
  { intros sel. constructor; cbn.
    - rewrite drop_lenders_mids. auto.
    - intros c Hc. unfold drop_lenders in Hc. apply in_map_iff in Hc as (c0 & <- & Hc0).
      destruct (lender c0 && sel c0); cbn; auto.
    - unfold drop_lenders. rewrite Forall_map. eapply Forall_impl; [|exact Hcells].
      intros c Hc. destruct (lender c && sel c); auto. apply cell_ok_dropped; auto.
    - intros t l Ht Hl. destruct (Hloans t l Ht Hl) as (c & Hc & E1 & E2).
      exists (if lender c && sel c then cell_with c (mseq c) false false else c).
      split; [unfold drop_lenders; apply in_map_iff; exists c; auto|].
      destruct (lender c && sel c); auto.
    - unfold drop_lenders. rewrite Forall_map. eapply Forall_impl; [|exact Hseq].
      intros c Hc. destruct (lender c && sel c); auto.
    - intros i s Hin. destruct (Htr i s Hin) as (c & Hc & E).
      exists (if lender c && sel c then cell_with c (mseq c) false false else c).
      split; [unfold drop_lenders; apply in_map_iff; exists c; auto|].
      destruct (lender c && sel c); auto. }
  destruct op as [d k lb p sq|id|p| |id]; auto.
  - (* add: a fresh id no loan and no trace entry refers to *)
    assert (Hfresh : count_live (mnext g) (mcs g) = 0).
    { apply count_live_no_loans. intros t l Ht Hl E. destruct (Hloans t l Ht Hl) as (c & Hc & E1 & _).
      apply Hlt in Hc. lia. }
    constructor; cbn.
    + rewrite map_app. cbn. apply NoDup_app_snoc. split; auto.
      intros Hin. apply in_map_iff in Hin as (c & E & Hc). apply Hlt in Hc. lia.
    + intros c Hc. apply in_app_or in Hc as [Hc|[<-|[]]]; [apply Hlt in Hc; lia|cbn; lia].
    + apply Forall_app. split; auto. constructor; auto.
      split; cbn; [lia|]. split; [discriminate|auto].
    + intros t l0 Ht Hl. destruct (Hloans t l0 Ht Hl) as (c & Hc & E). exists c. split; auto. apply in_or_app; auto.
    + apply Forall_app. split; auto. constructor; auto.
      assert (Hnone : chan_seqs (mnext g) (mtrace g) = []).
      { clear - Htr Hlt. revert Htr. generalize (mtrace g) as tr.
        induction tr as [|[i s] tr IH]; cbn; auto. intros Htr.
        destruct (i =? mnext g)%N eqn:E.
        - apply N.eqb_eq in E. destruct (Htr i s (or_introl eq_refl)) as (c & Hc & Em). apply Hlt in Hc. lia.
        - apply IH. intros i' s' H. apply (Htr i' s'). right; auto. }
      split; cbn; rewrite Hnone; cbn; auto. split; [lia|constructor].
    + intros i s Hin. destruct (Htr i s Hin) as (c & Hc & E). exists c. split; auto. apply in_or_app; auto.
  - (* exists *)
    constructor; cbn; auto.
Qed.

(** client steps *)
Lemma count_live_same id cs i t t' :
  nth_error cs i = Some t -> cloans t' = cloans t ->
  count_live id (upd_nth cs i (fun _ => t')) = count_live id cs.
Proof. intros H E. pose proof (count_upd id cs i t t' H). rewrite E in *. lia. Qed.

Lemma in_upd_nth {A} (l : list A) i x y : In y (upd_nth l i (fun _ => x)) -> y = x \/ In y l.
Proof.
  revert i. induction l as [|z l IH]; intros [|i]; cbn; auto.
  - intros [<-|H]; auto.
  - intros [<-|H]; auto. apply IH in H. tauto.
Qed.

Lemma cell_ok_same_count cs cs' c c' :
  (forall id, count_live id cs' = count_live id cs) ->
  mid c' = mid c -> lender c' = lender c -> shared c' = shared c -> cell_ok cs c -> cell_ok cs' c'.
Proof. intros Hc E1 E2 E3 H. unfold cell_ok in *. rewrite E1, E2, E3, Hc. exact H. Qed.

Lemma chan_seqs_other id tr i s : i <> id -> chan_seqs id ((i, s) :: tr) = chan_seqs id tr.
Proof. intros H. cbn. replace (i =? id)%N with false by (symmetry; apply N.eqb_neq; auto). reflexivity. Qed.

Lemma minv_mcstep i g : minv g -> minv (mcstep i g).
Proof.
  intros Hm. pose proof Hm as [Hnd Hlt Hcells Hloans Hseq Htr]. unfold mcstep.
  destruct (nth_error (mcs g) i) as [t|] eqn:En; auto.
  assert (Hint : In t (mcs g)) by (eapply nth_error_In; eauto).
  unfold cstep1. destruct (cprog t) as [|op rest] eqn:Ep.
  { cbn. replace (upd_nth (mcs g) i (fun _ => t)) with (mcs g); [destruct g; exact Hm|].
    clear - En. revert i En. induction (mcs g) as [|x l IH]; intros [|i] En; cbn in *; try discriminate; auto.
    - inv En. reflexivity.
    - rewrite <- IH; auto. }
  (* outcomes that leave cells' lender/shared flags and the loans alone *)
  assert (Hsame : forall cs' tr' r,
            (forall c', In c' cs' -> exists c, In c (cells g) /\ mid c' = mid c /\ mdir c' = mdir c
                                            /\ lender c' = lender c /\ shared c' = shared c) ->
            map mid cs' = map mid (cells g) ->
            Forall (seq_ok (msmax g) tr') cs' ->
            (forall i s, In (i, s) tr' -> exists c, In c (cells g) /\ mid c = i) ->
            minv {| cells := cs'; mnext := mnext g; mw := mw g;
                    mcs := upd_nth (mcs g) i (fun _ => {| cprog := rest; clog := (op, r) :: clog t; cloans := cloans t |});
                    msmax := msmax g; mtrace := tr' |}).
  { intros cs' tr' r Hc' Hmids Hsq Htr'.
    assert (Hcnt : forall id, count_live id (upd_nth (mcs g) i (fun _ => {| cprog := rest; clog := (op, r) :: clog t; cloans := cloans t |}))
                              = count_live id (mcs g)) by (intros; eapply count_live_same; eauto).
    constructor; cbn.
    - rewrite Hmids. auto.
    - intros c' Hin. destruct (Hc' c' Hin) as (c & Hc & E & _). rewrite E. auto.
    - apply Forall_forall. intros c' Hin. destruct (Hc' c' Hin) as (c & Hc & E1 & _ & E2 & E3).
      rewrite Forall_forall in Hcells. eapply cell_ok_same_count; eauto.
    - intros t0 l Ht0 Hl. apply in_upd_nth in Ht0 as [->|Ht0].
      + cbn in Hl. destruct (Hloans t l Hint Hl) as (c & Hc & E1 & E2).
        assert (Hin : In (mid c) (map mid cs')) by (rewrite Hmids; apply in_map; auto).
        apply in_map_iff in Hin as (c' & E & Hin'). destruct (Hc' c' Hin') as (c0 & Hc0 & F1 & F2 & _).
        assert (c0 = c) by (eapply nodup_mid_unique; eauto; congruence). subst c0.
        exists c'. repeat split; auto; congruence.
      + destruct (Hloans t0 l Ht0 Hl) as (c & Hc & E1 & E2).
        assert (Hin : In (mid c) (map mid cs')) by (rewrite Hmids; apply in_map; auto).
        apply in_map_iff in Hin as (c' & E & Hin'). destruct (Hc' c' Hin') as (c0 & Hc0 & F1 & F2 & _).
        assert (c0 = c) by (eapply nodup_mid_unique; eauto; congruence). subst c0.
        exists c'. repeat split; auto; congruence.
    - exact Hsq.
    - intros i0 s Hin. destruct (Htr' i0 s Hin) as (c & Hc & E).
      assert (Hin2 : In (mid c) (map mid cs')) by (rewrite Hmids; apply in_map; auto).
      apply in_map_iff in Hin2 as (c' & E' & Hin'). exists c'. split; auto. congruence. }
  assert (Hsame0 : forall r, minv {| cells := cells g; mnext := mnext g; mw := mw g;
                    mcs := upd_nth (mcs g) i (fun _ => {| cprog := rest; clog := (op, r) :: clog t; cloans := cloans t |});
                    msmax := msmax g; mtrace := mtrace g |}).
  { intros r. apply Hsame; auto. intros c' Hc'. exists c'. repeat split; auto. }
  destruct op as [d id|c md|c key label valid|id|c].
  - (* setup *)
    destruct (find_cell (cells g) (live id)) as [c0|] eqn:Ef; [|apply Hsame0].
    destruct (negb (dir_eqb (mdir c0) d)) eqn:Ed; [apply Hsame0|].
    destruct (shared c0) eqn:Es; [apply Hsame0|].
    apply find_cell_some in Ef as [Hc0 Hlive]. unfold live in Hlive. apply andb_prop in Hlive as [Hid Hlend].
    apply N.eqb_eq in Hid.
    assert (Hdir : mdir c0 = d) by (destruct (mdir c0), d; cbn in Ed; congruence).
    set (t' := {| cprog := rest; clog := (CSetup d id, RCtx (length (cloans t))) :: clog t;
                  cloans := cloans t ++ [{| lid := id; ldir := d; ldropped := false |}] |}).
    assert (Hcnt : forall id', count_live id' (upd_nth (mcs g) i (fun _ => t'))
                     = count_live id' (mcs g) + if (id =? id')%N then 1 else 0).
    { intros id'. pose proof (count_upd id' (mcs g) i t t' En) as H. unfold t' in H at 2. cbn [cloans] in H.
      rewrite cnt_app in H. unfold cnt at 3 in H. cbn in H. unfold is_live in H. cbn in H.
      rewrite andb_true_r in H. destruct (id =? id')%N; cbn in H; lia. }
    constructor; cbn.
    + rewrite upd_cell_mids; auto.
    + intros c' Hin. unfold upd_cell in Hin. apply in_map_iff in Hin as (c1 & <- & Hc1).
      destruct (mid c1 =? id)%N; cbn; auto.
    + unfold upd_cell. rewrite Forall_map. apply Forall_forall. intros c1 Hc1.
      rewrite Forall_forall in Hcells. specialize (Hcells c1 Hc1) as (K1 & K2 & K3).
      destruct (mid c1 =? id)%N eqn:E1.
      * apply N.eqb_eq in E1. assert (c1 = c0) by (eapply nodup_mid_unique; eauto; congruence). subst c1.
        unfold cell_ok. cbn [mid lender shared cell_with]. rewrite Hcnt, E1, N.eqb_refl. rewrite <- E1, (K3 Hlend Es). split; [lia|]. split; auto.
        intros _. discriminate.
      * unfold cell_ok. rewrite Hcnt. replace (id =? mid c1)%N with false; [rewrite Nat.add_0_r; auto|].
        symmetry. apply N.eqb_neq. apply N.eqb_neq in E1. congruence.
    + intros t0 l Ht0 Hl.
      assert (Hex : exists c1, In c1 (cells g) /\ mid c1 = lid l /\ mdir c1 = ldir l).
      { apply in_upd_nth in Ht0 as [->|Ht0]; [|eauto].
        unfold t' in Hl. cbn [cloans] in Hl. apply in_app_or in Hl as [Hl|[<-|[]]]; [eauto|]. exists c0. cbn. auto. }
      destruct Hex as (c1 & Hc1 & E1 & E2).
      exists (if (mid c1 =? id)%N then cell_with c1 (mseq c1) (lender c1) true else c1).
      split; [unfold upd_cell; apply in_map_iff; exists c1; auto|]. destruct (mid c1 =? id)%N; auto.
    + unfold upd_cell. rewrite Forall_map. eapply Forall_impl; [|exact Hseq].
      intros c1 H. destruct (mid c1 =? id)%N; auto.
    + intros i0 s Hin. destruct (Htr i0 s Hin) as (c1 & Hc1 & E).
      exists (if (mid c1 =? id)%N then cell_with c1 (mseq c1) (lender c1) true else c1).
      split; [unfold upd_cell; apply in_map_iff; exists c1; auto|]. destruct (mid c1 =? id)%N; auto.
  - (* seal *)
    destruct (loan_of (cloans t) c DSeal) as [x|] eqn:El; [|apply Hsame0].
    destruct (find_cell (cells g) (fun y => (mid y =? lid x)%N)) as [y|] eqn:Ef; [|apply Hsame0].
    destruct (shared y) eqn:Es; [|apply Hsame0].
    apply find_cell_some in Ef as [Hy Hid]. apply N.eqb_eq in Hid.
    destruct (sealf (msmax g) md (mseq y)) as [fr sq] eqn:Esf.
    apply Hsame.
    + intros c' Hin. unfold upd_cell in Hin. apply in_map_iff in Hin as (c1 & <- & Hc1).
      exists c1. destruct (mid c1 =? lid x)%N; cbn; auto.
    + apply upd_cell_mids. auto.
    + unfold upd_cell. rewrite Forall_map. apply Forall_forall. intros c1 Hc1.
      rewrite Forall_forall in Hseq. specialize (Hseq c1 Hc1) as (S1 & S2 & S3).
      destruct (mid c1 =? lid x)%N eqn:E1.
      * apply N.eqb_eq in E1. assert (c1 = y) by (eapply nodup_mid_unique; eauto; congruence). subst c1.
        unfold sealf in Esf. destruct md.
        -- destruct (msmax g <=? mseq y)%N eqn:Elim; inv Esf.
           ++ unfold seq_ok. cbn. auto.
           ++ unfold seq_ok. cbn [mid mseq0 mseq cell_with chan_seqs]. rewrite <- Hid, N.eqb_refl.
              cbn [contig_from length]. apply N.leb_gt in Elim.
              split; [split; auto; lia|]. split; [lia|]. constructor; auto.
        -- inv Esf. unfold seq_ok. cbn. auto.
      * assert (Hne : lid x <> mid c1) by (apply N.eqb_neq in E1; congruence).
        unfold seq_ok. destruct fr; rewrite ?chan_seqs_other by auto; auto.
    + intros i0 s Hin. destruct fr; [destruct Hin as [Hin|Hin]; [inv Hin; eauto|]|..]; apply (Htr i0 s); auto.
  - (* open *)
    destruct (loan_of (cloans t) c DOpen) as [x|] eqn:El; [|apply Hsame0].
    destruct (find_cell (cells g) (fun y => (mid y =? lid x)%N)) as [y|] eqn:Ef; [|apply Hsame0].
    destruct (shared y); apply Hsame0.
  - (* exists *) apply Hsame0.
  - (* drop *)
    destruct (nth_error (cloans t) c) as [x|] eqn:Ex; [|apply Hsame0].
    destruct (ldropped x) eqn:Edr; [apply Hsame0|].
    set (t' := {| cprog := rest; clog := (CDrop c, RDropped) :: clog t;
                  cloans := set_loan (cloans t) c {| lid := lid x; ldir := ldir x; ldropped := true |} |}).
    assert (Hcnt : forall id', count_live id' (upd_nth (mcs g) i (fun _ => t')) + (if (lid x =? id')%N then 1 else 0)
                     = count_live id' (mcs g)).
    { intros id'. pose proof (count_upd id' (mcs g) i t t' En) as H. unfold t' in H at 2. cbn [cloans] in H.
      pose proof (cnt_set_loan id' (cloans t) c x {| lid := lid x; ldir := ldir x; ldropped := true |} Ex) as H2.
      unfold is_live in H2. cbn in H2. rewrite Edr, andb_false_r in H2. cbn in H2. rewrite andb_true_r in H2.
      destruct (lid x =? id')%N; lia. }
    constructor; cbn.
    + rewrite upd_cell_mids; auto.
    + intros c' Hin. unfold upd_cell in Hin. apply in_map_iff in Hin as (c1 & <- & Hc1).
      destruct (mid c1 =? lid x)%N; cbn; auto.
    + unfold upd_cell. rewrite Forall_map. apply Forall_forall. intros c1 Hc1.
      rewrite Forall_forall in Hcells. specialize (Hcells c1 Hc1) as (K1 & K2 & K3).
      specialize (Hcnt (mid c1)).
      destruct (mid c1 =? lid x)%N eqn:E1.
      * apply N.eqb_eq in E1. rewrite <- E1, N.eqb_refl in Hcnt.
        unfold cell_ok. cbn [mid lender shared cell_with]. split; [lia|]. split; [discriminate|]. intros _ _. lia.
      * replace (lid x =? mid c1)%N with false in Hcnt
          by (symmetry; apply N.eqb_neq; apply N.eqb_neq in E1; congruence).
        unfold cell_ok. replace (count_live (mid c1) (upd_nth (mcs g) i (fun _ => t'))) with (count_live (mid c1) (mcs g)) by lia.
        auto.
    + intros t0 l Ht0 Hl.
      assert (Hex : exists c1, In c1 (cells g) /\ mid c1 = lid l /\ mdir c1 = ldir l).
      { apply in_upd_nth in Ht0 as [->|Ht0]; [|eauto].
        unfold t' in Hl. cbn [cloans] in Hl. clear - Hl Hloans Hint Ex.
        assert (Hin : In l (cloans t) \/ (lid l = lid x /\ ldir l = ldir x)).
        { revert c Ex Hl. induction (cloans t) as [|z ls IH]; intros [|c] Ex Hl; cbn in *; try discriminate; try tauto.
          - inv Ex. destruct Hl as [<-|Hl]; auto.
          - destruct Hl as [<-|Hl]; auto. destruct (IH _ Ex Hl); auto. }
        destruct Hin as [Hin|[E1 E2]]; [eauto|].
        destruct (Hloans t x Hint (nth_error_In _ _ Ex)) as (c1 & H1 & H2 & H3). exists c1. repeat split; auto; congruence. }
      destruct Hex as (c1 & Hc1 & E1 & E2).
      exists (if (mid c1 =? lid x)%N then cell_with c1 (mseq c1) (lender c1) false else c1).
      split; [unfold upd_cell; apply in_map_iff; exists c1; auto|]. destruct (mid c1 =? lid x)%N; auto.
    + unfold upd_cell. rewrite Forall_map. eapply Forall_impl; [|exact Hseq].
      intros c1 H. destruct (mid c1 =? lid x)%N; auto.
    + intros i0 s Hin. destruct (Htr i0 s Hin) as (c1 & Hc1 & E).
      exists (if (mid c1 =? lid x)%N then cell_with c1 (mseq c1) (lender c1) false else c1).
      split; [unfold upd_cell; apply in_map_iff; exists c1; auto|]. destruct (mid c1 =? lid x)%N; auto.
Qed.

Lemma minv_mstep t g : minv g -> minv (mstep t g).
Proof. destruct t; [apply minv_mwstep|apply minv_mcstep]. Qed.

Lemma minv_runs smax wp cps sched : minv (mruns sched (minit smax wp cps)).
Proof. unfold mruns. apply run_invariant; [intros; apply minv_mstep; auto|apply minv_init]. Qed.

(** ** C40 on the in-memory state *)

(** at most one live context (loan) per channel, over all clients, in every reachable state *)
Definition single_live_ctx_stmt : Prop :=
  forall (smax : N) (wp : list mop) (cps : list (list cop)) (sched : list nat) (id : N),
  let g := mruns sched (minit smax wp cps) in
  count_live id (mcs g) <= 1
  /\ (* a setup that returns a context does so only when none is live *)
     forall i t d rest, nth_error (mcs g) i = Some t -> cprog t = CSetup d id :: rest ->
       count_live id (mcs g) = 1 ->
       forall t', nth_error (mcs (mstep (S i) g)) i = Some t' -> hd_error (clog t') = Some (CSetup d id, RNotFound).

Lemma single_live_ctx_proof : single_live_ctx_stmt.
Proof.
  intros smax wp cps sched id g.
  pose proof (minv_runs smax wp cps sched) as Hm. fold g in Hm.
  destruct Hm as [Hnd Hlt Hcells Hloans Hseq Htr].
  assert (Hle : count_live id (mcs g) <= 1).
  { destruct (in_dec N.eq_dec id (map mid (cells g))) as [Hin|Hn].
    - apply in_map_iff in Hin as (c & <- & Hc). rewrite Forall_forall in Hcells. apply (Hcells c Hc).
    - rewrite count_live_no_loans; [lia|]. intros t l Ht Hl E. destruct (Hloans t l Ht Hl) as (c & Hc & E1 & _).
      apply Hn. rewrite <- E, <- E1. apply in_map; auto. }
  split; auto.
  intros i t d rest Hn Hp Hone t' Hn'.
  cbn [mstep] in Hn'. unfold mcstep in Hn'. rewrite Hn in Hn'. unfold cstep1 in Hn'. rewrite Hp in Hn'.
  destruct (find_cell (cells g) (live id)) as [c0|] eqn:Ef.
  - destruct (negb (dir_eqb (mdir c0) d)); [cbn in Hn'; rewrite (upd_nth_same _ _ _ _ Hn) in Hn'; inv Hn'; reflexivity|].
    destruct (shared c0) eqn:Es; [cbn in Hn'; rewrite (upd_nth_same _ _ _ _ Hn) in Hn'; inv Hn'; reflexivity|].
    exfalso. apply find_cell_some in Ef as [Hc0 Hl]. unfold live in Hl. apply andb_prop in Hl as [Hid Hlend].
    apply N.eqb_eq in Hid. rewrite Forall_forall in Hcells. destruct (Hcells c0 Hc0) as (_ & _ & K3).
    rewrite Hid in K3. rewrite (K3 Hlend Es) in Hone. discriminate.
  - cbn in Hn'. rewrite (upd_nth_same _ _ _ _ Hn) in Hn'. inv Hn'. reflexivity.
Qed.

Lemma contig_from_rev b l : contig_from b l -> rev l = map (fun i => (b + N.of_nat i)%N) (seq 0 (length l)).
Proof.
  induction l as [|s rest IH]; cbn [contig_from]; intros H; [reflexivity|].
  destruct H as [-> Hc]. cbn [rev length]. rewrite seq_S, map_app, IH by auto. reflexivity.
Qed.

Lemma msmax_runs sched g : msmax (mruns sched g) = msmax g.
Proof.
  unfold mruns. revert g. induction sched as [|t s IH]; intros g; cbn; auto. rewrite IH.
  destruct t as [|i]; cbn.
  - unfold mwstep. destruct (mprog (mw g)); auto. destruct m; reflexivity.
  - unfold mcstep. destruct (nth_error (mcs g) i); auto.
    destruct (cstep1 (msmax g) (cells g) (mtrace g) c) as [[? ?] ?]. reflexivity.
Qed.

(** the sequence numbers a channel's key has sealed with, over all its
    successive contexts and all clients: seq0, seq0+1, ... below the limit *)
Definition mem_seq_contiguous_stmt : Prop :=
  forall (smax : N) (wp : list mop) (cps : list (list cop)) (sched : list nat) c,
  let g := mruns sched (minit smax wp cps) in
  In c (cells g) ->
  let seqs := rev (chan_seqs (mid c) (mtrace g)) in
  seqs = map (fun i => (mseq0 c + N.of_nat i)%N) (seq 0 (length seqs))
  /\ Forall (fun s => (s < smax)%N) seqs
  /\ mseq c = (mseq0 c + N.of_nat (length seqs))%N.

Lemma mem_seq_contiguous_proof : mem_seq_contiguous_stmt.
Proof.
  intros smax wp cps sched c g Hc seqs.
  pose proof (minv_runs smax wp cps sched) as Hm. fold g in Hm. destruct Hm as [_ _ _ _ Hseq _].
  rewrite Forall_forall in Hseq. destruct (Hseq c Hc) as (S1 & S2 & S3).
  unfold g in S3 at 1. rewrite msmax_runs in S3. cbn in S3.
  subst seqs. rewrite rev_length. split; [apply contig_from_rev; auto|]. split; auto.
  apply Forall_forall. intros s Hin. rewrite <- in_rev in Hin. rewrite Forall_forall in S3. auto.
Qed.

(** ** C41 on the in-memory state *)
Definition mgone (id : N) (g : MG) : Prop := exists c, In c (cells g) /\ mid c = id /\ lender c = false.

Lemma mgone_step id t g : minv g -> mgone id g -> mgone id (mstep t g).
Proof.
  intros Hm (c & Hc & Hid & Hl). destruct t as [|i]; cbn [mstep].
  - unfold mwstep. destruct (mprog (mw g)) as [|op rest]; [exists c; auto|].
    assert (Hd : forall sel, exists c', In c' (drop_lenders sel (cells g)) /\ mid c' = id /\ lender c' = false).
    { intros sel. exists (if lender c && sel c then cell_with c (mseq c) false false else c).
      split; [unfold drop_lenders; apply in_map_iff; exists c; auto|]. destruct (lender c && sel c); auto. }
    destruct op; cbn; unfold mgone; cbn; auto.
    + exists c. split; auto. apply in_or_app; auto.
    + exists c. auto.
  - unfold mcstep. destruct (nth_error (mcs g) i) as [t|]; [|exists c; auto].
    assert (Hu : forall id' f, (forall y, mid (f y) = mid y /\ lender (f y) = lender y) ->
               exists c', In c' (upd_cell (cells g) id' f) /\ mid c' = id /\ lender c' = false).
    { intros id' f Hf. exists (if (mid c =? id')%N then f c else c).
      split; [unfold upd_cell; apply in_map_iff; exists c; auto|].
      destruct (mid c =? id')%N; auto. destruct (Hf c) as [-> ->]. auto. }
    unfold cstep1. destruct (cprog t) as [|op rest]; [exists c; auto|].
    destruct op as [d id'|c0 md|c0 key label valid|id'|c0]; unfold mgone; cbn [cells].
    + destruct (find_cell (cells g) (live id')) as [c1|]; [|exists c; auto].
      destruct (negb (dir_eqb (mdir c1) d)); [exists c; auto|]. destruct (shared c1); [exists c; auto|].
      cbn. apply Hu. auto.
    + destruct (loan_of (cloans t) c0 DSeal) as [x|]; [|exists c; auto].
      destruct (find_cell (cells g) (fun y => (mid y =? lid x)%N)) as [y|]; [|exists c; auto].
      destruct (shared y); [|exists c; auto]. destruct (sealf (msmax g) md (mseq y)). cbn. apply Hu. auto.
    + destruct (loan_of (cloans t) c0 DOpen) as [x|]; [|exists c; auto].
      destruct (find_cell (cells g) (fun y => (mid y =? lid x)%N)) as [y|]; [|exists c; auto].
      destruct (shared y); exists c; auto.
    + exists c; auto.
    + destruct (nth_error (cloans t) c0) as [x|]; [|exists c; auto].
      destruct (ldropped x); [exists c; auto|]. cbn. apply Hu. auto.
Qed.

(** the step that performs a removal leaves the channel gone *)
Lemma mremove_gone g id rest :
  minv g -> mprog (mw g) = MRemove id :: rest -> In id (map mid (cells g)) -> mgone id (mstep 0 g).
Proof.
  intros Hm Hp Hin. cbn. unfold mwstep. rewrite Hp. cbn. apply in_map_iff in Hin as (c & E & Hc).
  exists (if lender c && (mid c =? id)%N then cell_with c (mseq c) false false else c).
  split; [unfold drop_lenders; apply in_map_iff; exists c; auto|].
  rewrite E, N.eqb_refl, andb_true_r. destruct (lender c) eqn:El; auto.
Qed.

Definition mfailing (op : cop) (res : rres) : Prop :=
  match op with
  | CSeal _ _ | COpen _ _ _ _ => res = RNotFound \/ res = RInvalid
  | CSetup _ _ => res = RNotFound
  | CExists _ => res = RBool false
  | CDrop _ => True
  end.
Definition mgood (id : N) (ls : list loan) (e : cop * rres) : Prop :=
  let '(op, res) := e in
  match op with
  | CSetup _ i | CExists i => i = id -> mfailing op res
  | CSeal c _ | COpen c _ _ _ => mfailing op res \/ exists x, nth_error ls c = Some x /\ lid x <> id
  | CDrop _ => True
  end.

Lemma set_loan_nth ls : forall c y j,
  nth_error (set_loan ls c y) j = if (c =? j) && (c <? length ls) then Some y else nth_error ls j.
Proof.
  induction ls as [|z ls IH]; intros c y j.
  - destruct c, j; cbn; auto. rewrite andb_false_r. reflexivity.
  - destruct c as [|c], j as [|j]; cbn; auto. rewrite IH. cbn.
    replace (S c <? S (length ls)) with (c <? length ls); auto.
Qed.

(** what one client step logs, and that loans keep their channel *)
Lemma cstep1_gone id g t :
  minv g -> mgone id g -> In t (mcs g) ->
  let '(_, _, t') := cstep1 (msmax g) (cells g) (mtrace g) t in
  (forall c x, nth_error (cloans t) c = Some x -> exists x', nth_error (cloans t') c = Some x' /\ lid x' = lid x)
  /\ (clog t' = clog t \/ exists op res, clog t' = (op, res) :: clog t /\ mgood id (cloans t') (op, res)).
Proof.
  intros Hm (cg & Hcg & Hidg & Hlg) Hint. pose proof Hm as [Hnd Hlt Hcells Hloans Hseq Htr].
  assert (Hnoshare : shared cg = false).
  { rewrite Forall_forall in Hcells. destruct (Hcells cg Hcg) as (_ & K2 & _).
    destruct (shared cg); auto. destruct (K2 eq_refl) as [K _]. congruence. }
  assert (Hfindid : find_cell (cells g) (live id) = None).
  { destruct (find_cell (cells g) (live id)) as [c1|] eqn:E; auto.
    apply find_cell_some in E as [Hc1 Hl]. unfold live in Hl. apply andb_prop in Hl as [H1 H2]. apply N.eqb_eq in H1.
    assert (c1 = cg) by (eapply nodup_mid_unique; eauto; congruence). subst. congruence. }
  unfold cstep1. destruct (cprog t) as [|op rest]; [split; eauto|].
  destruct op as [d id'|c md|c key label valid|id'|c].
  - destruct (find_cell (cells g) (live id')) as [c1|] eqn:Ef.
    + destruct (negb (dir_eqb (mdir c1) d)); [split; [eauto|right; do 2 eexists; split; [reflexivity|cbn; auto]]|].
      destruct (shared c1); [split; [eauto|right; do 2 eexists; split; [reflexivity|cbn; auto]]|].
      split.
      * cbn. intros c x Hx. exists x. split; auto. rewrite nth_error_app1; auto. apply nth_error_Some. congruence.
      * right. do 2 eexists. split; [reflexivity|]. cbn. intros ->. rewrite Hfindid in Ef. discriminate.
    + split; [eauto|right; do 2 eexists; split; [reflexivity|cbn; auto]].
  - destruct (loan_of (cloans t) c DSeal) as [x|] eqn:El; [|split; [eauto|right; do 2 eexists; split; [reflexivity|cbn; auto]]].
    assert (Hx : nth_error (cloans t) c = Some x).
    { unfold loan_of in El. destruct (nth_error (cloans t) c) as [x0|]; [|discriminate].
      destruct (dir_eqb (ldir x0) DSeal && negb (ldropped x0)); inv El; auto. }
    destruct (find_cell (cells g) (fun y => (mid y =? lid x)%N)) as [y|] eqn:Ef;
      [|split; [eauto|right; do 2 eexists; split; [reflexivity|cbn; auto]]].
    apply find_cell_some in Ef as [Hy Hid]. apply N.eqb_eq in Hid.
    destruct (shared y) eqn:Es; [|split; [eauto|right; do 2 eexists; split; [reflexivity|cbn; auto]]].
    destruct (sealf (msmax g) md (mseq y)) as [fr sq]. split; [eauto|].
    right. do 2 eexists. split; [reflexivity|]. cbn. right. exists x. split; auto.
    intros E. assert (y = cg) by (eapply nodup_mid_unique; eauto; congruence). subst. congruence.
  - destruct (loan_of (cloans t) c DOpen) as [x|] eqn:El; [|split; [eauto|right; do 2 eexists; split; [reflexivity|cbn; auto]]].
    assert (Hx : nth_error (cloans t) c = Some x).
    { unfold loan_of in El. destruct (nth_error (cloans t) c) as [x0|]; [|discriminate].
      destruct (dir_eqb (ldir x0) DOpen && negb (ldropped x0)); inv El; auto. }
    destruct (find_cell (cells g) (fun y => (mid y =? lid x)%N)) as [y|] eqn:Ef;
      [|split; [eauto|right; do 2 eexists; split; [reflexivity|cbn; auto]]].
    apply find_cell_some in Ef as [Hy Hid]. apply N.eqb_eq in Hid.
    destruct (shared y) eqn:Es; [|split; [eauto|right; do 2 eexists; split; [reflexivity|cbn; auto]]].
    split; [eauto|].
    right. do 2 eexists. split; [reflexivity|]. cbn. right. exists x. split; auto.
    intros E. assert (y = cg) by (eapply nodup_mid_unique; eauto; congruence). subst. congruence.
  - split; [eauto|]. right. do 2 eexists. split; [reflexivity|]. cbn. intros ->. rewrite Hfindid. reflexivity.
  - destruct (nth_error (cloans t) c) as [x|] eqn:Ex; [|split; [eauto|right; do 2 eexists; split; [reflexivity|cbn; auto]]].
    destruct (ldropped x); [split; [eauto|right; do 2 eexists; split; [reflexivity|cbn; auto]]|].
    split; [|right; do 2 eexists; split; [reflexivity|cbn; auto]].
    cbn. intros c1 x1 Hx1. rewrite set_loan_nth.
    destruct ((c =? c1) && (c <? length (cloans t))) eqn:E; [|eauto].
    apply andb_prop in E as [E _]. apply Nat.eqb_eq in E. subst c1. rewrite Ex in Hx1. inv Hx1. eexists. split; eauto.
Qed.

Lemma mgood_stable id ls ls' e :
  (forall c x, nth_error ls c = Some x -> exists x', nth_error ls' c = Some x' /\ lid x' = lid x) ->
  mgood id ls e -> mgood id ls' e.
Proof.
  intros Hst. destruct e as [op res]. destruct op; cbn; auto.
  - intros [H|(x & Hn & Hne)]; auto. right. destruct (Hst _ _ Hn) as (x' & H1 & H2). exists x'. split; auto. congruence.
  - intros [H|(x & Hn & Hne)]; auto. right. destruct (Hst _ _ Hn) as (x' & H1 & H2). exists x'. split; auto. congruence.
Qed.

Definition mext (id : N) (t1 t' : cthread) : Prop :=
  exists new, clog t' = new ++ clog t1 /\ Forall (mgood id (cloans t')) new.
Definition msince (id : N) (g1 g' : MG) : Prop :=
  forall i t1, nth_error (mcs g1) i = Some t1 -> exists t', nth_error (mcs g') i = Some t' /\ mext id t1 t'.

Lemma mcs_mwstep g : mcs (mwstep g) = mcs g.
Proof. unfold mwstep. destruct (mprog (mw g)); auto. destruct m; reflexivity. Qed.

Lemma msince_step id g1 g' t : minv g' -> mgone id g' -> msince id g1 g' -> msince id g1 (mstep t g').
Proof.
  intros Hm Hg Hs i t1 Hn1. destruct (Hs i t1 Hn1) as (t' & Hn' & new & Hlog & Hgood).
  destruct t as [|j]; cbn [mstep].
  - rewrite mcs_mwstep. exists t'. split; auto. exists new. auto.
  - unfold mcstep. destruct (nth_error (mcs g') j) as [tj|] eqn:Ej; [|exists t'; split; auto; exists new; auto].
    pose proof (cstep1_gone id g' tj Hm Hg (nth_error_In _ _ Ej)) as Hc.
    destruct (cstep1 (msmax g') (cells g') (mtrace g') tj) as [[cs tr] tj'] eqn:Ec. cbn [mcs].
    destruct (Nat.eq_dec j i) as [->|Hne].
    + rewrite Hn' in Ej. inv Ej. exists tj'. split; [apply upd_nth_same with (x := tj); auto|].
      destruct Hc as [Hst [Hl|(op & res & Hl & Hg')]].
      * exists new. rewrite Hl. split; auto. eapply Forall_impl; [|exact Hgood]. intros e. apply mgood_stable; auto.
      * exists ((op, res) :: new). rewrite Hl, Hlog. split; auto. constructor; auto.
        eapply Forall_impl; [|exact Hgood]. intros e. apply mgood_stable; auto.
    + exists t'. split; [rewrite upd_nth_other; auto|]. exists new. auto.
Qed.

Definition mtargets (ls : list loan) (op : cop) (id : N) : Prop :=
  match op with
  | CSetup _ i | CExists i => i = id
  | CSeal c _ | COpen c _ _ _ => exists x, nth_error ls c = Some x /\ lid x = id
  | CDrop _ => False
  end.

(** once the channel's Lender is gone (a remove* has run), it stays gone and
    every call any client makes on it afterwards fails — on every schedule *)
Definition mem_removed_is_gone_stmt : Prop :=
  forall (smax : N) (wp : list mop) (cps : list (list cop)) (s1 s2 : list nat) (id : N),
  let g1 := mruns s1 (minit smax wp cps) in
  let g2 := mruns s2 g1 in
  mgone id g1 ->
  mgone id g2
  /\ forall i t1 t2, nth_error (mcs g1) i = Some t1 -> nth_error (mcs g2) i = Some t2 ->
     exists new, clog t2 = new ++ clog t1
       /\ forall op res, In (op, res) new -> mtargets (cloans t2) op id -> mfailing op res.

Lemma mem_removed_is_gone_proof : mem_removed_is_gone_stmt.
Proof.
  intros smax wp cps s1 s2 id g1 g2 Hgone.
  pose proof (minv_runs smax wp cps s1) as Hm1. fold g1 in Hm1.
  pose proof (run_invariant MG mstep (fun g => minv g /\ mgone id g /\ msince id g1 g)) as H.
  destruct (H ltac:(intros t g (A & B & C); split; [apply minv_mstep; auto|]; split;
                    [apply mgone_step; auto|apply msince_step; auto]) s2 g1) as (Hm2 & Hg2 & Hs2).
  { split; auto. split; auto. intros i t1 Hn. exists t1. split; auto. exists []. split; auto. }
  split; [exact Hg2|].
  intros i t1 t2 Hn1 Hn2. destruct (Hs2 i t1 Hn1) as (t' & Hn' & new & Hlog & Hgood).
  unfold g2, mruns in Hn2. rewrite Hn' in Hn2. inv Hn2.
  exists new. split; auto. intros op res Hin Ht.
  rewrite Forall_forall in Hgood. specialize (Hgood _ Hin). cbn in Hgood.
  destruct op; cbn in *; auto.
  - destruct Hgood as [?|(x & Hx & Hne)]; auto. destruct Ht as (x' & Hx' & E). congruence.
  - destruct Hgood as [?|(x & Hx & Hne)]; auto. destruct Ht as (x' & Hx' & E). congruence.
Qed.

(** Non-vacuity *)
Example mem_example :
  let wp := [MAdd DSeal 7 3 1 5; MRemove 0] in
  let c0 := [CSetup DSeal 0; CSeal 0 MClient; CDrop 0; CSeal 1 MClient; CSeal 1 MClient] in
  let c1 := [CSetup DSeal 0; CSetup DSeal 0; CExists 0] in
  let g1 := mruns [0; 1; 2; 1; 1; 2; 1] (minit 7 wp [c0; c1]) in
  let g2 := mruns [0; 1; 2] g1 in
  map (fun c => rev (map (fun x => rres_canon (snd x)) (clog c))) (mcs g1)
    = [[[0; 0]; [3; 0; 0; 5; 7; 3]; [8]; [6]]; [[1]; [0; 0]]]%N
  /\ count_live 0 (mcs g1) = 1 /\ mgone 0 g2
  /\ rev (mtrace g2) = [(0, 5)]%N.
Proof.
  cbv zeta. split; [vm_compute; reflexivity|]. split; [vm_compute; reflexivity|]. split; [|vm_compute; reflexivity].
  unfold mgone. vm_compute. eexists. split; [left; reflexivity|]. split; reflexivity.
Qed.
