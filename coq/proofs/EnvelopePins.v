(** Pins of the regenerated provenance facts ([gen/GenEnvelope.v]) that [model/Envelope.v] transcribes:
    a change in call_rule / open_command / protocol.rs / crypto-ffi verify breaks this file. *)
From Aranya Require Import base.Tactics gen.GenEnvelope.
From Coq Require Import String.

Lemma gen_envelope_pins :
  (* parent_id comes from the RECEIVED command's parent *)
  parent_id_arms = [("Prior::None", "CmdId::default()"); ("Prior::Single(parent)", "parent.id");
                    ("Prior::Merge(_, _)", "bug!(""merge commands are not evaluated"")")]%string
  (* author, kind, payload, signature come from the decoded wire payload *)
  /\ wire_bindings = [("author_id", "author_id"); ("kind", "kind"); ("serialized_fields", "payload"); ("signature", "signature")]%string
  /\ wire_fields = [("author_id", "DeviceId"); ("kind", "Identifier"); ("serialized_fields", "&'a [u8]"); ("signature", "&'a [u8]")]%string
  (* the envelope: command_id is the received id *)
  /\ envelope_fields = [("parent_id", "parent_id"); ("author_id", "author_id"); ("command_id", "command.id()");
                        ("signature", "Cow::Borrowed(signature)")]%string
  /\ envelope_struct_fields = [("parent_id", "parent_id"); ("author_id", "author_id"); ("command_id", "command_id"); ("signature", "signature")]%string
  (* open runs at origin / off-graph, before the policy block, with the payload and that envelope, in an
     Open context named after the command kind *)
  /\ open_placement_arms = [("CommandPlacement::OnGraphAtOrigin | CommandPlacement::OffGraph", true); ("CommandPlacement::OnGraphInBraid", false)]%string
  /\ open_gets_payload_and_envelope = true /\ open_before_policy = true /\ open_ctx_name_is_command_kind = true
  /\ open_exit_arms = [("ExitReason::Normal", "Ok(())"); ("ExitReason::Yield", "bug!"); ("ExitReason::Check", "PolicyError::Rejected");
                       ("ExitReason::Panic", "PolicyError::Rejected")]%string
  /\ open_machine_error = "PolicyError::InternalError"%string
  (* crypto-ffi: what verify binds and that it compares the claimed id; what sign signs *)
  /\ verify_cmd_fields = [("data", "&command_bytes"); ("name", "ctx.name.as_str()"); ("parent_id", "&parent_id")]%string
  /\ verify_checks_id = true /\ verify_requires_open_ctx = true
  /\ sign_cmd_fields = [("data", "&command_bytes"); ("name", "ctx.name.as_str()"); ("parent_id", "&ctx.head_id")]%string.
Proof. repeat split; reflexivity. Qed.
