(** Proofs about the postcard primitives of [model/Varint.v] (C26): the
    zig-zag and varint codecs are mutually inverse on the whole [i64]/[u64]
    range, a truncated varint is reported as [UnexpectedEnd], length-prefixed
    byte strings round-trip. *)
From Aranya Require Import base.Tactics model.Varint.
Open Scope N_scope.

(** ** bytes: a bounded universal quantifier, decided by computation *)
Lemma byte_forall (P : N -> bool) :
  forallb P (map N.of_nat (seq 0 256)) = true -> forall b, b < 256 -> P b = true.
Proof.
  intros H b Hb. rewrite forallb_forall in H. apply H.
  rewrite in_map_iff. exists (N.to_nat b). split; [lia|]. apply in_seq. lia.
Qed.

Lemma low7 b : b < 128 -> N.land b 127 = b /\ N.land b 128 = 0 /\ b mod 256 = b.
Proof.
  intros Hb.
  pose proof (byte_forall (fun b => implb (b <? 128) ((N.land b 127 =? b) && (N.land b 128 =? 0) && (b mod 256 =? b)))
                eq_refl b ltac:(lia)) as H.
  cbv beta in H. destruct (N.ltb_spec b 128); [|lia]. cbn [implb] in H.
  apply andb_prop in H as [H H3]. apply andb_prop in H as [H1 H2]. lia.
Qed.

Lemma cont_byte b : b < 256 ->
  N.land (N.lor b 128) 127 = b mod 128 /\ N.land (N.lor b 128) 128 = 128 /\ N.lor b 128 < 256.
Proof.
  intros Hb.
  pose proof (byte_forall (fun b => (N.land (N.lor b 128) 127 =? b mod 128) && (N.land (N.lor b 128) 128 =? 128) && (N.lor b 128 <? 256))
                eq_refl b Hb) as H.
  cbv beta in H. apply andb_prop in H as [H H3]. apply andb_prop in H as [H1 H2]. lia.
Qed.

(** ** disjoint [lor] is addition *)
Lemma land_low_high a c k : a < 2 ^ k -> N.land a (c * 2 ^ k) = 0.
Proof.
  intros Ha. apply N.bits_inj. intros n. rewrite N.land_spec, N.bits_0.
  destruct (N.lt_ge_cases n k) as [Hn|Hn].
  - rewrite N.mul_pow2_bits_low by auto. apply andb_false_r.
  - replace (N.testbit a n) with false; [reflexivity|].
    symmetry. rewrite <- (N.mod_small a (2 ^ k)) by auto. apply N.mod_pow2_bits_high; auto.
Qed.

Lemma lor_low_high a c k : a < 2 ^ k -> N.lor a (c * 2 ^ k) = a + c * 2 ^ k.
Proof.
  intros Ha. pose proof (land_low_high a c k Ha) as H.
  rewrite <- N.lxor_lor by auto. symmetry. apply N.add_nocarry_lxor; auto.
Qed.

(** ** varint *)

Lemma pow2_split a b : 2 ^ (a + b) = 2 ^ a * 2 ^ b.
Proof. apply N.pow_add_r. Qed.

Lemma two64_pow : two64 = 2 ^ 64.
Proof. reflexivity. Qed.

(** the generalised loop invariant: after [i] bytes, [out] holds the low [7i] bits *)
Lemma take_varint_loop f : forall i out v rest,
  (f + N.to_nat i = 10)%nat -> i <= 9 -> out < 2 ^ (7 * i) -> v < 2 ^ (64 - 7 * i) ->
  take_u64_loop f i out (varint_loop f v ++ rest) = TSome (out + v * 2 ^ (7 * i)) rest.
Proof.
  induction f as [|f IH]; intros i out v rest Hf Hi Hout Hv; [lia|].
  cbn [varint_loop take_u64_loop].
  assert (Hp : 2 ^ (64 - 7 * i) * 2 ^ (7 * i) = two64).
  { rewrite <- N.pow_add_r. replace (64 - 7 * i + 7 * i) with 64 by lia. reflexivity. }
  assert (Hpos : 0 < 2 ^ (7 * i)) by (apply N.neq_0_lt_0, N.pow_nonzero; lia).
  destruct (N.ltb_spec v 128) as [Hlt|Hge].
  - (* last byte *)
    destruct (low7 v Hlt) as (H1 & H2 & H3).
    cbn [app]. rewrite H3, H1, H2. cbn [N.eqb].
    rewrite N.shiftl_mul_pow2.
    assert (Hsm : v * 2 ^ (7 * i) < two64) by nia.
    rewrite (N.mod_small _ _ Hsm), lor_low_high by auto.
    replace ((i =? 9) && (1 <? v)) with false; [reflexivity|].
    symmetry. apply andb_false_iff.
    destruct (N.eqb_spec i 9) as [->|]; [right|left; reflexivity].
    apply N.ltb_ge. change (2 ^ (64 - 7 * 9)) with 2 in Hv. lia.
  - (* continuation byte *)
    assert (Hb : v mod 256 < 256) by (apply N.mod_lt; lia).
    destruct (cont_byte _ Hb) as (H1 & H2 & _).
    cbn [app]. rewrite H1, H2. cbn [N.eqb].
    assert (Hi8 : i <= 8).
    { destruct (N.le_gt_cases i 8); auto. assert (i = 9) by lia. subst.
      change (2 ^ (64 - 7 * 9)) with 2 in Hv. lia. }
    replace (v mod 256 mod 128) with (v mod 128)
      by (change 256 with (128 * 2); rewrite N.mod_mul_r by lia;
          rewrite N.mul_comm, N.mod_add by lia; symmetry; apply N.mod_mod; lia).
    rewrite N.shiftl_mul_pow2, N.shiftr_div_pow2. change (2 ^ 7) with 128.
    assert (Hm : v mod 128 < 128) by (apply N.mod_lt; lia).
    assert (H7 : 2 ^ (7 * (i + 1)) = 128 * 2 ^ (7 * i)).
    { replace (7 * (i + 1)) with (7 + 7 * i) by lia. rewrite N.pow_add_r. reflexivity. }
    assert (Hsm : v mod 128 * 2 ^ (7 * i) < two64).
    { assert (128 <= 2 ^ (64 - 7 * i)).
      { change 128 with (2 ^ 7). apply N.pow_le_mono_r; lia. }
      nia. }
    rewrite (N.mod_small _ _ Hsm), lor_low_high by auto.
    rewrite IH; try lia.
    + rewrite H7. pose proof (N.div_mod v 128 ltac:(lia)) as Hdm.
      apply (f_equal (fun x => TSome x rest)).
      set (X := 2 ^ (7 * i)) in *. set (q := v / 128) in *. set (m := v mod 128) in *.
      rewrite Hdm. ring.
    + rewrite H7. nia.
    + assert (H64 : 2 ^ (64 - 7 * i) = 128 * 2 ^ (64 - 7 * (i + 1))).
      { replace (64 - 7 * i) with (7 + (64 - 7 * (i + 1))) by lia. rewrite N.pow_add_r. reflexivity. }
      rewrite H64 in Hv. apply N.div_lt_upper_bound; lia.
Qed.

Definition varint_roundtrip_stmt : Prop :=
  forall (v : N) (rest : list N), v < two64 -> take_u64 (varint_u64 v ++ rest) = TSome v rest.

Lemma varint_roundtrip_proof : varint_roundtrip_stmt.
Proof.
  intros v rest Hv. unfold take_u64, varint_u64, varint_max_u64.
  rewrite take_varint_loop; try (cbn; lia).
  - f_equal. change (2 ^ (7 * 0)) with 1. lia.
  - exact Hv.
Qed.

(** a strict prefix of a varint is reported as end of input, whatever the state *)
Lemma take_varint_prefix f : forall i out v p q,
  varint_loop f v = p ++ q -> q <> [] -> take_u64_loop f i out p = TEnd.
Proof.
  induction f as [|f IH]; intros i out v p q He Hq.
  - cbn in He. destruct p, q; try discriminate. congruence.
  - cbn [varint_loop] in He. destruct (N.ltb_spec v 128) as [Hlt|Hge].
    + destruct p as [|b p]; [reflexivity|]. destruct p, q; try discriminate; congruence.
    + destruct p as [|b p]; [reflexivity|].
      cbn [app] in He. injection He as Hb He. subst b.
      cbn [take_u64_loop].
      assert (Hb : v mod 256 < 256) by (apply N.mod_lt; lia).
      destruct (cont_byte _ Hb) as (_ & H2 & _). rewrite H2. cbn [N.eqb].
      eapply IH; eauto.
Qed.

Lemma varint_bytes_ok f : forall v, bytes_ok (varint_loop f v).
Proof.
  induction f as [|f IH]; intros v; cbn [varint_loop]; [constructor|].
  assert (Hb : v mod 256 < 256) by (apply N.mod_lt; lia).
  destruct (v <? 128); constructor.
  - exact Hb.
  - constructor.
  - apply (cont_byte _ Hb).
  - apply IH.
Qed.

Lemma varint_nonempty v : varint_u64 v <> [].
Proof. unfold varint_u64, varint_max_u64. cbn [varint_loop]. destruct (v <? 128); discriminate. Qed.

(** ** zig-zag *)
Open Scope Z_scope.

Lemma wrap_i64_id z : in_i64 z -> wrap_i64 z = z.
Proof.
  unfold in_i64, wrap_i64, two63z, two64z. intros H. rewrite Z.mod_small; lia.
Qed.

Lemma wrap_i64_mod z : wrap_i64 z mod two64z = z mod two64z.
Proof.
  unfold wrap_i64.
  replace ((z + two63z) mod two64z - two63z) with ((z + two63z) mod two64z + (- two63z)) by lia.
  rewrite Zplus_mod_idemp_l. f_equal. lia.
Qed.

Definition zz (z : Z) : Z := if 0 <=? z then 2 * z else - 2 * z - 1.

Lemma zig_zag_arith z : in_i64 z -> Z.of_N (zig_zag_i64 z) = zz z /\ 0 <= zz z < two64z.
Proof.
  intros H. unfold zig_zag_i64, zz.
  assert (H64 : 0 < two64z) by (unfold two64z; lia).
  rewrite Z2N.id by (apply Z.mod_pos_bound; auto).
  rewrite Z.shiftl_mul_pow2, Z.shiftr_div_pow2 by lia.
  change (2 ^ 1) with 2. change (2 ^ 63) with two63z.
  unfold in_i64 in H.
  destruct (Z.leb_spec 0 z) as [Hz|Hz].
  - rewrite Z.div_small by lia. rewrite Z.lxor_0_r, wrap_i64_mod.
    unfold two63z, two64z in *. rewrite Z.mod_small; lia.
  - replace (z / two63z) with (-1).
    2:{ apply Z.div_unique with (r := z + two63z); unfold two63z in *; lia. }
    rewrite Z.lxor_m1_r. unfold Z.lnot.
    assert (Hm : Z.pred (- wrap_i64 (z * 2)) mod two64z = (- 2 * z - 1) mod two64z).
    { replace (Z.pred (- wrap_i64 (z * 2))) with (-1 * wrap_i64 (z * 2) + (-1)) by lia.
      rewrite <- Zplus_mod_idemp_l, <- Zmult_mod_idemp_r, wrap_i64_mod, Zmult_mod_idemp_r, Zplus_mod_idemp_l.
      f_equal. lia. }
    rewrite Hm. unfold two63z, two64z in *. rewrite Z.mod_small; lia.
Qed.

Lemma zig_zag_range z : in_i64 z -> in_u64 (zig_zag_i64 z).
Proof.
  intros H. destruct (zig_zag_arith z H) as [He Hr]. unfold in_u64, two64. unfold two64z in Hr. lia.
Qed.

Lemma de_zig_zag_arith n : in_u64 n ->
  de_zig_zag_i64 n = (if Z.even (Z.of_N n) then Z.of_N n / 2 else - (Z.of_N n / 2) - 1).
Proof.
  unfold in_u64, two64. intros Hn. unfold de_zig_zag_i64.
  rewrite N.shiftr_div_pow2. change (2 ^ 1)%N with 2%N.
  change 1%N with (N.ones 1) at 1. rewrite N.land_ones. change (2 ^ 1)%N with 2%N.
  rewrite N2Z.inj_div, N2Z.inj_mod. change (Z.of_N 2) with 2.
  assert (Hh : in_i64 (Z.of_N n / 2)).
  { unfold in_i64, two63z. split; [apply Z.le_trans with 0; [lia|apply Z.div_pos; lia]|].
    apply Z.div_lt_upper_bound; lia. }
  rewrite (wrap_i64_id _ Hh).
  rewrite Zmod_even. destruct (Z.even (Z.of_N n)).
  - rewrite wrap_i64_id by (unfold in_i64, two63z; lia). apply Z.lxor_0_r.
  - rewrite wrap_i64_id by (unfold in_i64, two63z; lia). rewrite Z.lxor_m1_r. unfold Z.lnot. lia.
Qed.

Definition zigzag_roundtrip_stmt : Prop :=
  (forall z : Z, in_i64 z -> de_zig_zag_i64 (zig_zag_i64 z) = z /\ in_u64 (zig_zag_i64 z))
  /\ (forall n : N, in_u64 n -> zig_zag_i64 (de_zig_zag_i64 n) = n /\ in_i64 (de_zig_zag_i64 n)).

Lemma zigzag_roundtrip_proof : zigzag_roundtrip_stmt.
Proof.
  split.
  - intros z H. split; [|apply zig_zag_range; auto].
    destruct (zig_zag_arith z H) as [He Hr].
    rewrite de_zig_zag_arith by (apply zig_zag_range; auto). rewrite He. unfold zz.
    destruct (Z.leb_spec 0 z).
    + replace (2 * z) with (0 + 2 * z) by lia. rewrite Z.even_add_mul_2. cbn [Z.even].
      replace (0 + 2 * z) with (z * 2) by lia. apply Z.div_mul; lia.
    + replace (- 2 * z - 1) with (1 + 2 * (- z - 1)) by lia. rewrite Z.even_add_mul_2. cbn [Z.even].
      replace (1 + 2 * (- z - 1)) with ((- z - 1) * 2 + 1) by lia.
      rewrite Z.div_add_l by lia. change (1 / 2) with 0. lia.
  - intros n Hn. pose proof (de_zig_zag_arith n Hn) as Hd.
    assert (Hr : in_i64 (de_zig_zag_i64 n)).
    { rewrite Hd. unfold in_u64, two64 in Hn. unfold in_i64, two63z.
      pose proof (Z.div_mod (Z.of_N n) 2 ltac:(lia)) as Hdm.
      pose proof (Z.mod_pos_bound (Z.of_N n) 2 ltac:(lia)).
      destruct (Z.even (Z.of_N n)); lia. }
    split; auto.
    destruct (zig_zag_arith _ Hr) as [He _]. apply N2Z.inj. rewrite He, Hd. unfold zz.
    pose proof (Z.div_mod (Z.of_N n) 2 ltac:(lia)) as Hdm.
    pose proof (Zmod_even (Z.of_N n)) as Hev.
    assert (0 <= Z.of_N n / 2) by (apply Z.div_pos; lia).
    destruct (Z.even (Z.of_N n)).
    + destruct (Z.leb_spec 0 (Z.of_N n / 2)); lia.
    + destruct (Z.leb_spec 0 (- (Z.of_N n / 2) - 1)); lia.
Qed.

Close Scope Z_scope.

(** ** i64 = zig-zag + varint *)
Lemma i64_roundtrip z rest : in_i64 z -> take_i64 (push_i64 z ++ rest) = TSome z rest.
Proof.
  intros H. unfold take_i64, push_i64.
  rewrite varint_roundtrip_proof by (apply zig_zag_range; auto).
  f_equal. apply zigzag_roundtrip_proof; auto.
Qed.

Lemma u64_prefix v p q : varint_u64 v = p ++ q -> q <> [] -> take_u64 p = TEnd.
Proof. intros. unfold take_u64. eapply take_varint_prefix; eauto. Qed.

Lemma i64_prefix z p q : push_i64 z = p ++ q -> q <> [] -> take_i64 p = TEnd.
Proof. intros He Hq. unfold take_i64. rewrite (u64_prefix _ _ _ He Hq). reflexivity. Qed.

(** ** length-prefixed bytes *)
Lemma take_n_app b rest : take_n (N.of_nat (length b)) (b ++ rest) = Some (b, rest).
Proof.
  unfold take_n. rewrite app_length.
  destruct (N.leb_spec (N.of_nat (length b)) (N.of_nat (length b + length rest))); [|lia].
  rewrite Nat2N.id, firstn_app, Nat.sub_diag, firstn_all, skipn_app, Nat.sub_diag, skipn_all.
  cbn. rewrite app_nil_r. reflexivity.
Qed.

Lemma take_n_short n bs : N.of_nat (length bs) < n -> take_n n bs = None.
Proof. intros H. unfold take_n. destruct (N.leb_spec n (N.of_nat (length bs))); [lia|reflexivity]. Qed.

Lemma bytes_roundtrip b rest :
  N.of_nat (length b) < two64 -> take_bytes (push_bytes b ++ rest) = TSome b rest.
Proof.
  intros H. unfold take_bytes, push_bytes. rewrite <- app_assoc.
  rewrite varint_roundtrip_proof by auto. rewrite take_n_app. reflexivity.
Qed.

Lemma bytes_prefix b p q :
  N.of_nat (length b) < two64 -> push_bytes b = p ++ q -> q <> [] -> take_bytes p = TEnd.
Proof.
  intros Hl He Hq. unfold take_bytes, push_bytes in *.
  set (L := varint_u64 (N.of_nat (length b))) in *.
  (* either [p] ends inside the length, or it is the whole length plus a strict prefix of [b] *)
  destruct (app_eq_app _ _ _ _ He) as (l & [[HL Hq'] | [Hp Hb]]).
  - destruct l as [|x l].
    + rewrite app_nil_r in HL. subst p. cbn [app] in Hq'. subst q.
      unfold L. rewrite <- (app_nil_r (varint_u64 _)), varint_roundtrip_proof by auto.
      rewrite take_n_short; [reflexivity|]. destruct b; [congruence|]. cbn [length]. lia.
    + rewrite (u64_prefix (N.of_nat (length b)) p (x :: l)); [reflexivity|exact HL|discriminate].
  - subst p. unfold L. rewrite varint_roundtrip_proof by auto.
    rewrite take_n_short; [reflexivity|].
    rewrite Hb, app_length. destruct q; [congruence|]. cbn [length]. lia.
Qed.

Lemma push_bytes_ok b : bytes_ok b -> bytes_ok (push_bytes b).
Proof. intros H. unfold push_bytes. apply Forall_app. split; auto. apply varint_bytes_ok. Qed.

Lemma push_i64_ok z : bytes_ok (push_i64 z).
Proof. apply varint_bytes_ok. Qed.

(** Non-vacuity / sanity: concrete encodings at the ends of the range. *)
Example varint_examples :
  varint_u64 0 = [0] /\ varint_u64 300 = [172; 2]
  /\ varint_u64 (two64 - 1) = [255;255;255;255;255;255;255;255;255;1]
  /\ push_i64 (-1)%Z = [1] /\ push_i64 (- two63z)%Z = [255;255;255;255;255;255;255;255;255;1]
  /\ take_u64 [255;255;255;255;255;255;255;255;255;2] = TNone
  /\ take_u64 [128;0] = TSome 0 [].
Proof. repeat split; vm_compute; reflexivity. Qed.
