(** The command graph a store represents (skip lists NOT consulted), the
    layout invariant [store_ok], and the facts the search proofs need. *)
From Aranya Require Import base.Tactics gen.GenQueue model.TravQueue model.SegStore
  proofs.TravQueueVec proofs.TravQueueMoves proofs.TravQueueSpec.

(** * Locations, parents, reachability *)

(** [l] addresses a command of segment [idx] = [s]. *)
Definition in_seg (idx : N) (s : segment) (l : loc) : Prop :=
  lseg l = idx /\ (s_mc s <= lmc l)%N /\ (lmc l < s_mc s + N.of_nat (length (s_ids s)))%N.

(** [l] is the location of a stored command. *)
Definition valid (st : store) (l : loc) : Prop :=
  exists s, get_segment st l = Some s /\ in_seg (lseg l) s l.

(** The id stored at a location. *)
Definition id_at (st : store) (l : loc) : option N :=
  match get_segment st l with Some s => get_command (lseg l) s l | None => None end.

(** The parent locations of the command at [l]: the previous command of the
    segment, or the segment's prior location(s) for its first command.  This
    is the graph; it does not mention skip lists. *)
Definition parents (st : store) (l : loc) : list loc :=
  match get_segment st l with
  | None => []
  | Some s => if (s_mc s <? lmc l)%N then [{| lmc := lmc l - 1; lseg := lseg l |}]
              else prior_list (s_prior s)
  end.

(** [reach st a b]: [b] is an ancestor-or-equal of [a]. *)
Inductive reach (st : store) : loc -> loc -> Prop :=
| reach_refl a : reach st a a
| reach_step a p b : In p (parents st a) -> reach st p b -> reach st a b.

(** proper ancestor *)
Definition panc (st : store) (a b : loc) : Prop := reach st a b /\ a <> b.

(** [d] is an ancestor of [c] through which every ancestor of [c] with a
    max cut not above [d]'s is reached (what a dominator with its max cut
    gives): exactly the condition under which jumping from [c] to [d] cannot
    miss a target with max cut <= [lmc d]. *)
Definition funnel (st : store) (c d : loc) : Prop :=
  reach st c d /\ forall t, reach st c t -> (lmc t <= lmc d)%N -> reach st d t.

(** * The layout invariant *)
Definition seg_ok (st : store) (idx : N) (s : segment) : Prop :=
  s_ids s <> []
  /\ (forall p, In p (prior_list (s_prior s)) -> valid st p /\ (lmc p < s_mc s)%N)
  /\ (forall k, In k (s_skip s) ->
        valid st k /\ (lmc k < s_mc s)%N /\ funnel st (first_location idx s) k).

Definition store_ok (st : store) : Prop :=
  forall idx s, lookup idx st = Some s -> seg_ok st idx s.

(** * Basic facts *)
Lemma loc_eta l : {| lmc := lmc l; lseg := lseg l |} = l.
Proof. destruct l; reflexivity. Qed.

Lemma get_command_some idx s l i :
  get_command idx s l = Some i <->
  in_seg idx s l /\ nth_error (s_ids s) (N.to_nat (lmc l - s_mc s)) = Some i.
Proof.
  unfold get_command, in_seg. destruct (N.eqb_spec idx (lseg l)); cbn [negb].
  - destruct (N.ltb_spec (lmc l) (s_mc s)).
    + split; [discriminate|]. intros [(_ & ? & _) _]. lia.
    + split.
      * intro H0. split; auto. apply nth_error_Some_lt in H0. repeat split; auto; lia.
      * tauto.
  - split; [discriminate|]. intros [(? & _) _]. congruence.
Qed.

Lemma get_command_in_seg idx s l : in_seg idx s l -> exists i, get_command idx s l = Some i.
Proof.
  intros (H1 & H2 & H3).
  destruct (nth_error_lt_Some (s_ids s) (N.to_nat (lmc l - s_mc s))) as [i Hi]; [lia|].
  exists i. apply get_command_some. repeat split; auto.
Qed.

Lemma valid_id_at st l : valid st l <-> exists i, id_at st l = Some i.
Proof.
  unfold valid, id_at. split.
  - intros (s & -> & Hin). now apply get_command_in_seg.
  - intros [i Hi]. destruct (get_segment st l) as [s|]; [|discriminate].
    exists s. split; auto. now apply get_command_some in Hi.
Qed.

Section WithStore.
Variable st : store.
Hypothesis Hok : store_ok st.

Lemma seg_of l s : get_segment st l = Some s -> seg_ok st (lseg l) s.
Proof. intro H. apply Hok. exact H. Qed.

Lemma parents_valid a p : valid st a -> In p (parents st a) -> valid st p /\ (lmc p < lmc a)%N.
Proof.
  intros (s & Hs & (_ & H1 & H2)) Hp. unfold parents in Hp. rewrite Hs in Hp.
  destruct (N.ltb_spec (s_mc s) (lmc a)).
  - destruct Hp as [<-|[]]. cbn. split; [|lia].
    exists s. unfold get_segment in *. cbn. split; auto. repeat split; cbn; lia.
  - destruct (seg_of a s Hs) as (_ & Hpr & _). destruct (Hpr p Hp). split; auto. lia.
Qed.

Lemma reach_valid a b : reach st a b -> valid st a -> valid st b /\ (lmc b <= lmc a)%N /\ (a <> b -> (lmc b < lmc a)%N).
Proof.
  induction 1 as [a|a p b Hp Hr IH]; intro Hv.
  - split; auto. split; [lia|congruence].
  - destruct (parents_valid a p Hv Hp) as [Hvp Hlt]. destruct (IH Hvp) as (Hvb & Hle & _).
    split; auto. split; lia.
Qed.

Lemma reach_trans a b c : reach st a b -> reach st b c -> reach st a c.
Proof. induction 1; auto. intro. econstructor; eauto. Qed.

(** inside a segment: from a command down to any earlier command of the segment *)
Lemma reach_in_seg s : forall (d : nat) a,
  get_segment st a = Some s -> (s_mc s + N.of_nat d <= lmc a)%N ->
  reach st a {| lmc := lmc a - N.of_nat d; lseg := lseg a |}.
Proof.
  induction d as [|d IH]; intros a Hs Hd.
  - replace (lmc a - N.of_nat 0)%N with (lmc a) by lia. rewrite loc_eta. constructor.
  - apply reach_step with (p := {| lmc := lmc a - 1; lseg := lseg a |}).
    + unfold parents. rewrite Hs. destruct (N.ltb_spec (s_mc s) (lmc a)); [left; reflexivity|lia].
    + specialize (IH {| lmc := lmc a - 1; lseg := lseg a |}). cbn [lmc lseg] in IH.
      replace (lmc a - N.of_nat (S d))%N with (lmc a - 1 - N.of_nat d)%N by lia.
      apply IH; [exact Hs|lia].
Qed.

Lemma reach_same_seg s a m :
  get_segment st a = Some s -> (s_mc s <= m)%N -> (m <= lmc a)%N ->
  reach st a {| lmc := m; lseg := lseg a |}.
Proof.
  intros Hs H1 H2. pose proof (reach_in_seg s (N.to_nat (lmc a - m)) a Hs) as H.
  replace (lmc a - N.of_nat (N.to_nat (lmc a - m)))%N with m in H by lia. apply H. lia.
Qed.

(** an ancestor of a command of segment [s] is in the segment (below it) or behind a prior *)
Lemma reach_cases s : forall a t,
  reach st a t -> get_segment st a = Some s -> (s_mc s <= lmc a)%N ->
  (lseg t = lseg a /\ (s_mc s <= lmc t)%N /\ (lmc t <= lmc a)%N)
  \/ exists p, In p (prior_list (s_prior s)) /\ reach st p t.
Proof.
  induction 1 as [a|a p b Hp Hr IH]; intros Hs Hge.
  - left. repeat split; auto; lia.
  - unfold parents in Hp. rewrite Hs in Hp. destruct (N.ltb_spec (s_mc s) (lmc a)).
    + destruct Hp as [<-|[]]. cbn [lmc lseg] in IH.
      assert (Hge' : (s_mc s <= lmc a - 1)%N) by lia.
      destruct (IH Hs Hge') as [(E1 & E2 & E3)|Hr'].
      * left. repeat split; auto. lia.
      * right. exact Hr'.
    + right. exists p. split; auto.
Qed.

Lemma first_parents idx s : lookup idx st = Some s -> parents st (first_location idx s) = prior_list (s_prior s).
Proof.
  intro H. unfold parents, get_segment, first_location. cbn [lseg lmc]. rewrite H.
  destruct (N.ltb_spec (s_mc s) (s_mc s)); [lia|reflexivity].
Qed.

(** from a command to the first command of its segment is a funnel *)
Lemma funnel_first s a :
  get_segment st a = Some s -> (s_mc s <= lmc a)%N -> funnel st a (first_location (lseg a) s).
Proof.
  intros Hs Hge. split.
  - apply (reach_same_seg s a (s_mc s)); auto; lia.
  - intros t Hr Hle. cbn [first_location lmc] in Hle.
    destruct (reach_cases s a t Hr Hs Hge) as [(E1 & E2 & E3)|(p & Hp & Hrp)].
    + assert (t = first_location (lseg a) s) as ->; [|constructor].
      destruct t; unfold first_location; cbn in *. f_equal; [lia|auto].
    + eapply reach_step; [|exact Hrp]. rewrite first_parents; auto.
Qed.

Lemma funnel_refl a : funnel st a a.
Proof. split; [constructor|auto]. Qed.

Lemma funnel_trans a b c : valid st a -> funnel st a b -> funnel st b c -> funnel st a c.
Proof.
  intros Hv [R1 F1] [R2 F2]. split; [eapply reach_trans; eauto|].
  intros t Ht Hle. apply F2; auto. apply F1; auto.
  destruct (reach_valid a b R1 Hv) as (Hvb & _). destruct (reach_valid b c R2 Hvb) as (_ & Hcb & _). lia.
Qed.

(** the single prior of a segment is a funnel of its first command *)
Lemma funnel_single_prior idx s p :
  lookup idx st = Some s -> s_prior s = PSingle p -> funnel st (first_location idx s) p.
Proof.
  intros Hl Hp. destruct (Hok idx s Hl) as (_ & Hpr & _). rewrite Hp in Hpr. cbn in Hpr.
  destruct (Hpr p (or_introl eq_refl)) as [Hvp Hlt].
  split.
  - eapply reach_step; [|constructor]. rewrite first_parents, Hp; auto. left; auto.
  - intros t Hr Hle. inversion Hr; subst.
    + cbn in Hle. lia.
    + rewrite first_parents, Hp in H; auto. destruct H as [<-|[]]. auto.
Qed.

(** the soundness of a skip-list jump *)
Lemma skip_sound s a k t :
  get_segment st a = Some s -> (s_mc s <= lmc a)%N -> In k (s_skip s) ->
  reach st a t -> (lmc t <= lmc k)%N -> reach st k t.
Proof.
  intros Hs Hge Hk Hr Hle.
  destruct (seg_of a s Hs) as (_ & _ & Hsk). destruct (Hsk k Hk) as (Hvk & Hlt & [_ Hf]).
  apply Hf; auto. destruct (funnel_first s a Hs Hge) as [_ Hff]. apply Hff; auto.
  cbn [first_location lmc]. lia.
Qed.

(** * Enumerating the locations (for the fuel bound) *)
Definition seg_locs (x : N * segment) : list loc :=
  map (fun i => {| lmc := s_mc (snd x) + N.of_nat i; lseg := fst x |}) (seq 0 (length (s_ids (snd x)))).
Definition all_locs (s : store) : list loc := flat_map seg_locs s.

Lemma lookup_in idx (s0 : store) s : lookup idx s0 = Some s -> In (idx, s) s0.
Proof.
  induction s0 as [|[i x] r IH]; cbn [lookup]; [discriminate|].
  destruct (N.eqb_spec i idx); intro H.
  - inv H. left; reflexivity.
  - right; auto.
Qed.

Lemma valid_in_all_locs l : valid st l -> In l (all_locs st).
Proof.
  intros (s & Hs & (_ & H1 & H2)). unfold all_locs. apply in_flat_map.
  exists (lseg l, s). split; [apply lookup_in; exact Hs|].
  unfold seg_locs. cbn [fst snd]. apply in_map_iff. exists (N.to_nat (lmc l - s_mc s)). split.
  - destruct l as [m sg]; cbn [lmc lseg] in *. f_equal. lia.
  - apply in_seq. lia.
Qed.

End WithStore.

Lemma all_locs_length s : length (all_locs s) = store_size s.
Proof.
  induction s as [|x r IH]; [reflexivity|]. unfold all_locs in *. cbn [flat_map store_size fold_right].
  rewrite app_length, IH. unfold seg_locs. rewrite map_length, seq_length. reflexivity.
Qed.

Lemma filter_length_le {A} (f g : A -> bool) l :
  (forall x, In x l -> f x = true -> g x = true) -> length (filter f l) <= length (filter g l).
Proof.
  induction l as [|x l IH]; intro H; cbn; auto.
  assert (IH' := IH (fun y Hy => H y (or_intror Hy))).
  destruct (f x) eqn:Ef.
  - rewrite (H x (or_introl eq_refl) Ef). cbn. lia.
  - destruct (g x); cbn; lia.
Qed.

Lemma filter_length_lt {A} (f g : A -> bool) l w :
  (forall x, In x l -> f x = true -> g x = true) -> In w l -> f w = false -> g w = true ->
  length (filter f l) < length (filter g l).
Proof.
  induction l as [|x l IH]; intros H Hw Hf Hg; [destruct Hw|]. cbn.
  assert (Hle := filter_length_le f g l (fun y Hy => H y (or_intror Hy))).
  destruct Hw as [->|Hw].
  - rewrite Hf, Hg. cbn. lia.
  - assert (IH' := IH (fun y Hy => H y (or_intror Hy)) Hw Hf Hg).
    destruct (f x) eqn:Ef.
    + rewrite (H x (or_introl eq_refl) Ef). cbn. lia.
    + destruct (g x); cbn; lia.
Qed.
