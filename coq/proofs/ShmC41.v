(** C41 (removal takes effect) and C40 (sequence numbers) for the shared-memory state. *)
From Coq Require Import String.
From Aranya Require Import gen.GenShm base.Tactics base.Sched model.Shm
  proofs.ShmLists proofs.ShmSteps proofs.ShmProofs proofs.ShmReaders.
From Coq Require Import Permutation.

(** ** What a removal leaves behind *)
Definition rpost (op : wop) (l : list chan) : Prop :=
  match op with
  | WRemove rid => ~ In rid (ids l)
  | WRemoveIf p => forall c, In c l -> papply p c = false
  | WRemoveAll => l = []
  | _ => True
  end.

(** the last returned call's post-condition holds on both sides until the next
    call's first section runs; inside a call it holds on the side already edited *)
Definition postinv (g : G) : Prop :=
  let m := sh g in let w := wt g in
  let idle := match wlog w with
              | (op, _) :: _ => rpost op (chans (sA m)) /\ rpost op (chans (sB m))
              | [] => True
              end in
  match wprog w with
  | [] => idle
  | op :: _ =>
      match wpc_ w with
      | W4 | W5 => rpost op (chans (side_of m (w_w w)))
      | W6 => rpost op (chans (sA m)) /\ rpost op (chans (sB m))
      | _ => idle
      end
  end.

Lemma post_rpost op id s : post op id s -> rpost op (chans s).
Proof. destruct op; cbn; auto. Qed.

Lemma postinv_wstep cap g : inv cap g -> postinv g -> postinv (wstep g).
Proof.
  intros Hinv Hp. pose proof Hinv as (Hw & Hi & _). unfold postinv, winv in *. unfold wstep.
  revert Hp Hw. destruct (wprog (wt g)) as [|op rest] eqn:Ep; intros Hp Hw; [cbn; rewrite ?Ep; exact Hp|].
  revert Hp Hw. destruct (wpc_ (wt g)) eqn:Epc; intros Hp Hw.
  - cbn. rewrite ?Ep. destruct op; exact Hp.
  - cbn. rewrite ?Ep. exact Hp.
  - cbn. rewrite ?Ep. exact Hp.
  - (* W3 *)
    destruct Hw as [[Hsync _] _]. destruct Hi as [HA HB _ _ _ _ _ Hpend _].
    assert (Hside : forall o, side_of (sh g) o = sA (sh g)) by (intros []; cbn; congruence).
    destruct (sec1 op (w_id (wt g)) (side_of (sh g) (w_w (wt g)))) as [r|s' idx] eqn:E1.
    + cbn. apply sec1_fin in E1. rewrite Hside in E1.
      assert (Hidle : rpost op (chans (sA (sh g))) /\ rpost op (chans (sB (sh g)))).
      { rewrite <- Hsync. destruct op; cbn in *; try tauto.
        destruct E1 as [_ ->]. split; intros c []. }
      rewrite Ep. cbn. destruct rest; cbn; exact Hidle.
    + cbn [sh wt wprog wpc_ w_w]. rewrite side_set_same.
      pose proof (sec1_go _ _ _ _ _ E1) as (_ & _ & _ & _ & Hndp & _).
      destruct (side_ok_both cap _ HA HB (w_w (wt g))) as (_ & _ & Hnd).
      destruct (Hndp Hnd) as [_ Hpost].
      * intros c Hc Hin. destruct op; cbn in Hc; try tauto. destruct Hc as [<-|[]]. cbn in Hin.
        apply Hpend; [unfold add_pending; rewrite Ep, Epc; reflexivity|].
        unfold ids in *. rewrite in_map_iff in *. destruct Hin as (c & Hc & Hin). exists c. split; auto.
        destruct Hinv as (_ & [_ _ Hreg _ _ _ _ _ _] & _). apply Hreg.
        destruct (w_w (wt g)); cbn in Hin; auto.
      * eapply post_rpost; eauto.
  - cbn. rewrite ?Ep. exact Hp.
  - (* W5 *)
    destruct Hw as (_ & _ & H3 & H2). rewrite H3, H2. cbn. rewrite ?Ep.
    destruct (w_w (wt g)); cbn in *; auto.
  - (* W6 *)
    cbn. rewrite ?Ep. cbn. destruct rest; exact Hp.
Qed.

Lemma postinv_step cap t g : inv cap g -> postinv g -> postinv (step t g).
Proof. destruct t; [apply postinv_wstep|]. intros _ H. exact H. Qed.

Lemma postinv_runs cap smax wp rps sched : postinv (runs sched (init cap smax wp rps)).
Proof.
  pose proof (run_invariant G step (fun g => inv cap g /\ postinv g)) as H.
  apply H.
  - intros t g [H1 H2]. split; [apply inv_step; auto|eapply postinv_step; eauto].
  - split; [apply inv_init|]. unfold postinv. cbn. destruct wp; exact I.
Qed.

(** C41, first half: when a removal has returned (and until the next call edits
    the table) the removed channels are in neither copy *)
Definition removal_returns_clean_stmt : Prop :=
  forall (cap smax : N) (wp : list wop) (rps : list (list rop)) (sched : list nat) op r rest,
  let g := runs sched (init cap smax wp rps) in
  wlog (wt g) = (op, r) :: rest -> writer_idle (wt g) ->
  rpost op (chans (sA (sh g))) /\ rpost op (chans (sB (sh g))).

Lemma removal_returns_clean_proof : removal_returns_clean_stmt.
Proof.
  intros cap smax wp rps sched op r rest g Hlog Hidle.
  pose proof (postinv_runs cap smax wp rps sched) as Hp. fold g in Hp.
  unfold postinv, writer_idle in *. rewrite Hlog in Hp.
  destruct (wprog (wt g)); auto. destruct (wpc_ (wt g)); auto; tauto.
Qed.

(** ** Removed channels stay removed *)
Definition gone (id : N) (g : G) : Prop :=
  In id (ids (reg g)) /\ ~ In id (ids (chans (sA (sh g)))) /\ ~ In id (ids (chans (sB (sh g)))).

Lemma gone_wstep cap id g : inv cap g -> gone id g -> gone id (wstep g).
Proof.
  intros Hinv (Hr & HA & HB). pose proof Hinv as (Hw & Hi & _).
  split; [unfold ids in *; rewrite in_map_iff in *; destruct Hr as (c & Hc & Hin); exists c; split; auto;
          apply reg_wstep_incl; auto|].
  unfold wstep. destruct (wprog (wt g)) as [|op rest] eqn:Ep; auto.
  unfold winv in Hw. rewrite Ep in Hw.
  destruct (wpc_ (wt g)) eqn:Epc; auto.
  - (* W3 *)
    destruct (sec1 op (w_id (wt g)) (side_of (sh g) (w_w (wt g)))) as [r|s' idx] eqn:E1; auto.
    pose proof (sec1_go _ _ _ _ _ E1) as (_ & _ & _ & Hsub & _).
    destruct Hi as [_ _ _ _ _ _ _ Hpend _].
    assert (Hs' : ~ In id (ids (chans s'))).
    { unfold ids. rewrite in_map_iff. intros (c & Hc & Hin). apply Hsub in Hin as [Hin|Hin].
      - destruct (w_w (wt g)); cbn in Hin; [apply HA|apply HB]; rewrite <- Hc; apply in_map; auto.
      - destruct op; cbn in Hin; try tauto. destruct Hin as [<-|[]]. cbn in Hc.
        apply Hpend; [unfold add_pending; rewrite Ep, Epc; reflexivity|]. rewrite Hc. exact Hr. }
    cbn [sh]. destruct (w_w (wt g)); cbn; auto.
  - (* W5 *)
    destruct Hw as (_ & _ & H3 & H2). rewrite H3, H2. cbn [sh with_sh_wt].
    destruct (w_w (wt g)); cbn; auto.
Qed.

Lemma gone_step cap id t g : inv cap g -> gone id g -> gone id (step t g).
Proof. destruct t; [apply gone_wstep|]. intros _ H. exact H. Qed.

Lemma gone_runs cap id sched g : inv cap g -> gone id g -> gone id (runs sched g).
Proof.
  intros Hi Hg.
  pose proof (run_invariant G step (fun g => inv cap g /\ gone id g)) as H.
  apply H; auto. intros t g' [H1 H2]. split; [apply inv_step; auto|eapply gone_step; eauto].
Qed.

(** a removal that has returned leaves the channel [gone], if it ever existed *)
Lemma removed_gone cap smax wp rps sched id r rest :
  let g := runs sched (init cap smax wp rps) in
  wlog (wt g) = (WRemove id, r) :: rest -> writer_idle (wt g) -> In id (ids (reg g)) -> gone id g.
Proof.
  intros g Hlog Hidle Hreg.
  destruct (removal_returns_clean_proof cap smax wp rps sched _ _ _ Hlog Hidle) as [H1 H2].
  split; auto.
Qed.

(** ** Calls on a gone channel fail *)
Definition failing (op : rop) (res : rres) : Prop :=
  match op with
  | RSeal _ _ | ROpen _ _ _ _ => res = RNotFound \/ res = RKeyExpired \/ res = RInvalid
  | RSetup _ _ => res = RNotFound \/ res = RInvalid
  | RExists _ => res = RBool false \/ res = RInvalid
  end.

(** a log entry is harmless for [id]: it failed, or it belongs to a context of another channel *)
Definition good (id : N) (cs : list ctx) (e : rop * rres) : Prop :=
  let '(op, res) := e in
  match op with
  | RSetup _ i | RExists i => i = id -> failing op res
  | RSeal c _ | ROpen c _ _ _ => failing op res \/ exists x, nth_error cs c = Some x /\ xid x <> id
  end.

Lemma not_in_ids_chan_ok l id o c : ~ In id (ids l) -> In c l -> chan_ok id o c = false.
Proof.
  intros Hn Hin. unfold chan_ok. destruct (cid c =? id)%N eqn:E; auto.
  apply N.eqb_eq in E. exfalso. apply Hn. rewrite <- E. apply in_map; auto.
Qed.

Lemma gone_find id g o h op : gone id g -> find (chans (side_of (sh g) o)) id h op = None.
Proof.
  intros (_ & HA & HB). apply find_none. intros c Hc.
  destruct o; cbn in Hc; [eapply not_in_ids_chan_ok with (l := chans (sA (sh g)))|eapply not_in_ids_chan_ok with (l := chans (sB (sh g)))]; eauto.
Qed.

Lemma rfin_good cap id g r op res cs :
  inv cap g -> nowrap g -> gone id g ->
  Forall (ctx_reg (reg g)) (rctxs r) -> Forall (cache_j (sh g)) (rctxs r) ->
  rfin (seqmax g) (sh g) r op res cs -> good id cs (op, res).
Proof.
  intros Hinv Hnw Hgone Hreg Hj Hf.
  assert (Hget : forall c d k, cache_of (rctxs r) c d = Some (Some k) ->
            exists x, nth_error (rctxs r) c = Some x /\ xdir x = d /\ xcache x = Some k
                      /\ kid k = xid x /\ cache_j (sh g) x).
  { intros c d k H. apply cache_of_some in H as (x & H1 & H2 & H3). exists x.
    split; [auto|]. split; [auto|]. split; [auto|].
    rewrite Forall_forall in Hreg, Hj. pose proof (nth_error_In _ _ H1) as Hin.
    split; [|apply Hj; auto]. destruct (Hreg x Hin) as [_ Hk]. destruct (Hk k H3); auto. }
  assert (Hside : forall o c, In c (chans (side_of (sh g) o)) -> cid c <> id).
  { intros o c Hc E. destruct Hgone as (_ & HA & HB).
    destruct o; cbn in Hc; [apply HA|apply HB]; rewrite <- E; apply in_map; auto. }
  (* a context at [c] after the call, whatever was stored there *)
  assert (Hset : forall c x y, nth_error (rctxs r) c = Some x -> xid y = xid x -> xid x <> id ->
            exists z, nth_error (set_ctx (rctxs r) c y) c = Some z /\ xid z <> id).
  { intros c x y Hn Hy Hne. exists y. rewrite set_ctx_nth, Nat.eqb_refl.
    replace (c <? length (rctxs r)) with true by (symmetry; apply Nat.ltb_lt, nth_error_Some; congruence).
    cbn. split; auto. congruence. }
  inv Hf; cbn [good failing]; auto.
  - (* seal hit: the cached generation matched, so the channel is in that side *)
    destruct (Hget _ _ _ H0) as (x & Hn & Hd & Hc & Hk & HJ).
    destruct (N.eq_dec (xid x) id) as [E|Hne]; [|right; eapply Hset; eauto].
    exfalso. destruct (HJ k Hc) as [_ Hfound].
    rewrite load_gen_nowrap in H1 by auto.
    destruct (Hfound (r_off r) H1) as (ch & Hin & Hid & _).
    eapply Hside; eauto. congruence.
  - (* seal miss *)
    destruct (Hget _ _ _ H0) as (x & Hn & Hd & Hc & Hk & HJ).
    apply find_some in H1 as [Hin Hok]. apply chan_ok_id in Hok.
    assert (Hne : xid x <> id) by (intros E; eapply Hside; eauto; congruence).
    right. destruct (fst (sealf (seqmax g) md (kseq k))); eauto.
  - (* open hit *)
    destruct (Hget _ _ _ H0) as (x & Hn & Hd & Hc & Hk & HJ).
    destruct (N.eq_dec (xid x) id) as [E|Hne]; [|right; eauto].
    exfalso. destruct (HJ k Hc) as [_ Hfound].
    rewrite load_gen_nowrap in H1 by auto.
    destruct (Hfound (r_off r) H1) as (ch & Hin & Hid & _).
    eapply Hside; eauto. congruence.
  - (* open miss *)
    destruct (Hget _ _ _ H0) as (x & Hn & Hd & Hc & Hk & HJ).
    apply find_some in H1 as [Hin Hok]. apply chan_ok_id in Hok.
    assert (Hne : xid x <> id) by (intros E; eapply Hside; eauto; congruence).
    right. destruct (open_ok (ckey ch) (clabel ch) key label valid); eauto.
  - (* setup found *)
    intros ->. exfalso. apply find_some in H0 as [Hin Hok]. apply chan_ok_id in Hok.
    eapply Hside; eauto.
  - (* exists *)
    intros ->. rewrite (gone_find id g); auto.
  - (* invalid *)
    destruct op; cbn; auto.
Qed.


(** a context keeps the channel it was set up for *)
Lemma rfin_xid_stable g r op res cs :
  Forall (ctx_reg (reg g)) (rctxs r) -> rfin (seqmax g) (sh g) r op res cs ->
  forall c x, nth_error (rctxs r) c = Some x -> exists x', nth_error cs c = Some x' /\ xid x' = xid x /\ xdir x' = xdir x.
Proof.
  intros Hreg Hf c0 x0 Hn0.
  assert (Hget : forall c d k, cache_of (rctxs r) c d = Some (Some k) ->
            exists x, nth_error (rctxs r) c = Some x /\ xdir x = d /\ kid k = xid x).
  { intros c d k H. apply cache_of_some in H as (x & H1 & H2 & H3). exists x. split; auto. split; auto.
    rewrite Forall_forall in Hreg. destruct (Hreg x (nth_error_In _ _ H1)) as [_ Hk]. destruct (Hk k H3); auto. }
  assert (Hset : forall c y x, nth_error (rctxs r) c = Some x -> xid y = xid x -> xdir y = xdir x ->
            exists x', nth_error (set_ctx (rctxs r) c y) c0 = Some x' /\ xid x' = xid x0 /\ xdir x' = xdir x0).
  { intros c y x Hn Hy Hd. rewrite set_ctx_nth.
    destruct ((c =? c0) && (c <? length (rctxs r))) eqn:E; [|eauto].
    apply andb_prop in E as [E _]. apply Nat.eqb_eq in E. subst c0.
    rewrite Hn in Hn0. inv Hn0. eauto. }
  inv Hf; eauto.
  - destruct (Hget _ _ _ H0) as (x & Hn & Hd & Hk). eapply Hset; eauto.
  - destruct (Hget _ _ _ H0) as (x & Hn & Hd & Hk). eapply Hset; eauto.
  - destruct (Hget _ _ _ H0) as (x & Hn & Hd & Hk).
    destruct (fst (sealf (seqmax g) md (kseq k))); eauto; eapply Hset; eauto.
  - destruct (Hget _ _ _ H0) as (x & Hn & Hd & Hk).
    destruct (open_ok (ckey ch) (clabel ch) key label valid); eauto; eapply Hset; eauto.
  - exists x0. rewrite nth_error_app1; auto. apply nth_error_Some. congruence.
Qed.

Lemma good_stable id cs cs' e :
  (forall c x, nth_error cs c = Some x -> exists x', nth_error cs' c = Some x' /\ xid x' = xid x /\ xdir x' = xdir x) ->
  good id cs e -> good id cs' e.
Proof.
  intros Hst. destruct e as [op res]. destruct op; cbn; auto.
  - intros [H|(x & Hn & Hne)]; auto. right. destruct (Hst _ _ Hn) as (x' & H1 & H2 & _). exists x'. split; auto. congruence.
  - intros [H|(x & Hn & Hne)]; auto. right. destruct (Hst _ _ Hn) as (x' & H1 & H2 & _). exists x'. split; auto. congruence.
Qed.

(** the log of a reader since a reference point, all entries harmless for [id] *)
Definition ext (id : N) (r1 r' : rthread) : Prop :=
  exists new, rlog r' = new ++ rlog r1 /\ Forall (good id (rctxs r')) new.

Definition since (id : N) (g1 g' : G) : Prop :=
  forall i r1, nth_error (rts g1) i = Some r1 -> exists r', nth_error (rts g') i = Some r' /\ ext id r1 r'.

Lemma since_step cap id g1 g' t :
  rinv cap g' -> jinv g' -> nowrap g' -> gone id g' -> since id g1 g' -> since id g1 (step t g').
Proof.
  intros (Hinv & _ & Hreg & _) Hj Hnw Hgone Hs i r1 Hn1.
  destruct (Hs i r1 Hn1) as (r' & Hn' & new & Hlog & Hgood).
  destruct t as [|j]; cbn [step].
  - destruct (rts_wstep g') as [-> _]. exists r'. split; auto. exists new. auto.
  - cbn [rstep rts]. destruct (Nat.eq_dec j i) as [->|Hne].
    + exists (rstep1 (seqmax g') (sh g') r'). split; [apply upd_nth_same; auto|].
      unfold reginv, jinv in *. rewrite Forall_forall in Hreg, Hj.
      pose proof (Hreg r' (nth_error_In _ _ Hn')) as Hr. pose proof (Hj r' (nth_error_In _ _ Hn')) as Hjr.
      destruct (rstep1_spec (seqmax g') (sh g') r') as [(E1 & E2 & _)|(op & res & cs & _ & Hf & ->)].
      * exists new. rewrite E1, E2. auto.
      * exists ((op, res) :: new). cbn [rlog rctxs r_finish]. split; [rewrite Hlog; reflexivity|].
        constructor; [eapply rfin_good; eauto|].
        eapply Forall_impl; [|exact Hgood]. intros e. apply good_stable.
        eapply rfin_xid_stable; eauto.
    + exists r'. split; [rewrite upd_nth_other; auto|]. exists new. auto.
Qed.

(** C41, second half: once a channel is gone, every call result that any reader
    logs from then on for that channel is a failure (NotFound; KeyExpired once a
    seal context has been emptied by an earlier NotFound), on every continuation
    of the schedule, as long as no generation counter has wrapped. *)
Definition targets (cs : list ctx) (op : rop) (id : N) : Prop :=
  match op with
  | RSetup _ i | RExists i => i = id
  | RSeal c _ | ROpen c _ _ _ => exists x, nth_error cs c = Some x /\ xid x = id
  end.

Definition removed_is_gone_stmt : Prop :=
  forall (cap smax : N) (wp : list wop) (rps : list (list rop)) (s1 s2 : list nat) (id : N),
  let g1 := runs s1 (init cap smax wp rps) in
  let g2 := runs s2 g1 in
  nowrap g2 ->                              (* generation < 2^32 on both sides at the end of the run *)
  gone id g1 ->                             (* e.g. a remove* of [id] has returned, see [removed_gone] *)
  gone id g2                                (* it never reappears *)
  /\ forall i r1 r2, nth_error (rts g1) i = Some r1 -> nth_error (rts g2) i = Some r2 ->
     exists new, rlog r2 = new ++ rlog r1
       /\ forall op res, In (op, res) new -> targets (rctxs r2) op id -> failing op res.

Lemma removed_is_gone_proof : removed_is_gone_stmt.
Proof.
  intros cap smax wp rps s1 s2 id g1 g2 Hnw Hgone.
  pose proof (rinv_runs cap smax wp rps s1) as Hr1. fold g1 in Hr1.
  assert (Hnw1 : nowrap g1) by (eapply nowrap_runs_back; exact Hnw).
  assert (Hj1 : jinv g1).
  { apply (jinv_run_from cap); auto.
    - pose proof (rinv_runs cap smax wp rps []) as H. exact H.
    - apply jinv_init. }
  pose proof (run_invariant_back G step
    (fun g => rinv cap g /\ jinv g /\ gone id g /\ since id g1 g) nowrap nowrap_back) as H.
  assert (Hstep : forall (t : nat) (g : G),
     (rinv cap g /\ jinv g /\ gone id g /\ since id g1 g) -> nowrap (step t g) ->
     (rinv cap (step t g) /\ jinv (step t g) /\ gone id (step t g) /\ since id g1 (step t g))).
  { intros t g (A & B & C & D) Hn. pose proof (nowrap_back _ _ Hn) as Hn0.
    pose proof A as (A1 & A2 & A3 & A4).
    split; [split; [apply inv_step; auto|]; split; [eapply specinv_step; eauto|];
            split; [eapply reginv_step; eauto|apply seqinv_step; auto]|].
    split; [eapply jinv_step; eauto|]. split; [eapply gone_step; eauto|].
    eapply since_step; eauto. }
  assert (Hstart : rinv cap g1 /\ jinv g1 /\ gone id g1 /\ since id g1 g1).
  { split; auto. split; auto. split; auto.
    intros i r1 Hn. exists r1. split; auto. exists []. split; auto. }
  destruct (H Hstep s2 g1 Hstart Hnw) as (Hr2 & Hj2 & Hg2 & Hs2).
  split; [exact Hg2|].
    intros i r1 r2 Hn1 Hn2. destruct (Hs2 i r1 Hn1) as (r' & Hn' & new & Hlog & Hgood).
    unfold g2, runs in Hn2. rewrite Hn' in Hn2. inv Hn2.
    exists new. split; auto. intros op res Hin Ht.
    rewrite Forall_forall in Hgood. specialize (Hgood _ Hin). cbn in Hgood.
    destruct op; cbn in *; auto.
    + destruct Hgood as [?|(x & Hx & Hne)]; auto. destruct Ht as (x' & Hx' & E). congruence.
    + destruct Hgood as [?|(x & Hx & Hne)]; auto. destruct Ht as (x' & Hx' & E). congruence.
Qed.

(** ** Channels that are not removed keep working, with their own keys *)
Definition pc_ok (r : rthread) : Prop :=
  match rprog r with
  | [] => True
  | op :: _ => rpc_ r = R2 -> match op with RSeal _ _ | ROpen _ _ _ _ => True | _ => False end
  end.

Lemma pc_ok_step smax m r : pc_ok r -> pc_ok (rstep1 smax m r).
Proof.
  unfold pc_ok, rstep1. destruct (rprog r) as [|op rest] eqn:Ep; [rewrite Ep; auto|].
  intros H.
  destruct (rpc_ r) eqn:Epc; destruct op; cbn;
    repeat (match goal with |- context [match ?x with _ => _ end] => destruct x eqn:? end; cbn);
    rewrite ?Ep; cbn; try (intros; discriminate); auto; try (exfalso; apply H; reflexivity).
Qed.

Definition pcinv (g : G) : Prop := Forall pc_ok (rts g).

Lemma pcinv_runs cap smax wp rps sched : pcinv (runs sched (init cap smax wp rps)).
Proof.
  unfold runs. apply run_invariant.
  - intros t g H. unfold pcinv in *. destruct t as [|i]; cbn [step].
    + destruct (rts_wstep g) as [-> _]. exact H.
    + cbn. apply Forall_upd_nth; auto. intros r _. apply pc_ok_step.
  - unfold pcinv, init. cbn. apply Forall_forall. intros r Hr. apply in_map_iff in Hr as (p & <- & _).
    unfold pc_ok. cbn. destruct p; auto. discriminate.
Qed.

(** The call of reader [i] that returns in state [g] (any reachable state, no
    hypothesis on generations), on a channel [ch] that is in both copies: *)
Definition untouched_keep_succeeding_stmt : Prop :=
  forall (cap smax : N) (wp : list wop) (rps : list (list rop)) (sched : list nat) i r op rest res cs ch,
  let g := runs sched (init cap smax wp rps) in
  nth_error (rts g) i = Some r -> rprog r = op :: rest ->
  rfin (seqmax g) (sh g) r op res cs ->
  In ch (chans (sA (sh g))) -> In ch (chans (sB (sh g))) ->
  match op with
  | RSeal c md =>
      forall x k, nth_error (rctxs r) c = Some x -> xdir x = DSeal -> xcache x = Some k -> xid x = cid ch ->
      res = RSealed c (fst (sealf (seqmax g) md (kseq k))) (ckey ch) (clabel ch)
  | ROpen c key label valid =>
      forall x k, nth_error (rctxs r) c = Some x -> xdir x = DOpen -> xcache x = Some k -> xid x = cid ch ->
      res = ROpened c (open_ok (ckey ch) (clabel ch) key label valid) (clabel ch)
  | RSetup d id => id = cid ch -> cdir ch = d -> res = RCtx (length (rctxs r))
  | RExists id => id = cid ch -> res = RBool true
  end.

Lemma cache_of_intro cs c x d : nth_error cs c = Some x -> xdir x = d -> cache_of cs c d = Some (xcache x).
Proof. intros H1 H2. unfold cache_of. rewrite H1, H2. destruct d; reflexivity. Qed.

Lemma untouched_keep_succeeding_proof : untouched_keep_succeeding_stmt.
Proof.
  intros cap smax wp rps sched i r op rest res cs ch g Hn Hprog Hf HA HB.
  pose proof (rinv_runs cap smax wp rps sched) as (Hinv & _ & Hreg & _). fold g in Hinv, Hreg.
  pose proof (pcinv_runs cap smax wp rps sched) as Hpc. fold g in Hpc.
  unfold reginv, pcinv in *. rewrite Forall_forall in Hreg, Hpc.
  pose proof (Hreg r (nth_error_In _ _ Hn)) as Hr. pose proof (Hpc r (nth_error_In _ _ Hn)) as Hp.
  rewrite Forall_forall in Hr.
  assert (Hside : forall o, In ch (chans (side_of (sh g) o))) by (intros []; auto).
  assert (Hchreg : In ch (reg g)) by (eapply side_in_reg with (o := OA); eauto).
  (* the registered channel of a context on [cid ch] is [ch] itself *)
  assert (Hown : forall c x k d, nth_error (rctxs r) c = Some x -> xdir x = d -> xcache x = Some k -> xid x = cid ch ->
            kid k = cid ch /\ cdir ch = d /\ kkey k = ckey ch /\ klabel k = clabel ch).
  { intros c x k d Hx Hd Hk Hid. destruct (Hr x (nth_error_In _ _ Hx)) as [_ Hc].
    destruct (Hc k Hk) as (E & c0 & H1 & H2 & H3 & H4 & H5).
    assert (c0 = ch) by (eapply reg_unique; eauto; congruence). subst c0. repeat split; congruence. }
  assert (Hfind : forall d h, cdir ch = d -> exists ch' j,
            find (chans (side_of (sh g) (r_off r))) (cid ch) h (op_of_dir d) = Some (ch', j) /\ ch' = ch).
  { intros d h Hd.
    assert (Hok : chan_ok (cid ch) (op_of_dir d) ch = true).
    { unfold chan_ok. rewrite N.eqb_refl, matches_spec. subst d. destruct (cdir ch); reflexivity. }
    destruct (find_present _ _ h _ _ (Hside (r_off r)) Hok) as (ch' & j & Hf').
    exists ch', j. split; auto. pose proof Hf' as Hf''. apply find_some in Hf'' as [Hin Hok'].
    eapply reg_unique; eauto. eapply side_in_reg; eauto. apply chan_ok_id in Hok'. auto. }
  inv Hf.
  - (* seal expired *) intros x k Hx Hd Hk _. rewrite (cache_of_intro _ _ _ _ Hx Hd), Hk in H0. discriminate.
  - (* seal hit *)
    intros x k' Hx Hd Hk Hid. rewrite (cache_of_intro _ _ _ _ Hx Hd), Hk in H0. inv H0.
    destruct (Hown _ _ _ _ Hx eq_refl Hk Hid) as (_ & _ & -> & ->). reflexivity.
  - (* seal gone: impossible *)
    intros x k' Hx Hd Hk Hid. rewrite (cache_of_intro _ _ _ _ Hx Hd), Hk in H0. inv H0.
    destruct (Hown _ _ _ _ Hx Hd Hk Hid) as (E & Hdir & _).
    destruct (Hfind DSeal (Some (kidx k)) Hdir) as (ch' & j & Hf' & _). cbn [op_of_dir] in Hf'. rewrite E in H1. congruence.
  - (* seal miss *)
    intros x k' Hx Hd Hk Hid. rewrite (cache_of_intro _ _ _ _ Hx Hd), Hk in H0. inv H0.
    destruct (Hown _ _ _ _ Hx Hd Hk Hid) as (E & Hdir & _).
    destruct (Hfind DSeal (Some (kidx k)) Hdir) as (ch' & j & Hf' & ->). cbn [op_of_dir] in Hf'.
    rewrite E in H1. rewrite Hf' in H1. inv H1. reflexivity.
  - intros x k Hx Hd Hk _. rewrite (cache_of_intro _ _ _ _ Hx Hd), Hk in H0. discriminate.
  - intros x k' Hx Hd Hk Hid. rewrite (cache_of_intro _ _ _ _ Hx Hd), Hk in H0. inv H0.
    destruct (Hown _ _ _ _ Hx eq_refl Hk Hid) as (_ & _ & -> & ->). reflexivity.
  - intros x k' Hx Hd Hk Hid. rewrite (cache_of_intro _ _ _ _ Hx Hd), Hk in H0. inv H0.
    destruct (Hown _ _ _ _ Hx Hd Hk Hid) as (E & Hdir & _).
    destruct (Hfind DOpen (Some (kidx k)) Hdir) as (ch' & j & Hf' & _). cbn [op_of_dir] in Hf'. rewrite E in H1. congruence.
  - intros x k' Hx Hd Hk Hid. rewrite (cache_of_intro _ _ _ _ Hx Hd), Hk in H0. inv H0.
    destruct (Hown _ _ _ _ Hx Hd Hk Hid) as (E & Hdir & _).
    destruct (Hfind DOpen (Some (kidx k)) Hdir) as (ch' & j & Hf' & ->). cbn [op_of_dir] in Hf'.
    rewrite E in H1. rewrite Hf' in H1. inv H1. reflexivity.
  - (* setup gone: impossible *)
    intros -> Hd. destruct (Hfind d None Hd) as (ch' & j & Hf' & _). congruence.
  - intros _ _. reflexivity.
  - (* exists *)
    intros ->. destruct (Hfind (cdir ch) None eq_refl) as (ch' & j & Hf' & _).
    assert (Hany : find (chans (side_of (sh g) (r_off r))) (cid ch) None OAny <> None).
    { intros Hnone. rewrite find_none in Hnone. specialize (Hnone ch (Hside _)).
      rewrite chan_ok_any, N.eqb_refl in Hnone. discriminate. }
    destruct (find (chans (side_of (sh g) (r_off r))) (cid ch) None OAny); [reflexivity|congruence].
  - (* invalid: excluded *)
    unfold pc_ok in Hp. rewrite Hprog in Hp.
    destruct op.
    + intros _ _. exfalso. apply Hp. auto.
    + intros x k Hx Hd Hk _. exfalso. apply (H k). rewrite (cache_of_intro _ _ _ _ Hx Hd), Hk. reflexivity.
    + intros x k Hx Hd Hk _. exfalso. apply (H k). rewrite (cache_of_intro _ _ _ _ Hx Hd), Hk. reflexivity.
    + intros _. exfalso. apply Hp. auto.
Qed.


(** whatever the state of the table, a seal that goes through uses the key and
    label registered for the channel its context was set up for *)
Definition seal_key_is_registered_stmt : Prop :=
  forall (cap smax : N) (wp : list wop) (rps : list (list rop)) (sched : list nat) i r c md c' fr key label cs,
  let g := runs sched (init cap smax wp rps) in
  nth_error (rts g) i = Some r ->
  rfin (seqmax g) (sh g) r (RSeal c md) (RSealed c' fr key label) cs ->
  exists x ch, nth_error (rctxs r) c = Some x /\ xdir x = DSeal
    /\ In ch (reg g) /\ cid ch = xid x /\ cdir ch = DSeal /\ ckey ch = key /\ clabel ch = label.

Lemma seal_key_is_registered_proof : seal_key_is_registered_stmt.
Proof.
  intros cap smax wp rps sched i r c md c' fr key label cs g Hn Hf.
  pose proof (rinv_runs cap smax wp rps sched) as (Hinv & _ & Hreg & _). fold g in Hinv, Hreg.
  unfold reginv in Hreg. rewrite Forall_forall in Hreg.
  pose proof (Hreg r (nth_error_In _ _ Hn)) as Hr. rewrite Forall_forall in Hr.
  inv Hf.
  - match goal with H : cache_of _ _ _ = _ |- _ => apply cache_of_some in H as (x & Hx & Hd & Hc) end.
    destruct (Hr x (nth_error_In _ _ Hx)) as [_ Hk]. destruct (Hk k Hc) as (E & ch & H1 & H2 & H3 & H4 & H5).
    exists x, ch. repeat split; auto; congruence.
  - match goal with H : cache_of _ _ _ = _ |- _ => apply cache_of_some in H as (x & Hx & Hd & Hc) end.
    match goal with H : find _ _ _ _ = _ |- _ => apply find_some in H as [Hin Hok] end.
    exists x, ch. split; auto. split; auto.
    split; [eapply side_in_reg; eauto|].
    destruct (Hr x (nth_error_In _ _ Hx)) as [_ Hk]. destruct (Hk k Hc) as (E & _).
    pose proof (chan_ok_id _ _ _ Hok). change OSeal with (op_of_dir DSeal) in Hok. apply chan_ok_dir in Hok as [_ Hdir].
    repeat split; auto; congruence.
Qed.

(** ** C40 on the shared-memory state *)
Lemma contig_rev l : contig l -> rev l = map N.of_nat (seq 0 (length l)).
Proof.
  induction l as [|s rest IH]; cbn [contig]; intros H; [reflexivity|].
  destruct H as [-> Hc]. cbn [rev length]. rewrite seq_S, map_app, IH by auto. reflexivity.
Qed.

Lemma seqmax_runs sched g : seqmax (runs sched g) = seqmax g.
Proof.
  unfold runs. revert g. induction sched as [|t s IH]; intros g; cbn; auto.
  rewrite IH. apply seqmax_step.
Qed.

(** the successful seals through one context carry 0, 1, 2, ... in order, stay
    below the limit, and the context's counter is their number — for every
    schedule, whatever the writer does meanwhile and however many seals fail *)
Definition seq_contiguous_stmt : Prop :=
  forall (cap smax : N) (wp : list wop) (rps : list (list rop)) (sched : list nat) i r c,
  let g := runs sched (init cap smax wp rps) in
  nth_error (rts g) i = Some r ->
  let seqs := rev (seal_seqs c (rlog r)) in
  seqs = map N.of_nat (seq 0 (length seqs))
  /\ Forall (fun s => (s < smax)%N) seqs
  /\ (forall x k, nth_error (rctxs r) c = Some x -> xdir x = DSeal -> xcache x = Some k ->
        kseq k = N.of_nat (length seqs)).

Lemma seq_contiguous_proof : seq_contiguous_stmt.
Proof.
  intros cap smax wp rps sched i r c g Hn seqs.
  pose proof (rinv_runs cap smax wp rps sched) as (_ & _ & _ & Hs). fold g in Hs.
  unfold seqinv in Hs. rewrite Forall_forall in Hs. specialize (Hs r (nth_error_In _ _ Hn) c).
  unfold g in Hs at 1. rewrite seqmax_runs in Hs. cbn [seqmax init] in Hs.
  destruct Hs as (H1 & H2 & H3). subst seqs. rewrite rev_length.
  split; [apply contig_rev; auto|]. split.
  - apply Forall_forall. intros s Hin. rewrite <- in_rev in Hin. rewrite Forall_forall in H2. auto.
  - intros x k Hx Hd Hk. rewrite Hx in H3. auto.
Qed.

(** ** Non-vacuity *)
(** add channel 0; reader 0 sets up a seal ctx and seals twice (cache warm);
    the writer removes channel 0 completely; the reader then seals twice more. *)
Example c41_example :
  let wp := [WAdd DSeal 7 3 1; WAdd DSeal 8 4 1; WRemove 0] in
  let rp := [RSetup DSeal 0; RSeal 0 MClient; RSeal 0 MClient; RSeal 0 MClient; RSeal 0 MClient; RExists 0; RExists 1] in
  let g1 := run_seq [0; 0; 1; 1; 1; 0] (init 4 255 wp [rp]) in
  let g2 := run_seq [1; 1; 1; 1] g1 in
  gone 0 g1 /\ nowrap g2 /\ writer_idle (wt g1)
  /\ rresults g2 = [[[0; 0]; [3; 0; 0; 0; 7; 3]; [3; 0; 0; 1; 7; 3]; [1]; [2]; [5; 0]; [5; 1]]]%N.
Proof.
  cbv zeta. split; [|split; [|split]].
  - unfold gone. vm_compute. split; [left; reflexivity|]. split; intros [H|[]]; discriminate.
  - unfold nowrap. vm_compute. split; reflexivity.
  - vm_compute. exact I.
  - vm_compute. reflexivity.
Qed.

(** seals 0,1,2 across a failing f, a concurrent add and a removal of another channel *)
Example c40_example :
  let wp := [WAdd DSeal 7 3 1; WAdd DOpen 8 4 1; WRemove 1] in
  let rp := [RSetup DSeal 0; RSeal 0 MClient; RSeal 0 MFailF; RSeal 0 MClient; RSeal 0 MClient] in
  let g := run_seq [0; 1; 1; 0; 1; 1; 0; 1] (init 4 2 wp [rp]) in
  rresults g = [[[0; 0]; [3; 0; 0; 0; 7; 3]; [3; 0; 2; 3]; [3; 0; 0; 1; 7; 3]; [2]]]%N
  /\ match rts g with [r] => rev (seal_seqs 0 (rlog r)) = [0; 1]%N | _ => False end.
Proof. vm_compute. split; reflexivity. Qed.
