(** Multiset specification of [TraversalQueue] and order facts. *)
From Aranya Require Import base.Tactics gen.GenQueue model.TravQueue proofs.TravQueueVec proofs.TravQueueMoves.
From Coq Require String.

(** * Pins on the generated definitions (a change in /repo breaks these) *)
Module Pins.
Import String.
Lemma loc_key_pin : forall m s, loc_key m s = (m, s).
Proof. reflexivity. Qed.
Lemma location_derives_ord_pin : location_derives_ord = true.
Proof. reflexivity. Qed.
Lemma queue_fields_pin : queue_fields = ["entries"; "partition"]%string.
Proof. reflexivity. Qed.
(** every method of [impl TraversalQueue] has a clause in the model *)
Lemma queue_methods_pin :
  queue_methods = ["new"; "clear"; "is_empty"; "push"; "push_covered"; "push_duplicate"; "pop";
                   "pop_covered"; "remove_uncovered"; "peek"; "pop_duplicates"; "all_covered";
                   "drain_above"; "cover_up_to"; "drain_all"]%string.
Proof. reflexivity. Qed.
End Pins.
Import Pins.

(** * The derived order *)
Lemma loc_leb_iff a b :
  loc_leb a b = true <-> (lmc a < lmc b \/ (lmc a = lmc b /\ lseg a <= lseg b))%N.
Proof.
  unfold loc_leb, key_leb. rewrite !loc_key_pin. cbn [fst snd].
  rewrite orb_true_iff, andb_true_iff, N.ltb_lt, N.eqb_eq, N.leb_le. tauto.
Qed.
Lemma loc_leb_refl a : loc_leb a a = true.
Proof. apply loc_leb_iff. lia. Qed.
Lemma loc_leb_trans a b c : loc_leb a b = true -> loc_leb b c = true -> loc_leb a c = true.
Proof. rewrite !loc_leb_iff. lia. Qed.
Lemma loc_leb_total a b : loc_leb a b = true \/ loc_leb b a = true.
Proof. rewrite !loc_leb_iff. lia. Qed.
Lemma loc_leb_false a b : loc_leb a b = false -> loc_leb b a = true.
Proof. intro H. destruct (loc_leb_total a b); congruence. Qed.
Lemma loc_eqb_eq a b : loc_eqb a b = true <-> a = b.
Proof.
  unfold loc_eqb. rewrite andb_true_iff, !N.eqb_eq. destruct a, b; cbn. split.
  - intros [-> ->]; reflexivity.
  - intro H; inv H; auto.
Qed.
Lemma loc_leb_antisym a b : loc_leb a b = true -> loc_leb b a = true -> a = b.
Proof. rewrite !loc_leb_iff. destruct a, b; cbn. intros. f_equal; lia. Qed.
(** the maximum of the derived order has the highest max cut *)
Lemma loc_leb_mc a b : loc_leb a b = true -> (lmc a <= lmc b)%N.
Proof. rewrite loc_leb_iff. lia. Qed.

Lemma with_mc_same_seg e l : lseg e = lseg l -> with_mc e (lmc l) = l.
Proof. destruct e, l; cbn. intros ->. reflexivity. Qed.

Lemma argmax_from_spec l : forall i b,
  let r := argmax_from i b l in
  loc_leb (snd b) (snd r) = true /\ (forall y, In y l -> loc_leb y (snd r) = true) /\
  (r = b \/ exists k, nth_error l k = Some (snd r) /\ fst r = i + k).
Proof.
  induction l as [|x l IH]; intros i b; cbn [argmax_from].
  - repeat split; auto using loc_leb_refl.
  - destruct (loc_leb (snd b) x) eqn:E.
    + destruct (IH (S i) (i, x)) as (H1 & H2 & H3). cbn [snd] in *. repeat split.
      * eapply loc_leb_trans; eauto.
      * intros y [->|Hy]; auto.
      * right. destruct H3 as [->|(k & Hk & Hf)].
        -- exists 0. cbn. split; auto.
        -- exists (S k). cbn [nth_error]. split; auto. lia.
    + destruct (IH (S i) b) as (H1 & H2 & H3). repeat split; auto.
      * intros y [->|Hy]; auto. eapply loc_leb_trans; [apply loc_leb_false; eauto|auto].
      * destruct H3 as [->|(k & Hk & Hf)]; auto. right. exists (S k). cbn [nth_error]. split; auto. lia.
Qed.

Lemma argmax_spec l :
  match argmax l with
  | None => l = []
  | Some (i, x) => nth_error l i = Some x /\ forall y, In y l -> loc_leb y x = true
  end.
Proof.
  destruct l as [|x l]; cbn [argmax]; auto.
  pose proof (argmax_from_spec l 1 (0, x)) as (H1 & H2 & H3). cbn [snd] in *.
  destruct (argmax_from 1 (0, x) l) as [i y]. cbn [fst snd] in *. split.
  - destruct H3 as [H3|(k & Hk & ->)]; [inv H3; reflexivity|]. exact Hk.
  - intros z [->|Hz]; auto.
Qed.

(** * The specification: a finite multiset of (location, covered) pairs *)
Definition ms := list (loc * bool).

Definition maximal (l : loc) (m : ms) : Prop := forall e c, In (e, c) m -> loc_leb e l = true.
Definition no_seg (s : N) (m : ms) : Prop := forall e b, In (e, b) m -> lseg e <> s.

(** [push_covered]: the rules documented on the method. *)
Definition spec_push (m : ms) (l : loc) (c : bool) (m' : ms) : Prop :=
  (no_seg (lseg l) m /\ Permutation m' ((l, c) :: m))
  \/ exists e b rest, Permutation m ((e, b) :: rest) /\ lseg e = lseg l /\
     (   ((lmc e < lmc l)%N /\ Permutation m' ((l, c) :: rest))       (* higher max_cut adopts the new flag *)
      \/ (lmc e = lmc l /\ Permutation m' ((e, b || c) :: rest))       (* equal: flags OR'd *)
      \/ ((lmc l < lmc e)%N /\ Permutation m' m)).                      (* lower: ignored *)

Definition spec_pop (m : ms) (r : option (loc * bool)) (m' : ms) : Prop :=
  match r with
  | None => m = [] /\ m' = []
  | Some (l, c) => Permutation m ((l, c) :: m') /\ maximal l m
  end.

Definition spec_cover (m : ms) (s c lg : N) (m' : ms) : Prop :=
  (no_seg s m /\ Permutation m' m)
  \/ exists e b rest, Permutation m ((e, b) :: rest) /\ lseg e = s /\
     (   (b = true /\ Permutation m' m)
      \/ (b = false /\ (lg <= c)%N /\ Permutation m' ((e, true) :: rest))
      \/ (b = false /\ (c < lg)%N /\ (lmc e <= c)%N /\ Permutation m' ((with_mc e (c + 1), false) :: rest))
      \/ (b = false /\ (c < lg)%N /\ (c < lmc e)%N /\ Permutation m' m)).

Definition is_loc (l : loc) (x : loc * bool) : bool := loc_eqb (fst x) l.
Definition to_drain (t : N) (x : loc * bool) : bool := negb (snd x) && (t <? lmc (fst x))%N.
Definition at_most (t : N) (x : loc * bool) : bool := (lmc (fst x) <=? t)%N.
Definition uncovered (x : loc * bool) : bool := negb (snd x).

Definition spec (m : ms) (o : op) (m' : ms) (v : out) : Prop :=
  match o with
  | OClear => m' = [] /\ v = VUnit
  | OIsEmpty => Permutation m' m /\ exists b, v = VBool b /\ (b = true <-> m = [])
  | OPush l => spec_push m l false m' /\ v = VUnit
  | OPushCovered l c => spec_push m l c m' /\ v = VUnit
  | OPushDup l => Permutation m' ((l, false) :: m) /\ v = VUnit
  | OPop => exists r, spec_pop m r m' /\ v = VLoc (option_map fst r)
  | OPopCovered => exists r, spec_pop m r m' /\ v = VLocCov r
  | OPeek => Permutation m' m /\
             ((m = [] /\ v = VLoc None) \/ exists l c, In (l, c) m /\ maximal l m /\ v = VLoc (Some l))
  | OPopDups => (m = [] /\ m' = [] /\ v = VLocCnt None)
                \/ exists l c, In (l, c) m /\ maximal l m /\
                     Permutation m' (filter (fun x => negb (is_loc l x)) m) /\
                     v = VLocCnt (Some (l, length (filter (is_loc l) m)))
  | OAllCovered => Permutation m' m /\ v = VBool (forallb snd m)
  | ODrainAbove t => Permutation m' (filter (at_most t) m) /\
                     exists ls, v = VLocs ls /\ Permutation ls (map fst (filter (to_drain t) m))
  | OCoverUpTo s c lg => spec_cover m s c lg m' /\ v = VUnit
  | ODrainAll => m' = [] /\ exists ls, v = VLocs ls /\ Permutation ls (map fst (filter uncovered m))
  end.

(** inputs are [u64]s *)
Definition op_wf (o : op) : Prop :=
  match o with OCoverUpTo _ _ lg => (lg <= u64_max)%N | _ => True end.

Definition is_push_dup (o : op) : bool := match o with OPushDup _ => true | _ => false end.

(** at most one entry per segment *)
Definition uniq_ms (m : ms) : Prop := NoDup (map (fun x => lseg (fst x)) m).

Lemma perm_filter {A} (f : A -> bool) l l' : Permutation l l' -> Permutation (filter f l) (filter f l').
Proof.
  induction 1; cbn; auto.
  - destruct (f x); auto.
  - destruct (f x), (f y); auto. apply perm_swap.
  - etransitivity; eauto.
Qed.

Lemma uniq_ms_perm m m' : Permutation m m' -> uniq_ms m -> uniq_ms m'.
Proof. unfold uniq_ms. intros P H. eapply Permutation_NoDup; [|exact H]. now apply Permutation_map. Qed.

Lemma uniq_ms_filter f m : uniq_ms m -> uniq_ms (filter f m).
Proof.
  unfold uniq_ms. induction m as [|x m IH]; cbn; auto. intro H. inv H.
  destruct (f x); cbn; auto. constructor; auto.
  intro Hin. apply H2. apply in_map_iff in Hin as (y & Hy & Hiny). apply in_map_iff. exists y. split; auto.
  apply filter_In in Hiny. tauto.
Qed.

(** Every operation except [push_duplicate] keeps "one entry per segment". *)
Lemma spec_preserves_uniq m o m' v :
  is_push_dup o = false -> spec m o m' v -> uniq_ms m -> uniq_ms m'.
Proof.
  intros Hd Hs Hu.
  assert (Hpush : forall l c, spec_push m l c m' -> uniq_ms m').
  { intros l c [[Hno P]|(e & b & rest & P & Hseg & [[_ P']|[[_ P']|[_ P']]])].
    - eapply uniq_ms_perm; [symmetry; exact P|]. unfold uniq_ms. cbn. constructor; auto.
      intro Hin. apply in_map_iff in Hin as ([y yb] & Hy & Hiny). cbn in Hy. eapply Hno; eauto.
    - eapply uniq_ms_perm; [symmetry; exact P'|]. apply (uniq_ms_perm _ _ P) in Hu.
      unfold uniq_ms in *. cbn in *. now rewrite <- Hseg.
    - eapply uniq_ms_perm; [symmetry; exact P'|]. apply (uniq_ms_perm _ _ P) in Hu. exact Hu.
    - eapply uniq_ms_perm; [symmetry; exact P'|]. exact Hu. }
  destruct o; cbn [spec is_push_dup] in *; try discriminate.
  - destruct Hs as [-> _]. constructor.
  - destruct Hs as [P _]. eapply uniq_ms_perm; [symmetry; exact P|auto].
  - destruct Hs as [Hs _]. eauto.
  - destruct Hs as [Hs _]. eauto.
  - destruct Hs as ([[l c]|] & Hs & _); cbn [spec_pop] in Hs.
    + destruct Hs as [P _]. apply (uniq_ms_perm _ _ P) in Hu. unfold uniq_ms in *. cbn in Hu. now inv Hu.
    + destruct Hs as [_ ->]. constructor.
  - destruct Hs as ([[l c]|] & Hs & _); cbn [spec_pop] in Hs.
    + destruct Hs as [P _]. apply (uniq_ms_perm _ _ P) in Hu. unfold uniq_ms in *. cbn in Hu. now inv Hu.
    + destruct Hs as [_ ->]. constructor.
  - destruct Hs as [P _]. eapply uniq_ms_perm; [symmetry; exact P|auto].
  - destruct Hs as [(_ & -> & _)|(l & c & _ & _ & P & _)]; [constructor|].
    eapply uniq_ms_perm; [symmetry; exact P|]. now apply uniq_ms_filter.
  - destruct Hs as [P _]. eapply uniq_ms_perm; [symmetry; exact P|auto].
  - destruct Hs as [P _]. eapply uniq_ms_perm; [symmetry; exact P|]. now apply uniq_ms_filter.
  - destruct Hs as [[[_ P]|(e & b & rest & P & Hseg & Hc)] _].
    + eapply uniq_ms_perm; [symmetry; exact P|auto].
    + destruct Hc as [[_ P']|[(_ & _ & P')|[(_ & _ & _ & P')|(_ & _ & _ & P')]]];
        (eapply uniq_ms_perm; [symmetry; exact P'|]); auto;
        apply (uniq_ms_perm _ _ P) in Hu; exact Hu.
  - destruct Hs as [-> _]. constructor.
Qed.
