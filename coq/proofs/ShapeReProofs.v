(** Correctness of the regex machinery of [model/ShapeRe.v]: derivatives,
    matcher, and soundness of inclusion certificates. *)
From Coq Require Import String List Bool Lia.
From Aranya Require Import model.ShapeRe.
Import ListNotations.

Inductive lang : re -> list string -> Prop :=
| L_eps : lang Eps []
| L_sym s : lang (Sym s) [s]
| L_any s : lang Any [s]
| L_cat a b u v : lang a u -> lang b v -> lang (Cat a b) (u ++ v)
| L_orl a b w : lang a w -> lang (Or a b) w
| L_orr a b w : lang b w -> lang (Or a b) w
| L_star0 a : lang (Star a) []
| L_stars a u v : lang a u -> lang (Star a) v -> lang (Star a) (u ++ v).

Ltac inv H := inversion H; subst; clear H.

Lemma re_eqb_eq a : forall b, re_eqb a b = true -> a = b.
Proof.
  induction a; destruct b; cbn; intros H; try discriminate; auto.
  - apply String.eqb_eq in H; subst; auto.
  - apply andb_true_iff in H as [H1 H2]. f_equal; auto.
  - apply andb_true_iff in H as [H1 H2]. f_equal; auto.
  - f_equal; auto.
Qed.

Lemma re_eqb_refl a : re_eqb a a = true.
Proof. induction a; cbn; auto; try (rewrite IHa1, IHa2; auto). apply String.eqb_refl. Qed.

Lemma is_emp_spec r : is_emp r = true -> r = Emp.
Proof. destruct r; cbn; congruence. Qed.
Lemma is_eps_spec r : is_eps r = true -> r = Eps.
Proof. destruct r; cbn; congruence. Qed.

Lemma lang_emp w : ~ lang Emp w.
Proof. intros H; inv H. Qed.

Lemma nullable_spec r : nullable r = true <-> lang r [].
Proof.
  induction r; cbn.
  - split; [discriminate|intros H; inv H].
  - split; [constructor|auto].
  - split; [discriminate|intros H; inv H].
  - split; [discriminate|intros H; inv H].
  - split; intros H.
    + apply andb_true_iff in H as [H1 H2]. change (@nil string) with (@nil string ++ []).
      constructor; [apply IHr1|apply IHr2]; auto.
    + inv H. apply app_eq_nil in H2 as [-> ->]. apply andb_true_iff; split; [apply IHr1|apply IHr2]; auto.
  - split; intros H.
    + apply orb_true_iff in H as [H|H]; [apply L_orl; apply IHr1|apply L_orr; apply IHr2]; auto.
    + inv H; apply orb_true_iff; [left; apply IHr1|right; apply IHr2]; auto.
  - split; [constructor|auto].
Qed.

(** ** The normalising constructors preserve the language *)

Lemma cat'_spec a b w : lang (cat' a b) w <-> lang (Cat a b) w.
Proof.
  unfold cat'.
  destruct (is_emp a) eqn:Ea; [apply is_emp_spec in Ea; subst; cbn; split; intros H; inv H; exfalso; eapply lang_emp; eauto|].
  destruct (is_emp b) eqn:Eb; [apply is_emp_spec in Eb; subst; cbn; split; intros H; inv H; exfalso; eapply lang_emp; eauto|].
  cbn [orb].
  destruct (is_eps a) eqn:E1; [apply is_eps_spec in E1; subst|].
  { split; intros H.
    - change w with ([] ++ w). constructor; auto. constructor.
    - inv H. inv H2. auto. }
  destruct (is_eps b) eqn:E2; [apply is_eps_spec in E2; subst|].
  { split; intros H.
    - rewrite <- (app_nil_r w). constructor; auto. constructor.
    - inv H. inv H4. rewrite app_nil_r. auto. }
  tauto.
Qed.

Lemma or_mem_lang x r w : or_mem x r = true -> lang x w -> lang r w.
Proof.
  induction r; cbn; intros H Hx;
    try (apply re_eqb_eq in H; subst; auto; fail).
  apply orb_true_iff in H as [H|H].
  - apply re_eqb_eq in H; subst. apply L_orl; auto.
  - apply L_orr; auto.
Qed.

Lemma or_add_spec x : forall r w, lang (or_add x r) w <-> (lang x w \/ lang r w).
Proof.
  assert (base : forall x r w, (forall a b, x <> Or a b) -> x <> Emp ->
     lang (if or_mem x r then r else if is_emp r then x else Or x r) w <-> (lang x w \/ lang r w)).
  { intros x0 r w _ _. destruct (or_mem x0 r) eqn:E.
    - split; [auto|]. intros [H|H]; auto. eapply or_mem_lang; eauto.
    - destruct (is_emp r) eqn:E2.
      + apply is_emp_spec in E2; subst. split; [auto|]. intros [H|H]; auto. inv H.
      + split; intros H; [inv H; auto|destruct H; [apply L_orl|apply L_orr]; auto]. }
  induction x; intros r w; cbn [or_add];
    try (apply base; [intros; discriminate|discriminate]).
  - split; [auto|]. intros [H|H]; auto. inv H.
  - rewrite IHx1, IHx2. split.
    + intros [H|[H|H]]; auto; left; [apply L_orl|apply L_orr]; auto.
    + intros [H|H]; auto. inv H; auto.
Qed.

Lemma or'_spec a b w : lang (or' a b) w <-> (lang a w \/ lang b w).
Proof.
  unfold or'. rewrite !or_add_spec. split.
  - intros [H|[H|H]]; auto. inv H.
  - intros [H|H]; auto.
Qed.

(** ** Derivatives *)

Lemma star_cons_inv a s w :
  lang (Star a) (s :: w) -> exists u v, w = u ++ v /\ lang a (s :: u) /\ lang (Star a) v.
Proof.
  intros H. remember (Star a) as r eqn:Er. remember (s :: w) as sw eqn:Ew.
  revert a s w Er Ew. induction H; intros a0 s0 w0 Er Ew; try discriminate.
  inv Er. destruct u as [|x u].
  - cbn in Ew. subst. eapply IHlang2; eauto.
  - cbn in Ew. inv Ew. exists u, v. auto.
Qed.

Lemma deriv_complete r : forall s w, lang r (s :: w) -> lang (deriv s r) w.
Proof.
  induction r; intros s0 w H; cbn [deriv].
  - inv H.
  - inv H.
  - inv H. rewrite String.eqb_refl. constructor.
  - inv H. constructor.
  - inv H. apply or'_spec. destruct u as [|x u].
    + cbn in H2. subst. right.
      assert (Hn : nullable r1 = true) by (apply nullable_spec; auto). rewrite Hn. auto.
    + cbn in H2. inv H2. left. apply cat'_spec. constructor; auto.
  - apply or'_spec. inv H; auto.
  - apply star_cons_inv in H as (u & v & -> & Hu & Hv). apply cat'_spec. constructor; auto.
Qed.

Lemma deriv_sound r : forall s w, lang (deriv s r) w -> lang r (s :: w).
Proof.
  induction r; intros s0 w H; cbn [deriv] in H.
  - inv H.
  - inv H.
  - destruct (String.eqb s0 s) eqn:E; [|inv H]. apply String.eqb_eq in E; subst. inv H. constructor.
  - inv H. constructor.
  - apply or'_spec in H as [H|H].
    + apply cat'_spec in H. inv H. change (s0 :: u ++ v) with ((s0 :: u) ++ v). constructor; auto.
    + destruct (nullable r1) eqn:En; [|inv H].
      change (s0 :: w) with ([] ++ s0 :: w). constructor; auto. apply nullable_spec; auto.
  - apply or'_spec in H as [H|H]; [apply L_orl|apply L_orr]; auto.
  - apply cat'_spec in H. inv H. change (s0 :: u ++ v) with ((s0 :: u) ++ v). apply L_stars; auto.
Qed.

Lemma matches_spec w : forall r, matches r w = true <-> lang r w.
Proof.
  unfold matches. induction w as [|s w IH]; intros r; cbn [fold_left].
  - apply nullable_spec.
  - rewrite IH. split; [apply deriv_sound|apply deriv_complete].
Qed.

(** ** Words of a wildcard-free regex use only its own symbols *)

Lemma lang_syms r w : lang r w -> no_any r = true -> Forall (fun s => In s (syms r)) w.
Proof.
  induction 1; cbn; intros Hn; auto; try discriminate.
  - apply andb_true_iff in Hn as [H1 H2]. apply Forall_app; split;
      (eapply Forall_impl; [|eauto]); cbn; intros; apply in_or_app; auto.
  - apply andb_true_iff in Hn as [H1 H2]. eapply Forall_impl; [|eauto]. cbn; intros; apply in_or_app; auto.
  - apply andb_true_iff in Hn as [H1 H2]. eapply Forall_impl; [|eauto]. cbn; intros; apply in_or_app; auto.
  - apply Forall_app; split; auto.
Qed.

Lemma dedup_in x l : In x l -> In x (dedup l).
Proof.
  induction l as [|y l IH]; cbn; auto. intros [->|H].
  - destruct (existsb (String.eqb x) l) eqn:E; [|left; auto].
    apply existsb_exists in E as (z & Hz & Ez). apply String.eqb_eq in Ez; subst. auto.
  - destruct (existsb _ l); [|right]; auto.
Qed.

(** ** Soundness of inclusion certificates *)

Lemma pair_mem_spec a b R : pair_mem a b R = true -> a = Emp \/ In (a, b) R.
Proof.
  unfold pair_mem. intros H. apply orb_true_iff in H as [H|H].
  - left. apply is_emp_spec; auto.
  - right. apply existsb_exists in H as ([a' b'] & Hin & E). cbn in E.
    apply andb_true_iff in E as [E1 E2]. apply re_eqb_eq in E1, E2. subst. auto.
Qed.

Lemma closed_sound sigma R : closed sigma R = true ->
  forall w a b, In (a, b) R -> Forall (fun s => In s sigma) w -> lang a w -> lang b w.
Proof.
  intros Hc. unfold closed in Hc. rewrite forallb_forall in Hc.
  induction w as [|s w IH]; intros a b Hin Hs Ha.
  - specialize (Hc _ Hin). cbn in Hc. apply andb_true_iff in Hc as [Hn _].
    apply nullable_spec. apply nullable_spec in Ha. rewrite Ha in Hn. auto.
  - specialize (Hc _ Hin). cbn in Hc. apply andb_true_iff in Hc as [_ Hd].
    rewrite forallb_forall in Hd. inv Hs. specialize (Hd _ H1).
    apply deriv_sound. apply deriv_complete in Ha.
    apply pair_mem_spec in Hd as [He|Hd].
    + rewrite He in Ha. inv Ha.
    + eapply IH; eauto.
Qed.

Theorem incl_check_sound a b : incl_check a b = true -> forall w, lang a w -> lang b w.
Proof.
  unfold incl_check. intros H w Ha.
  apply andb_true_iff in H as [H Hc]. apply andb_true_iff in H as [Hna Hm].
  apply pair_mem_spec in Hm as [He|Hm]; [subst; inv Ha|].
  eapply closed_sound; eauto.
  eapply Forall_impl; [|eapply lang_syms; eauto]. cbn. intros. apply dedup_in; auto.
Qed.

(** ** Reading lemmas for specification regexes *)

Lemma lang_eps_inv w : lang Eps w -> w = [].
Proof. intros H; inv H; auto. Qed.
Lemma lang_sym_inv s w : lang (Sym s) w -> w = [s].
Proof. intros H; inv H; auto. Qed.
Lemma lang_cat_sym_inv x r w : lang (Cat (Sym x) r) w -> exists w', w = x :: w' /\ lang r w'.
Proof. intros H; inv H. inv H2. exists v. split; auto. Qed.
Lemma lang_cat_inv a b w : lang (Cat a b) w -> exists u v, w = u ++ v /\ lang a u /\ lang b v.
Proof. intros H; inv H. eauto. Qed.
Lemma lang_or_inv a b w : lang (Or a b) w -> lang a w \/ lang b w.
Proof. intros H; inv H; auto. Qed.
Lemma lang_star_sym_inv x w : lang (Star (Sym x)) w -> Forall (eq x) w.
Proof.
  intros H. remember (Star (Sym x)) as r eqn:E. induction H; inv E; auto.
  inv H. constructor; auto.
Qed.
Lemma lang_star_syms_inv (P : string -> Prop) r w :
  (forall u, lang r u -> Forall P u) -> lang (Star r) w -> Forall P w.
Proof.
  intros Hr H. remember (Star r) as q eqn:E. induction H; inv E; auto.
  apply Forall_app; split; auto.
Qed.
Lemma lang_top w : lang Top w.
Proof.
  induction w as [|s w IH]; [constructor|]. change (s :: w) with ([s] ++ w).
  apply L_stars; auto. constructor.
Qed.
