(** Grammar-shape facts about [gen/GenGrammar.v], in the form the parser's tree
    walker relies on: "the children of a pair of rule R are, position by
    position, in these sets; the first m exist".  Each fact is decided by a
    certificate-checked regular-language inclusion ([incl_check]) against
    [children_shape], and means something about every tree pest can emit
    ([node_fact] / [top_fact] quantify over [emits]). *)
From Coq Require Import String List Bool Arith Lia.
From Aranya Require Import model.PegSyntax model.ShapeRe model.Frontend
  proofs.ShapeReProofs proofs.FrontendShape.
Import ListNotations.
Open Scope string_scope.

Definition smem (s : string) (l : list string) : bool := existsb (String.eqb s) l.

Lemma smem_in s l : smem s l = true <-> In s l.
Proof.
  unfold smem. rewrite existsb_exists. split.
  - intros (x & Hx & E). apply String.eqb_eq in E. subst; auto.
  - intros H. exists s. split; auto. apply String.eqb_refl.
Qed.

(** A slot is a set of allowed rule names; the empty list stands for "any rule". *)
Definition in_slot (a : list string) (s : string) : bool :=
  match a with [] => true | _ => smem s a end.

Definition slot_re (a : list string) : re :=
  match a with
  | [] => Any
  | _ => fold_right (fun s r => Or (Sym s) r) Emp a
  end.

Definition tail_re (t : option (list string)) : re :=
  match t with None => Eps | Some a => Star (slot_re a) end.

(** Positions 0..m-1 are mandatory, later slots optional (every prefix is allowed),
    then any number of [tail] symbols. *)
Fixpoint spec_re (m : nat) (slots : list (list string)) (t : option (list string)) : re :=
  match slots with
  | [] => tail_re t
  | a :: rest =>
    let r := Cat (slot_re a) (spec_re (pred m) rest t) in
    match m with O => Or Eps r | S _ => r end
  end.

Fixpoint pos_ok (m : nat) (slots : list (list string)) (t : option (list string)) (w : list string) : bool :=
  match slots with
  | [] => match t with
          | None => match w with [] => true | _ => false end
          | Some a => forallb (in_slot a) w
          end
  | a :: rest =>
    match w with
    | [] => Nat.eqb m 0
    | s :: w' => in_slot a s && pos_ok (pred m) rest t w'
    end
  end.

Lemma syms_re_sound l w :
  lang (fold_right (fun s r => Or (Sym s) r) Emp l) w -> exists s, w = [s] /\ smem s l = true.
Proof.
  induction l as [|y l IH]; cbn [fold_right]; intros H.
  - inv H.
  - apply lang_or_inv in H as [H|H].
    + apply lang_sym_inv in H. subst. exists y. split; auto. unfold smem. cbn. rewrite String.eqb_refl. auto.
    + destruct (IH H) as (s & -> & Hs). exists s. split; auto. unfold smem in *. cbn. rewrite Hs. apply orb_true_r.
Qed.

Lemma slot_re_sound a w : lang (slot_re a) w -> exists s, w = [s] /\ in_slot a s = true.
Proof.
  destruct a as [|x a].
  - cbn. intros H; inv H. eauto.
  - unfold slot_re, in_slot. apply syms_re_sound.
Qed.

Lemma tail_re_sound t w : lang (tail_re t) w -> pos_ok 0 [] t w = true.
Proof.
  destruct t as [a|]; cbn.
  - intros H. remember (Star (slot_re a)) as r eqn:E. induction H; inv E; auto.
    apply slot_re_sound in H as (s & -> & Hs). cbn. rewrite Hs. auto.
  - intros H; inv H; auto.
Qed.

Lemma pos_ok_m0 slots t w m : pos_ok m slots t w = true -> pos_ok 0 slots t w = true.
Proof.
  revert m w. induction slots as [|a rest IH]; intros m w; cbn; auto.
  destruct w; auto. intros H. apply andb_true_iff in H as [H1 H2]. rewrite H1. cbn. eapply IH; eauto.
Qed.

Lemma spec_re_sound slots : forall m t w, lang (spec_re m slots t) w -> pos_ok m slots t w = true.
Proof.
  induction slots as [|a rest IH]; intros m t w H; cbn [spec_re] in H.
  - apply tail_re_sound in H. destruct m; auto.
  - assert (Hc : forall m', lang (Cat (slot_re a) (spec_re (pred m') rest t)) w -> pos_ok m' (a :: rest) t w = true).
    { intros m' Hw. inv Hw. apply slot_re_sound in H2 as (s & -> & Hs). cbn. rewrite Hs. cbn. apply IH; auto. }
    destruct m as [|m].
    + apply lang_or_inv in H as [H|H]; [apply lang_eps_inv in H; subst; reflexivity|]. apply (Hc 0); auto.
    + apply (Hc (S m)); auto.
Qed.

(** The "if / else if / else" walker takes children two at a time: whenever a
    second child exists, the first is parsed as an expression. *)
Fixpoint if_pairs_ok (w : list string) : bool :=
  match w with
  | a :: (_ :: rest) => String.eqb a "expression" && if_pairs_ok rest
  | _ => true
  end.

Definition if_pairs_re : re :=
  Cat (Star (Cat (Sym "expression") (Sym "if_branch"))) (OptR (Sym "if_branch")).

Lemma if_pairs_sound w : lang if_pairs_re w -> if_pairs_ok w = true.
Proof.
  unfold if_pairs_re. intros H. inv H.
  remember (Star (Cat (Sym "expression") (Sym "if_branch"))) as r eqn:E.
  induction H2; inv E.
  - cbn [app]. apply lang_or_inv in H4 as [H|H]; [apply lang_eps_inv in H|apply lang_sym_inv in H]; subst; reflexivity.
  - apply lang_cat_sym_inv in H2_ as (w1 & -> & Hw1). apply lang_sym_inv in Hw1. subst.
    cbn [app if_pairs_ok]. cbn. apply IHlang2; auto.
Qed.

Section Facts.
  Variable G : list rule.

  (** Node predicate for a fact about pairs of rule [parent]. *)
  Definition Pnode (parent : string) (chk : list string -> bool) (n : string) (w : list string) : bool :=
    if String.eqb n parent then chk w else true.

  Lemma tree_ok_all (P : string -> list string -> bool) :
    (forall n w, lang (children_shape G n) w -> P n w = true) ->
    forall t, tree_ok G t -> tree_all P t = true.
  Proof.
    intros HP. fix IH 1. intros t H. destruct t as [n ks].
    inversion H as [n' ks' Hl Hks]; subst.
    cbn [tree_all]. rewrite (HP _ _ Hl). cbn [andb].
    clear Hl H. induction ks as [|k ks IHks]; cbn; auto.
    inversion Hks; subst. rewrite (IH k) by assumption. cbn. apply IHks; assumption.
  Qed.

  (** Meaning of a node fact: in every forest the grammar can emit, every pair of
      rule [parent] (at any depth) has a child sequence satisfying [chk]. *)
  Definition node_fact (parent : string) (chk : list string -> bool) : Prop :=
    forall am e ts, emits G am e ts -> forallb (tree_all (Pnode parent chk)) ts = true.

  Definition top_fact (entry : string) (chk : list string -> bool) : Prop :=
    forall ts, emits G ANon (Ref entry) ts -> chk (map root ts) = true.

  Lemma node_fact_intro parent chk spec :
    incl_check (children_shape G parent) spec = true ->
    (forall w, lang spec w -> chk w = true) ->
    node_fact parent chk.
  Proof.
    intros Hi Hs am e ts He. apply forallb_forall. intros t Ht.
    apply tree_ok_all.
    - intros n w Hl. unfold Pnode. destruct (String.eqb n parent) eqn:E; auto.
      apply String.eqb_eq in E. subst. apply Hs. eapply incl_check_sound; eauto.
    - pose proof (emits_tree_ok G _ _ _ He) as Hok. rewrite Forall_forall in Hok. auto.
  Qed.

  Lemma top_fact_intro entry chk spec :
    incl_check (top_shape G entry) spec = true ->
    (forall w, lang spec w -> chk w = true) ->
    top_fact entry chk.
  Proof.
    intros Hi Hs ts He. apply Hs. eapply incl_check_sound; eauto. apply top_sound; auto.
  Qed.

  (** Boolean checkers (run by [vm_compute] on the generated grammar). *)
  Definition check_node (parent : string) (m : nat) (slots : list (list string)) (t : option (list string)) : bool :=
    incl_check (children_shape G parent) (spec_re m slots t).
  Definition check_top (entry : string) (m : nat) (slots : list (list string)) (t : option (list string)) : bool :=
    incl_check (top_shape G entry) (spec_re m slots t).
  Definition check_if_pairs : bool := incl_check (children_shape G "if_statement") if_pairs_re.

  Lemma check_node_sound parent m slots t :
    check_node parent m slots t = true -> node_fact parent (pos_ok m slots t).
  Proof. intros H. exact (node_fact_intro _ _ _ H (spec_re_sound slots m t)). Qed.

  Lemma check_top_sound entry m slots t :
    check_top entry m slots t = true -> top_fact entry (pos_ok m slots t).
  Proof. intros H. exact (top_fact_intro _ _ _ H (spec_re_sound slots m t)). Qed.

  Lemma check_if_pairs_sound : check_if_pairs = true -> node_fact "if_statement" if_pairs_ok.
  Proof. intros H. exact (node_fact_intro _ _ _ H if_pairs_sound). Qed.
End Facts.

Global Arguments check_node : simpl never.
Global Arguments check_top : simpl never.
Global Arguments check_if_pairs : simpl never.
