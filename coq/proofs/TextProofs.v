(** Proofs about [model/Text.v] (C32). *)
From Coq Require Import String.
From Aranya Require Import base.Tactics gen.GenText model.Text.
Open Scope N_scope.

(** * Pinned facts about the generated definitions *)
Lemma gen_pins :
  MAX_INLINE = 22 /\ INLINE_LEN_BITS = 8 /\ MAX_INLINE < 2 ^ INLINE_LEN_BITS
  /\ IDENT_REJECTS_EMPTY = true
  /\ REPR_VARIANTS = ["Static"; "Inline"; "Heap"]%string
  /\ REPR_CONTENT_IMPLS = [("PartialEq", true); ("Ord", true); ("Hash", true)]%string
  /\ TEXT_BYTECHECK_VERIFY = true /\ IDENT_BYTECHECK_VERIFY = true
  /\ TEXT_FIELD = "pub(crate) Repr"%string /\ IDENT_FIELD = "Text"%string.
Proof. repeat split; reflexivity. Qed.

(** The byte classes the validators use, as explicit ranges. *)
Definition alpha (c : N) : Prop := (65 <= c <= 90) \/ (97 <= c <= 122).
Definition alnum_us (c : N) : Prop := alpha c \/ (48 <= c <= 57) \/ c = 95.

Lemma text_bad_spec b : text_bad b = true <-> b = 0.
Proof. unfold text_bad. lia. Qed.

Lemma first_bad_spec b : ident_first_bad b = false <-> alpha b.
Proof.
  unfold ident_first_bad, is_ascii_alphabetic, is_ascii_uppercase, is_ascii_lowercase, in_range, alpha. lia.
Qed.

Lemma tail_bad_spec b : ident_tail_bad b = false <-> alnum_us b.
Proof.
  unfold ident_tail_bad, is_ascii_alphanumeric, is_ascii_alphabetic, is_ascii_uppercase, is_ascii_lowercase,
    is_ascii_digit, in_range, alnum_us, alpha. lia.
Qed.

Lemma alpha_alnum c : alpha c -> alnum_us c.
Proof. unfold alnum_us. auto. Qed.
Lemma alnum_nonzero c : alnum_us c -> c <> 0.
Proof. unfold alnum_us, alpha. lia. Qed.

(** * [Text::validate] *)
Lemma position_none p s : forall i, position p i s = None <-> Forall (fun b => p b = false) s.
Proof.
  induction s as [|b r IH]; intros i; cbn [position].
  - split; auto.
  - destruct (p b) eqn:E.
    + split; [discriminate|]. intros H. inv H. congruence.
    + rewrite IH. split; intros H; [constructor; auto|inv H; auto].
Qed.

Lemma position_some p s : forall i k, position p i s = Some k ->
  i <= k /\ k - i < blen s
  /\ p (nth (N.to_nat (k - i)) s 0) = true
  /\ forall j, (j < N.to_nat (k - i))%nat -> p (nth j s 0) = false.
Proof.
  unfold blen. induction s as [|b r IH]; intros i k H; cbn [position] in H; [discriminate|].
  destruct (p b) eqn:E.
  - inv H. rewrite N.sub_diag. cbn [N.to_nat nth length]. repeat split; try lia; auto.
  - apply IH in H. destruct H as [H1 [H2 [H3 H4]]].
    assert (Ek : N.to_nat (k - i) = S (N.to_nat (k - (i + 1)))) by lia.
    rewrite Ek. cbn [nth length]. repeat split; try lia; auto.
    intros [|j] Hj; cbn [nth]; auto. apply H4. lia.
Qed.

Definition no_nul (s : list N) : Prop := ~ In 0 s.

Lemma no_nul_forall s : no_nul s <-> Forall (fun b => text_bad b = false) s.
Proof.
  unfold no_nul. rewrite Forall_forall. split.
  - intros H b Hb. destruct (text_bad b) eqn:E; auto. apply text_bad_spec in E. subst. contradiction.
  - intros H Hin. specialize (H 0 Hin). assert (text_bad 0 = true) by (apply text_bad_spec; reflexivity). congruence.
Qed.

Definition text_valid_iff_stmt : Prop :=
  forall s,
  (text_validate s = None <-> no_nul s)
  /\ (forall i, text_validate s = Some (ContainsNul i) ->
        i < blen s /\ nth (N.to_nat i) s 1 = 0 /\ forall j, (j < N.to_nat i)%nat -> nth j s 1 <> 0).
Lemma text_valid_iff_proof : text_valid_iff_stmt.
Proof.
  intros s. unfold text_validate. split.
  - rewrite no_nul_forall, <- (position_none text_bad s 0).
    destruct (position text_bad 0 s); split; congruence.
  - intros i H. destruct (position text_bad 0 s) as [k|] eqn:E; [|discriminate]. inv H.
    apply position_some in E. destruct E as [_ [E2 [E3 E4]]]. rewrite N.sub_0_r in *.
    unfold blen in *.
    split; [exact E2|]. split.
    + apply text_bad_spec in E3. rewrite (nth_indep s 1 0) by lia. exact E3.
    + intros j Hj Hz. specialize (E4 j Hj). rewrite (nth_indep s 1 0) in Hz by lia.
      rewrite Hz in E4. assert (text_bad 0 = true) by (apply text_bad_spec; reflexivity). congruence.
Qed.

Lemma text_validate_ok s : text_validate s = None <-> no_nul s.
Proof. apply text_valid_iff_proof. Qed.

Lemma no_nul_app a b : no_nul a -> no_nul b -> no_nul (a ++ b).
Proof. unfold no_nul. intros Ha Hb H. apply in_app_or in H. tauto. Qed.

Definition concat_valid_stmt : Prop :=
  forall a b, text_validate a = None -> text_validate b = None -> text_validate (a ++ b) = None.
Lemma concat_valid_proof : concat_valid_stmt.
Proof. intros a b. rewrite !text_validate_ok. apply no_nul_app. Qed.

(** * [Identifier::validate] *)
Definition ident_re (s : list N) : Prop :=
  exists c r, s = c :: r /\ alpha c /\ Forall alnum_us r.

Lemma ident_loop_tail s : forall i, i <> 0 -> (ident_loop i s = None <-> Forall alnum_us s).
Proof.
  induction s as [|b r IH]; intros i Hi; cbn [ident_loop].
  - split; auto.
  - destruct (N.eqb_spec i 0); [contradiction|].
    destruct (ident_tail_bad b) eqn:E.
    + split; [discriminate|]. intros H. inv H. apply tail_bad_spec in H2. congruence.
    + apply tail_bad_spec in E. rewrite IH by lia. split; intros H; [constructor; auto|inv H; auto].
Qed.

Lemma ident_loop_head c r : ident_loop 0 (c :: r) = None <-> alpha c /\ Forall alnum_us r.
Proof.
  cbn [ident_loop]. change (0 =? 0) with true. cbv iota.
  destruct (ident_first_bad c) eqn:E.
  - split; [discriminate|]. intros [H _]. apply first_bad_spec in H. congruence.
  - apply first_bad_spec in E. rewrite ident_loop_tail by lia. tauto.
Qed.

Lemma ident_re_no_nul s : ident_re s -> no_nul s.
Proof.
  intros [c [r [-> [Hc Hr]]]] Hin. destruct Hin as [E|Hin]; [subst c|].
  - apply alpha_alnum, alnum_nonzero in Hc. congruence.
  - rewrite Forall_forall in Hr. apply Hr, alnum_nonzero in Hin. congruence.
Qed.

Definition ident_valid_iff_stmt : Prop :=
  forall s,
  (ident_validate s = VOk <-> ident_re s)
  /\ ident_validate s <> VPanic
  /\ (ident_validate s = VErr NotEmpty <-> s = [])
  /\ (ident_validate s = VErr InitialNotAlphabetic <-> exists c r, s = c :: r /\ ~ alpha c)
  /\ (forall i, ident_validate s = VErr (TrailingNotValid i) ->
        0 < i < blen s /\ ~ alnum_us (nth (N.to_nat i) s 0)).
Lemma ident_loop_trailing s : forall i k, i <> 0 -> ident_loop i s = Some (TrailingNotValid k) ->
  i <= k /\ k - i < blen s /\ ~ alnum_us (nth (N.to_nat (k - i)) s 0).
Proof.
  unfold blen. induction s as [|b r IH]; intros i k Hi H; cbn [ident_loop] in H; [discriminate|].
  destruct (N.eqb_spec i 0); [contradiction|].
  destruct (ident_tail_bad b) eqn:E.
  - inv H. rewrite N.sub_diag. change (N.to_nat 0) with 0%nat. cbn [nth length]. repeat split; try lia.
    intros C. apply tail_bad_spec in C. congruence.
  - apply IH in H; [|lia]. destruct H as [H1 [H2 H3]].
    assert (Ek : N.to_nat (k - i) = S (N.to_nat (k - (i + 1)))) by lia.
    rewrite Ek. cbn [nth length]. repeat split; try lia; auto.
Qed.
Lemma ident_loop_tail_kind s : forall i, i <> 0 -> ident_loop i s <> Some NotEmpty /\ ident_loop i s <> Some InitialNotAlphabetic.
Proof.
  induction s as [|b r IH]; intros i Hi; cbn [ident_loop]; [split; discriminate|].
  destruct (N.eqb_spec i 0); [contradiction|].
  destruct (ident_tail_bad b); [split; discriminate|]. apply IH. lia.
Qed.

Lemma ident_valid_iff_proof : ident_valid_iff_stmt.
Proof.
  intros s. unfold ident_validate. change IDENT_REJECTS_EMPTY with true. cbv iota.
  destruct s as [|c r].
  - repeat split; try discriminate; auto.
    + intros [c [r [E _]]]. discriminate.
    + intros [c [r [E _]]]. discriminate.
  - destruct (ident_loop 0 (c :: r)) as [e|] eqn:L.
    + cbn [ident_loop] in L. change (0 =? 0) with true in L. cbv iota in L.
      destruct (ident_first_bad c) eqn:E.
      * inv L.
        assert (Hc : ~ alpha c) by (intros C; apply first_bad_spec in C; congruence).
        split; [|split; [|split; [|split]]]; try discriminate.
        -- split; [discriminate|]. intros [c' [r' [E' [H1 _]]]]. inv E'. contradiction.
        -- split; discriminate.
        -- split; auto. intros _. exists c, r. auto.
      * apply first_bad_spec in E.
        destruct (ident_loop_tail_kind r (0 + 1) ltac:(lia)) as [K1 K2].
        destruct e as [| |k]; try congruence.
        split; [|split; [|split; [|split]]]; try discriminate.
        -- split; [discriminate|]. intros [c' [r' [E' [H1 H2]]]]. inv E'.
           apply (ident_loop_tail r' (0 + 1)) in H2; [congruence|lia].
        -- split; discriminate.
        -- split; [discriminate|]. intros [c' [r' [E' H]]]. inv E'. contradiction.
        -- intros i H. inv H.
           apply ident_loop_trailing in L; [|lia]. destruct L as [L1 [L2 L3]].
           unfold blen in *. cbn [length]. split; [lia|].
           assert (Ek : N.to_nat i = S (N.to_nat (i - (0 + 1)))) by lia. rewrite Ek. cbn [nth]. exact L3.
    + apply ident_loop_head in L as L'.
      assert (Hre : ident_re (c :: r)) by (exists c, r; tauto).
      pose proof (ident_re_no_nul _ Hre) as Hn. apply text_validate_ok in Hn. rewrite Hn.
      split; [|split; [|split; [|split]]]; try discriminate.
      * tauto.
      * split; discriminate.
      * split; [discriminate|]. intros [c' [r' [E H]]]. inv E. tauto.
Qed.

Lemma ident_validate_ok s : ident_validate s = VOk <-> ident_re s.
Proof. apply ident_valid_iff_proof. Qed.

Definition ident_is_text_stmt : Prop := forall s, ident_validate s = VOk -> text_validate s = None.
Lemma ident_is_text_proof : ident_is_text_stmt.
Proof. intros s H. apply text_validate_ok, ident_re_no_nul, ident_validate_ok, H. Qed.

(** * [Repr] *)
Lemma max_inline_u8 n : n <= MAX_INLINE -> as_u8 n = n.
Proof. intros H. unfold as_u8. apply N.mod_small. destruct gen_pins as [_ [_ [P _]]]. lia. Qed.

Definition repr_roundtrip_stmt : Prop :=
  forall s, repr_as_str (repr_from_str s) = s /\ repr_assert (repr_from_str s) = true.
Lemma repr_roundtrip_proof : repr_roundtrip_stmt.
Proof.
  intros s. unfold repr_from_str. change FROM_STR_INLINE_LE with true. cbv iota.
  destruct (N.leb_spec (blen s) MAX_INLINE) as [H|H]; cbn [repr_as_str repr_assert].
  - rewrite max_inline_u8 by exact H. split; [|apply N.leb_le; exact H].
    unfold blen. rewrite Nat2N.id, firstn_app, firstn_all, Nat.sub_diag, firstn_O, app_nil_r. reflexivity.
  - auto.
Qed.

Lemma as_str_from_str s : repr_as_str (repr_from_str s) = s.
Proof. apply repr_roundtrip_proof. Qed.

(** Which variant [from_str] picks: inline up to and including [MAX_INLINE] bytes. *)
Definition repr_variant_stmt : Prop :=
  forall s, match repr_from_str s with
            | Inline bytes n => blen s <= MAX_INLINE /\ n = blen s /\ blen bytes = MAX_INLINE
            | Heap s' => MAX_INLINE < blen s /\ s' = s
            | Static _ => False
            end.
Lemma repr_variant_proof : repr_variant_stmt.
Proof.
  intros s. unfold repr_from_str. change FROM_STR_INLINE_LE with true. cbv iota.
  destruct (N.leb_spec (blen s) MAX_INLINE) as [H|H]; [|auto].
  rewrite max_inline_u8 by exact H. repeat split; auto.
  unfold blen in *. rewrite app_length, repeat_length. lia.
Qed.

(** * Eq / Ord / Hash *)
Lemma bytes_eqb_spec a : forall b, bytes_eqb a b = true <-> a = b.
Proof.
  induction a as [|x a IH]; intros [|y b]; cbn [bytes_eqb]; try (split; [discriminate|congruence]); [tauto|].
  rewrite andb_true_iff, N.eqb_eq, IH. split; [intros [-> ->]; reflexivity|intros H; inv H; auto].
Qed.

Lemma bytes_cmp_eq a : forall b, bytes_cmp a b = Eq <-> a = b.
Proof.
  induction a as [|x a IH]; intros [|y b]; cbn [bytes_cmp]; try (split; [discriminate|congruence]); [tauto|].
  destruct (N.compare_spec x y) as [->|H|H].
  - rewrite IH. split; [intros ->; reflexivity|intros E; inv E; auto].
  - split; [discriminate|]. intros E. inv E. lia.
  - split; [discriminate|]. intros E. inv E. lia.
Qed.

Lemma bytes_cmp_antisym a : forall b, bytes_cmp b a = CompOpp (bytes_cmp a b).
Proof.
  induction a as [|x a IH]; intros [|y b]; cbn [bytes_cmp]; auto.
  rewrite (N.compare_antisym x y). destruct (x ?= y); cbn [CompOpp]; auto.
Qed.

Lemma bytes_cmp_trans a : forall b c, bytes_cmp a b = Lt -> bytes_cmp b c = Lt -> bytes_cmp a c = Lt.
Proof.
  induction a as [|x a IH]; intros [|y b] [|z c]; cbn [bytes_cmp]; try discriminate; auto.
  destruct (N.compare_spec x y) as [->|H1|H1]; try discriminate.
  - destruct (N.compare_spec y z) as [->|H2|H2]; try discriminate; auto. apply IH.
  - intros _. destruct (N.compare_spec y z) as [->|H2|H2]; try discriminate; intros _.
    + destruct (N.compare_spec x z); auto; lia.
    + destruct (N.compare_spec x z); auto; lia.
Qed.

Definition eq_ord_hash_content_stmt : Prop :=
  (* the three are functions of the content alone, whatever the storage *)
  (forall a a' b b', repr_as_str a = repr_as_str a' -> repr_as_str b = repr_as_str b' ->
     repr_eq a b = repr_eq a' b' /\ repr_cmp a b = repr_cmp a' b' /\ repr_hash a = repr_hash a')
  (* and they are the equality / a total order / an injective feed on contents *)
  /\ (forall a b, repr_eq a b = true <-> repr_as_str a = repr_as_str b)
  /\ (forall a b, repr_cmp a b = Eq <-> repr_as_str a = repr_as_str b)
  /\ (forall a b, repr_cmp b a = CompOpp (repr_cmp a b))
  /\ (forall a b c, repr_cmp a b = Lt -> repr_cmp b c = Lt -> repr_cmp a c = Lt)
  /\ (forall a b, repr_hash a = repr_hash b <-> repr_as_str a = repr_as_str b)
  (* in particular across the three storages of one string *)
  /\ (forall s, let vs := [Static s; repr_from_str s; Heap s] in
       forall x y, In x vs -> In y vs -> repr_eq x y = true /\ repr_cmp x y = Eq /\ repr_hash x = repr_hash y).
Lemma eq_ord_hash_content_proof : eq_ord_hash_content_stmt.
Proof.
  unfold eq_ord_hash_content_stmt, repr_eq, repr_cmp, repr_hash.
  split; [|split; [|split; [|split; [|split; [|split]]]]].
  - intros a a' b b' Ha Hb. rewrite Ha, Hb. auto.
  - intros. apply bytes_eqb_spec.
  - intros. apply bytes_cmp_eq.
  - intros. apply bytes_cmp_antisym.
  - intros a b c. apply bytes_cmp_trans.
  - intros a b. split; [intros H; apply app_inj_tail in H; tauto|intros ->; reflexivity].
  - intros s. cbv zeta. intros x y Hx Hy.
    assert (C : forall v, In v [Static s; repr_from_str s; Heap s] -> repr_as_str v = s).
    { intros v [<-|[<-|[<-|[]]]]; auto using as_str_from_str. }
    rewrite (C x Hx), (C y Hy). repeat split; [apply bytes_eqb_spec|apply bytes_cmp_eq]; reflexivity.
Qed.

(** * Every way of producing a value *)
Definition text_inv (r : repr) : Prop := no_nul (repr_as_str r) /\ repr_assert r = true.
Definition ident_inv (r : repr) : Prop := ident_re (repr_as_str r) /\ repr_assert r = true.

Lemma from_str_text_inv s : no_nul s -> text_inv (repr_from_str s).
Proof. intros H. destruct (repr_roundtrip_proof s) as [E A]. split; [rewrite E|]; auto. Qed.
Lemma from_str_ident_inv s : ident_re s -> ident_inv (repr_from_str s).
Proof. intros H. destruct (repr_roundtrip_proof s) as [E A]. split; [rewrite E|]; auto. Qed.
Lemma ident_inv_text_inv r : ident_inv r -> text_inv r.
Proof. intros [H A]. split; auto using ident_re_no_nul. Qed.

Lemma macro_text_spec lit : macro_validate_text lit = true -> no_nul lit.
Proof.
  unfold macro_validate_text, no_nul. intros H Hin.
  apply negb_true_iff in H.
  assert (existsb (fun b => b =? 0) lit = true) by (apply existsb_exists; exists 0; split; auto).
  congruence.
Qed.

Lemma macro_ident_spec lit : macro_validate_identifier lit = true -> ident_re lit.
Proof.
  unfold macro_validate_identifier. destruct lit as [|c r]; [discriminate|].
  rewrite andb_true_iff, forallb_forall. intros [Hc Hr]. exists c, r. split; auto. split.
  - apply first_bad_spec. unfold ident_first_bad. rewrite Hc. reflexivity.
  - apply Forall_forall. intros b Hb. apply tail_bad_spec. unfold ident_tail_bad. rewrite (Hr b Hb). reflexivity.
Qed.

Inductive text_produced : repr -> Prop :=
| TP_new : text_produced text_new
| TP_default : text_produced text_default
| TP_literal lit : macro_validate_text lit = true -> text_produced (text_from_literal lit)
| TP_from_str s r : text_from_str s = TOk r -> text_produced r
| TP_try_from_string s r : text_try_from_string s = TOk r -> text_produced r
| TP_cstr c r : no_nul c -> text_try_from_cstr c = TOk r -> text_produced r  (* a CStr has no interior NUL *)
| TP_add a b r : text_produced a -> text_produced b -> text_add a b = TOk r -> text_produced r
| TP_deserialize s r : text_deserialize s = TOk r -> text_produced r
| TP_deserialize_bytes b r : text_deserialize_bytes b = TOk r -> text_produced r
| TP_archived b : archived_text_access b = true -> text_produced (archived_text_deserialize b)
| TP_rkyv_from_bytes b r : text_rkyv_from_bytes b = TOk r -> text_produced r
| TP_from_ident i : ident_produced i -> text_produced (text_from_ident i)
with ident_produced : repr -> Prop :=
| IP_literal lit : macro_validate_identifier lit = true -> ident_produced (ident_from_literal lit)
| IP_from_str s r : ident_from_str s = IOk r -> ident_produced r
| IP_try_from_string s r : ident_try_from_string s = IOk r -> ident_produced r
| IP_try_from_text t r : text_produced t -> ident_try_from_text t = IOk r -> ident_produced r
| IP_deserialize s r : ident_deserialize s = IOk r -> ident_produced r
| IP_deserialize_bytes b r : ident_deserialize_bytes b = IOk r -> ident_produced r
| IP_archived b : archived_ident_access b = true -> ident_produced (archived_ident_deserialize b)
| IP_rkyv_from_bytes b r : ident_rkyv_from_bytes b = IOk r -> ident_produced r.

Scheme text_produced_mind := Minimality for text_produced Sort Prop
  with ident_produced_mind := Minimality for ident_produced Sort Prop.
Combined Scheme produced_mutind from text_produced_mind, ident_produced_mind.

Lemma of_vres_ok s r r' : of_vres (ident_validate s) r = IOk r' -> r' = r /\ ident_re s.
Proof.
  unfold of_vres. destruct (ident_validate s) eqn:E; try discriminate.
  intros H. inv H. split; auto. apply ident_validate_ok; auto.
Qed.

Lemma archived_ident_access_spec b : archived_ident_access b = true -> ident_re b.
Proof.
  unfold archived_ident_access. rewrite !andb_true_iff. intros [_ H].
  destruct (ident_validate b) eqn:E; try discriminate. apply ident_validate_ok; auto.
Qed.
Lemma archived_text_access_spec b : archived_text_access b = true -> no_nul b.
Proof.
  unfold archived_text_access. rewrite andb_true_iff. intros [_ H].
  destruct (text_validate b) eqn:E; try discriminate. apply text_validate_ok; auto.
Qed.

Lemma text_from_str_inv s r : text_from_str s = TOk r -> text_inv r.
Proof.
  unfold text_from_str. destruct (text_validate s) eqn:E; [discriminate|].
  intros H. inv H. apply from_str_text_inv, text_validate_ok; auto.
Qed.
Lemma text_cstr_inv c r : no_nul c -> text_try_from_cstr c = TOk r -> text_inv r.
Proof. unfold text_try_from_cstr. destruct (utf8_valid c); [|discriminate]. intros Hc H. inv H. apply from_str_text_inv; auto. Qed.
Lemma text_add_inv a b : text_inv a -> text_inv b -> exists r, text_add a b = TOk r /\ text_inv r
                                                       /\ repr_as_str r = repr_as_str a ++ repr_as_str b.
Proof.
  intros [Ha _] [Hb _]. unfold text_add.
  pose proof (no_nul_app _ _ Ha Hb) as H. apply text_validate_ok in H as H'. rewrite H'.
  eexists. split; [reflexivity|]. split; [apply from_str_text_inv; auto|apply as_str_from_str].
Qed.
Lemma text_deserialize_inv s r : text_deserialize s = TOk r -> text_inv r.
Proof.
  unfold text_deserialize. rewrite as_str_from_str. destruct (text_validate s) eqn:E; [discriminate|].
  intros H. inv H. apply from_str_text_inv, text_validate_ok; auto.
Qed.
Lemma ident_deserialize_inv s r : ident_deserialize s = IOk r -> ident_inv r.
Proof.
  unfold ident_deserialize. rewrite as_str_from_str. destruct (ident_validate s) eqn:E; try discriminate.
  intros H. inv H. apply from_str_ident_inv, ident_validate_ok; auto.
Qed.

(** "Every text value, however it is produced, contains no NUL byte, and every identifier matches
    [a-zA-Z][a-zA-Z0-9_]*" — closed under concatenation and the Text <-> Identifier conversions. *)
Definition produced_invariant_stmt : Prop :=
  (forall r, text_produced r -> no_nul (repr_as_str r) /\ repr_assert r = true)
  /\ (forall r, ident_produced r -> ident_re (repr_as_str r) /\ repr_assert r = true).
Lemma produced_invariant_proof : produced_invariant_stmt.
Proof.
  change ((forall r, text_produced r -> text_inv r) /\ (forall r, ident_produced r -> ident_inv r)).
  apply produced_mutind.
  - split; [intros []|reflexivity].
  - split; [intros []|reflexivity].
  - intros lit H. split; [apply macro_text_spec; auto|reflexivity].
  - intros s r H. eapply text_from_str_inv; eauto.
  - intros s r H. eapply text_from_str_inv; eauto.
  - intros c r Hc H. eapply text_cstr_inv; eauto.
  - intros a b r _ Ha _ Hb H. destruct (text_add_inv a b Ha Hb) as [r' [E [I _]]]. congruence.
  - intros s r H. eapply text_deserialize_inv; eauto.
  - intros b r H. unfold text_deserialize_bytes in H. destruct (utf8_valid b); [|discriminate].
    eapply text_deserialize_inv; eauto.
  - intros b H. apply from_str_text_inv, archived_text_access_spec; auto.
  - intros b r H. unfold text_rkyv_from_bytes in H. destruct (archived_text_access b) eqn:E; [|discriminate].
    inv H. apply from_str_text_inv, archived_text_access_spec; auto.
  - intros i _ H. apply ident_inv_text_inv; auto.
  - intros lit H. split; [apply macro_ident_spec; auto|reflexivity].
  - intros s r H. apply of_vres_ok in H. destruct H as [-> H]. apply from_str_ident_inv; auto.
  - intros s r H. apply of_vres_ok in H. destruct H as [-> H]. apply from_str_ident_inv; auto.
  - intros t r _ [_ A] H. apply of_vres_ok in H. destruct H as [-> H]. split; auto.
  - intros s r H. eapply ident_deserialize_inv; eauto.
  - intros b r H. unfold ident_deserialize_bytes in H. destruct (utf8_valid b); [|discriminate].
    eapply ident_deserialize_inv; eauto.
  - intros b H. apply from_str_ident_inv, archived_ident_access_spec; auto.
  - intros b r H. unfold ident_rkyv_from_bytes in H. destruct (archived_ident_access b) eqn:E; [|discriminate].
    inv H. apply from_str_ident_inv, archived_ident_access_spec; auto.
Qed.

(** None of the [debug_assert!]s can fire on produced values. *)
Definition no_debug_panic_stmt : Prop :=
  (forall s, ident_validate s <> VPanic)
  /\ (forall a b, text_produced a -> text_produced b -> text_add a b <> TPanic)
  /\ (forall s, ident_from_str s <> IPanic /\ ident_deserialize s <> IPanic)
  /\ (forall t, ident_try_from_text t <> IPanic).
Lemma no_debug_panic_proof : no_debug_panic_stmt.
Proof.
  assert (V : forall s, ident_validate s <> VPanic) by (intros s; apply ident_valid_iff_proof).
  split; [exact V|]. split; [|split].
  - intros a b Ha Hb. destruct produced_invariant_proof as [P _].
    destruct (text_add_inv a b (P a Ha) (P b Hb)) as [r [E _]]. congruence.
  - intros s. unfold ident_from_str, ident_deserialize, of_vres. specialize (V s).
    rewrite as_str_from_str. destruct (ident_validate s); split; congruence.
  - intros t. unfold ident_try_from_text, of_vres. specialize (V (repr_as_str t)).
    destruct (ident_validate (repr_as_str t)); congruence.
Qed.

(** Decoders keep the content: whatever is accepted reads back as the input string. *)
Definition decoders_preserve_content_stmt : Prop :=
  forall s r,
  (text_from_str s = TOk r \/ text_try_from_cstr s = TOk r \/ text_deserialize s = TOk r
   \/ text_deserialize_bytes s = TOk r \/ text_rkyv_from_bytes s = TOk r -> repr_as_str r = s)
  /\ (ident_from_str s = IOk r \/ ident_deserialize s = IOk r \/ ident_deserialize_bytes s = IOk r
      \/ ident_rkyv_from_bytes s = IOk r -> repr_as_str r = s).
Lemma decoders_preserve_content_proof : decoders_preserve_content_stmt.
Proof.
  intros s r. split.
  - unfold text_from_str, text_try_from_cstr, text_deserialize_bytes, text_deserialize, text_rkyv_from_bytes,
      archived_text_deserialize.
    rewrite as_str_from_str.
    intros [H|[H|[H|[H|H]]]];
      repeat match type of H with
             | context [match ?x with _ => _ end] => destruct x; try discriminate
             | context [if ?x then _ else _] => destruct x; try discriminate
             end; inv H; apply as_str_from_str.
  - unfold ident_from_str, ident_deserialize_bytes, ident_deserialize, ident_rkyv_from_bytes,
      archived_ident_deserialize, of_vres.
    rewrite as_str_from_str.
    intros [H|[H|[H|H]]];
      repeat match type of H with
             | context [match ?x with _ => _ end] => destruct x; try discriminate
             | context [if ?x then _ else _] => destruct x; try discriminate
             end; inv H; apply as_str_from_str.
Qed.

(** * The constructor ledger *)
Open Scope string_scope.
(** Entries of the generated ledger that do not call [validate], each with the lemma that makes it safe. *)
Definition allow_just : list (string * string * Prop) := [
  ("text.rs", "Text::new", text_inv text_new);
  ("text.rs", "Text::__from_literal",
     forall lit, macro_validate_text lit = true -> text_inv (text_from_literal lit));
  ("text.rs", "TryFrom<&CStr> for Text::try_from",
     forall c r, no_nul c -> text_try_from_cstr c = TOk r -> text_inv r);
  ("text.rs", "Add for &Text::add",
     forall a b, text_inv a -> text_inv b ->
       exists r, text_add a b = TOk r /\ text_inv r /\ repr_as_str r = app (repr_as_str a) (repr_as_str b));
  ("ident.rs", "Identifier::__from_literal",
     forall lit, macro_validate_identifier lit = true -> ident_inv (ident_from_literal lit));
  ("ident.rs", "From<Identifier> for Text::from", forall i, ident_inv i -> text_inv (text_from_ident i));
  ("ident.rs", "ArchivedIdentifier::deserialize",
     forall b, archived_ident_access b = true -> ident_inv (archived_ident_deserialize b))
].
Lemma allow_justified : Forall (fun e => snd e) allow_just.
Proof.
  unfold allow_just.
  apply Forall_cons; [cbn [snd]; split; [intros []|reflexivity]|].
  apply Forall_cons; [cbn [snd]; intros lit H; split; [apply macro_text_spec; auto|reflexivity]|].
  apply Forall_cons; [cbn [snd]; intros c r Hc H; eapply text_cstr_inv; eauto|].
  apply Forall_cons; [cbn [snd]; apply text_add_inv|].
  apply Forall_cons; [cbn [snd]; intros lit H; split; [apply macro_ident_spec; auto|reflexivity]|].
  apply Forall_cons; [cbn [snd]; apply ident_inv_text_inv|].
  apply Forall_cons; [cbn [snd]; intros b H; apply from_str_ident_inv, archived_ident_access_spec; auto|].
  apply Forall_nil.
Qed.

Definition allow : list (string * string) := map fst allow_just.
Definition entry_ok (e : string * string * bool * bool) : bool :=
  let '(f, k, validated, unsafe_fn) := e in
  (validated && negb unsafe_fn)
  || existsb (fun a => String.eqb (fst a) f && String.eqb (snd a) k) allow.
(** derives that create values: [Clone] copies a value, [Default] is the empty text (fine for [Text],
    not derivable for [Identifier]), rkyv's [Deserialize] goes through [Repr::from_str] on a verified archive. *)
Definition text_derives_ok : list string :=
  ["Clone"; "Default"; "PartialEq"; "Eq"; "Hash"; "PartialOrd"; "Ord"; "rkyv::Archive"; "rkyv::Serialize"; "rkyv::Deserialize"].
Definition ident_derives_ok : list string :=
  ["Clone"; "PartialEq"; "Eq"; "Hash"; "PartialOrd"; "Ord"; "rkyv::Archive"; "rkyv::Serialize"; "rkyv::Deserialize"].
Definition subset (a b : list string) : bool := forallb (fun x => existsb (String.eqb x) b) a.

Definition ledger_discharged_stmt : Prop :=
  forallb entry_ok CTOR_LEDGER = true
  /\ subset TEXT_DERIVES text_derives_ok = true
  /\ subset IDENT_DERIVES ident_derives_ok = true
  /\ TEXT_BYTECHECK_VERIFY = true /\ IDENT_BYTECHECK_VERIFY = true
  /\ Forall (fun e => snd e) allow_just.
Lemma ledger_discharged_proof : ledger_discharged_stmt.
Proof.
  split; [vm_compute; reflexivity|]. split; [vm_compute; reflexivity|]. split; [vm_compute; reflexivity|].
  split; [reflexivity|]. split; [reflexivity|]. exact allow_justified.
Qed.
Close Scope string_scope.

(** * Non-vacuity *)
Example text_examples :
  text_from_str [104; 105] = TOk (Inline ([104; 105] ++ repeat 0 20) 2)
  /\ text_from_str [104; 0; 105] = TErr (ContainsNul 1)
  /\ (exists r, text_from_str (repeat 97 23) = TOk r /\ r = Heap (repeat 97 23))
  /\ ident_from_str [120; 95; 49] = IOk (repr_from_str [120; 95; 49])
  /\ ident_from_str [49; 120] = IErr InitialNotAlphabetic
  /\ ident_from_str [120; 45] = IErr (TrailingNotValid 1)
  /\ ident_from_str [] = IErr NotEmpty
  /\ text_produced (Inline ([104; 105] ++ repeat 0 20) 2)
  /\ repr_eq (Static (repeat 97 23)) (Heap (repeat 97 23)) = true
  /\ text_deserialize_bytes [195] = TUtf8
  /\ archived_ident_access [120; 0] = false.
Proof.
  repeat split; try (vm_compute; reflexivity).
  - eexists. split; vm_compute; reflexivity.
  - apply (TP_from_str [104; 105]). vm_compute. reflexivity.
Qed.
