(** Invariants of the shared-memory channel table under every interleaving
    (C42; the reader-side invariants for C41/C40 are in ShmReaders.v). *)
From Coq Require Import String.
From Aranya Require Import gen.GenShm base.Tactics base.Sched model.Shm proofs.ShmLists proofs.ShmSteps.
From Coq Require Import Permutation.

(** ** Pinned skeletons: the step sequences the model was transcribed from.
    If an edit of the Rust sources changes the order or the presence of an
    atomic access, a lock, a generation bump or an early return, the
    regenerated [GenShm] no longer matches and these lemmas stop compiling. *)
Local Open Scope string_scope.
Lemma skeleton_write_add : sk_write_add =
  ["fetch_add_next_id"; "load_write_off"; "lock"; "if_full_ret_oos"; "idx_is_len"; "init_chan_at_idx";
   "gen_bump"; "len_inc"; "assert_len_le_cap"; "swap_read_off"; "lock"; "init_chan_at_idx"; "gen_bump";
   "len_inc"; "assert_len_le_cap"; "store_write_off"].
Proof. reflexivity. Qed.
Lemma skeleton_write_remove : sk_write_remove =
  ["load_write_off"; "lock"; "if_empty_ret_ok"; "find_by_id"; "notfound_ret_ok"; "gen_bump"; "swap_remove_idx";
   "swap_read_off"; "lock"; "gen_bump"; "swap_remove_idx"; "store_write_off"].
Proof. reflexivity. Qed.
Lemma skeleton_write_remove_all : sk_write_remove_all =
  ["load_write_off"; "lock"; "list_clear"; "swap_read_off"; "lock"; "list_clear"; "store_write_off"].
Proof. reflexivity. Qed.
Lemma skeleton_write_remove_if : sk_write_remove_if =
  ["load_write_off"; "lock"; "if_empty_ret_ok"; "list_remove_if"; "swap_read_off"; "lock"; "list_remove_if";
   "store_write_off"].
Proof. reflexivity. Qed.
Lemma skeleton_write_exists : sk_write_exists = ["load_write_list"; "lock"; "list_exists_any"].
Proof. reflexivity. Qed.
Lemma skeleton_list_ops :
  sk_list_clear = ["len_zero"; "gen_bump"]
  /\ sk_list_remove_if = ["while_get_idx"; "if_not_f_next"; "if_not_updated"; "gen_bump"; "set_updated"; "self_swap_remove_idx"]
  /\ sk_list_swap_remove = ["err_if_len_zero"; "err_if_idx_ge_len"; "swap_if_len_gt_1"; "len_dec"; "assert_len_le_cap"]
  /\ sk_list_find = ["hint_get"; "hint_filter_id_and_op"; "ret_hint"; "linear_find_id_and_op"]
  /\ sk_list_find_mut = sk_list_find.
Proof. repeat split; reflexivity. Qed.
Lemma skeleton_read_setup :
  sk_read_setup_seal_ctx = ["load_read_list"; "lock"; "gen_load_locked"; "find_seal_nohint"; "ret_not_found"; "key_from_raw_seq_zero"; "new_cache"]
  /\ sk_read_setup_open_ctx = ["load_read_list"; "lock"; "gen_load_locked"; "find_open_nohint"; "ret_not_found"; "open_key_from_raw"; "new_cache"]
  /\ sk_read_exists = ["load_read_list"; "lock"; "list_exists_any"].
Proof. repeat split; reflexivity. Qed.
Lemma skeleton_read_seal : sk_read_seal =
  ["ctx_none_ret_key_expired"; "load_read_list"; "gen_load_unlocked"; "if_gen_eq_hit_call_f"; "hint_is_cache_idx";
   "lock"; "gen_load_locked"; "find_seal_hint"; "ctx_clear"; "ret_not_found"; "key_from_raw_cached_seq"; "call_f";
   "if_ok"; "cache_idx"; "cache_gen"; "cache_key"; "ret_result"].
Proof. reflexivity. Qed.
Lemma skeleton_read_open : sk_read_open =
  ["ctx_none_ret_key_expired"; "load_read_list"; "gen_load_unlocked"; "if_gen_eq_hit_call_f"; "hint_is_cache_idx";
   "lock"; "find_open_hint"; "ret_not_found"; "open_key_from_raw"; "call_f"; "if_ok"; "cache_idx";
   "cache_gen_locked"; "cache_key"; "ret_result"].
Proof. reflexivity. Qed.
Lemma skeleton_seal_key :
  sk_keys_from_raw = ["sealctx_new_with_seq"] /\ sk_keys_seal = ["ctx_seal"]
  /\ sk_keys_seal_in_place = ["ctx_seal_in_place"] /\ sk_keys_seq = ["ctx_seq"]
  /\ seal_limit_maps_to = "KeyExpired".
Proof. repeat split; reflexivity. Qed.
Local Close Scope string_scope.

(** ** Basic facts about the shared-memory record *)
Lemma side_set_same m o s : side_of (set_side m o s) o = s.
Proof. destruct o; reflexivity. Qed.
Lemma side_set_flip m o s : side_of (set_side m o s) (flip o) = side_of m (flip o).
Proof. destruct o; reflexivity. Qed.
Lemma set_side_woff m o s : woff (set_side m o s) = woff m.
Proof. destruct o; reflexivity. Qed.
Lemma set_side_roff m o s : roff (set_side m o s) = roff m.
Proof. destruct o; reflexivity. Qed.
Lemma set_side_next m o s : next_id (set_side m o s) = next_id m.
Proof. destruct o; reflexivity. Qed.
Lemma set_side_sync m o : sA (set_side m (flip o) (side_of m o)) = sB (set_side m (flip o) (side_of m o)).
Proof. destruct o; reflexivity. Qed.
Lemma flip_flip o : flip (flip o) = o.
Proof. destruct o; reflexivity. Qed.
Lemma flip_neq o : flip o <> o.
Proof. destruct o; discriminate. Qed.
Lemma neq_flip a b : a <> b -> a = flip b.
Proof. destruct a, b; cbn; congruence. Qed.
Lemma sides_eq m : sA m = sB m -> forall o o', side_of m o = side_of m o'.
Proof. intros H [] []; cbn; congruence. Qed.

Section Inv.
Variable CAP : N.

Definition side_ok (s : side) : Prop :=
  cap s = CAP /\ (N.of_nat (length (chans s)) <= CAP)%N /\ NoDup (ids (chans s)).

Definition in_sync (m : shm) : Prop := sA m = sB m /\ roff m <> woff m.

Definition is_add (op : wop) : bool := match op with WAdd _ _ _ _ => true | _ => false end.

(** where the writer is in its call, and what that means for the two sides *)
Definition winv (m : shm) (w : wthread) : Prop :=
  match wprog w with
  | [] => in_sync m
  | op :: _ =>
      match wpc_ w with
      | W0 | W2 => in_sync m
      | W1 => in_sync m /\ is_add op = true
      | W3 => in_sync m /\ w_w w = woff m
      | W4 => woff m = w_w w /\ roff m = flip (w_w w)
              /\ sec2 op (w_id w) (w_idx w) (side_of m (flip (w_w w))) = S2Ok (side_of m (w_w w))
      | W5 => woff m = w_w w /\ roff m = w_w w /\ w_r w = flip (w_w w)
              /\ sec2 op (w_id w) (w_idx w) (side_of m (flip (w_w w))) = S2Ok (side_of m (w_w w))
      | W6 => sA m = sB m /\ woff m = w_w w /\ roff m = w_w w /\ w_r w = flip (w_w w)
      end
  end.

Fixpoint count_adds (log : list (wop * wres)) : nat :=
  match log with
  | [] => 0
  | (op, _) :: rest => (if is_add op then 1 else 0) + count_adds rest
  end.
(** the id returned by the i-th [add] call is i, whether or not earlier calls failed *)
Fixpoint log_ok (log : list (wop * wres)) : Prop :=
  match log with
  | [] => True
  | (op, r) :: rest =>
      log_ok rest /\
      (if is_add op then r = WOutOfSpace \/ r = WOkId (N.of_nat (count_adds rest))
       else r <> WCorrupted /\ r <> WPanic /\ r <> WDiverged)
  end.
(** an add that has taken its id *)
Definition add_in_flight (w : wthread) : bool :=
  match wprog w with
  | op :: _ => is_add op && match wpc_ w with W0 | W1 => false | _ => true end
  | [] => false
  end.
(** ... and has not yet written the channel *)
Definition add_pending (w : wthread) : bool :=
  match wprog w with
  | op :: _ => is_add op && match wpc_ w with W2 | W3 => true | _ => false end
  | [] => false
  end.

Record idinv (m : shm) (w : wthread) (rg : list chan) : Prop := {
  id_sA : side_ok (sA m);
  id_sB : side_ok (sB m);
  id_reg : forall c, In c (chans (sA m)) \/ In c (chans (sB m)) -> In c rg;
  id_nodup : NoDup (ids rg);
  id_lt : forall c, In c rg -> (cid c < next_id m)%N;
  id_next : next_id m = N.of_nat (count_adds (wlog w) + if add_in_flight w then 1 else 0);
  id_cur : add_in_flight w = true -> w_id w = N.of_nat (count_adds (wlog w));
  id_pending : add_pending w = true -> ~ In (w_id w) (ids rg);
  id_log : log_ok (wlog w) }.

(** every list a side holds is one of the last two versions the writer produced *)
Definition histinv (m : shm) (w : wthread) (h : list (list chan)) : Prop :=
  match h with
  | [] => False
  | h0 :: t =>
      match wprog w, wpc_ w with
      | _ :: _, (W4 | W5) =>
          chans (side_of m (w_w w)) = h0
          /\ (chans (side_of m (flip (w_w w))) = h0 \/ exists t', t = chans (side_of m (flip (w_w w))) :: t')
      | _, _ => chans (sA m) = h0 /\ chans (sB m) = h0
      end
  end.

Definition inv (g : G) : Prop :=
  winv (sh g) (wt g) /\ idinv (sh g) (wt g) (reg g) /\ histinv (sh g) (wt g) (hist g).

Lemma rstep_frame i g :
  sh (rstep i g) = sh g /\ wt (rstep i g) = wt g /\ reg (rstep i g) = reg g /\ hist (rstep i g) = hist g
  /\ seqmax (rstep i g) = seqmax g.
Proof. repeat split. Qed.

Lemma side_ok_both m : side_ok (sA m) -> side_ok (sB m) -> forall o, side_ok (side_of m o).
Proof. intros ? ? []; auto. Qed.

Lemma inv_wstep g : inv g -> inv (wstep g).
Proof.
  intros (Hw & Hi & Hh). unfold wstep.
  destruct (wprog (wt g)) as [|op rest] eqn:Ep; [unfold inv; auto|].
  destruct (wpc_ (wt g)) eqn:Epc.
  - (* W0: the call starts *)
    unfold inv, winv, histinv, add_in_flight, add_pending in *. cbn. rewrite Ep, Epc in *.
    split; [destruct op; auto|].
    split; [|destruct (hist g); auto; destruct op; cbn; auto].
    destruct Hi. constructor; cbn; auto; unfold add_in_flight, add_pending in *; cbn; rewrite ?Ep, ?Epc in *; cbn in *;
      destruct op; cbn in *; rewrite ?andb_false_r in *; auto; try discriminate.
  - (* W1: fetch_add *)
    unfold inv, winv, histinv in *. cbn. rewrite Ep, Epc in *.
    destruct Hw as [Hw Hadd].
    split; [exact Hw|]. split; [|destruct (hist g); auto].
    destruct Hi as [HA HB Hreg Hnd Hlt Hnext Hcur Hpend Hlog].
    unfold add_in_flight, add_pending in *. rewrite Ep, Epc in *. cbn in *.
    constructor; cbn; auto; unfold add_in_flight, add_pending; cbn; rewrite ?Ep; cbn; rewrite ?Hadd in *; cbn in *.
    + intros c Hc. apply Hlt in Hc. lia.
    + rewrite Hnext. lia.
    + intros _. rewrite Hnext. f_equal. lia.
    + intros _ Hin. unfold ids in Hin. rewrite in_map_iff in Hin. destruct Hin as (c & Hc & Hin).
      apply Hlt in Hin. lia.
  - (* W2: load write_off *)
    unfold inv, winv, histinv in *. cbn. rewrite Ep, Epc in *.
    split; [split; auto|]. split; [|destruct (hist g); auto].
    destruct Hi as [HA HB Hreg Hnd Hlt Hnext Hcur Hpend Hlog].
    unfold add_in_flight, add_pending in *. rewrite Ep, Epc in *.
    constructor; cbn; auto; unfold add_in_flight, add_pending; cbn; rewrite ?Ep; cbn; auto.
  - (* W3: first locked section *)
    unfold inv, winv in Hw. rewrite Ep, Epc in Hw. destruct Hw as [[Hsync Hneq] Hww].
    destruct Hi as [HA HB Hreg Hnd Hlt Hnext Hcur Hpend Hlog].
    pose proof (side_ok_both _ HA HB (w_w (wt g))) as Hs.
    destruct (sec1 op (w_id (wt g)) (side_of (sh g) (w_w (wt g)))) as [r|s' idx] eqn:E1.
    + (* early return *)
      unfold inv, winv, histinv in *. cbn. rewrite Ep, Epc in *.
      split; [destruct rest; split; auto|].
      split; [|destruct (hist g); auto; destruct rest; auto].
      apply sec1_fin in E1.
      unfold add_in_flight, add_pending in *. rewrite Ep, Epc in *.
      constructor; cbn; auto; unfold add_in_flight, add_pending; cbn; rewrite ?Ep; cbn [tl].
      * destruct rest as [|op' rest']; cbn; rewrite Hnext; destruct (is_add op); cbn; rewrite ?andb_false_r; lia.
      * destruct rest as [|op' rest']; cbn; rewrite ?andb_false_r; discriminate.
      * destruct rest as [|op' rest']; cbn; rewrite ?andb_false_r; discriminate.
      * split; auto. destruct op; cbn in *; try tauto.
        -- destruct E1 as [-> _]. repeat split; discriminate.
        -- destruct E1 as [-> _]. repeat split; discriminate.
        -- subst r. repeat split; discriminate.
    + (* the section edits the write side *)
      pose proof (sec1_go _ _ _ _ _ E1) as (Hcap & H2 & Hgen & Hsub & Hndp & Hlen & Hkeep & Hnew).
      destruct Hs as (Hc1 & Hc2 & Hc3).
      assert (Hfresh : forall c, In c (new_chans op (w_id (wt g))) ->
                ~ In (cid c) (ids (chans (side_of (sh g) (w_w (wt g)))))).
      { intros c Hc Hin. destruct op; cbn in Hc; try tauto. destruct Hc as [<-|[]]. cbn in Hin.
        apply Hpend.
        - unfold add_pending. rewrite Ep, Epc. reflexivity.
        - unfold ids in *. rewrite in_map_iff in *. destruct Hin as (c & Hc & Hin).
          exists c. split; auto. apply Hreg. destruct (w_w (wt g)); cbn in Hin; auto. }
      destruct (Hndp Hc3 Hfresh) as [Hnd' _].
      unfold inv. cbn [sh wt reg hist].
      split; [|split].
      * (* winv at W4 *)
        unfold winv. cbn [wprog wpc_ w_w w_id w_idx]. rewrite ?Ep.
        rewrite set_side_woff, set_side_roff.
        split; [congruence|].
        split; [apply neq_flip; congruence|].
        rewrite side_set_same, side_set_flip.
        rewrite (sides_eq _ Hsync (flip (w_w (wt g))) (w_w (wt g))). exact H2.
      * (* idinv *)
        assert (Hok' : side_ok s').
        { split; [congruence|]. split; auto. rewrite <- Hc1. apply Hlen. rewrite Hc1. exact Hc2. }
        constructor; cbn [wprog wpc_ w_w w_id w_idx wlog].
        -- destruct (w_w (wt g)); cbn; auto.
        -- destruct (w_w (wt g)); cbn; auto.
        -- intros c Hc. apply in_or_app.
           assert (Hc' : In c (chans s') \/ In c (chans (sA (sh g))) \/ In c (chans (sB (sh g)))).
           { destruct (w_w (wt g)); cbn in Hc; tauto. }
           destruct Hc' as [Hc'|Hc']; [|left; apply Hreg; tauto].
           apply Hsub in Hc' as [Hc'|Hc']; [left|right; auto].
           apply Hreg. destruct (w_w (wt g)); cbn in Hc'; auto.
        -- unfold ids. rewrite map_app. destruct op; cbn; rewrite ?app_nil_r; auto.
           apply NoDup_app_snoc. split; auto. apply Hpend. unfold add_pending. rewrite Ep, Epc. reflexivity.
        -- intros c Hc. apply in_app_or in Hc as [Hc|Hc].
           ++ apply Hlt in Hc. rewrite set_side_next. auto.
           ++ destruct op; cbn in Hc; try tauto. destruct Hc as [<-|[]]. cbn.
              assert (Hfl : add_in_flight (wt g) = true) by (unfold add_in_flight; rewrite Ep, Epc; reflexivity).
              rewrite (Hcur Hfl). rewrite set_side_next.
              rewrite Hnext, Hfl. lia.
        -- rewrite set_side_next.
           rewrite Hnext. unfold add_in_flight. cbn. rewrite ?Ep, ?Epc. reflexivity.
        -- unfold add_in_flight in *. cbn. rewrite ?Ep, ?Epc in *. exact Hcur.
        -- unfold add_pending. cbn. rewrite ?Ep. rewrite andb_false_r. discriminate.
        -- exact Hlog.
      * (* histinv *)
        unfold histinv in *. rewrite Ep, Epc in Hh. cbn [wprog wpc_ w_w].
        rewrite ?Ep. destruct (hist g) as [|h0 t] eqn:Eh; [tauto|]. destruct Hh as [HhA HhB].
        assert (Hpre : chans (side_of (sh g) (w_w (wt g))) = h0) by (destruct (w_w (wt g)); auto).
        assert (Hpre' : chans (side_of (sh g) (flip (w_w (wt g)))) = h0) by (destruct (w_w (wt g)); auto).
        rewrite side_set_same, side_set_flip.
        destruct (gen s' =? gen (side_of (sh g) (w_w (wt g))))%N eqn:Eg.
        -- apply N.eqb_eq in Eg. destruct Hgen as [[_ Hch]|Hg]; [|lia].
           split; [congruence|]. left. exact Hpre'.
        -- split; [reflexivity|]. right. exists t. congruence.
  - (* W4: swap read_off *)
    unfold inv, winv, histinv in *. cbn. rewrite Ep, Epc in *.
    destruct Hw as (H1 & H2 & H3).
    split; [repeat split; auto|].
    split; [|destruct (hist g); auto].
    destruct Hi as [HA HB Hreg Hnd Hlt Hnext Hcur Hpend Hlog].
    unfold add_in_flight, add_pending in *. rewrite Ep, Epc in *.
    constructor; cbn; auto; unfold add_in_flight, add_pending; cbn; rewrite ?Ep; cbn; auto;
      rewrite ?andb_false_r; try discriminate.
  - (* W5: second locked section *)
    unfold inv, winv in Hw. rewrite Ep, Epc in Hw. destruct Hw as (H1 & H2 & H3 & H4).
    rewrite H3, H4.
    destruct Hi as [HA HB Hreg Hnd Hlt Hnext Hcur Hpend Hlog].
    remember (w_w (wt g)) as o eqn:Eo.
    assert (Hside : side_ok (side_of (sh g) o)) by (apply side_ok_both; auto).
    unfold inv, with_sh_wt, w_at. cbn [sh wt reg hist].
    split; [|split].
    + unfold winv. cbn. rewrite ?Ep, <- ?Eo.
      rewrite set_side_woff, set_side_roff. split; [apply set_side_sync|]. auto.
    + constructor; cbn [wprog wpc_ w_w w_id w_idx wlog].
      * destruct o; cbn; auto.
      * destruct o; cbn; auto.
      * intros c Hc. apply Hreg. destruct o; cbn in *; tauto.
      * exact Hnd.
      * intros c Hc. apply Hlt in Hc. rewrite set_side_next. auto.
      * rewrite set_side_next.
        rewrite Hnext. unfold add_in_flight. cbn. rewrite ?Ep, ?Epc. reflexivity.
      * unfold add_in_flight in *. cbn. rewrite ?Ep, ?Epc in *. exact Hcur.
      * unfold add_pending. cbn. rewrite ?Ep, ?andb_false_r. discriminate.
      * exact Hlog.
    + unfold histinv in *. rewrite Ep, Epc in Hh. cbn [wprog wpc_ w_w]. rewrite ?Ep.
      destruct (hist g) as [|h0 t]; [tauto|]. destruct Hh as [Hh0 _]. rewrite <- Eo in Hh0.
      destruct o; cbn in *; auto.
  - (* W6: store write_off *)
    unfold inv, winv in Hw. rewrite Ep, Epc in Hw. destruct Hw as (H1 & H2 & H3 & H4).
    destruct Hi as [HA HB Hreg Hnd Hlt Hnext Hcur Hpend Hlog].
    unfold inv. cbn [sh wt reg hist].
    assert (Hsync : in_sync (set_woff (sh g) (w_r (wt g)))).
    { split; cbn; auto. rewrite H3, H4. apply not_eq_sym, flip_neq. }
    split; [|split].
    + unfold winv. cbn. rewrite Ep. cbn. destruct rest; auto.
    + unfold add_in_flight, add_pending in *. rewrite Ep, Epc in *.
      constructor; cbn; auto; unfold add_in_flight, add_pending; cbn; rewrite ?Ep; cbn [tl].
      * destruct rest as [|op' rest']; cbn; rewrite Hnext; destruct (is_add op); cbn; rewrite ?andb_false_r; lia.
      * destruct rest as [|op' rest']; cbn; rewrite ?andb_false_r; discriminate.
      * destruct rest as [|op' rest']; cbn; rewrite ?andb_false_r; discriminate.
      * split; auto. destruct op; cbn in *; try (repeat split; discriminate).
        right. rewrite (Hcur eq_refl). reflexivity.
    + unfold histinv in *. rewrite Ep, Epc in Hh. cbn.
      destruct (hist g); auto. rewrite Ep. cbn. destruct rest; auto.
Qed.

Lemma inv_step t g : inv g -> inv (step t g).
Proof.
  destruct t as [|i]; [apply inv_wstep|].
  intros H. unfold inv in *. cbn [step]. destruct (rstep_frame i g) as (-> & -> & -> & -> & _). exact H.
Qed.

End Inv.

Lemma inv_init cap smax wp rps : inv cap (init cap smax wp rps).
Proof.
  destruct init_values as (Hn & Hg & _ & Hr & Hw & _).
  unfold inv, init, init_shm. cbn [sh wt reg hist]. rewrite Hn, Hg, Hr, Hw.
  split; [|split].
  - unfold winv, in_sync. cbn. destruct wp; split; cbn; auto; discriminate.
  - constructor; cbn; auto;
      try (unfold add_in_flight, add_pending; cbn; destruct wp; cbn; rewrite ?andb_false_r; auto; discriminate).
    + repeat split; cbn; auto. lia. constructor.
    + repeat split; cbn; auto. lia. constructor.
    + intros c [[]|[]].
    + constructor.
    + intros c [].
  - unfold histinv. cbn. destruct wp; auto.
Qed.

Lemma inv_runs cap smax wp rps sched : inv cap (runs sched (init cap smax wp rps)).
Proof. unfold runs. apply run_invariant; [intros; apply inv_step; auto|apply inv_init]. Qed.

(** ** The abstract table: the writer's calls applied one after the other *)
Definition spec_step (l : list chan) (e : wop * wres) : list chan :=
  match e with
  | (WAdd d k lb p, WOkId id) => l ++ [mkchan id d k lb p]
  | (WAdd _ _ _ _, _) => l
  | (WRemove rid, _) =>
      match find_lin l rid OAny 0 with
      | Some (_, idx) => match swap_remove l idx with Some l' => l' | None => l end
      | None => l
      end
  | (WRemoveIf p, _) => match list_remove_if p l with Some (l', _) => l' | None => l end
  | (WRemoveAll, _) => []
  | (WExists _, _) => l
  end.
(** the call whose first section has run but which has not returned yet *)
Definition inflight (w : wthread) : list (wop * wres) :=
  match wprog w with
  | op :: _ =>
      match wpc_ w with
      | W4 | W5 | W6 => [(op, if is_add op then WOkId (w_id w) else WOkUnit)]
      | _ => []
      end
  | [] => []
  end.
Definition spec_table (w : wthread) : list chan :=
  fold_left spec_step (rev (wlog w) ++ inflight w) [].

Definition specinv (g : G) : Prop := hd [] (hist g) = spec_table (wt g).

Lemma spec_table_snoc w e :
  fold_left spec_step (rev (e :: wlog w)) [] = spec_step (fold_left spec_step (rev (wlog w)) []) e.
Proof. cbn [rev]. rewrite fold_left_app. reflexivity. Qed.

Lemma sec1_go_spec op id s s' idx :
  sec1 op id s = S1Go s' idx ->
  chans s' = spec_step (chans s) (op, if is_add op then WOkId id else WOkUnit).
Proof.
  destruct op as [d k l p|rid|p|  |eid]; cbn [sec1 spec_step is_add].
  - destruct (cap s <=? N.of_nat (length (chans s)))%N; [discriminate|]. intros H; inv H. reflexivity.
  - destruct (length (chans s) =? 0); [discriminate|].
    destruct (find_lin (chans s) rid OAny 0) as [[c0 i0]|]; [|discriminate].
    destruct (swap_remove (chans s) i0); [|discriminate]. intros H; inv H. reflexivity.
  - destruct (length (chans s) =? 0); [discriminate|].
    destruct (list_remove_if p (chans s)) as [[l' u]|]; [|discriminate]. intros H; inv H. reflexivity.
  - intros H; inv H. reflexivity.
  - discriminate.
Qed.

Lemma sec1_fin_spec op id s r :
  sec1 op id s = S1Fin r -> spec_step (chans s) (op, r) = chans s.
Proof.
  intros H. pose proof (sec1_fin _ _ _ _ H) as Hf.
  destruct op as [d k l p|rid|p|  |eid]; cbn [spec_step] in *.
  - destruct Hf as [-> _]. reflexivity.
  - destruct Hf as [_ Hn]. destruct (find_lin (chans s) rid OAny 0) as [[c0 i0]|] eqn:Ef; auto.
    exfalso. apply Hn. apply find_lin_some in Ef as [Hin Hok]. rewrite chan_ok_any in Hok.
    apply N.eqb_eq in Hok. rewrite <- Hok. apply in_map; auto.
  - destruct Hf as [_ ->]. reflexivity.
  - tauto.
  - reflexivity.
Qed.

Lemma specinv_wstep cap g : inv cap g -> specinv g -> specinv (wstep g).
Proof.
  intros (Hw & Hi & Hh) Hs. unfold specinv, spec_table in *. unfold wstep.
  destruct (wprog (wt g)) as [|op rest] eqn:Ep; [exact Hs|].
  unfold inflight in Hs. rewrite Ep in Hs.
  destruct (wpc_ (wt g)) eqn:Epc.
  - cbn. unfold inflight. cbn. rewrite ?Ep. destruct op; cbn; rewrite app_nil_r in *; exact Hs.
  - cbn. unfold inflight. cbn. rewrite ?Ep. exact Hs.
  - cbn. unfold inflight. cbn. rewrite ?Ep. exact Hs.
  - (* W3 *)
    unfold histinv in Hh. rewrite Ep, Epc in Hh.
    destruct (hist g) as [|h0 t] eqn:Eh; [tauto|]. destruct Hh as [HhA HhB]. cbn [hd] in Hs.
    assert (Hpre : chans (side_of (sh g) (w_w (wt g))) = h0) by (destruct (w_w (wt g)); auto).
    rewrite app_nil_r in Hs.
    destruct (sec1 op (w_id (wt g)) (side_of (sh g) (w_w (wt g)))) as [r|s' idx] eqn:E1.
    + cbn [hist wt with_sh_wt w_finish wlog]. rewrite Eh. cbn [hd].
      unfold inflight. cbn [wprog wpc_ w_finish]. rewrite ?Ep. cbn [tl].
      replace (match rest with [] => [] | _ :: _ => [] end) with (@nil (wop * wres)) by (destruct rest; reflexivity).
      rewrite app_nil_r, spec_table_snoc, <- Hs, <- Hpre. symmetry. eapply sec1_fin_spec; eauto.
    + cbn [hist wt wlog]. unfold inflight. cbn [wprog wpc_ w_id]. rewrite ?Ep.
      rewrite fold_left_app. cbn [fold_left]. rewrite <- Hs, <- Hpre.
      pose proof (sec1_go_spec _ _ _ _ _ E1) as Hsp.
      destruct (gen s' =? gen (side_of (sh g) (w_w (wt g))))%N eqn:Eg; cbn [hd].
      * apply N.eqb_eq in Eg. pose proof (sec1_go _ _ _ _ _ E1) as (_ & _ & [[_ Hc]|Hg] & _); [|lia].
        rewrite <- Hsp, Hc. reflexivity.
      * exact Hsp.
  - cbn. unfold inflight. cbn. rewrite ?Ep. exact Hs.
  - (* W5 *)
    unfold winv in Hw. rewrite Ep, Epc in Hw. destruct Hw as (_ & _ & H3 & H2).
    rewrite H3, H2.
    cbn. unfold inflight. cbn. rewrite ?Ep. exact Hs.
  - (* W6 *)
    cbn [hist wt with_sh_wt w_finish wlog]. unfold inflight. cbn [wprog wpc_ w_finish]. rewrite ?Ep. cbn [tl].
    replace (match rest with [] => [] | _ :: _ => [] end) with (@nil (wop * wres)) by (destruct rest; reflexivity).
    rewrite app_nil_r, spec_table_snoc. rewrite fold_left_app in Hs. cbn [fold_left] in Hs.
    rewrite Hs. destruct op; reflexivity.
Qed.

Lemma specinv_step cap t g : inv cap g -> specinv g -> specinv (step t g).
Proof.
  destruct t as [|i]; [apply specinv_wstep|].
  intros _ H. unfold specinv in *. exact H.
Qed.

Lemma inv_spec_runs cap smax wp rps sched :
  let g := runs sched (init cap smax wp rps) in inv cap g /\ specinv g.
Proof.
  cbv zeta. unfold runs.
  apply (run_invariant G step (fun g => inv cap g /\ specinv g)).
  - intros t g [H1 H2]. split; [apply inv_step; auto|eapply specinv_step; eauto].
  - split; [apply inv_init|]. unfold specinv, spec_table, inflight. cbn. destruct wp; reflexivity.
Qed.

(** ** C42 *)

(** "no writer operation in progress": between calls, or in a call that has not
    yet run its first locked section *)
Definition writer_idle (w : wthread) : Prop :=
  match wprog w with
  | [] => True
  | _ :: _ => match wpc_ w with W0 | W1 | W2 | W3 => True | _ => False end
  end.

Definition sides_mirror_stmt : Prop :=
  forall (cap smax : N) (wp : list wop) (rps : list (list rop)) (sched : list nat),
  let g := runs sched (init cap smax wp rps) in
  writer_idle (wt g) ->
  sA (sh g) = sB (sh g)                       (* same channels, same order, same generation *)
  /\ roff (sh g) <> woff (sh g)
  /\ chans (sA (sh g)) = spec_table (wt g).   (* = the writer's calls applied in order *)

Lemma sides_mirror_proof : sides_mirror_stmt.
Proof.
  intros cap smax wp rps sched g Hidle.
  destruct (inv_spec_runs cap smax wp rps sched) as [(Hw & Hi & Hh) Hs]. fold g in Hw, Hi, Hh, Hs.
  unfold writer_idle, winv, histinv, specinv in *.
  destruct (hist g) as [|h0 t]; [destruct (wprog (wt g)); tauto|]. cbn [hd] in Hs.
  destruct (wprog (wt g)) as [|op rest].
  - destruct Hw as [H1 H2]. destruct Hh as [H3 _]. repeat split; auto. congruence.
  - destruct (wpc_ (wt g)); try tauto.
    + destruct Hw as [H1 H2]. destruct Hh as [H3 _]. repeat split; auto. congruence.
    + destruct Hw as [[H1 H2] _]. destruct Hh as [H3 _]. repeat split; auto. congruence.
    + destruct Hw as [H1 H2]. destruct Hh as [H3 _]. repeat split; auto. congruence.
    + destruct Hw as [[H1 H2] _]. destruct Hh as [H3 _]. repeat split; auto. congruence.
Qed.

(** what a reader's locked section can see: the list of either side, in any reachable state *)
Definition reader_sees_writer_state_stmt : Prop :=
  forall (cap smax : N) (wp : list wop) (rps : list (list rop)) (sched : list nat) (o : off),
  let g := runs sched (init cap smax wp rps) in
  In (chans (side_of (sh g) o)) (firstn 2 (hist g))        (* post- or pre-state of the call in flight *)
  /\ hd [] (hist g) = spec_table (wt g)                      (* the newest version is the abstract table *)
  /\ NoDup (ids (chans (side_of (sh g) o)))
  /\ (N.of_nat (length (chans (side_of (sh g) o))) <= cap)%N
  /\ (forall c, In c (chans (side_of (sh g) o)) -> In c (reg g)).

Lemma reader_sees_writer_state_proof : reader_sees_writer_state_stmt.
Proof.
  intros cap smax wp rps sched o g.
  destruct (inv_spec_runs cap smax wp rps sched) as [(Hw & Hi & Hh) Hs]. fold g in Hw, Hi, Hh, Hs.
  destruct Hi as [HA HB Hreg _ _ _ _ _ _].
  split; [|split; [exact Hs|]].
  - unfold histinv in Hh. destruct (hist g) as [|h0 t]; [tauto|].
    assert (Hcase : (chans (sA (sh g)) = h0 /\ chans (sB (sh g)) = h0)
              \/ (chans (side_of (sh g) (w_w (wt g))) = h0 /\
                  (chans (side_of (sh g) (flip (w_w (wt g)))) = h0 \/
                   exists t', t = chans (side_of (sh g) (flip (w_w (wt g)))) :: t'))).
    { destruct (wprog (wt g)); auto. destruct (wpc_ (wt g)); auto. }
    destruct Hcase as [[H1 H2]|[H1 H2]].
    + left. destruct o; cbn; auto.
    + destruct (w_w (wt g)), o; cbn in *; auto; destruct H2 as [H2|[t' ->]]; cbn; auto.
  - destruct (side_ok_both cap _ HA HB o) as (_ & H2 & H3). split; auto. split; auto.
    intros c Hc. apply Hreg. destruct o; cbn in Hc; auto.
Qed.

(** added ids, oldest first *)
Fixpoint add_results (log : list (wop * wres)) : list wres :=
  match log with
  | [] => []
  | (op, r) :: rest => if is_add op then add_results rest ++ [r] else add_results rest
  end.

Lemma add_results_length log : length (add_results log) = count_adds log.
Proof.
  induction log as [|[op r] log IH]; cbn; auto. destruct (is_add op); cbn; auto.
  rewrite app_length. cbn. lia.
Qed.

Lemma log_ok_nth log : log_ok log -> forall i r, nth_error (add_results log) i = Some r ->
  r = WOutOfSpace \/ r = WOkId (N.of_nat i).
Proof.
  induction log as [|[op r0] log IH]; cbn; intros H i r Hn.
  - destruct i; discriminate.
  - destruct H as [H1 H2]. destruct (is_add op); auto.
    destruct (Nat.lt_ge_cases i (length (add_results log))) as [Hlt|Hge].
    + rewrite nth_error_app1 in Hn by auto. eauto.
    + rewrite nth_error_app2 in Hn by auto.
      destruct (i - length (add_results log)) eqn:E; cbn in Hn; [|destruct n; discriminate].
      inv Hn. rewrite add_results_length in *. replace i with (count_adds log) by lia. exact H2.
Qed.

Definition ids_fresh_stmt : Prop :=
  forall (cap smax : N) (wp : list wop) (rps : list (list rop)) (sched : list nat),
  let g := runs sched (init cap smax wp rps) in
  (* the i-th add call returns id i or OutOfSpace, whatever happened to earlier calls *)
  (forall i r, nth_error (add_results (wlog (wt g))) i = Some r -> r = WOutOfSpace \/ r = WOkId (N.of_nat i))
  (* every call that took an id moved the counter *)
  /\ next_id (sh g) = N.of_nat (count_adds (wlog (wt g)) + if add_in_flight (wt g) then 1 else 0)
  (* channels ever written have pairwise distinct ids below the counter, and the tables hold only those *)
  /\ NoDup (ids (reg g))
  /\ (forall c, In c (reg g) -> (cid c < next_id (sh g))%N)
  /\ (forall c o, In c (chans (side_of (sh g) o)) -> In c (reg g)).

Lemma ids_fresh_proof : ids_fresh_stmt.
Proof.
  intros cap smax wp rps sched g.
  destruct (inv_spec_runs cap smax wp rps sched) as [(Hw & Hi & Hh) Hs]. fold g in Hi.
  destruct Hi as [HA HB Hreg Hnd Hlt Hnext _ _ Hlog].
  split; [apply log_ok_nth; auto|]. split; auto. split; auto. split; auto.
  intros c o Hc. apply Hreg. destruct o; cbn in Hc; auto.
Qed.

(** the step that runs add's first section reports OutOfSpace exactly when the table is full *)
Definition out_of_space_iff_full_stmt : Prop :=
  forall (cap smax : N) (wp : list wop) (rps : list (list rop)) (sched : list nat) d k l p rest,
  let g := runs sched (init cap smax wp rps) in
  wprog (wt g) = WAdd d k l p :: rest -> wpc_ (wt g) = W3 ->
  let n := N.of_nat (length (spec_table (wt g))) in
  (n <= cap)%N
  /\ (n = cap -> wlog (wt (step 0 g)) = (WAdd d k l p, WOutOfSpace) :: wlog (wt g)
                 /\ sh (step 0 g) = sh g)
  /\ ((n < cap)%N -> wlog (wt (step 0 g)) = wlog (wt g) /\ wpc_ (wt (step 0 g)) = W4
                 /\ spec_table (wt (step 0 g)) = spec_table (wt g) ++ [mkchan (w_id (wt g)) d k l p]).

Lemma out_of_space_iff_full_proof : out_of_space_iff_full_stmt.
Proof.
  intros cap smax wp rps sched d k l p rest g Ep Epc n.
  pose proof (sides_mirror_proof cap smax wp rps sched) as Hm. fold g in Hm.
  destruct Hm as (Hsync & _ & Htab). { unfold writer_idle. rewrite Ep, Epc. exact I. }
  destruct (inv_spec_runs cap smax wp rps sched) as [(Hw & Hi & Hh) Hs]. fold g in Hw, Hi, Hh, Hs.
  destruct Hi as [HA HB _ _ _ _ _ _ _]. destruct HA as (Hc1 & Hc2 & _).
  assert (Hside : side_of (sh g) (w_w (wt g)) = sA (sh g)) by (destruct (w_w (wt g)); cbn; congruence).
  subst n. rewrite <- Htab.
  split; [exact Hc2|].
  cbn [step]. unfold wstep. rewrite Ep, Epc. cbn [sec1]. rewrite Hside, Hc1.
  split.
  - intros Hn. replace (cap <=? N.of_nat (length (chans (sA (sh g)))))%N with true by (symmetry; apply N.leb_le; lia).
    cbn. split; reflexivity.
  - intros Hn. replace (cap <=? N.of_nat (length (chans (sA (sh g)))))%N with false by (symmetry; apply N.leb_gt; lia).
    cbn. split; auto. split; auto.
    unfold spec_table, inflight. cbn.
    rewrite fold_left_app. cbn. f_equal. rewrite Htab. unfold spec_table, inflight. rewrite Ep, Epc, app_nil_r. reflexivity.
Qed.

(** no writer call ever ends in Corrupted / a failed assertion / diverged copies *)
Definition writer_never_fails_stmt : Prop :=
  forall (cap smax : N) (wp : list wop) (rps : list (list rop)) (sched : list nat) op r,
  let g := runs sched (init cap smax wp rps) in
  In (op, r) (wlog (wt g)) -> r <> WCorrupted /\ r <> WPanic /\ r <> WDiverged.

Lemma log_ok_in log : log_ok log -> forall op r, In (op, r) log -> r <> WCorrupted /\ r <> WPanic /\ r <> WDiverged.
Proof.
  induction log as [|[op0 r0] log IH]; cbn; intros H op r Hin; [tauto|].
  destruct H as [H1 H2]. destruct Hin as [Heq|Hin]; eauto.
  inv Heq. destruct (is_add op); auto. destruct H2 as [->| ->]; repeat split; discriminate.
Qed.

Lemma writer_never_fails_proof : writer_never_fails_stmt.
Proof.
  intros cap smax wp rps sched op r g Hin.
  destruct (inv_spec_runs cap smax wp rps sched) as [(Hw & Hi & Hh) Hs]. fold g in Hi.
  destruct Hi as [_ _ _ _ _ _ _ _ Hlog]. eapply log_ok_in; eauto.
Qed.

(** Non-vacuity: a run in which the writer is caught between its two sections
    (the sides differ), then quiescent again (they mirror), with a failed add
    in between that still consumed an id. *)
Example c42_example :
  let wp := [WAdd DSeal 1 0 0; WAdd DOpen 2 1 1; WAdd DSeal 3 2 2; WRemove 0; WAdd DSeal 4 0 0] in
  let g1 := runs [0;0;0;0;0;0;0; 0;0;0;0;0;0;0; 0;0;0;0; 0;0;0] (init 2 255 wp [[RExists 0]]) in
  let g2 := runs [0;0;0; 0;0;0;0;0;0;0] g1 in
  wpc_ (wt g1) = W4 /\ chans (sA (sh g1)) <> chans (sB (sh g1))
  /\ writer_idle (wt g2) /\ sA (sh g2) = sB (sh g2)
  /\ map snd (rev (wlog (wt g2))) = [WOkId 0; WOkId 1; WOutOfSpace; WOkUnit; WOkId 3]
  /\ ids (chans (sA (sh g2))) = [1; 3]%N.
Proof. vm_compute. repeat split; try reflexivity. discriminate. Qed.
