(** C27: the ledger of panic-capable sites of the policy front end, with a reason for each.

    [gen/GenFrontendSites.v] lists every panic-capable token shape of the anchored files,
    regenerated from the current source.  [site_table] below gives each site a [reason]:

    (a) [ByGrammar] / [ByCalls] — facts about the shape of pest's pair trees, proved from
        [gen/GenGrammar.v] by the certificate-checked analysis of [proofs/FrontendFacts.v].
        For an entry assertion (`assert_eq!(p.as_rule(), Rule::R)`) [ByCalls] demands that
        every call of that function in [gen/GenFrontendCalls.v] is either textually guarded by a
        `match p.as_rule()` arm / `consume_of_type(Rule::R)` whose rules the callee accepts, or
        comes with a grammar fact placing the asserted rule at the child position the caller reads;
    (b) [ByModel] — the site sits in a fragment transcribed in [model/FrontendLocal.v], with the
        lemma of [proofs/FrontendLocalProofs.v] that the fragment cannot reach it;
    (c) [Audited] — unreachable for a type-level / structural reason stated in words
        (no proof content); [ByText] — a syntactic fact about a rule body (literal delimiters)
        whose textual meaning rests on pest's documented semantics;
    and [FuzzOnly] for the sites not discharged by proof.  A site of the current source
    that has no row makes [ledger_complete] false. *)
From Coq Require Import String List Bool NArith Arith.
From Aranya Require Import model.PegSyntax model.ShapeRe model.Frontend model.FrontendLocal
  proofs.ShapeReProofs proofs.FrontendShape proofs.FrontendFacts proofs.FrontendLocalProofs
  gen.GenGrammar gen.GenFrontendSites gen.GenFrontendCalls.
Import ListNotations.
Open Scope string_scope.
Open Scope list_scope.

(** ** Grammar facts *)
Inductive gfact :=
| GNode (parent : string) (m : nat) (slots : list (list string)) (tail : option (list string))
| GTop (entry : string) (m : nat) (slots : list (list string)) (tail : option (list string))
| GIfPairs.

Definition gfact_check (f : gfact) : bool :=
  match f with
  | GNode p m sl t => check_node grammar p m sl t
  | GTop e m sl t => check_top grammar e m sl t
  | GIfPairs => check_if_pairs grammar
  end.

Definition gfact_holds (f : gfact) : Prop :=
  match f with
  | GNode p m sl t => node_fact grammar p (pos_ok m sl t)
  | GTop e m sl t => top_fact grammar e (pos_ok m sl t)
  | GIfPairs => node_fact grammar "if_statement" if_pairs_ok
  end.

Lemma gfact_check_sound f : gfact_check f = true -> gfact_holds f.
Proof.
  destruct f; intros H.
  - exact (check_node_sound grammar _ _ _ _ H).
  - exact (check_top_sound grammar _ _ _ _ H).
  - exact (check_if_pairs_sound grammar H).
Qed.
Global Arguments gfact_check : simpl never.
Global Arguments gfact_holds : simpl never.

(** ** Local models *)
Inductive lmodel :=
| M_hex | M_offsets | M_add_unreachable | M_scope_stack | M_walk_arms | M_expr_type | M_for_last
| M_two_defaults | M_temp_labels | M_binding | M_ffi_ids | M_action_ret | M_outer_span
| M_insert_all | M_ident_valid.

Definition lmodel_holds (m : lmodel) : Prop :=
  match m with
  | M_hex => forall ch, no_panic (hex_char_to_nibble ch)
  | M_offsets => (forall a b, a <= isize_max -> b <= isize_max -> no_panic (addu "a+b" a b))%N
                 /\ (forall a c, a <= isize_max -> c <= 16 -> no_panic (addu "a+c" a c))%N
  | M_add_unreachable => forall g l k, its_add g l k <> Panic "unreachable!()"
  | M_scope_stack =>
      (forall p s, st_inv s -> match run p s with RPanic _ => False | RStop => True | RDone s' => s' = s end)
      /\ st_inv [1]
      /\ (forall g l k, l <> [] -> Forall (fun fs => fs <> []) l -> no_panic (its_add g l k))
  | M_walk_arms => forall (arms patterns : list unit), length arms = length patterns -> no_panic (walk_arms arms patterns)
  | M_expr_type => forall (arms : list unit), arms <> [] -> no_panic (expr_type_after arms)
  | M_for_last => forall (l : list unit), no_panic (for_last [] l)
  | M_two_defaults => forall (v : list unit), no_panic (two_defaults v)
  | M_temp_labels => forall labels, no_panic (validate_labels (resolve_targets labels))
  | M_binding => forall values, no_panic (binding_prologue values)
  | M_ffi_ids => forall stub, no_panic (ffi_codegen stub)
  | M_action_ret => forall b, no_panic (compile_action_ret (parsed_action_ret b))
  | M_outer_span => forall depth is_old, no_panic (parse_type_depth depth StUnknown None is_old)
  | M_insert_all => forall names, nodupb names = true -> no_panic (insert_all [] names)
  | M_ident_valid => forall bs, grammar_identifier bs = true -> identifier_validate bs = true
  end.

Lemma lmodel_all m : lmodel_holds m.
Proof.
  destruct m; cbn.
  - apply hex_nibble_no_panic.
  - split; [apply offsets_no_wrap|apply offset_plus_small_no_wrap].
  - apply its_add_unreachable.
  - split; [intros; apply run_bracketed; auto|split; [apply initial_stack_inv|apply its_add_no_panic]].
  - intros; apply walk_arms_no_panic; auto.
  - intros; apply expr_type_after_no_panic; auto.
  - intros; apply for_last_no_panic.
  - intros; apply two_defaults_no_panic.
  - apply validate_after_resolve.
  - apply binding_prologue_no_panic.
  - apply ffi_codegen_no_panic.
  - apply compile_action_ret_no_panic.
  - intros. apply parse_type_no_panic. congruence.
  - intros. apply insert_all_no_panic; auto.
  - apply grammar_identifier_valid.
Qed.

(** ** Reasons *)
Inductive reason :=
| ByGrammar (f : gfact)
| ByGrammarAnd (f : gfact) (m : lmodel)
| ByCalls
| ByModel (m : lmodel)
| ByText (rule : string)
| Audited (why : string)
| FuzzOnly (why : string).

(** Calls of rule-asserting parser functions that carry no textual guard: the grammar fact
    that puts an accepted rule at the child position the caller passes on. *)
Definition call_table : list (string * string * string * N * gfact) := [
  ("parse_match_pattern", "parse_expression", "token . clone ( )", 0%N,
     GNode "match_arm_expression" 0 [] (Some ["expression"]));
  ("parse_function_call", "parse_expression", "arg", 0%N,
     GNode "function_call" 0 [["identifier"]] (Some ["expression"]));
  ("parse_expression", "parse_expression", "token", 0%N,
     GNode "optional_literal" 0 [["none"; "some"]; ["expression"]] None);
  ("parse_expression", "parse_expression", "v", 0%N, GNode "ok" 0 [["expression"]] None);
  ("parse_expression", "parse_expression", "v", 1%N, GNode "err" 0 [["expression"]] None);
  ("parse_match_expression", "parse_expression", "pc . consume ( ) ?", 0%N,
     GNode "match_expression_arm" 0 [["match_arm_expression"; "match_default"]; ["expression"]] None);
  ("parse_if_expression", "parse_expression", "token", 0%N,
     GNode "if_expr" 0 [["expression"]; ["block_expression"]; ["block_expression"]] None);
  ("parse_if_statement", "parse_expression", "first", 0%N, GIfPairs);
  ("parse_statement_list", "parse_expression", "inner_expr_token", 0%N,
     GNode "return_statement" 0 [["expression"]] None);
  ("parse_function_definition", "parse_function_decl", "decl", 0%N,
     GNode "function_definition" 1 [["function_decl"]] (Some []));
  ("parse_finish_function_definition", "parse_function_decl", "decl", 0%N,
     GNode "finish_function_definition" 1 [["finish_function_decl"]] (Some []));
  ("parse_expression::inner", "parse_expression", "token", 0%N,
     GTop "complete_expression" 2 [["expression"]; ["EOI"]] None)
].

Definition call_fact (c : pcall) : option gfact :=
  match find (fun e => match e with (a, b, x, o, _) =>
                String.eqb a (c_caller c) && String.eqb b (c_callee c) && String.eqb x (c_arg c) && N.eqb o (c_ord c) end)
             call_table with
  | Some (_, _, _, _, f) => Some f
  | None => None
  end.

Definition asserted (callee : string) : list string :=
  match find (fun e => String.eqb (fst e) callee) parser_asserting with Some (_, rs) => rs | None => [] end.

(** A textual guard is good when every rule it admits is one the callee's assertion accepts. *)
Definition guard_ok (c : pcall) : bool :=
  (String.eqb (c_guard c) "arm" || String.eqb (c_guard c) "cot")
  && negb (match c_rules c with [] => true | _ => false end)
  && forallb (fun r => smem r (asserted (c_callee c))) (c_rules c).

Definition call_check (c : pcall) : bool :=
  guard_ok c || match call_fact c with Some f => gfact_check f | None => false end.

Definition call_holds (c : pcall) : Prop :=
  guard_ok c = true \/ exists f, call_fact c = Some f /\ gfact_holds f.

Lemma call_check_sound c : call_check c = true -> call_holds c.
Proof.
  unfold call_check, call_holds. intros H. apply orb_true_iff in H as [H|H]; auto.
  right. destruct (call_fact c) as [f|]; [|discriminate]. exists f. split; auto. apply gfact_check_sound; auto.
Qed.

(** Name of the function whose calls matter for an assert site (nested `fn inner` keeps the outer name). *)
Definition calls_of (fn : string) : list pcall := filter (fun c => String.eqb (c_callee c) fn) parser_calls.

Definition text_check (rule : string) : bool :=
  match find_rule grammar rule with
  | Some r => (match r_kind r with Atomic => true | _ => false end) && delimited """" """" (r_body r)
  | None => false
  end.

Global Arguments text_check : simpl never.
Global Arguments call_check : simpl never.
Global Arguments calls_of : simpl never.

Definition reason_check (s : site) (r : reason) : bool :=
  match r with
  | ByGrammar f => gfact_check f
  | ByGrammarAnd f _ => gfact_check f
  | ByCalls => smem (s_fn s) (map fst parser_asserting) && forallb call_check (calls_of (s_fn s))
  | ByModel _ => true
  | ByText rule => text_check rule
  | Audited _ => true
  | FuzzOnly _ => false
  end.

Definition reason_holds (s : site) (r : reason) : Prop :=
  match r with
  | ByGrammar f => gfact_holds f
  | ByGrammarAnd f m => gfact_holds f /\ lmodel_holds m
  | ByCalls => In (s_fn s) (map fst parser_asserting) /\ Forall call_holds (calls_of (s_fn s))
  | ByModel m => lmodel_holds m
  | ByText rule => text_check rule = true
  | Audited _ => True
  | FuzzOnly _ => False
  end.

Lemma reason_check_sound s r : reason_check s r = true -> reason_holds s r.
Proof.
  destruct r; cbn [reason_check reason_holds]; intros H; auto.
  - apply gfact_check_sound; auto.
  - split; [apply gfact_check_sound; auto|apply lmodel_all].
  - apply andb_true_iff in H as [H1 H2]. split; [apply smem_in; auto|].
    apply Forall_forall. intros c Hc. rewrite forallb_forall in H2. apply call_check_sound; auto.
  - apply lmodel_all.
  - discriminate.
Qed.

(** ** The table: (file, function, normalised text, ordinal) -> reason *)
Definition site_table : list (string * string * string * N * reason) := [
  ("lang/lang/parse.rs", "next", "self . pairs . borrow_mut()", 0%N, Audited "RefCell borrow confined to one expression; the callee is pest's Pairs iterator, which does not re-enter PairContext");
  ("lang/lang/parse.rs", "peek", "self . pairs . borrow_mut()", 0%N, Audited "RefCell borrow confined to one expression; the callee is pest's Pairs iterator, which does not re-enter PairContext");
  ("lang/lang/parse.rs", "parse_ident", "assert_eq!(token . as_rule ( ) , Rule :: identifier)", 0%N, ByCalls);
  ("lang/lang/parse.rs", "parse_ident", "assume(""grammar produces valid identifiers"")", 0%N, ByModel M_ident_valid);
  ("lang/lang/parse.rs", "parse_type_inner", "WARNED . swap(true , std :: sync :: atomic ::)", 0%N, Audited "AtomicBool::swap does not panic");
  ("lang/lang/parse.rs", "parse_type_inner", "assume(""outer span was passed in"")", 0%N, ByModel M_outer_span);
  ("lang/lang/parse.rs", "parse_string_literal", "full_str [ 1 .. full_str . len ( ) - 1 ]", 0%N, ByText "string_literal");
  ("lang/lang/parse.rs", "parse_string_literal", "full_str . len ( ) - 1 ] }", 0%N, ByText "string_literal");
  ("lang/lang/parse.rs", "parse_string_literal", "full_span . start ( ) + 1 } ;", 0%N, ByModel M_offsets);
  ("lang/lang/parse.rs", "parse_string_literal", "content_span_start + idx0 ; match", 0%N, ByModel M_offsets);
  ("lang/lang/parse.rs", "parse_string_literal", "assume(""byte must follow escape"")", 0%N, FuzzOnly "text-level property of the string_literal rule: every backslash is followed by a character");
  ("lang/lang/parse.rs", "parse_string_literal", "byte0_span_start + 2 + nibble_idx", 0%N, ByModel M_offsets);
  ("lang/lang/parse.rs", "parse_string_literal", "2 + nibble_idx , )", 0%N, ByModel M_offsets);
  ("lang/lang/parse.rs", "parse_string_literal", "contents [ hex_idx .. ]", 0%N, FuzzOnly "UTF-8 char-boundary argument: the byte before the index is ASCII");
  ("lang/lang/parse.rs", "parse_string_literal", "assume(""char is present"")", 0%N, FuzzOnly "text-level: a character follows the escape / the hex prefix");
  ("lang/lang/parse.rs", "parse_string_literal", "content_span_start + hex_idx ; let", 0%N, ByModel M_offsets);
  ("lang/lang/parse.rs", "parse_string_literal", "start + nonhex_char_length ) ;", 0%N, ByModel M_offsets);
  ("lang/lang/parse.rs", "parse_string_literal", "value << 4 | nibble", 0%N, Audited "u8 shift by the constant 4 < 8: overflow checks only test the shift amount");
  ("lang/lang/parse.rs", "parse_string_literal", "byte0_span_start + 4 ) ;", 0%N, ByModel M_offsets);
  ("lang/lang/parse.rs", "parse_string_literal", "byte0_span_start + 1 ) ;", 0%N, ByModel M_offsets);
  ("lang/lang/parse.rs", "parse_string_literal", "contents [ idx1 .. ]", 0%N, FuzzOnly "UTF-8 char-boundary argument: the byte before the index is ASCII");
  ("lang/lang/parse.rs", "parse_string_literal", "assume(""char is present"")", 1%N, FuzzOnly "text-level: a character follows the escape / the hex prefix");
  ("lang/lang/parse.rs", "parse_string_literal", "byte0_span_start + 1 + bad_escape_char", 0%N, ByModel M_offsets);
  ("lang/lang/parse.rs", "parse_string_literal", "1 + bad_escape_char . len_utf8", 0%N, ByModel M_offsets);
  ("lang/lang/parse.rs", "parse_string_literal", "byte0_span_start + 1 ) ;", 1%N, ByModel M_offsets);
  ("lang/lang/parse.rs", "parse_string_literal", "assume(""valid utf8"")", 0%N, FuzzOnly "text-level: escapes only produce ASCII 0x01..0x7F and NUL is rejected");
  ("lang/lang/parse.rs", "parse_string_literal", "assume(""valid text"")", 0%N, FuzzOnly "text-level: escapes only produce ASCII 0x01..0x7F and NUL is rejected");
  ("lang/lang/parse.rs", "parse_match_pattern", "assert_eq!(token . as_rule ( ) , Rule :: match_arm_expression)", 0%N, ByCalls);
  ("lang/lang/parse.rs", "parse_expression", "assert_eq!(expr . as_rule ( ) , Rule :: expression)", 0%N, ByCalls);
  ("lang/lang/parse.rs", "parse_match_expression", "assert_eq!(arm . as_rule ( ) , Rule :: match_expression_arm)", 0%N, ByGrammar (GNode "match_expression" 2 [["expression"]; ["match_expression_arm"]] (Some ["match_expression_arm"])));
  ("lang/lang/parse.rs", "parse_action_call", "assert_eq!(item . as_rule ( ) , Rule :: action_call)", 0%N, ByCalls);
  ("lang/lang/parse.rs", "parse_publish_statement", "assert_eq!(item . as_rule ( ) , Rule :: publish_statement)", 0%N, ByCalls);
  ("lang/lang/parse.rs", "parse_match_statement", "assert_eq!(arm . as_rule ( ) , Rule :: match_arm)", 0%N, ByGrammar (GNode "match_statement" 2 [["expression"]; ["match_arm"]] (Some ["match_arm"])));
  ("lang/lang/parse.rs", "parse_update_statement", "assert_eq!(item . as_rule ( ) , Rule :: update_statement)", 0%N, ByCalls);
  ("lang/lang/parse.rs", "parse_emit_statement", "assert_eq!(item . as_rule ( ) , Rule :: emit_statement)", 0%N, ByCalls);
  ("lang/lang/parse.rs", "parse_debug_assert_statement", "assert_eq!(item . as_rule ( ) , Rule :: debug_assert)", 0%N, ByCalls);
  ("lang/lang/parse.rs", "parse_map_statement", "assert_eq!(field . as_rule ( ) , Rule :: map_statement)", 0%N, ByCalls);
  ("lang/lang/parse.rs", "parse_action_definition", "assert_eq!(item . as_rule ( ) , Rule :: action_definition)", 0%N, ByCalls);
  ("lang/lang/parse.rs", "parse_effect_definition", "assert_eq!(item . as_rule ( ) , Rule :: effect_definition)", 0%N, ByCalls);
  ("lang/lang/parse.rs", "parse_struct_definition", "assert_eq!(item . as_rule ( ) , Rule :: struct_definition)", 0%N, ByCalls);
  ("lang/lang/parse.rs", "parse_enum_definition", "assert_eq!(item . as_rule ( ) , Rule :: enum_definition)", 0%N, ByCalls);
  ("lang/lang/parse.rs", "parse_enum_reference", "assert_eq!(item . as_rule ( ) , Rule :: enum_reference)", 0%N, ByCalls);
  ("lang/lang/parse.rs", "parse_command_definition", "assert_eq!(item . as_rule ( ) , Rule :: command_definition)", 0%N, ByCalls);
  ("lang/lang/parse.rs", "parse_function_decl", "assert!(matches ! ( rule , Rule :: function_decl | Rule :: finish_function_decl ))", 0%N, ByCalls);
  ("lang/lang/parse.rs", "parse_function_definition", "expect(""impossible function definition"")", 0%N, ByGrammar (GNode "function_definition" 1 [["function_decl"]] (Some [])));
  ("lang/lang/parse.rs", "parse_expression::inner", "assume(""has tokens"")", 0%N, ByGrammar (GTop "complete_expression" 2 [["expression"]; ["EOI"]] None));
  ("lang/lang/parse.rs", "parse_ffi_decl::inner", "assert!(matches ! ( rule , Rule :: function_decl | Rule :: finish_function_decl ))", 0%N, ByGrammar (GTop "ffi_def" 2 [["function_decl"; "finish_function_decl"]; ["EOI"]] None));
  ("lang/lang/parse.rs", "hex_char_to_nibble", "ch - b'0' , b'a'", 0%N, ByModel M_hex);
  ("lang/lang/parse.rs", "hex_char_to_nibble", "ch - b'a' + 10", 0%N, ByModel M_hex);
  ("lang/lang/parse.rs", "hex_char_to_nibble", "b'a' + 10 , b'A'", 0%N, ByModel M_hex);
  ("lang/lang/parse.rs", "hex_char_to_nibble", "ch - b'A' + 10", 0%N, ByModel M_hex);
  ("lang/lang/parse.rs", "hex_char_to_nibble", "b'A' + 10 , _", 0%N, ByModel M_hex);
  ("lang/lang/parse/markdown.rs", "extract_policy_from_markdown", "expect(""no code block position"")", 0%N, FuzzOnly "the markdown crate attaches a position to every parsed node (external crate)");
  ("lang/lang/parse/markdown.rs", "extract_policy_from_markdown", "assume(""start.offset + 10 must not wrap"")", 0%N, ByModel M_offsets);
  ("lang/lang/parse/error.rs", "with_offset", "expect(""span overflow"")", 0%N, ByModel M_offsets);
  ("compiler/compile.rs", "macro_rules!typekind", "option [ $ inner : ident ]", 0%N, Audited "policy-DSL tokens inside a macro_rules! pattern / sig! invocation, not a Rust index expression");
  ("compiler/compile.rs", "exit_statement_context", "expect(""attempted to exit statement context when none was active"")", 0%N, FuzzOnly "enter/exit_statement_context are paired in every caller (bracketing of this stack is not modelled)");
  ("compiler/compile.rs", "append_instruction", "expect(""self.wp + 1 must not wrap"")", 0%N, ByModel M_offsets);
  ("compiler/compile.rs", "compile_enum_definition", "assume(""should set enum value to index"")", 0%N, Audited "an index into a Vec is at most isize::MAX = i64::MAX");
  ("compiler/compile.rs", "anonymous_label", "expect(""self.c + 1 must not wrap"")", 0%N, Audited "label counter: 2^64 increments are unreachable");
  ("compiler/compile.rs", "anonymous_label", "expect(""must be valid identifier"")", 0%N, ByModel M_ident_valid);
  ("compiler/compile.rs", "compile_typed_expression", "assume(""must have IDs when ffi is not stubbed"")", 0%N, ByModel M_ffi_ids);
  ("compiler/compile.rs", "compile_typed_statement", "expect(""self.wp + 2 must not wrap"")", 0%N, ByModel M_offsets);
  ("compiler/compile.rs", "instruction_range_contains", "self . m . progmem [ r ]", 0%N, Audited "r = from..self.wp where from is an earlier value of wp; wp only grows (append_instruction) and equals progmem.len()");
  ("compiler/compile.rs", "compile_action", "unreachable!(""invalid action return type should have been caught during parsing"")", 0%N, ByModel M_action_ret);
  ("compiler/compile.rs", "compile_command", "assume(""duplicates are prevented by compile_struct"")", 0%N, ByModel M_insert_all);
  ("compiler/compile.rs", "compile_command", "assume(""duplicates are prevented by compile_struct"")", 1%N, ByModel M_insert_all);
  ("compiler/compile.rs", "compile_match_statement_or_expression", "bug!(""checked above"")", 0%N, ByModel M_binding);
  ("compiler/compile.rs", "compile_match_statement_or_expression", "bug!(""checked above"")", 1%N, ByModel M_binding);
  ("compiler/compile.rs", "sorted_type_definitions", "type_defs . remove(ident)", 0%N, Audited "HashMap::remove does not panic");
  ("compiler/compile.rs", "define_interfaces", "debug_assert!(self . m . progmem . is_empty ( ) , ""{:?}"" , self .)", 0%N, FuzzOnly "define_interfaces emits no instruction (a call-graph fact that is not modelled)");
  ("compiler/compile.rs", "define_builtins", "int , y int ) option [ int ]", 0%N, Audited "policy-DSL tokens inside a macro_rules! pattern / sig! invocation, not a Rust index expression");
  ("compiler/compile.rs", "define_builtins", "int , y int ) option [ int ]", 1%N, Audited "policy-DSL tokens inside a macro_rules! pattern / sig! invocation, not a Rust index expression");
  ("compiler/compile.rs", "find_duplicate", "vec [ .. i ]", 0%N, Audited "i comes from enumerate() over the same slice, so i <= len");
  ("compiler/compile/lower.rs", "lower_expression", "unreachable!()", 0%N, Audited "inner match over exactly the variants bound by the enclosing or-pattern");
  ("compiler/compile/lower.rs", "lower_expression", "unreachable!()", 1%N, Audited "inner match over exactly the variants bound by the enclosing or-pattern");
  ("compiler/compile/lower.rs", "lower_expression", "bug!(""expected match expression"")", 0%N, Audited "lower_match_statement_or_expression returns the LanguageContext variant it was given");
  ("compiler/compile/lower.rs", "lower_match_statement_or_expression", "default_patts [ .. ]", 0%N, Audited "full-range slice");
  ("compiler/compile/lower.rs", "lower_match_statement_or_expression", "unreachable!(""There's at least 2 items"")", 0%N, ByModel M_two_defaults);
  ("compiler/compile/lower.rs", "lower_match_statement_or_expression", "assume(""can't have usize::MAX patterns"")", 0%N, Audited "counter bounded by the number of pattern values held in memory");
  ("compiler/compile/lower.rs", "lower_match_statement_or_expression", "expect(""patterns is not empty"")", 0%N, ByModel M_for_last);
  ("compiler/compile/lower.rs", "lower_match_statement_or_expression", "assume(""expected pattern for match arm"")", 0%N, ByModel M_walk_arms);
  ("compiler/compile/lower.rs", "lower_match_statement_or_expression", "bug!(""too many patterns"")", 0%N, ByModel M_walk_arms);
  ("compiler/compile/lower.rs", "lower_match_statement_or_expression", "assume(""expected pattern for match arm"")", 1%N, ByModel M_walk_arms);
  ("compiler/compile/lower.rs", "lower_match_statement_or_expression", "bug!(""too many patterns"")", 1%N, ByModel M_walk_arms);
  ("compiler/compile/lower.rs", "lower_match_statement_or_expression", "assume(""expression must have type"")", 0%N, ByGrammarAnd (GNode "match_expression" 2 [["expression"]; ["match_expression_arm"]] (Some ["match_expression_arm"])) M_expr_type);
  ("compiler/compile/lower.rs", "lower_statements", "bug!(""expected statement"")", 0%N, Audited "lower_match_statement_or_expression returns the LanguageContext variant it was given");
  ("compiler/compile/lower.rs", "lower_statements", "assume(""command must be defined"")", 0%N, FuzzOnly "command_defs only ever holds names of policy.commands (insertion site not modelled)");
  ("compiler/compile/lower.rs", "lower_statements", "expect(""statements is not empty"")", 0%N, ByModel M_for_last);
  ("compiler/compile/types.rs", "add", "expect(""no function scope"")", 0%N, ByModel M_scope_stack);
  ("compiler/compile/types.rs", "add", "expect(""no block scope"")", 0%N, ByModel M_scope_stack);
  ("compiler/compile/types.rs", "add", "unreachable!()", 0%N, ByModel M_add_unreachable);
  ("compiler/compile/types.rs", "exit_function", "expect(""no function scope"")", 0%N, ByModel M_scope_stack);
  ("compiler/compile/types.rs", "enter_block", "expect(""no function scope"")", 0%N, ByModel M_scope_stack);
  ("compiler/compile/types.rs", "exit_block", "expect(""no function scope"")", 0%N, ByModel M_scope_stack);
  ("compiler/compile/types.rs", "exit_block", "expect(""no block scope"")", 0%N, ByModel M_scope_stack);
  ("compiler/compile/topo.rs", "<top>", "NodeTrait + Display > TopoSort", 0%N, Audited "trait bound, not arithmetic");
  ("compiler/validate.rs", "validate", "unreachable!(""Shouldn't have gotten this label type"")", 0%N, ByModel M_temp_labels)

].

Definition site_reason (s : site) : option reason :=
  match find (fun e => match e with (f, fn, t, o, _) =>
                String.eqb f (s_file s) && String.eqb fn (s_fn s) && String.eqb t (s_text s) && N.eqb o (s_ord s) end)
             site_table with
  | Some (_, _, _, _, r) => Some r
  | None => None
  end.

Definition is_fuzz_only (r : reason) : bool := match r with FuzzOnly _ => true | _ => false end.

(** Every site of the current source has a row. *)
Definition ledger_complete : bool :=
  forallb (fun s => match site_reason s with Some _ => true | None => false end) frontend_sites.

(** The sites left to the fuzzing side, by (function, text, ordinal). *)
Definition fuzz_only_sites : list (string * string * N) :=
  map (fun s => (s_fn s, s_text s, s_ord s))
      (filter (fun s => match site_reason s with Some r => is_fuzz_only r | None => false end) frontend_sites).

Definition site_proved (s : site) : Prop := exists r, site_reason s = Some r /\ reason_holds s r.
Definition site_fuzz_only (s : site) : Prop := exists w, site_reason s = Some (FuzzOnly w).

Definition site_check (s : site) : bool :=
  match site_reason s with
  | Some r => is_fuzz_only r || reason_check s r
  | None => false
  end.

Lemma site_check_sound s : site_check s = true -> site_proved s \/ site_fuzz_only s.
Proof.
  unfold site_check, site_proved, site_fuzz_only. destruct (site_reason s) as [r|]; [|discriminate].
  intros H. apply orb_true_iff in H as [H|H].
  - right. destruct r; try discriminate. eauto.
  - left. exists r. split; auto. apply reason_check_sound; auto.
Qed.

(** Counts per class, for the evidence file. *)
Definition class_of (r : reason) : string :=
  match r with
  | ByGrammar _ | ByGrammarAnd _ _ | ByCalls => "grammar"
  | ByModel _ => "model"
  | ByText _ => "text"
  | Audited _ => "audited"
  | FuzzOnly _ => "fuzz-only"
  end.
Definition class_count (c : string) : nat :=
  length (filter (fun s => match site_reason s with Some r => String.eqb (class_of r) c | None => false end) frontend_sites).

(** ** The theorems *)
Definition frontend_sites_discharged_full_stmt : Prop := Forall site_proved frontend_sites.

Definition frontend_sites_discharged_partial_stmt : Prop :=
  ledger_complete = true /\ Forall (fun s => site_proved s \/ site_fuzz_only s) frontend_sites.

Lemma frontend_sites_discharged_partial_proof : frontend_sites_discharged_partial_stmt.
Proof.
  split; [vm_compute; reflexivity|].
  apply Forall_forall. intros s Hs. apply site_check_sound.
  assert (H : forallb site_check frontend_sites = true) by (vm_compute; reflexivity).
  rewrite forallb_forall in H. auto.
Qed.

(** The grammar facts the walker relies on, stated on their own (they do not depend on the ledger). *)
Definition parser_shape_facts : list gfact :=
  map (fun e => match e with (_, _, _, _, f) => f end) call_table ++ [
    GNode "match_expression" 2 [["expression"]; ["match_expression_arm"]] (Some ["match_expression_arm"]);
    GNode "match_statement" 2 [["expression"]; ["match_arm"]] (Some ["match_arm"]);
    GTop "ffi_def" 2 [["function_decl"; "finish_function_decl"]; ["EOI"]] None;
    GTop "file" 1 [] (Some ["use_definition"; "fact_definition"; "action_definition"; "effect_definition";
                            "struct_definition"; "enum_definition"; "command_definition"; "function_definition";
                            "finish_function_definition"; "global_let_statement"; "EOI"])
  ].

Definition parser_shape_facts_stmt : Prop := Forall gfact_holds parser_shape_facts.

Lemma parser_shape_facts_proof : parser_shape_facts_stmt.
Proof.
  apply Forall_forall. intros f Hf. apply gfact_check_sound.
  assert (H : forallb gfact_check parser_shape_facts = true) by (vm_compute; reflexivity).
  rewrite forallb_forall in H. auto.
Qed.

(** Soundness of the analysis itself, for every grammar (not only the generated one). *)
Definition shape_analysis_sound_stmt : Prop :=
  forall (G : list rule) (n : string) (ts : list tree),
    emits G ANon (Ref n) ts ->
    matches (top_shape G n) (map root ts) = true
    /\ forallb (tree_all (fun r w => matches (children_shape G r) w)) ts = true.

Lemma shape_analysis_sound_proof : shape_analysis_sound_stmt.
Proof.
  intros G n ts H. destruct (top_sound G n ts H) as [Ht Hok]. split.
  - apply matches_spec; auto.
  - apply forallb_forall. intros t Hin. apply (tree_ok_all G).
    + intros r w Hl. apply matches_spec; auto.
    + rewrite Forall_forall in Hok. auto.
Qed.

(** Non-vacuity: the emission relation is inhabited on the generated grammar (the forest of
    the document `function f() int { return 1 }`), and a wrong fact is rejected. *)
Example emits_example :
  matches (children_shape grammar "function_definition") ["function_decl"; "return_statement"] = true
  /\ matches (children_shape grammar "function_definition") ["return_statement"] = false
  /\ gfact_check (GNode "function_definition" 1 [["return_statement"]] (Some [])) = false
  /\ gfact_check (GNode "match_statement" 2 [["expression"]; ["match_arm"]] (Some ["match_arm"])) = true.
Proof. vm_compute. repeat split. Qed.
