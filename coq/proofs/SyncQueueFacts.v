(** Membership-level consequences of the traversal-queue refinement lemmas of
    unit queue-lookup (proofs/TravQueueProofs.v), in the form the responder
    proofs use them: what can be in the queue after an operation, with which
    covered flag, and that "one entry per segment" is kept. *)
From Aranya Require Import base.Tactics gen.GenQueue model.TravQueue
  proofs.TravQueueVec proofs.TravQueueMoves proofs.TravQueueSpec proofs.TravQueueProofs.
Local Open Scope N_scope.

Definition qin (q : queue) (e : loc) (b : bool) : Prop := In (e, b) (absq q).
Definition quniq (q : queue) : Prop := uniq_ms (absq q).

Lemma qnew_ok : rep_ok qnew /\ quniq qnew /\ forall e b, ~ qin qnew e b.
Proof. unfold rep_ok, quniq, qin, uniq_ms, absq; cbn. repeat split; auto. constructor. Qed.

Lemma qin_entries q e : In e (entries q) <-> exists b, qin q e b.
Proof.
  unfold qin, absq. split.
  - intro H. rewrite <- (map_fst_tag 0 (part q) (entries q)) in H. apply in_map_iff in H as ([e' b] & <- & Hin). eauto.
  - intros [b H]. eapply in_absq_entries; eauto.
Qed.

(** ** push_covered *)
Lemma q_push q l c : rep_ok q ->
  exists q', push_covered q l c = Ok q' /\ rep_ok q' /\
    (forall e b, qin q' e b -> qin q e b \/ (e = l /\ (b = c \/ exists b0, qin q l b0 /\ b = b0 || c))) /\
    (forall e b, qin q e b -> lseg e <> lseg l -> qin q' e b) /\
    (forall e b, qin q e b -> lseg e = lseg l -> lmc l < lmc e -> qin q' e b) /\
    (exists e b, qin q' e b /\ lseg e = lseg l /\ lmc l <= lmc e) /\
    (quniq q -> quniq q').
Proof.
  intro Hr. destruct (push_covered_spec q l c Hr) as (q' & Hq & Hr' & Hs).
  exists q'. split; auto. split; auto. unfold qin, quniq.
  assert (Hu : uniq_ms (absq q) -> uniq_ms (absq q')).
  { intro Hu. eapply (spec_preserves_uniq (absq q) (OPushCovered l c) (absq q') VUnit); cbn; auto. }
  destruct Hs as [[Hno P]|(e0 & b0 & rest & P & Hseg & Hcase)].
  - repeat split; auto.
    + intros e b Hin. eapply Permutation_in in Hin; [|exact P]. destruct Hin as [E|Hin]; [inv E; right; auto|auto].
    + intros e b Hin _. eapply Permutation_in; [symmetry; exact P|]. now right.
    + intros e b Hin Hs _. exfalso. eapply Hno; eauto.
    + exists l, c. repeat split; auto; try lia. eapply Permutation_in; [symmetry; exact P|]. now left.
  - assert (Hin0 : In (e0, b0) (absq q)) by (eapply Permutation_in; [symmetry; exact P|now left]).
    destruct Hcase as [[Hlt P']|[[Heq P']|[Hgt P']]].
    + repeat split; auto.
      * intros e b Hin. eapply Permutation_in in Hin; [|exact P']. destruct Hin as [E|Hin]; [inv E; right; auto|].
        left. eapply Permutation_in; [symmetry; exact P|]. now right.
      * intros e b Hin Hne. eapply Permutation_in in Hin; [|exact P]. destruct Hin as [E|Hin]; [inv E; congruence|].
        eapply Permutation_in; [symmetry; exact P'|]. now right.
      * intros e b Hin Hs Hlt'. eapply Permutation_in in Hin; [|exact P]. destruct Hin as [E|Hin]; [inv E; lia|].
        eapply Permutation_in; [symmetry; exact P'|]. now right.
      * exists l, c. repeat split; auto; try lia. eapply Permutation_in; [symmetry; exact P'|]. now left.
    + assert (e0 = l) by (destruct e0, l; cbn in *; congruence). subst e0.
      repeat split; auto.
      * intros e b Hin. eapply Permutation_in in Hin; [|exact P']. destruct Hin as [E|Hin].
        -- inv E. right. split; auto. right. exists b0. auto.
        -- left. eapply Permutation_in; [symmetry; exact P|]. now right.
      * intros e b Hin Hne. eapply Permutation_in in Hin; [|exact P]. destruct Hin as [E|Hin]; [inv E; congruence|].
        eapply Permutation_in; [symmetry; exact P'|]. now right.
      * intros e b Hin Hs Hlt'. eapply Permutation_in in Hin; [|exact P]. destruct Hin as [E|Hin]; [inv E; lia|].
        eapply Permutation_in; [symmetry; exact P'|]. now right.
      * exists l, (b0 || c). repeat split; auto; try lia. eapply Permutation_in; [symmetry; exact P'|]. now left.
    + repeat split; auto.
      * intros e b Hin. left. eapply Permutation_in; [exact P'|exact Hin].
      * intros e b Hin _. eapply Permutation_in; [symmetry; exact P'|exact Hin].
      * intros e b Hin _ _. eapply Permutation_in; [symmetry; exact P'|exact Hin].
      * exists e0, b0. repeat split; auto; try lia. eapply Permutation_in; [symmetry; exact P'|exact Hin0].
Qed.

(** ** pop_covered *)
Lemma q_pop q : rep_ok q ->
  exists q' r, pop_covered q = Ok (q', r) /\ rep_ok q' /\
    match r with
    | None => (forall e b, ~ qin q e b) /\ (forall e b, ~ qin q' e b)
    | Some (x, c) =>
      qin q x c /\ (forall e b, qin q e b -> loc_leb e x = true) /\
      (forall e b, qin q' e b -> qin q e b) /\
      (forall e b, qin q e b -> lseg e <> lseg x -> qin q' e b) /\
      (quniq q -> forall e b, qin q' e b -> lseg e <> lseg x)
    end /\ (quniq q -> quniq q').
Proof.
  intro Hr. destruct (pop_covered_spec q Hr) as (q' & r & Hq & Hr' & Hs).
  exists q', r. split; auto. split; auto. unfold qin, quniq. split.
  - destruct r as [[x c]|]; cbn [spec_pop] in Hs.
    + destruct Hs as [P Hmax]. repeat split.
      * eapply Permutation_in; [symmetry; exact P|now left].
      * intros e b Hin. eapply Hmax; eauto.
      * intros e b Hin. eapply Permutation_in; [symmetry; exact P|now right].
      * intros e b Hin Hne. eapply Permutation_in in Hin; [|exact P]. destruct Hin as [E|Hin]; [inv E; congruence|auto].
      * intros Hu e b Hin. apply (uniq_ms_perm _ _ P) in Hu. unfold uniq_ms in Hu. cbn in Hu. apply NoDup_cons_iff in Hu as [H1 _].
        intro E. apply H1. rewrite <- E. apply in_map_iff. exists (e, b). auto.
    + destruct Hs as [-> ->]. split; intros e b [].
  - intro Hu. eapply (spec_preserves_uniq (absq q) OPopCovered (absq q') (VLocCov r)); cbn; eauto.
Qed.

(** ** cover_up_to *)
Lemma q_cover q s c lg : rep_ok q -> lg <= u64_max ->
  exists q', cover_up_to q s c lg = Ok q' /\ rep_ok q' /\
    (forall e b, qin q' e b -> qin q e b
        \/ (b = true /\ lseg e = s /\ qin q e false /\ lg <= c)
        \/ (b = false /\ exists e0, qin q e0 false /\ lseg e0 = s /\ lmc e0 <= c /\ c < lg /\ e = with_mc e0 (c + 1))) /\
    (forall e b, qin q e b -> lseg e <> s -> qin q' e b) /\
    (forall e, qin q e false -> lseg e = s -> c < lg -> c < lmc e -> qin q' e false) /\
    (forall e, qin q e false -> lseg e = s -> c < lg -> lmc e <= c -> quniq q -> qin q' (with_mc e (c + 1)) false) /\
    (quniq q -> quniq q').
Proof.
  intros Hr Hlg. destruct (cover_up_to_spec q s c lg Hr Hlg) as (q' & Hq & Hr' & Hs).
  exists q'. split; auto. split; auto. unfold qin, quniq.
  assert (Hu : uniq_ms (absq q) -> uniq_ms (absq q')).
  { intro Hu. eapply (spec_preserves_uniq (absq q) (OCoverUpTo s c lg) (absq q') VUnit); cbn; auto. }
  destruct Hs as [[Hno P]|(e0 & b0 & rest & P & Hseg & Hcase)].
  - repeat split; auto.
    + intros e b Hin. left. eapply Permutation_in; [exact P|exact Hin].
    + intros e b Hin _. eapply Permutation_in; [symmetry; exact P|exact Hin].
    + intros e Hin Hs. exfalso. eapply Hno; eauto.
    + intros e Hin Hs. exfalso. eapply Hno; eauto.
  - assert (Hin0 : In (e0, b0) (absq q)) by (eapply Permutation_in; [symmetry; exact P|now left]).
    assert (Hsame : uniq_ms (absq q) -> forall e b, In (e, b) (absq q) -> lseg e = s -> e = e0 /\ b = b0).
    { intros Hun e b Hin Hs. apply (uniq_ms_perm _ _ P) in Hun. eapply Permutation_in in Hin; [|exact P].
      destruct Hin as [E|Hin]; [inv E; auto|]. unfold uniq_ms in Hun. cbn in Hun. apply NoDup_cons_iff in Hun as [H1 _]. exfalso. apply H1.
      rewrite Hseg, <- Hs. apply in_map_iff. exists (e, b). auto. }
    destruct Hcase as [[-> P']|[(-> & Hle & P')|[(-> & Hlt & Hle & P')|(-> & Hlt & Hgt & P')]]].
    + repeat split; auto.
      * intros e b Hin. left. eapply Permutation_in; [exact P'|exact Hin].
      * intros e b Hin _. eapply Permutation_in; [symmetry; exact P'|exact Hin].
      * intros e Hin _ _ _. eapply Permutation_in; [symmetry; exact P'|exact Hin].
      * intros e Hin Hs _ _ Hun. destruct (Hsame Hun e false Hin Hs) as [_ E]. discriminate.
    + repeat split; auto.
      * intros e b Hin. eapply Permutation_in in Hin; [|exact P']. destruct Hin as [E|Hin].
        -- inv E. right. left. auto.
        -- left. eapply Permutation_in; [symmetry; exact P|now right].
      * intros e b Hin Hne. eapply Permutation_in in Hin; [|exact P]. destruct Hin as [E|Hin]; [inv E; congruence|].
        eapply Permutation_in; [symmetry; exact P'|now right].
      * intros e Hin Hs Hlt _. lia.
      * intros e Hin Hs Hlt _ _. lia.
    + repeat split; auto.
      * intros e b Hin. eapply Permutation_in in Hin; [|exact P']. destruct Hin as [E|Hin].
        -- inv E. right. right. split; auto. exists e0. repeat split; auto.
        -- left. eapply Permutation_in; [symmetry; exact P|now right].
      * intros e b Hin Hne. eapply Permutation_in in Hin; [|exact P]. destruct Hin as [E|Hin].
        -- inv E. congruence.
        -- eapply Permutation_in; [symmetry; exact P'|now right].
      * intros e Hin Hs _ Hgt. eapply Permutation_in in Hin; [|exact P]. destruct Hin as [E|Hin].
        -- inv E. lia.
        -- eapply Permutation_in; [symmetry; exact P'|now right].
      * intros e Hin Hs _ _ Hun. destruct (Hsame Hun e false Hin Hs) as [-> _].
        eapply Permutation_in; [symmetry; exact P'|now left].
    + repeat split; auto.
      * intros e b Hin. left. eapply Permutation_in; [exact P'|exact Hin].
      * intros e b Hin _. eapply Permutation_in; [symmetry; exact P'|exact Hin].
      * intros e Hin _ _ _. eapply Permutation_in; [symmetry; exact P'|exact Hin].
      * intros e Hin Hs _ Hle Hun. destruct (Hsame Hun e false Hin Hs) as [-> _]. lia.
Qed.

(** ** drain_above *)
Lemma q_drain_above q t : rep_ok q ->
  exists q' ls, drain_above q t = Ok (q', ls) /\ rep_ok q' /\
    (forall e b, qin q' e b <-> qin q e b /\ lmc e <= t) /\
    (forall e, In e ls <-> qin q e false /\ t < lmc e) /\
    (quniq q -> quniq q').
Proof.
  intro Hr. destruct (drain_above_spec q t Hr) as (q' & ls & Hq & Hr' & Hs).
  exists q', ls. split; auto. split; auto. cbn [spec] in Hs. destruct Hs as [P (ls' & E & P2)]. inv E.
  unfold qin, quniq. split; [|split].
  - intros e b. split.
    + intro H. eapply Permutation_in in H; [|exact P]. apply filter_In in H as [H1 H2].
      unfold at_most in H2. cbn in H2. split; auto. lia.
    + intros [H1 H2]. eapply Permutation_in; [symmetry; exact P|]. apply filter_In. split; auto.
      unfold at_most. cbn. lia.
  - intro e. split.
    + intro H. eapply Permutation_in in H; [|exact P2]. apply in_map_iff in H as ([e' b] & <- & Hin).
      apply filter_In in Hin as [Hin Hd]. unfold to_drain in Hd. cbn in *. destruct b; cbn in Hd; [discriminate|].
      split; auto. lia.
    + intros [H1 H2]. eapply Permutation_in; [symmetry; exact P2|]. apply in_map_iff. exists (e, false). split; auto.
      apply filter_In. split; auto. unfold to_drain. cbn. lia.
  - intro Hu. eapply uniq_ms_perm; [symmetry; exact P|]. now apply uniq_ms_filter.
Qed.

(** ** drain_all *)
Lemma q_drain_all q : rep_ok q ->
  forall e, In e (snd (drain_all q)) <-> qin q e false.
Proof.
  intros Hr e. destruct (step_refines q ODrainAll Hr I) as (q' & v & Hs & _ & Hspec).
  cbn [step] in Hs. unfold drain_all in *. cbn [snd]. inv Hs. cbn [spec] in Hspec.
  destruct Hspec as [_ (ls & E & P)]. inv E. unfold qin. split.
  - intro H. eapply Permutation_in in H; [|exact P]. apply in_map_iff in H as ([e' b] & <- & Hin).
    apply filter_In in Hin as [Hin Hu]. unfold uncovered in Hu. cbn in *. destruct b; [discriminate|auto].
  - intro H. eapply Permutation_in; [symmetry; exact P|]. apply in_map_iff. exists (e, false). split; auto.
    apply filter_In. split; auto.
Qed.

(** ** all_covered / is_empty *)
Lemma q_all_covered q : rep_ok q -> (all_covered q = true <-> forall e b, qin q e b -> b = true).
Proof.
  intro Hr. rewrite (all_covered_spec q Hr), forallb_forall. unfold qin. split.
  - intros H e b Hin. apply (H (e, b) Hin).
  - intros H [e b] Hin. cbn. eauto.
Qed.

Lemma q_is_empty q : is_empty q = true <-> forall e b, ~ qin q e b.
Proof.
  unfold is_empty, qin, absq. destruct (entries q) as [|x r]; cbn [tag_from]; split.
  - intros _ e b [].
  - reflexivity.
  - discriminate.
  - intro H. exfalso. eapply H. left. reflexivity.
Qed.
