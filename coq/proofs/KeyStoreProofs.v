(** Proofs about [model/KeyStore.v] (C45): both key stores refine a plain map. *)
From Coq Require Import String.
From Aranya Require Import base.Tactics gen.GenKeyStore model.KeyStore.
Local Open Scope N_scope.

(** * Generated call skeleton the model transcribes (pinned) *)
Lemma ks_skeleton_pinned :
  ks_fs_occupied_get = ["self.fd.rewind"; "cbor::from_reader"]%string
  /\ ks_fs_rewind = ["fs::seek"; "fs::SeekFrom::Start"]%string
  /\ ks_fs_rewind_target = "Start(0)"%string
  /\ ks_fs_occupied_remove = ["fs::unlinkat"; "AtFlags::empty"; "self.get"]%string
  /\ ks_fs_vacant_insert = ["self.fd.fstat"; "cbor::into_writer"; "self.fd.fsync"]%string
  /\ ks_fs_vacant_insert_steps = ["cbor::into_writer"; "self.fd.fsync"; "self.dirty=true"]%string
  /\ ks_fs_vacant_insert_propagates = ["cbor::into_writer(&key,&self.fd)?"; "self.fd.fsync()?"]%string
  /\ ks_fs_vacant_drop = ["fs::unlinkat"; "AtFlags::empty"]%string
  /\ ks_fs_vacant_drop_guard = "!self.dirty"%string
  /\ ks_fs_entry = ["self.alias"; "Exclusive::openat"; "Entry::Occupied"; "OccupiedEntry::new"; "self.root.as_fd"; "err.into";
                    "Exclusive::create_new"; "Entry::Vacant"; "VacantEntry::new"; "self.root.as_fd"; "err.into"]%string
  /\ ks_fs_get = ["Shared::openat"; "self.alias"; "cbor::from_reader"; "self.check_canary"; "err.into"]%string
  /\ ks_fs_open = ["fs::open"; "Mode::empty"; "Self::init_canary"; "fd.as_fd"; "Self::new"]%string
  /\ ks_fs_excl_openat_flags = ["RDWR"; "CLOEXEC"]%string
  /\ ks_fs_excl_create_flags = ["CREATE"; "EXCL"; "RDWR"; "CLOEXEC"]%string
  /\ ks_fs_shared_openat_flags = ["RDONLY"; "CLOEXEC"]%string
  /\ ks_mem_entry = ["self.keys.entry"; "btree_map::Entry::Vacant"; "Entry::Vacant"; "btree_map::Entry::Occupied"; "Entry::Occupied"]%string
  /\ ks_mem_get = ["self.keys.get"; "v.to_wrapped"]%string
  /\ ks_mem_vacant_insert = ["self.entry.insert"; "StoredKey::new"]%string
  /\ ks_mem_occupied_get = ["self.entry.get"; ".to_wrapped"]%string
  /\ ks_mem_occupied_remove = ["self.entry.remove"; ".to_wrapped"]%string
  /\ ks_try_insert = ["self.entry"; "Entry::Vacant"; "v.insert"; "Entry::Occupied"; "Error::new"]%string
  /\ ks_remove = ["self.entry"; "Entry::Vacant"; "Entry::Occupied"; "v.remove"]%string.
Proof. repeat split; reflexivity. Qed.

Lemma rewinds_true : rewinds = true.
Proof. reflexivity. Qed.
Lemma dirty_first_false : dirty_first = false.
Proof. reflexivity. Qed.

Section Proofs.
  Variable key : Type.
  Variable enc : key -> bytes.
  Variable dec : bytes -> option key.
  Hypothesis dec_enc : forall k, dec (enc k) = Some k.

  Notation op := (op key).
  Notation obs := (obs key).
  Notation smap := (smap key).

  Lemma lookup_unlink d i j : lookup (unlink d i) j = if j =? i then None else lookup d j.
  Proof.
    induction d as [|[a c] r IH]; cbn [unlink lookup].
    - destr_if; reflexivity.
    - destruct (a =? i) eqn:Ea.
      + rewrite IH. destruct (j =? i) eqn:Ej; auto.
        replace (a =? j) with false by lia. reflexivity.
      + cbn [lookup]. rewrite IH. destruct (a =? j) eqn:Eaj; auto.
        replace (j =? i) with false by lia. reflexivity.
  Qed.
  Lemma lookup_create d i c j : lookup (create d i c) j = if j =? i then Some c else lookup d j.
  Proof.
    unfold create. cbn [lookup]. rewrite lookup_unlink, (N.eqb_sym i j). destr_if; reflexivity.
  Qed.

  (** The store's files are exactly the encodings of the map's keys. *)
  Definition R (d : dir) (m : smap) : Prop := forall i, lookup d i = option_map enc (m i).

  Lemma R_supd_some d m i k c : R d m -> c = enc k -> R (create d i c) (supd key m i (Some k)).
  Proof.
    intros HR -> j. rewrite lookup_create. unfold supd. destr_if; auto.
  Qed.
  Lemma R_supd_none d m i : R d m -> R (unlink d i) (supd key m i None).
  Proof. intros HR j. rewrite lookup_unlink. unfold supd. destr_if; auto. Qed.
  Lemma R_unlink_absent d m i : R d m -> m i = None -> R (unlink d i) m.
  Proof.
    intros HR Hm j. rewrite lookup_unlink. destr_if; auto.
    assert (j = i) by lia. subst. now rewrite Hm.
  Qed.
  Lemma R_create_create d m i c k : R d m -> R (create (create d i c) i (enc k)) (supd key m i (Some k)).
  Proof.
    intros HR j. rewrite !lookup_create. unfold supd. destr_if; auto.
  Qed.
  Lemma R_create_unlink d m i c : R d m -> m i = None -> R (unlink (create d i c) i) m.
  Proof.
    intros HR Hm j. rewrite lookup_unlink, lookup_create. destr_if; auto.
    assert (j = i) by lia. subst. now rewrite Hm.
  Qed.

  Lemma fd_get_rewind k off : fd_get key dec true (enc k) off = (KOk key k, length (enc k)).
  Proof. unfold fd_get. cbn [skipn]. now rewrite dec_enc. Qed.
  Lemma fd_gets_rewind k n off :
    exists off', fd_gets key dec true (enc k) off n = (repeat (KOk key k) n, off').
  Proof.
    revert off; induction n; intros off; cbn [fd_gets repeat]; [eauto|].
    rewrite fd_get_rewind. destruct (IHn (length (enc k))) as [o' ->]. eauto.
  Qed.

  Lemma fs_entry_refines s m i v a :
    R (files s) m ->
    let '(s', ob) := fs_entry key enc dec true false s i v a in
    let '(m', ob') := spec_step key m (OEntry key i v a) in
    ob = ob' /\ R (files s') m' /\ canary s' = canary s.
  Proof.
    intros HR. unfold fs_entry. cbn [spec_step]. rewrite (HR i).
    destruct (m i) as [k|] eqn:Hm; cbn [option_map].
    - destruct (fd_gets_rewind k (gets a) O) as [off ->].
      destruct (then_remove a).
      + rewrite fd_get_rewind. cbn [files canary]. repeat split; auto. now apply R_supd_none.
      + repeat split; auto.
    - destruct v as [k| |p]; cbn [files canary]; repeat split; auto.
      + now apply R_create_create.
      + now apply R_create_unlink.
      + now apply R_create_unlink.
  Qed.

  Lemma fs_step_refines debug s m o :
    R (files s) m -> (debug = true -> canary s = true) ->
    let '(s', ob) := fs_step key enc dec true false debug s o in
    let '(m', ob') := spec_step key m o in
    ob = ob' /\ R (files s') m' /\ (debug = true -> canary s' = true).
  Proof.
    intros HR Hc. destruct o as [i v a|i|i k|i p|i|].
    - cbn [fs_step]. pose proof (fs_entry_refines s m i v a HR) as H.
      destruct (fs_entry key enc dec true false s i v a) as [s' ob].
      destruct (spec_step key m (OEntry key i v a)) as [m' ob'].
      destruct H as (? & ? & Hcan). repeat split; auto. intros; rewrite Hcan; auto.
    - cbn [fs_step spec_step]. unfold fs_get. rewrite (HR i).
      destruct (m i) as [k|]; cbn [option_map].
      + rewrite dec_enc. auto.
      + destruct debug; cbn [andb]; auto. rewrite Hc by auto. cbn. auto.
    - cbn [fs_step].
      pose proof (fs_entry_refines s m i (VInsert key k) {| gets := 0; then_remove := false |} HR) as H.
      destruct (fs_entry key enc dec true false s i (VInsert key k) _) as [s' ob].
      cbn [spec_step gets then_remove repeat] in *.
      destruct (m i) as [k0|]; destruct H as (-> & ? & Hcan); repeat split; auto; intros; rewrite Hcan; auto.
    - cbn [fs_step].
      pose proof (fs_entry_refines s m i (VInsertFail key p) {| gets := 0; then_remove := false |} HR) as H.
      destruct (fs_entry key enc dec true false s i (VInsertFail key p) _) as [s' ob].
      cbn [spec_step gets then_remove repeat] in *.
      destruct (m i) as [k0|]; destruct H as (-> & ? & Hcan); repeat split; auto; intros; rewrite Hcan; auto.
    - cbn [fs_step].
      pose proof (fs_entry_refines s m i (VDrop key) {| gets := 0; then_remove := true |} HR) as H.
      destruct (fs_entry key enc dec true false s i (VDrop key) _) as [s' ob].
      cbn [spec_step gets then_remove repeat] in *.
      destruct (m i) as [k0|] eqn:Hm; destruct H as (-> & HR' & Hcan).
      + repeat split; auto. intros; rewrite Hcan; auto.
      + repeat split; auto.
        * intros j. rewrite (HR' j). unfold supd. destr_if; auto.
          assert (j = i) by lia. subst. now rewrite Hm.
        * intros; rewrite Hcan; auto.
    - cbn [fs_step spec_step files canary]. repeat split; auto.
      intros ->. apply orb_true_r.
  Qed.

  Lemma fs_run_refines debug ops : forall s m,
    R (files s) m -> (debug = true -> canary s = true) ->
    snd (fs_run key enc dec true false debug s ops) = snd (spec_run key m ops)
    /\ R (files (fst (fs_run key enc dec true false debug s ops))) (fst (spec_run key m ops)).
  Proof.
    induction ops as [|o r IH]; intros s m HR Hc; cbn [fs_run spec_run]; [auto|].
    pose proof (fs_step_refines debug s m o HR Hc) as H.
    destruct (fs_step key enc dec true false debug s o) as [s1 ob].
    destruct (spec_step key m o) as [m1 ob'].
    destruct H as (-> & HR1 & Hc1).
    specialize (IH s1 m1 HR1 Hc1).
    destruct (fs_run key enc dec true false debug s1 r) as [s2 obs].
    destruct (spec_run key m1 r) as [m2 obs']. cbn [fst snd] in *.
    destruct IH as [-> ?]. auto.
  Qed.

  (** In-memory store. *)
  Lemma mem_entry_refines s m i v a :
    R s m ->
    let '(s', ob) := mem_entry key enc dec s i v a in
    let '(m', ob') := spec_step key m (OEntry key i v a) in
    ob = ob' /\ R s' m'.
  Proof.
    intros HR. unfold mem_entry. cbn [spec_step]. rewrite (HR i).
    destruct (m i) as [k|] eqn:Hm; cbn [option_map].
    - unfold mem_read. rewrite dec_enc. destruct (then_remove a); split; auto. now apply R_supd_none.
    - destruct v as [k| |p]; split; auto. now apply R_supd_some.
  Qed.

  Lemma mem_step_refines s m o :
    R s m ->
    let '(s', ob) := mem_step key enc dec s o in
    let '(m', ob') := spec_step key m o in
    ob = ob' /\ R s' m'.
  Proof.
    intros HR. destruct o as [i v a|i|i k|i p|i|].
    - apply mem_entry_refines; auto.
    - cbn [mem_step spec_step]. rewrite (HR i). destruct (m i); cbn [option_map]; [rewrite dec_enc|]; auto.
    - cbn [mem_step].
      pose proof (mem_entry_refines s m i (VInsert key k) {| gets := 0; then_remove := false |} HR) as H.
      destruct (mem_entry key enc dec s i (VInsert key k) _) as [s' ob].
      cbn [spec_step gets then_remove repeat] in *.
      destruct (m i); destruct H as (-> & ?); auto.
    - cbn [mem_step].
      pose proof (mem_entry_refines s m i (VInsertFail key p) {| gets := 0; then_remove := false |} HR) as H.
      destruct (mem_entry key enc dec s i (VInsertFail key p) _) as [s' ob].
      cbn [spec_step gets then_remove repeat] in *.
      destruct (m i); destruct H as (-> & ?); auto.
    - cbn [mem_step].
      pose proof (mem_entry_refines s m i (VDrop key) {| gets := 0; then_remove := true |} HR) as H.
      destruct (mem_entry key enc dec s i (VDrop key) _) as [s' ob].
      cbn [spec_step gets then_remove repeat] in *.
      destruct (m i) eqn:Hm; destruct H as (-> & HR'); split; auto.
      intros j. rewrite (HR' j). unfold supd. destr_if; auto.
      assert (j = i) by lia. subst. now rewrite Hm.
    - cbn. auto.
  Qed.

  Lemma mem_run_refines ops : forall s m,
    R s m ->
    snd (mem_run key enc dec s ops) = snd (spec_run key m ops)
    /\ R (fst (mem_run key enc dec s ops)) (fst (spec_run key m ops)).
  Proof.
    induction ops as [|o r IH]; intros s m HR; cbn [mem_run spec_run]; [auto|].
    pose proof (mem_step_refines s m o HR) as H.
    destruct (mem_step key enc dec s o) as [s1 ob].
    destruct (spec_step key m o) as [m1 ob'].
    destruct H as (-> & HR1).
    specialize (IH s1 m1 HR1).
    destruct (mem_run key enc dec s1 r) as [s2 obs].
    destruct (spec_run key m1 r) as [m2 obs']. cbn [fst snd] in *.
    destruct IH as [-> ?]. auto.
  Qed.
End Proofs.

(** * Closed statements *)

(** C45: for every serialisation that round-trips, every build (debug or
    not) and every sequence of entry/insert/get/remove/drop/reopen operations
    over any ids, starting from an empty store, the file-system store (as the
    code is now: [rewinds]) and the in-memory store produce exactly the
    observations of a plain map, and end with exactly the encodings of the
    map's keys on disk / in memory: an id is present iff it was inserted
    through a vacant entry and not removed since; a dropped vacant entry leaves
    nothing; an insert that fails part-way (serialisation or write error after
    any number of bytes) is a no-op on the map and leaves no directory entry;
    reopening preserves the contents. *)
Definition keystore_refines_map_stmt : Prop :=
  forall (key : Type) (enc : key -> bytes) (dec : bytes -> option key),
    (forall k, dec (enc k) = Some k) ->
    forall (debug : bool) (ops : list (op key)),
      let '(m, want) := spec_run key (fun _ => None) ops in
      (let '(s, got) := fs_run key enc dec rewinds dirty_first debug (fs_init debug) ops in
       got = want /\ (forall i, lookup (files s) i = option_map enc (m i)))
      /\ (let '(s, got) := mem_run key enc dec [] ops in
          got = want /\ (forall i, lookup s i = option_map enc (m i))).
Lemma keystore_refines_map_proof : keystore_refines_map_stmt.
Proof.
  intros key enc dec Hde debug ops. rewrite rewinds_true, dirty_first_false.
  assert (HR0 : R key enc [] (fun _ => None)) by (intros i; reflexivity).
  pose proof (fs_run_refines key enc dec Hde debug ops (fs_init debug) (fun _ => None) HR0 (fun H => H)) as Hf.
  pose proof (mem_run_refines key enc dec Hde ops [] (fun _ => None) HR0) as Hm.
  destruct (spec_run key (fun _ => None) ops) as [m want].
  destruct (fs_run key enc dec true false debug (fs_init debug) ops) as [s got].
  destruct (mem_run key enc dec [] ops) as [s' got']. cbn [fst snd] in *.
  destruct Hf, Hm. repeat split; auto.
Qed.

(** F6 (repaired in /repo): without the rewind, a second [get] through one
    occupied entry fails, and [get] followed by [remove] deletes the key and
    reports an error. *)
Definition keystore_orig_refuted_stmt : Prop :=
  forall (key : Type) (enc : key -> bytes) (dec : bytes -> option key) (k : key),
    (forall k, dec (enc k) = Some k) -> dec [] = None ->
    exists ops,
      snd (fs_run key enc dec false false true (fs_init true) ops) <> snd (spec_run key (fun _ => None) ops)
      /\ exists ops',
        snd (fs_run key enc dec false false true (fs_init true) ops')
        = [ObVacant key true; ObOccupied key [KOk key k] (Some (KErr key)); ObGet key (Some None)].
Ltac ks_eval :=
  cbv [fs_run fs_step fs_entry fs_get fs_init files canary lookup create unlink gets then_remove fd_gets fd_get
       spec_run spec_step supd snd fst N.eqb Pos.eqb andb negb repeat]; cbn [skipn].
Lemma keystore_orig_refuted_proof : keystore_orig_refuted_stmt.
Proof.
  intros key enc dec k Hde Hnil.
  assert (Hskip : skipn (length (enc k)) (enc k) = []) by apply skipn_all.
  exists [OEntry key 0 (VInsert key k) {| gets := 0; then_remove := false |};
          OEntry key 0 (VDrop key) {| gets := 2; then_remove := false |}].
  split.
  - ks_eval. rewrite Hde. ks_eval. rewrite Hskip, Hnil. ks_eval. intros H. inv H.
  - exists [OEntry key 0 (VInsert key k) {| gets := 0; then_remove := false |};
            OEntry key 0 (VDrop key) {| gets := 1; then_remove := true |};
            OGet key 0].
    ks_eval. rewrite Hde. ks_eval. rewrite Hskip, Hnil. ks_eval. reflexivity.
Qed.

(** Setting [dirty] before the write (instead of after a successful write and
    sync) breaks the refinement: after a failed insert the id looks occupied. *)
Definition keystore_dirty_first_refuted_stmt : Prop :=
  forall (key : Type) (enc : key -> bytes) (dec : bytes -> option key) (p : bytes),
    exists ops,
      snd (fs_run key enc dec true true true (fs_init true) ops) <> snd (spec_run key (fun _ => None) ops)
      /\ snd (fs_run key enc dec true true true (fs_init true) ops)
         = [ObVacantFailed key; ObOccupied key [] None].
Lemma keystore_dirty_first_refuted_proof : keystore_dirty_first_refuted_stmt.
Proof.
  intros key enc dec p.
  exists [OEntry key 0 (VInsertFail key p) {| gets := 0; then_remove := false |};
          OEntry key 0 (VDrop key) {| gets := 0; then_remove := false |}].
  split; ks_eval; [discriminate | reflexivity].
Qed.

(** Non-vacuity: a concrete codec, and the model run on a sequence that uses
    every operation. *)
Definition toy_enc (k : N) : bytes := [1; k].
Definition toy_dec (b : bytes) : option N := match b with [1; k] => Some k | _ => None end.
Example toy_codec_ok : forall k, toy_dec (toy_enc k) = Some k.
Proof. reflexivity. Qed.
Example keystore_nonvacuous :
  snd (fs_run N toy_enc toy_dec rewinds dirty_first true (fs_init true)
         [OEntry N 1 (VInsert N 7) {| gets := 0; then_remove := false |};
          OEntry N 1 (VDrop N) {| gets := 2; then_remove := true |};
          OEntry N 2 (VDrop N) {| gets := 0; then_remove := false |};
          OGet N 2; OTryInsert N 2 5; OTryInsert N 2 6; OReopen N; OGet N 2; ORemove N 2; ORemove N 2;
          OEntry N 2 (VInsertFail N [1]) {| gets := 0; then_remove := false |}; OGet N 2; OTryInsertFail N 2 [1; 9; 9]; OReopen N; OGet N 2])
  = [ObVacant N true; ObOccupied N [KOk N 7; KOk N 7] (Some (KOk N 7)); ObVacant N false;
     ObGet N (Some None); ObTryInsert N true; ObTryInsert N false; ObReopen N; ObGet N (Some (Some 5));
     ObRemove N (Some (Some 5)); ObRemove N (Some None);
     ObVacantFailed N; ObGet N (Some None); ObTryInsertErr N; ObReopen N; ObGet N (Some None)].
Proof. vm_compute. reflexivity. Qed.
