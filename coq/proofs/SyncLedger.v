(** C18: the panic-site ledger of sync/{mod,requester,responder,wire}.rs and
    the pins on the generated shapes.  [GenSync.sites_sync] is regenerated from
    /repo on every run; every site must appear in [accounted] (how the model
    represents it and why it cannot fire), otherwise [ledger_complete] stops
    compiling: the model no longer covers the code. *)
From Coq Require Import String.
From Aranya Require Import base.Tactics gen.GenSync.
Local Open Scope string_scope.
Local Open Scope N_scope.

Definition site_eqb (a b : site) : bool :=
  let '(f1, n1, k1, l1, o1) := a in
  let '(f2, n2, k2, l2, o2) := b in
  String.eqb f1 f2 && String.eqb n1 n2 && String.eqb k1 k2 && String.eqb l1 l2 && (o1 =? o2).

Definition accounted : list (site * string) := [
  (("mod.rs", "<item>", "arith", "pub const MAX_SYNC_MESSAGE_SIZE: usize = 1024 + MAX_COMMAND_LENGTH * COMMAND_RESPONSE_MAX;", 1), "const expression, evaluated by the compiler (MAX_SYNC_MESSAGE_SIZE pinned below)");
  (("mod.rs", "<item>", "arith", "pub const MAX_SYNC_MESSAGE_SIZE: usize = 1024 + MAX_COMMAND_LENGTH * COMMAND_RESPONSE_MAX;", 2), "const expression, evaluated by the compiler (MAX_SYNC_MESSAGE_SIZE pinned below)");
  (("requester.rs", "get_sync_commands", "assume", ".assume(""next_message_index + 1 mustn't overflow"")?;", 1), "SyncReq.get_sync_commands: bug 20; needs 2^64 - 1 accepted responses (hypothesis of requester_total)");
  (("requester.rs", "get_sync_commands", "cast", "let policy_len = meta.policy_length as usize;", 1), "u32 -> usize widening, exact (SyncReq.slice_cmds uses the u32 value)");
  (("requester.rs", "get_sync_commands", "cast", "let len = meta.length as usize;", 1), "u32 -> usize widening, exact (SyncReq.slice_cmds uses the u32 value)");
  (("requester.rs", "get_sync_commands", "assume", ".assume(""commands is not larger than result"")?;", 1), "SyncReq.get_sync_commands: bug 21; unreachable: both vectors have capacity COMMAND_RESPONSE_MAX (dec_resp_cap)");
  (("responder.rs", "push_bounded", "expect", ".expect(""non-empty"");", 1), "SyncResp.push_bounded: RPanic 1; unreachable: the buffer is full, hence non-empty (push_bounded_ok, cap_segs_pos)");
  (("responder.rs", "push_bounded", "index", "if loc.max_cut < v[max_idx].max_cut {", 1), "SyncResp.push_bounded: RPanic 2; unreachable: argmax_mc returns an index of the list (argmax_mc_spec)");
  (("responder.rs", "push_bounded", "index", "v[max_idx] = loc;", 1), "SyncResp.push_bounded: RPanic 2; unreachable: argmax_mc returns an index of the list (argmax_mc_spec)");
  (("responder.rs", "poll", "bug", "bug!(""poll called before graph_id was set"");", 1), "SyncResp.poll: bug 12; unreachable: Start is entered only by dispatch, which sets graph_id (rinv.ri_gid)");
  (("responder.rs", "find_needed_segments", "bug", "bug!(", 1), "SyncResp.find_needed_segments: bug 5; unreachable: has holds at most COMMAND_SAMPLE_MAX addresses (heapless capacity, dec_req_cap)");
  (("responder.rs", "find_needed_segments", "cast", ".checked_add(SEGMENT_BUFFER_MAX as u64)", 1), "constant 100");
  (("responder.rs", "find_needed_segments", "assume", ".assume(""skip target overflow"")?;", 1), "SyncResp.find_needed_segments: bug 6; unreachable: max cuts of stored commands are below 2^64 - 100 (wf_bound)");
  (("responder.rs", "find_needed_segments", "assume", ".assume(""index must not overflow"")?;", 1), "SyncResp.advance_cursor: cursor <= len(have_locations) <= 100 (advance_cursor_le)");
  (("responder.rs", "find_needed_segments", "index", "let hloc = have_locations[scan];", 1), "SyncResp.scan_have: RPanic 3; unreachable: scan < len (scan_have_ok)");
  (("responder.rs", "find_needed_segments", "assume", ".assume(""command + 1 mustn't overflow"")?;", 1), "SyncResp.fns_body: bug 4; unreachable (valid_mc_bound)");
  (("responder.rs", "get_next", "cast", "max_index: self.message_index as u64,", 1), "usize -> u64 on a 64-bit target, exact (r_idx is an N below 2^64)");
  (("responder.rs", "get_next", "cast", "response_index: self.message_index as u64,", 1), "usize -> u64 on a 64-bit target, exact (r_idx is an N below 2^64)");
  (("responder.rs", "get_next", "assume", ".assume(""length + command_data_length mustn't overflow"")?;", 1), "both summands are below 2^32; not a distinct outcome in the model (SyncResp.get_next comment)");
  (("responder.rs", "get_next", "copy_from_slice", "data_target.copy_from_slice(&command_data);", 1), "slice lengths are equal by construction: target[length..total_length] with total_length = length + command_data.len(); `push` is the same code path for subscriptions (not part of the polled session model)");
  (("responder.rs", "get_next", "assume", ".assume(""message_index overflow"")?;", 1), "SyncResp.get_next: bug 11; needs 2^64 - 1 responses (hypothesis N.of_nat (length ops) < u64_max)");
  (("responder.rs", "push", "cast", "response_index: self.message_index as u64,", 1), "usize -> u64 on a 64-bit target, exact (r_idx is an N below 2^64)");
  (("responder.rs", "push", "assume", ".assume(""length + command_data_length mustn't overflow"")?;", 1), "both summands are below 2^32; not a distinct outcome in the model (SyncResp.get_next comment)");
  (("responder.rs", "push", "copy_from_slice", "data_target.copy_from_slice(&command_data);", 1), "slice lengths are equal by construction: target[length..total_length] with total_length = length + command_data.len(); `push` is the same code path for subscriptions (not part of the polled session model)");
  (("responder.rs", "push", "assume", ".assume(""message_index increment overflow"")?;", 1), "SyncResp.get_next: bug 11; needs 2^64 - 1 responses (hypothesis N.of_nat (length ops) < u64_max)");
  (("responder.rs", "advance", "assume", ".assume(""send index in bounds"")? = resume;", 1), "SyncResp.advance: bug 10; unreachable: resume is only produced for an index inside to_send (gc_loop_total)");
  (("responder.rs", "get_commands", "bug", "bug!(""get_next called before graph_id was set"");", 1), "SyncResp.get_commands: bug 8; unreachable (rinv.ri_gid)");
  (("responder.rs", "get_commands", "bug", "bug!(""send index OOB"");", 1), "SyncResp.gc_loop: bug 7; unreachable: i < len inside the loop (gc_loop_total)");
  (("responder.rs", "get_commands", "cast", "policy_length: policy_length as u32,", 1), "truncating cast, never panics; modelled as mod 2^32 in SyncResp.meta_of");
  (("responder.rs", "get_commands", "cast", "length: bytes.len() as u32,", 1), "truncating cast, never panics; modelled as mod 2^32 in SyncResp.meta_of");
  (("responder.rs", "get_commands", "assume", "commands.push(meta).ok().assume(""commands is not full"")?;", 1), "SyncResp.take_cmds: the loop checks is_full before every push");
  (("responder.rs", "get_commands", "assume", "sent = sent.checked_add(1).assume(""sent + 1 mustn't overflow"")?;", 1), "sent <= COMMAND_RESPONSE_MAX");
  (("responder.rs", "get_commands", "cast", ".checked_add(sent as u64)", 1), "sent <= COMMAND_RESPONSE_MAX");
  (("responder.rs", "get_commands", "assume", ".assume(""max_cut + sent mustn't overflow"")?;", 1), "resume max cut stays inside the segment (entry_cmds_resume), below 2^64 by wf_bound");
  (("responder.rs", "get_commands", "assume", "index = i.checked_add(1).assume(""index + 1 mustn't overflow"")?;", 1), "index <= len(to_send) <= SEGMENT_BUFFER_MAX");
  (("responder.rs", "session_id", "assume", "Ok(self.session_id.assume(""session id is set"")?)", 1), "SyncResp.session_id: bug 9; unreachable outside state New (rinv.ri_sid)")].

Definition ledger_complete_stmt : Prop :=
  forallb (fun s => existsb (fun a => site_eqb s (fst a)) accounted) sites_sync = true.
Lemma ledger_complete_proof : ledger_complete_stmt.
Proof. vm_compute. reflexivity. Qed.

(** no unwrap / panic!-family macro / slice-range index anywhere in the four files *)
Definition forbidden_kinds : list string :=
  ["unwrap"; "panic"; "todo"; "unimplemented"; "unreachable"; "assert"; "assert_eq"; "assert_ne"; "slice"; "split_at"; "split_at_mut"].
Lemma no_forbidden_kinds :
  forallb (fun s => let '(_, _, k, _, _) := s in negb (existsb (String.eqb k) forbidden_kinds)) sites_sync = true.
Proof. vm_compute. reflexivity. Qed.

(** * Pins: limits, wire shapes (variant order = postcard index), state machines *)
Lemma limits_pin :
  (PEER_HEAD_MAX, COMMAND_SAMPLE_MAX, REQUEST_MISSING_MAX, COMMAND_RESPONSE_MAX, SEGMENT_BUFFER_MAX, MAX_COMMAND_LENGTH, MAX_SYNC_MESSAGE_SIZE)
  = (10, 100, 100, 100, 100, 2048, 205824).
Proof. reflexivity. Qed.

Lemma sync_type_pin : sync_type_variants =
  [("Poll", ["request:SyncRequestMessage"]);
   ("Subscribe", ["remain_open:u64"; "max_bytes:u64"; "commands:Vec<Address,COMMAND_SAMPLE_MAX>"; "graph_id:GraphId"]);
   ("Unsubscribe", ["graph_id:GraphId"]);
   ("Push", ["message:super::responder::SyncResponseMessage"; "graph_id:GraphId"]);
   ("Hello", ["(SyncHelloType)"])].
Proof. reflexivity. Qed.
Lemma sync_hello_pin : sync_hello_variants =
  [("Subscribe", ["graph_id:GraphId"; "graph_change_delay:Duration"; "duration:Duration"; "schedule_delay:Duration"]);
   ("Unsubscribe", ["graph_id:GraphId"]); ("Hello", ["graph_id:GraphId"; "head:Address"])].
Proof. reflexivity. Qed.
Lemma subscribe_result_pin : subscribe_result_variants = [("Success", []); ("TooManySubscriptions", [])].
Proof. reflexivity. Qed.
Lemma request_pin : request_variants =
  [("SyncRequest", ["session_id:u128"; "graph_id:GraphId"; "max_bytes:u64"; "commands:Vec<Address,COMMAND_SAMPLE_MAX>"]);
   ("RequestMissing", ["session_id:u128"; "indexes:Vec<u64,REQUEST_MISSING_MAX>"]);
   ("SyncResume", ["session_id:u128"; "response_index:u64"; "max_bytes:u64"]);
   ("EndSession", ["session_id:u128"])].
Proof. reflexivity. Qed.
Lemma response_pin : response_variants =
  [("SyncResponse", ["session_id:u128"; "response_index:u64"; "commands:Vec<CommandMeta,COMMAND_RESPONSE_MAX>"]);
   ("SyncEnd", ["session_id:u128"; "max_index:u64"; "remaining:bool"]);
   ("Offer", ["session_id:u128"; "head:CmdId"]);
   ("EndSession", ["session_id:u128"])].
Proof. reflexivity. Qed.
Lemma command_meta_pin : command_meta_fields = ["id:CmdId"; "priority:Priority"; "parent:Prior<Address>"; "policy_length:u32"; "length:u32"].
Proof. reflexivity. Qed.
Lemma address_pin : address_fields = ["id:CmdId"; "max_cut:MaxCut"].
Proof. reflexivity. Qed.
Lemma priority_pin : priority_variants = [("Merge", []); ("Basic", ["(u32)"]); ("Finalize", []); ("Init", [])].
Proof. reflexivity. Qed.
Lemma prior_pin : prior_variants = [("None", []); ("Single", ["(T)"]); ("Merge", ["(T,T)"])].
Proof. reflexivity. Qed.
Lemma requester_states_pin : map fst requester_states = ["New"; "Start"; "Waiting"; "Idle"; "Closed"; "Resync"; "PartialSync"; "Reset"].
Proof. reflexivity. Qed.
Lemma responder_states_pin : map fst responder_states = ["New"; "Start"; "Send"; "Idle"; "Reset"; "Stopped"].
Proof. reflexivity. Qed.
Lemma ready_pin : requester_ready = ["New"; "Resync"; "Reset"] /\ responder_ready = ["Reset"; "Start"; "Send"].
Proof. split; reflexivity. Qed.
Lemma sync_error_pin : map fst sync_error_variants =
  ["SessionMismatch"; "MissingSyncResponse"; "SessionState"; "NotReady"; "CommandOverflow"; "BufferTooSmall";
   "MalformedResponse"; "UnsupportedRequest"; "Storage"; "Serialize"; "Bug"].
Proof. reflexivity. Qed.
Lemma responder_fields_pin : responder_fields =
  ["session_id:Option<u128>"; "graph_id:Option<GraphId>"; "state:SyncResponderState"; "bytes_sent:u64"; "next_send:usize";
   "message_index:usize"; "has:Vec<Address,COMMAND_SAMPLE_MAX>"; "to_send:Vec<Location,SEGMENT_BUFFER_MAX>"].
Proof. reflexivity. Qed.
Lemma requester_fields_pin : requester_fields =
  ["session_id:u128"; "graph_id:GraphId"; "state:SyncRequesterState"; "max_bytes:u64"; "next_message_index:u64"].
Proof. reflexivity. Qed.
