(** C18: decoding and processing arbitrary bytes never panics; command data is
    sliced inside the received bytes; only own-session, in-order responses are
    accepted. *)
From Aranya Require Import base.Tactics gen.GenQueue gen.GenSync model.Dag model.TravQueue model.Wire model.SyncStore model.SyncResp model.SyncReq
  proofs.TravQueueVec proofs.TravQueueMoves proofs.TravQueueSpec proofs.TravQueueProofs
  proofs.SyncStoreProofs proofs.SyncQueueFacts proofs.SyncRespProofs proofs.SyncSessionProofs.
From Coq Require Import Sorting.Sorted.
Local Open Scope N_scope.

(** an outcome that is neither a panic, nor fuel exhaustion, nor [Bug] (a panic under debug assertions) *)
Definition clean {A} (r : rres A) : Prop :=
  match r with ROk _ => True | RErr e => e <> EBug | RPanic _ => False | RFuel => False end.

(** * Wire: capacities *)
Lemma dbind_ok {A B} (r : dres A) (f : A -> list N -> dres B) b rest :
  dbind r f = DOk b rest -> exists a r1, r = DOk a r1 /\ f a r1 = DOk b rest.
Proof. destruct r; cbn; [eauto|discriminate]. Qed.

Lemma dec_elems_len {T} (dec : list N -> dres T) n : forall bs l r, dec_elems dec n bs = DOk l r -> length l = n.
Proof.
  induction n as [|n IH]; intros bs l r; cbn [dec_elems].
  - intro H; inv H; reflexivity.
  - intro H. apply dbind_ok in H as (x & r1 & _ & H). apply dbind_ok in H as (xs & r2 & H1 & H). inv H.
    cbn. f_equal. eauto.
Qed.

Lemma dec_hvec_len {T} (dec : list N -> dres T) cap bs l r :
  dec_hvec dec cap bs = DOk l r -> (length l <= N.to_nat cap)%nat.
Proof.
  unfold dec_hvec. intro H. apply dbind_ok in H as (len & r1 & _ & H).
  destruct (N.ltb_spec cap len); [discriminate|]. apply dec_elems_len in H. lia.
Qed.

Ltac dinv H := repeat (let a := fresh "a" in let r := fresh "r" in let E := fresh "E" in apply dbind_ok in H as (a & r & E & H)).

Lemma dec_resp_cap bs sid idx cs r : dec_resp bs = DOk (SyncResponse sid idx cs) r -> (length cs <= cap_resp)%nat.
Proof.
  unfold dec_resp. intro H. apply dbind_ok in H as (v & r0 & _ & H).
  destruct v as [|[[p|p|]|[p|p|]|]]; try discriminate; dinv H; inv H.
  eapply dec_hvec_len; eauto.
Qed.

Lemma dec_req_cap bs sid g mb cs r : dec_req bs = DOk (SyncRequest sid g mb cs) r -> (length cs <= N.to_nat COMMAND_SAMPLE_MAX)%nat.
Proof.
  unfold dec_req. intro H. apply dbind_ok in H as (v & r0 & _ & H).
  destruct v as [|[[p|p|]|[p|p|]|]]; try discriminate; dinv H; inv H.
  eapply dec_hvec_len; eauto.
Qed.

(** * Requester: slices *)
Definition slice_ok (rlen : N) (ab : N * N) (len : N) : Prop := fst ab <= snd ab /\ snd ab <= rlen /\ snd ab - fst ab = len.

(** the commands occupy consecutive, in-bounds ranges of the received bytes, in order *)
Fixpoint ranges_ok (rlen start : N) (cs : list rcmd) : Prop :=
  match cs with
  | [] => True
  | c :: r =>
    (match rc_policy c with
     | Some ab => m_plen (rc_meta c) <> 0 /\ fst ab = start /\ slice_ok rlen ab (m_plen (rc_meta c)) /\ fst (rc_data c) = snd ab
     | None => m_plen (rc_meta c) = 0 /\ fst (rc_data c) = start
     end) /\ slice_ok rlen (rc_data c) (m_len (rc_meta c)) /\ ranges_ok rlen (snd (rc_data c)) r
  end.

Lemma slice_spec rlen start len a b : slice rlen start len = Some (a, b) -> a = start /\ slice_ok rlen (a, b) len.
Proof.
  unfold slice. destruct (N.ltb_spec usize_max (start + len)); [discriminate|].
  destruct (N.ltb_spec rlen (start + len)); [discriminate|]. intro E; inv E. unfold slice_ok; cbn. repeat split; lia.
Qed.

Lemma slice_cmds_spec rlen ms : forall start cs, slice_cmds rlen start ms = Some cs ->
  ranges_ok rlen start cs /\ map rc_meta cs = ms.
Proof.
  induction ms as [|m ms IH]; intros start cs; cbn [slice_cmds].
  - intro H; inv H. cbn. auto.
  - destruct (N.eqb_spec (m_plen m) 0) as [Hz|Hnz].
    + destruct (slice rlen start (m_len m)) as [[a b]|] eqn:Es; [|discriminate].
      destruct (slice_cmds rlen b ms) as [cs'|] eqn:Ec; [|discriminate]. intro H; inv H.
      apply slice_spec in Es as [-> Hs]. destruct (IH _ _ Ec) as [Hr Hm]. cbn. repeat split; auto; try apply Hs; try (now f_equal).
    + destruct (slice rlen start (m_plen m)) as [[pa pb]|] eqn:Ep; [|discriminate].
      destruct (slice rlen pb (m_len m)) as [[a b]|] eqn:Es; [|discriminate].
      destruct (slice_cmds rlen b ms) as [cs'|] eqn:Ec; [|discriminate]. intro H; inv H.
      apply slice_spec in Ep as [-> Hp]. apply slice_spec in Es as [-> Hs]. destruct (IH _ _ Ec) as [Hr Hm].
      cbn. repeat split; auto; try apply Hs; try apply Hp; try (now f_equal).
Qed.

(** * Requester: totality and the session/order check *)
Definition slices_in_bounds_stmt : Prop :=
  forall (dbg : bool) (q : requester) (bytes : list N) (q' : requester) (cs : list rcmd),
  receive dbg q bytes = (q', ROk (Some cs)) ->
  exists m rest, dec_resp bytes = DOk m rest /\
    ranges_ok (N.of_nat (length rest)) 0 cs /\
    match m with SyncResponse _ _ ms => map rc_meta cs = ms | _ => False end.

Lemma slices_in_bounds_proof : slices_in_bounds_stmt.
Proof.
  intros dbg q bytes q' cs. unfold receive. destruct (dec_resp bytes) as [m rest|] eqn:Ed; [|discriminate].
  intro H. exists m, rest. split; auto. unfold get_sync_commands in H.
  destruct (negb (resp_sid m =? q_sid q)); [discriminate|]. destruct m as [sid idx ms|sid mx rem|sid h|sid].
  - destruct (negb (start_or_waiting (q_state q))); [discriminate|].
    destruct (negb (idx =? q_next q)); [discriminate|]. destruct (usize_max <=? q_next q); [destruct dbg; discriminate|].
    destruct (slice_cmds _ 0 ms) as [cs'|] eqn:Es; [|discriminate].
    destruct (Nat.ltb _ _); [destruct dbg; discriminate|]. inv H. now apply slice_cmds_spec.
  - destruct (negb (start_or_waiting (q_state q))); [discriminate|]. destruct (negb (mx =? q_next q)); discriminate.
  - destruct (q_state q); discriminate.
  - discriminate.
Qed.

Definition accepts_only_own_session_in_order_stmt : Prop :=
  forall (dbg : bool) (q : requester) (m : resp_msg) (rlen : N) (q' : requester) (cs : list rcmd),
  get_sync_commands dbg q m rlen = (q', ROk (Some cs)) ->
  exists idx ms, m = SyncResponse (q_sid q) idx ms /\ idx = q_next q /\
    (q_state q = QStart \/ q_state q = QWaiting) /\
    q_next q' = q_next q + 1 /\ q_state q' = QWaiting /\ q_sid q' = q_sid q.

Lemma accepts_only_own_session_in_order_proof : accepts_only_own_session_in_order_stmt.
Proof.
  intros dbg q m rlen q' cs. unfold get_sync_commands.
  destruct (N.eqb_spec (resp_sid m) (q_sid q)) as [Hs|]; cbn [negb]; [|discriminate].
  destruct m as [sid idx ms|sid mx rem|sid h|sid]; cbn [resp_sid] in Hs.
  - destruct (start_or_waiting (q_state q)) eqn:Est; cbn [negb]; [|discriminate].
    destruct (N.eqb_spec idx (q_next q)); cbn [negb]; [|discriminate].
    destruct (usize_max <=? q_next q); [destruct dbg; discriminate|].
    destruct (slice_cmds _ 0 ms); [|discriminate]. destruct (Nat.ltb _ _); [destruct dbg; discriminate|].
    intro H; inv H. exists (q_next q), ms. repeat split; auto.
    destruct (q_state q); cbn in Est; try discriminate; auto.
  - destruct (negb (start_or_waiting (q_state q))); [discriminate|]. destruct (negb (mx =? q_next q)); discriminate.
  - destruct (q_state q); discriminate.
  - discriminate.
Qed.

(** a response that does not carry the requester's session id, or whose index is not the next
    expected one, never yields commands and never advances the index *)
Lemma foreign_or_out_of_order_rejected dbg q m rlen :
  resp_sid m <> q_sid q \/ (exists s i ms, m = SyncResponse s i ms /\ i <> q_next q) ->
  let '(q', r) := get_sync_commands dbg q m rlen in
  (exists e, r = RErr e) /\ q_next q' = q_next q.
Proof.
  intros [Hs|(s & i & ms & -> & Hi)]; unfold get_sync_commands.
  - destruct (N.eqb_spec (resp_sid m) (q_sid q)); [contradiction|]. cbn. eauto.
  - cbn [resp_sid]. destruct (negb (s =? q_sid q)); [eauto|].
    destruct (negb (start_or_waiting (q_state q))); [eauto|].
    destruct (N.eqb_spec i (q_next q)); [contradiction|]. cbn. eauto.
Qed.

Definition requester_total_stmt : Prop :=
  forall (dbg : bool) (q : requester) (bytes : list N),
  q_next q < usize_max -> clean (snd (receive dbg q bytes)).

Lemma requester_total_proof : requester_total_stmt.
Proof.
  intros dbg q bytes Hn. unfold receive. destruct (dec_resp bytes) as [m rest|] eqn:Ed; [|cbn; discriminate].
  unfold get_sync_commands. destruct (negb (resp_sid m =? q_sid q)); [cbn; discriminate|].
  destruct m as [sid idx ms|sid mx rem|sid h|sid].
  - destruct (negb (start_or_waiting (q_state q))); [cbn; discriminate|].
    destruct (negb (idx =? q_next q)); [cbn; discriminate|].
    destruct (N.leb_spec usize_max (q_next q)); [lia|].
    destruct (slice_cmds _ 0 ms) as [cs|] eqn:Es; [|cbn; discriminate].
    apply slice_cmds_spec in Es as [_ Hm]. apply dec_resp_cap in Ed. fold cap_resp.
    assert (length cs = length ms) by (rewrite <- Hm; now rewrite map_length).
    destruct (Nat.ltb_spec cap_resp (length cs)); [lia|]. cbn. exact I.
  - destruct (negb (start_or_waiting (q_state q))); [cbn; discriminate|].
    destruct (negb (mx =? q_next q)); cbn; [discriminate|exact I].
  - destruct (q_state q); cbn; try discriminate; exact I.
  - cbn. exact I.
Qed.

(** * Responder: arbitrary bytes and polls, in any order *)
Inductive rop := OpRecv (bs : list N) | OpPoll (tlen : N).
Inductive rout := OutRecv (r : rres unit) | OutPoll (r : rres out_msg).

(** what a transport does with received bytes: decode, hand polls to [SyncResponder::receive] *)
Definition recv_bytes (r : responder) (bs : list N) : responder * rres unit :=
  match dec_sync_type bs with
  | DErr => (r, RErr ESerialize)
  | DOk (TPoll m) _ => dispatch r m
  | DOk _ _ => (r, ROk tt)
  end.

Definition rstep (dbg : bool) (p : provider) (r : responder) (o : rop) : responder * rout :=
  match o with
  | OpRecv bs => let '(r', x) := recv_bytes r bs in (r', OutRecv x)
  | OpPoll t => let '(r', x) := poll dbg p r t in (r', OutPoll x)
  end.

Fixpoint rrun (dbg : bool) (p : provider) (r : responder) (ops : list rop) : list rout :=
  match ops with
  | [] => []
  | o :: rest => let '(r', x) := rstep dbg p r o in x :: rrun dbg p r' rest
  end.

Definition rout_clean (x : rout) : Prop := match x with OutRecv r => clean r | OutPoll r => clean r end.

Lemma take_cmds_sent found : forall room dlen acc sent a d k,
  take_cmds found room dlen acc sent = Some (a, d, k) -> k = (sent + min room (length found))%nat.
Proof.
  induction found as [|c r IH]; intros room dlen acc sent a d k.
  - destruct room; cbn; intro H; inv H; lia.
  - destruct room as [|room]; cbn [take_cmds]; [intro H; inv H; cbn; lia|].
    destruct (_ <? _); [discriminate|]. intro H. apply IH in H. cbn [length min]. lia.
Qed.

Section RespTotal.
Variable dbg : bool.
Variable p : provider.
Hypothesis Hwf : forall g st, get_storage p g = ROk st -> wf_store st.

Lemma gc_loop_total st ts : Forall (valid_loc st) ts ->
  forall n i acc dlen, n = (length ts - i)%nat -> (i <= length ts)%nat ->
  (exists acc' d' index resume,
      gc_loop dbg st ts i n acc dlen i = inl (ROk (acc', d', index, resume)) /\
      (i <= index <= length ts)%nat /\ (forall l, resume = Some l -> (index < length ts)%nat /\ valid_loc st l))
  \/ gc_loop dbg st ts i n acc dlen i = inr (RReset, ECommandOverflow).
Proof.
  intro Hv. induction n as [|n IH]; intros i acc dlen Hn Hi.
  - left. cbn [gc_loop]. do 4 eexists. split; [reflexivity|]. split; [lia|]. intros l E; discriminate.
  - cbn [gc_loop]. destruct (Nat.leb_spec cap_resp (length acc)).
    + left. do 4 eexists. split; [reflexivity|]. split; [lia|]. intros l E; discriminate.
    + destruct (nth_error_lt_Some ts i) as [location Hloc]; [lia|]. rewrite Hloc.
      assert (Hvl : valid_loc st location) by (eapply Forall_forall; [exact Hv|eapply nth_error_In; eauto]).
      destruct (valid_get_segment _ _ Hvl) as (sg & Hsg & _). rewrite Hsg.
      destruct (take_cmds _ _ _ _ _) as [[[acc' d'] sent]|] eqn:Et; [|now right].
      apply take_cmds_sent in Et. cbn [Nat.add] in Et.
      destruct (Nat.ltb_spec sent (length (get_from sg location))) as [Hlt|Hge].
      * left. do 4 eexists. split; [reflexivity|]. split; [lia|]. intros l E. inv E. split; [lia|].
        apply entry_cmds_nonempty_valid.
        assert (Hf : entry_cmds st location = get_from sg location).
        { unfold entry_cmds. now rewrite (get_segment_ok _ _ _ Hsg). }
        rewrite entry_cmds_resume by (rewrite Hf; exact Hlt). rewrite Hf.
        intro E0. apply (f_equal (@length _)) in E0. rewrite skipn_length in E0. cbn in E0. lia.
      * destruct (IH (S i) acc' d') as [(a2 & d2 & ix & rs & E & Hb & Hr)|E]; try lia.
        -- left. exists a2, d2, ix, rs. split; auto. split; [lia|auto].
        -- now right.
Qed.

(** what the state machine maintains, whatever bytes arrive *)
Record rinv (r : responder) : Prop := {
  ri_sid : r_state r <> RNew -> r_sid r <> None;
  ri_gid : r_state r = RStart \/ r_state r = RSend -> r_gid r <> None;
  ri_has : (length (r_has r) <= N.to_nat COMMAND_SAMPLE_MAX)%nat;
  ri_start : r_state r = RStart -> r_next r = 0%nat;
  ri_send : r_state r = RSend -> forall g st, r_gid r = Some g -> get_storage p g = ROk st ->
            Forall (valid_loc st) (r_to_send r) /\ (r_next r <= length (r_to_send r))%nat }.

Ltac rinv_tac := constructor; cbn; auto; try congruence; try discriminate; try lia; try (intros [?|?]; discriminate);
  try (intro; match goal with H : _ <> RNew -> _ |- _ => apply H; discriminate end).

Lemma rinv_new : rinv responder_new.
Proof. constructor; cbn; try congruence; try lia. intros [?|?]; discriminate. Qed.

Lemma dispatch_inv r m : rinv r -> (match m with SyncRequest _ _ _ cs => (length cs <= N.to_nat COMMAND_SAMPLE_MAX)%nat | _ => True end) ->
  let '(r', o) := dispatch r m in rinv r' /\ clean o /\ r_idx r' = r_idx r.
Proof.
  intros [Hsid Hgid Hhas Hstart Hsend] Hm. unfold dispatch.
  set (r1 := match r_sid r with None => _ | Some _ => r end).
  assert (Hr1 : r_sid r1 <> None /\ r_gid r1 = r_gid r /\ r_state r1 = r_state r /\ r_has r1 = r_has r /\
                r_to_send r1 = r_to_send r /\ r_next r1 = r_next r /\ r_idx r1 = r_idx r).
  { unfold r1. destruct (r_sid r) eqn:E; cbn; repeat split; auto; congruence. }
  destruct Hr1 as (H1 & H2 & H3 & H4 & H5 & H6 & H7).
  destruct (negb (opt_N_eqb (r_sid r1) (req_sid m))).
  - split; [|split; [cbn; discriminate|auto]]. constructor; rewrite ?H2, ?H3, ?H4, ?H5, ?H6; auto.
  - destruct m as [s g mb cs|s ix|s i mb|s]; cbn [fst snd];
      (split; [|split; [cbn; try exact I; discriminate|cbn; auto]]);
      constructor; cbn; rewrite ?H4; auto; try congruence; try discriminate; try (intros [?|?]; discriminate).
Qed.

Lemma recv_inv r bs : rinv r -> let '(r', o) := recv_bytes r bs in rinv r' /\ clean o /\ r_idx r' = r_idx r.
Proof.
  intro Hi. unfold recv_bytes. destruct (dec_sync_type bs) as [t rest|] eqn:Ed; [|split; [auto|split; [cbn; discriminate|auto]]].
  destruct t; try (split; [auto|split; [exact I|auto]]).
  apply dispatch_inv; auto. destruct r0; auto.
  (* a decoded SyncRequest carries at most COMMAND_SAMPLE_MAX addresses *)
  unfold dec_sync_type in Ed. apply dbind_ok in Ed as (v & r1 & _ & Ed).
  destruct v as [|[[q|q|]|[q|q|]|]]; try discriminate; try (destruct q as [q|q|]; try discriminate); dinv Ed; inv Ed.
  eapply dec_req_cap; eauto.
Qed.

Lemma get_next_inv r tlen g sid :
  rinv r -> r_state r = RSend -> r_sid r = Some sid -> r_gid r = Some g -> r_idx r < u64_max ->
  let '(r', o) := get_next dbg p r tlen in rinv r' /\ clean o /\ r_idx r' <= r_idx r + 1.
Proof.
  intros Hi Hs Hsid Hgid Hidx. pose proof Hi as [H1 H2 H3 H3' H4]. unfold get_next.
  destruct (Nat.leb_spec (length (r_to_send r)) (r_next r)).
  - unfold session_id. rewrite Hsid. unfold write_msg. destruct (_ <? _).
    + split; auto. split; [cbn; discriminate|lia].
    + split; [|split; [exact I|cbn; lia]]. rinv_tac.
  - unfold get_commands. rewrite Hgid. destruct (get_storage p g) as [st|e| |] eqn:Est.
    + destruct (H4 Hs g st Hgid Est) as [Hv Hn].
      destruct (gc_loop_total st (r_to_send r) Hv (length (r_to_send r) - r_next r) (r_next r) [] 0 eq_refl Hn)
        as [(a2 & d2 & ix & rs & E & Hb & Hr)|E]; rewrite E.
      * unfold session_id. rewrite Hsid. unfold write_msg. destruct (_ <? _); [split; auto; split; [cbn; discriminate|lia]|].
        destruct (_ <? _); [split; auto; split; [cbn; discriminate|lia]|].
        destruct (N.leb_spec u64_max (r_idx r)); [lia|].
        unfold advance. destruct rs as [l|].
        -- destruct (Hr l eq_refl) as [Hlt Hvl]. destruct (Nat.ltb_spec ix (length (r_to_send r))); [|lia].
           split; [|split; [exact I|cbn; lia]]. constructor; cbn; auto; try (intro E0; rewrite Hs in E0; discriminate).
           intros _ g' st' Eg Es. assert (g' = g) by congruence. subst g'. assert (st' = st) by congruence. subst st'.
           split; [now apply Forall_set_at|rewrite set_at_length; lia].
        -- split; [|split; [exact I|cbn; lia]]. constructor; cbn; auto; try (intro E0; rewrite Hs in E0; discriminate).
           intros _ g' st' Eg Es. assert (g' = g) by congruence. subst g'. assert (st' = st) by congruence. subst st'.
           split; auto. lia.
      * split; [|split; [cbn; discriminate|cbn; lia]]. rinv_tac.
    + split; [|split; [cbn|cbn; lia]].
      * rinv_tac.
      * clear - Est. induction p as [|[g' st'] p' IH]; cbn in Est; [inv Est; discriminate|].
        destruct (g' =? g); [discriminate|auto].
    + exfalso. clear - Est. induction p as [|[g' st'] p' IH]; cbn in Est; [discriminate|]. destruct (g' =? g); [discriminate|auto].
    + exfalso. clear - Est. induction p as [|[g' st'] p' IH]; cbn in Est; [discriminate|]. destruct (g' =? g); [discriminate|auto].
Qed.

Lemma get_storage_clean0 (pp : provider) g : forall e, get_storage pp g = RErr e -> e <> EBug.
Proof. induction pp as [|[g' st'] p' IH]; cbn; intros e E; [inv E; discriminate|]. destruct (g' =? g); [discriminate|auto]. Qed.
Lemma get_storage_cases0 (pp : provider) g : (exists st, get_storage pp g = ROk st) \/ (exists e, get_storage pp g = RErr e).
Proof. induction pp as [|[g' st'] p' IH]; cbn; [right; eauto|]. destruct (g' =? g); [left; eauto|auto]. Qed.
Definition get_storage_clean := get_storage_clean0 p.
Definition get_storage_cases := get_storage_cases0 p.

Lemma poll_inv r tlen : rinv r -> r_idx r < u64_max ->
  let '(r', o) := poll dbg p r tlen in rinv r' /\ clean o /\ r_idx r' <= r_idx r + 1.
Proof.
  intros Hi Hidx. pose proof Hi as [H1 H2 H3 H3' H4]. unfold poll. destruct (r_state r) eqn:Es.
  - split; auto. split; [cbn; discriminate|lia].
  - (* Start *)
    destruct (r_gid r) as [g|] eqn:Eg; [|exfalso; apply H2; auto].
    destruct (get_storage_cases g) as [[st Est]|[e Est]]; rewrite Est.
    + pose proof (Hwf g st Est) as W. destruct (find_needed_ok dbg st (r_has r) W H3) as (ts & E & Hc & _ & _). rewrite E.
      destruct (r_sid r) as [sid|] eqn:Esid; [|exfalso; apply H1; congruence].
      match goal with |- context [get_next dbg p ?x tlen] => set (r2 := x) end.
      assert (Hi2 : rinv r2).
      { unfold r2. constructor; cbn; auto; try congruence; try discriminate.
        intros _ g' st' Eg' Es'. inv Eg'. assert (st' = st) by congruence. subst st'. split.
        - eapply Forall_impl; [|exact Hc]. intros a [Ha _]. exact Ha.
        - rewrite H3' by auto. lia. }
      assert (E1 : r_sid r2 = Some sid) by (unfold r2; cbn; exact Esid).
      assert (E2 : r_gid r2 = Some g) by (unfold r2; cbn; exact Eg).
      assert (E3 : r_idx r2 < u64_max) by (unfold r2; cbn; exact Hidx).
      pose proof (get_next_inv r2 tlen g sid Hi2 eq_refl E1 E2 E3) as Hg.
      destruct (get_next dbg p r2 tlen) as [r' o]. exact Hg.
    + cbv beta iota. split; [rinv_tac|]. split; [cbn; eapply get_storage_clean; eauto|cbn; lia].
  - (* Send *)
    destruct (r_gid r) as [g|] eqn:Eg; [|exfalso; apply H2; auto].
    destruct (r_sid r) as [sid|] eqn:Esid; [|exfalso; apply H1; congruence].
    apply (get_next_inv r tlen g sid); auto.
  - split; auto. split; [cbn; discriminate|lia].
  - (* Reset *)
    destruct (r_sid r) as [sid|] eqn:Esid; [|exfalso; apply H1; congruence].
    unfold session_id. rewrite Esid. unfold write_msg. destruct (_ <? _).
    + split; [rinv_tac|]. split; [cbn; discriminate|cbn; lia].
    + split; [rinv_tac|]. split; [exact I|cbn; lia].
  - split; auto. split; [cbn; discriminate|lia].
Qed.

Theorem rrun_clean : forall ops r k,
  rinv r -> r_idx r <= k -> k + N.of_nat (length ops) < u64_max -> Forall rout_clean (rrun dbg p r ops).
Proof.
  induction ops as [|o ops IH]; intros r k Hi Hk Hb; cbn [rrun]; [constructor|].
  destruct o as [bs|t]; cbn [rstep].
  - pose proof (recv_inv r bs Hi) as H. destruct (recv_bytes r bs) as [r' x]. destruct H as (Hi' & Hc & He).
    constructor; [exact Hc|]. apply (IH r' k); auto; cbn [length] in Hb; lia.
  - assert (Hidx : r_idx r < u64_max) by (cbn [length] in Hb; lia).
    pose proof (poll_inv r t Hi Hidx) as H. destruct (poll dbg p r t) as [r' x]. destruct H as (Hi' & Hc & He).
    constructor; [exact Hc|]. apply (IH r' (k + 1)); auto; cbn [length] in Hb; lia.
Qed.
End RespTotal.

Definition sync_decode_total_stmt : Prop :=
  (* the requester: any bytes, any requester state (below 2^64 - 1 received responses) *)
  (forall (dbg : bool) (q : requester) (bytes : list N), q_next q < usize_max -> clean (snd (receive dbg q bytes)))
  /\
  (* the responder: any interleaving of received byte strings and polls into buffers of any size,
     against any provider whose stores are well-formed *)
  (forall (dbg : bool) (p : provider) (ops : list rop),
     (forall g st, get_storage p g = ROk st -> wf_store st) ->
     N.of_nat (length ops) < u64_max ->
     Forall rout_clean (rrun dbg p responder_new ops)).

Lemma sync_decode_total_proof : sync_decode_total_stmt.
Proof.
  split.
  - exact requester_total_proof.
  - intros dbg p ops Hwf Hb. apply (rrun_clean dbg p Hwf ops responder_new 0); auto.
    + apply rinv_new.
    + cbn. lia.
Qed.

(** * Non-vacuity *)
(** a well-formed response with two commands (one with a policy) followed by exactly their bytes *)
Definition ex_resp : list N :=
  enc_resp (SyncResponse 7 0 [ {| m_id := 5; m_prio := PInit; m_parent := P0; m_plen := 2; m_len := 3 |};
                               {| m_id := 6; m_prio := PBasic 9; m_parent := P1 (A 5 0); m_plen := 0; m_len := 1 |} ])
  ++ [1; 2; 3; 4; 5; 6].
Example ex_receive :
  snd (receive true (q_set (requester_new 0 7) QStart) ex_resp)
  = ROk (Some [ {| rc_meta := {| m_id := 5; m_prio := PInit; m_parent := P0; m_plen := 2; m_len := 3 |}; rc_policy := Some (0, 2); rc_data := (2, 5) |};
                {| rc_meta := {| m_id := 6; m_prio := PBasic 9; m_parent := P1 (A 5 0); m_plen := 0; m_len := 1 |}; rc_policy := None; rc_data := (5, 6) |} ])
  /\ (* one byte short: rejected, not a panic *)
  snd (receive true (q_set (requester_new 0 7) QStart) (removelast ex_resp)) = RErr EMalformedResponse
  /\ (* a foreign session *)
  snd (receive true (q_set (requester_new 0 8) QStart) ex_resp) = RErr ESessionMismatch.
Proof. vm_compute. repeat split; reflexivity. Qed.

(** * Whole sessions: any sequence of received byte strings.
    [recv_all] feeds the byte strings to [receive] in order and records the
    expected index at each ACCEPTED response (which, by
    [accepts_only_own_session_in_order], is the index that response carried). *)
Fixpoint recv_all (dbg : bool) (q : requester) (bs : list (list N)) : requester * list N :=
  match bs with
  | [] => (q, [])
  | b :: r =>
    let '(q', res) := receive dbg q b in
    let '(qf, acc) := recv_all dbg q' r in
    (qf, match res with ROk (Some _) => q_next q :: acc | _ => acc end)
  end.

Lemma receive_step dbg q b :
  let '(q', res) := receive dbg q b in
  q_sid q' = q_sid q /\ q_next q <= q_next q' /\
  (forall cs, res = ROk (Some cs) -> q_next q' = q_next q + 1).
Proof.
  unfold receive. destruct (dec_resp b) as [m rest|]; [|cbn; split; [reflexivity|split; [lia|discriminate]]].
  unfold get_sync_commands.
  destruct (negb (resp_sid m =? q_sid q)); [cbn; split; [reflexivity|split; [lia|discriminate]]|].
  destruct m as [sid idx ms|sid mx rem|sid h|sid].
  - destruct (negb (start_or_waiting (q_state q))); [cbn; split; [reflexivity|split; [lia|discriminate]]|].
    destruct (negb (idx =? q_next q)); [cbn; split; [reflexivity|split; [lia|discriminate]]|].
    destruct (usize_max <=? q_next q); [cbn; split; [reflexivity|split; [lia|destruct dbg; discriminate]]|].
    destruct (slice_cmds _ 0 ms); [|cbn; split; [reflexivity|split; [lia|discriminate]]].
    destruct (Nat.ltb _ _); cbn; (split; [reflexivity|split; [lia|]]); [destruct dbg; discriminate|reflexivity].
  - destruct (negb (start_or_waiting (q_state q))); [cbn; split; [reflexivity|split; [lia|discriminate]]|].
    destruct (negb (mx =? q_next q)); cbn; (split; [reflexivity|split; [lia|discriminate]]).
  - destruct (q_state q); cbn; (split; [reflexivity|split; [lia|discriminate]]).
  - cbn. split; [reflexivity|split; [lia|discriminate]].
Qed.

Definition session_indexes_increase_stmt : Prop :=
  forall (dbg : bool) (bs : list (list N)) (q qf : requester) (acc : list N),
  recv_all dbg q bs = (qf, acc) ->
  q_sid qf = q_sid q /\ q_next q <= q_next qf /\
  StronglySorted N.lt acc /\ Forall (fun i => q_next q <= i < q_next qf) acc.
Lemma session_indexes_increase_proof : session_indexes_increase_stmt.
Proof.
  intros dbg bs. induction bs as [|b r IH]; cbn [recv_all]; intros q qf acc H.
  - inv H. split; [reflexivity|]. split; [lia|]. split; constructor.
  - pose proof (receive_step dbg q b) as Hs.
    destruct (receive dbg q b) as [q' res]. destruct Hs as (Hsid & Hle & Hacc).
    destruct (recv_all dbg q' r) as [qf' acc'] eqn:E. inv H.
    destruct (IH _ _ _ E) as (Hsid' & Hle' & Hsorted & Hall).
    split; [congruence|]. split; [lia|].
    assert (Hall' : Forall (fun i => q_next q <= i < q_next qf) acc').
    { eapply Forall_impl; [|exact Hall]. cbn. intros i Hi. lia. }
    destruct res as [[cs|]|e|s|]; try (split; assumption).
    specialize (Hacc cs eq_refl). split.
    + constructor; [exact Hsorted|]. eapply Forall_impl; [|exact Hall]. cbn. intros i Hi. lia.
    + constructor; [lia|exact Hall'].
Qed.

(** Non-vacuity: the example response is accepted once (index 0); replayed
    copies of it, a truncated copy and garbage are all refused afterwards. *)
Example session_indexes_example :
  snd (recv_all true (q_set (requester_new 0 7) QStart) [ex_resp; ex_resp; removelast ex_resp; [255; 255]; ex_resp]) = [0].
Proof. vm_compute. reflexivity. Qed.
