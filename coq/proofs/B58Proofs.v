(** Proofs about [model/B58.v]: positional values, the multi-word arithmetic of
    [Uint<4,32>], [String32::{encode,decode}], and the text / serde forms of [Id]. *)
From Coq Require Import String.
From Aranya Require Import base.Tactics gen.GenB58 model.B58.
Open Scope N_scope.

(** * Positional values *)

(** little-endian value in base [B] *)
Fixpoint leval (B : N) (l : list N) : N :=
  match l with
  | [] => 0
  | d :: r => d + B * leval B r
  end.

Definition digits_lt (B : N) (l : list N) : Prop := Forall (fun d => d < B) l.

Lemma len_nil {A} : len (@nil A) = 0.
Proof. reflexivity. Qed.
Lemma len_cons {A} (a : A) l : len (a :: l) = len l + 1.
Proof. unfold len. cbn [length]. lia. Qed.
Lemma len_app {A} (a b : list A) : len (a ++ b) = len a + len b.
Proof. unfold len. rewrite app_length. lia. Qed.
Lemma len_rev {A} (a : list A) : len (rev a) = len a.
Proof. unfold len. rewrite rev_length. reflexivity. Qed.
Lemma len_map {A B} (f : A -> B) (a : list A) : len (map f a) = len a.
Proof. unfold len. rewrite map_length. reflexivity. Qed.
Lemma len_repeat {A} (a : A) n : len (repeat a n) = N.of_nat n.
Proof. unfold len. rewrite repeat_length. reflexivity. Qed.

Lemma pow_succ B n : B ^ (n + 1) = B * B ^ n.
Proof. rewrite N.add_1_r, N.pow_succ_r'. reflexivity. Qed.

Lemma leval_app B a b : leval B (a ++ b) = leval B a + B ^ len a * leval B b.
Proof.
  induction a as [|d a IH]; cbn [app leval].
  - change (@len N []) with 0; rewrite N.pow_0_r; lia.
  - rewrite IH, len_cons, pow_succ. lia.
Qed.

Lemma leval_bound B l : digits_lt B l -> leval B l < B ^ len l.
Proof.
  induction 1 as [|d l Hd Hl IH]; cbn [leval].
  - change (@len N []) with 0; rewrite N.pow_0_r; lia.
  - rewrite len_cons, pow_succ.
    assert (B * (leval B l + 1) <= B * B ^ len l) by (apply N.mul_le_mono_l; lia).
    lia.
Qed.

Lemma leval_inj B l1 : forall l2,
  length l1 = length l2 -> digits_lt B l1 -> digits_lt B l2 ->
  leval B l1 = leval B l2 -> l1 = l2.
Proof.
  induction l1 as [|d1 l1 IH]; intros [|d2 l2] Hlen H1 H2 Hv; cbn in Hlen; try discriminate; auto.
  inv H1. inv H2. cbn [leval] in Hv.
  assert (HB : B <> 0) by lia.
  assert (E1 : (d1 + B * leval B l1) mod B = d1).
  { rewrite (N.mul_comm B), N.mod_add by exact HB. apply N.mod_small; auto. }
  assert (E2 : (d2 + B * leval B l2) mod B = d2).
  { rewrite (N.mul_comm B), N.mod_add by exact HB. apply N.mod_small; auto. }
  assert (d1 = d2) by (rewrite <- E1, <- E2, Hv; reflexivity).
  subst d2. f_equal. apply IH; auto.
  assert (B * leval B l1 = B * leval B l2) by lia.
  apply N.mul_cancel_l in H; auto.
Qed.

(** big-endian value: the [fold] form the code uses *)
Lemma beval_acc B l : forall a,
  fold_left (fun a d => a * B + d) l a = a * B ^ len l + beval B l.
Proof.
  unfold beval. induction l as [|d l IH]; intros a; cbn [fold_left].
  - change (@len N []) with 0; rewrite N.pow_0_r; lia.
  - rewrite IH, (IH (0 * B + d)), len_cons, pow_succ. lia.
Qed.

Lemma beval_nil B : beval B [] = 0.
Proof. reflexivity. Qed.

Lemma beval_cons B d l : beval B (d :: l) = d * B ^ len l + beval B l.
Proof. unfold beval at 1. cbn [fold_left]. rewrite beval_acc. lia. Qed.

Lemma beval_app B a b : beval B (a ++ b) = beval B a * B ^ len b + beval B b.
Proof. unfold beval at 1. rewrite fold_left_app. fold (beval B a). apply beval_acc. Qed.

Lemma beval_rev B l : beval B l = leval B (rev l).
Proof.
  induction l as [|d l IH]; [reflexivity|].
  rewrite beval_cons. cbn [rev]. rewrite leval_app, len_rev, IH. cbn [leval]. lia.
Qed.

Lemma leval_rev B l : leval B l = beval B (rev l).
Proof. rewrite beval_rev, rev_involutive. reflexivity. Qed.

Lemma digits_lt_rev B l : digits_lt B l -> digits_lt B (rev l).
Proof. unfold digits_lt. rewrite !Forall_forall. intros H x Hx. apply H. apply in_rev; auto. Qed.

Lemma beval_bound B l : digits_lt B l -> beval B l < B ^ len l.
Proof. intros H. rewrite beval_rev, <- len_rev. apply leval_bound, digits_lt_rev; auto. Qed.

Lemma beval_inj B l1 l2 :
  length l1 = length l2 -> digits_lt B l1 -> digits_lt B l2 ->
  beval B l1 = beval B l2 -> l1 = l2.
Proof.
  intros Hl H1 H2 Hv. rewrite !beval_rev in Hv.
  apply leval_inj in Hv; auto using digits_lt_rev.
  - rewrite <- (rev_involutive l1), Hv, rev_involutive. reflexivity.
  - rewrite !rev_length; auto.
Qed.

Lemma beval_repeat0 B n l : beval B (repeat 0 n ++ l) = beval B l.
Proof.
  induction n as [|n IH]; [reflexivity|].
  cbn [repeat app]. rewrite beval_cons, IH. lia.
Qed.

(** * Constants *)
Lemma W64_pow : W64 = 2 ^ 64. Proof. vm_compute; reflexivity. Qed.
Lemma W64_256 : 256 ^ 8 = W64. Proof. vm_compute; reflexivity. Qed.
Lemma W128_sq : W128 = W64 * W64. Proof. vm_compute; reflexivity. Qed.
Lemma W256_pow : W64 ^ 4 = W256. Proof. vm_compute; reflexivity. Qed.
Lemma W256_256 : 256 ^ 32 = W256. Proof. vm_compute; reflexivity. Qed.
Lemma W64_pos : 0 < W64. Proof. vm_compute; reflexivity. Qed.
Lemma W64_gt1 : 1 < W64. Proof. vm_compute; reflexivity. Qed.
Lemma RADIX_pow : RADIX = 58 ^ 10. Proof. vm_compute; reflexivity. Qed.
Lemma RADIX_lt_W64 : RADIX < W64. Proof. vm_compute; reflexivity. Qed.
Lemma RADIX_pos : 0 < RADIX. Proof. vm_compute; reflexivity. Qed.
Lemma W256_lt_58_44 : W256 < 58 ^ 44. Proof. vm_compute; reflexivity. Qed.
Lemma B58_SIZE_44 : B58_SIZE = 44. Proof. vm_compute; reflexivity. Qed.

(** pinned facts about the generated definitions: a change in the sources breaks these *)
Lemma gen_pins :
  ID_BYTES = 32 /\ ID_STRING_BYTES = ID_BYTES /\ ID_DECODE_TYPE = ID_ENCODE_TYPE
  /\ DECODE_CHUNK = 10 /\ ENCODE_CHUNK = 10 /\ RADIX = 58 ^ ENCODE_CHUNK
  /\ length ALPHABET = 58%nat /\ length B58 = 256%nat /\ nth 0 ALPHABET 0 = FILL
  /\ ID_VISITORS = [("Base58Visitor", ["visit_str"]); ("IdVisitor", ["visit_bytes"; "visit_seq"])]%string
  /\ ID_SERDE_CALLS = ["serialize_str"; "serialize_bytes"; "deserialize_str"; "deserialize_bytes"]%string
  /\ ID_HR_BRANCHES = 2.
Proof. repeat split; reflexivity. Qed.

Lemma radii_pow : forall k, (1 <= k <= 10)%nat -> nth k RADII 0 = 58 ^ N.of_nat k.
Proof.
  intros k Hk.
  do 11 (destruct k as [|k]; [try lia; reflexivity|]). lia.
Qed.

(** The decode table and the alphabet are inverse to each other. *)
Definition valid (c : N) : bool := negb (b58_lookup c =? 255).

Lemma lookup_range c : b58_lookup c = 255 \/ b58_lookup c < 58.
Proof.
  unfold b58_lookup.
  destruct (Nat.lt_ge_cases (N.to_nat c) (length B58)) as [H|H].
  - assert (F : Forall (fun v => v = 255 \/ v < 58) B58).
    { apply Forall_forall. intros v Hv.
      assert (E : forallb (fun v => (v =? 255) || (v <? 58)) B58 = true) by (vm_compute; reflexivity).
      rewrite forallb_forall in E. specialize (E v Hv). lia. }
    rewrite Forall_forall in F. apply F. apply nth_In; auto.
  - rewrite nth_overflow by auto. auto.
Qed.

Lemma valid_lt c : valid c = true -> b58_lookup c < 58.
Proof. unfold valid. destruct (lookup_range c); lia. Qed.

Lemma lookup_alphabet d : d < 58 -> b58_lookup (nth (N.to_nat d) ALPHABET 0) = d.
Proof.
  intros Hd.
  assert (E : forallb (fun d => b58_lookup (nth (N.to_nat d) ALPHABET 0) =? d)
                      (map N.of_nat (seq 0 58)) = true) by (vm_compute; reflexivity).
  rewrite forallb_forall in E.
  specialize (E d). rewrite N.eqb_eq in E. apply E.
  apply in_map_iff. exists (N.to_nat d). split; [lia|]. apply in_seq. lia.
Qed.

Lemma alphabet_lookup c : valid c = true -> nth (N.to_nat (b58_lookup c)) ALPHABET 0 = c.
Proof.
  intros Hv. unfold valid in Hv.
  destruct (N.lt_ge_cases c 256) as [Hc|Hc].
  - assert (E : forallb (fun c => (b58_lookup c =? 255) || (nth (N.to_nat (b58_lookup c)) ALPHABET 0 =? c))
                        (map N.of_nat (seq 0 256)) = true) by (vm_compute; reflexivity).
    rewrite forallb_forall in E.
    assert (Hin : In c (map N.of_nat (seq 0 256))).
    { apply in_map_iff. exists (N.to_nat c). split; [lia|]. apply in_seq. lia. }
    specialize (E c Hin). lia.
  - unfold b58_lookup in Hv. rewrite nth_overflow in Hv by (change (length B58) with 256%nat; lia).
    discriminate.
Qed.

Lemma valid_in_alphabet c : valid c = true <-> In c ALPHABET.
Proof.
  split.
  - intros Hv. rewrite <- (alphabet_lookup c Hv). apply nth_In.
    pose proof (valid_lt c Hv). change (length ALPHABET) with 58%nat. lia.
  - intros Hin. apply (In_nth _ _ 0) in Hin. destruct Hin as [n [Hn E]].
    change (length ALPHABET) with 58%nat in Hn.
    pose proof (lookup_alphabet (N.of_nat n)) as L. rewrite Nat2N.id, E in L.
    unfold valid. rewrite L by lia. lia.
Qed.

Lemma valid_nth d : d < 58 -> valid (nth (N.to_nat d) ALPHABET 0) = true.
Proof. intros H. unfold valid. rewrite lookup_alphabet by auto. lia. Qed.

Lemma lookup_fill : b58_lookup FILL = 0.
Proof. reflexivity. Qed.

(** value of a base58 text *)
Definition dval (s : list N) : N := beval 58 (map b58_lookup s).
Definition all_valid (s : list N) : bool := forallb valid s.

Lemma all_valid_digits s : all_valid s = true -> digits_lt 58 (map b58_lookup s).
Proof.
  unfold all_valid, digits_lt. rewrite forallb_forall, Forall_forall.
  intros H d Hd. apply in_map_iff in Hd. destruct Hd as [c [<- Hc]]. apply valid_lt; auto.
Qed.

Lemma dval_cons c s : dval (c :: s) = b58_lookup c * 58 ^ len s + dval s.
Proof. unfold dval. cbn [map]. rewrite beval_cons, len_map. reflexivity. Qed.

Lemma dval_app a b : dval (a ++ b) = dval a * 58 ^ len b + dval b.
Proof. unfold dval. rewrite map_app, beval_app, len_map. reflexivity. Qed.

Lemma dval_bound s : all_valid s = true -> dval s < 58 ^ len s.
Proof. intros H. unfold dval. rewrite <- (len_map b58_lookup). apply beval_bound, all_valid_digits; auto. Qed.

(** Two texts of the same length over the alphabet with the same value are equal. *)
Lemma dval_inj s1 s2 :
  length s1 = length s2 -> all_valid s1 = true -> all_valid s2 = true ->
  dval s1 = dval s2 -> s1 = s2.
Proof.
  intros Hl H1 H2 Hv. unfold dval in Hv.
  apply beval_inj in Hv; auto using all_valid_digits; [|rewrite !map_length; auto].
  assert (R : forall s, all_valid s = true ->
              map (fun d => nth (N.to_nat d) ALPHABET 0) (map b58_lookup s) = s).
  { unfold all_valid. induction s as [|c s IH]; cbn [map forallb]; intros H; auto.
    apply andb_prop in H. destruct H as [Hc Hs]. rewrite alphabet_lookup, IH; auto. }
  rewrite <- (R s1 H1), <- (R s2 H2), Hv. reflexivity.
Qed.

(** * Multi-word arithmetic *)
Definition wval (ws : list N) : N := leval W64 ws.
Definition wfw (ws : list N) : Prop := digits_lt W64 ws.

Lemma mul_add_ww_spec x y c :
  x < W64 -> y < W64 -> c < W64 ->
  let '(hi, lo) := mul_add_ww x y c in
  hi * W64 + lo = x * y + c /\ lo < W64 /\ hi < W64.
Proof.
  intros Hx Hy Hc. unfold mul_add_ww.
  assert (Hxy : x * y <= (W64 - 1) * (W64 - 1)) by (apply N.mul_le_mono; lia).
  pose proof W64_pos as Hp.
  assert (Hz : x * y + c < W64 * W64) by nia.
  rewrite W128_sq.
  rewrite (N.mod_small (x * y)) by lia.
  rewrite (N.mod_small (x * y + c)) by lia.
  set (z := x * y + c) in *.
  split; [|split].
  - rewrite (N.div_mod' z W64) at 3. lia.
  - apply N.mod_lt. lia.
  - apply N.div_lt_upper_bound; lia.
Qed.

Lemma fma_loop_spec ws : forall y c,
  wfw ws -> y < W64 -> c < W64 ->
  let '(ws', c') := fma_loop ws y c in
  wval ws' + W64 ^ len ws * c' = wval ws * y + c
  /\ wfw ws' /\ c' < W64 /\ length ws' = length ws.
Proof.
  unfold wval, wfw. induction ws as [|x r IH]; intros y c Hw Hy Hc; cbn [fma_loop].
  - cbn [leval]. change (@len N []) with 0. rewrite N.pow_0_r. repeat split; auto; lia.
  - inv Hw.
    pose proof (mul_add_ww_spec x y c H1 Hy Hc) as M.
    destruct (mul_add_ww x y c) as [c1 x'] eqn:E1. destruct M as [M1 [M2 M3]].
    pose proof (IH y c1 H2 Hy M3) as I.
    destruct (fma_loop r y c1) as [r' c''] eqn:E2. destruct I as [I1 [I2 [I3 I4]]].
    cbn [leval length]. rewrite len_cons, pow_succ.
    repeat split; auto.
    + assert (W64 * (leval W64 r' + W64 ^ len r * c'') = W64 * (leval W64 r * y + c1)) by (f_equal; exact I1).
      lia.
    + constructor; auto.
Qed.

Lemma wval_bound ws : wfw ws -> wval ws < W64 ^ len ws.
Proof. apply leval_bound. Qed.

Lemma fma_spec ws y r :
  wfw ws -> y < W64 -> r < W64 ->
  let '(ws', ok) := fma ws y r in
  wfw ws' /\ length ws' = length ws
  /\ (ok = true -> wval ws' = wval ws * y + r)
  /\ (ok = (wval ws * y + r <? W64 ^ len ws)).
Proof.
  intros Hw Hy Hr. unfold fma.
  pose proof (fma_loop_spec ws y r Hw Hy Hr) as F.
  destruct (fma_loop ws y r) as [ws' c]. destruct F as [F1 [F2 [F3 F4]]].
  pose proof (wval_bound ws' F2) as B.
  assert (L : len ws' = len ws) by (unfold len; rewrite F4; reflexivity).
  rewrite L in B.
  assert (P : 0 < W64 ^ len ws) by (apply N.neq_0_lt_0, N.pow_nonzero; pose proof W64_pos; lia).
  repeat split; auto.
  - intros Hok. apply N.eqb_eq in Hok. subst c. lia.
  - destruct (N.eqb_spec c 0) as [->|Hne]; symmetry.
    + apply N.ltb_lt. lia.
    + apply N.ltb_ge. assert (W64 ^ len ws * 1 <= W64 ^ len ws * c) by (apply N.mul_le_mono_l; lia). lia.
Qed.

Lemma is_zero_spec ws : is_zero ws = true <-> wval ws = 0.
Proof.
  unfold wval, is_zero. induction ws as [|x r IH]; cbn [forallb leval]; [tauto|].
  rewrite andb_true_iff, IH, N.eqb_eq. pose proof W64_pos. split.
  - intros [-> ->]. lia.
  - intros H0. split; [lia|]. destruct (leval W64 r); [reflexivity|]. exfalso.
    assert (W64 * 1 <= W64 * N.pos p) by (apply N.mul_le_mono_l; lia). lia.
Qed.

(** * [chunks] *)
Lemma chunks_spec n : (0 < n)%nat -> forall fuel l, (length l <= fuel)%nat ->
  concat (chunks fuel n l) = l
  /\ Forall (fun ch => (1 <= length ch <= n)%nat) (chunks fuel n l).
Proof.
  intros Hn. induction fuel as [|f IH]; intros l Hl; cbn [chunks].
  - destruct l; cbn in Hl; [|lia]. split; [reflexivity|constructor].
  - destruct l as [|a l']; [split; [reflexivity|constructor]|].
    set (l := a :: l') in *.
    assert (Hsk : (length (skipn n l) <= f)%nat).
    { rewrite skipn_length. subst l. cbn [length] in *. lia. }
    destruct (IH (skipn n l) Hsk) as [I1 I2].
    cbn [concat]. rewrite I1, firstn_skipn. split; [reflexivity|].
    constructor; auto. rewrite firstn_length. subst l. cbn [length]. lia.
Qed.

Lemma chunks_exact n : (0 < n)%nat -> forall k fuel l, (length l <= fuel)%nat -> length l = (k * n)%nat ->
  Forall (fun ch => length ch = n) (chunks fuel n l).
Proof.
  intros Hn. induction k as [|k IH]; intros fuel l Hf Hl.
  - destruct l; [|cbn in Hl; lia]. destruct fuel; constructor.
  - destruct fuel as [|f]; [cbn in Hl; lia|].
    destruct l as [|a l']; [constructor|]. cbn [chunks].
    set (l := a :: l') in *.
    constructor.
    + rewrite firstn_length. cbn [Nat.mul] in Hl. lia.
    + apply IH.
      * rewrite skipn_length. subst l. cbn [length] in *. lia.
      * rewrite skipn_length. cbn [Nat.mul] in Hl. lia.
Qed.

(** * [String32::decode] *)
Lemma pow58_le a b : a <= b -> 58 ^ a <= 58 ^ b.
Proof. intros. apply N.pow_le_mono_r; lia. Qed.

Lemma pow58_pos a : 0 < 58 ^ a.
Proof. apply N.neq_0_lt_0, N.pow_nonzero. lia. Qed.

Lemma chunk_total_spec ch : forall acc k,
  acc < 58 ^ k -> k + len ch <= 10 ->
  chunk_total acc ch =
  if all_valid ch then Ok (acc * 58 ^ len ch + dval ch) else Err BadInput.
Proof.
  unfold all_valid. induction ch as [|c r IH]; intros acc k Ha Hk; cbn [chunk_total forallb].
  - change (@len N []) with 0. rewrite N.pow_0_r. unfold dval. cbn [map]. rewrite beval_nil. f_equal. lia.
  - rewrite len_cons in Hk.
    unfold valid at 1. destruct (N.eqb_spec (b58_lookup c) 255) as [E|E]; cbn [negb andb]; [reflexivity|].
    assert (Hv : b58_lookup c < 58) by (destruct (lookup_range c); lia).
    assert (Hb : acc * 58 + b58_lookup c < 58 ^ (k + 1)).
    { rewrite pow_succ. lia. }
    assert (Hw : 58 ^ (k + 1) <= W64).
    { pose proof (pow58_le (k + 1) 10 ltac:(lia)). pose proof RADIX_lt_W64. rewrite RADIX_pow in *. lia. }
    unfold checked_mul64. destruct (N.ltb_spec (acc * 58) W64); [|lia].
    unfold checked_add64. destruct (N.ltb_spec (acc * 58 + b58_lookup c) W64); [|lia].
    rewrite (IH _ (k + 1)) by (auto; lia).
    destruct (forallb valid r); [|reflexivity].
    f_equal. rewrite dval_cons, len_cons, pow_succ. lia.
Qed.

Definition okchunk (ch : list N) : Prop := (1 <= length ch <= 10)%nat.

Lemma all_valid_app a b : all_valid (a ++ b) = all_valid a && all_valid b.
Proof. unfold all_valid. apply forallb_app. Qed.

Lemma decode_loop_spec cs : forall x,
  wfw x -> Forall okchunk cs ->
  match decode_loop x cs with
  | Ok x' => all_valid (concat cs) = true /\ wfw x' /\ length x' = length x
             /\ wval x' = wval x * 58 ^ len (concat cs) + dval (concat cs)
  | Err BadInput => all_valid (concat cs) = false
                    \/ W64 ^ len x <= wval x * 58 ^ len (concat cs) + dval (concat cs)
  | Err Bug => False
  end.
Proof.
  induction cs as [|ch r IH]; intros x Hx Hcs; cbn [decode_loop concat].
  - change (@len N []) with 0. rewrite N.pow_0_r. change (dval []) with 0.
    repeat split; auto. lia.
  - inv Hcs. rename H1 into Hch, H2 into Hr. unfold okchunk in Hch.
    rewrite (chunk_total_spec ch 0 0) by (unfold len; cbn; lia).
    rewrite all_valid_app. destruct (all_valid ch) eqn:Ev; cbn [andb]; [|left; reflexivity].
    rewrite radii_pow by lia. fold (len ch).
    assert (Hd : dval ch < 58 ^ len ch) by (apply dval_bound; auto).
    assert (H10 : 58 ^ len ch <= 58 ^ 10) by (apply pow58_le; unfold len; lia).
    pose proof RADIX_lt_W64 as HR. rewrite RADIX_pow in HR.
    pose proof (fma_spec x (58 ^ len ch) (0 * 58 ^ len ch + dval ch) Hx ltac:(lia) ltac:(lia)) as F.
    destruct (fma x (58 ^ len ch) (0 * 58 ^ len ch + dval ch)) as [x' ok].
    destruct F as [F1 [F2 [F3 F4]]].
    rewrite len_app, N.pow_add_r, dval_app.
    destruct ok.
    + specialize (F3 eq_refl). specialize (IH x' F1 Hr).
      destruct (decode_loop x' r) as [x''|[|]]; auto.
      * destruct IH as [I1 [I2 [I3 I4]]]. repeat split; auto; [congruence|]. rewrite I4, F3. lia.
      * destruct IH as [I|I]; [left; exact I|right].
        assert (L : len x' = len x) by (unfold len; rewrite F2; reflexivity).
        rewrite L, F3 in I. lia.
    + right. symmetry in F4. apply N.ltb_ge in F4.
      pose proof (pow58_pos (len (concat r))).
      assert ((wval x * 58 ^ len ch + (0 * 58 ^ len ch + dval ch)) * 1
              <= (wval x * 58 ^ len ch + (0 * 58 ^ len ch + dval ch)) * 58 ^ len (concat r))
        by (apply N.mul_le_mono_l; lia).
      lia.
Qed.

(** [to_be_bytes] *)
Lemma be_bytes_length n : forall v, length (be_bytes n v) = n.
Proof. induction n as [|n IH]; intros v; cbn [be_bytes]; [reflexivity|]. rewrite app_length, IH. cbn. lia. Qed.

Lemma be_bytes_lt n : forall v, digits_lt 256 (be_bytes n v).
Proof.
  unfold digits_lt. induction n as [|n IH]; intros v; cbn [be_bytes]; [constructor|].
  apply Forall_app. split; [apply IH|]. constructor; [|constructor]. apply N.mod_lt. lia.
Qed.

Lemma be_bytes_val n : forall v, beval 256 (be_bytes n v) = v mod 256 ^ N.of_nat n.
Proof.
  induction n as [|n IH]; intros v; cbn [be_bytes].
  - rewrite beval_nil. change (N.of_nat 0) with 0. rewrite N.pow_0_r, N.mod_1_r. reflexivity.
  - rewrite beval_app, IH. change (len [v mod 256]) with 1. rewrite N.pow_1_r.
    rewrite beval_cons, beval_nil. change (@len N []) with 0. rewrite N.pow_0_r.
    rewrite Nat2N.inj_succ, <- N.add_1_r, pow_succ.
    rewrite (N.mod_mul_r v 256 (256 ^ N.of_nat n)); [lia|lia|].
    apply N.pow_nonzero. lia.
Qed.

Lemma to_be_bytes_spec ws : wfw ws ->
  length (to_be_bytes ws) = (8 * length ws)%nat
  /\ digits_lt 256 (to_be_bytes ws)
  /\ beval 256 (to_be_bytes ws) = wval ws.
Proof.
  unfold to_be_bytes, wval, wfw, digits_lt. induction ws as [|w r IH]; intros H.
  - cbn. repeat split; auto.
  - inv H. destruct (IH H3) as [I1 [I2 I3]].
    cbn [rev]. rewrite map_app, concat_app. cbn [map concat]. rewrite app_nil_r.
    split; [|split].
    + rewrite app_length, I1, be_bytes_length. cbn [length]. lia.
    + apply Forall_app. split; auto. apply be_bytes_lt.
    + rewrite beval_app, I3, be_bytes_val. unfold len. rewrite be_bytes_length.
      change (256 ^ N.of_nat 8) with (256 ^ 8). rewrite W64_256.
      rewrite N.mod_small by auto. cbn [leval]. lia.
Qed.

Definition is_id (b : list N) : Prop := length b = 32%nat /\ digits_lt 256 b.

Lemma be_bytes_unique b v : is_id b -> beval 256 b = v -> be_bytes 32 v = b.
Proof.
  intros [Hl Hb] Hv.
  apply (beval_inj 256).
  - rewrite be_bytes_length; auto.
  - apply be_bytes_lt.
  - exact Hb.
  - rewrite be_bytes_val. change (N.of_nat 32) with 32. rewrite N.mod_small; auto.
    subst v. pose proof (beval_bound 256 b Hb) as B. unfold len in B. rewrite Hl in B. exact B.
Qed.

Lemma uint_new_wf : wfw uint_new /\ length uint_new = 4%nat /\ wval uint_new = 0.
Proof.
  assert (E : uint_new = [0; 0; 0; 0]) by (vm_compute; reflexivity).
  rewrite E. repeat split; try reflexivity.
  unfold wfw, digits_lt. repeat constructor; apply W64_pos.
Qed.

(** Complete functional characterisation of [decode]. *)
Lemma decode32_spec s :
  decode32 s = if all_valid s && (dval s <? W256) then Ok (be_bytes 32 (dval s)) else Err BadInput.
Proof.
  unfold decode32.
  destruct (chunks_spec (N.to_nat DECODE_CHUNK) ltac:(vm_compute; lia) (length s) s (le_n _)) as [C1 C2].
  destruct uint_new_wf as [U1 [U2 U3]].
  pose proof (decode_loop_spec (chunks (length s) (N.to_nat DECODE_CHUNK) s) uint_new U1) as D.
  rewrite C1 in D. unfold len at 2 in D. rewrite U2, U3 in D.
  change (W64 ^ N.of_nat 4) with (W64 ^ 4) in D. rewrite W256_pow in D.
  rewrite N.mul_0_l, N.add_0_l in D.
  specialize (D C2).
  destruct (decode_loop uint_new _) as [x'|[|]].
  - destruct D as [D1 [D2 [D3 D4]]].
    destruct (to_be_bytes_spec x' D2) as [T1 [T2 T3]].
    pose proof (wval_bound x' D2) as B. unfold len in B. rewrite D3 in B.
    change (W64 ^ N.of_nat 4) with (W64 ^ 4) in B. rewrite W256_pow in B.
    rewrite D1. cbn [andb]. rewrite <- D4.
    destruct (N.ltb_spec (wval x') W256); [|lia].
    f_equal. symmetry. apply be_bytes_unique; auto. split; auto. rewrite T1, D3. reflexivity.
  - destruct D as [D|D].
    + rewrite D. reflexivity.
    + destruct (all_valid s); [|reflexivity]. cbn [andb].
      destruct (N.ltb_spec (dval s) W256); [lia|reflexivity].
  - destruct D.
Qed.

(** * [String32::encode] *)

(** [from_be_bytes] *)
Lemma beval_chunks8 cs :
  Forall (fun ch => length ch = 8%nat) cs ->
  beval W64 (map (beval 256) cs) = beval 256 (concat cs)
  /\ len (concat cs) = 8 * len cs.
Proof.
  induction 1 as [|c cs Hc Hcs [IH1 IH2]]; cbn [map concat].
  - split; reflexivity.
  - rewrite beval_cons, beval_app, len_map, IH1, len_app, IH2, len_cons.
    split; [|unfold len at 1; rewrite Hc; lia].
    rewrite N.pow_mul_r, W64_256. reflexivity.
Qed.

Lemma from_be_bytes_spec b : is_id b ->
  wfw (from_be_bytes b) /\ length (from_be_bytes b) = 4%nat /\ wval (from_be_bytes b) = beval 256 b.
Proof.
  intros [Hl Hb]. unfold from_be_bytes.
  destruct (chunks_spec 8 ltac:(lia) (length b) b (le_n _)) as [C1 C2].
  pose proof (chunks_exact 8 ltac:(lia) 4 (length b) b (le_n _) ltac:(rewrite Hl; reflexivity)) as C3.
  set (cs := chunks (length b) 8 b) in *.
  destruct (beval_chunks8 cs C3) as [V1 V2].
  split; [|split].
  - apply digits_lt_rev. unfold digits_lt. rewrite Forall_forall. intros w Hw.
    apply in_map_iff in Hw. destruct Hw as [ch [<- Hch]].
    rewrite Forall_forall in C3. specialize (C3 ch Hch).
    assert (Dch : digits_lt 256 ch).
    { unfold digits_lt in *. rewrite Forall_forall in *. intros d Hd. apply Hb.
      rewrite <- C1. apply in_concat. exists ch. split; auto. }
    pose proof (beval_bound 256 ch Dch) as B. unfold len in B. rewrite C3 in B.
    change (256 ^ N.of_nat 8) with (256 ^ 8) in B. rewrite W64_256 in B. exact B.
  - rewrite rev_length, map_length.
    rewrite C1 in V2. unfold len in V2. rewrite Hl in V2. lia.
  - unfold wval. rewrite leval_rev, rev_involutive, V1, C1. reflexivity.
Qed.

(** [arith::div_ww]: the Möller–Granlund steps return quotient and remainder *)
Section DivWW.
Open Scope Z_scope.
Lemma mg_core (B d M x1 x0 : Z) :
  0 < d < B -> B <= 2 * d -> M * d <= B * B - 1 < M * d + d ->
  0 <= x1 < d -> 0 <= x0 < B ->
  let q := (M * x1 + x0) / B in
  let R := x1 * B + x0 - d * q in
  0 <= R < B + d /\ 0 <= q < B.
Proof.
  intros Hd HB HM Hx1 Hx0 q R.
  assert (HM0 : 0 <= M) by nia.
  set (N := M * x1 + x0) in *.
  assert (HN : 0 <= N) by (subst N; nia).
  pose proof (Z.div_mod N B ltac:(lia)) as E. fold q in E.
  pose proof (Z.mod_pos_bound N B ltac:(lia)) as Hrho.
  set (rho := N mod B) in *.
  assert (EBR : B * R = x1 * (B * B - d * M) + x0 * (B - d) + d * rho).
  { subst R. assert (B * q = N - rho) by lia.
    replace (B * (x1 * B + x0 - d * q)) with (x1 * (B*B) + x0 * B - d * (B * q)) by ring.
    rewrite H. subst N. ring. }
  assert (H1 : 0 <= x1 * (B * B - d * M) <= (d - 1) * d) by nia.
  assert (H2 : 0 <= x0 * (B - d) <= (B - 1) * (B - d)) by nia.
  assert (H3 : 0 <= d * rho <= d * (B - 1)) by nia.
  assert (R0 : 0 <= R) by nia.
  assert (R1 : R < B + d) by (assert (B * R < B * (B + d)) by nia; nia).
  assert (Q0 : 0 <= q) by (subst q; apply Z.div_pos; lia).
  repeat split; auto.
  subst R. nia.
Qed.

(** the normalised part of [div_ww], words in [0, B) *)
Definition mg_words (B d m x1 x0 : Z) : Z * Z :=
  let t1 := (m * x1) / B in
  let t0 := (m * x1) mod B in
  let c := if t0 + x0 <? B then 0 else 1 in
  let qq := (t1 + x1 + c) mod B in
  let dq1 := (d * qq) / B in
  let dq0 := (d * qq) mod B in
  let r0 := (x0 - dq0) mod B in
  let b := if x0 <? dq0 then 1 else 0 in
  let r1 := (x1 - dq1 - b) mod B in
  let '(qq, r0) := if negb (r1 =? 0) then ((qq + 1) mod B, (r0 - d) mod B) else (qq, r0) in
  let '(qq, r0) := if d <=? r0 then ((qq + 1) mod B, (r0 - d) mod B) else (qq, r0) in
  (qq, r0).

Lemma mg_words_spec B d m x1 x0 :
  0 < d < B -> B <= 2 * d ->
  0 <= m < B -> (m + B) * d <= B * B - 1 < (m + B) * d + d ->
  0 <= x1 < d -> 0 <= x0 < B ->
  mg_words B d m x1 x0 = ((x1 * B + x0) / d, (x1 * B + x0) mod d).
Proof.
  intros Hd HB2 Hm0 HM Hx1 Hx0.
  pose proof (mg_core B d (m + B) x1 x0 Hd HB2 HM Hx1 Hx0) as C. cbv zeta in C.
  destruct C as [[R0 R1] [Q0 Q1]].
  unfold mg_words.
  set (X := x1 * B + x0) in *.
  assert (Eq : ((m + B) * x1 + x0) / B = (m * x1) / B + x1 + (if (m * x1) mod B + x0 <? B then 0 else 1)).
  { pose proof (Z.div_mod (m * x1) B ltac:(lia)) as E.
    pose proof (Z.mod_pos_bound (m * x1) B ltac:(lia)) as Hl.
    set (t1 := m * x1 / B) in *. set (t0 := (m * x1) mod B) in *.
    replace ((m + B) * x1 + x0) with ((t1 + x1) * B + (t0 + x0)) by nia.
    destruct (Z.ltb_spec (t0 + x0) B).
    - rewrite Z.div_add_l by lia. rewrite (Z.div_small (t0 + x0)) by lia. lia.
    - replace ((t1 + x1) * B + (t0 + x0)) with ((t1 + x1 + 1) * B + (t0 + x0 - B)) by ring.
      rewrite Z.div_add_l by lia. rewrite (Z.div_small (t0 + x0 - B)) by lia. lia. }
  set (q := ((m + B) * x1 + x0) / B) in *.
  rewrite <- Eq. rewrite (Z.mod_small q B) by lia.
  set (R := X - d * q) in *. clear Eq. clearbody q.
  pose proof (Z.div_mod (d * q) B ltac:(lia)) as Edq.
  pose proof (Z.mod_pos_bound (d * q) B ltac:(lia)) as Hdq0.
  set (dq1 := d * q / B) in *. set (dq0 := (d * q) mod B) in *.
  assert (ER : R = (x1 - dq1) * B + (x0 - dq0)) by (subst R X; lia).
  set (b := if x0 <? dq0 then 1 else 0).
  assert (Er0 : (x0 - dq0) mod B = x0 - dq0 + b * B).
  { subst b. destruct (Z.ltb_spec x0 dq0).
    - replace (x0 - dq0) with (x0 - dq0 + B + (-1) * B) by ring. rewrite Z.mod_add by lia. rewrite Z.mod_small; lia.
    - rewrite Z.mod_small; lia. }
  assert (Hr0 : 0 <= x0 - dq0 + b * B < B) by (rewrite <- Er0; apply Z.mod_pos_bound; lia).
  clearbody b dq1 dq0.
  assert (ER' : R = (x1 - dq1 - b) * B + (x0 - dq0 + b * B)) by (rewrite ER; ring).
  assert (Hr1 : 0 <= x1 - dq1 - b <= 1).
  { clear Er0. set (r1 := x1 - dq1 - b) in *. split.
    - destruct (Z.lt_ge_cases r1 0); [|lia]. exfalso.
      assert (r1 * B <= (-1) * B) by (apply Z.mul_le_mono_nonneg_r; lia). lia.
    - destruct (Z.lt_ge_cases 1 r1); [|lia]. exfalso.
      assert (2 * B <= r1 * B) by (apply Z.mul_le_mono_nonneg_r; lia). lia. }
  rewrite Er0. rewrite (Z.mod_small (x1 - dq1 - b) B) by lia.
  set (r0 := x0 - dq0 + b * B) in *. set (r1 := x1 - dq1 - b) in *.
  assert (ERX : X = d * q + r1 * B + r0) by (subst R; lia).
  clearbody r0 r1. clear ER ER' Edq Hdq0 Er0.
  assert (Fin : forall qf rf, X = d * qf + rf -> 0 <= rf < d -> (qf, rf) = (X / d, X mod d)).
  { intros qf rf E Hr. f_equal.
    - apply (Z.div_unique_pos X d qf rf); lia.
    - apply (Z.mod_unique_pos X d qf rf); lia. }
  destruct (Z.eqb_spec r1 0) as [Z1|Z1]; cbn [negb].
  - assert (R = r0) by (subst R; lia).
    destruct (Z.leb_spec d r0).
    + rewrite (Z.mod_small (q + 1)) by nia. rewrite (Z.mod_small (r0 - d)) by lia.
      apply Fin; subst R; lia.
    + apply Fin; subst R; lia.
  - assert (r1 = 1) by lia. assert (ERR : R = B + r0) by lia.
    assert (Hq1 : q + 1 < B) by nia.
    rewrite (Z.mod_small (q + 1)) by lia.
    assert (Em : (r0 - d) mod B = r0 - d + B).
    { replace (r0 - d) with (r0 - d + B + (-1) * B) by ring. rewrite Z.mod_add by lia. rewrite Z.mod_small; lia. }
    rewrite Em.
    destruct (Z.leb_spec d (r0 - d + B)).
    + assert (q + 2 < B) by nia.
      rewrite (Z.mod_small (q + 1 + 1)) by lia. rewrite (Z.mod_small (r0 - d + B - d)) by lia.
      apply Fin; subst R; lia.
    + apply Fin; subst R; lia.
Qed.

(** [a * 2^k | b = a * 2^k + b] when [b < 2^k] *)
Lemma lor_shift_add a b k : 0 <= k -> 0 <= a -> 0 <= b < 2 ^ k -> Z.lor (a * 2 ^ k) b = a * 2 ^ k + b.
Proof.
  intros Hk Ha Hb.
  assert (L : Z.land (a * 2 ^ k) b = 0).
  { apply Z.bits_inj'. intros n Hn. rewrite Z.land_spec, Z.bits_0.
    destruct (Z.lt_ge_cases n k).
    - rewrite Z.mul_pow2_bits_low by lia. reflexivity.
    - destruct (Z.eq_dec b 0) as [->|Hb0]; [rewrite Z.bits_0; apply andb_false_r|].
      rewrite (Z.bits_above_log2 b n); [apply andb_false_r|lia|].
      apply Z.log2_lt_pow2; try lia. apply Z.lt_le_trans with (2 ^ k); [lia|]. apply Z.pow_le_mono_r; lia. }
  rewrite <- Z.lxor_lor by exact L. symmetry. apply Z.add_nocarry_lxor. exact L.
Qed.

Definition ZRADIX : Z := Z.of_N RADIX.
Definition ZREC : Z := Z.of_N REC.

Lemma zconsts :
  leading_zeros ZRADIX = 5 /\ ZW = 2 ^ 59 * 2 ^ 5 /\ ZW128 = ZW * ZW
  /\ 0 < ZRADIX * 2 ^ 5 < ZW /\ ZW <= 2 * (ZRADIX * 2 ^ 5)
  /\ 0 <= ZREC < ZW
  /\ (ZREC + ZW) * (ZRADIX * 2 ^ 5) <= ZW * ZW - 1 < (ZREC + ZW) * (ZRADIX * 2 ^ 5) + ZRADIX * 2 ^ 5.
Proof. vm_compute. repeat split; discriminate. Qed.

Lemma div_ww_z_exact x1 x0 :
  0 <= x1 < ZRADIX -> 0 <= x0 < ZW ->
  div_ww_z x1 x0 ZRADIX ZREC = Some ((x1 * ZW + x0) / ZRADIX, (x1 * ZW + x0) mod ZRADIX).
Proof.
  intros Hx1 Hx0.
  destruct zconsts as [Hs [HW [HW2 [Hd [Hd2 [Hm HM]]]]]].
  unfold div_ww_z. destruct (Z.ltb_spec x1 ZRADIX); [|lia]. cbn [negb].
  rewrite Hs. change (5 =? 0) with false. cbv iota. change (64 - 5) with 59.
  set (d := ZRADIX * 2 ^ 5) in *.
  assert (Ewd : wrap d = d) by (unfold wrap; apply Z.mod_small; lia).
  assert (P5 : 2 ^ 5 = 32) by reflexivity.
  assert (P59 : 0 < 2 ^ 59) by (apply Z.pow_pos_nonneg; lia).
  assert (Ex1 : wrap (x1 * 2 ^ 5) = x1 * 2 ^ 5) by (unfold wrap; apply Z.mod_small; subst d; nia).
  assert (Hhi : 0 <= x0 / 2 ^ 59 < 2 ^ 5).
  { split; [apply Z.div_pos; lia|]. apply Z.div_lt_upper_bound; lia. }
  rewrite Ex1, Ewd, lor_shift_add by lia.
  assert (Ex0 : wrap (x0 * 2 ^ 5) = (x0 mod 2 ^ 59) * 2 ^ 5).
  { unfold wrap. rewrite HW. apply Z.mul_mod_distr_r; lia. }
  rewrite Ex0.
  set (y1 := x1 * 2 ^ 5 + x0 / 2 ^ 59) in *.
  set (y0 := x0 mod 2 ^ 59 * 2 ^ 5) in *.
  assert (Hy1 : 0 <= y1 < d) by (subst y1 d; nia).
  assert (Hy0 : 0 <= y0 < ZW).
  { pose proof (Z.mod_pos_bound x0 (2 ^ 59) P59). subst y0. nia. }
  assert (EX : y1 * ZW + y0 = 2 ^ 5 * (x1 * ZW + x0)).
  { subst y1 y0. pose proof (Z.div_mod x0 (2 ^ 59) ltac:(lia)) as E. rewrite HW. nia. }
  assert (NZ5 : 2 ^ 5 <> 0) by (rewrite P5; discriminate).
  assert (NZR : ZRADIX <> 0) by (vm_compute; discriminate).
  assert (Fq : (y1 * ZW + y0) / d = (x1 * ZW + x0) / ZRADIX).
  { rewrite EX. unfold d. rewrite (Z.mul_comm ZRADIX). apply Z.div_mul_cancel_l; assumption. }
  assert (Fr : ((y1 * ZW + y0) mod d) / 2 ^ 5 = (x1 * ZW + x0) mod ZRADIX).
  { rewrite EX. unfold d. rewrite (Z.mul_comm ZRADIX), Z.mul_mod_distr_l by assumption.
    rewrite Z.mul_comm. apply Z.div_mul. assumption. }
  (* the normalised steps are [mg_words] *)
  unfold mul64, wrap.
  assert (Pm : 0 <= ZREC * y1 < ZW128).
  { clear - Hm Hy1 Hd HW2. rewrite HW2. clearbody y1 d. nia. }
  rewrite (Z.mod_small (ZREC * y1) ZW128) by exact Pm.
  rewrite Z.add_mod_idemp_l by lia.
  set (qq := (ZREC * y1 / ZW + y1 + (if (ZREC * y1) mod ZW + y0 <? ZW then 0 else 1)) mod ZW) in *.
  assert (Hqq : 0 <= qq < ZW) by (subst qq; apply Z.mod_pos_bound; lia).
  assert (Pd : 0 <= d * qq < ZW128).
  { clear - Hqq Hd HW2. rewrite HW2. clearbody qq d. nia. }
  rewrite (Z.mod_small (d * qq) ZW128) by exact Pd.
  rewrite Zminus_mod_idemp_l.
  pose proof (mg_words_spec ZW d ZREC y1 y0 Hd Hd2 Hm HM Hy1 Hy0) as MG.
  unfold mg_words in MG. fold qq in MG.
  rewrite <- Fq, <- Fr. clear Fq Fr EX.
  clearbody qq d y0 y1.
  revert MG.
  repeat (cbv beta iota; match goal with |- context [if ?c then _ else _] => destruct c end);
    cbv beta iota; intros MG; apply pair_equal_spec in MG; destruct MG as [E1 E2]; rewrite <- E1, <- E2; reflexivity.
Qed.

End DivWW.
Close Scope Z_scope.

(** [quo_radix] *)
Lemma div_ww_exact r x : r < RADIX -> x < W64 ->
  div_ww r x RADIX REC = Some ((r * W64 + x) / RADIX, (r * W64 + x) mod RADIX).
Proof.
  intros Hr Hx. unfold div_ww.
  assert (EW : Z.of_N W64 = ZW) by reflexivity.
  fold ZRADIX. fold ZREC.
  rewrite div_ww_z_exact by (unfold ZRADIX; rewrite <- ?EW; lia).
  unfold ZRADIX. rewrite <- EW, <- N2Z.inj_mul, <- N2Z.inj_add, <- N2Z.inj_div, <- N2Z.inj_mod, !N2Z.id.
  reflexivity.
Qed.

Lemma div_ww_spec r x : r < RADIX -> x < W64 ->
  exists q r', div_ww r x RADIX REC = Some (q, r')
  /\ q * RADIX + r' = r * W64 + x /\ r' < RADIX /\ q < W64.
Proof.
  intros Hr Hx. pose proof RADIX_pos as HR.
  rewrite div_ww_exact by auto.
  set (z := r * W64 + x).
  exists (z / RADIX), (z mod RADIX). split; [reflexivity|].
  split; [|split].
  - rewrite (N.div_mod' z RADIX) at 3. lia.
  - apply N.mod_lt. lia.
  - apply N.div_lt_upper_bound; [lia|]. subst z.
    assert (RADIX * W64 >= (r + 1) * W64) by (apply N.le_ge, N.mul_le_mono_r; lia). lia.
Qed.

Lemma quo_loop_spec ws : forall r,
  digits_lt W64 ws -> r < RADIX ->
  exists qs r', quo_loop ws r = Some (qs, r')
  /\ beval W64 qs * RADIX + r' = r * W64 ^ len ws + beval W64 ws
  /\ r' < RADIX /\ digits_lt W64 qs /\ length qs = length ws.
Proof.
  induction ws as [|x t IH]; intros r Hw Hr; cbn [quo_loop].
  - exists [], r. change (@len N []) with 0. rewrite N.pow_0_r, beval_nil. repeat split; auto; try lia; try constructor.
  - inv Hw. destruct (div_ww_spec r x Hr H1) as [q [r1 [E [D1 [D2 D3]]]]]. rewrite E.
    destruct (IH r1 H2 D2) as [t' [r2 [E2 [I1 [I2 [I3 I4]]]]]]. rewrite E2.
    exists (q :: t'), r2. split; [reflexivity|].
    repeat split; auto; try (constructor; auto; fail); try (cbn [length]; lia).
    rewrite !beval_cons, len_cons, pow_succ.
    assert (L : len t' = len t) by (unfold len; rewrite I4; reflexivity). rewrite L.
    assert ((q * RADIX + r1) * W64 ^ len t = (r * W64 + x) * W64 ^ len t) by (f_equal; exact D1).
    lia.
Qed.

Lemma quo_radix_spec ws : wfw ws ->
  exists ws' r, quo_radix ws = Some (ws', r)
  /\ wval ws' * RADIX + r = wval ws /\ r < RADIX /\ wfw ws' /\ length ws' = length ws.
Proof.
  intros Hw. unfold quo_radix.
  destruct (quo_loop_spec (rev ws) 0 (digits_lt_rev _ _ Hw) RADIX_pos) as [qs [r [E [Q1 [Q2 [Q3 Q4]]]]]].
  rewrite E. exists (rev qs), r. split; [reflexivity|].
  unfold wval, wfw. rewrite !leval_rev, rev_involutive.
  repeat split; auto using digits_lt_rev; try lia.
  rewrite rev_length, Q4, rev_length. reflexivity.
Qed.

(** the emit loops *)
Definition tot (r : N) (st : estate) : N := r * 58 ^ len (eout st) + dval (eout st).
Definition st_ok (st : estate) : Prop := ei st + len (eout st) = 44 /\ all_valid (eout st) = true.

Lemma emit_spec r st : st_ok st -> ei st <> 0 ->
  exists st', emit r st = Some st' /\ st_ok st' /\ tot (r / 58) st' = tot r st
  /\ len (eout st') = len (eout st) + 1.
Proof.
  intros [S1 S2] Hi. unfold emit. destruct (N.eqb_spec (ei st) 0); [contradiction|].
  eexists. split; [reflexivity|]. unfold st_ok, tot. cbn [ei eout].
  assert (Hm : r mod 58 < 58) by (apply N.mod_lt; lia).
  rewrite len_cons, dval_cons, lookup_alphabet by auto. rewrite pow_succ.
  repeat split; auto.
  - lia.
  - unfold all_valid in *. cbn [forallb]. rewrite valid_nth by auto. exact S2.
  - rewrite (N.div_mod' r 58) at 3. lia.
Qed.

Lemma emit_n_spec n : forall r st, st_ok st -> N.of_nat n <= ei st ->
  exists st', emit_n n r st = EOk st' /\ st_ok st' /\ tot (r / 58 ^ N.of_nat n) st' = tot r st
  /\ len (eout st') = len (eout st) + N.of_nat n.
Proof.
  induction n as [|n IH]; intros r st Hs Hi; cbn [emit_n].
  - exists st. change (N.of_nat 0) with 0. rewrite N.pow_0_r, N.div_1_r. repeat split; try apply Hs; auto; lia.
  - destruct (emit_spec r st Hs ltac:(lia)) as [st1 [E [S1 [T1 L1]]]]. rewrite E.
    assert (Hi1 : N.of_nat n <= ei st1).
    { destruct Hs as [A _]. destruct S1 as [B _]. lia. }
    destruct (IH (r / 58) st1 S1 Hi1) as [st2 [E2 [S2 [T2 L2]]]].
    exists st2. split; [exact E2|]. repeat split; try apply S2.
    + rewrite Nat2N.inj_succ, <- N.add_1_r, pow_succ, <- N.div_div by (try apply N.pow_nonzero; lia).
      rewrite T2, T1. reflexivity.
    + lia.
Qed.

Lemma pow58_lt_inv a b : 58 ^ a < 58 ^ b -> a < b.
Proof. intros H. apply (N.pow_lt_mono_r_iff 58); [lia|exact H]. Qed.

Lemma emit_while_spec fuel : forall r st,
  st_ok st -> r < 58 ^ N.of_nat fuel -> tot r st < 58 ^ 44 ->
  exists st', emit_while fuel r st = EOk st' /\ st_ok st' /\ tot 0 st' = tot r st.
Proof.
  induction fuel as [|f IH]; intros r st Hs Hr Ht; cbn [emit_while].
  - change (N.of_nat 0) with 0 in Hr. rewrite N.pow_0_r in Hr.
    destruct (N.eqb_spec r 0); [|lia]. subst r. exists st. auto.
  - destruct (N.eqb_spec r 0) as [->|Hne]; [exists st; auto|].
    assert (Hi : ei st <> 0).
    { destruct Hs as [A _]. unfold tot in Ht.
      assert (1 * 58 ^ len (eout st) <= r * 58 ^ len (eout st)) by (apply N.mul_le_mono_r; lia).
      assert (L : len (eout st) < 44) by (apply pow58_lt_inv; lia). lia. }
    destruct (emit_spec r st Hs Hi) as [st1 [E [S1 [T1 L1]]]]. rewrite E.
    rewrite Nat2N.inj_succ, <- N.add_1_r, pow_succ in Hr.
    destruct (IH (r / 58) st1 S1) as [st2 [E2 [S2 T2]]].
    + apply N.div_lt_upper_bound; lia.
    + rewrite T1. exact Ht.
    + exists st2. split; [exact E2|]. split; auto. rewrite T2, T1. reflexivity.
Qed.

Lemma enc_loop_spec x0 fuel : forall x st,
  wfw x -> st_ok st -> wval x * 58 ^ len (eout st) + dval (eout st) = x0 ->
  x0 < 58 ^ 44 -> wval x < RADIX ^ N.of_nat fuel ->
  exists st', enc_loop fuel x st = EOk st' /\ st_ok st' /\ dval (eout st') = x0.
Proof.
  induction fuel as [|f IH]; intros x st Hw Hs Hinv Hx0 Hfuel.
  - change (N.of_nat 0) with 0 in Hfuel. rewrite N.pow_0_r in Hfuel.
    assert (Z : wval x = 0) by lia. cbn [enc_loop].
    apply is_zero_spec in Z as Z'. rewrite Z'. exists st. rewrite Z in Hinv. split; [reflexivity|]. split; auto; lia.
  - cbn [enc_loop]. destruct (is_zero x) eqn:Ez.
    { apply is_zero_spec in Ez. rewrite Ez in Hinv. exists st. split; [reflexivity|]. split; auto; lia. }
    destruct (quo_radix_spec x Hw) as [x' [r [E [Q1 [Q2 [Q3 Q4]]]]]]. rewrite E.
    assert (Hx' : wval x' < RADIX ^ N.of_nat f).
    { rewrite Nat2N.inj_succ, <- N.add_1_r, pow_succ in Hfuel.
      apply (N.mul_lt_mono_pos_l RADIX); [apply RADIX_pos|]. lia. }
    set (L := len (eout st)) in *.
    destruct (is_zero x') eqn:Ez'.
    + apply is_zero_spec in Ez'. rewrite Ez', N.mul_0_l, N.add_0_l in Q1.
      destruct (emit_while_spec 64 r st Hs) as [st1 [E1 [S1 T1]]].
      * pose proof (pow58_le 10 (N.of_nat 64) ltac:(lia)). rewrite RADIX_pow in Q2. lia.
      * unfold tot. fold L. rewrite Q1. lia.
      * rewrite E1.
        apply (IH x' st1); auto.
        -- rewrite Ez', N.mul_0_l, N.add_0_l.
           unfold tot in T1. fold L in T1. rewrite N.mul_0_l, N.add_0_l in T1. rewrite T1, Q1. exact Hinv.
    + assert (Hnz : wval x' <> 0) by (intros C; apply is_zero_spec in C; congruence).
      assert (HL : L + 10 < 44).
      { apply pow58_lt_inv. rewrite N.pow_add_r, <- RADIX_pow.
        assert (1 * (58 ^ L * RADIX) <= wval x' * (58 ^ L * RADIX)) by (apply N.mul_le_mono_r; lia).
        pose proof Hinv as Hinv'. rewrite <- Q1 in Hinv'. lia. }
      destruct (emit_n_spec (N.to_nat ENCODE_CHUNK) r st Hs) as [st1 [E1 [S1 [T1 L1]]]].
      * destruct Hs as [A _]. fold L in A. change (N.of_nat (N.to_nat ENCODE_CHUNK)) with 10. lia.
      * rewrite E1. change (N.of_nat (N.to_nat ENCODE_CHUNK)) with 10 in *.
        apply (IH x' st1); auto.
        rewrite <- RADIX_pow, N.div_small in T1 by exact Q2.
        unfold tot in T1. fold L in T1. rewrite N.mul_0_l, N.add_0_l in T1.
        rewrite L1, T1, N.pow_add_r, <- RADIX_pow. fold L. rewrite <- Q1 in Hinv. lia.
Qed.

Lemma dval_fill n s : dval (repeat FILL n ++ s) = dval s.
Proof.
  unfold dval. rewrite map_app.
  assert (R : map b58_lookup (repeat FILL n) = repeat 0 n).
  { induction n as [|n IH]; cbn [repeat map]; [reflexivity|]. rewrite IH, lookup_fill. reflexivity. }
  rewrite R. apply beval_repeat0.
Qed.

Lemma all_valid_fill n : all_valid (repeat FILL n) = true.
Proof. unfold all_valid. induction n; cbn [repeat forallb]; auto. Qed.

(** [encode] never panics and produces the 44-digit text whose value is the id. *)
Lemma encode32_spec b : is_id b ->
  exists s, encode32 b = EOk s /\ length s = 44%nat /\ all_valid s = true /\ dval s = beval 256 b.
Proof.
  intros Hid. destruct (from_be_bytes_spec b Hid) as [F1 [F2 F3]].
  assert (Hb : beval 256 b < W256).
  { destruct Hid as [Hl Hd]. pose proof (beval_bound 256 b Hd) as B. unfold len in B. rewrite Hl in B.
    change (N.of_nat 32) with 32 in B. rewrite W256_256 in B. exact B. }
  pose proof W256_lt_58_44 as H44.
  unfold encode32.
  destruct (enc_loop_spec (beval 256 b) 64 (from_be_bytes b) {| ei := B58_SIZE; eout := [] |}) as [st [E [[S1 S2] V]]]; auto.
  - split; [reflexivity|reflexivity].
  - cbn [eout]. change (@len N []) with 0. change (dval []) with 0. rewrite N.pow_0_r. lia.
  - lia.
  - rewrite F3.
    assert (W256 <= RADIX ^ N.of_nat 64) by (vm_compute; discriminate). lia.
  - rewrite E. eexists. split; [reflexivity|].
    split; [|split].
    + rewrite app_length, repeat_length. unfold len in S1. lia.
    + rewrite all_valid_app, all_valid_fill, S2. reflexivity.
    + rewrite dval_fill. exact V.
Qed.

(** * The round trip *)
Lemma b58_roundtrip_id b : is_id b ->
  exists s, encode32 b = EOk s /\ length s = 44%nat /\ Forall (fun c => In c ALPHABET) s
            /\ dval s = beval 256 b /\ decode32 s = Ok b.
Proof.
  intros Hid. destruct (encode32_spec b Hid) as [s [E [L [V D]]]].
  exists s. repeat split; auto.
  - apply Forall_forall. intros c Hc. apply valid_in_alphabet.
    unfold all_valid in V. rewrite forallb_forall in V. auto.
  - rewrite decode32_spec, V, D. cbn [andb].
    assert (Hb : beval 256 b < W256).
    { destruct Hid as [Hl Hd]. pose proof (beval_bound 256 b Hd) as B. unfold len in B. rewrite Hl in B.
      change (N.of_nat 32) with 32 in B. rewrite W256_256 in B. exact B. }
    destruct (N.ltb_spec (beval 256 b) W256); [|lia].
    f_equal. apply be_bytes_unique; auto.
Qed.

(** * Statements about crates/aranya-id/src/id.rs *)

Definition in_alphabet (s : list N) : Prop := Forall (fun c => In c ALPHABET) s.

Lemma all_valid_alphabet s : all_valid s = true <-> in_alphabet s.
Proof.
  unfold all_valid, in_alphabet. rewrite forallb_forall, Forall_forall.
  split; intros H c Hc; apply valid_in_alphabet; auto.
Qed.

Lemma is_id_be_bytes v : is_id (be_bytes 32 v).
Proof. split; [apply be_bytes_length|apply be_bytes_lt]. Qed.

(** ** Text *)

(** Every id prints as 44 alphabet characters that parse back to it. *)
Definition id_text_roundtrip_stmt : Prop :=
  forall b, is_id b ->
  exists s, id_to_base58 b = EOk s
            /\ length s = 44%nat /\ in_alphabet s /\ dval s = beval 256 b
            /\ id_from_str s = Ok b /\ id_decode s = Ok b.
Lemma id_text_roundtrip_proof : id_text_roundtrip_stmt.
Proof.
  intros b Hb. destruct (b58_roundtrip_id b Hb) as [s [E [L [A [V D]]]]].
  exists s. unfold id_to_base58, id_from_str, id_decode. repeat split; auto.
Qed.

(** The same at the level of numbers: all [x < 2^256]. *)
Definition b58_roundtrip_stmt : Prop :=
  forall x, x < 2 ^ 256 ->
  exists s, encode32 (be_bytes 32 x) = EOk s /\ length s = 44%nat /\ in_alphabet s
            /\ dval s = x /\ decode32 s = Ok (be_bytes 32 x).
Lemma b58_roundtrip_proof : b58_roundtrip_stmt.
Proof.
  intros x Hx. change (2 ^ 256) with W256 in Hx.
  destruct (b58_roundtrip_id _ (is_id_be_bytes x)) as [s [E [L [A [V D]]]]].
  exists s. repeat split; auto.
  rewrite V, be_bytes_val. change (N.of_nat 32) with 32. rewrite W256_256. apply N.mod_small; auto.
Qed.

(** What [decode] / [FromStr] do on *any* byte string: a total classification. *)
Definition id_decode_spec_stmt : Prop :=
  forall s, id_decode s =
            if all_valid s && (dval s <? 2 ^ 256) then Ok (be_bytes 32 (dval s)) else Err BadInput.
Lemma id_decode_spec_proof : id_decode_spec_stmt.
Proof. intros s. unfold id_decode. change (2 ^ 256) with W256. apply decode32_spec. Qed.

(** "parsing other text either fails cleanly or yields the id it encodes" *)
Definition id_parse_sound_stmt : Prop :=
  forall s,
  (id_from_str s = Err BadInput /\ ((exists c, In c s /\ ~ In c ALPHABET) \/ 2 ^ 256 <= dval s))
  \/ (exists b, id_from_str s = Ok b /\ is_id b /\ in_alphabet s /\ beval 256 b = dval s /\ dval s < 2 ^ 256).
Lemma id_parse_sound_proof : id_parse_sound_stmt.
Proof.
  intros s. unfold id_from_str. rewrite id_decode_spec_proof.
  destruct (all_valid s) eqn:Ev; cbn [andb].
  - destruct (N.ltb_spec (dval s) (2 ^ 256)) as [Hlt|Hge].
    + right. eexists. split; [reflexivity|]. split; [apply is_id_be_bytes|].
      split; [apply all_valid_alphabet; auto|]. split; auto.
      rewrite be_bytes_val. change (N.of_nat 32) with 32. rewrite W256_256. apply N.mod_small. exact Hlt.
    + left. split; auto.
  - left. split; auto. left.
    unfold all_valid in Ev.
    assert (exists c, In c s /\ valid c = false) as [c [Hc Hv]].
    { clear -Ev. induction s as [|c s IH]; cbn [forallb] in Ev; [discriminate|].
      destruct (valid c) eqn:E; cbn [andb] in Ev.
      - destruct (IH Ev) as [c' [H1 H2]]. exists c'. split; auto. right; auto.
      - exists c. split; auto. left; auto. }
    exists c. split; auto. intros Hin. apply valid_in_alphabet in Hin. congruence.
Qed.

(** The printed form is canonical: it is the only 44-character alphabet text with the id's value. *)
Definition id_display_canonical_stmt : Prop :=
  forall b s s', is_id b -> id_to_base58 b = EOk s ->
  length s' = 44%nat -> in_alphabet s' -> dval s' = beval 256 b -> s' = s.
Lemma id_display_canonical_proof : id_display_canonical_stmt.
Proof.
  intros b s s' Hb E L A V.
  destruct (id_text_roundtrip_proof b Hb) as [s0 [E0 [L0 [A0 [V0 _]]]]].
  rewrite E in E0. inv E0.
  apply dval_inj; try apply all_valid_alphabet; auto; congruence.
Qed.

(** Different ids print differently (the text determines the id). *)
Definition id_display_injective_stmt : Prop :=
  forall b1 b2 s, is_id b1 -> is_id b2 -> id_to_base58 b1 = EOk s -> id_to_base58 b2 = EOk s -> b1 = b2.
Lemma id_display_injective_proof : id_display_injective_stmt.
Proof.
  intros b1 b2 s H1 H2 E1 E2.
  destruct (id_text_roundtrip_proof b1 H1) as [s1 [F1 [_ [_ [_ [_ D1]]]]]].
  destruct (id_text_roundtrip_proof b2 H2) as [s2 [F2 [_ [_ [_ [_ D2]]]]]].
  rewrite E1 in F1. rewrite E2 in F2. inv F1. inv F2. congruence.
Qed.

(** ** serde *)
Lemma visit_seq_spec n : forall i l,
  visit_seq n i l = if (n <=? length l)%nat then DOk (firstn n l) else DErr (InvalidLength (i + len l)).
Proof.
  induction n as [|n IH]; intros i l; cbn [visit_seq].
  - reflexivity.
  - destruct l as [|e r].
    + cbn [length Nat.leb]. change (@len N []) with 0. rewrite N.add_0_r. reflexivity.
    + rewrite IH. cbn [length Nat.leb firstn]. destruct (n <=? length r)%nat; [reflexivity|].
      rewrite len_cons. f_equal. f_equal. lia.
Qed.

Definition serde_roundtrip_stmt : Prop :=
  forall b, is_id b ->
  (* human readable: the base58 text *)
  (exists s, id_serialize true b = EOk (PStr s) /\ id_to_base58 b = EOk s
             /\ id_deserialize true (PStr s) = DOk b)
  (* binary: the 32 raw bytes, as a byte string or as a sequence *)
  /\ id_serialize false b = EOk (PBytes b)
  /\ id_deserialize false (PBytes b) = DOk b
  /\ id_deserialize false (PSeq b) = DOk b
  (* postcard: length prefix 32, then the bytes; trailing input is left alone *)
  /\ pc_serialize b = EOk (32 :: b)
  /\ forall rest, pc_deserialize (32 :: b ++ rest) = PcOk b.
Lemma serde_roundtrip_proof : serde_roundtrip_stmt.
Proof.
  intros b Hb. destruct (id_text_roundtrip_proof b Hb) as [s [E [_ [_ [_ [F _]]]]]].
  destruct Hb as [Hl Hd].
  assert (Hlen : len b =? ID_BYTES = true) by (unfold len; rewrite Hl; reflexivity).
  split; [|split; [|split; [|split; [|split]]]].
  - exists s. unfold id_serialize, id_deserialize. rewrite E, F. auto.
  - reflexivity.
  - unfold id_deserialize. rewrite Hlen. reflexivity.
  - unfold id_deserialize. rewrite visit_seq_spec. change (N.to_nat ID_BYTES) with 32%nat.
    rewrite <- Hl, Nat.leb_refl, firstn_all. reflexivity.
  - unfold pc_serialize, id_serialize, pc_serialize_bytes. unfold len. rewrite Hl. reflexivity.
  - intros rest. unfold pc_deserialize.
    change (take_varint 10 0 0 (32 :: b ++ rest)) with (@inl (option (N * list N)) pcerr (Some (32, b ++ rest))).
    cbv iota beta.
    assert (L : len (b ++ rest) <? 32 = false).
    { apply N.ltb_ge. rewrite len_app. unfold len at 1. rewrite Hl. lia. }
    rewrite L. change (N.to_nat 32) with 32%nat.
    rewrite <- Hl at 1. rewrite firstn_app, firstn_all, Nat.sub_diag, firstn_O, app_nil_r.
    unfold id_deserialize. rewrite Hlen. reflexivity.
Qed.

(** Binary input of any other length is rejected; the other payload kinds are type errors;
    anything accepted is exactly the payload's 32 bytes. *)
Definition serde_reject_stmt : Prop :=
  (forall v, length v <> 32%nat -> id_deserialize false (PBytes v) = DErr (InvalidLength (len v)))
  /\ (forall l, (length l < 32)%nat -> id_deserialize false (PSeq l) = DErr (InvalidLength (len l)))
  /\ (forall p b, id_deserialize false p = DOk b ->
        length b = 32%nat /\ (p = PBytes b \/ exists rest, p = PSeq (b ++ rest)))
  /\ (forall p b, id_deserialize true p = DOk b -> exists s, p = PStr s /\ id_from_str s = Ok b)
  /\ (forall p, id_deserialize true p <> DErr Custom)
  /\ (forall buf b, pc_deserialize buf = PcOk b ->
        length b = 32%nat /\ exists rest, take_varint 10 0 0 buf = inl (Some (32, b ++ rest))).
Lemma serde_reject_proof : serde_reject_stmt.
Proof.
  split; [|split; [|split; [|split; [|split]]]].
  - intros v Hv. unfold id_deserialize.
    destruct (N.eqb_spec (len v) ID_BYTES) as [E|E]; [|reflexivity].
    exfalso. apply Hv. unfold len in E. change ID_BYTES with 32 in E. lia.
  - intros l Hl. unfold id_deserialize. rewrite visit_seq_spec. change (N.to_nat ID_BYTES) with 32%nat.
    destruct (Nat.leb_spec 32 (length l)); [lia|]. reflexivity.
  - intros p b H. unfold id_deserialize in H. destruct p as [s|v|l|]; try discriminate.
    + destruct (N.eqb_spec (len v) ID_BYTES) as [E|E]; [|discriminate]. inv H.
      unfold len in E. change ID_BYTES with 32 in E. split; [lia|auto].
    + rewrite visit_seq_spec in H. change (N.to_nat ID_BYTES) with 32%nat in H.
      destruct (Nat.leb_spec 32 (length l)); [|discriminate].
      assert (Eb : b = firstn 32 l) by congruence. subst b. clear H.
      split; [rewrite firstn_length; lia|]. right. exists (skipn 32 l). rewrite firstn_skipn. reflexivity.
  - intros p b H. unfold id_deserialize in H. destruct p as [s|v|l|]; try discriminate.
    exists s. split; auto. destruct (id_from_str s) as [x|[|]]; try discriminate. inv H. reflexivity.
  - intros p H. unfold id_deserialize in H. destruct p as [s|v|l|]; try discriminate.
    unfold id_from_str in H. rewrite id_decode_spec_proof in H.
    destruct (all_valid s && (dval s <? 2 ^ 256)); discriminate.
  - intros buf b H. unfold pc_deserialize in H.
    destruct (take_varint 10 0 0 buf) as [[[sz rest]|]|e] eqn:T; try discriminate.
    destruct (N.ltb_spec (len rest) sz); [discriminate|].
    unfold id_deserialize in H.
    destruct (N.eqb_spec (len (firstn (N.to_nat sz) rest)) ID_BYTES) as [E|E]; [|discriminate].
    inv H. unfold len in E. change ID_BYTES with 32 in E.
    split; [lia|].
    rewrite firstn_length in E. unfold len in H0.
    assert (sz = 32) by lia. subst sz.
    exists (skipn 32 rest). change (N.to_nat 32) with 32%nat. rewrite firstn_skipn. reflexivity.
Qed.

(** * Non-vacuity *)
Example id_example :
  let b := repeat 255 32 in
  is_id b
  /\ id_to_base58 b = EOk [74; 69; 75; 78; 86; 110; 107; 98; 111; 51; 106; 109; 97; 53; 110; 82; 69; 66; 66; 74; 67; 68;
                           111; 88; 70; 86; 101; 75; 107; 68; 53; 54; 86; 51; 120; 75; 114; 118; 82; 109; 87; 120; 70; 71]
  /\ id_from_str [53; 81] = Ok (repeat 0 31 ++ [255])           (* "5Q" = 255: short text is accepted *)
  /\ id_from_str (repeat 122 44) = Err BadInput               (* "zzz…" overflows 2^256 *)
  /\ id_from_str [48] = Err BadInput                          (* '0' is not in the alphabet *)
  /\ pc_deserialize (31 :: repeat 7 40) = PcErr PcCustom.
Proof.
  cbv zeta. split; [split; [reflexivity|repeat constructor]|].
  repeat split; vm_compute; reflexivity.
Qed.
