(** Proofs about [model/B58.v]: positional values, the multi-word arithmetic of
    [Uint<4,32>], [String32::{encode,decode}], and the text / serde forms of [Id]. *)
From Aranya Require Import base.Tactics gen.GenB58 model.B58.
Open Scope N_scope.

(** * Positional values *)

(** little-endian value in base [B] *)
Fixpoint leval (B : N) (l : list N) : N :=
  match l with
  | [] => 0
  | d :: r => d + B * leval B r
  end.

Definition digits_lt (B : N) (l : list N) : Prop := Forall (fun d => d < B) l.

Lemma len_nil {A} : len (@nil A) = 0.
Proof. reflexivity. Qed.
Lemma len_cons {A} (a : A) l : len (a :: l) = len l + 1.
Proof. unfold len. cbn [length]. lia. Qed.
Lemma len_app {A} (a b : list A) : len (a ++ b) = len a + len b.
Proof. unfold len. rewrite app_length. lia. Qed.
Lemma len_rev {A} (a : list A) : len (rev a) = len a.
Proof. unfold len. rewrite rev_length. reflexivity. Qed.
Lemma len_map {A B} (f : A -> B) (a : list A) : len (map f a) = len a.
Proof. unfold len. rewrite map_length. reflexivity. Qed.
Lemma len_repeat {A} (a : A) n : len (repeat a n) = N.of_nat n.
Proof. unfold len. rewrite repeat_length. reflexivity. Qed.

Lemma pow_succ B n : B ^ (n + 1) = B * B ^ n.
Proof. rewrite N.add_1_r, N.pow_succ_r'. reflexivity. Qed.

Lemma leval_app B a b : leval B (a ++ b) = leval B a + B ^ len a * leval B b.
Proof.
  induction a as [|d a IH]; cbn [app leval].
  - change (@len N []) with 0; rewrite N.pow_0_r; lia.
  - rewrite IH, len_cons, pow_succ. lia.
Qed.

Lemma leval_bound B l : digits_lt B l -> leval B l < B ^ len l.
Proof.
  induction 1 as [|d l Hd Hl IH]; cbn [leval].
  - change (@len N []) with 0; rewrite N.pow_0_r; lia.
  - rewrite len_cons, pow_succ.
    assert (B * (leval B l + 1) <= B * B ^ len l) by (apply N.mul_le_mono_l; lia).
    lia.
Qed.

Lemma leval_inj B l1 : forall l2,
  length l1 = length l2 -> digits_lt B l1 -> digits_lt B l2 ->
  leval B l1 = leval B l2 -> l1 = l2.
Proof.
  induction l1 as [|d1 l1 IH]; intros [|d2 l2] Hlen H1 H2 Hv; cbn in Hlen; try discriminate; auto.
  inv H1. inv H2. cbn [leval] in Hv.
  assert (HB : B <> 0) by lia.
  assert (E1 : (d1 + B * leval B l1) mod B = d1).
  { rewrite (N.mul_comm B), N.mod_add by exact HB. apply N.mod_small; auto. }
  assert (E2 : (d2 + B * leval B l2) mod B = d2).
  { rewrite (N.mul_comm B), N.mod_add by exact HB. apply N.mod_small; auto. }
  assert (d1 = d2) by (rewrite <- E1, <- E2, Hv; reflexivity).
  subst d2. f_equal. apply IH; auto.
  assert (B * leval B l1 = B * leval B l2) by lia.
  apply N.mul_cancel_l in H; auto.
Qed.

(** big-endian value: the [fold] form the code uses *)
Lemma beval_acc B l : forall a,
  fold_left (fun a d => a * B + d) l a = a * B ^ len l + beval B l.
Proof.
  unfold beval. induction l as [|d l IH]; intros a; cbn [fold_left].
  - change (@len N []) with 0; rewrite N.pow_0_r; lia.
  - rewrite IH, (IH (0 * B + d)), len_cons, pow_succ. lia.
Qed.

Lemma beval_nil B : beval B [] = 0.
Proof. reflexivity. Qed.

Lemma beval_cons B d l : beval B (d :: l) = d * B ^ len l + beval B l.
Proof. unfold beval at 1. cbn [fold_left]. rewrite beval_acc. lia. Qed.

Lemma beval_app B a b : beval B (a ++ b) = beval B a * B ^ len b + beval B b.
Proof. unfold beval at 1. rewrite fold_left_app. fold (beval B a). apply beval_acc. Qed.

Lemma beval_rev B l : beval B l = leval B (rev l).
Proof.
  induction l as [|d l IH]; [reflexivity|].
  rewrite beval_cons. cbn [rev]. rewrite leval_app, len_rev, IH. cbn [leval]. lia.
Qed.

Lemma leval_rev B l : leval B l = beval B (rev l).
Proof. rewrite beval_rev, rev_involutive. reflexivity. Qed.

Lemma digits_lt_rev B l : digits_lt B l -> digits_lt B (rev l).
Proof. unfold digits_lt. rewrite !Forall_forall. intros H x Hx. apply H. apply in_rev; auto. Qed.

Lemma beval_bound B l : digits_lt B l -> beval B l < B ^ len l.
Proof. intros H. rewrite beval_rev, <- len_rev. apply leval_bound, digits_lt_rev; auto. Qed.

Lemma beval_inj B l1 l2 :
  length l1 = length l2 -> digits_lt B l1 -> digits_lt B l2 ->
  beval B l1 = beval B l2 -> l1 = l2.
Proof.
  intros Hl H1 H2 Hv. rewrite !beval_rev in Hv.
  apply leval_inj in Hv; auto using digits_lt_rev.
  - rewrite <- (rev_involutive l1), Hv, rev_involutive. reflexivity.
  - rewrite !rev_length; auto.
Qed.

Lemma beval_repeat0 B n l : beval B (repeat 0 n ++ l) = beval B l.
Proof.
  induction n as [|n IH]; [reflexivity|].
  cbn [repeat app]. rewrite beval_cons, IH. lia.
Qed.

(** * Constants *)
Lemma W64_pow : W64 = 2 ^ 64. Proof. reflexivity. Qed.
Lemma W64_256 : 256 ^ 8 = W64. Proof. reflexivity. Qed.
Lemma W128_sq : W128 = W64 * W64. Proof. reflexivity. Qed.
Lemma W256_pow : W64 ^ 4 = W256. Proof. reflexivity. Qed.
Lemma W256_256 : 256 ^ 32 = W256. Proof. reflexivity. Qed.
Lemma W64_pos : 0 < W64. Proof. reflexivity. Qed.
Lemma W64_gt1 : 1 < W64. Proof. reflexivity. Qed.
Lemma RADIX_pow : RADIX = 58 ^ 10. Proof. reflexivity. Qed.
Lemma RADIX_lt_W64 : RADIX < W64. Proof. reflexivity. Qed.
Lemma RADIX_pos : 0 < RADIX. Proof. reflexivity. Qed.
Lemma W256_lt_58_44 : W256 < 58 ^ 44. Proof. reflexivity. Qed.
Lemma B58_SIZE_44 : B58_SIZE = 44. Proof. reflexivity. Qed.

(** pinned facts about the generated definitions: a change in the sources breaks these *)
Lemma gen_pins :
  ID_BYTES = 32 /\ ID_STRING_BYTES = ID_BYTES /\ ID_DECODE_TYPE = ID_ENCODE_TYPE
  /\ DECODE_CHUNK = 10 /\ ENCODE_CHUNK = 10 /\ RADIX = 58 ^ ENCODE_CHUNK
  /\ length ALPHABET = 58%nat /\ length B58 = 256%nat /\ nth 0 ALPHABET 0 = FILL
  /\ ID_VISITORS = [("Base58Visitor", ["visit_str"]); ("IdVisitor", ["visit_bytes"; "visit_seq"])]%string
  /\ ID_SERDE_CALLS = ["serialize_str"; "serialize_bytes"; "deserialize_str"; "deserialize_bytes"]%string
  /\ ID_HR_BRANCHES = 2.
Proof. repeat split; reflexivity. Qed.

Lemma radii_pow : forall k, (1 <= k <= 10)%nat -> nth k RADII 0 = 58 ^ N.of_nat k.
Proof.
  intros k Hk.
  do 11 (destruct k as [|k]; [try lia; reflexivity|]). lia.
Qed.

(** The decode table and the alphabet are inverse to each other. *)
Definition valid (c : N) : bool := negb (b58_lookup c =? 255).

Lemma lookup_range c : b58_lookup c = 255 \/ b58_lookup c < 58.
Proof.
  unfold b58_lookup.
  destruct (Nat.lt_ge_cases (N.to_nat c) (length B58)) as [H|H].
  - assert (F : Forall (fun v => v = 255 \/ v < 58) B58).
    { apply Forall_forall. intros v Hv.
      assert (E : forallb (fun v => (v =? 255) || (v <? 58)) B58 = true) by (vm_compute; reflexivity).
      rewrite forallb_forall in E. specialize (E v Hv). lia. }
    rewrite Forall_forall in F. apply F. apply nth_In; auto.
  - rewrite nth_overflow by auto. auto.
Qed.

Lemma valid_lt c : valid c = true -> b58_lookup c < 58.
Proof. unfold valid. destruct (lookup_range c); lia. Qed.

Lemma lookup_alphabet d : d < 58 -> b58_lookup (nth (N.to_nat d) ALPHABET 0) = d.
Proof.
  intros Hd.
  assert (E : forallb (fun d => b58_lookup (nth (N.to_nat d) ALPHABET 0) =? d)
                      (map N.of_nat (seq 0 58)) = true) by (vm_compute; reflexivity).
  rewrite forallb_forall in E.
  specialize (E d). rewrite N.eqb_eq in E. apply E.
  apply in_map_iff. exists (N.to_nat d). split; [lia|]. apply in_seq. lia.
Qed.

Lemma alphabet_lookup c : valid c = true -> nth (N.to_nat (b58_lookup c)) ALPHABET 0 = c.
Proof.
  intros Hv. unfold valid in Hv.
  destruct (N.lt_ge_cases c 256) as [Hc|Hc].
  - assert (E : forallb (fun c => (b58_lookup c =? 255) || (nth (N.to_nat (b58_lookup c)) ALPHABET 0 =? c))
                        (map N.of_nat (seq 0 256)) = true) by (vm_compute; reflexivity).
    rewrite forallb_forall in E.
    assert (Hin : In c (map N.of_nat (seq 0 256))).
    { apply in_map_iff. exists (N.to_nat c). split; [lia|]. apply in_seq. lia. }
    specialize (E c Hin). lia.
  - unfold b58_lookup in Hv. rewrite nth_overflow in Hv by (change (length B58) with 256%nat; lia).
    discriminate.
Qed.

Lemma valid_in_alphabet c : valid c = true <-> In c ALPHABET.
Proof.
  split.
  - intros Hv. rewrite <- (alphabet_lookup c Hv). apply nth_In.
    pose proof (valid_lt c Hv). change (length ALPHABET) with 58%nat. lia.
  - intros Hin. apply (In_nth _ _ 0) in Hin. destruct Hin as [n [Hn E]].
    change (length ALPHABET) with 58%nat in Hn.
    pose proof (lookup_alphabet (N.of_nat n)) as L. rewrite Nat2N.id, E in L.
    unfold valid. rewrite L by lia. lia.
Qed.

Lemma valid_nth d : d < 58 -> valid (nth (N.to_nat d) ALPHABET 0) = true.
Proof. intros H. unfold valid. rewrite lookup_alphabet by auto. lia. Qed.

Lemma lookup_fill : b58_lookup FILL = 0.
Proof. reflexivity. Qed.

(** value of a base58 text *)
Definition dval (s : list N) : N := beval 58 (map b58_lookup s).
Definition all_valid (s : list N) : bool := forallb valid s.

Lemma all_valid_digits s : all_valid s = true -> digits_lt 58 (map b58_lookup s).
Proof.
  unfold all_valid, digits_lt. rewrite forallb_forall, Forall_forall.
  intros H d Hd. apply in_map_iff in Hd. destruct Hd as [c [<- Hc]]. apply valid_lt; auto.
Qed.

Lemma dval_cons c s : dval (c :: s) = b58_lookup c * 58 ^ len s + dval s.
Proof. unfold dval. cbn [map]. rewrite beval_cons, len_map. reflexivity. Qed.

Lemma dval_app a b : dval (a ++ b) = dval a * 58 ^ len b + dval b.
Proof. unfold dval. rewrite map_app, beval_app, len_map. reflexivity. Qed.

Lemma dval_bound s : all_valid s = true -> dval s < 58 ^ len s.
Proof. intros H. unfold dval. rewrite <- (len_map b58_lookup). apply beval_bound, all_valid_digits; auto. Qed.

(** Two texts of the same length over the alphabet with the same value are equal. *)
Lemma dval_inj s1 s2 :
  length s1 = length s2 -> all_valid s1 = true -> all_valid s2 = true ->
  dval s1 = dval s2 -> s1 = s2.
Proof.
  intros Hl H1 H2 Hv. unfold dval in Hv.
  apply beval_inj in Hv; auto using all_valid_digits; [|rewrite !map_length; auto].
  assert (R : forall s, all_valid s = true ->
              map (fun d => nth (N.to_nat d) ALPHABET 0) (map b58_lookup s) = s).
  { induction s as [|c s IH]; cbn; intros H; auto.
    apply andb_prop in H. destruct H as [Hc Hs]. rewrite alphabet_lookup, IH; auto. }
  rewrite <- (R s1 H1), <- (R s2 H2), Hv. reflexivity.
Qed.
