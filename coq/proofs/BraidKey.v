(** The strand key order (priority, id) is a strict total order on commands
    with distinct ids; [min_key] / [min_by] return the unique least element. *)
From Aranya Require Import base.Tactics model.Dag model.Braid proofs.BraidDag.

Definition k1 (k : key) : N := fst (prio_rank (fst k)).
Definition k2 (k : key) : N := snd (prio_rank (fst k)).

Lemma key_ltb_spec a b : key_ltb a b = true <->
  (k1 a < k1 b \/ (k1 a = k1 b /\ (k2 a < k2 b \/ (k2 a = k2 b /\ snd a < snd b))))%N.
Proof.
  unfold key_ltb, prio_ltb, prio_eqb, pair_ltb, k1, k2.
  rewrite !orb_true_iff, !andb_true_iff, !N.ltb_lt, !N.eqb_eq. lia.
Qed.

Lemma key_ltb_false a b : key_ltb a b = false <->
  ~ (k1 a < k1 b \/ (k1 a = k1 b /\ (k2 a < k2 b \/ (k2 a = k2 b /\ snd a < snd b))))%N.
Proof. rewrite <- key_ltb_spec. destruct (key_ltb a b); split; congruence. Qed.

Lemma key_ltb_irrefl a : key_ltb a a = false.
Proof. apply key_ltb_false. lia. Qed.

Lemma key_ltb_trans a b c : key_ltb a b = true -> key_ltb b c = true -> key_ltb a c = true.
Proof. rewrite !key_ltb_spec. lia. Qed.

Lemma key_ltb_asym a b : key_ltb a b = true -> key_ltb b a = false.
Proof. rewrite key_ltb_spec, key_ltb_false. lia. Qed.

Lemma key_ltb_total a b : key_ltb a b = false -> key_ltb b a = false -> snd a = snd b.
Proof. rewrite !key_ltb_false. lia. Qed.

Lemma key_ltb_total' a b : snd a <> snd b -> key_ltb a b = true \/ key_ltb b a = true.
Proof.
  intros H. destruct (key_ltb a b) eqn:E1; auto. destruct (key_ltb b a) eqn:E2; auto.
  exfalso. apply H. apply key_ltb_total; auto.
Qed.

(** not (b < a) is transitive *)
Lemma key_le_trans a b c : key_ltb b a = false -> key_ltb c b = false -> key_ltb c a = false.
Proof. rewrite !key_ltb_false. lia. Qed.

Lemma key_of_snd g x : snd (key_of g x) = x.
Proof.
  unfold key_of. destruct (lookup g x) eqn:E; cbn; auto. apply lookup_In in E. tauto.
Qed.

(** [m] is a least element of [l]. *)
Definition least_key (l : list key) (m : key) : Prop := In m l /\ forall y, In y l -> key_ltb y m = false.

Lemma min_key_least l : forall x, least_key (x :: l) (min_key x l).
Proof.
  induction l as [|y r IH]; intros x; cbn [min_key].
  - split; [cbn; auto|]. intros y [<-|[]]. apply key_ltb_irrefl.
  - destruct (key_ltb y x) eqn:E.
    + destruct (IH y) as [H1 H2]. split.
      * destruct H1 as [<-|H1]; cbn; auto.
      * intros z [<-|[<-|Hz]].
        -- apply key_le_trans with y; [apply H2; cbn; auto|apply key_ltb_asym; auto].
        -- apply H2; cbn; auto.
        -- apply H2; cbn; auto.
    + destruct (IH x) as [H1 H2]. split.
      * destruct H1 as [<-|H1]; cbn; auto.
      * intros z [<-|[<-|Hz]].
        -- apply H2; cbn; auto.
        -- apply key_le_trans with x; [apply H2; cbn; auto|auto].
        -- apply H2; cbn; auto.
Qed.

Lemma min_by_map g l : forall x, key_of g (min_by g x l) = min_key (key_of g x) (map (key_of g) l).
Proof.
  induction l as [|y r IH]; intros x; cbn [min_by min_key map]; auto.
  destruct (key_ltb (key_of g y) (key_of g x)); auto.
Qed.

Lemma min_by_in g l x : In (min_by g x l) (x :: l).
Proof.
  revert x; induction l as [|y r IH]; intros x; cbn [min_by]; [cbn; auto|].
  destruct (key_ltb (key_of g y) (key_of g x)).
  - destruct (IH y) as [H|H]; cbn; auto.
  - destruct (IH x) as [H|H]; cbn; auto.
Qed.

(** Two least elements of lists with the same ids have the same id. *)
Lemma least_unique l1 l2 m1 m2 :
  (forall i, In i (map snd l1) <-> In i (map snd l2)) ->
  (forall k k', In k l1 -> In k' l2 -> snd k = snd k' -> k = k') ->
  least_key l1 m1 -> least_key l2 m2 -> m1 = m2.
Proof.
  intros Hsame Hkey [H1 H1'] [H2 H2'].
  assert (A : exists m1', In m1' l2 /\ snd m1' = snd m1).
  { assert (In (snd m1) (map snd l2)) by (apply Hsame; apply in_map; auto).
    apply in_map_iff in H. destruct H as [k [E Hk]]. eauto. }
  assert (B : exists m2', In m2' l1 /\ snd m2' = snd m2).
  { assert (In (snd m2) (map snd l1)) by (apply Hsame; apply in_map; auto).
    apply in_map_iff in H. destruct H as [k [E Hk]]. eauto. }
  destruct A as [m1' [A1 A2]]. destruct B as [m2' [B1 B2]].
  assert (m1 = m1') by (apply Hkey; auto). subst m1'.
  assert (m2' = m2) by (apply Hkey; auto). subst m2'.
  apply Hkey; auto. apply key_ltb_total; auto.
Qed.

Lemma remove_key_in m l k : NoDup (map snd l) -> In k (remove_key m l) <-> In k l /\ snd k <> snd m.
Proof.
  induction l as [|y r IH]; cbn [remove_key map]; intros Hnd; [cbn; tauto|].
  inv Hnd. destruct (snd y =? snd m)%N eqn:E.
  - apply N.eqb_eq in E. split.
    + intros H. split; [cbn; auto|]. intros E'. apply H1. rewrite E, <- E'. apply in_map; auto.
    + intros [[->|H] Hne]; [congruence|auto].
  - apply N.eqb_neq in E. cbn [In]. rewrite IH by auto. split.
    + intros [->|[H Hne]]; auto.
    + intros [[->|H] Hne]; auto.
Qed.

Lemma remove_key_nodup m l : NoDup (map snd l) -> NoDup (map snd (remove_key m l)).
Proof.
  induction l as [|y r IH]; cbn [remove_key map]; intros Hnd; auto.
  inv Hnd. destruct (snd y =? snd m)%N eqn:E; auto.
  cbn [map]. constructor; auto. intros H. apply in_map_iff in H. destruct H as [k [Ek Hk]].
  apply remove_key_in in Hk; auto. apply H1. rewrite <- Ek. apply in_map. tauto.
Qed.

Lemma remove_key_length m l : In m l -> length (remove_key m l) = pred (length l).
Proof.
  induction l as [|y r IH]; cbn [remove_key]; [tauto|]. intros [->|H].
  - rewrite N.eqb_refl. reflexivity.
  - destruct (snd y =? snd m)%N; auto. cbn [length]. rewrite IH by auto. destruct r; [destruct H|reflexivity].
Qed.
