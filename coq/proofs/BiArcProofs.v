(** Proofs about the two-handle arc model [model/BiArc.v] (C44). *)
From Coq Require Import String.
From Aranya Require Import base.Tactics base.Interleave gen.GenConc model.BiArc.
Open Scope string_scope.
Open Scope list_scope.
Open Scope nat_scope.

Lemma lender_consts_pinned : (state_unshared, state_shared) = (false, true).
Proof. reflexivity. Qed.

Lemma lender_ops_pinned :
  lender_ops =
  [("try_clone", "swap", "AcqRel");          (* site 20 *)
   ("get_if_shared", "load", "Acquire");     (* site 21 *)
   ("drop", "swap", "AcqRel");               (* site 22 *)
   ("drop", "from_raw", "")].                (* site 23 *)
Proof. reflexivity. Qed.

(** Every public method of [Lender] / [Loan] and the internal [BiArc] getter it goes
    through: both Loan accessors use the CONDITIONAL load [get_if_shared] (model
    steps [BGet] / [BGetRef]); only [Lender::shared] reads unconditionally. *)
Definition lender_accessors_stmt : Prop :=
  lender_accessors =
  [("Lender", "pub new", "");
   ("Lender", "pub lend", "try_clone");
   ("Lender", "pub shared", "get_unconditional");
   ("Loan", "pub get_ref", "get_if_shared");
   ("Loan", "pub get_mut", "get_if_shared")].
Lemma lender_accessors_proof : lender_accessors_stmt.
Proof. reflexivity. Qed.

Record BInv (g : bstate) : Prop := {
  k_borrows : borrows (sh g) = n_at BLend g + n_at BShared g;
  k_lown : 1 <= n_at BLend g + n_at BShared g -> b2n (lown (sh g)) = 1;
  k_dl : n_at BDropLender g + b2n (lown (sh g)) = b2n (llive (sh g));
  k_shared : b2n (state (sh g)) = 1 -> b2n (llive (sh g)) = 1 /\ n_loans g = 1;
  k_unshared : b2n (state (sh g)) = 0 -> handles g <= 1;
  k_live : 1 <= handles g -> freed (sh g) = 0 /\ n_at BFree g = 0;
  k_dead : handles g = 0 -> freed (sh g) + n_at BFree g = 1;
  k_uaf : b2n (uaf (sh g)) = 0;
  k_own : forall t l, at_ g t l -> needs_loan (bpc_of l) = true -> 1 <= loans l
}.

Lemma sumf_repeat {A} (f : A -> nat) x n : f x = 0 -> sumf f (repeat x n) = 0.
Proof. intros H. induction n; cbn; auto. rewrite H, IHn. reflexivity. Qed.

Lemma BInv_init n : BInv (binit n).
Proof.
  assert (Z : forall f : blocal -> nat, f (BL BIdle 0 0%N) = 0 -> sumf f (th (binit n)) = 0).
  { intros f Hf. unfold binit. cbn [th]. apply sumf_repeat; auto. }
  pose proof (Z loans eq_refl) as Z0. pose proof (Z (is_pc BLend) eq_refl) as Z1.
  pose proof (Z (is_pc BShared) eq_refl) as Z2. pose proof (Z (is_pc BDropLender) eq_refl) as Z3.
  pose proof (Z (is_pc BFree) eq_refl) as Z4.
  constructor; unfold handles, n_at, n_loans; rewrite ?Z0, ?Z1, ?Z2, ?Z3, ?Z4;
    cbn [binit sh state lown llive borrows freed uaf b2n]; auto; try lia; try discriminate.
  intros t l H. apply nth_error_In in H. apply repeat_spec in H. subst. cbn. discriminate.
Qed.

Theorem bstep_preserves g e g' : BInv g -> bgstep e g = Some g' -> BInv g'.
Proof.
  intros HI Hs. apply gstep_inv in Hs. destruct Hs as (l & l' & Hat & Hst & Hth).
  pose proof (at_after _ _ _ _ _ _ _ _ _ Hat Hth) as Hafter.
  pose proof (k_own _ HI _ _ Hat) as Kown.
  unfold at_ in Hat.
  pose proof (sumf_upd loans _ _ _ l' Hat) as SL.
  pose proof (sumf_upd (is_pc BLend) _ _ _ l' Hat) as S1.
  pose proof (sumf_upd (is_pc BShared) _ _ _ l' Hat) as S2.
  pose proof (sumf_upd (is_pc BDropLender) _ _ _ l' Hat) as S3.
  pose proof (sumf_upd (is_pc BFree) _ _ _ l' Hat) as S4.
  pose proof (sumf_ge loans _ _ _ Hat) as GL.
  pose proof (sumf_ge (is_pc BLend) _ _ _ Hat) as G1.
  pose proof (sumf_ge (is_pc BShared) _ _ _ Hat) as G2.
  pose proof (sumf_ge (is_pc BDropLender) _ _ _ Hat) as G3.
  pose proof (sumf_ge (is_pc BFree) _ _ _ Hat) as G4.
  rewrite <- Hth in *.
  destruct HI as [K1 K2 K3 K4 K5 K6 K7 K8 K9].
  unfold handles, n_at, n_loans in *.
  destruct g as [[st lo ll bo fr ua] ths]; destruct g' as [s' ths']; cbn [sh th state lown llive borrows freed uaf] in *.
  destruct e as [t o]; destruct l as [p n r]; cbn [btid] in *.
  unfold bstep, touch in Hst. cbn [bpc_of loans res state lown llive borrows freed uaf] in *.
  change state_unshared with false in *. change state_shared with true in *.
  destruct p; [destruct o|..]; cbn [is_pc bpc_of loans] in *;
    repeat (destr_if_in Hst; try discriminate); inv Hst;
    repeat match goal with E : (1 <=? _) = true |- _ => apply Nat.leb_le in E end;
    cbn [is_pc bpc_of loans uaf freed] in *;
    try (assert (1 <= n) by (first [apply Kown; reflexivity | lia]));
    repeat match goal with b : bool |- _ => destruct b end; cbn [b2n Bool.eqb andb orb] in *; try discriminate;
    try (assert (fr = 0) by lia; subst fr; cbn [Nat.ltb Nat.leb orb b2n] in * );
    (constructor; unfold handles, n_at, n_loans; cbn [sh th state lown llive borrows freed uaf b2n];
     [ try lia | try (intros; lia) | try lia | try (intros; lia) | try (intros; lia) | try (intros; lia) | try (intros; lia) | try reflexivity; try lia
     | let t0 := fresh "t0" in let x := fresh "x" in let H := fresh "H" in let Hp := fresh "Hp" in
       intros t0 x H Hp; apply Hafter in H; destruct H as [[? ?]|[? H]];
       [ subst; cbn [bpc_of loans] in *; first [lia | discriminate | idtac]
       | eapply K9; eauto ] ]).
Qed.

Theorem BInv_run n sched : BInv (brun sched (binit n)).
Proof.
  unfold brun. apply invariant_run with (Inv := BInv).
  - apply BInv_init.
  - intros g e g' HI Hs. eapply bstep_preserves; eauto.
Qed.

Lemma b2n_cases b : (b = true /\ b2n b = 1) \/ (b = false /\ b2n b = 0).
Proof. destruct b; auto. Qed.

Lemma BInv_handles g : BInv g -> handles g <= 2 /\ n_loans g <= 1.
Proof.
  intros HI. pose proof (k_shared _ HI) as K4. pose proof (k_unshared _ HI) as K5.
  unfold handles in *. destruct (b2n_cases (state (sh g))) as [[_ E]|[_ E]], (b2n_cases (llive (sh g))) as [[_ E2]|[_ E2]];
    rewrite E, E2 in *; lia.
Qed.

(** ---- statements (C44) ---- *)

Definition at_most_two_handles_stmt : Prop :=
  forall (n : nat) (sched : list bevent),
  handles (brun sched (binit n)) <= 2.
Lemma at_most_two_handles_proof : at_most_two_handles_stmt.
Proof. intros n sched. apply BInv_handles. apply BInv_run. Qed.

(** At most one Loan is live at any time, and a [lend] that executes its swap
    while a Loan is live returns [None] and creates no handle. *)
Definition lend_exclusive_stmt : Prop :=
  forall (n : nat) (sched : list bevent),
  let g := brun sched (binit n) in
  n_loans g <= 1
  /\ forall (t : nat) (l : blocal) (o : bop),
     at_ g t l -> bpc_of l = BLend -> n_loans g = 1 ->
     let g' := exec btid bstep g (BEv t o) in
     at_ g' t (BL BIdle (loans l) 2) /\ n_loans g' = 1.
Lemma lend_exclusive_proof : lend_exclusive_stmt.
Proof.
  intros n sched g. pose proof (BInv_run n sched) as HI. fold g in HI.
  split; [apply BInv_handles; auto|].
  intros t l o Hat Hpc HL g'.
  pose proof (sumf_ge (is_pc BLend) _ _ _ Hat) as G1.
  assert (Hone : is_pc BLend l = 1) by (unfold is_pc; rewrite Hpc; reflexivity). rewrite Hone in G1.
  pose proof (k_lown _ HI) as K2. pose proof (k_dl _ HI) as K3. pose proof (k_unshared _ HI) as K5.
  unfold handles, n_at in *.
  assert (Hst : state (sh g) = true).
  { destruct (b2n_cases (state (sh g))) as [[E _]|[_ E]]; auto. rewrite E in *. lia. }
  subst g'. unfold exec, gstep. cbn [btid]. unfold at_ in Hat. rewrite Hat.
  unfold bstep. rewrite Hpc, Hst. change state_unshared with false. cbn [Bool.eqb].
  cbn [th sh]. split.
  - unfold at_. cbn [th]. eapply nth_error_upd_same; eauto.
  - unfold n_loans. cbn [th]. pose proof (sumf_upd loans _ _ _ (BL BIdle (loans l) 2) Hat) as SL.
    cbn [loans] in SL. unfold n_loans in HL. lia.
Qed.

(** Once the Lender's handle has executed its drop swap the flag is UNSHARED
    (and stays so): every [get_ref]/[get_mut] whose load happens afterwards
    returns [None] and gives no access. *)
Definition revoked_after_lender_drop_stmt : Prop :=
  forall (n : nat) (sched : list bevent),
  let g := brun sched (binit n) in
  llive (sh g) = false ->
  state (sh g) = false
  /\ (forall sched', llive (sh (brun sched' g)) = false)
  /\ (forall (t : nat) (l : blocal) (o : bop),
      at_ g t l -> bpc_of l = BGet ->
      at_ (exec btid bstep g (BEv t o)) t (BL BIdle (loans l) 4))
  /\ (forall (t : nat) (l : blocal) (o : bop),
      at_ g t l -> bpc_of l = BGetRef ->
      at_ (exec btid bstep g (BEv t o)) t (BL BIdle (loans l) 9)).
Lemma llive_monotone g e g' : bgstep e g = Some g' -> llive (sh g) = false -> llive (sh g') = false.
Proof.
  intros Hs Hl. apply gstep_inv in Hs. destruct Hs as (l & l' & _ & Hst & _).
  destruct g' as [s' ths']. cbn [sh] in *.
  destruct e as [t o]. unfold bstep in Hst.
  destruct (bpc_of l); [destruct o|..]; repeat (destr_if_in Hst; try discriminate); inv Hst; cbn; auto.
Qed.
Lemma llive_run sched' : forall g : bstate, llive (sh g) = false -> llive (sh (brun sched' g)) = false.
Proof.
  induction sched' as [|e r IH]; intros g Hl; auto.
  unfold brun in *. cbn [run fold_left].
  change (fold_left (exec btid bstep) r (exec btid bstep g e)) with (run btid bstep r (exec btid bstep g e)).
  apply IH. unfold exec. destruct (gstep btid bstep e g) as [g1|] eqn:E; auto.
  eapply llive_monotone; eauto.
Qed.
Lemma revoked_after_lender_drop_proof : revoked_after_lender_drop_stmt.
Proof.
  intros n sched g Hl. pose proof (BInv_run n sched) as HI. fold g in HI.
  assert (Hst : state (sh g) = false).
  { pose proof (k_shared _ HI) as K4. destruct (b2n_cases (state (sh g))) as [[_ E]|[E _]]; auto.
    rewrite Hl in K4. cbn in K4. lia. }
  split; auto. split.
  - intros sched'. apply llive_run; auto.
  - split; intros t l o Hat Hpc; unfold exec, gstep; cbn [btid]; unfold at_ in Hat; rewrite Hat;
      unfold bstep; rewrite Hpc, Hst; change state_shared with true; cbn [Bool.eqb];
      unfold at_; cbn [th]; eapply nth_error_upd_same; eauto.
Qed.

(** The allocation is freed at most once, never while any handle is live (in
    particular never while an access through a handle is in progress), no
    operation ever touches it after the free, and once both handles are gone
    and every thread is idle it has been freed exactly once. *)
Definition busy (p : bpc) : Prop := p <> BIdle /\ p <> BFree.
Definition quiescent (g : bstate) : Prop :=
  handles g = 0 /\ forall t l, at_ g t l -> bpc_of l = BIdle.
Definition freed_exactly_once_stmt : Prop :=
  forall (n : nat) (sched : list bevent),
  let g := brun sched (binit n) in
  freed (sh g) <= 1
  /\ uaf (sh g) = false
  /\ (1 <= handles g -> freed (sh g) = 0)
  /\ (forall t l, at_ g t l -> busy (bpc_of l) -> freed (sh g) = 0)
  /\ (quiescent g -> freed (sh g) = 1).
Lemma freed_exactly_once_proof : freed_exactly_once_stmt.
Proof.
  intros n sched g. pose proof (BInv_run n sched) as HI. fold g in HI.
  pose proof (k_live _ HI) as K6. pose proof (k_dead _ HI) as K7.
  repeat split.
  - destruct (Nat.eq_dec (handles g) 0) as [E|E]; [specialize (K7 E)|destruct K6]; lia.
  - pose proof (k_uaf _ HI) as K8. destruct (uaf (sh g)); auto. discriminate.
  - intros H. apply K6; auto.
  - intros t l Hat [Hb1 Hb2]. apply K6.
    pose proof (k_own _ HI _ _ Hat) as Kown.
    pose proof (sumf_ge loans _ _ _ Hat) as GL.
    pose proof (sumf_ge (is_pc BLend) _ _ _ Hat) as G1.
    pose proof (sumf_ge (is_pc BShared) _ _ _ Hat) as G2.
    pose proof (sumf_ge (is_pc BDropLender) _ _ _ Hat) as G3.
    pose proof (k_lown _ HI) as K2. pose proof (k_dl _ HI) as K3.
    unfold handles, n_at, n_loans in *.
    assert (Hpcs : forall p, bpc_of l = p -> is_pc p l = 1) by (intros p <-; unfold is_pc; destruct (bpc_of l); reflexivity).
    destruct (bpc_of l) eqn:Hpc; try congruence;
      try (rewrite (Hpcs _ eq_refl) in G1); try (rewrite (Hpcs _ eq_refl) in G2); try (rewrite (Hpcs _ eq_refl) in G3);
      try (assert (1 <= loans l) by (apply Kown; reflexivity));
      destruct (b2n_cases (lown (sh g))) as [[_ E1]|[_ E1]], (b2n_cases (llive (sh g))) as [[_ E2]|[_ E2]];
      rewrite ?E1, ?E2 in *; lia.
  - intros [H0 Hq]. specialize (K7 H0).
    assert (n_at BFree g = 0).
    { unfold n_at. apply sumf_all_zero. intros x Hx. apply In_nth_error in Hx. destruct Hx as [i Hi].
      unfold is_pc. rewrite (Hq i x Hi). reflexivity. }
    lia.
Qed.

(** ---- non-vacuity ---- *)
Definition bdemo : list bevent :=
  [BEv 0 OLend; BEv 0 OLend;            (* thread 0 lends itself a Loan *)
   BEv 1 OLend; BEv 1 OLend;            (* thread 1's lend returns None *)
   BEv 0 OGet; BEv 0 OGet;              (* thread 0: load sees SHARED, access in progress *)
   BEv 1 ODropLender; BEv 1 ODropLender; (* the Lender is dropped meanwhile: not freed *)
   BEv 0 OGet;                           (* the access finishes *)
   BEv 0 OGet; BEv 0 OGet;              (* a later get is refused *)
   BEv 0 ODropLoan; BEv 0 ODropLoan; BEv 0 ODropLoan].  (* last handle: swap, then free *)
Example bdemo_trace :
  map (fun k => let g := brun (firstn k bdemo) (binit 2) in
                (handles g, freed (sh g), map res (th g)))
      [2; 4; 6; 8; 11; 14]
  = [(2, 0, [1; 0]%N); (2, 0, [1; 2]%N); (2, 0, [3; 2]%N); (1, 0, [3; 6]%N); (1, 0, [4; 6]%N); (0, 1, [5; 6]%N)].
Proof. vm_compute. reflexivity. Qed.
Example bdemo_quiescent : quiescent (brun bdemo (binit 2)).
Proof.
  split; [vm_compute; reflexivity|].
  intros t l H. unfold at_ in H. vm_compute in H.
  destruct t as [|[|t]]; cbn in H; try (inv H; reflexivity). destruct t; discriminate.
Qed.
