(** Step-level characterisations for [model/Shm.v]: what the writer's two
    locked sections do to a list, and the possible outcomes of a reader step. *)
From Coq Require Import String.
From Aranya Require Import gen.GenShm base.Tactics base.Sched model.Shm proofs.ShmLists.
From Coq Require Import Permutation.

(** ** The writer's sections *)

Definition post (op : wop) (id : N) (s' : side) : Prop :=
  match op with
  | WAdd d k l p => exists pre, chans s' = pre ++ [mkchan id d k l p]
  | WRemove rid => ~ In rid (ids (chans s'))
  | WRemoveIf p => forall c, In c (chans s') -> papply p c = false
  | WRemoveAll => chans s' = []
  | WExists _ => True
  end.

(** which channels a removal leaves alone *)
Definition spared (op : wop) (c : chan) : Prop :=
  match op with
  | WRemove rid => cid c <> rid
  | WRemoveIf p => papply p c = false
  | WRemoveAll => False
  | _ => True
  end.

Lemma filter_keeps_length p l : length (filter (keeps p) l) <= length l.
Proof. induction l as [|x l IH]; cbn; auto. destruct (keeps p x); cbn; lia. Qed.

Lemma sec1_go op id s s' idx :
  sec1 op id s = S1Go s' idx ->
  cap s' = cap s
  /\ sec2 op id idx s = S2Ok s'
  /\ ((gen s' = gen s /\ chans s' = chans s) \/ gen s' = (gen s + 1)%N)
  /\ (forall c, In c (chans s') -> In c (chans s) \/ In c (new_chans op id))
  /\ (NoDup (ids (chans s)) ->
      (forall c, In c (new_chans op id) -> ~ In (cid c) (ids (chans s))) ->
      NoDup (ids (chans s')) /\ post op id s')
  /\ ((N.of_nat (length (chans s)) <= cap s)%N -> (N.of_nat (length (chans s')) <= cap s)%N)
  /\ (forall c, In c (chans s) -> spared op c -> In c (chans s'))
  /\ (forall c, In c (new_chans op id) -> In c (chans s')).
Proof.
  destruct op as [d k l p|rid|p|  |eid]; cbn [sec1 sec2 new_chans post spared].
  - (* add *)
    destruct (cap s <=? N.of_nat (length (chans s)))%N eqn:E; [discriminate|].
    intros H; inv H. cbn [cap gen chans bump]. rewrite E, Nat.eqb_refl.
    split; [reflexivity|]. split; [reflexivity|]. split; [right; reflexivity|].
    split; [|split; [|split; [|split]]].
    + intros c Hc. apply in_app_or in Hc. tauto.
    + intros Hnd Hnew. split; [|eexists; reflexivity].
      unfold ids. rewrite map_app. cbn. apply NoDup_app_snoc. split; auto.
      apply (Hnew (mkchan id d k l p)). left; reflexivity.
    + intros _. rewrite app_length. cbn. lia.
    + intros c Hc _. apply in_or_app. auto.
    + intros c Hc. apply in_or_app. right. exact Hc.
  - (* remove *)
    destruct (length (chans s) =? 0) eqn:E0; [discriminate|].
    destruct (find_lin (chans s) rid OAny 0) as [[c0 i0]|] eqn:Ef; [|discriminate].
    destruct (swap_remove (chans s) i0) as [l'|] eqn:Es; [|discriminate].
    intros H; inv H. cbn [cap gen chans bump]. rewrite Es.
    split; [reflexivity|]. split; [reflexivity|]. split; [right; reflexivity|].
    pose proof (swap_remove_some _ _ _ Es) as (x & Hx & Hperm & _).
    pose proof (find_lin_idx _ _ _ _ _ _ Ef) as [_ Hn]. rewrite Nat.sub_0_r in Hn.
    rewrite Hn in Hx. inv Hx.
    pose proof (find_lin_some _ _ _ _ _ _ Ef) as [_ Hok]. rewrite chan_ok_any in Hok.
    apply N.eqb_eq in Hok.
    split; [|split; [|split; [|split]]].
    + intros c Hc. left. eapply Permutation_in; [apply Permutation_sym; exact Hperm|]. right; auto.
    + intros Hnd _. destruct (nodup_perm_cons _ _ _ Hperm Hnd) as [H1 H2]. split; auto.
      rewrite <- Hok. exact H2.
    + intros Hl. apply Permutation_length in Hperm. cbn in Hperm. lia.
    + intros c Hc Hne. eapply Permutation_in in Hc; [|exact Hperm].
      destruct Hc as [<-|Hc]; auto. congruence.
    + intros c [].
  - (* remove_if *)
    destruct (length (chans s) =? 0) eqn:E0; [discriminate|].
    destruct (list_remove_if_spec p (chans s)) as (l' & u & Hr & Hperm & Hu).
    rewrite Hr. intros H; inv H. cbn [cap gen chans].
    split; [reflexivity|]. split; [reflexivity|].
    split; [destruct u; [right; reflexivity|left; split; auto]|].
    split; [|split; [|split; [|split]]].
    + intros c Hc. left. eapply Permutation_in in Hc; [|exact Hperm].
      apply filter_In in Hc. tauto.
    + intros Hnd _. split.
      * eapply Permutation_NoDup; [apply Permutation_sym, perm_ids; exact Hperm|].
        apply filter_ids_nodup; auto.
      * intros c Hc. eapply Permutation_in in Hc; [|exact Hperm].
        apply filter_In in Hc as [_ Hc]. unfold keeps in Hc. destruct (papply p c); auto; discriminate.
    + intros Hl. apply Permutation_length in Hperm. pose proof (filter_keeps_length p (chans s)). lia.
    + intros c Hc Hk. eapply Permutation_in; [apply Permutation_sym; exact Hperm|].
      apply filter_In. split; auto. unfold keeps. rewrite Hk. reflexivity.
    + intros c [].
  - (* remove_all *)
    intros H; inv H. cbn [cap gen chans bump].
    split; [reflexivity|]. split; [reflexivity|]. split; [right; reflexivity|].
    split; [|split; [|split; [|split]]]; cbn; auto; try tauto.
    + intros _ _. split; [constructor|reflexivity].
    + intros _. lia.
  - discriminate.
Qed.

(** early returns of the first section *)
Lemma sec1_fin op id s r :
  sec1 op id s = S1Fin r ->
  match op with
  | WAdd _ _ _ _ => r = WOutOfSpace /\ (cap s <= N.of_nat (length (chans s)))%N
  | WRemove rid => r = WOkUnit /\ ~ In rid (ids (chans s))
  | WRemoveIf _ => r = WOkUnit /\ chans s = []
  | WRemoveAll => False
  | WExists eid => r = WOkBool (if in_dec N.eq_dec eid (ids (chans s)) then true else false)
  end.
Proof.
  destruct op as [d k l p|rid|p|  |eid]; cbn [sec1].
  - destruct (cap s <=? N.of_nat (length (chans s)))%N eqn:E; [|discriminate].
    intros H; inv H. split; auto. lia.
  - destruct (length (chans s) =? 0) eqn:E0.
    + intros H; inv H. split; auto. apply Nat.eqb_eq in E0.
      destruct (chans s); cbn in *; auto; discriminate.
    + destruct (find_lin (chans s) rid OAny 0) as [[c0 i0]|] eqn:Ef.
      * pose proof (find_lin_idx _ _ _ _ _ _ Ef) as [_ Hn]. rewrite Nat.sub_0_r in Hn.
        assert (Hlt : i0 < length (chans s)) by (apply nth_error_Some; congruence).
        destruct (swap_remove_total _ _ Hlt) as [l' Hs]. rewrite Hs. discriminate.
      * intros H; inv H. split; auto. rewrite find_lin_none in Ef.
        unfold ids. rewrite in_map_iff. intros (c & Hc & Hin).
        apply Ef in Hin. rewrite chan_ok_any in Hin. apply N.eqb_neq in Hin. congruence.
  - destruct (length (chans s) =? 0) eqn:E0.
    + intros H; inv H. split; auto. apply Nat.eqb_eq in E0. destruct (chans s); cbn in *; auto; discriminate.
    + destruct (list_remove_if_spec p (chans s)) as (l' & u & Hr & _). rewrite Hr. discriminate.
  - discriminate.
  - intros H; inv H. f_equal.
    change (find (chans s) eid None OAny) with (find_lin (chans s) eid OAny 0).
    destruct (find_lin (chans s) eid OAny 0) as [[c j]|] eqn:Ef.
    + apply find_lin_some in Ef as [Hin Hok]. rewrite chan_ok_any in Hok. apply N.eqb_eq in Hok.
      destruct (in_dec N.eq_dec eid (ids (chans s))) as [Hy|Hn]; [reflexivity|].
      exfalso. apply Hn. rewrite <- Hok. apply in_map; auto.
    + rewrite find_lin_none in Ef.
      destruct (in_dec N.eq_dec eid (ids (chans s))) as [Hi|Hn]; [|reflexivity].
      unfold ids in Hi. rewrite in_map_iff in Hi. destruct Hi as (c & Hc & Hin).
      apply Ef in Hin. rewrite chan_ok_any in Hin. apply N.eqb_neq in Hin. congruence.
Qed.

(** the second section on a copy of the same pre-state: same generation => same list *)
Lemma sec2_gen_eq op id idx s s' :
  sec2 op id idx s = S2Ok s' -> gen s' = gen s -> chans s' = chans s.
Proof.
  destruct op as [d k l p|rid|p|  |eid]; cbn [sec2].
  - destruct (cap s <=? N.of_nat idx)%N; [discriminate|].
    destruct (idx =? length (chans s)); [|discriminate].
    intros H; inv H. cbn. lia.
  - destruct (swap_remove (chans s) idx); [|discriminate]. intros H; inv H. cbn. lia.
  - destruct (length (chans s) =? 0); [discriminate|].
    destruct (list_remove_if_spec p (chans s)) as (l' & u & Hr & _ & Hu). rewrite Hr.
    intros H; inv H. cbn. destruct u; [lia|]. intros _. auto.
  - intros H; inv H. cbn. lia.
  - discriminate.
Qed.

Lemma sec2_gen_mono op id idx s s' :
  sec2 op id idx s = S2Ok s' -> (gen s <= gen s')%N.
Proof.
  destruct op as [d k l p|rid|p|  |eid]; cbn [sec2].
  - destruct (cap s <=? N.of_nat idx)%N; [discriminate|].
    destruct (idx =? length (chans s)); [|discriminate]. intros H; inv H. cbn. lia.
  - destruct (swap_remove (chans s) idx); [|discriminate]. intros H; inv H. cbn. lia.
  - destruct (length (chans s) =? 0); [discriminate|].
    destruct (list_remove_if p (chans s)) as [[l' u]|]; [|discriminate].
    intros H; inv H. cbn. destruct u; lia.
  - intros H; inv H. cbn. lia.
  - discriminate.
Qed.

(** ** Reader steps *)

Lemma cache_of_some cs c d oc :
  cache_of cs c d = Some oc -> exists x, nth_error cs c = Some x /\ xdir x = d /\ xcache x = oc.
Proof.
  unfold cache_of. destruct (nth_error cs c) as [x|]; [|discriminate].
  destruct (dir_eqb (xdir x) d) eqn:E; [|discriminate].
  intros H; inv H. exists x. repeat split; auto. destruct (xdir x), d; cbn in E; congruence.
Qed.

(** Outcomes of a reader step that returns from a call: [rfin smax m r op res cs']
    = "in shared state [m], reader [r]'s call [op] returns [res] and leaves the
    context table [cs']". *)
Inductive rfin (smax : N) (m : shm) (r : rthread) : rop -> rres -> list ctx -> Prop :=
| F_seal_expired c md :
    rpc_ r = R0 -> cache_of (rctxs r) c DSeal = Some None ->
    rfin smax m r (RSeal c md) RKeyExpired (rctxs r)
| F_seal_hit c md k :
    rpc_ r = R2 -> cache_of (rctxs r) c DSeal = Some (Some k) ->
    load_gen (side_of m (r_off r)) = kgen k ->
    rfin smax m r (RSeal c md)
      (RSealed c (fst (sealf smax md (kseq k))) (kkey k) (klabel k))
      (set_ctx (rctxs r) c {| xdir := DSeal; xid := kid k; xcache := Some (with_seq k (snd (sealf smax md (kseq k)))) |})
| F_seal_gone c md k :
    rpc_ r = R3 -> cache_of (rctxs r) c DSeal = Some (Some k) ->
    find (chans (side_of m (r_off r))) (kid k) (Some (kidx k)) OSeal = None ->
    rfin smax m r (RSeal c md) RNotFound
      (set_ctx (rctxs r) c {| xdir := DSeal; xid := kid k; xcache := None |})
| F_seal_miss c md k ch idx :
    rpc_ r = R3 -> cache_of (rctxs r) c DSeal = Some (Some k) ->
    find (chans (side_of m (r_off r))) (kid k) (Some (kidx k)) OSeal = Some (ch, idx) ->
    rfin smax m r (RSeal c md)
      (RSealed c (fst (sealf smax md (kseq k))) (ckey ch) (clabel ch))
      (match fst (sealf smax md (kseq k)) with
       | FOk _ =>
           set_ctx (rctxs r) c
             {| xdir := DSeal; xid := kid k;
                xcache := Some {| kid := kid k; klabel := klabel k; kkey := ckey ch;
                                  kseq := snd (sealf smax md (kseq k));
                                  kgen := load_gen (side_of m (r_off r)); kidx := idx |} |}
       | _ => rctxs r
       end)
| F_open_expired c key label valid :
    rpc_ r = R0 -> cache_of (rctxs r) c DOpen = Some None ->
    rfin smax m r (ROpen c key label valid) RKeyExpired (rctxs r)
| F_open_hit c key label valid k :
    rpc_ r = R2 -> cache_of (rctxs r) c DOpen = Some (Some k) ->
    load_gen (side_of m (r_off r)) = kgen k ->
    rfin smax m r (ROpen c key label valid)
      (ROpened c (open_ok (kkey k) (klabel k) key label valid) (klabel k)) (rctxs r)
| F_open_gone c key label valid k :
    rpc_ r = R3 -> cache_of (rctxs r) c DOpen = Some (Some k) ->
    find (chans (side_of m (r_off r))) (kid k) (Some (kidx k)) OOpen = None ->
    rfin smax m r (ROpen c key label valid) RNotFound (rctxs r)
| F_open_miss c key label valid k ch idx :
    rpc_ r = R3 -> cache_of (rctxs r) c DOpen = Some (Some k) ->
    find (chans (side_of m (r_off r))) (kid k) (Some (kidx k)) OOpen = Some (ch, idx) ->
    rfin smax m r (ROpen c key label valid)
      (ROpened c (open_ok (ckey ch) (clabel ch) key label valid) (clabel ch))
      (if open_ok (ckey ch) (clabel ch) key label valid then
         set_ctx (rctxs r) c
           {| xdir := DOpen; xid := kid k;
              xcache := Some {| kid := kid k; klabel := klabel k; kkey := ckey ch; kseq := kseq k;
                                kgen := load_gen (side_of m (r_off r)); kidx := idx |} |}
       else rctxs r)
| F_setup_gone d id :
    rpc_ r = R3 ->
    find (chans (side_of m (r_off r))) id None (op_of_dir d) = None ->
    rfin smax m r (RSetup d id) RNotFound (rctxs r)
| F_setup d id ch idx :
    rpc_ r = R3 ->
    find (chans (side_of m (r_off r))) id None (op_of_dir d) = Some (ch, idx) ->
    rfin smax m r (RSetup d id) (RCtx (length (rctxs r)))
      (rctxs r ++ [{| xdir := d; xid := id;
                      xcache := Some {| kid := id; klabel := clabel ch; kkey := ckey ch; kseq := 0;
                                        kgen := load_gen (side_of m (r_off r)); kidx := idx |} |}])
| F_exists id :
    rpc_ r = R3 ->
    rfin smax m r (RExists id)
      (RBool (match find (chans (side_of m (r_off r))) id None OAny with Some _ => true | None => false end))
      (rctxs r)
| F_invalid op :
    (* a malformed program: no usable context of the right kind, or a call that cannot be at this pc *)
    match op with
    | RSeal c _ => forall k, cache_of (rctxs r) c DSeal <> Some (Some k)
    | ROpen c _ _ _ => forall k, cache_of (rctxs r) c DOpen <> Some (Some k)
    | _ => rpc_ r = R2
    end ->
    rfin smax m r op RInvalid (rctxs r).

(** A reader step either stays inside the call (log, contexts and program
    unchanged) or returns with one of the outcomes above. *)
Lemma rstep1_spec smax m r :
  let r' := rstep1 smax m r in
  (rlog r' = rlog r /\ rctxs r' = rctxs r /\ rprog r' = rprog r)
  \/ (exists op res cs, rprog r = op :: rprog r' /\ rfin smax m r op res cs /\ r' = r_finish r op res cs).
Proof.
  cbv zeta. unfold rstep1.
  destruct (rprog r) as [|op rest] eqn:Ep; [left; auto|].
  assert (Htl : rest = tl (rprog r)) by (rewrite ?Ep; reflexivity).
  destruct (rpc_ r) eqn:Epc.
  - (* R0 *)
    destruct op as [d id|c md|c key label valid|id]; try (left; cbn; rewrite ?Ep; auto; fail).
    + destruct (cache_of (rctxs r) c DSeal) as [[k|]|] eqn:Ec.
      * left; cbn; rewrite ?Ep; auto.
      * right. do 3 eexists. split; [|split; [apply F_seal_expired; eauto|reflexivity]]. cbn. rewrite ?Ep. reflexivity.
      * right. do 3 eexists. split; [cbn; rewrite ?Ep; reflexivity|]. split; [apply F_invalid; cbn; rewrite ?Ec; auto; try (intros; discriminate)|reflexivity].
    + destruct (cache_of (rctxs r) c DOpen) as [[k|]|] eqn:Ec.
      * left; cbn; rewrite ?Ep; auto.
      * right. do 3 eexists. split; [|split; [apply F_open_expired; eauto|reflexivity]]. cbn. rewrite ?Ep. reflexivity.
      * right. do 3 eexists. split; [cbn; rewrite ?Ep; reflexivity|]. split; [apply F_invalid; cbn; rewrite ?Ec; auto; try (intros; discriminate)|reflexivity].
  - (* R1 *) left. cbn. rewrite ?Ep. auto.
  - (* R2 *)
    destruct op as [d id|c md|c key label valid|id].
    + right. do 3 eexists. split; [cbn; rewrite ?Ep; reflexivity|]. split; [apply F_invalid; cbn; rewrite ?Ec; auto; try (intros; discriminate)|reflexivity].
    + destruct (cache_of (rctxs r) c DSeal) as [[k|]|] eqn:Ec.
      * destruct (load_gen (side_of m (r_off r)) =? kgen k)%N eqn:Eg.
        -- apply N.eqb_eq in Eg. destruct (sealf smax md (kseq k)) as [fr sq] eqn:Es.
           right. do 3 eexists. split; [|split; [eapply F_seal_hit; eauto|]].
           ++ cbn. rewrite ?Ep. reflexivity.
           ++ rewrite Es. reflexivity.
        -- left; cbn; rewrite ?Ep; auto.
      * right. do 3 eexists. split; [cbn; rewrite ?Ep; reflexivity|]. split; [apply F_invalid; cbn; rewrite ?Ec; auto; try (intros; discriminate)|reflexivity].
      * right. do 3 eexists. split; [cbn; rewrite ?Ep; reflexivity|]. split; [apply F_invalid; cbn; rewrite ?Ec; auto; try (intros; discriminate)|reflexivity].
    + destruct (cache_of (rctxs r) c DOpen) as [[k|]|] eqn:Ec.
      * destruct (load_gen (side_of m (r_off r)) =? kgen k)%N eqn:Eg.
        -- apply N.eqb_eq in Eg.
           right. do 3 eexists. split; [|split; [eapply F_open_hit; eauto|reflexivity]].
           cbn. rewrite ?Ep. reflexivity.
        -- left; cbn; rewrite ?Ep; auto.
      * right. do 3 eexists. split; [cbn; rewrite ?Ep; reflexivity|]. split; [apply F_invalid; cbn; rewrite ?Ec; auto; try (intros; discriminate)|reflexivity].
      * right. do 3 eexists. split; [cbn; rewrite ?Ep; reflexivity|]. split; [apply F_invalid; cbn; rewrite ?Ec; auto; try (intros; discriminate)|reflexivity].
    + right. do 3 eexists. split; [cbn; rewrite ?Ep; reflexivity|]. split; [apply F_invalid; cbn; rewrite ?Ec; auto; try (intros; discriminate)|reflexivity].
  - (* R3 *)
    destruct op as [d id|c md|c key label valid|id].
    + destruct (find (chans (side_of m (r_off r))) id None (op_of_dir d)) as [[ch idx]|] eqn:Ef.
      * right. do 3 eexists. split; [|split; [eapply F_setup; eauto|reflexivity]]. cbn. rewrite ?Ep. reflexivity.
      * right. do 3 eexists. split; [|split; [eapply F_setup_gone; eauto|reflexivity]]. cbn. rewrite ?Ep. reflexivity.
    + destruct (cache_of (rctxs r) c DSeal) as [[k|]|] eqn:Ec.
      * destruct (find (chans (side_of m (r_off r))) (kid k) (Some (kidx k)) OSeal) as [[ch idx]|] eqn:Ef.
        -- destruct (sealf smax md (kseq k)) as [fr sq] eqn:Es.
           right. do 3 eexists. split; [|split; [eapply F_seal_miss; eauto|]].
           ++ cbn. rewrite ?Ep. reflexivity.
           ++ rewrite Es. reflexivity.
        -- right. do 3 eexists. split; [|split; [eapply F_seal_gone; eauto|reflexivity]]. cbn. rewrite ?Ep. reflexivity.
      * right. do 3 eexists. split; [cbn; rewrite ?Ep; reflexivity|]. split; [apply F_invalid; cbn; rewrite ?Ec; auto; try (intros; discriminate)|reflexivity].
      * right. do 3 eexists. split; [cbn; rewrite ?Ep; reflexivity|]. split; [apply F_invalid; cbn; rewrite ?Ec; auto; try (intros; discriminate)|reflexivity].
    + destruct (cache_of (rctxs r) c DOpen) as [[k|]|] eqn:Ec.
      * destruct (find (chans (side_of m (r_off r))) (kid k) (Some (kidx k)) OOpen) as [[ch idx]|] eqn:Ef.
        -- right. do 3 eexists. split; [|split; [eapply F_open_miss; eauto|reflexivity]]. cbn. rewrite ?Ep. reflexivity.
        -- right. do 3 eexists. split; [|split; [eapply F_open_gone; eauto|reflexivity]]. cbn. rewrite ?Ep. reflexivity.
      * right. do 3 eexists. split; [cbn; rewrite ?Ep; reflexivity|]. split; [apply F_invalid; cbn; rewrite ?Ec; auto; try (intros; discriminate)|reflexivity].
      * right. do 3 eexists. split; [cbn; rewrite ?Ep; reflexivity|]. split; [apply F_invalid; cbn; rewrite ?Ec; auto; try (intros; discriminate)|reflexivity].
    + right. do 3 eexists. split; [|split; [eapply F_exists; eauto|reflexivity]]. cbn. rewrite ?Ep. reflexivity.
Qed.

(** list helpers for the thread table *)
Lemma upd_nth_length {A} (l : list A) : forall i f, length (upd_nth l i f) = length l.
Proof. induction l as [|x l IH]; intros [|i] f; cbn; auto. Qed.

Lemma upd_nth_same {A} (l : list A) : forall i f x, nth_error l i = Some x -> nth_error (upd_nth l i f) i = Some (f x).
Proof. induction l as [|y l IH]; intros [|i] f x H; cbn in *; try discriminate; auto. inv H; auto. Qed.

Lemma upd_nth_other {A} (l : list A) : forall i j f, i <> j -> nth_error (upd_nth l i f) j = nth_error l j.
Proof. induction l as [|y l IH]; intros [|i] [|j] f H; cbn in *; auto; try congruence. Qed.

Lemma upd_nth_none {A} (l : list A) : forall i f, nth_error l i = None -> upd_nth l i f = l.
Proof. induction l as [|y l IH]; intros [|i] f H; cbn in *; auto; try discriminate. rewrite IH; auto. Qed.

Lemma Forall_upd_nth {A} (P : A -> Prop) (l : list A) : forall i f,
  Forall P l -> (forall x, nth_error l i = Some x -> P x -> P (f x)) -> Forall P (upd_nth l i f).
Proof.
  induction l as [|y l IH]; intros [|i] f H Hf; cbn; auto.
  - inv H. constructor; auto.
  - inv H. constructor; auto.
Qed.

Lemma set_ctx_nth l : forall i x j,
  nth_error (set_ctx l i x) j = if (i =? j) && (i <? length l) then Some x else nth_error l j.
Proof.
  induction l as [|y l IH]; intros i x j.
  - destruct i, j; cbn; auto. rewrite andb_false_r. reflexivity.
  - destruct i as [|i], j as [|j]; cbn; auto.
    rewrite IH. cbn. replace (S i <? S (length l)) with (i <? length l); auto.
Qed.

Lemma set_ctx_length l : forall i x, length (set_ctx l i x) = length l.
Proof. induction l as [|y l IH]; intros [|i] x; cbn; auto. Qed.
