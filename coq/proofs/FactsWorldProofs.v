(** C12: the storage model refines flat maps, for every sequence of storage
    operations.  The specification world [sworld] keeps, for every handle, only a
    flat map (a function from (name, keys) to an optional value) and the log of
    inserts/deletes per command; [sstep] is the obvious meaning of each operation.
    [wrel] is the simulation relation, preserved by every step. *)
From Aranya Require Import base.Tactics base.ListLex base.SortedAssoc model.Facts model.FactsWorld
     proofs.FactsMaps proofs.FactsIndex proofs.FactsWrite proofs.FactsPersp.

(** ** The specification world *)

Record spersp := {
  sp_base : flat;                      (* facts when the perspective was opened *)
  sp_hist : list (list update);        (* updates of the commands added so far *)
  sp_cur : list update;                (* writes not yet attached to a command *)
  sp_fresh : bool;                     (* made by [new_perspective] *)
}.
Definition sp_now (sp : spersp) : flat := fupds (sp_base sp) (concat (sp_hist sp) ++ sp_cur sp).

Record sseg := { ss_base : flat; ss_hist : list (list update) }.
(** The facts as of command [i] of a segment. *)
Definition sseg_at (ss : sseg) (i : nat) : flat := fupds (ss_base ss) (concat (firstn (S i) (ss_hist ss))).
Definition sseg_head (ss : sseg) : flat := fupds (ss_base ss) (concat (ss_hist ss)).

Record sworld := {
  sw_persps : list (option spersp);
  sw_fps : list (option flat);
  sw_segs : list sseg;
  sw_idxs : list flat;
}.
Definition sworld0 : sworld := {| sw_persps := []; sw_fps := []; sw_segs := []; sw_idxs := [] |}.

Definition sset_persp sw h x := {| sw_persps := set_nth (sw_persps sw) h x; sw_fps := sw_fps sw;
                                   sw_segs := sw_segs sw; sw_idxs := sw_idxs sw |}.
Definition spush_persp sw x := {| sw_persps := sw_persps sw ++ [Some x]; sw_fps := sw_fps sw;
                                  sw_segs := sw_segs sw; sw_idxs := sw_idxs sw |}.
Definition sset_fp sw f x := {| sw_persps := sw_persps sw; sw_fps := set_nth (sw_fps sw) f x;
                                sw_segs := sw_segs sw; sw_idxs := sw_idxs sw |}.
Definition spush_fp sw x := {| sw_persps := sw_persps sw; sw_fps := sw_fps sw ++ [Some x];
                               sw_segs := sw_segs sw; sw_idxs := sw_idxs sw |}.

Definition sp_write (sp : spersp) (u : update) : spersp :=
  {| sp_base := sp_base sp; sp_hist := sp_hist sp; sp_cur := sp_cur sp ++ [u]; sp_fresh := sp_fresh sp |}.

Definition sfinish_seg (sw : sworld) h (sp : spersp) : sworld :=
  let sw1 := sset_persp sw h None in
  if is_empty (sp_hist sp) then sw1
  else {| sw_persps := sw_persps sw1; sw_fps := sw_fps sw1;
          sw_segs := sw_segs sw ++ [{| ss_base := sp_base sp; ss_hist := sp_hist sp |}];
          sw_idxs := sw_idxs sw1 |}.

Definition sstep (sw : sworld) (o : op) : sworld :=
  match o with
  | ONew => spush_persp sw {| sp_base := fempty; sp_hist := []; sp_cur := []; sp_fresh := true |}
  | OInsert h n k v =>
    match get_h (sw_persps sw) h with Some sp => sset_persp sw h (Some (sp_write sp (n, k, Some v))) | None => sw end
  | ODelete h n k =>
    match get_h (sw_persps sw) h with Some sp => sset_persp sw h (Some (sp_write sp (n, k, None))) | None => sw end
  | OAddCmd h id =>
    match get_h (sw_persps sw) h with
    | Some sp => sset_persp sw h (Some {| sp_base := sp_base sp; sp_hist := sp_hist sp ++ [sp_cur sp];
                                          sp_cur := []; sp_fresh := sp_fresh sp |})
    | None => sw
    end
  | OFailedRule h body => sw
  | OCreate h | OWrite h =>
    match get_h (sw_persps sw) h with Some sp => sfinish_seg sw h sp | None => sw end
  | OOpen s i =>
    match nth_error (sw_segs sw) s with
    | Some ss => if (i <? length (ss_hist ss))%nat
                 then spush_persp sw {| sp_base := sseg_at ss i; sp_hist := []; sp_cur := []; sp_fresh := false |}
                 else sw
    | None => sw
    end
  | OOpenIdx j =>
    match nth_error (sw_idxs sw) j with
    | Some f => spush_persp sw {| sp_base := f; sp_hist := []; sp_cur := []; sp_fresh := false |}
    | None => sw
    end
  | OFactAt s i =>
    match nth_error (sw_segs sw) s with
    | Some ss => spush_fp sw (sseg_at ss i)
    | None => sw
    end
  | OFInsert f n k v =>
    match get_h (sw_fps sw) f with Some g => sset_fp sw f (Some (fupd g (n, k, Some v))) | None => sw end
  | OFDelete f n k =>
    match get_h (sw_fps sw) f with Some g => sset_fp sw f (Some (fupd g (n, k, None))) | None => sw end
  | OWriteFacts f =>
    match get_h (sw_fps sw) f with
    | Some g => let sw1 := sset_fp sw f None in
                {| sw_persps := sw_persps sw1; sw_fps := sw_fps sw1; sw_segs := sw_segs sw1;
                   sw_idxs := sw_idxs sw ++ [g] |}
    | None => sw
    end
  end.

Definition srun (ops : list op) : sworld := fold_left sstep ops sworld0.

(** Side conditions under which the storage API is used (see DESIGN/C12 notes):
    a perspective is written out at a command boundary, [new_storage] takes a
    perspective made by [new_perspective], and [get_fact_perspective] is given a
    location inside the segment. *)
Definition op_ok (sw : sworld) (o : op) : Prop :=
  match o with
  | OWrite h => match get_h (sw_persps sw) h with Some sp => sp_cur sp = [] | None => True end
  | OCreate h => match get_h (sw_persps sw) h with
                 | Some sp => sp_cur sp = [] /\ sp_fresh sp = true
                 | None => True
                 end
  | OFactAt s i => match nth_error (sw_segs sw) s with
                   | Some ss => (i < length (ss_hist ss))%nat
                   | None => True
                   end
  | _ => True
  end.

Fixpoint ops_ok (sw : sworld) (ops : list op) : Prop :=
  match ops with
  | [] => True
  | o :: r => op_ok sw o /\ ops_ok (sstep sw o) r
  end.

(** ** List plumbing *)

Definition orel {A B} (R : A -> B -> Prop) (a : option A) (b : option B) : Prop :=
  match a, b with
  | Some x, Some y => R x y
  | None, None => True
  | _, _ => False
  end.

Lemma F2_nth {A B} (R : A -> B -> Prop) l1 l2 : Forall2 R l1 l2 ->
  forall i, match nth_error l1 i, nth_error l2 i with
            | Some x, Some y => R x y
            | None, None => True
            | _, _ => False
            end.
Proof.
  induction 1 as [|x y l1 l2 Hxy H IH]; intros [|i]; cbn; auto. apply IH.
Qed.

Lemma F2_get {A B} (R : A -> B -> Prop) l1 l2 h :
  Forall2 (orel R) l1 l2 ->
  match get_h l1 h, get_h l2 h with
  | Some x, Some y => R x y
  | None, None => True
  | _, _ => False
  end.
Proof.
  intros H. pose proof (F2_nth _ _ _ H h) as Hn. unfold get_h.
  destruct (nth_error l1 h) as [[x|]|], (nth_error l2 h) as [[y|]|]; cbn in *; auto.
Qed.

Lemma F2_set {A B} (R : A -> B -> Prop) l1 l2 : Forall2 R l1 l2 ->
  forall h x y, R x y -> Forall2 R (set_nth l1 h x) (set_nth l2 h y).
Proof.
  induction 1 as [|a b l1 l2 Hab H IH]; intros [|h] x y Hxy; cbn; constructor; auto.
Qed.

Lemma F2_push {A B} (R : A -> B -> Prop) l1 l2 x y :
  Forall2 R l1 l2 -> R x y -> Forall2 R (l1 ++ [x]) (l2 ++ [y]).
Proof. intros H Hxy. apply Forall2_app; auto. Qed.

Lemma F2_impl {A B} (R1 R2 : A -> B -> Prop) l1 l2 :
  (forall x y, R1 x y -> R2 x y) -> Forall2 R1 l1 l2 -> Forall2 R2 l1 l2.
Proof. intros Hi. induction 1; constructor; auto. Qed.

Lemma set_nth_id {A} (l : list A) : forall h x, nth_error l h = Some x -> set_nth l h x = l.
Proof.
  induction l as [|a l IH]; intros [|h] x H; cbn in *; try discriminate.
  - inv H; auto.
  - f_equal; auto.
Qed.

Lemma orel_impl {A B} (R1 R2 : A -> B -> Prop) a b :
  (forall x y, R1 x y -> R2 x y) -> orel R1 a b -> orel R2 a b.
Proof. destruct a, b; cbn; auto. Qed.

Lemma get_h_nth {A} (l : list (option A)) h x : get_h l h = Some x -> nth_error l h = Some (Some x).
Proof. unfold get_h. destruct (nth_error l h) as [[y|]|]; congruence. Qed.

Section WithDepth.
  Variable maxd : N.
  Hypothesis maxd_ge2 : (2 <= maxd)%N.
  Notation wf_store := (wf_store maxd).

  (** ** The simulation relation *)

  Definition persp_rel (st : store) (P : persp) (sp : spersp) : Prop :=
    pden st (fp_prior (p_facts P)) (sp_base sp) /\ persp_inv P /\
    map c_updates (p_cmds P) = sp_hist sp /\ p_cur P = sp_cur sp /\
    (sp_fresh sp = true -> fp_prior (p_facts P) = PNone).

  Definition seg_rel (st : store) (sg : segment) (ss : sseg) : Prop :=
    fetch_seg st (sg_offset sg) = Some sg /\ map c_updates (sg_cmds sg) = ss_hist ss /\
    sg_cmds sg <> [] /\ oden st (sg_prior_facts sg) (ss_base ss) /\
    iden st (sg_facts sg) (sseg_head ss).

  Record wrel (w : world) (sw : sworld) : Prop := {
    wr_wf : wf_store (w_store w);
    wr_persps : Forall2 (orel (persp_rel (w_store w))) (w_persps w) (sw_persps sw);
    wr_fps : Forall2 (orel (fden (w_store w))) (w_fps w) (sw_fps sw);
    wr_segs : Forall2 (seg_rel (w_store w)) (w_segs w) (sw_segs sw);
    wr_idxs : Forall2 (iden (w_store w)) (w_idxs w) (sw_idxs sw);
  }.

  Lemma persp_rel_app st ext P sp : persp_rel st P sp -> persp_rel (st ++ ext) P sp.
  Proof. intros (H1 & H2). split; auto using pden_app. Qed.

  Lemma seg_rel_app st ext sg ss : seg_rel st sg ss -> seg_rel (st ++ ext) sg ss.
  Proof.
    intros (H1 & H2 & H3 & H4 & H5).
    repeat split; auto using fetch_seg_app, oden_app, iden_app.
  Qed.

  (** Everything already related stays related when the store grows. *)
  Lemma wrel_grow w sw ext : wrel w sw -> wf_store (w_store w ++ ext) ->
    wrel (with_store w (w_store w ++ ext)) sw.
  Proof.
    intros [H1 H2 H3 H4 H5] W. constructor; cbn; auto.
    - eapply F2_impl; [|exact H2]. intros x y. apply orel_impl. intros; apply persp_rel_app; auto.
    - eapply F2_impl; [|exact H3]. intros x y. apply orel_impl. intros; apply fden_app; auto.
    - eapply F2_impl; [|exact H4]. intros; apply seg_rel_app; auto.
    - eapply F2_impl; [|exact H5]. intros; apply iden_app; auto.
  Qed.

  Lemma persp_rel_den st P sp : persp_rel st P sp -> fden st (p_facts P) (sp_now sp).
  Proof.
    intros (Hb & Hi & Hh & Hc & _). rewrite Hi. unfold sp_now.
    rewrite <- Hh, <- Hc. apply fden_apply_updates. apply fden_new; auto.
  Qed.

  Lemma prior_layers_det st pr l1 : prior_layers st pr l1 -> forall l2, prior_layers st pr l2 -> l1 = l2.
  Proof.
    induction 1; intros l2 H2; inv H2; auto.
    - eapply chain_det; eauto.
    - f_equal; auto.
  Qed.

  Lemma pden_det st pr f g : pden st pr f -> pden st pr g -> f ≡ g.
  Proof.
    intros (l1 & P1 & F1) (l2 & P2 & F2). assert (l1 = l2) by (eapply prior_layers_det; eauto). subst.
    eapply feq_trans; [apply feq_sym|]; eauto.
  Qed.

  (** ** Writes on a perspective *)

  Lemma persp_rel_write st P sp n k v :
    persp_rel st P sp ->
    persp_rel st (match v with Some b => p_insert P n k b | None => p_delete P n k end)
              (sp_write sp (n, k, v)).
  Proof.
    intros (Hb & Hi & Hh & Hc & Hf). destruct v as [b|]; cbn [sp_write].
    - split; [exact Hb|]. split; [apply persp_inv_insert; auto|]. cbn. rewrite Hc. auto.
    - split; [cbn; rewrite fp_delete_prior; exact Hb|]. split; [apply persp_inv_delete; auto|].
      cbn. rewrite Hc, fp_delete_prior. auto.
  Qed.

  (** ** Segments *)

  Lemma cmd_index_at sg i :
    cmd_index sg (sg_max_cut sg + N.of_nat i) = if (i <? length (sg_cmds sg))%nat then Some i else None.
  Proof.
    unfold cmd_index.
    assert ((sg_max_cut sg + N.of_nat i <? sg_max_cut sg)%N = false) as -> by lia.
    replace (N.to_nat (sg_max_cut sg + N.of_nat i - sg_max_cut sg)) with i by lia. reflexivity.
  Qed.

  Lemma head_test sg i : sg_cmds sg <> [] -> (i < length (sg_cmds sg))%nat ->
    (sg_max_cut sg + N.of_nat i =? head_max_cut sg)%N = (i =? length (sg_cmds sg) - 1)%nat.
  Proof.
    intros Hne Hlt. unfold head_max_cut.
    destruct (sg_cmds sg) as [|c cs]; [congruence|]. cbn [length] in *.
    destruct (i =? S (length cs) - 1)%nat eqn:E.
    - apply Nat.eqb_eq in E. apply N.eqb_eq. lia.
    - apply Nat.eqb_neq in E. apply N.eqb_neq. lia.
  Qed.

  Lemma rebuild_den st sg ss i : seg_rel st sg ss -> fden st (rebuild sg i) (sseg_at ss i).
  Proof.
    intros (Hf & Hh & Hne & Hp & Hd). unfold rebuild, sseg_at.
    rewrite replay_updates. unfold updates_of. rewrite <- Hh, firstn_map.
    apply fden_apply_updates. apply fden_new.
    destruct (sg_prior_facts sg) as [o|]; cbn in Hp.
    - apply pden_index; auto.
    - eapply pden_feq; [apply feq_sym; eauto|]. apply pden_none.
  Qed.

  Lemma sseg_at_last ss : ss_hist ss <> [] -> sseg_at ss (length (ss_hist ss) - 1) = sseg_head ss.
  Proof.
    intros H. unfold sseg_at, sseg_head. rewrite firstn_all2; auto.
    destruct (ss_hist ss); [congruence|]. cbn [length]. lia.
  Qed.

  Lemma open_prior_den st sg ss i : wf_store st -> seg_rel st sg ss -> (i < length (sg_cmds sg))%nat ->
    pden st
      (if (sg_max_cut sg + N.of_nat i =? head_max_cut sg)%N then PIndex (sg_facts sg)
       else
         let facts := rebuild sg i in
         let m := if is_none (fp_prior facts) then nm_retain_nonempty (fp_map facts) else fp_map facts in
         if is_empty m then fp_prior facts else PPersp m (fp_prior facts))
      (sseg_at ss i).
  Proof.
    intros W Hs Hlt. pose proof Hs as (Hf & Hh & Hne & Hp & Hd).
    rewrite head_test; auto.
    destruct (i =? length (sg_cmds sg) - 1)%nat eqn:E.
    - apply Nat.eqb_eq in E. subst i. apply pden_index.
      assert (length (sg_cmds sg) = length (ss_hist ss)) by (rewrite <- Hh, map_length; auto).
      rewrite H, sseg_at_last; auto. rewrite <- Hh. destruct (sg_cmds sg); cbn; congruence.
    - pose proof (rebuild_den st sg ss i Hs) as Hr. cbv zeta.
      unfold fden, as_prior in Hr. apply pden_persp_inv in Hr as (Hok & g & Hg & Hfg).
      set (m := if is_none (fp_prior (rebuild sg i)) then nm_retain_nonempty (fp_map (rebuild sg i))
                else fp_map (rebuild sg i)).
      assert (Hm : nm_ok m /\ over m g ≡ over (fp_map (rebuild sg i)) g).
      { unfold m. destruct (is_none (fp_prior (rebuild sg i))).
        - split; [apply nm_ok_retain; auto|apply over_retain; auto].
        - split; auto. apply feq_refl. }
      destruct Hm as [Hokm Hov].
      destruct (is_empty m) eqn:Em.
      + eapply pden_feq; [|exact Hg].
        eapply feq_trans; [|apply feq_sym; exact Hfg].
        eapply feq_trans; [|exact Hov]. apply feq_sym, over_empty_map; auto.
      + eapply pden_feq; [|apply pden_persp; eauto].
        eapply feq_trans; [exact Hov|]. apply feq_sym; auto.
  Qed.

  Lemma all_empty_concat (hist : list (list update)) n :
    forallb (fun us => is_empty us) hist = true -> concat (firstn n hist) = [].
  Proof.
    revert n; induction hist as [|us hist IH]; intros [|n] H; cbn in *; auto.
    apply andb_prop in H as [H1 H2]. destruct us; [|discriminate]. cbn. auto.
  Qed.

  (** ** Every step preserves the relation *)

  Lemma wrel_set_persp w sw h P sp : wrel w sw -> persp_rel (w_store w) P sp ->
    wrel (set_persp w h (Some P)) (sset_persp sw h (Some sp)).
  Proof. intros [H1 H2 H3 H4 H5] H. constructor; cbn; auto. apply F2_set; auto. Qed.

  Lemma wrel_push_persp w sw P sp : wrel w sw -> persp_rel (w_store w) P sp ->
    wrel (push_persp w P) (spush_persp sw sp).
  Proof. intros [H1 H2 H3 H4 H5] H. constructor; cbn; auto. apply F2_push; auto. Qed.

  Lemma wrel_set_fp w sw f fp g : wrel w sw -> fden (w_store w) fp g ->
    wrel (set_fp w f (Some fp)) (sset_fp sw f (Some g)).
  Proof. intros [H1 H2 H3 H4 H5] H. constructor; cbn; auto. apply F2_set; auto. Qed.

  Lemma wrel_push_fp w sw fp g : wrel w sw -> fden (w_store w) fp g ->
    wrel (push_fp w fp) (spush_fp sw g).
  Proof. intros [H1 H2 H3 H4 H5] H. constructor; cbn; auto. apply F2_push; auto. Qed.

  Lemma get_persp w sw h : wrel w sw ->
    match get_h (w_persps w) h, get_h (sw_persps sw) h with
    | Some P, Some sp => persp_rel (w_store w) P sp
    | None, None => True
    | _, _ => False
    end.
  Proof. intros H. apply F2_get. apply H. Qed.

  Lemma get_fp w sw f : wrel w sw ->
    match get_h (w_fps w) f, get_h (sw_fps sw) f with
    | Some fp, Some g => fden (w_store w) fp g
    | None, None => True
    | _, _ => False
    end.
  Proof. intros H. apply F2_get. apply H. Qed.

  Lemma seg_written w sw h st2 sg ss :
    wrel w sw -> (exists ext, st2 = w_store w ++ ext) -> wf_store st2 -> seg_rel st2 sg ss ->
    wrel {| w_store := st2; w_persps := set_nth (w_persps w) h None; w_fps := w_fps w;
            w_segs := w_segs w ++ [sg]; w_idxs := w_idxs w |}
         {| sw_persps := set_nth (sw_persps sw) h None; sw_fps := sw_fps sw;
            sw_segs := sw_segs sw ++ [ss]; sw_idxs := sw_idxs sw |}.
  Proof.
    intros Hw [ext ->] W Hs. destruct (wrel_grow w sw ext Hw W) as [G1 G2 G3 G4 G5]. cbn in *.
    constructor; cbn; auto.
    - apply F2_set; cbn; auto.
    - apply F2_push; auto.
  Qed.

  Lemma seg_failed w sw h st2 :
    wrel w sw -> (exists ext, st2 = w_store w ++ ext) -> wf_store st2 ->
    wrel (set_persp (with_store w st2) h None) (sset_persp sw h None).
  Proof.
    intros Hw [ext ->] W. destruct (wrel_grow w sw ext Hw W) as [G1 G2 G3 G4 G5]. cbn in *.
    constructor; cbn; auto. apply F2_set; cbn; auto.
  Qed.

  Lemma is_empty_map {A B} (f : A -> B) l : is_empty (map f l) = is_empty l.
  Proof. destruct l; auto. Qed.

  Theorem step_wrel w sw o : wrel w sw -> op_ok sw o -> wrel (mstep maxd w o) (sstep sw o).
  Proof.
    intros Hw Hok. pose proof (wr_wf _ _ Hw) as W.
    destruct o as [|h n k v|h n k|h id|h body|h|h|s i|j|s i|f n k v|f n k|f]; cbn [mstep sstep].
    - (* ONew *)
      apply wrel_push_persp; auto.
      split; [apply pden_none|]. split; [apply persp_inv_new|]. cbn. auto.
    - (* OInsert *)
      pose proof (get_persp w sw h Hw) as G.
      destruct (get_h (w_persps w) h) as [P|], (get_h (sw_persps sw) h) as [sp|]; try tauto.
      apply wrel_set_persp; auto. apply (persp_rel_write _ P sp n k (Some v)); auto.
    - (* ODelete *)
      pose proof (get_persp w sw h Hw) as G.
      destruct (get_h (w_persps w) h) as [P|], (get_h (sw_persps sw) h) as [sp|]; try tauto.
      apply wrel_set_persp; auto. apply (persp_rel_write _ P sp n k None); auto.
    - (* OAddCmd *)
      pose proof (get_persp w sw h Hw) as G.
      destruct (get_h (w_persps w) h) as [P|], (get_h (sw_persps sw) h) as [sp|]; try tauto.
      destruct (p_add_command_ok P id) as (P' & n' & E & Hf & Hc & Hu & Hmc & Hpa). rewrite E.
      apply wrel_set_persp; auto.
      destruct G as (Hb & Hi & Hh & Hcur & Hfr).
      split; [rewrite Hf; exact Hb|]. split; [eapply persp_inv_add_command; eauto|].
      cbn. rewrite Hc, Hu, Hf, map_app, Hh. cbn. rewrite Hcur. auto.
    - (* OFailedRule *)
      pose proof (get_persp w sw h Hw) as G.
      destruct (get_h (w_persps w) h) as [P|] eqn:EP, (get_h (sw_persps sw) h) as [sp|] eqn:ES; try tauto.
      rewrite failed_rule_exact; [|apply G].
      destruct Hw as [H1 H2 H3 H4 H5]. constructor; cbn; auto.
      rewrite <- (set_nth_id (sw_persps sw) h (Some sp)); [|apply get_h_nth; auto].
      apply F2_set; auto.
    - (* OCreate *)
      pose proof (get_persp w sw h Hw) as G. cbn in Hok.
      destruct (get_h (w_persps w) h) as [P|] eqn:EP, (get_h (sw_persps sw) h) as [sp|] eqn:ES; try tauto.
      destruct Hok as [Hcur Hfresh]. pose proof (persp_rel_den _ _ _ G) as Hden.
      destruct G as (Hb & Hi & Hh & Hc & Hfr). specialize (Hfr Hfresh).
      rewrite Hfr in Hb. apply pden_none_inv in Hb.
      unfold create, sfinish_seg. rewrite <- Hh, is_empty_map.
      destruct (is_empty (p_cmds P)) eqn:Ee.
      + cbn [finish_seg]. replace (with_store w (w_store w)) with w by (destruct w; auto).
        destruct Hw as [H1 H2 H3 H4 H5]. constructor; cbn; auto. apply F2_set; cbn; auto.
      + rewrite Hfr. cbn [is_none negb].
        unfold fden, as_prior in Hden. rewrite Hfr in Hden.
        apply pden_persp_inv in Hden as (Hokm & g & Hg & Hfg). apply pden_none_inv in Hg.
        pose proof (append_facts_spec maxd maxd_ge2 (w_store w) None 1
                      (nm_retain_nonempty (fp_map (p_facts P))) fempty W (nm_ok_retain _ Hokm)) as Ha.
        destruct (append_facts (w_store w) None 1 (nm_retain_nonempty (fp_map (p_facts P)))) as [st1 fi] eqn:Ea.
        destruct Ha as [[e1 He1] W1 Hf1 Hd1 _]; [lia|split; auto; apply feq_refl|].
        unfold append_seg. cbn [finish_seg set_persp with_store with_persps w_store w_persps w_fps w_segs w_idxs].
        set (sg := {| sg_offset := next_offset st1; sg_facts := fi_offset fi; sg_prior_facts := None;
                      sg_cmds := p_cmds P; sg_max_cut := 0 |}).
        apply (seg_written w sw h (st1 ++ [ISeg sg]) sg); auto.
        * exists (e1 ++ [ISeg sg]). rewrite He1, app_assoc; auto.
        * apply wf_store_app_seg; auto.
        * split; [apply fetch_seg_last|]. split; [reflexivity|]. split; [destruct (p_cmds P); cbn in *; congruence|].
          split; [cbn; exact Hb|]. cbn [sg sg_facts].
          apply iden_app. eapply iden_feq; [|exact Hd1]. unfold sseg_head. cbn [ss_base ss_hist].
          unfold sp_now in Hfg. rewrite <- Hc, Hcur, app_nil_r in *. rewrite <- Hh in Hfg.
          eapply feq_trans; [apply over_retain; auto|].
          eapply feq_trans; [|apply feq_sym; exact Hfg].
          apply over_feq. apply feq_sym; auto.
    - (* OWrite *)
      pose proof (get_persp w sw h Hw) as G. cbn in Hok.
      destruct (get_h (w_persps w) h) as [P|] eqn:EP, (get_h (sw_persps sw) h) as [sp|] eqn:ES; try tauto.
      pose proof (persp_rel_den _ _ _ G) as Hden.
      destruct G as (Hb & Hi & Hh & Hc & Hfr).
      unfold fden, as_prior in Hden. apply pden_persp_inv in Hden as (Hokm & g & Hg & Hfg).
      pose proof (pden_det _ _ _ _ Hg Hb) as Hgb.
      destruct (write_facts_wp_spec maxd maxd_ge2 (fp_prior (p_facts P)) (w_store w) (fp_map (p_facts P)) g W Hokm Hg)
        as (st1 & fi & pf & Hwp & [[e1 He1] W1 Hf1 Hd1 Hp1]).
      unfold write, sfinish_seg. rewrite Hwp. rewrite <- Hh, is_empty_map.
      destruct (is_empty (p_cmds P)) eqn:Ee.
      + cbn [finish_seg]. apply seg_failed; eauto.
      + unfold append_seg. cbn [finish_seg set_persp with_store with_persps w_store w_persps w_fps w_segs w_idxs].
        set (sg := {| sg_offset := next_offset st1; sg_facts := fi_offset fi; sg_prior_facts := pf;
                      sg_cmds := p_cmds P; sg_max_cut := p_max_cut P |}).
        apply (seg_written w sw h (st1 ++ [ISeg sg]) sg); auto.
        * exists (e1 ++ [ISeg sg]). rewrite He1, app_assoc; auto.
        * apply wf_store_app_seg; auto.
        * split; [apply fetch_seg_last|]. split; [reflexivity|]. split; [destruct (p_cmds P); cbn in *; congruence|].
          split; [cbn; apply oden_app; eapply oden_feq; eauto|]. cbn [sg sg_facts].
          apply iden_app. eapply iden_feq; [|exact Hd1]. unfold sseg_head. cbn [ss_base ss_hist].
          unfold sp_now in Hfg. rewrite Hok, app_nil_r in Hfg. rewrite <- Hh in Hfg. apply feq_sym; auto.
    - (* OOpen *)
      pose proof (F2_nth _ _ _ (wr_segs _ _ Hw) s) as G.
      destruct (nth_error (w_segs w) s) as [sg|], (nth_error (sw_segs sw) s) as [ss|]; try tauto.
      pose proof G as (Hf & Hh & Hne & Hp & Hd).
      unfold get_linear_perspective. rewrite Hf, cmd_index_at.
      assert (Hl : length (sg_cmds sg) = length (ss_hist ss)) by (rewrite <- Hh, map_length; auto).
      rewrite <- Hl. destruct (i <? length (sg_cmds sg))%nat eqn:Ei; auto.
      apply Nat.ltb_lt in Ei.
      apply wrel_push_persp; auto.
      split; [cbn [p_new p_facts fp_new fp_prior sp_base]; apply open_prior_den; auto|].
      split; [apply persp_inv_new|]. cbn. repeat split; auto; discriminate.
    - (* OOpenIdx *)
      pose proof (F2_nth _ _ _ (wr_idxs _ _ Hw) j) as G.
      destruct (nth_error (w_idxs w) j) as [off|], (nth_error (sw_idxs sw) j) as [g|]; try tauto.
      apply wrel_push_persp; auto.
      split; [cbn; apply pden_index; auto|]. split; [apply persp_inv_new|]. cbn. repeat split; auto; discriminate.
    - (* OFactAt *)
      pose proof (F2_nth _ _ _ (wr_segs _ _ Hw) s) as G. cbn in Hok.
      destruct (nth_error (w_segs w) s) as [sg|], (nth_error (sw_segs sw) s) as [ss|]; try tauto.
      pose proof G as (Hf & Hh & Hne & Hp & Hd).
      assert (Hl : length (sg_cmds sg) = length (ss_hist ss)) by (rewrite <- Hh, map_length; auto).
      unfold get_fact_perspective. rewrite Hf, head_test by (auto; lia).
      destruct ((i =? length (sg_cmds sg) - 1)%nat || forallb (fun c => is_empty (c_updates c)) (sg_cmds sg)) eqn:E.
      + apply wrel_push_fp; auto. apply fden_new, pden_index.
        eapply iden_feq; [|exact Hd]. unfold sseg_head, sseg_at.
        apply orb_prop in E as [E|E].
        * apply Nat.eqb_eq in E. subst i. rewrite Hl, firstn_all2; [apply feq_refl|lia].
        * assert (Hall : forallb (fun us => is_empty us) (ss_hist ss) = true).
          { rewrite <- Hh, forallb_forall in *. intros us Hin. apply in_map_iff in Hin as [c [<- Hin]]. auto. }
          rewrite (all_empty_concat _ (S i) Hall).
          rewrite <- (firstn_all (ss_hist ss)), (all_empty_concat _ _ Hall). apply feq_refl.
      + rewrite cmd_index_at. assert ((i <? length (sg_cmds sg))%nat = true) as -> by (apply Nat.ltb_lt; lia).
        apply wrel_push_fp; auto. apply rebuild_den; auto.
    - (* OFInsert *)
      pose proof (get_fp w sw f Hw) as G.
      destruct (get_h (w_fps w) f) as [fp|], (get_h (sw_fps sw) f) as [g|]; try tauto.
      apply wrel_set_fp; auto. rewrite fp_insert_apply. apply fden_apply_update; auto.
    - (* OFDelete *)
      pose proof (get_fp w sw f Hw) as G.
      destruct (get_h (w_fps w) f) as [fp|], (get_h (sw_fps sw) f) as [g|]; try tauto.
      apply wrel_set_fp; auto. rewrite fp_delete_apply. apply fden_apply_update; auto.
    - (* OWriteFacts *)
      pose proof (get_fp w sw f Hw) as G.
      destruct (get_h (w_fps w) f) as [fp|], (get_h (sw_fps sw) f) as [g|]; try tauto.
      destruct (write_facts_spec maxd maxd_ge2 (w_store w) fp g W G) as (st' & fi & Hwf & [ext ->] & W' & Hd).
      rewrite Hwf. destruct (wrel_grow w sw ext Hw W') as [G1 G2 G3 G4 G5]. cbn in *.
      constructor; cbn; auto.
      + apply F2_set; cbn; auto.
      + apply F2_push; auto.
  Qed.

  Lemma wrel0 : wrel world0 sworld0.
  Proof. constructor; cbn; auto. apply wf_store_nil. Qed.

  Theorem run_wrel ops : ops_ok sworld0 ops -> wrel (mrun maxd ops) (srun ops).
  Proof.
    unfold mrun, srun. generalize wrel0. generalize world0 sworld0.
    induction ops as [|o ops IH]; intros w sw Hw Hok; cbn [fold_left]; auto.
    destruct Hok as [Ho Hr]. apply IH; auto. apply step_wrel; auto.
  Qed.

  (** ** What the relation says about queries *)

  Definition answers (q : name -> keys -> res (option bytes))
             (qp : name -> keys -> res (list (keys * bytes))) (f : flat) : Prop :=
    (forall n k, q n k = Ok (f n k)) /\
    (forall n p, exists l, qp n p = Ok l /\ sorted_listing f n p l).

  Lemma answers_fp st fp f : wf_store st -> fden st fp f ->
    answers (fp_query st fp) (fp_query_prefix st fp) f.
  Proof.
    intros W H. split; intros.
    - apply (fp_query_den maxd); auto.
    - apply (fp_query_prefix_den maxd); auto.
  Qed.

  Lemma answers_index st off f : wf_store st -> iden st off f ->
    answers (index_query st off) (index_query_prefix st off) f.
  Proof.
    intros W H. split; intros.
    - apply (index_query_den maxd); auto.
    - apply (index_query_prefix_den maxd); auto.
  Qed.

  Definition world_refines (w : world) (sw : sworld) : Prop :=
    let st := w_store w in
    (forall h P, get_h (w_persps w) h = Some P ->
       exists sp, get_h (sw_persps sw) h = Some sp /\
                  answers (p_query st P) (p_query_prefix st P) (sp_now sp)) /\
    (forall f fp, get_h (w_fps w) f = Some fp ->
       exists g, get_h (sw_fps sw) f = Some g /\ answers (fp_query st fp) (fp_query_prefix st fp) g) /\
    (forall s sg, nth_error (w_segs w) s = Some sg ->
       exists ss, nth_error (sw_segs sw) s = Some ss /\
                  answers (index_query st (sg_facts sg)) (index_query_prefix st (sg_facts sg)) (sseg_head ss)) /\
    (forall j off, nth_error (w_idxs w) j = Some off ->
       exists g, nth_error (sw_idxs sw) j = Some g /\
                 answers (index_query st off) (index_query_prefix st off) g) /\
    (forall off fi, fetch_facts st off = Some fi -> (1 <= fi_depth fi <= maxd)%N).

  Lemma wrel_refines w sw : wrel w sw -> world_refines w sw.
  Proof.
    intros Hw. pose proof (wr_wf _ _ Hw) as W. unfold world_refines.
    split; [|split; [|split; [|split]]].
    - intros h P HP. pose proof (get_persp w sw h Hw) as G. rewrite HP in G.
      destruct (get_h (sw_persps sw) h) as [sp|]; [|tauto]. exists sp. split; auto.
      apply answers_fp; auto. apply persp_rel_den; auto.
    - intros f fp HP. pose proof (get_fp w sw f Hw) as G. rewrite HP in G.
      destruct (get_h (sw_fps sw) f) as [g|]; [|tauto]. exists g. split; auto.
      apply answers_fp; auto.
    - intros s sg Hs. pose proof (F2_nth _ _ _ (wr_segs _ _ Hw) s) as G. rewrite Hs in G.
      destruct (nth_error (sw_segs sw) s) as [ss|]; [|tauto]. exists ss. split; auto.
      apply answers_index; auto. apply G.
    - intros j off Hj. pose proof (F2_nth _ _ _ (wr_idxs _ _ Hw) j) as G. rewrite Hj in G.
      destruct (nth_error (sw_idxs sw) j) as [g|]; [|tauto]. exists g. split; auto.
      apply answers_index; auto.
    - intros off fi Hf. destruct (wf_fetch maxd _ _ _ W Hf) as (_ & _ & Hd & _). exact Hd.
  Qed.

  Theorem facts_refine_flat_gen ops : ops_ok sworld0 ops -> world_refines (mrun maxd ops) (srun ops).
  Proof. intros H. apply wrel_refines, run_wrel; auto. Qed.
End WithDepth.
