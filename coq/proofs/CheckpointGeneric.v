(** Checkpoint / revert, generically: a state machine with ordinary steps, a
    [checkpoint] that yields a token and a [revert] that takes one.  If reverting any
    later state ("extension") to the token of an earlier state gives back that earlier
    state exactly, then it does so along every interleaving of steps, checkpoints and
    reverts, as long as no revert goes below the checkpoint in question (which is what
    invalidates a checkpoint). *)
From Aranya Require Import base.Tactics model.Facts.

Section Generic.
  Variables (St C W : Type).
  Variable cp : St -> C.                       (* checkpoint *)
  Variable rev : St -> C -> res St.            (* revert *)
  Variable stepw : St -> W -> St.              (* any other operation *)
  Variable inv : St -> Prop.
  Variable ext : St -> St -> Prop.             (* "was reached from, without reverting past it" *)

  Hypothesis ext_refl : forall s, ext s s.
  Hypothesis ext_step : forall s t w, inv t -> ext s t -> ext s (stepw t w).
  Hypothesis inv_step : forall t w, inv t -> inv (stepw t w).
  Hypothesis rev_exact : forall s t, inv s -> inv t -> ext s t -> rev t (cp s) = Ok s.

  Inductive gop := GStep (w : W) | GCheckpoint | GRevert (j : nat).

  (** The state with its live checkpoints, oldest first, each paired with the state at
      the time it was taken.  Reverting to checkpoint [j] drops the later ones. *)
  Record gstate := { g_st : St; g_cps : list (C * St) }.

  Definition gstep (s : gstate) (o : gop) : gstate :=
    match o with
    | GStep w => {| g_st := stepw (g_st s) w; g_cps := g_cps s |}
    | GCheckpoint => {| g_st := g_st s; g_cps := g_cps s ++ [(cp (g_st s), g_st s)] |}
    | GRevert j =>
      match nth_error (g_cps s) j with
      | Some (c, _) => match rev (g_st s) c with
                       | Ok t => {| g_st := t; g_cps := firstn (S j) (g_cps s) |}
                       | Err _ => s
                       end
      | None => s
      end
    end.

  Definition grun (s : gstate) (ops : list gop) : gstate := fold_left gstep ops s.
  Definition ginit (s0 : St) : gstate := {| g_st := s0; g_cps := [] |}.

  Record gstate_ok (s : gstate) : Prop := {
    gk_inv : inv (g_st s);
    gk_cps : Forall (fun cS => fst cS = cp (snd cS) /\ inv (snd cS) /\ ext (snd cS) (g_st s)) (g_cps s);
    gk_chain : ForallOrdPairs (fun a b => ext (snd a) (snd b)) (g_cps s);
  }.

  Lemma Forall_firstn {A} (P : A -> Prop) l : Forall P l -> forall n, Forall P (firstn n l).
  Proof. induction 1 as [|x l Hx Hl IH]; intros [|n]; cbn; constructor; auto. Qed.

  Lemma FOP_firstn {A} (R : A -> A -> Prop) n : forall l, ForallOrdPairs R l -> ForallOrdPairs R (firstn n l).
  Proof.
    induction n as [|n IH]; intros l H; cbn; [constructor|].
    destruct l as [|x l]; [constructor|]. inversion H; subst. constructor; auto.
    apply Forall_firstn; auto.
  Qed.

  Lemma FOP_snoc {A} (R : A -> A -> Prop) l x :
    ForallOrdPairs R l -> Forall (fun a => R a x) l -> ForallOrdPairs R (l ++ [x]).
  Proof.
    induction 1 as [|a l Ha Hl IH]; intros Hx; cbn.
    - constructor; constructor.
    - inversion Hx; subst. constructor; auto. apply Forall_app; split; auto.
  Qed.

  Lemma FOP_nth {A} (R : A -> A -> Prop) l : ForallOrdPairs R l ->
    forall i j a b, (i < j)%nat -> nth_error l i = Some a -> nth_error l j = Some b -> R a b.
  Proof.
    induction 1 as [|x l Hx Hl IH]; intros i j a b Hij Hi Hj.
    - destruct i; discriminate.
    - destruct j as [|j]; [lia|]. cbn in Hj. destruct i as [|i]; cbn in Hi.
      + inv Hi. rewrite Forall_forall in Hx. apply Hx. eapply nth_error_In; eauto.
      + apply (IH i j a b); auto; lia.
  Qed.

  Lemma nth_error_firstn_lt {A} (l : list A) : forall n i, (i < n)%nat -> nth_error (firstn n l) i = nth_error l i.
  Proof. induction l as [|x l IH]; intros [|n] [|i] H; cbn; auto; try lia. apply IH; lia. Qed.

  (** Reverting to a live checkpoint yields exactly the recorded state. *)
  Lemma revert_live s j c t : gstate_ok s -> nth_error (g_cps s) j = Some (c, t) ->
    rev (g_st s) c = Ok t.
  Proof.
    intros [Hi Hc Hch] Hj. rewrite Forall_forall in Hc.
    destruct (Hc (c, t)) as (H1 & H2 & H3); [eapply nth_error_In; eauto|]. cbn in *. subst c.
    apply rev_exact; auto.
  Qed.

  Lemma gstep_ok s o : gstate_ok s -> gstate_ok (gstep s o).
  Proof.
    intros Hs. pose proof Hs as [Hi Hc Hch]. destruct o as [w| |j]; cbn [gstep].
    - constructor; cbn; auto.
      eapply Forall_impl; [|exact Hc]. intros [c t] (H1 & H2 & H3); auto.
    - constructor; cbn; auto.
      + apply Forall_app; split; auto.
      + apply FOP_snoc; auto. eapply Forall_impl; [|exact Hc]. intros [c t] (H1 & H2 & H3); auto.
    - destruct (nth_error (g_cps s) j) as [[c t]|] eqn:Ej; auto.
      rewrite (revert_live s j c t Hs Ej).
      pose proof Hc as Hc'. rewrite Forall_forall in Hc'.
      destruct (Hc' (c, t)) as (H1 & H2 & H3); [eapply nth_error_In; eauto|]. cbn in H1, H2, H3.
      constructor; cbn [g_st g_cps]; auto using FOP_firstn.
      rewrite Forall_forall. intros [c2 t2] Hin. apply In_nth_error in Hin as [i Hnth].
      assert (Hlt : (i < Datatypes.S j)%nat).
      { assert (i < length (firstn (Datatypes.S j) (g_cps s)))%nat by (apply nth_error_Some; rewrite Hnth; discriminate).
        rewrite firstn_length in H. lia. }
      rewrite nth_error_firstn_lt in Hnth by auto.
      destruct (Hc' (c2, t2)) as (G1 & G2 & G3); [eapply nth_error_In; eauto|]. cbn in *.
      split; [auto|]. split; [auto|].
      destruct (Nat.eq_dec i j) as [->|Hne].
      + assert (t2 = t) by congruence. subst. apply ext_refl.
      + apply (FOP_nth _ _ Hch i j (c2, t2) (c, t)); auto. lia.
  Qed.

  Lemma grun_ok ops : forall s, gstate_ok s -> gstate_ok (grun s ops).
  Proof. unfold grun. induction ops as [|o ops IH]; intros s Hs; cbn [fold_left]; auto using gstep_ok. Qed.

  Lemma ginit_ok s0 : inv s0 -> gstate_ok (ginit s0).
  Proof. intros H. constructor; cbn; auto; constructor. Qed.

  (** No revert below position [j]. *)
  Definition above (j : nat) (o : gop) : Prop := match o with GRevert i => (j <= i)%nat | _ => True end.

  Lemma entry_stable j e ops : Forall (above j) ops -> forall s,
    nth_error (g_cps s) j = Some e -> nth_error (g_cps (grun s ops)) j = Some e.
  Proof.
    unfold grun. induction 1 as [|o ops Ho Hr IH]; intros s Hj; cbn [fold_left]; auto.
    apply IH. destruct o as [w| |i]; cbn [gstep]; auto.
    - cbn. rewrite nth_error_app1; auto. apply nth_error_Some. rewrite Hj; discriminate.
    - cbn in Ho. destruct (nth_error (g_cps s) i) as [[c t]|]; auto.
      destruct (rev (g_st s) c); auto. cbn [g_cps]. rewrite nth_error_firstn_lt; auto. lia.
  Qed.

  (** The statement used by C13: checkpoint, then anything that does not revert below
      it, then revert to it: the state is exactly the one at the checkpoint. *)
  Theorem revert_exact_generic s0 ops1 ops2 : inv s0 ->
    let s1 := grun (ginit s0) ops1 in
    let j := length (g_cps s1) in
    Forall (above j) ops2 ->
    g_st (grun s1 (GCheckpoint :: ops2 ++ [GRevert j])) = g_st s1.
  Proof.
    intros H0 s1 j Hab.
    assert (Hs1 : gstate_ok s1) by (apply grun_ok, ginit_ok; auto).
    unfold grun. cbn [fold_left]. rewrite fold_left_app. cbn [fold_left].
    set (s1' := gstep s1 GCheckpoint).
    assert (Hs1' : gstate_ok s1') by (apply gstep_ok; auto).
    assert (Hj : nth_error (g_cps s1') j = Some (cp (g_st s1), g_st s1)).
    { unfold s1'. cbn. rewrite nth_error_app2, Nat.sub_diag; auto. }
    fold (grun s1' ops2).
    pose proof (entry_stable j _ ops2 Hab s1' Hj) as Hj2.
    pose proof (grun_ok ops2 s1' Hs1') as Hs2.
    cbn [gstep]. rewrite Hj2. rewrite (revert_live _ j _ _ Hs2 Hj2). reflexivity.
  Qed.
End Generic.
