(** The machine a compiled policy is loaded into, and a decidable check of the
    layout hypotheses of [CompileCorrect] (every function's code at the address of
    its label), sound for every program. *)
From Aranya Require Import base.Tactics model.VmBase gen.GenVm model.Vm model.Lang model.Typing
  model.Compile model.CompileDirect model.CompileRun proofs.VmTotal proofs.SimBase proofs.CompileSim proofs.CompileCorrect.
Local Open Scope N_scope.

(** ** Equality tests of [CompileRun] are sound *)
Lemma cv_eqb_eq : forall a b, cv_eqb a b = true -> a = b.
Proof.
  fix IH 1. intros a b H.
  destruct a as [|z1|b1|s1|c1|en1 ez1|o1|r1].
  - destruct b; try discriminate. reflexivity.
  - destruct b as [|z2| | | | | |]; try discriminate. cbn in H. apply Z.eqb_eq in H. congruence.
  - destruct b as [| |b2| | | | |]; try discriminate. cbn in H. apply Bool.eqb_prop in H. congruence.
  - destruct b as [| | |s2| | | |]; try discriminate. cbn in H. apply String.eqb_eq in H. congruence.
  - destruct b as [| | | |c2| | |]; try (destruct c1; discriminate). destruct c1 as [n1 f1], c2 as [n2 f2]. cbn [cv_eqb] in H.
    apply andb_prop in H. destruct H as [Hn Hf].
    apply String.eqb_eq in Hn. subst n2. f_equal. f_equal.
    revert f2 Hf. induction f1 as [|[k1 v1] r1 IHr]; intros [|[k2 v2] r2] Hf; try discriminate; [reflexivity|].
    apply andb_prop in Hf. destruct Hf as [Hf Hr]. apply andb_prop in Hf. destruct Hf as [Hk Hv].
    apply String.eqb_eq in Hk. apply IH in Hv. subst. f_equal. apply IHr. exact Hr.
  - destruct b as [| | | | |en2 ez2| |]; try discriminate. cbn in H.
    apply andb_prop in H. destruct H as [Hn Hz]. apply String.eqb_eq in Hn. apply Z.eqb_eq in Hz. congruence.
  - destruct b as [| | | | | |o2|]; try (destruct o1; discriminate).
    destruct o1 as [x|], o2 as [y|]; try discriminate; [|reflexivity]. f_equal. f_equal. apply IH. exact H.
  - destruct b as [| | | | | | |r2]; try (destruct r1; discriminate).
    destruct r1 as [x|x], r2 as [y|y]; try discriminate; f_equal; f_equal; apply IH; exact H.
Qed.

Lemma label_eqb_eq a b : label_eqb a b = true -> a = b.
Proof.
  destruct a as [n1 t1], b as [n2 t2]. unfold label_eqb. cbn. intros H. apply andb_prop in H. destruct H as [Hn Ht].
  apply String.eqb_eq in Hn. subst. f_equal. destruct t1, t2; try discriminate; reflexivity.
Qed.

Lemma instr_eqb_eq a b : instr_eqb a b = true -> a = b.
Proof.
  destruct a, b; cbn [instr_eqb]; intros H; try discriminate; try reflexivity;
    try (apply String.eqb_eq in H; congruence);
    try (apply N.eqb_eq in H; congruence);
    try (apply Z.eqb_eq in H; congruence).
  - apply cv_eqb_eq in H. congruence.
  - destruct t, t0; cbn in H; try discriminate; [apply label_eqb_eq in H|apply N.eqb_eq in H]; congruence.
  - destruct t, t0; cbn in H; try discriminate; [apply label_eqb_eq in H|apply N.eqb_eq in H]; congruence.
  - destruct t, t0; cbn in H; try discriminate; [apply label_eqb_eq in H|apply N.eqb_eq in H]; congruence.
  - destruct t, t0; cbn in H; try discriminate; [apply label_eqb_eq in H|apply N.eqb_eq in H]; congruence.
  - apply andb_prop in H. destruct H as [H1 H2]. apply N.eqb_eq in H1. apply N.eqb_eq in H2. congruence.
  - destruct e, e0; try discriminate; reflexivity.
  - destruct w, w0; try discriminate; reflexivity.
  - destruct w, w0; try discriminate; reflexivity.
  - destruct w, w0; try discriminate; reflexivity.
  - destruct m, m0; cbn in H; try discriminate.
    + apply Bool.eqb_prop in H. congruence.
    + apply andb_prop in H. destruct H as [H1 H2]. apply String.eqb_eq in H1. apply String.eqb_eq in H2. congruence.
Qed.

(** [X] sits in [code] at address [pc] *)
Definition code_at_b (code : list Instruction) (pc : N) (X : list Instruction) : bool :=
  list_eqb instr_eqb (firstn (List.length X) (skipn (N.to_nat pc) code)) X.

Lemma list_eqb_instr a b : list_eqb instr_eqb a b = true -> a = b.
Proof.
  revert b; induction a as [|x a IH]; intros [|y b] H; cbn in H; try discriminate; auto.
  apply andb_prop in H. destruct H as [H1 H2]. apply instr_eqb_eq in H1. apply IH in H2. congruence.
Qed.

Lemma nth_firstn_some {A} n : forall (l : list A) k i, nth_error (firstn n l) k = Some i -> nth_error l k = Some i.
Proof.
  induction n as [|n IH]; intros l k i H; cbn [firstn] in H.
  - destruct k; discriminate.
  - destruct l as [|x l]; [destruct k; discriminate|]. destruct k as [|k]; cbn in *; auto.
Qed.
Lemma nth_skipn {A} n : forall (l : list A) k, nth_error (skipn n l) k = nth_error l (n + k).
Proof.
  induction n as [|n IH]; intros l k; cbn [skipn Nat.add]; auto.
  destruct l as [|x l]; [destruct k; reflexivity|]. cbn [nth_error]. apply IH.
Qed.

Lemma code_at_b_sound m pc X : code_at_b (progmem m) pc X = true -> at_pc m pc X.
Proof.
  unfold code_at_b. intros H. apply list_eqb_instr in H. intros k i Hk.
  rewrite <- H in Hk. apply nth_firstn_some in Hk. rewrite nth_skipn in Hk. exact Hk.
Qed.

(** ** The machine of a compiled policy *)
Definition sdef_of (x : ident * list (ident * TypeKind)) : StructDef := mkStructDef (fst x) (map field_of (snd x)).
Definition all_structs (p : policy) : list (ident * list (ident * TypeKind)) :=
  (p_structs p ++ p_effects p ++ map (fun c => (cmd_name c, cmd_fields c)) (p_cmds p)
   ++ map (fun f => (fd_name f, (fd_keys f ++ fd_vals f)%list)) (p_facts p))%list.

Fixpoint lit_const (p : policy) (l : lit) : ConstValue :=
  match l with
  | LUnit => CV_Unit
  | LInt z => CV_Int z
  | LStr s => CV_String s
  | LBool b => CV_Bool b
  | LEnum e v => CV_Enum e (match enum_value p e v with Some i => i | None => 0%Z end)
  | LNone => CV_Option None
  | LSome l => CV_Option (Some (lit_const p l))
  | LOk l => CV_Result (ROk (lit_const p l))
  | LErr l => CV_Result (RErr (lit_const p l))
  end.

Definition machine_of (p : policy) (is_debug : bool) : Machine :=
  let '(code, labels) := compile_direct p is_debug in
  mkMachine code labels [] [] [] (map sdef_of (all_structs p)) [] None
            (amap_of_list (map (fun gl => (fst gl, lit_const p (snd gl))) (p_globals p))).

Lemma find_app {A} (f : A -> bool) l1 l2 :
  find f (l1 ++ l2) = match find f l1 with Some x => Some x | None => find f l2 end.
Proof. induction l1 as [|x l1 IH]; cbn; auto. destruct (f x); auto. Qed.

Lemma find_sdef n l :
  find (fun d => String.eqb (StructDef_name d) n) (map sdef_of l) = option_map (fun fs => sdef_of (n, fs)) (assoc n l).
Proof.
  induction l as [|[k fs] l IH]; cbn [map find assoc]; auto. cbn [sdef_of fst StructDef_name].
  rewrite String.eqb_sym. destruct (String.eqb n k) eqn:E; auto.
  apply String.eqb_eq in E. subst. reflexivity.
Qed.

Lemma assoc_app {A} n (l1 l2 : list (ident * A)) :
  assoc n (l1 ++ l2) = match assoc n l1 with Some x => Some x | None => assoc n l2 end.
Proof. induction l1 as [|[k v] l1 IH]; cbn; auto. destruct (String.eqb n k); auto. Qed.

Lemma assoc_map_find {A B} (name : A -> ident) (g : A -> B) n l :
  assoc n (map (fun c => (name c, g c)) l) = option_map g (find (fun c => String.eqb (name c) n) l).
Proof.
  induction l as [|c l IH]; cbn; auto. rewrite String.eqb_sym. destruct (String.eqb (name c) n); auto.
Qed.

Lemma machine_struct_defs p is_debug n :
  struct_def (machine_of p is_debug) n
  = option_map (fun fs => mkStructDef n (map field_of fs)) (struct_fields_of p n).
Proof.
  unfold struct_def, machine_of. destruct (compile_direct p is_debug) as [code labels]. cbn [struct_defs].
  unfold automap_get. rewrite find_sdef. unfold all_structs, struct_fields_of.
  rewrite !assoc_app, !assoc_map_find.
  destruct (assoc n (p_structs p)); [reflexivity|].
  destruct (assoc n (p_effects p)); [reflexivity|].
  destruct (find (fun c => String.eqb (cmd_name c) n) (p_cmds p)); [reflexivity|].
  destruct (find (fun f => String.eqb (fd_name f) n) (p_facts p)); reflexivity.
Qed.

(** ** Globals *)
Lemma amap_get_insert {V} x k (v : V) m :
  amap_get x (amap_insert k v m) = if String.eqb x k then Some v else amap_get x m.
Proof.
  induction m as [|[k' v'] r IH]; cbn [amap_insert amap_get].
  - reflexivity.
  - destruct (String.compare k k') eqn:E; cbn [amap_get].
    + apply String.compare_eq_iff in E. subst k'. destruct (String.eqb x k); reflexivity.
    + reflexivity.
    + rewrite IH. destruct (String.eqb x k') eqn:E1; [|reflexivity].
      destruct (String.eqb x k) eqn:E2; [|reflexivity].
      apply String.eqb_eq in E1. apply String.eqb_eq in E2. subst.
      pose proof (String.compare_antisym k' k') as A. rewrite E in A. discriminate.
Qed.

(** the binding [amap_of_list] keeps for a key: the last one *)
Fixpoint last_binding {V} (x : ident) (l : list (ident * V)) (acc : option V) : option V :=
  match l with
  | [] => acc
  | (k, v) :: r => last_binding x r (if String.eqb x k then Some v else acc)
  end.
Lemma amap_get_fold {V} x (l : list (ident * V)) : forall m,
  amap_get x (fold_left (fun m kv => amap_insert (fst kv) (snd kv) m) l m) = last_binding x l (amap_get x m).
Proof.
  induction l as [|[k v] l IH]; intros m; cbn [fold_left last_binding fst snd]; auto.
  rewrite IH, amap_get_insert. reflexivity.
Qed.
Lemma last_binding_map {V W} (f : V -> W) x (l : list (ident * V)) : forall acc,
  option_map f (last_binding x l acc) = last_binding x (map (fun kv => (fst kv, f (snd kv))) l) (option_map f acc).
Proof.
  induction l as [|[k v] l IH]; intros acc; cbn [last_binding map fst snd]; auto.
  rewrite IH. destruct (String.eqb x k); reflexivity.
Qed.

Lemma lit_const_value p l v : lit_value p l = Some v -> const_to_value (lit_const p l) = v.
Proof.
  revert v; induction l; intros v H; cbn [lit_value lit_const const_to_value] in *; try (inversion H; reflexivity).
  - destruct (enum_value p enum variant); cbn in H; inversion H; reflexivity.
  - destruct (lit_value p l) as [x|]; cbn in H; inversion H. rewrite (IHl x eq_refl). reflexivity.
  - destruct (lit_value p l) as [x|]; cbn in H; inversion H. rewrite (IHl x eq_refl). reflexivity.
  - destruct (lit_value p l) as [x|]; cbn in H; inversion H. rewrite (IHl x eq_refl). reflexivity.
Qed.

(** every global initialiser denotes a value *)
Definition globals_ok (p : policy) : bool :=
  forallb (fun gl => match lit_value p (snd gl) with Some _ => true | None => false end) (p_globals p).

Lemma machine_globals p is_debug x : globals_ok p = true ->
  option_map const_to_value (amap_get x (globals (machine_of p is_debug))) = amap_get x (globals_of p).
Proof.
  intros Hok. unfold machine_of. destruct (compile_direct p is_debug) as [code labels]. cbn [globals].
  unfold globals_of, amap_of_list. rewrite !amap_get_fold. cbn [amap_get].
  rewrite last_binding_map. cbn [option_map]. f_equal.
  unfold globals_ok in Hok. induction (p_globals p) as [|[k l] r IH]; cbn [map fold_right forallb fst snd] in *; auto.
  apply andb_prop in Hok. destruct Hok as [Hl Hr].
  destruct (lit_value p l) as [v|] eqn:E; [|discriminate].
  rewrite (lit_const_value p l v E). f_equal. apply IH. exact Hr.
Qed.

(** ** The layout check *)
Definition layout_check (p : policy) (is_debug : bool) : bool :=
  let m := machine_of p is_debug in
  let la := label_addr (labels m) in
  (len (progmem m) <=? usize_max)
  && forallb (fun i => match i with I_FactCount l => (l <=? i64_max)%Z | _ => true end) (progmem m)
  && forallb (fun d =>
       match find (fun d' => String.eqb (fn_name d') (fn_name d)) (p_funs p) with
       | Some d' => code_at_b (progmem m) (la (fun_label (fn_name d)))
                              (d_function p is_debug la (la (fun_label (fn_name d))) d')
                    && fr_stmts (fn_body d')
       | None => true
       end) (p_funs p)
  && forallb (fun d =>
       match find (fun d' => String.eqb (ff_name d') (ff_name d)) (p_finfuns p) with
       | Some d' => code_at_b (progmem m) (la (fun_label (ff_name d)))
                              (d_finish_function p is_debug la (la (fun_label (ff_name d))) d')
                    && fr_stmts (ff_body d')
       | None => true
       end) (p_finfuns p).

Lemma find_name_in {A} (name : A -> ident) l f d :
  find (fun d' => String.eqb (name d') f) l = Some d -> In d l /\ name d = f.
Proof.
  intros H. apply find_some in H. destruct H as [Hin He]. apply String.eqb_eq in He. auto.
Qed.

Lemma layout_check_sound p is_debug : layout_check p is_debug = true ->
  let m := machine_of p is_debug in
  let la := label_addr (labels m) in
  len (progmem m) <= usize_max
  /\ Forall instr_repr (progmem m)
  /\ (forall f d, find (fun d => String.eqb (fn_name d) f) (p_funs p) = Some d ->
        at_pc m (la (fun_label f)) (d_function p is_debug la (la (fun_label f)) d) /\ fr_stmts (fn_body d) = true)
  /\ (forall f d, find (fun d => String.eqb (ff_name d) f) (p_finfuns p) = Some d ->
        at_pc m (la (fun_label f)) (d_finish_function p is_debug la (la (fun_label f)) d) /\ fr_stmts (ff_body d) = true).
Proof.
  intros H m la. unfold layout_check in H. fold m in H. fold la in H.
  apply andb_prop in H. destruct H as [H H3]. apply andb_prop in H. destruct H as [H H2].
  apply andb_prop in H. destruct H as [H1 H0].
  split; [lia|]. split.
  { rewrite Forall_forall. rewrite forallb_forall in H0. intros i Hi. specialize (H0 i Hi).
    destruct i; cbn; auto. lia. }
  split.
  - intros f d Hf. destruct (find_name_in fn_name _ _ _ Hf) as [Hin Hn]. subst f.
    rewrite forallb_forall in H2. specialize (H2 d Hin). rewrite Hf in H2.
    apply andb_prop in H2. destruct H2 as [Hc Hfr]. split; [apply code_at_b_sound; exact Hc|exact Hfr].
  - intros f d Hf. destruct (find_name_in ff_name _ _ _ Hf) as [Hin Hn]. subst f.
    rewrite forallb_forall in H3. specialize (H3 d Hin). rewrite Hf in H3.
    apply andb_prop in H3. destruct H3 as [Hc Hfr]. split; [apply code_at_b_sound; exact Hc|exact Hfr].
Qed.

(** * C22: the compiled function computes what the reference semantics defines *)
Definition compile_correct_stmt : Prop :=
  forall (St : Type) (dbg : bool) (lio : lang_io St) (p : policy) (is_debug : bool),
    layout_check p is_debug = true -> globals_ok p = true ->
    let m := machine_of p is_debug in
    compile_correct_fun_stmt dbg lio p is_debug m (label_addr (labels m)).

Lemma compile_correct_proof : compile_correct_stmt.
Proof.
  intros St dbg lio p is_debug Hl Hg m.
  destruct (layout_check_sound p is_debug Hl) as (Hlen & Hrep & Hf & Hff). fold m in Hlen, Hrep, Hf, Hff.
  assert (Hcm : codemap m = None) by (unfold m, machine_of; destruct (compile_direct p is_debug); reflexivity).
  assert (Hgl : forall x, option_map const_to_value (amap_get x (globals m)) = amap_get x (globals_of p))
    by (intros x; apply machine_globals; exact Hg).
  assert (Hsd : forall n, struct_def m n = option_map (fun fs => mkStructDef n (map field_of fs)) (struct_fields_of p n))
    by (intros n; apply machine_struct_defs).
  apply compile_correct_fun_proof; auto.
Qed.

(** Non-vacuity: a concrete two-function policy (calls, match with bindings, if, check, return,
    blocks, struct literals) satisfies the side conditions, and its entry function returns a value. *)
Local Open Scope string_scope.
Definition ex_policy : policy :=
  (mkPolicy [("E0", ["A"; "B"; "C"]); ("E1", ["X"; "Y"])] [("S0", [("a", TK_Int); ("b", TK_Bool)]); ("S0r", [("b", TK_Bool); ("a", TK_Int)]); ("T0", [("a", TK_Int)]); ("S1", [("o", (TK_Optional TK_Int)); ("s", (TK_Struct "S0")); ("e", (TK_Enum "E0")); ("t", TK_String)])] [] [] [] [(mkFun "f0" [("p1", (TK_Optional TK_Bool))] TK_String (SCons (SLet "v2" (EStr "ab")) (SCons (SReturn (EMatch (EIf (EBool true) (EBlock (SCons (SLet "v3" (EWrap W_Some (EStruct "S0" (FCons "a" (EInt (1)%Z) (FCons "b" (EBool true) FNil))))) SNil) (EWrap W_Some (EInt (7)%Z))) (EBlock (SCons (SLet "v4" ENone) SNil) (EWrap W_Some (EInt (-2)%Z)))) (EACons (PVals [(PBind W_Some "m5")]) (EMatch ENone (EACons (PVals [(PLit LNone)]) (EStr "a") (EACons (PVals [(PBind W_Some "m6")]) (EVar "v2") EANil))) (EACons PDefault (EStr "") EANil)))) SNil))); (mkFun "main" [("p7", TK_Id); ("p8", (TK_Result TK_Bool TK_Bool))] (TK_Optional (TK_Struct "S0")) (SCons (SMatch (ECall "f0" (ECons ENone ENil)) (SACons (PVals [(PLit (LStr "a")); (PLit (LStr " "))]) (SCons (SCheck (EBool false) (EReturn (EWrap W_Some (EStruct "S0" (FCons "a" (EInt (1)%Z) (FCons "b" (EBool false) FNil)))))) SNil) (SACons PDefault (SCons (SReturn (EIf (EBool true) (EBlock SNil ENone) (EBlock SNil ENone))) SNil) SANil))) (SCons (SReturn (EBlock (SCons (SLet "v10" (EIf (EBool true) (EBlock (SCons (SLet "v9" (EStruct "S1" (FCons "o" (EWrap W_Some (EInt (1)%Z)) (FCons "s" (EStruct "S0" (FCons "a" (EInt (-9223372036854775807)%Z) (FCons "b" (EBool true) FNil))) (FCons "e" (EEnum "E0" "A") (FCons "t" (EStr "x_y") FNil)))))) SNil) (EInt (2)%Z)) (EBlock SNil (EInt (9223372036854775806)%Z)))) (SCons (SLet "v11" (EWrap W_Ok (EBool false))) SNil)) (EWrap W_Some (EStruct "S0" (FCons "a" (EVar "v10") (FCons "b" (EBool true) FNil)))))) SNil)))] [] [] [] []).
Definition ex_args : list Value := [(V_Id 0%N); (V_Result (ROk (V_Bool true)))].
Example compile_correct_example :
  layout_check ex_policy true = true /\ globals_ok ex_policy = true
  /\ exists w', Lang.call_fun logio ex_policy true 20 "main" ex_args (world0 0 [] (action_ctx "main"))
                = OVal (V_Option (Some (V_Struct (mkStruct "S0" [("a", V_Int 1%Z); ("b", V_Bool false)])))) w'.
Proof. split; [vm_compute; reflexivity|]. split; [vm_compute; reflexivity|]. eexists. vm_compute. reflexivity. Qed.

(** * C23: untaken operands and branches are never evaluated *)
Definition untaken_not_executed_stmt : Prop :=
  forall (St : Type) (dbg : bool) (lio : lang_io St) (p : policy) (is_debug : bool),
    layout_check p is_debug = true -> globals_ok p = true ->
    let m := machine_of p is_debug in
    forall (n : nat) (cs : list N) (outer : scope_t) (base : list Value) (qi : list (Fact * list query_item)) (has_sp : bool),
      untaken_frame_stmt dbg lio p is_debug m (label_addr (labels m)) n cs outer base qi has_sp.

Lemma untaken_not_executed_proof : untaken_not_executed_stmt.
Proof.
  intros St dbg lio p is_debug Hl Hg m n cs outer base qi has_sp.
  destruct (layout_check_sound p is_debug Hl) as (Hlen & Hrep & Hf & Hff). fold m in Hlen, Hrep, Hf, Hff.
  assert (Hcm : codemap m = None) by (unfold m, machine_of; destruct (compile_direct p is_debug); reflexivity).
  assert (Hgl : forall x, option_map const_to_value (amap_get x (globals m)) = amap_get x (globals_of p))
    by (intros x; apply machine_globals; exact Hg).
  assert (Hsd : forall n, struct_def m n = option_map (fun fs => mkStructDef n (map field_of fs)) (struct_fields_of p n))
    by (intros k; apply machine_struct_defs).
  apply untaken_frame_proof; auto.
Qed.

(** Non-vacuity of C23: [false && todo()] - the hypotheses of the first clause hold at pc 2 of the
    compiled function, whose call returns [false] although the right operand would panic. *)
Definition ex23_policy : policy :=
  mkPolicy [] [] [] [] [] [mkFun "main" [] TK_Bool (SCons (SReturn (EAnd (EBool false) ETodo)) SNil)] [] [] [] [].
Example untaken_example :
  layout_check ex23_policy true = true /\ globals_ok ex23_policy = true
  /\ fr_expr (EBool false) = true
  /\ at_pc (machine_of ex23_policy true) 2
           (d_expr ex23_policy true (label_addr (labels (machine_of ex23_policy true))) "" false 2 (EAnd (EBool false) ETodo))
  /\ (forall w : world lst,
        eval_expr logio ex23_policy true (call_fun logio ex23_policy true 3) (call_fin logio ex23_policy true 3)
                  (@no_recall lst) ER_Normal [ [] ] w (EBool false) = OVal (V_Bool false) w)
  /\ (forall w : world lst, call_fun logio ex23_policy true 3 "main" [] w = OVal (V_Bool false) w).
Proof.
  split; [vm_compute; reflexivity|]. split; [reflexivity|]. split; [reflexivity|].
  split; [apply code_at_b_sound; vm_compute; reflexivity|]. split; intros w; reflexivity.
Qed.

(** * C24: policies the compiler accepts do not go wrong *)

(** the machine errors an accepted policy must never produce *)
Definition going_wrong (e : MachineErrorType) : bool :=
  match e with
  | ME_InvalidType _ _ _ | ME_UnresolvedTarget _ | ME_InvalidAddress _ | ME_StackUnderflow
  | ME_NotDefined _ | ME_AlreadyDefined _ | ME_InvalidStructMember _ | ME_InvalidSchema _
  | ME_BadState _ | ME_CallStack | ME_InvalidInstruction | ME_Bug _ => true
  | _ => false
  end.
(** the I/O oracle reports only its own kind of error *)
Definition oracle_errors_ok {St} (lio : lang_io St) : Prop :=
  forall s mid pid args ctx e, snd (lio_ffi lio s mid pid args ctx) = RErr e -> going_wrong e = false.

(** how a run may end: normally, with a failed check, a policy panic, a yield - or with an
    error that is not one of the "going wrong" errors *)
Definition ends_safely {St} (r : RunResult St) : Prop :=
  match r with
  | RunExited _ _ => True
  | RunErrored e _ => going_wrong (err_type e) = false
  | RunPanic _ | RunOutOfFuel _ => False
  end.

(** The full statement: for every accepted policy, every entry point, well-typed arguments and any
    I/O answers.  [check_function_like] is the acceptance test of [Typing.v] for the entry function. *)
Definition accepted_is_safe_full_stmt : Prop :=
  forall (St : Type) (dbg : bool) (lio : lang_io St) (p : policy) (is_debug : bool),
    compile p is_debug <> RErr E_Bug -> (exists out, compile p is_debug = ROk out) ->
    oracle_errors_ok lio ->
    let m := machine_of p is_debug in
    forall (f : ident) (vs : list Value) (w : world St),
      len vs <= STACK_SIZE ->
      (exists d, find (fun d => String.eqb (fn_name d) f) (p_funs p) = Some d
                 /\ List.length vs = List.length (fn_params d)
                 /\ Forall2 (fun v pt => fits_type v (snd pt) = true) vs (fn_params d)) ->
      runs_to dbg lio p m (entry_state (label_addr (labels m)) f vs w) ends_safely.

(** What is proved: the run ends safely whenever the reference semantics is defined on the call
    (its result is not [OWrong]); what the full statement needs in addition is type soundness of
    [Typing.v] with respect to [Lang.v]: accepted and well-typed arguments => never [OWrong]. *)
Definition accepted_is_safe_partial_stmt : Prop :=
  forall (St : Type) (dbg : bool) (lio : lang_io St) (p : policy) (is_debug : bool),
    layout_check p is_debug = true -> globals_ok p = true ->
    let m := machine_of p is_debug in
    forall (n : nat) (f : ident) (vs : list Value) (w : world St),
      len vs <= STACK_SIZE ->
      Lang.call_fun lio p is_debug n f vs w <> OWrong ->
      Lang.call_fun lio p is_debug n f vs w <> OFuel ->
      runs_to dbg lio p m (entry_state (label_addr (labels m)) f vs w)
        (fun r => ends_safely r
                  (* ... or the error the I/O oracle answered with is passed through *)
                  \/ exists e w' e' s', Lang.call_fun lio p is_debug n f vs w = OErr e w'
                                        /\ r = RunErrored e' s' /\ err_type e' = e).

Lemma accepted_is_safe_partial_proof : accepted_is_safe_partial_stmt.
Proof.
  intros St dbg lio p is_debug Hl Hg m n f vs w Hvs Hnw Hnf.
  pose proof (compile_correct_proof St dbg lio p is_debug Hl Hg n f vs w Hvs) as H. cbv zeta in H. fold m in H.
  destruct (Lang.call_fun lio p is_debug n f vs w) as [v w'|v w'|r w'|e w'| |] eqn:E; try contradiction; try congruence.
  - destruct H as [[k Hk]|[k Hk]]; exists k; intros j; left.
    + destruct (Hk j) as (s' & -> & _). exact Logic.I.
    + destruct (Hk j) as (e' & s' & -> & He). cbn. rewrite He. reflexivity.
  - destruct H as [[k Hk]|[k Hk]]; exists k; intros j; left.
    + destruct (Hk j) as (s' & -> & _). exact Logic.I.
    + destruct (Hk j) as (e' & s' & -> & He). cbn. rewrite He. reflexivity.
  - destruct H as [[k Hk]|[k Hk]]; exists k; intros j.
    + right. destruct (Hk j) as (e' & s' & -> & He & _). exists e, w', e', s'. auto.
    + left. destruct (Hk j) as (e' & s' & -> & He). cbn. rewrite He. reflexivity.
Qed.
