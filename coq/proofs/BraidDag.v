(** Facts about the command graph of [Dag.v] used by the braid proofs:
    lookup / ids, max_cut monotonicity, the ancestor relation and its
    executable version, children. *)
From Aranya Require Import base.Tactics model.Dag.

Lemma mem_In i l : mem i l = true <-> In i l.
Proof.
  unfold mem. rewrite existsb_exists. split.
  - intros [x [H E]]. apply N.eqb_eq in E. subst; auto.
  - intros H. exists i. split; auto. apply N.eqb_refl.
Qed.

Lemma mem_false i l : mem i l = false <-> ~ In i l.
Proof. rewrite <- mem_In. destruct (mem i l); split; congruence. Qed.

Lemma wf_graphb_spec g : wf_graphb g = true -> wf_graph g.
Proof.
  induction g as [|c r IH]; cbn; auto. intros H.
  apply andb_true_iff in H as [H H3]. apply andb_true_iff in H as [H1 H2].
  split; [auto|split].
  - apply negb_true_iff in H2. apply mem_false in H2. auto.
  - intros p Hp. rewrite forallb_forall in H3. apply mem_In. auto.
Qed.

Lemma wf_tail c r : wf_graph (c :: r) -> wf_graph r.
Proof. cbn; tauto. Qed.

Lemma lookup_In g i c : lookup g i = Some c -> In c g /\ cid c = i.
Proof.
  induction g as [|x r IH]; cbn; [discriminate|].
  destruct (cid x =? i)%N eqn:E.
  - intros H; inv H. apply N.eqb_eq in E. auto.
  - intros H. destruct (IH H); auto.
Qed.

Lemma lookup_ids g i c : lookup g i = Some c -> In i (ids g).
Proof. intros H. destruct (lookup_In _ _ _ H) as [H1 H2]. subst. unfold ids. apply in_map; auto. Qed.

Lemma ids_lookup g i : In i (ids g) -> exists c, lookup g i = Some c.
Proof.
  induction g as [|x r IH]; cbn; [tauto|].
  intros [H|H]; destruct (cid x =? i)%N eqn:E; eauto.
  apply N.eqb_neq in E. congruence.
Qed.

Lemma lookup_none g i : ~ In i (ids g) -> lookup g i = None.
Proof.
  intros H. destruct (lookup g i) eqn:E; auto. apply lookup_ids in E. tauto.
Qed.

Lemma wf_nodup g : wf_graph g -> NoDup (ids g).
Proof.
  induction g as [|c r IH]; cbn; [constructor|]. intros [H1 [H2 _]]. constructor; auto.
Qed.

Lemma lookup_self g c : wf_graph g -> In c g -> lookup g (cid c) = Some c.
Proof.
  induction g as [|x r IH]; cbn; [tauto|]. intros [H1 [H2 H3]] [H|H].
  - subst. rewrite N.eqb_refl. auto.
  - destruct (cid x =? cid c)%N eqn:E; auto.
    apply N.eqb_eq in E. exfalso. apply H2. rewrite E. unfold ids. apply in_map; auto.
Qed.

Lemma lookup_cons_other c r i : cid c <> i -> lookup (c :: r) i = lookup r i.
Proof. intros H. cbn. apply N.eqb_neq in H. rewrite H. auto. Qed.

Lemma max_cut_cons_other c r i : cid c <> i -> max_cut (c :: r) i = max_cut r i.
Proof. intros H. cbn. apply N.eqb_neq in H. rewrite H. auto. Qed.

(** Parents exist and are strictly below. *)
Lemma parent_in_ids g p i : wf_graph g -> parent_of g p i -> In p (ids g) /\ In i (ids g).
Proof.
  induction g as [|c r IH]; intros Hwf [c' [Hl Hp]]; [discriminate|].
  cbn in Hl. destruct (cid c =? i)%N eqn:E.
  - inv Hl. apply N.eqb_eq in E. destruct Hwf as [_ [_ H3]]. cbn. split; auto.
  - destruct Hwf as [H1 _]. destruct (IH H1) as [A B]; [exists c'; auto|]. cbn; auto.
Qed.

Lemma max_cut_parent g p i : wf_graph g -> parent_of g p i -> (max_cut g p < max_cut g i)%N.
Proof.
  induction g as [|c r IH]; intros Hwf [c' [Hl Hp]]; [discriminate|].
  pose proof Hwf as [H1 [H2 H3]].
  cbn in Hl. destruct (cid c =? i)%N eqn:E.
  - inv Hl. apply N.eqb_eq in E.
    assert (Hpr : In p (ids r)) by auto.
    assert (Hne : cid c' <> p) by (intros E'; apply H2; rewrite E'; auto).
    rewrite (max_cut_cons_other _ _ _ Hne). subst i. cbn [max_cut]. rewrite N.eqb_refl.
    unfold parents in Hp. destruct (cpar c') as [|q|a b]; cbn in Hp.
    + tauto.
    + destruct Hp as [->|[]]. lia.
    + destruct Hp as [->|[->|[]]]; lia.
  - apply N.eqb_neq in E.
    assert (Hpo : parent_of r p i) by (exists c'; auto).
    destruct (parent_in_ids _ _ _ H1 Hpo) as [A B].
    assert (Hne : cid c <> p) by (intros E'; apply H2; rewrite E'; auto).
    rewrite (max_cut_cons_other _ _ _ Hne), (max_cut_cons_other _ _ _ E). auto.
Qed.

Lemma max_cut_lt_length g : wf_graph g -> forall i, In i (ids g) -> (max_cut g i < N.of_nat (length g))%N.
Proof.
  induction g as [|c r IH]; intros Hwf i Hi; [destruct Hi|].
  pose proof Hwf as [H1 [H2 H3]].
  cbn [length]. destruct (N.eq_dec (cid c) i) as [E|E].
  - subst i. cbn [max_cut]. rewrite N.eqb_refl.
    destruct (cpar c) as [|q|a b] eqn:Ep; unfold parents in H3; rewrite Ep in H3.
    + lia.
    + specialize (IH H1 q (H3 q (or_introl eq_refl))). lia.
    + pose proof (IH H1 a (H3 a (or_introl eq_refl))).
      pose proof (IH H1 b (H3 b (or_intror (or_introl eq_refl)))). lia.
  - rewrite (max_cut_cons_other _ _ _ E). destruct Hi as [Hi|Hi]; [congruence|].
    specialize (IH H1 i Hi). lia.
Qed.

(** * Ancestors *)

Lemma anc_in g a b : wf_graph g -> anc g a b -> In a (ids g) /\ In b (ids g).
Proof.
  intros Hwf H. induction H as [i Hi|a p i Hp Ha [IH1 IH2]]; auto.
  split; auto. apply (parent_in_ids g p i); auto.
Qed.

Lemma anc_trans g a b c : anc g a b -> anc g b c -> anc g a c.
Proof.
  intros Hab Hbc. induction Hbc as [i Hi|b p i Hp Hb IH]; auto.
  eapply anc_step; eauto.
Qed.

Lemma anc_parent g p i : wf_graph g -> parent_of g p i -> anc g p i.
Proof.
  intros Hwf H. eapply anc_step; eauto. apply anc_refl. apply (parent_in_ids g p i); auto.
Qed.

Lemma anc_max_cut g a b : wf_graph g -> anc g a b -> (max_cut g a <= max_cut g b)%N.
Proof.
  intros Hwf H. induction H as [i Hi|a p i Hp Ha IH]; [lia|].
  pose proof (max_cut_parent g p i Hwf Hp). lia.
Qed.

Lemma anc_inv g a b : anc g a b -> a = b \/ exists p, parent_of g p b /\ anc g a p.
Proof. intros H. inversion H; subst; eauto. Qed.

Lemma anc_max_cut_lt g a b : wf_graph g -> anc g a b -> a <> b -> (max_cut g a < max_cut g b)%N.
Proof.
  intros Hwf H Hne. destruct (anc_inv _ _ _ H) as [E|[p [Hp Ha]]]; [congruence|].
  pose proof (max_cut_parent g p b Hwf Hp). pose proof (anc_max_cut g a p Hwf Ha). lia.
Qed.

Lemma anc_antisym g a b : wf_graph g -> anc g a b -> anc g b a -> a = b.
Proof.
  intros Hwf H1 H2. destruct (N.eq_dec a b) as [E|E]; auto.
  pose proof (anc_max_cut_lt g a b Hwf H1 E).
  pose proof (anc_max_cut g b a Hwf H2). lia.
Qed.

Lemma anc_same_cut g a b : wf_graph g -> anc g a b -> max_cut g a = max_cut g b -> a = b.
Proof.
  intros Hwf H E. destruct (N.eq_dec a b) as [E'|E']; auto.
  pose proof (anc_max_cut_lt g a b Hwf H E'). lia.
Qed.

(** The first step of a path, seen from the ancestor's side. *)
Lemma anc_first_step g a b : wf_graph g -> anc g a b -> a = b \/ exists c, parent_of g a c /\ anc g c b.
Proof.
  intros Hwf H. induction H as [i Hi|a p i Hp Ha IH]; auto.
  right. destruct IH as [->|[c [Hc Hcb]]].
  - exists i. split; auto. apply anc_refl. apply (parent_in_ids g p i); auto.
  - exists c. split; auto. eapply anc_step; eauto.
Qed.

(** * Executable ancestry *)

Lemma existsb_ext_in {A} (f h : A -> bool) l : (forall x, In x l -> f x = h x) -> existsb f l = existsb h l.
Proof.
  induction l as [|x l IH]; cbn; auto. intros H. rewrite H, IH; auto.
Qed.

Lemma lookup_cons_wf c r i c' : wf_graph (c :: r) -> lookup r i = Some c' -> lookup (c :: r) i = Some c'.
Proof.
  intros [H1 [H2 H3]] H. rewrite lookup_cons_other; auto. intros E. apply lookup_ids in H. subst. auto.
Qed.

Lemma parent_of_cons c r p i : wf_graph (c :: r) -> parent_of r p i -> parent_of (c :: r) p i.
Proof. intros Hwf [c' [Hl Hp]]. exists c'. split; auto. apply lookup_cons_wf; auto. Qed.

Lemma anc_cons c r a b : wf_graph (c :: r) -> anc r a b -> anc (c :: r) a b.
Proof.
  intros Hwf H. induction H as [i Hi|a p i Hp Ha IH].
  - apply anc_refl. cbn; auto.
  - eapply anc_step; eauto. apply parent_of_cons; auto.
Qed.

Lemma parent_of_cons_inv c r p i : wf_graph (c :: r) -> parent_of (c :: r) p i ->
  (i = cid c /\ In p (parents c)) \/ (i <> cid c /\ parent_of r p i).
Proof.
  intros Hwf [c' [Hl Hp]]. cbn in Hl. destruct (cid c =? i)%N eqn:E.
  - inv Hl. apply N.eqb_eq in E. auto.
  - apply N.eqb_neq in E. right. split; auto. exists c'. auto.
Qed.

Lemma anc_cons_inv c r a b : wf_graph (c :: r) -> anc (c :: r) a b -> b <> cid c -> anc r a b.
Proof.
  intros Hwf H. induction H as [i Hi|a p i Hp Ha IH]; intros Hne.
  - apply anc_refl. destruct Hi; congruence.
  - destruct (parent_of_cons_inv _ _ _ _ Hwf Hp) as [[E _]|[_ Hp']]; [congruence|].
    eapply anc_step; eauto. apply IH.
    destruct Hwf as [H1 [H2 _]]. intros ->. apply H2. apply (parent_in_ids r (cid c) i); auto.
Qed.

Lemma ancb_spec g : wf_graph g -> forall a b, ancb g a b = true <-> anc g a b.
Proof.
  induction g as [|c r IH]; intros Hwf a b.
  - cbn. split; [discriminate|]. intros H. apply (anc_in _ _ _ Hwf) in H. destruct H as [[] _].
  - pose proof Hwf as [H1 [H2 H3]]. cbn [ancb]. destruct (cid c =? b)%N eqn:E.
    + apply N.eqb_eq in E. subst b. rewrite orb_true_iff, existsb_exists. split.
      * intros [Hab|[p [Hp Hap]]].
        -- apply N.eqb_eq in Hab. subst. apply anc_refl. cbn; auto.
        -- eapply anc_step.
           ++ exists c. split; [cbn; rewrite N.eqb_refl; reflexivity|exact Hp].
           ++ apply anc_cons; auto. apply IH; auto.
      * intros H. destruct (anc_inv _ _ _ H) as [->|[p [Hp Hap]]].
        -- left. apply N.eqb_refl.
        -- right. destruct (parent_of_cons_inv _ _ _ _ Hwf Hp) as [[_ Hp']|[Hne _]]; [|congruence].
           exists p. split; auto. apply IH; auto. apply (anc_cons_inv c r); auto.
           intros ->. apply H2. auto.
    + apply N.eqb_neq in E. rewrite IH by auto. split.
      * apply anc_cons; auto.
      * intros H. apply (anc_cons_inv c r); auto.
Qed.

Lemma anc_dec g : wf_graph g -> forall a b, {anc g a b} + {~ anc g a b}.
Proof.
  intros Hwf a b. destruct (ancb g a b) eqn:E.
  - left. apply ancb_spec; auto.
  - right. intros H. apply (ancb_spec g Hwf) in H. congruence.
Qed.

(** * Children *)

Lemma children_spec g x c : wf_graph g -> In c (children g x) <-> parent_of g x c.
Proof.
  intros Hwf. unfold children. rewrite in_map_iff. split.
  - intros [c' [E H]]. apply filter_In in H as [H1 H2]. apply mem_In in H2.
    exists c'. subst c. split; auto. apply lookup_self; auto.
  - intros [c' [Hl Hp]]. destruct (lookup_In _ _ _ Hl) as [H1 H2].
    exists c'. split; auto. apply filter_In. split; auto. apply mem_In; auto.
Qed.

(** Children of a command occur before it in the (newest first) list. *)
Lemma child_in_prefix pre c post x : wf_graph (pre ++ c :: post) ->
  parent_of (pre ++ c :: post) (cid c) x -> In x (ids pre).
Proof.
  induction pre as [|y pre IH]; intros Hwf Hp.
  - cbn [app] in *. exfalso.
    destruct (parent_of_cons_inv _ _ _ _ Hwf Hp) as [[E Hin]|[Hne Hp']].
    + destruct Hwf as [_ [H2 H3]]. apply H2. auto.
    + destruct Hwf as [H1 [H2 _]]. apply H2. apply (parent_in_ids post (cid c) x); auto.
  - cbn [app] in *. destruct (parent_of_cons_inv _ _ _ _ Hwf Hp) as [[E Hin]|[Hne Hp']].
    + cbn. auto.
    + cbn. right. apply IH; auto. eapply wf_tail; eauto.
Qed.

(** * Well-founded induction along max_cut, upwards (towards the heads). *)
Lemma up_induction g (P : N -> Prop) : wf_graph g ->
  (forall x, In x (ids g) -> (forall c, parent_of g x c -> P c) -> P x) ->
  forall x, In x (ids g) -> P x.
Proof.
  intros Hwf Hstep.
  assert (H : forall n x, In x (ids g) -> (N.of_nat (length g) - max_cut g x <= N.of_nat n)%N -> P x).
  { induction n as [|n IH]; intros x Hx Hm.
    - pose proof (max_cut_lt_length g Hwf x Hx). lia.
    - apply Hstep; auto. intros c Hc.
      pose proof (max_cut_parent g x c Hwf Hc).
      destruct (parent_in_ids g x c Hwf Hc) as [_ Hcin].
      pose proof (max_cut_lt_length g Hwf c Hcin).
      apply IH; auto. lia. }
  intros x Hx. apply (H (length g)); auto. lia.
Qed.

(** Downwards (towards the root). *)
Lemma down_induction g (P : N -> Prop) : wf_graph g ->
  (forall x, In x (ids g) -> (forall p, parent_of g p x -> P p) -> P x) ->
  forall x, In x (ids g) -> P x.
Proof.
  intros Hwf Hstep.
  assert (H : forall n x, In x (ids g) -> (max_cut g x <= N.of_nat n)%N -> P x).
  { induction n as [|n IH]; intros x Hx Hm.
    - apply Hstep; auto. intros p Hp. pose proof (max_cut_parent g p x Hwf Hp). lia.
    - apply Hstep; auto. intros p Hp.
      pose proof (max_cut_parent g p x Hwf Hp).
      destruct (parent_in_ids g p x Hwf Hp) as [Hpin _].
      apply IH; auto. lia. }
  intros x Hx. apply (H (length g)); auto.
  pose proof (max_cut_lt_length g Hwf x Hx). lia.
Qed.

(** * A single root *)
Definition single_root (g : graph) : Prop :=
  forall c1 c2, In c1 g -> In c2 g -> cpar c1 = PNone -> cpar c2 = PNone -> cid c1 = cid c2.

Definition is_root (g : graph) (x : N) : Prop := exists c, lookup g x = Some c /\ cpar c = PNone.

Lemma root_anc_all g : wf_graph g -> single_root g -> forall r, is_root g r -> forall x, In x (ids g) -> anc g r x.
Proof.
  intros Hwf Hsr r [cr [Hlr Hr]]. apply (down_induction g (fun x => anc g r x) Hwf).
  intros x Hx IH. destruct (ids_lookup _ _ Hx) as [c Hl].
  destruct (cpar c) as [|p|a b] eqn:Ep.
  - destruct (lookup_In _ _ _ Hl) as [Hc1 Hc2]. destruct (lookup_In _ _ _ Hlr) as [Hr1 Hr2].
    assert (E : cid cr = cid c) by (apply Hsr; auto). rewrite Hr2, Hc2 in E. rewrite E. apply anc_refl; auto.
  - assert (Hp : parent_of g p x) by (exists c; split; auto; unfold parents; rewrite Ep; cbn; auto).
    eapply anc_step; eauto.
  - assert (Hp : parent_of g a x) by (exists c; split; auto; unfold parents; rewrite Ep; cbn; auto).
    eapply anc_step; eauto.
Qed.

Lemma nodup_app {T} (l1 l2 : list T) : NoDup l1 -> NoDup l2 -> (forall x, In x l1 -> In x l2 -> False) -> NoDup (l1 ++ l2).
Proof.
  induction l1 as [|x l1 IH]; cbn; auto. intros H1 H2 H. inv H1. constructor.
  - intros Hin. apply in_app_or in Hin as [Hin|Hin]; [auto|]. apply (H x); auto.
  - apply IH; auto. intros y Hy1 Hy2. apply (H y); auto.
Qed.
