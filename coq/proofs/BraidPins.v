(** Lemmas pinned against the definitions regenerated from /repo's source
    (coq/gen/GenBraid.v): if the priority order, a block size or the shape of
    a transcribed branch changes, these stop compiling. *)
From Coq Require Import String.
From Aranya Require Import base.Tactics model.Dag model.Braid gen.GenBraid proofs.BraidIterProofs.
Open Scope string_scope.

Definition prio_name (p : prio) : string :=
  match p with PMerge => "Merge" | PBasic _ => "Basic" | PFinalize => "Finalize" | PInit => "Init" end.

(** The rank used by the model's key order is the declaration index of the
    variant, i.e. the derived [Ord] of [Priority]. *)
Definition priority_order_generated_stmt : Prop :=
  priority_derives_ord = true
  /\ length priority_variants = 4
  /\ forall p, nth_error priority_variants (N.to_nat (fst (prio_rank p))) = Some (prio_name p).

Lemma priority_order_generated_proof : priority_order_generated_stmt.
Proof. split; [reflexivity|split; [reflexivity|]]. intros []; reflexivity. Qed.

Definition braid_shapes_generated_stmt : Prop :=
  strand_key_is_priority_id = true /\ strand_ord_reversed = true /\ strand_heap_is_binary_heap = true
  /\ cutoff_is_le_lca = true /\ heads_seeded_through_convergence = true /\ merge_skipped_by_prior = true
  /\ lone_is_len_one = true /\ second_finalize_refused = true
  /\ bfs_inserts_count_ge_2 = true /\ bfs_cutoff_is_le_lca = true /\ consume_decrements_above_one = true
  /\ disk_block_searched_before_install = true /\ lru_is_first_strictly_lowest = true.

Lemma braid_shapes_generated_proof : braid_shapes_generated_stmt.
Proof. repeat split; reflexivity. Qed.

(** The spill theorem at the block size the code uses today. *)
Definition braid_iter_rev_generated_stmt : Prop :=
  forall xs : list N,
    br_iter (N.to_nat braid_block_entries) (fold_left (br_push (N.to_nat braid_block_entries)) xs br_empty) = rev xs.

Lemma braid_iter_rev_generated_proof : braid_iter_rev_generated_stmt.
Proof.
  intros xs. apply braid_iter_rev_proof.
  assert (H : (1 <=? N.to_nat braid_block_entries)%nat = true) by (vm_compute; reflexivity).
  apply Nat.leb_le in H. exact H.
Qed.
