(** The CAS-only fallback mutex ([cas_mutex] / no futex): exclusion and progress. *)
From Aranya Require Import base.Tactics base.Interleave gen.GenConc model.Mutex.
Open Scope N_scope.

Record CInv (g : cstate) : Prop := {
  c_key : ckey (sh g) = 0 \/ ckey (sh g) = 1;
  c_free : ckey (sh g) = 0 -> forall t l, at_ g t l -> choldingb (cpc_of l) = false;
  c_held : ckey (sh g) <> 0 -> exists t l, at_ g t l /\ choldingb (cpc_of l) = true;
  c_excl : forall t1 l1 t2 l2, at_ g t1 l1 -> at_ g t2 l2 ->
           choldingb (cpc_of l1) = true -> choldingb (cpc_of l2) = true -> t1 = t2
}.

Lemma CInv_init ns : CInv (cinit ns).
Proof.
  assert (H : forall t l, at_ (cinit ns) t l -> choldingb (cpc_of l) = false).
  { unfold at_, cinit. cbn [th]. intros t l H. apply nth_error_In in H. apply in_map_iff in H.
    destruct H as (n & <- & _). destruct n; reflexivity. }
  constructor; cbn [sh cinit ckey]; auto.
  - intros E. exfalso. apply E. reflexivity.
  - intros t1 l1 t2 l2 H1 _ Hh. rewrite (H _ _ H1) in Hh. discriminate.
Qed.

Lemma cstep_preserves g e g' : CInv g -> gstep (fun t : nat => t) cstep e g = Some g' -> CInv g'.
Proof.
  intros HI Hs. apply gstep_inv in Hs. destruct Hs as (l & l' & Hat & Hst & Hth).
  pose proof (at_after cshared clocal nat (fun t : nat => t) e g g' l l' Hat Hth) as Hafter. cbv beta in *.
  destruct HI as [K1 K2 K3 K4].
  assert (Hfun : forall x, at_ g e x -> x = l) by (unfold at_ in *; intros; congruence).
  remember (sh g') as s' eqn:Es'.
  unfold cstep in Hst. change mutex_unlocked with 0 in *. change mutex_locked with 1 in *.
  assert (Hcases :
    (* the step keeps the word and the thread's holding status *)
    (ckey s' = ckey (sh g) /\ choldingb (cpc_of l') = choldingb (cpc_of l))
    (* acquisition *)
    \/ (ckey (sh g) = 0 /\ ckey s' = 1 /\ choldingb (cpc_of l') = true)
    (* release *)
    \/ (choldingb (cpc_of l) = true /\ ckey s' = 0 /\ choldingb (cpc_of l') = false)).
  { destruct (cpc_of l) eqn:Hpc.
    - destruct (N.eqb_spec (ckey (sh g)) 0); inv Hst; cbn; auto. left. rewrite Hpc. auto.
    - inv Hst. left. auto.
    - inv Hst. left. auto.
    - inv Hst. right. right. cbn. destruct (citers l); auto.
    - discriminate. }
  clear Hst.
  assert (Hgoal : forall k', k' = ckey s' ->
     (k' = 0 \/ k' = 1)
     /\ (k' = 0 -> forall t x, at_ g' t x -> choldingb (cpc_of x) = false)
     /\ (k' <> 0 -> exists t x, at_ g' t x /\ choldingb (cpc_of x) = true)
     /\ (forall t1 l1 t2 l2, at_ g' t1 l1 -> at_ g' t2 l2 ->
           choldingb (cpc_of l1) = true -> choldingb (cpc_of l2) = true -> t1 = t2)).
  { intros k' ->. destruct Hcases as [[Hk Hh]|[(Hk0 & Hk1 & Hh)|(Hh0 & Hk0 & Hh)]].
    - rewrite Hk. split; auto. split; [|split].
      + intros E t x H. apply Hafter in H. destruct H as [[-> ->]|[Hne H]]; [rewrite Hh|]; eauto.
      + intros E. destruct (K3 E) as (u & x & Hx & Hhx). destruct (Nat.eq_dec u e) as [->|Hne].
        * rewrite (Hfun _ Hx) in Hhx. exists e, l'. split; [apply Hafter; auto|congruence].
        * exists u, x. split; auto. apply Hafter. auto.
      + intros t1 l1 t2 l2 H1 H2 Hh1 Hh2. apply Hafter in H1. apply Hafter in H2.
        destruct H1 as [[-> ->]|[N1 H1]], H2 as [[-> ->]|[N2 H2]]; auto.
        * rewrite Hh in Hh1. eapply K4; eauto.
        * rewrite Hh in Hh2. eapply K4; eauto.
        * eapply K4; eauto.
    - rewrite Hk1. split; auto. split; [intros; lia|]. split.
      + intros _. exists e, l'. split; auto. apply Hafter. auto.
      + intros t1 l1 t2 l2 H1 H2 Hh1 Hh2. apply Hafter in H1. apply Hafter in H2.
        destruct H1 as [[-> ->]|[N1 H1]], H2 as [[-> ->]|[N2 H2]]; auto.
        * rewrite (K2 Hk0 _ _ H2) in Hh2. discriminate.
        * rewrite (K2 Hk0 _ _ H1) in Hh1. discriminate.
        * rewrite (K2 Hk0 _ _ H1) in Hh1. discriminate.
    - rewrite Hk0. split; auto. split; [|split; [intros E; congruence|]].
      + intros _ t x H. apply Hafter in H. destruct H as [[-> ->]|[Hne H]]; auto.
        destruct (choldingb (cpc_of x)) eqn:E; auto. exfalso. apply Hne. eapply K4; eauto.
      + intros t1 l1 t2 l2 H1 H2 Hh1 Hh2. apply Hafter in H1. apply Hafter in H2.
        destruct H1 as [[-> ->]|[N1 H1]], H2 as [[-> ->]|[N2 H2]]; auto; try congruence.
        eapply K4; eauto. }
  destruct (Hgoal _ eq_refl) as (A & B & C & D). rewrite Es' in *. constructor; auto.
Qed.

Theorem CInv_run ns sched : CInv (crun sched (cinit ns)).
Proof.
  unfold crun. apply invariant_run with (Inv := CInv).
  - apply CInv_init.
  - intros g e g' HI Hs. eapply cstep_preserves; eauto.
Qed.

(** Exclusion, and the word is non-zero exactly while somebody holds; every
    unfinished thread can always take a step (it spins), and when the lock is
    taken its holder exists and is never blocked. *)
Definition cas_mutex_exclusive_stmt : Prop :=
  forall (ns : list nat) (sched : list nat),
  let g := crun sched (cinit ns) in
  (forall t1 l1 t2 l2, at_ g t1 l1 -> at_ g t2 l2 ->
     choldingb (cpc_of l1) = true -> choldingb (cpc_of l2) = true -> t1 = t2)
  /\ (ckey (sh g) = 0 <-> forall t l, at_ g t l -> choldingb (cpc_of l) = false)
  /\ (forall t l, at_ g t l -> cpc_of l <> CDone -> enabled (fun t : nat => t) cstep t g = true).
Lemma cas_mutex_exclusive_proof : cas_mutex_exclusive_stmt.
Proof.
  intros ns sched g. pose proof (CInv_run ns sched) as HI. fold g in HI. split; [apply (c_excl _ HI)|]. split.
  - split; [apply (c_free _ HI)|]. intros H. destruct (N.eq_dec (ckey (sh g)) 0) as [E|E]; auto.
    destruct (c_held _ HI E) as (t & l & Hat & Hh). rewrite (H _ _ Hat) in Hh. discriminate.
  - intros t l Hat Hp. unfold enabled, gstep. unfold at_ in Hat. rewrite Hat. unfold cstep.
    destruct (cpc_of l); try congruence; auto. destruct (ckey (sh g) =? mutex_unlocked); auto.
Qed.
