(** The peer-cache invariant over every history of [add_command] calls and
    graph growth. *)
From Aranya Require Import base.Tactics gen.GenQueue model.TravQueue model.SegStore model.PeerCache
  proofs.TravQueueSpec proofs.TravQueueProofs proofs.SegStoreGraph proofs.SegStoreSearch proofs.SegStoreWrite proofs.SegStoreTop.

Lemma peer_head_max_pin : PEER_HEAD_MAX = 10%N.
Proof. reflexivity. Qed.

(** committed graphs store every command once *)
Definition ids_unique (st : store) : Prop :=
  forall l l' i, id_at st l = Some i -> id_at st l' = Some i -> l = l'.

Definition replica_ok (st : store) (hs : heads) : Prop :=
  store_ok st /\ heads_ok st hs /\ ids_unique st.

(** no entry is an ancestor-or-equal of another one *)
Inductive antichain (st : store) : peer_cache -> Prop :=
| ac_nil : antichain st []
| ac_cons e r : antichain st r ->
    (forall x, In x r -> ~ reach st (snd e) (snd x) /\ ~ reach st (snd x) (snd e)) ->
    antichain st (e :: r).

(** every entry is a committed command recorded with its true location *)
Definition committed (st : store) (hs : heads) (e : N * loc) : Prop :=
  from_heads st hs (snd e) /\ id_at st (snd e) = Some (fst e).

Definition cache_inv (st : store) (hs : heads) (pc : peer_cache) : Prop :=
  (N.of_nat (length pc) <= PEER_HEAD_MAX)%N
  /\ (forall e, In e pc -> committed st hs e)
  /\ antichain st pc.

Lemma antichain_in st pc a b :
  antichain st pc -> In a pc -> In b pc -> reach st (snd a) (snd b) -> a = b.
Proof.
  induction 1 as [|e r Hr IH Hc]; intros Ha Hb Hreach; [destruct Ha|].
  destruct Ha as [<-|Ha], Hb as [<-|Hb]; auto.
  - exfalso. destruct (Hc b Hb) as [H1 H2]. auto.
  - exfalso. destruct (Hc a Ha) as [H1 H2]. auto.
Qed.

Lemma antichain_filter st f pc : antichain st pc -> antichain st (filter f pc).
Proof.
  induction 1 as [|e r Hr IH Hc]; cbn [filter]; [constructor|].
  destruct (f e); auto. constructor; auto. intros x Hx. apply Hc. apply filter_In in Hx. tauto.
Qed.

Lemma antichain_snoc st pc n :
  antichain st pc ->
  (forall x, In x pc -> ~ reach st (snd n) (snd x) /\ ~ reach st (snd x) (snd n)) ->
  antichain st (pc ++ [n]).
Proof.
  induction 1 as [|e r Hr IH Hc]; intro Hn; cbn [app].
  - constructor; [constructor|intros x []].
  - constructor.
    + apply IH. intros x Hx. apply Hn. right; auto.
    + intros x Hx. apply in_app_or in Hx as [Hx|[<-|[]]]; auto.
      destruct (Hn e (or_introl eq_refl)). tauto.
Qed.

Section Step.
Variables (st : store) (hs : heads).
Hypothesis Hrep : replica_ok st hs.
Let Hok : store_ok st := proj1 Hrep.
Let Hheads : heads_ok st hs := proj1 (proj2 Hrep).
Let Huniq : ids_unique st := proj2 (proj2 Hrep).

Lemma reach_antisym a b : valid st a -> reach st a b -> reach st b a -> a = b.
Proof.
  intros Hv H1 H2. destruct (loc_eqb a b) eqn:E; [now apply loc_eqb_eq|]. exfalso.
  assert (Hne : a <> b) by (intro H; apply loc_eqb_eq in H; congruence).
  destruct (reach_valid st Hok a b H1 Hv) as (Hvb & _ & Hlt).
  destruct (reach_valid st Hok b a H2 Hvb) as (_ & Hle & _). specialize (Hlt Hne). lia.
Qed.

Lemma committed_valid e : committed st hs e -> valid st (snd e).
Proof. intros [_ H]. apply valid_id_at. eauto. Qed.

Variable l : loc.
Variable id : N.
Hypothesis Hl_from : from_heads st hs l.
Hypothesis Hl_id : id_at st l = Some id.
Let new : N * loc := (id, l).
Let Hvl : valid st l.
Proof. apply valid_id_at. eauto. Qed.

(** the new address is an ancestor-or-equal of the entry *)
Definition below_entry (old : N * loc) : Prop := reach st (snd old) l.
(** the entry is a proper ancestor of the new address *)
Definition above_entry (old : N * loc) : Prop := reach st l (snd old) /\ snd old <> l.

Lemma retain_head_spec old add :
  committed st hs old ->
  exists keep add', retain_head st new old add = (keep, add')
    /\ (keep = false <-> above_entry old)
    /\ (add' = false <-> (add = false \/ below_entry old)).
Proof.
  intro Hc. pose proof (committed_valid old Hc) as Hvo. destruct Hc as [_ Hio].
  unfold retain_head. cbn [fst snd new].
  destruct (N.eqb_spec (fst old) id) as [Heq|Hne].
  - assert (snd old = l) by (apply (Huniq _ _ id); congruence).
    exists true, false. split; [reflexivity|]. split.
    + split; [discriminate|]. intros [_ H']. congruence.
    + split; auto. intros _. right. unfold below_entry. rewrite H. constructor.
  - assert (Hnl : snd old <> l) by (intro H; apply Hne; rewrite H in Hio; congruence).
    destruct (is_ancestor_exact_here st Hok l (snd old) Hvo) as (b1 & -> & Hb1).
    destruct b1.
    + assert (Hbe : below_entry old) by (apply Hb1; auto).
      exists true, false. split; [reflexivity|]. split.
      * split; [discriminate|]. intros [Hr _]. exfalso. apply Hnl. apply reach_antisym; auto.
      * split; auto.
    + destruct (is_ancestor_exact_here st Hok (snd old) l Hvl) as (b2 & -> & Hb2).
      assert (Hnb : ~ below_entry old).
      { intro Hb. assert (false = true) as H0; [|discriminate]. apply Hb1. split; auto. }
      destruct b2.
      * assert (Hab : above_entry old) by (apply Hb2; auto).
        exists false, add. split; [reflexivity|]. split.
        -- split; auto.
        -- split; [intros ->; left; auto|]. intros [->|Hb]; auto. contradiction.
      * exists true, add. split; [reflexivity|]. split.
        -- split; [discriminate|]. intros Ha. assert (false = true) as H0; [|discriminate]. apply Hb2. exact Ha.
        -- split; [intros ->; left; auto|]. intros [->|Hb]; auto. contradiction.
Qed.

Lemma retain_spec : forall pc add,
  (forall e, In e pc -> committed st hs e) ->
  exists f, (forall e, In e pc -> (f e = false <-> above_entry e))
    /\ fst (retain st new pc add) = filter f pc
    /\ (snd (retain st new pc add) = false <-> (add = false \/ exists e, In e pc /\ below_entry e)).
Proof.
  induction pc as [|old r IH]; intros add Hc.
  - exists (fun _ => true). cbn [retain fst snd filter]. split; [intros e []|]. split; [reflexivity|].
    split; [intros ->; left; reflexivity|]. intros [H|(e & [] & _)]. exact H.
  - cbn [retain].
    destruct (retain_head_spec old add (Hc old (or_introl eq_refl))) as (keep & add1 & Hh & Hk & Ha1).
    rewrite Hh. destruct (IH add1 (fun e He => Hc e (or_intror He))) as (f & Hf & Hfst & Hsnd).
    destruct (retain st new r add1) as [k add2]. cbn [fst snd] in *.
    (* decide [above_entry old] through [keep] *)
    exists (fun e => if loc_eqb (snd e) (snd old) && (fst e =? fst old)%N then keep else f e).
    assert (Hsame : forall e, loc_eqb (snd e) (snd old) && (fst e =? fst old)%N = true <-> e = old).
    { intro e. rewrite andb_true_iff, loc_eqb_eq, N.eqb_eq. destruct e, old; cbn. split; [intros [-> ->]; auto|intro H; inv H; auto]. }
    split; [|split].
    + intros e He. destruct (loc_eqb (snd e) (snd old) && (fst e =? fst old)%N) eqn:E.
      * apply Hsame in E. subst e. exact Hk.
      * destruct He as [<-|He]; [|auto]. rewrite (proj2 (Hsame old) eq_refl) in E. discriminate.
    + cbn [filter]. rewrite (proj2 (Hsame old) eq_refl).
      assert (Hr : filter (fun e => if loc_eqb (snd e) (snd old) && (fst e =? fst old)%N then keep else f e) r = filter f r).
      { apply filter_ext_in. intros e He.
        destruct (loc_eqb (snd e) (snd old) && (fst e =? fst old)%N) eqn:E; auto.
        apply Hsame in E. subst e. destruct keep, (f old) eqn:Ef; auto.
        - exfalso. assert (above_entry old) by (apply (Hf old He); auto). assert (true = false) by (apply Hk; auto). discriminate.
        - exfalso. assert (above_entry old) by (apply Hk; auto). assert (f old = false) by (apply (Hf old He); auto). congruence. }
      rewrite Hr, Hfst. destruct keep; reflexivity.
    + rewrite Hsnd, Ha1. split.
      * intros [[H|H]|(e & He & Hb)]; auto; right; [exists old|exists e]; split; auto; [left|right]; auto.
      * intros [H|(e & [<-|He] & Hb)]; auto. right. exists e. auto.
Qed.

End Step.

(** * One call *)
Definition add_command_spec (st : store) (hs : heads) (pc : peer_cache) (id mc : N) (pc' : peer_cache) : Prop :=
  (* not committed locally (unknown id, or a stale max cut): ignored *)
  ((forall l, from_heads st hs l -> ~ holds st l id mc) /\ pc' = pc)
  \/ exists l, from_heads st hs l /\ holds st l id mc /\
     (   (* equal to, or an ancestor of, an existing entry: ignored *)
         ((exists e, In e pc /\ reach st (snd e) l) /\ pc' = pc)
      \/ (* otherwise: exactly the entries that are proper ancestors of it are removed, and it is
            appended when there is room (a full cache drops it) *)
         ((forall e, In e pc -> ~ reach st (snd e) l) /\
          exists f, (forall e, In e pc -> (f e = false <-> (reach st l (snd e) /\ snd e <> l)))
            /\ pc' = filter f pc ++ (if (N.of_nat (length (filter f pc)) <? PEER_HEAD_MAX)%N then [(id, l)] else []))).

Definition add_command_correct_stmt : Prop :=
  forall st hs pc id mc,
    replica_ok st hs -> cache_inv st hs pc ->
    exists pc', add_command st hs pc id mc = ROk pc'
      /\ add_command_spec st hs pc id mc pc'
      /\ cache_inv st hs pc'.

Lemma add_command_correct_proof : add_command_correct_stmt.
Proof.
  intros st hs pc id mc Hrep (Hlen & Hcom & Hanti). pose proof Hrep as (Hok & Hheads & Huniq).
  unfold add_command.
  destruct (get_location_exact_here st Hok hs id mc Hheads) as (r & -> & Hspec). cbn [rbind].
  destruct r as [l|].
  2:{ exists pc. split; [reflexivity|]. split; [left; split; [exact Hspec|reflexivity]|].
      split; [exact Hlen|split; assumption]. }
  destruct Hspec as [Hfrom [Hmc Hid]].
  assert (Hnew : {| lmc := mc; lseg := lseg l |} = l) by (rewrite <- Hmc; apply loc_eta).
  rewrite Hnew.
  destruct (retain_spec st hs Hrep l id Hid pc true Hcom) as (f & Hf & Hfst & Hsnd).
  destruct (retain st (id, l) pc true) as [kept add]. cbn [fst snd] in *.
  assert (Hvl : valid st l) by (apply valid_id_at; eauto).
  destruct add.
  - (* nothing is at or below: the ancestors go, the new entry is appended when there is room *)
    assert (Hnone : forall e, In e pc -> ~ reach st (snd e) l).
    { intros e He Hr. assert (true = false) as H0; [|discriminate]. apply Hsnd. right. exists e. auto. }
    subst kept. eexists. split; [reflexivity|]. split.
    + right. exists l. split; auto. split; [split; auto|]. right. split; auto.
      exists f. split; auto.
      destruct (N.of_nat (length (filter f pc)) <? PEER_HEAD_MAX)%N; auto. now rewrite app_nil_r.
    + assert (Hsub : forall e, In e (filter f pc) -> In e pc) by (intros e He; apply filter_In in He; tauto).
      assert (Hlenf : length (filter f pc) <= length pc).
      { clear. induction pc as [|x r IH]; cbn; auto. destruct (f x); cbn; lia. }
      destruct (N.ltb_spec (N.of_nat (length (filter f pc))) PEER_HEAD_MAX).
      * split; [|split].
        -- rewrite app_length. cbn. lia.
        -- intros e He. apply in_app_or in He as [He|[<-|[]]]; auto. split; auto.
        -- apply antichain_snoc; [now apply antichain_filter|].
           intros x Hx. cbn [snd]. split.
           ++ intro Hr. apply filter_In in Hx as [Hx Hfx].
              destruct (loc_eqb (snd x) l) eqn:E.
              ** apply loc_eqb_eq in E. apply (Hnone x Hx). rewrite E. constructor.
              ** assert (f x = false); [|congruence]. apply Hf; auto. split; auto.
                 intro H'. apply loc_eqb_eq in H'. congruence.
           ++ apply Hnone. auto.
      * split; [lia|]. split; [intros e He; auto|now apply antichain_filter].
  - (* the address is at or below an entry: no-op *)
    assert (Hex : exists e, In e pc /\ reach st (snd e) l).
    { destruct (proj1 Hsnd eq_refl) as [H|H]; [discriminate|exact H]. }
    assert (kept = pc) as ->.
    { subst kept. apply filter_all. intros x Hx. destruct (f x) eqn:Efx; auto. exfalso.
      destruct (proj1 (Hf x Hx) Efx) as [Hr Hne]. destruct Hex as (e & He & Hre).
      assert (e = x).
      { apply (antichain_in st pc e x Hanti He Hx). apply (reach_trans st (snd e) l (snd x)); auto. }
      subst e. apply Hne. symmetry. apply (reach_antisym st hs Hrep l (snd x)); auto. }
    exists pc. split; [reflexivity|]. split; [|split; [exact Hlen|split; assumption]].
    right. exists l. split; [exact Hfrom|]. split; [split; assumption|]. left. split; [exact Hex|reflexivity].
Qed.

(** * Histories: calls and growth of the replica *)
(** The replica may change between calls as long as committed commands stay
    committed at the same locations with the same ancestry (append-only
    storage; heads only move forward). *)
Definition stable (st : store) (hs : heads) (st' : store) (hs' : heads) : Prop :=
  (forall l, from_heads st hs l -> from_heads st' hs' l)
  /\ (forall l i, id_at st l = Some i -> id_at st' l = Some i)
  /\ (forall a b, valid st a -> valid st b -> (reach st a b <-> reach st' a b)).

Inductive cache_hist : store -> heads -> peer_cache -> Prop :=
| ch_new st hs : replica_ok st hs -> cache_hist st hs []
| ch_add st hs pc id mc pc' :
    cache_hist st hs pc -> add_command st hs pc id mc = ROk pc' -> cache_hist st hs pc'
| ch_grow st hs pc st' hs' :
    cache_hist st hs pc -> replica_ok st' hs' -> stable st hs st' hs' -> cache_hist st' hs' pc.

Definition peercache_inv_stmt : Prop :=
  forall st hs pc, cache_hist st hs pc -> replica_ok st hs /\ cache_inv st hs pc.

Lemma antichain_stable st st' pc :
  (forall a b, valid st a -> valid st b -> (reach st a b <-> reach st' a b)) ->
  (forall e, In e pc -> valid st (snd e)) ->
  antichain st pc -> antichain st' pc.
Proof.
  intros Hs Hv. induction 1 as [|e r Hr IH Hc]; [constructor|].
  constructor.
  - apply IH. intros x Hx. apply Hv. right; auto.
  - intros x Hx. destruct (Hc x Hx) as [H1 H2].
    assert (valid st (snd e)) by (apply Hv; left; auto).
    assert (valid st (snd x)) by (apply Hv; right; auto).
    split; intro Hr'; [apply H1|apply H2]; apply Hs; auto.
Qed.

Lemma peercache_inv_proof : peercache_inv_stmt.
Proof.
  induction 1 as [st hs Hrep|st hs pc id mc pc' Hh [Hrep Hinv] Hadd|st hs pc st' hs' Hh [Hrep Hinv] Hrep' Hst].
  - split; auto. split; [cbn; rewrite peer_head_max_pin; lia|]. split; [intros e []|constructor].
  - split; auto. destruct (add_command_correct_proof st hs pc id mc Hrep Hinv) as (pc2 & Hadd2 & _ & Hinv2).
    congruence.
  - split; auto. destruct Hinv as (Hlen & Hcom & Hanti). destruct Hst as (S1 & S2 & S3).
    split; [exact Hlen|]. split.
    + intros e He. destruct (Hcom e He) as [H1 H2]. split; [apply S1; auto|apply S2; auto].
    + apply (antichain_stable st st'); auto. intros e He. apply valid_id_at. destruct (Hcom e He) as [_ Hid]. eauto.
Qed.

(** Appending a segment with a fresh index is such a growth step as far as the store goes. *)
Lemma append_stable_store st idx ns :
  store_ok st -> lookup idx st = None ->
  (forall l i, id_at st l = Some i -> id_at (st ++ [(idx, ns)]) l = Some i)
  /\ (forall a b, valid st a -> valid st b -> (reach st a b <-> reach (st ++ [(idx, ns)]) a b)).
Proof.
  intros Hok Hf. split.
  - intros l i H. unfold id_at, get_segment in *. destruct (lookup (lseg l) st) as [s|] eqn:E; [|discriminate].
    now rewrite (lookup_old st idx ns _ _ E).
  - intros a b Ha _. split; intro H.
    + apply reach_old; auto.
    + eapply reach_new_old; eauto.
Qed.

(** Non-vacuity: on the example store of C11 (two heads) the cache follows the rules. *)
Example peercache_example :
  let hs := [(26, L 25 3); (28, L 10 4)]%N in
  add_command ex_st3 hs [] 10 9 = ROk [(10, L 9 2)]%N
  (* 10 is a proper ancestor of 20: replaced *)
  /\ add_command ex_st3 hs [(10, L 9 2)]%N 20 19 = ROk [(20, L 19 3)]%N
  (* 28 is on the other branch: both kept *)
  /\ add_command ex_st3 hs [(20, L 19 3)]%N 28 10 = ROk [(20, L 19 3); (28, L 10 4)]%N
  (* an ancestor of an entry, an unknown id, a stale max cut: ignored *)
  /\ add_command ex_st3 hs [(20, L 19 3); (28, L 10 4)]%N 5 4 = ROk [(20, L 19 3); (28, L 10 4)]%N
  /\ add_command ex_st3 hs [(20, L 19 3); (28, L 10 4)]%N 99 3 = ROk [(20, L 19 3); (28, L 10 4)]%N
  /\ add_command ex_st3 hs [(20, L 19 3); (28, L 10 4)]%N 28 9 = ROk [(20, L 19 3); (28, L 10 4)]%N.
Proof. repeat split; vm_compute; reflexivity. Qed.
