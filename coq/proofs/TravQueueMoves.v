(** The partition moves of [TraversalQueue] on the tagged view of the vector:
    [absq q] lists every entry with its covered flag (index >= partition). *)
From Aranya Require Import base.Tactics model.TravQueue proofs.TravQueueVec.

Arguments Nat.leb : simpl never.
Arguments Nat.ltb : simpl never.
Arguments Nat.eqb : simpl never.

Fixpoint tag_from (k p : nat) (es : list loc) : list (loc * bool) :=
  match es with [] => [] | e :: r => (e, p <=? k) :: tag_from (S k) p r end.
(** Abstraction: the multiset of (location, covered) pairs, as a list. *)
Definition absq (q : queue) : list (loc * bool) := tag_from 0 (part q) (entries q).
(** Representation invariant. *)
Definition rep_ok (q : queue) : Prop := part q <= length (entries q).

Lemma nth_error_tag_from k0 p es k :
  nth_error (tag_from k0 p es) k = option_map (fun e => (e, p <=? k0 + k)) (nth_error es k).
Proof.
  revert k0 k; induction es as [|e es IH]; intros k0 [|k]; cbn [tag_from nth_error option_map]; auto.
  - now rewrite Nat.add_0_r.
  - rewrite IH. now replace (S k0 + k) with (k0 + S k) by lia.
Qed.
Lemma nth_error_tag p es k :
  nth_error (tag_from 0 p es) k = option_map (fun e => (e, p <=? k)) (nth_error es k).
Proof. apply nth_error_tag_from. Qed.
Lemma tag_length k0 p es : length (tag_from k0 p es) = length es.
Proof. revert k0; induction es; intro; cbn; auto. Qed.
Lemma tag_app k0 p a b : tag_from k0 p (a ++ b) = tag_from k0 p a ++ tag_from (k0 + length a) p b.
Proof.
  revert k0; induction a as [|x a IH]; intro k0; cbn [app tag_from length].
  - now rewrite Nat.add_0_r.
  - rewrite IH. now replace (S k0 + length a) with (k0 + S (length a)) by lia.
Qed.
Lemma map_fst_tag k0 p es : map fst (tag_from k0 p es) = es.
Proof. revert k0; induction es; intro; cbn; f_equal; auto. Qed.

Ltac natb :=
  repeat match goal with
  | |- context [?a =? ?b] => destruct (Nat.eqb_spec a b); try subst
  | |- context [?a <=? ?b] => destruct (Nat.leb_spec a b)
  | |- context [?a <? ?b] => destruct (Nat.ltb_spec a b)
  | H : context [?a =? ?b] |- _ => destruct (Nat.eqb_spec a b); try subst
  | H : context [?a <=? ?b] |- _ => destruct (Nat.leb_spec a b)
  | H : context [?a <? ?b] |- _ => destruct (Nat.ltb_spec a b)
  end.

Ltac pwfin :=
  natb; cbn [andb option_map]; try lia;
  repeat match goal with
  | H : nth_error ?l ?k = _ |- context [nth_error ?l ?k] => rewrite H
  | |- context [nth_error ?l ?k] => destruct (nth_error l k) eqn:?
  end; cbn [andb option_map]; try reflexivity; try congruence; try (exfalso; lia).

Lemma swap_comm {A} (l : list A) i j : swap l i j = swap l j i.
Proof.
  destruct (swap l i j) as [l1|] eqn:E1, (swap l j i) as [l2|] eqn:E2.
  - f_equal. apply nth_error_ext; intro k.
    rewrite (nth_error_swap _ _ _ _ k E1), (nth_error_swap _ _ _ _ k E2). natb; auto.
  - apply swap_bounds in E1 as [? ?]. destruct (swap_some l j i) as [? ?]; auto; congruence.
  - apply swap_bounds in E2 as [? ?]. destruct (swap_some l i j) as [? ?]; auto; congruence.
  - reflexivity.
Qed.

(** uncovered entry [i] becomes covered: [partition -= 1; swap(i, partition)]. *)
Lemma move_to_covered p' es i e :
  S p' <= length es -> i <= p' -> nth_error es i = Some e ->
  exists es' rest, swap es i p' = Some es' /\
    Permutation (tag_from 0 (S p') es) ((e, false) :: rest) /\
    Permutation (tag_from 0 p' es') ((e, true) :: rest).
Proof.
  intros Hp Hi He.
  destruct (swap_some es i p') as [es' Hs]; try lia.
  set (zs := tag_from 0 (S p') es).
  destruct (swap_some zs i p') as [zs' Hz]; try (unfold zs; rewrite tag_length; lia).
  exists es', (remove_at p' zs'). split; auto.
  assert (Hz' : nth_error zs' p' = Some (e, false)).
  { rewrite (nth_error_swap _ _ _ _ p' Hz). rewrite Nat.eqb_refl. unfold zs.
    rewrite nth_error_tag, He. cbn [option_map]. natb; auto; lia. }
  split.
  - rewrite (swap_perm _ _ _ _ Hz). apply remove_at_perm; auto.
  - rewrite <- (set_at_perm zs' p' (e, false) (e, true) Hz').
    match goal with |- Permutation ?a ?b => replace a with b; [reflexivity|] end.
    apply nth_error_ext; intro k.
    rewrite nth_error_set_at, nth_error_tag, (nth_error_swap _ _ _ _ k Hs),
      (nth_error_swap _ _ _ _ k Hz), (swap_length _ _ _ _ Hz).
    unfold zs. rewrite tag_length, !nth_error_tag. rewrite ?He. pwfin.
Qed.

(** covered entry [i] becomes uncovered: [swap(i, partition); partition += 1]. *)
Lemma move_to_uncovered p es i e :
  p <= i -> nth_error es i = Some e ->
  exists es' rest, swap es i p = Some es' /\
    Permutation (tag_from 0 p es) ((e, true) :: rest) /\
    Permutation (tag_from 0 (S p) es') ((e, false) :: rest).
Proof.
  intros Hi He. pose proof (nth_error_Some_lt _ _ _ He) as Hlen.
  destruct (swap_some es i p) as [es' Hs]; try lia.
  set (zs := tag_from 0 p es).
  destruct (swap_some zs i p) as [zs' Hz]; try (unfold zs; rewrite tag_length; lia).
  exists es', (remove_at p zs'). split; auto.
  assert (Hz' : nth_error zs' p = Some (e, true)).
  { rewrite (nth_error_swap _ _ _ _ p Hz). rewrite Nat.eqb_refl. unfold zs.
    rewrite nth_error_tag, He. cbn [option_map]. natb; auto; lia. }
  split.
  - rewrite (swap_perm _ _ _ _ Hz). apply remove_at_perm; auto.
  - rewrite <- (set_at_perm zs' p (e, true) (e, false) Hz').
    match goal with |- Permutation ?a ?b => replace a with b; [reflexivity|] end.
    apply nth_error_ext; intro k.
    rewrite nth_error_set_at, nth_error_tag, (nth_error_swap _ _ _ _ k Hs),
      (nth_error_swap _ _ _ _ k Hz), (swap_length _ _ _ _ Hz).
    unfold zs. rewrite tag_length, !nth_error_tag. rewrite ?He. pwfin.
Qed.

Lemma tag_snoc p es l : p <= length es -> tag_from 0 p (es ++ [l]) = tag_from 0 p es ++ [(l, true)].
Proof. intro H. rewrite tag_app. cbn [tag_from]. repeat f_equal. natb; auto; lia. Qed.

Lemma tag_set_at p es i e' : tag_from 0 p (set_at es i e') = set_at (tag_from 0 p es) i (e', p <=? i).
Proof.
  apply nth_error_ext; intro k.
  rewrite nth_error_tag, !nth_error_set_at, tag_length, nth_error_tag. pwfin.
Qed.

(** a swap of two entries on the same side of the partition *)
Lemma tag_swap_same p es es' i j :
  swap es i j = Some es' -> (p <=? i) = (p <=? j) ->
  swap (tag_from 0 p es) i j = Some (tag_from 0 p es').
Proof.
  intros Hs Hside. pose proof (swap_bounds _ _ _ _ Hs) as [Hi Hj].
  destruct (swap_some (tag_from 0 p es) i j) as [zs' Hz]; try (rewrite tag_length; lia).
  rewrite Hz. f_equal. apply nth_error_ext; intro k.
  rewrite (nth_error_swap _ _ _ _ k Hz), !nth_error_tag, (nth_error_swap _ _ _ _ k Hs).
  destruct (Nat.eqb_spec k j); [subst; now rewrite Hside|].
  destruct (Nat.eqb_spec k i); [subst; now rewrite Hside|]. reflexivity.
Qed.

(** [swap_remove] of the last uncovered entry (index [partition-1], after the decrement) *)
Lemma tag_swap_remove_unc p' es es' x :
  S p' <= length es -> swap_remove es p' = Some (x, es') ->
  swap_remove (tag_from 0 (S p') es) p' = Some ((x, false), tag_from 0 p' es').
Proof.
  intros Hp Hs. apply swap_remove_spec in Hs as (Hx & Hi & Hl & Hk).
  destruct (swap_remove_some (tag_from 0 (S p') es) p') as (z & zs' & Hz); try (rewrite tag_length; lia).
  rewrite Hz. apply swap_remove_spec in Hz as (Hz1 & _ & Hzl & Hzk).
  rewrite nth_error_tag, Hx in Hz1. cbn [option_map] in Hz1.
  assert (z = (x, false)) by (revert Hz1; natb; try lia; congruence). subst z.
  do 2 f_equal. apply nth_error_ext; intro k.
  rewrite Hzk, (nth_error_tag p' es'), Hk, tag_length, !nth_error_tag. pwfin.
Qed.

(** [swap_remove] inside the covered region *)
Lemma tag_swap_remove_cov p es es' i x :
  p <= i -> swap_remove es i = Some (x, es') ->
  swap_remove (tag_from 0 p es) i = Some ((x, true), tag_from 0 p es').
Proof.
  intros Hp Hs. apply swap_remove_spec in Hs as (Hx & Hi & Hl & Hk).
  destruct (swap_remove_some (tag_from 0 p es) i) as (z & zs' & Hz); try (rewrite tag_length; lia).
  rewrite Hz. apply swap_remove_spec in Hz as (Hz1 & _ & Hzl & Hzk).
  rewrite nth_error_tag, Hx in Hz1. cbn [option_map] in Hz1.
  assert (z = (x, true)) by (revert Hz1; natb; try lia; congruence). subst z.
  do 2 f_equal. apply nth_error_ext; intro k.
  rewrite Hzk, (nth_error_tag p es'), Hk, tag_length, !nth_error_tag. pwfin.
Qed.
