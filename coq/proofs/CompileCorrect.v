(** The compiled program computes the reference semantics: the callee
    specifications of [CompileSim] established for every call depth, and the
    entry points. *)
From Aranya Require Import base.Tactics model.VmBase gen.GenVm model.Vm model.Lang model.Typing
  model.Compile model.CompileDirect proofs.VmTotal proofs.SimBase proofs.CompileEqns proofs.CompileLayout proofs.CompileSim.
Local Open Scope N_scope.

Section Correct.
  Context {St : Type}.
  Variable dbg : bool.
  Variable lio : lang_io St.
  Variable p : policy.
  Variable is_debug : bool.
  Variable m : Machine.
  Variable la : Label -> N.
  Notation io := (vm_io_of lio p).
  Notation RS := (RunState St).
  Notation S := (@mkRunState St).
  Notation mruno := (SimBase.mruno dbg io m).
  Notation G := (globals_of p).

  Hypothesis Hcm : codemap m = None.
  Hypothesis Hlen : len (progmem m) <= usize_max.
  Hypothesis Hglob : forall x, option_map const_to_value (amap_get x (globals m)) = amap_get x (globals_of p).
  Hypothesis Hsd : forall n, struct_def m n
                             = option_map (fun fs => mkStructDef n (map field_of fs)) (struct_fields_of p n).

  (** the code of every function-like item sits at the address of its label, and is in the fragment *)
  Definition fun_label (f : ident) : Label := mkLabel f LT_Function.
  Hypothesis Hfuns : forall f d, find (fun d => String.eqb (fn_name d) f) (p_funs p) = Some d ->
    at_pc m (la (fun_label f)) (d_function p is_debug la (la (fun_label f)) d) /\ fr_stmts (fn_body d) = true.
  Hypothesis Hfinfuns : forall f d, find (fun d => String.eqb (ff_name d) f) (p_finfuns p) = Some d ->
    at_pc m (la (fun_label f)) (d_finish_function p is_debug la (la (fun_label f)) d) /\ fr_stmts (ff_body d) = true.

  (** parameter definitions: [Def] of the last parameter first, consuming the arguments *)
  Lemma defs_sim (Q : RS -> Prop) xs : forall vs en en' scs sg cs pc ctx qi x,
    (forall sc stk pc', Q (S sc stk cs pc' ctx qi x)) ->
    bind_params G xs vs en = Some en' ->
    at_pc m pc (map I_Def xs) ->
    mruno Q (S (en :: scs) (vs ++ sg) cs pc ctx qi x) (MTo (S (en' :: scs) sg cs (pc + len xs) ctx qi x)).
  Proof.
    induction xs as [|y xs IH]; intros vs en en' scs sg cs pc ctx qi x HQ Hb Hat; cbn [bind_params map] in *.
    - destruct vs; [|discriminate]. inversion Hb; subst. apply mruno_done'. cbn [app]. f_equal. autorewrite with len. lia.
    - destruct vs as [|v vs]; [discriminate|].
      destruct (env_set G y v en) as [en1|] eqn:E; [|discriminate].
      apply at_pc_cons in Hat. destruct Hat as [Hi Hat].
      eapply (s_go dbg io m Hlen); [exact Hi| | |apply HQ|].
      + cbn [Vm.exec app]. vm_unf.
        pose proof (scope_set_env p m Hglob scs y v en en1 E) as Hs.
        match goal with |- context [match ?X with ROk _ => _ | RErr _ => _ end] =>
          assert (Hx : X = ROk (en1 :: scs)) by exact Hs; rewrite Hx end. reflexivity.
      + reflexivity.
      + cbv beta iota delta [set_pc set_stack rs_stack rs_scope rs_pc rs_call_state rs_ctx rs_io rs_query_iters].
        eapply mruno_trans; [eapply (IH vs en1 en' scs sg cs (pc + 1)); eauto|].
        apply mruno_done'. f_equal. autorewrite with len. lia.
  Qed.

  Notation cspec := (call_spec dbg lio p m la).
  Definition push_val (v : Value) (sg : list Value) := v :: sg.
  Definition push_unit (_ : unit) (sg : list Value) := sg.

  Lemma no_recall_spec c : cspec (fun n => Compile.recall_label c n) (@no_recall St) push_unit.
  Proof. intros f vs w scs sg0 cs0 ra qi0 Hra. cbn. exact Logic.I. Qed.

  (** every state of the callee is below the caller's frame *)
  Definition Qd (k : nat) (s : RS) : Prop := (k <= depth s)%nat.

  Lemma call_fun_S n f args w :
    Lang.call_fun lio p is_debug (Datatypes.S n) f args w =
    match find (fun d => String.eqb (fn_name d) f) (p_funs p) with
    | None => OWrong
    | Some d =>
      match fresh_env G (map fst (fn_params d)) args with
      | None => OWrong
      | Some en =>
        match eval_stmts lio p is_debug (Lang.call_fun lio p is_debug n) (Lang.call_fin lio p is_debug n)
                         (@no_recall St) ER_Normal en w (fn_body d) with
        | OVal _ w => OExit ER_Panic w
        | ORet v w => OVal v w
        | OExit r w => OExit r w
        | OErr e w => OErr e w
        | OWrong => OWrong
        | OFuel => OFuel
        end
      end
    end.
  Proof. reflexivity. Qed.
  Lemma call_fin_S n f args w :
    Lang.call_fin lio p is_debug (Datatypes.S n) f args w =
    match find (fun d => String.eqb (ff_name d) f) (p_finfuns p) with
    | None => OWrong
    | Some d =>
      match fresh_env G (map fst (ff_params d)) args with
      | None => OWrong
      | Some en =>
        match eval_stmts lio p is_debug (Lang.call_fun lio p is_debug n) (Lang.call_fin lio p is_debug n)
                         (@no_recall St) ER_Normal en w (ff_body d) with
        | OVal _ w => OVal tt w
        | ORet _ _ => OWrong
        | OExit r w => OExit r w
        | OErr e w => OErr e w
        | OWrong => OWrong
        | OFuel => OFuel
        end
      end
    end.
  Proof. reflexivity. Qed.

  (** the body of a function with a return type, from the state its caller (or the entry point)
      leaves: arguments on the stack, a fresh scope, [csb] the call stack below *)
  Lemma fun_sim n f d vs w scs sg0 csb qi0 en0 :
    cspec fun_label (Lang.call_fun lio p is_debug n) push_val ->
    cspec fun_label (Lang.call_fin lio p is_debug n) push_unit ->
    find (fun d => String.eqb (fn_name d) f) (p_funs p) = Some d ->
    bind_params G (rev (map fst (fn_params d))) (rev vs) [ [] ] = Some en0 ->
    let s := S ([ [] ] :: scs) (rev vs ++ sg0) csb (la (fun_label f)) (w_ctx w) qi0 (w_io w) in
    match eval_stmts lio p is_debug (Lang.call_fun lio p is_debug n) (Lang.call_fin lio p is_debug n)
                     (@no_recall St) ER_Normal en0 w (fn_body d) with
    | OVal _ w' => exists s', mruno (Qd (List.length csb)) s (MExit ER_Panic s') /\ rs_io s' = w_io w' /\ rs_ctx s' = w_ctx w'
    | ORet v w' => exists r, is_ret (len sg0 :: csb) scs sg0 qi0 v w' r /\ mruno (Qd (List.length csb)) s r
    | OExit r w' => exists s', mruno (Qd (List.length csb)) s (MExit r s') /\ rs_io s' = w_io w' /\ rs_ctx s' = w_ctx w'
    | OErr e w' => exists s', mruno (Qd (List.length csb)) s (MErr e s') /\ rs_io s' = w_io w'
    | OWrong | OFuel => True
    end.
  Proof.
    intros IHf IHn Ef Eb. cbv zeta.
        destruct (Hfuns f d Ef) as [Hat Hfr].
        unfold d_function, d_function_like in Hat.
        set (pc0 := la (fun_label f)) in *.
        set (defs := map (fun x : ident * TypeKind => I_Def (fst x)) (rev (fn_params d))) in *.
        assert (Hdefs : defs = map I_Def (rev (map fst (fn_params d)))).
        { subst defs. rewrite <- !map_rev. rewrite map_map. reflexivity. }
        apply at_pc_app in Hat. destruct Hat as [Hat1 Hat].
        apply at_pc_cons in Hat. destruct Hat as [Hsave Hat].
        apply at_pc_app in Hat. destruct Hat as [Hbody Hat].
        apply at_pc_cons in Hat. destruct Hat as [Hexit _].
        autorewrite with len in *.
        set (pb := pc0 + len defs + 1) in *.
        set (csf := len sg0 :: csb).
        (* prologue: parameter definitions, SaveSP *)
        assert (Hpro : forall o,
          mruno (Qd (List.length (csb))) (S (en0 :: scs) sg0 csf pb (w_ctx w) qi0 (w_io w)) o ->
          mruno (Qd (List.length (csb))) (S ([ [] ] :: scs) (rev vs ++ sg0) (csb) pc0 (w_ctx w) qi0 (w_io w)) o).
        { intros o Hk. eapply mruno_trans.
          - eapply (defs_sim _ (rev (map fst (fn_params d))) (rev vs) [ [] ] en0 scs sg0 (csb) pc0); eauto.
            + intros; unfold Qd, depth; cbn [rs_call_state]; lia.
            + rewrite <- Hdefs. exact Hat1.
          - eapply (s_go dbg io m Hlen); [| | | |].
            + cbn [rs_pc]. replace (pc0 + len (rev (map fst (fn_params d)))) with (pc0 + len defs)
                by (rewrite Hdefs; autorewrite with len; reflexivity). exact Hsave.
            + cbn [Vm.exec]. vm_unf. reflexivity.
            + reflexivity.
            + unfold Qd, depth; cbn [rs_call_state]; lia.
            + cbv beta iota delta [set_pc set_stack rs_stack rs_scope rs_pc rs_call_state rs_ctx rs_io rs_query_iters].
              replace (pc0 + len (rev (map fst (fn_params d))) + 1) with pb
                by (subst pb; rewrite Hdefs; autorewrite with len; reflexivity).
              exact Hk. }
        (* the body *)
        pose proof (sim_all dbg lio p is_debug m Hcm Hlen Hglob Hsd la "" false
                            (Lang.call_fun lio p is_debug n) (Lang.call_fin lio p is_debug n) (@no_recall St) ER_Normal
                            csf scs sg0 qi0 true eq_refl IHf IHn (no_recall_spec "")) as Hsim.
        destruct Hsim as (_ & _ & _ & _ & Hss & _).
        specialize (Hss (fn_body d) Hfr pb (pb + sz_stmts p is_debug (fn_body d)) en0 [] pb w).
        unfold st in Hss. cbn [app] in Hss.
        replace (pc0 + len defs + (0 + 1)) with pb in Hbody by (subst pb; lia).
        specialize (Hss Hbody ltac:(lia) ltac:(lia)).
        assert (HQ : forall x, Qr csf true pb (pb + sz_stmts p is_debug (fn_body d)) x -> Qd (List.length (csb)) x).
        { intros x [Hx _]. unfold Qd, slack in *. subst csf. cbn [List.length] in *. lia. }
        destruct (eval_stmts lio p is_debug (Lang.call_fun lio p is_debug n) (Lang.call_fin lio p is_debug n)
                             (@no_recall St) ER_Normal en0 w (fn_body d)) as [en1 w'|v w'|r w'|e w'| |];
          cbn [sim_out] in Hss; cbv beta iota; auto.
        * (* ran off the end: the trailing panic *)
          eexists. split.
          { apply Hpro. eapply mruno_trans; [eapply mruno_weaken; [exact HQ|exact Hss]|].
            eapply (s_exit dbg io m Hlen).
            - cbn [rs_pc]. exact Hexit.
            - cbn [Vm.exec]. vm_unf. reflexivity.
            - unfold Qd, depth; subst csf; cbn [rs_call_state List.length]; lia. }
          split; reflexivity.
        * (* return *)
          destruct (Hss eq_refl eq_refl ltac:(discriminate)) as (r & Hr & Hm).
          exists r. split; [exact Hr|].
          apply Hpro. eapply mruno_weaken; [exact HQ|exact Hm].
        * destruct Hss as (s' & Hm & Hio). exists s'. split; auto.
          apply Hpro. eapply mruno_weaken; [exact HQ|exact Hm].
        * destruct Hss as (s' & Hm & Hio). exists s'. split; auto.
          apply Hpro. eapply mruno_weaken; [exact HQ|exact Hm].
  Qed.

  Lemma callee_specs n :
    cspec fun_label (Lang.call_fun lio p is_debug n) push_val
    /\ cspec fun_label (Lang.call_fin lio p is_debug n) push_unit.
  Proof.
    induction n as [|n [IHf IHn]].
    - split; intros f vs w scs sg0 cs0 ra qi0 Hra; cbn; exact Logic.I.
    - split; intros f vs w scs sg0 cs0 ra qi0 Hra; cbv zeta.
      + (* a function with a return type *)
        rewrite call_fun_S.
        destruct (find (fun d => String.eqb (fn_name d) f) (p_funs p)) as [d|] eqn:Ef; [|exact Logic.I].
        unfold fresh_env.
        destruct (Nat.eqb (List.length (map fst (fn_params d))) (List.length vs)); [|exact Logic.I].
        destruct (bind_params G (rev (map fst (fn_params d))) (rev vs) [ [] ]) as [en0|] eqn:Eb; [|exact Logic.I].
        pose proof (fun_sim n f d vs w scs sg0 (ra :: cs0) qi0 en0 IHf IHn Ef Eb) as Hs. cbv zeta in Hs.
        destruct (eval_stmts lio p is_debug (Lang.call_fun lio p is_debug n) (Lang.call_fin lio p is_debug n)
                             (@no_recall St) ER_Normal en0 w (fn_body d)) as [en1 w'|v w'|r w'|e w'| |]; auto.
        destruct Hs as (r & Hr & Hm). unfold is_ret in Hr. destruct Hr as [_ Hr]. subst r. exact Hm.
      + (* a finish function *)
        rewrite call_fin_S.
        destruct (find (fun d => String.eqb (ff_name d) f) (p_finfuns p)) as [d|] eqn:Ef; [|exact Logic.I].
        destruct (Hfinfuns f d Ef) as [Hat Hfr].
        unfold fresh_env.
        destruct (Nat.eqb (List.length (map fst (ff_params d))) (List.length vs)); [|exact Logic.I].
        destruct (bind_params G (rev (map fst (ff_params d))) (rev vs) [ [] ]) as [en0|] eqn:Eb; [|exact Logic.I].
        unfold d_finish_function, d_function_like in Hat.
        set (pc0 := la (fun_label f)) in *.
        set (defs := map (fun x : ident * TypeKind => I_Def (fst x)) (rev (ff_params d))) in *.
        assert (Hdefs : defs = map I_Def (rev (map fst (ff_params d)))).
        { subst defs. rewrite <- !map_rev. rewrite map_map. reflexivity. }
        rewrite !app_nil_r in Hat. cbn [app] in Hat.
        rewrite <- app_assoc in Hat.
        apply at_pc_app in Hat. destruct Hat as [Hat1 Hat].
        apply at_pc_app in Hat. destruct Hat as [Hbody Hat].
        apply at_pc_cons in Hat. destruct Hat as [Hret _].
        autorewrite with len in *.
        set (pb := pc0 + len defs + 0) in *.
        set (csf := ra :: cs0).
        assert (Hpro : forall o,
          mruno (Qd (List.length (ra :: cs0))) (S (en0 :: scs) sg0 csf pb (w_ctx w) qi0 (w_io w)) o ->
          mruno (Qd (List.length (ra :: cs0))) (S ([ [] ] :: scs) (rev vs ++ sg0) (ra :: cs0) pc0 (w_ctx w) qi0 (w_io w)) o).
        { intros o Hk. eapply mruno_trans.
          - eapply (defs_sim _ (rev (map fst (ff_params d))) (rev vs) [ [] ] en0 scs sg0 (ra :: cs0) pc0); eauto.
            + intros; unfold Qd, depth; cbn [rs_call_state]; lia.
            + rewrite <- Hdefs. exact Hat1.
          - replace (pc0 + len (rev (map fst (ff_params d)))) with pb
              by (subst pb; rewrite Hdefs; autorewrite with len; lia).
            exact Hk. }
        pose proof (sim_all dbg lio p is_debug m Hcm Hlen Hglob Hsd la "" false
                            (Lang.call_fun lio p is_debug n) (Lang.call_fin lio p is_debug n) (@no_recall St) ER_Normal
                            csf scs sg0 qi0 false eq_refl IHf IHn (no_recall_spec "")) as Hsim.
        destruct Hsim as (_ & _ & _ & _ & Hss & _).
        specialize (Hss (ff_body d) Hfr pb (pb + sz_stmts p is_debug (ff_body d) + 1) en0 [] pb w).
        unfold st in Hss. cbn [app] in Hss.
        replace (pc0 + len defs) with pb in Hbody by (subst pb; lia).
        specialize (Hss Hbody ltac:(lia) ltac:(lia)).
        assert (HQ : forall x, Qr csf false pb (pb + sz_stmts p is_debug (ff_body d) + 1) x -> Qd (List.length (ra :: cs0)) x).
        { intros x [Hx _]. unfold Qd, slack in *. subst csf. cbn [List.length] in *. lia. }
        destruct (eval_stmts lio p is_debug (Lang.call_fun lio p is_debug n) (Lang.call_fin lio p is_debug n)
                             (@no_recall St) ER_Normal en0 w (ff_body d)) as [en1 w'|v w'|r w'|e w'| |];
          cbn [sim_out] in Hss; cbv beta iota; auto.
        * (* the statements ran: Return *)
          apply Hpro. eapply mruno_trans; [eapply mruno_weaken; [exact HQ|exact Hss]|].
          assert (Hra' : usize_checked_add ra 1 = Some (ra + 1)).
          { unfold usize_checked_add. destruct (ra + 1 <=? usize_max) eqn:E; [reflexivity|lia]. }
          eapply mruno_step; [| |apply mruno_done].
          -- unfold Qd, depth; subst csf; cbn [rs_call_state List.length]; lia.
          -- subst csf. rewrite (step_at dbg io m Hlen _ I_Return) by (cbn [rs_pc]; replace (pb + sz_stmts p is_debug (ff_body d)) with (pc0 + len defs + sz_stmts p is_debug (ff_body d)) by (subst pb; lia); exact Hret).
             cbn [Vm.exec]. vm_unf.
             cbv beta iota zeta delta [advance_pc bind gets rs_pc modify set_pc rs_scope rs_stack rs_call_state rs_ctx rs_query_iters rs_io].
             rewrite Hra'. reflexivity.
        * destruct Hss as (s' & Hm & Hio). exists s'. split; auto.
          apply Hpro. eapply mruno_weaken; [exact HQ|exact Hm].
        * destruct Hss as (s' & Hm & Hio). exists s'. split; auto.
          apply Hpro. eapply mruno_weaken; [exact HQ|exact Hm].
  Qed.

  (** ** Entry point: a function run on a fresh run state (as [set_pc_by_label] + pushing the
      arguments leaves it), to completion. *)
  Hypothesis Hrepr : dbg = true -> Forall instr_repr (progmem m).

  Definition entry_state (f : ident) (vs : list Value) (w : world St) : RS :=
    S [ [ [] ] ] (rev vs) [] (la (fun_label f)) (w_ctx w) [] (w_io w).

  (** what [Vm.run] returns, for all sufficiently large fuel *)
  Definition runs_to (s : RS) (P : RunResult St -> Prop) : Prop :=
    exists k, forall j, P (run dbg io m (k + Datatypes.S j) s).
  Definition overflows (s : RS) : Prop :=
    runs_to s (fun r => exists e s', r = RunErrored e s' /\ err_type e = ME_StackOverflow).

  Lemma runs_exit (Q : RS -> Prop) s r s' : mrun dbg io m Q s (MExit r s') -> runs_to s (fun x => x = RunExited r s').
  Proof. intros H. destruct (run_exec dbg io m Hcm Q s _ H) as [k Hk]. exists k. exact Hk. Qed.
  Lemma runs_err (Q : RS -> Prop) s e s' : mrun dbg io m Q s (MErr e s') ->
    runs_to s (fun x => exists e', x = RunErrored e' s' /\ err_type e' = e).
  Proof. intros H. destruct (run_exec dbg io m Hcm Q s _ H) as [k Hk]. exists k. exact Hk. Qed.

  Definition compile_correct_fun_stmt : Prop :=
    forall (n : nat) (f : ident) (vs : list Value) (w : world St),
      len vs <= STACK_SIZE ->
      let s0 := entry_state f vs w in
      match Lang.call_fun lio p is_debug n f vs w with
      | OVal v w' =>
        (* the function returns v: the run exits normally with v alone on the stack *)
        runs_to s0 (fun r => exists s', r = RunExited ER_Normal s' /\ rs_stack s' = [v] /\ rs_io s' = w_io w')
        \/ overflows s0
      | OExit r w' =>
        (* evaluation stops (a panic: todo(), falling off the end ...) exactly where the semantics says *)
        runs_to s0 (fun x => exists s', x = RunExited r s' /\ rs_io s' = w_io w') \/ overflows s0
      | OErr e w' =>
        runs_to s0 (fun x => exists e' s', x = RunErrored e' s' /\ err_type e' = e /\ rs_io s' = w_io w') \/ overflows s0
      | ORet _ _ => False
      | OWrong | OFuel => True
      end.

  Lemma compile_correct_fun_proof : compile_correct_fun_stmt.
  Proof.
    intros n f vs w Hvs s0.
    assert (Hw0 : Wb s0).
    { split; cbn [rs_stack rs_call_state entry_state s0]; [autorewrite with len; exact Hvs|constructor]. }
    destruct n as [|n]; [exact Logic.I|]. rewrite call_fun_S.
    destruct (find (fun d => String.eqb (fn_name d) f) (p_funs p)) as [d|] eqn:Ef; [|exact Logic.I].
    unfold fresh_env.
    destruct (Nat.eqb (List.length (map fst (fn_params d))) (List.length vs)); [|exact Logic.I].
    destruct (bind_params G (rev (map fst (fn_params d))) (rev vs) [ [] ]) as [en0|] eqn:Eb; [|exact Logic.I].
    destruct (callee_specs n) as [IHf IHn].
    pose proof (fun_sim n f d vs w [] [] [] [] en0 IHf IHn Ef Eb) as Hs. cbv zeta in Hs.
    rewrite app_nil_r in Hs. fold (entry_state f vs w) in Hs. fold s0 in Hs.
    destruct (eval_stmts lio p is_debug (Lang.call_fun lio p is_debug n) (Lang.call_fin lio p is_debug n)
                         (@no_recall St) ER_Normal en0 w (fn_body d)) as [en1 w'|v w'|r w'|e w'| |]; auto.
    - destruct Hs as (s' & Hm & Hio & _).
      destruct (mruno_sound dbg io m Hcm Hlen Hrepr _ _ _ Hw0 Hm) as [H|[s1 H]].
      + left. destruct (runs_exit _ _ _ _ H) as [k Hk]. exists k. intros j. exists s'. split; auto.
      + right. destruct (runs_err _ _ _ _ H) as [k Hk]. exists k. intros j. destruct (Hk j) as (e' & -> & He). eauto.
    - destruct Hs as (r & Hr & Hm). unfold is_ret in Hr. destruct Hr as [_ (sc & pcr & ->)].
      destruct (mruno_sound dbg io m Hcm Hlen Hrepr _ _ _ Hw0 Hm) as [H|[s1 H]].
      + left. destruct (runs_exit _ _ _ _ H) as [k Hk]. exists k. intros j. eexists. split; [apply Hk|]. split; reflexivity.
      + right. destruct (runs_err _ _ _ _ H) as [k Hk]. exists k. intros j. destruct (Hk j) as (e' & -> & He). eauto.
    - destruct Hs as (s' & Hm & Hio & _).
      destruct (mruno_sound dbg io m Hcm Hlen Hrepr _ _ _ Hw0 Hm) as [H|[s1 H]].
      + left. destruct (runs_exit _ _ _ _ H) as [k Hk]. exists k. intros j. exists s'. split; auto.
      + right. destruct (runs_err _ _ _ _ H) as [k Hk]. exists k. intros j. destruct (Hk j) as (e' & -> & He). eauto.
    - destruct Hs as (s' & Hm & Hio).
      destruct (mruno_sound dbg io m Hcm Hlen Hrepr _ _ _ Hw0 Hm) as [H|[s1 H]].
      + left. destruct (runs_err _ _ _ _ H) as [k Hk]. exists k. intros j. destruct (Hk j) as (e' & -> & He). eauto.
      + right. destruct (runs_err _ _ _ _ H) as [k Hk]. exists k. intros j. destruct (Hk j) as (e' & -> & He). eauto.
  Qed.

  (** ** C23 in the frame of a function body, callees at any depth *)
  Section Untaken.
    Variable n : nat.
    Variables (cs : list N) (outer : scope_t) (base : list Value) (qi : list (Fact * list query_item)) (has_sp : bool).
    Notation callf := (Lang.call_fun lio p is_debug n).
    Notation callfin := (Lang.call_fin lio p is_debug n).
    Notation ev_expr := (Lang.eval_expr lio p is_debug callf callfin (@no_recall St) ER_Normal).
    Notation ev_stmts := (Lang.eval_stmts lio p is_debug callf callfin (@no_recall St) ER_Normal).
    Notation ev_earms := (Lang.eval_earms lio p is_debug callf callfin (@no_recall St) ER_Normal).
    Notation ev_sarms := (Lang.eval_sarms lio p is_debug callf callfin (@no_recall St) ER_Normal).
    Notation ev_branches := (Lang.eval_branches lio p is_debug callf callfin (@no_recall St) ER_Normal).
    Notation dx := (CompileDirect.d_expr p is_debug la "" false).
    Notation ds := (CompileDirect.d_stmt p is_debug la "" false).
    Notation db := (CompileDirect.d_branches p is_debug la "" false).
    Notation sz := (CompileDirect.sz_expr p is_debug).
    Notation szs := (CompileDirect.sz_stmts p is_debug).
    Notation szb := (CompileDirect.sz_branches p is_debug).
    Notation stf := (st cs outer base qi).
    Notation Qxf := (Qx cs has_sp).
    Notation simo := (sim_out dbg lio p m cs outer base qi has_sp).

    Lemma frame_sim :
      (forall e, fr_expr e = true -> P_expr dbg lio p is_debug m la "" false callf callfin (@no_recall St) ER_Normal cs outer base qi has_sp e)
      /\ (forall ss, fr_stmts ss = true -> P_stmts dbg lio p is_debug m la "" false callf callfin (@no_recall St) ER_Normal cs outer base qi has_sp ss)
      /\ (forall a, fr_earms a = true -> P_earms dbg lio p is_debug m la "" false callf callfin (@no_recall St) ER_Normal cs outer base qi has_sp a)
      /\ (forall a, fr_sarms a = true -> P_sarms dbg lio p is_debug m la "" false callf callfin (@no_recall St) ER_Normal cs outer base qi has_sp a)
      /\ (forall b, fr_branches b = true -> P_branches dbg lio p is_debug m la "" false callf callfin (@no_recall St) ER_Normal cs outer base qi has_sp b).
    Proof.
      destruct (callee_specs n) as [IHf IHn].
      destruct (sim_all dbg lio p is_debug m Hcm Hlen Hglob Hsd la "" false callf callfin (@no_recall St) ER_Normal
                        cs outer base qi has_sp eq_refl IHf IHn (no_recall_spec "")) as (H1 & _ & _ & _ & H5 & _ & _ & H8 & H9 & H10).
      auto.
    Qed.

    Definition untaken_frame_stmt : Prop :=
      (* a && b, a false *)
      (forall a b en sg pc w w1, fr_expr a = true ->
         at_pc m pc (dx pc (EAnd a b)) -> ev_expr en w a = OVal (V_Bool false) w1 ->
         let mid := pc + sz a + 3 in
         mruno (Qxf pc (pc + sz (EAnd a b)) mid (mid + sz b)) (stf en sg pc w)
               (MTo (stf en (V_Bool false :: sg) (pc + sz (EAnd a b)) w1)))
      (* a || b, a true *)
      /\ (forall a b en sg pc w w1, fr_expr a = true ->
         at_pc m pc (dx pc (EOr a b)) -> ev_expr en w a = OVal (V_Bool true) w1 ->
         let pb := pc + sz a + 1 in
         mruno (Qxf pc (pc + sz (EOr a b)) pb (pb + sz b)) (stf en sg pc w)
               (MTo (stf en (V_Bool true :: sg) (pc + sz (EOr a b)) w1)))
      (* a or b, a some x *)
      /\ (forall a b en sg pc w w1 x, fr_expr a = true ->
         at_pc m pc (dx pc (ECoalesce a b)) -> ev_expr en w a = OVal (V_Option (Some x)) w1 ->
         let pb := pc + sz a + 4 in
         mruno (Qxf pc (pc + sz (ECoalesce a b)) pb (pb + sz b)) (stf en sg pc w)
               (MTo (stf en (x :: sg) (pc + sz (ECoalesce a b)) w1)))
      (* if c { t } else { f }, both ways *)
      /\ (forall c t f en sg pc w w1, fr_expr c = true -> fr_expr t = true ->
         at_pc m pc (dx pc (EIf c t f)) -> ev_expr en w c = OVal (V_Bool true) w1 ->
         let pf := pc + sz c + 1 in
         simo (Qxf pc (pc + sz (EIf c t f)) pf (pf + sz f)) (stf en sg pc w) (ev_expr en w1 t)
              (fun v w' => stf en (v :: sg) (pc + sz (EIf c t f)) w'))
      /\ (forall c t f en sg pc w w1, fr_expr c = true -> fr_expr f = true ->
         at_pc m pc (dx pc (EIf c t f)) -> ev_expr en w c = OVal (V_Bool false) w1 ->
         let pt := pc + sz c + 1 + sz f + 1 in
         simo (Qxf pc (pc + sz (EIf c t f)) pt (pt + sz t)) (stf en sg pc w) (ev_expr en w1 f)
              (fun v w' => stf en (v :: sg) (pc + sz (EIf c t f)) w'))
      (* match expression and statement: every arm but the selected one *)
      /\ (forall e arms en sg pc w v w1 k j, fr_expr e = true -> fr_earms arms = true ->
         at_pc m pc (dx pc (EMatch e arms)) -> ev_expr en w e = OVal v w1 ->
         first_match p (earms_patterns arms) v = Some (Some k) ->
         j <> k -> (j < List.length (earms_patterns arms))%nat ->
         let base_pc := pc + sz e + len (d_patterns p (earms_patterns arms) []) in
         let xlo := nth j (earm_addrs p is_debug arms base_pc) 0 in
         simo (Qxf pc (pc + sz (EMatch e arms)) xlo (xlo + nth j (earm_sizes p is_debug arms) 0)) (stf en sg pc w)
              (ev_earms en w1 v arms) (fun r w' => stf en (r :: sg) (pc + sz (EMatch e arms)) w'))
      /\ (forall e arms en sg pc w v w1 k j, fr_expr e = true -> fr_sarms arms = true ->
         at_pc m pc (ds pc (SMatch e arms)) -> ev_expr en w e = OVal v w1 ->
         first_match p (sarms_patterns arms) v = Some (Some k) ->
         j <> k -> (j < List.length (sarms_patterns arms))%nat ->
         let base_pc := pc + sz e + len (d_patterns p (sarms_patterns arms) []) in
         let xlo := nth j (sarm_addrs p is_debug arms base_pc) 0 in
         simo (Qxf pc (pc + CompileDirect.sz_stmt p is_debug (SMatch e arms)) xlo (xlo + nth j (sarm_sizes p is_debug arms) 0))
              (stf en sg pc w) (ev_sarms en w1 v arms)
              (fun en' w' => stf en' sg (pc + CompileDirect.sz_stmt p is_debug (SMatch e arms)) w'))
      (* if statements: the first branch, both ways *)
      /\ (forall c ss bs en sg pc endl w w1, fr_expr c = true -> fr_stmts ss = true ->
         at_pc m pc (db pc endl (BCons c ss bs)) -> ev_expr en w c = OVal (V_Bool true) w1 ->
         let next := pc + sz c + 2 + 1 + szs ss + 1 + 1 in
         simo (Qxf pc (pc + szb (BCons c ss bs)) next (next + szb bs)) (stf en sg pc w)
              (ev_stmts (env_push en) w1 ss) (fun _ w' => stf en sg endl w'))
      /\ (forall c ss bs en sg pc endl w w1, fr_expr c = true -> fr_branches bs = true ->
         at_pc m pc (db pc endl (BCons c ss bs)) -> ev_expr en w c = OVal (V_Bool false) w1 ->
         let pb := pc + sz c + 2 in
         simo (Qxf pc (pc + szb (BCons c ss bs)) pb (pb + 1 + szs ss + 1 + 1)) (stf en sg pc w)
              (ev_branches en w1 bs)
              (fun r w' => match r with
                           | Some _ => stf en sg endl w'
                           | None => stf en sg (pc + szb (BCons c ss bs)) w'
                           end)).

    Lemma untaken_frame_proof : untaken_frame_stmt.
    Proof.
      destruct frame_sim as (He & Hss & Hea & Hsa & Hbr).
      repeat split; intros.
      - eapply and_untaken; eauto.
      - eapply or_untaken; eauto.
      - eapply coalesce_untaken; eauto.
      - eapply if_true_untaken; eauto.
      - eapply if_false_untaken; eauto.
      - eapply match_arm_untaken; eauto.
      - eapply match_stmt_arm_untaken; eauto.
      - eapply if_stmt_true_untaken; eauto.
      - eapply if_stmt_false_untaken; eauto.
    Qed.
  End Untaken.
End Correct.
