(** C15: statement of crash recovery, the two invariants of the root protocol
    ([idle]: between root writes, [rw]: while a root record is being written), and the
    proof that every crash image of a state satisfying either has an allowed outcome. *)
From Aranya Require Import base.Tactics gen.GenCrash model.Crash proofs.CrashBase.
Open Scope Z_scope.

Ltac splitc := match goal with |- _ /\ _ => split; [|splitc] | _ => idtac end.

Section Inv.
Variable sip : list N -> N.
(** The checksum is a [u64]. *)
Hypothesis sip_range : forall l, (sip l <= u64_max)%N.

Notation lv := (load_valid sip).

(** * Ghost marks: last committed root and root write in flight *)
Definition mark_step (m : option root * option root) (e : ev) : option root * option root :=
  match e with
  | ERootBegin r => (fst m, Some r)
  | ECommitted r => (Some r, None)
  | _ => m
  end.
Definition marks (evs : list ev) : option root * option root := fold_left mark_step evs (None, None).

Definition base_root (s : start) : option root :=
  match s with Fresh => None | Recovered _ w0 => Some (w_root w0) end.
(** The last commit whose [commit] call completed (or the root the epoch started from). *)
Definition stable_root (s : start) (evs : list ev) : option root :=
  match fst (marks evs) with Some r => Some r | None => base_root s end.
(** The root whose record write has begun and whose commit has not completed. *)
Definition inflight (evs : list ev) : option root := snd (marks evs).

Lemma marks_snoc evs e : marks (evs ++ [e]) = mark_step (marks evs) e.
Proof. unfold marks. rewrite fold_left_app. reflexivity. Qed.

(** * The statement *)

(** The on-disk form of an appended item: big-endian length, then the bytes. *)
Definition rec (bs : list N) : list N := be32_bytes (zlen bs) ++ bs.

Lemma zlen_app {A} (a b : list A) : zlen (a ++ b) = zlen a + zlen b.
Proof. unfold zlen. rewrite app_length. lia. Qed.
Lemma zlen_be32 n : zlen (be32_bytes n) = 4.
Proof. reflexivity. Qed.
Lemma zlen_rec bs : zlen (rec bs) = 4 + zlen bs.
Proof. unfold rec. rewrite zlen_app, zlen_be32. reflexivity. Qed.
Lemma zlen_nonneg {A} (l : list A) : 0 <= zlen l.
Proof. unfold zlen. lia. Qed.

(** Every item appended in this epoch that lies below [bound] reads back exactly. *)
Definition recs_intact (evs : list ev) (img : image) (bound : Z) : Prop :=
  forall off bs, In (EAppended off bs) evs -> off + 4 + zlen bs <= bound ->
    FREE_START <= off /\ read img off (4 + zlen bs) = Some (rec bs).

(** No item straddles [bound]: every item lies wholly below it or wholly at or above it
    (so nothing appended after the commit whose frontier is [bound] reaches below it). *)
Definition recs_sep (evs : list ev) (bound : Z) : Prop :=
  forall off bs, In (EAppended off bs) evs -> off + 4 + zlen bs <= bound \/ bound <= off.

(** Data committed before this epoch is untouched. *)
Definition old_intact (s : start) (img : image) (r : root) : Prop :=
  match s with
  | Fresh => True
  | Recovered img0 w0 =>
    free_offset (w_root w0) <= free_offset r
    /\ forall x, FREE_START <= x < free_offset (w_root w0) -> ibyte img x = ibyte img0 x
  end.

(** Root [r] is fully backed by image [img]. *)
Definition backed (s : start) (evs : list ev) (img : image) (r : root) : Prop :=
  FREE_START <= free_offset r <= isize img
  /\ recs_intact evs img (free_offset r)
  /\ recs_sep evs (free_offset r)
  /\ old_intact s img r
  /\ wf_root r /\ slot_sane img ROOT_A /\ slot_sane img ROOT_B.

Definition outcome_ok (s : start) (evs : list ev) (img' : image) : Prop :=
  match open sip img' with
  | None => stable_root s evs = None
  | Some w' =>
    (Some (w_root w') = stable_root s evs \/ Some (w_root w') = inflight evs)
    /\ backed s evs img' (w_root w')
  end.

Definition D (s : start) (evs : list ev) : disk := disk_after (start_image s) evs.

Lemma D_snoc s evs e : D s (evs ++ [e]) = ev_step (D s evs) e.
Proof. unfold D, disk_after. rewrite fold_left_app. reflexivity. Qed.

(** Every crash image of the state after [evs] has an allowed outcome; and if [evs] ends
    with the start of a root-record write, nothing is pending at that point (every earlier
    write was made durable by a barrier: data before root). *)
Definition good (s : start) (evs : list ev) : Prop :=
  (forall img', crash (D s evs) img' -> outcome_ok s evs img')
  /\ (forall pre r, evs = pre ++ [ERootBegin r] -> pnd (D s pre) = []).

(** What an epoch may start from. *)
Definition start_ok (s : start) : Prop :=
  match s with
  | Fresh => True
  | Recovered img0 w0 =>
    open sip img0 = Some w0
    /\ FREE_START <= free_offset (w_root w0) <= isize img0
    /\ wf_root (w_root w0) /\ slot_sane img0 ROOT_A /\ slot_sane img0 ROOT_B
  end.

(** The checksum idealisation, for one root-record write: an image that differs from [D0]
    only inside the record's extent in [slot], where every byte is either the old byte
    or the new record's byte, validates in that slot either as the new root, or as
    whatever the slot validated to before, or not at all. *)
Definition mix_of (D0 : image) (slot : Z) (R : list N) (img' : image) : Prop :=
  FREE_START <= isize img'
  /\ forall x, slot <= x < slot + 260 ->
       ibyte img' x = ibyte D0 x
       \/ (x < slot + zlen R /\ ibyte img' x = nth (Z.to_nat (x - slot)) R 0%N).
Definition tear_ok (D0 : image) (slot : Z) (r : root) : Prop :=
  forall img', mix_of D0 slot (rec (ser_root r)) img' ->
    lv img' slot = Some r \/ lv img' slot = lv D0 slot \/ lv img' slot = None.

(** * Slots *)

Definition sfront (stable : option (root * Z)) : Z :=
  match stable with Some (rs, _) => free_offset rs | None => FREE_START end.

Definition slots_ok (s : start) (img : image) (stable : option (root * Z)) : Prop :=
  match stable with
  | None => s = Fresh /\ forall x, 0 <= x < FREE_START -> ibyte img x = 0%N
  | Some (rs, cs) =>
    FREE_START <= isize img /\ (cs = ROOT_A \/ cs = ROOT_B)
    /\ lv img cs = Some rs
    /\ choose_root (lv img ROOT_A) (lv img ROOT_B) = Some (rs, cs)
    /\ slot_sane img ROOT_A /\ slot_sane img ROOT_B /\ wf_root rs
  end.

Definition old_ok (s : start) (img : image) (stable : option (root * Z)) : Prop :=
  match s with
  | Fresh => True
  | Recovered img0 w0 =>
    free_offset (w_root w0) <= sfront stable
    /\ forall x, FREE_START <= x < free_offset (w_root w0) -> ibyte img x = ibyte img0 x
  end.

Lemma lv_zero img slot :
  (forall x, slot <= x < slot + 4 -> ibyte img x = 0%N) -> lv img slot = None.
Proof. intros H. unfold load_valid. rewrite load_root_zero by auto. reflexivity. Qed.

Lemma lv_ext img img' slot :
  0 <= slot -> slot + 260 <= isize img -> slot + 260 <= isize img' -> slot_sane img slot ->
  (forall x, slot <= x < slot + 260 -> ibyte img' x = ibyte img x) ->
  lv img' slot = lv img slot.
Proof. intros. unfold load_valid. erewrite load_root_ext; eauto. Qed.

Lemma slot_sane_ext img img' slot :
  slot_sane img slot -> (forall x, slot <= x < slot + 4 -> ibyte img' x = ibyte img x) -> slot_sane img' slot.
Proof. intros (A & B & C & E) H. unfold slot_sane. rewrite !H by lia. auto. Qed.

Lemma open_of_choice img r c :
  choose_root (lv img ROOT_A) (lv img ROOT_B) = Some (r, c) ->
  open sip img = Some {| w_root := r; alloc_end := free_offset r; next_root := other_root c; data_dirty := false |}.
Proof. intros H. unfold open. rewrite H. reflexivity. Qed.

(** * The idle invariant: no root write in flight *)

Record idle (s : start) (evs : list ev) (stable : option (root * Z)) (fo ae : Z) : Prop := {
  id_stable : stable_root s evs = option_map fst stable;
  id_infl : inflight evs = None;
  id_order : FREE_START <= sfront stable /\ sfront stable <= fo /\ fo <= ae;
  id_size : ae <= isize (dur (D s evs));
  id_pend : Forall (pw_outside 0 (sfront stable)) (pnd (D s evs));
  id_view : forall off bs, In (EAppended off bs) evs ->
              FREE_START <= off /\ off + 4 + zlen bs <= fo /\ holds (view (D s evs)) off (rec bs);
  id_dur : forall off bs, In (EAppended off bs) evs -> off + 4 + zlen bs <= sfront stable ->
              holds (dur (D s evs)) off (rec bs);
  id_old : old_ok s (dur (D s evs)) stable;
  id_slots : slots_ok s (dur (D s evs)) stable;
  id_sep : recs_sep evs (sfront stable);
}.

Lemma idle_good s evs stable fo ae : idle s evs stable fo ae -> good s evs.
Proof.
  intros [Hst Hinf Hord Hsz Hp Hv Hd Hold Hsl Hsep]. split.
  2:{ intros pre r He. subst evs. unfold inflight in Hinf. rewrite marks_snoc in Hinf. discriminate. }
  intros img' Hc.
  destruct (torn_frame _ _ _ 0 (sfront stable) Hc Hp) as [Hsize Hframe].
  unfold outcome_ok.
  destruct stable as [[rs cs]|]; cbn [sfront option_map fst slots_ok] in *.
  - destruct Hsl as (HF & Hcs & Hlv & Hch & HsA & HsB & Hwf).
    assert (HA : lv img' ROOT_A = lv (dur (D s evs)) ROOT_A).
    { apply lv_ext; auto; consts; try lia. intros x Hx. apply Hframe. lia. }
    assert (HB : lv img' ROOT_B = lv (dur (D s evs)) ROOT_B).
    { apply lv_ext; auto; consts; try lia. intros x Hx. apply Hframe. lia. }
    rewrite (open_of_choice img' rs cs) by (rewrite HA, HB; auto).
    cbn [w_root]. split; [left; auto|].
    unfold backed. splitc; auto; try lia.
    + intros off bs Hin Hb. destruct (Hv off bs Hin) as (Hoff & _ & _). split; auto.
      rewrite <- zlen_rec. apply holds_read.
      apply holds_ext with (img := dur (D s evs)); auto.
      intros x Hx. apply Hframe. rewrite zlen_rec in Hx. consts. lia.
    + unfold old_intact, old_ok in *. cbn [sfront] in *. destruct s as [|img0 w0]; auto.
      destruct Hold as [Ho1 Ho2]. split; auto. intros x Hx. rewrite Hframe by (consts; lia). auto.
    + apply slot_sane_ext with (img := dur (D s evs)); auto. intros x Hx. apply Hframe. consts. lia.
    + apply slot_sane_ext with (img := dur (D s evs)); auto. intros x Hx. apply Hframe. consts. lia.
  - destruct Hsl as [Hs Hz].
    assert (HA : lv img' ROOT_A = None).
    { apply lv_zero. intros x Hx. rewrite Hframe by (consts; lia). apply Hz. consts. lia. }
    assert (HB : lv img' ROOT_B = None).
    { apply lv_zero. intros x Hx. rewrite Hframe by (consts; lia). apply Hz. consts. lia. }
    unfold open. rewrite HA, HB. cbn. auto.
Qed.

(** ** Steps that preserve [idle] *)

Lemma marks_sys evs y : marks (evs ++ [ESys y]) = marks evs.
Proof. rewrite marks_snoc. reflexivity. Qed.
Lemma marks_appended evs off bs : marks (evs ++ [EAppended off bs]) = marks evs.
Proof. rewrite marks_snoc. reflexivity. Qed.

Lemma in_snoc_sys evs y off bs : In (EAppended off bs) (evs ++ [ESys y]) -> In (EAppended off bs) evs.
Proof. intros H. apply in_app_or in H. destruct H as [H|[H|[]]]; [auto | discriminate]. Qed.

Lemma view_pwrite d off bs : view (disk_step d (SPwrite off bs)) = write_full (view d) off bs.
Proof. unfold view. cbn [disk_step dur pnd]. rewrite flush_app. reflexivity. Qed.
Lemma view_falloc d m off len : view (disk_step d (SFalloc m off len)) = extend (view d) (off + len).
Proof. unfold view. cbn [disk_step dur pnd]. rewrite flush_app. reflexivity. Qed.

Lemma idle_falloc s evs stable fo ae m off len :
  idle s evs stable fo ae -> idle s (evs ++ [ESys (SFalloc m off len)]) stable fo ae.
Proof.
  intros [Hst Hinf Hord Hsz Hp Hv Hd Hold Hsl Hsep].
  constructor; unfold stable_root, inflight in *; rewrite ?marks_sys, ?D_snoc; cbn [ev_step disk_step dur pnd]; auto.
  - apply Forall_app. split; auto. constructor; [exact I | constructor].
  - intros o bs Hin. apply in_snoc_sys in Hin. destruct (Hv o bs Hin) as (A & B & C).
    splitc; auto. fold (disk_step (D s evs) (SFalloc m off len)). rewrite view_falloc.
    eapply holds_ext; [exact C | cbn; lia | auto].
  - intros o bs Hin. apply in_snoc_sys in Hin. auto.
  - intros o bs Hin. apply in_snoc_sys in Hin. auto.
Qed.

(** A barrier. [ae'] may grow to the size that has just become durable. *)
Lemma idle_sync s evs stable fo ae ae' y :
  y = SFdatasync \/ y = SFsync ->
  idle s evs stable fo ae -> fo <= ae' -> ae' <= isize (view (D s evs)) ->
  idle s (evs ++ [ESys y]) stable fo ae'.
Proof.
  intros Hy [Hst Hinf Hord Hsz Hp Hv Hd Hold Hsl Hsep] Hfo Hae.
  destruct (flush_frame (dur (D s evs)) (pnd (D s evs)) 0 (sfront stable) Hp) as [Hsize Hframe].
  fold (view (D s evs)) in Hsize, Hframe.
  assert (HD : D s (evs ++ [ESys y]) = {| dur := view (D s evs); pnd := [] |}).
  { rewrite D_snoc. destruct Hy; subst y; reflexivity. }
  constructor; unfold stable_root, inflight in *; rewrite ?marks_sys, ?HD; cbn [dur pnd]; auto.
  - lia.
  - intros o bs Hin. apply in_snoc_sys in Hin. destruct (Hv o bs Hin) as (A & B & C).
    splitc; auto.
  - intros o bs Hin Hb. apply in_snoc_sys in Hin. destruct (Hv o bs Hin) as (A & B & C). auto.
  - unfold old_ok in *. cbn [sfront] in *. destruct s as [|img0 w0]; auto. destruct Hold as [H1 H2]. split; auto.
    intros x Hx. rewrite Hframe by (consts; lia). auto.
  - unfold slots_ok in *. destruct stable as [[rs cs]|]; cbn [sfront] in *.
    + destruct Hsl as (HF & Hcs & Hlv & Hch & HsA & HsB & Hwf).
      assert (HA : lv (view (D s evs)) ROOT_A = lv (dur (D s evs)) ROOT_A).
      { apply lv_ext; auto; consts; try lia. intros x Hx. apply Hframe. lia. }
      assert (HB : lv (view (D s evs)) ROOT_B = lv (dur (D s evs)) ROOT_B).
      { apply lv_ext; auto; consts; try lia. intros x Hx. apply Hframe. lia. }
      rewrite HA, HB. splitc; auto; try lia.
      * destruct Hcs; subst cs; [rewrite HA | rewrite HB]; auto.
      * apply slot_sane_ext with (img := dur (D s evs)); auto. intros x Hx. apply Hframe. consts. lia.
      * apply slot_sane_ext with (img := dur (D s evs)); auto. intros x Hx. apply Hframe. consts. lia.
    + destruct Hsl as [Hs Hz]. split; auto. intros x Hx. rewrite Hframe by (consts; lia). auto.
  - intros o bs Hin. apply in_snoc_sys in Hin. auto.
Qed.

(** A data write at or above the in-memory frontier, inside the allocated region. *)
Lemma idle_pwrite s evs stable fo ae off bs :
  idle s evs stable fo ae -> fo <= off -> off + zlen bs <= ae ->
  idle s (evs ++ [ESys (SPwrite off bs)]) stable fo ae.
Proof.
  intros [Hst Hinf Hord Hsz Hp Hv Hd Hold Hsl Hsep] Hoff Hend.
  constructor; unfold stable_root, inflight in *; rewrite ?marks_sys, ?D_snoc; cbn [ev_step disk_step dur pnd]; auto.
  - apply Forall_app. split; auto. constructor; [cbn; lia | constructor].
  - intros o b Hin. apply in_snoc_sys in Hin. destruct (Hv o b Hin) as (A & B & C).
    splitc; auto. fold (disk_step (D s evs) (SPwrite off bs)). rewrite view_pwrite.
    eapply holds_ext; [exact C | apply isize_apply_ge |].
    intros x Hx. apply ibyte_write_full_out. rewrite zlen_rec in Hx. lia.
  - intros o b Hin. apply in_snoc_sys in Hin. auto.
  - intros o b Hin. apply in_snoc_sys in Hin. auto.
Qed.

(** The ghost mark of a completed append whose bytes are in the page cache. *)
Lemma idle_appended s evs stable fo ae off bs :
  idle s evs stable fo ae -> fo <= off -> off + 4 + zlen bs <= ae ->
  holds (view (D s evs)) off (rec bs) ->
  idle s (evs ++ [EAppended off bs]) stable (off + 4 + zlen bs) ae.
Proof.
  intros [Hst Hinf Hord Hsz Hp Hv Hd Hold Hsl Hsep] Hoff Hend Hh.
  pose proof (zlen_nonneg bs).
  constructor; unfold stable_root, inflight in *; rewrite ?marks_appended, ?D_snoc; cbn [ev_step]; auto.
  - lia.
  - intros o b Hin. apply in_app_or in Hin. destruct Hin as [Hin|[Hin|[]]].
    + destruct (Hv o b Hin) as (A & B & C). splitc; auto. pose proof (zlen_nonneg b). lia.
    + inversion Hin; subst o b. splitc; auto; lia.
  - intros o b Hin Hb. apply in_app_or in Hin. destruct Hin as [Hin|[Hin|[]]]; auto.
    inversion Hin; subst o b. lia.
  - intros o b Hin. apply in_app_or in Hin. destruct Hin as [Hin|[Hin|[]]]; auto.
    inversion Hin; subst o b. right. lia.
Qed.

(** * The root-write invariant *)

Definition piece_of (R : list N) (slot off : Z) (bs : list N) : Prop :=
  slot <= off /\ off + zlen bs <= slot + zlen R
  /\ forall x, off <= x < off + zlen bs -> nth (Z.to_nat (x - off)) bs 0%N = nth (Z.to_nat (x - slot)) R 0%N.

Definition next_slot (stable : option (root * Z)) : Z :=
  match stable with Some (_, cs) => other_root cs | None => ROOT_A end.
Definition stable_gen (stable : option (root * Z)) : N :=
  match stable with Some (rs, _) => generation rs | None => 0%N end.

Record rw (s : start) (evs : list ev) (stable : option (root * Z)) (r : root) (D0 : image) : Prop := {
  rw_stable : stable_root s evs = option_map fst stable;
  rw_infl : inflight evs = Some r;
  rw_wf : wf_root r;
  rw_ck : checksum r = calc_checksum sip r;
  rw_gen : generation r = (stable_gen stable + 1)%N;
  rw_free : FREE_START <= sfront stable /\ sfront stable <= free_offset r /\ free_offset r <= isize D0;
  rw_recs : forall off bs, In (EAppended off bs) evs ->
              FREE_START <= off /\ off + 4 + zlen bs <= free_offset r /\ holds D0 off (rec bs);
  rw_old : old_ok s D0 stable;
  rw_slots : slots_ok s D0 stable;
  rw_tear : tear_ok D0 (next_slot stable) r;
  rw_imgs : forall img', crash (D s evs) img' ->
      isize D0 <= isize img'
      /\ forall x, ibyte img' x = ibyte D0 x
                   \/ (next_slot stable <= x < next_slot stable + zlen (rec (ser_root r))
                       /\ ibyte img' x = nth (Z.to_nat (x - next_slot stable)) (rec (ser_root r)) 0%N);
  rw_sep : recs_sep evs (sfront stable);
  rw_synced : forall pre r', evs = pre ++ [ERootBegin r'] -> pnd (D s pre) = [];
}.

Lemma zlen_ser_root r : 1 <= zlen (ser_root r) <= 52.
Proof.
  pose proof (ser_root_len r). unfold zlen. split; [|lia].
  unfold ser_root, varint. cbn [varint_fuel]. destruct (generation r <? 128)%N; cbn [app length]; lia.
Qed.

Lemma rec_ser_root_prefix r :
  exists L, (L <= 52)%N /\ rec (ser_root r) = [0; 0; 0; L]%N ++ ser_root r /\ Z.of_N L = zlen (ser_root r).
Proof.
  pose proof (zlen_ser_root r). exists (Z.to_N (zlen (ser_root r))). split; [lia|]. split; [|lia].
  unfold rec. rewrite be32_bytes_small by lia. reflexivity.
Qed.

Lemma zeros_sane img slot : (forall x, slot <= x < slot + 4 -> ibyte img x = 0%N) -> slot_sane img slot.
Proof. intros H. unfold slot_sane. rewrite !H by lia. splitc; auto. lia. Qed.

Lemma other_root_cases c : c = ROOT_A \/ c = ROOT_B -> (c = ROOT_A /\ other_root c = ROOT_B) \/ (c = ROOT_B /\ other_root c = ROOT_A).
Proof. intros [->| ->]; [left | right]; split; reflexivity. Qed.

Lemma rw_good s evs stable r D0 : rw s evs stable r D0 -> good s evs.
Proof.
  intros [Hst Hinf Hwf Hck Hgen Hfree Hrecs Hold Hsl Htear Himgs Hsep Hsyn]. split; [|exact Hsyn].
  intros img' Hc.
  destruct (Himgs img' Hc) as [Hsize Hpt]. clear Himgs.
  set (slot := next_slot stable) in *.
  set (R := rec (ser_root r)) in *.
  destruct (rec_ser_root_prefix r) as (L & HL & HR & HLz). fold R in HR.
  assert (HzR : zlen R <= 56) by (unfold R; rewrite zlen_rec; pose proof (zlen_ser_root r); lia).
  assert (Hslot : slot = ROOT_A \/ slot = ROOT_B).
  { unfold slot, next_slot. destruct stable as [[rs cs]|]; auto.
    destruct Hsl as (_ & Hcs & _). destruct Hcs; subst cs; [right | left]; reflexivity. }
  assert (HF0 : FREE_START <= isize D0) by lia.
  assert (Hdata : forall x, FREE_START <= x -> ibyte img' x = ibyte D0 x).
  { intros x Hx. destruct (Hpt x) as [E|[Hr _]]; auto. exfalso. destruct Hslot as [Hs|Hs]; rewrite Hs in Hr; consts; lia. }
  assert (Hmix : mix_of D0 slot R img').
  { split; [lia|]. intros x Hx. destruct (Hpt x) as [E|[Hr E]]; auto. right. split; [lia | auto]. }
  assert (HsaneD : slot_sane D0 ROOT_A /\ slot_sane D0 ROOT_B).
  { destruct stable as [[rs cs]|]; cbn [slots_ok] in Hsl.
    - destruct Hsl as (_ & _ & _ & _ & A & B & _). auto.
    - destruct Hsl as [_ Hz]. split; apply zeros_sane; intros x Hx; apply Hz; consts; lia. }
  (* the slot being written stays sane *)
  assert (Hsane' : slot_sane img' ROOT_A /\ slot_sane img' ROOT_B).
  { assert (Hone : forall sl, sl = ROOT_A \/ sl = ROOT_B -> slot_sane D0 sl -> slot_sane img' sl).
    { intros sl Hsl' (S0 & S1 & S2 & S3). unfold slot_sane.
      assert (Hb : forall k, 0 <= k < 4 ->
                 ibyte img' (sl + k) = ibyte D0 (sl + k) \/ (sl = slot /\ ibyte img' (sl + k) = nth (Z.to_nat k) R 0%N)).
      { intros k Hk. destruct (Hpt (sl + k)) as [E|[Hr E]]; auto. right.
        assert (sl = slot) by (destruct Hsl' as [-> | ->]; destruct Hslot as [Hs|Hs]; rewrite Hs in Hr |- *; consts; lia).
        subst sl. split; auto. rewrite E. f_equal. lia. }
      rewrite HR in Hb. cbn [app] in Hb.
      pose proof (Hb 0 ltac:(lia)) as Hb0. pose proof (Hb 1 ltac:(lia)) as Hb1.
      pose proof (Hb 2 ltac:(lia)) as Hb2. pose proof (Hb 3 ltac:(lia)) as Hb3.
      change (Z.to_nat 0) with 0%nat in Hb0. change (Z.to_nat 1) with 1%nat in Hb1.
      change (Z.to_nat 2) with 2%nat in Hb2. change (Z.to_nat 3) with 3%nat in Hb3.
      cbn [nth] in Hb0, Hb1, Hb2, Hb3. rewrite Z.add_0_r in Hb0.
      destruct Hb0 as [E0|[_ E0]]; destruct Hb1 as [E1|[_ E1]];
      destruct Hb2 as [E2|[_ E2]]; destruct Hb3 as [E3|[_ E3]];
      rewrite E0, E1, E2, E3; rewrite ?S0, ?S1, ?S2; splitc; auto; lia. }
    destruct HsaneD. split; apply Hone; auto. }
  (* the other slot is untouched *)
  assert (Hother : forall o, (o = ROOT_A \/ o = ROOT_B) -> o <> slot -> lv img' o = lv D0 o).
  { intros o Ho Hne. apply lv_ext; try (destruct Ho as [-> | ->]; consts; lia).
    - destruct Ho as [-> | ->]; tauto.
    - intros x Hx. destruct (Hpt x) as [E|[Hr _]]; auto. exfalso.
      destruct Ho as [-> | ->]; destruct Hslot as [Hs|Hs]; rewrite Hs in Hr, Hne; consts; try lia; congruence. }
  unfold outcome_ok.
  destruct (Htear img' Hmix) as [Hnew | [Hsame | Hnone]].
  - (* the new root validates *)
    assert (Hopen : open sip img' = Some {| w_root := r; alloc_end := free_offset r; next_root := other_root slot; data_dirty := false |}).
    { apply open_of_choice. destruct stable as [[rs cs]|]; cbn [slots_ok next_slot stable_gen] in *.
      - destruct Hsl as (_ & Hcs & Hlv & _).
        destruct (other_root_cases cs Hcs) as [[-> Ho]|[-> Ho]]; unfold slot in *; rewrite Ho in *.
        + rewrite Hnew. rewrite (Hother ROOT_A) by (auto; consts; lia). rewrite Hlv. cbn [choose_root].
          replace (generation rs <? generation r)%N with true by lia. reflexivity.
        + rewrite Hnew. rewrite (Hother ROOT_B) by (auto; consts; lia). rewrite Hlv. cbn [choose_root].
          replace (generation r <? generation rs)%N with false by lia. reflexivity.
      - destruct Hsl as [_ Hz]. unfold slot in *. rewrite Hnew.
        rewrite (Hother ROOT_B) by (auto; consts; lia).
        rewrite (lv_zero D0 ROOT_B) by (intros x Hx; apply Hz; consts; lia). reflexivity. }
    rewrite Hopen. cbn [w_root]. split; [right; auto|].
    unfold backed. destruct Hsane'. splitc; auto; try lia.
    + intros off bs Hin Hb. destruct (Hrecs off bs Hin) as (A & B & C). split; auto.
      rewrite <- zlen_rec. apply holds_read. eapply holds_ext; eauto. intros x Hx. apply Hdata. lia.
    + intros off bs Hin. destruct (Hrecs off bs Hin) as (A & B & C). left. auto.
    + unfold old_intact, old_ok in *. cbn [sfront] in *. destruct s as [|img0 w0]; auto. destruct Hold as [H1 H2].
      split; [lia|]. intros x Hx. rewrite Hdata by lia. auto.
  - (* the slot validates as before: same decision as on D0 *)
    destruct stable as [[rs cs]|]; cbn [slots_ok next_slot sfront option_map fst] in *.
    + destruct Hsl as (_ & Hcs & Hlv & Hch & _ & _ & Hwfs).
      assert (HA : lv img' ROOT_A = lv D0 ROOT_A).
      { destruct (Z.eq_dec ROOT_A slot) as [E|E]; [rewrite E; auto | apply Hother; auto]. }
      assert (HB : lv img' ROOT_B = lv D0 ROOT_B).
      { destruct (Z.eq_dec ROOT_B slot) as [E|E]; [rewrite E; auto | apply Hother; auto]. }
      rewrite (open_of_choice img' rs cs) by (rewrite HA, HB; auto).
      cbn [w_root]. split; [left; auto|].
      unfold backed. destruct Hsane'. splitc; auto; try lia.
      * intros off bs Hin Hb. destruct (Hrecs off bs Hin) as (A & B & C). split; auto.
        rewrite <- zlen_rec. apply holds_read. eapply holds_ext; eauto. intros x Hx. apply Hdata. lia.
      * unfold old_intact, old_ok in *. cbn [sfront] in *. destruct s as [|img0 w0]; auto. destruct Hold as [H1 H2].
        split; [auto|]. intros x Hx. rewrite Hdata by lia. auto.
    + destruct Hsl as [_ Hz]. unfold slot in *.
      assert (HA : lv img' ROOT_A = None).
      { rewrite Hsame. apply lv_zero. intros x Hx. apply Hz. consts. lia. }
      assert (HB : lv img' ROOT_B = None).
      { rewrite (Hother ROOT_B) by (auto; consts; lia). apply lv_zero. intros x Hx. apply Hz. consts. lia. }
      unfold open. rewrite HA, HB. cbn. auto.
  - (* the slot does not validate: the other slot decides *)
    destruct stable as [[rs cs]|]; cbn [slots_ok next_slot sfront option_map fst] in *.
    + destruct Hsl as (_ & Hcs & Hlv & Hch & _ & _ & Hwfs).
      assert (Hchoice : choose_root (lv img' ROOT_A) (lv img' ROOT_B) = Some (rs, cs)).
      { destruct (other_root_cases cs Hcs) as [[-> Ho]|[-> Ho]]; unfold slot in *; rewrite Ho in *.
        - rewrite Hnone. rewrite (Hother ROOT_A) by (auto; consts; lia). rewrite Hlv. reflexivity.
        - rewrite Hnone. rewrite (Hother ROOT_B) by (auto; consts; lia). rewrite Hlv. reflexivity. }
      rewrite (open_of_choice img' rs cs) by auto.
      cbn [w_root]. split; [left; auto|].
      unfold backed. destruct Hsane'. splitc; auto; try lia.
      * intros off bs Hin Hb. destruct (Hrecs off bs Hin) as (A & B & C). split; auto.
        rewrite <- zlen_rec. apply holds_read. eapply holds_ext; eauto. intros x Hx. apply Hdata. lia.
      * unfold old_intact, old_ok in *. cbn [sfront] in *. destruct s as [|img0 w0]; auto. destruct Hold as [H1 H2].
        split; [auto|]. intros x Hx. rewrite Hdata by lia. auto.
    + destruct Hsl as [_ Hz]. unfold slot in *.
      assert (HB : lv img' ROOT_B = None).
      { rewrite (Hother ROOT_B) by (auto; consts; lia). apply lv_zero. intros x Hx. apply Hz. consts. lia. }
      unfold open. rewrite Hnone, HB. cbn. auto.
Qed.

End Inv.
