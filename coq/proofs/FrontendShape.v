(** Soundness of the shape analysis of [model/Frontend.v]: every forest the
    grammar can emit has its root sequence in [shape], and every node of every
    emitted tree has its child sequence in [children_shape] of its rule. *)
From Coq Require Import String List Bool Lia.
From Aranya Require Import model.PegSyntax model.ShapeRe model.Frontend proofs.ShapeReProofs.
Import ListNotations.
Open Scope string_scope.

Lemma lang_star_app a u v : lang (Star a) u -> lang (Star a) v -> lang (Star a) (u ++ v).
Proof.
  intros Hu. remember (Star a) as r eqn:E. revert v. induction Hu; inv E; intros v0 Hv; cbn; auto.
  rewrite <- app_assoc. apply L_stars; auto.
Qed.

Lemma star'_spec a w : lang (star' a) w <-> lang (Star a) w.
Proof.
  destruct a; cbn [star']; try tauto.
  - split; intros H.
    + inv H. constructor.
    + remember (Star Emp) as r eqn:E. induction H; inv E; [constructor|]. inv H.
  - split; intros H.
    + inv H. constructor.
    + remember (Star Eps) as r eqn:E. induction H; inv E; [constructor|]. inv H. cbn. auto.
  - split; intros H.
    + rewrite <- (app_nil_r w). apply L_stars; [auto|constructor].
    + remember (Star (Star a)) as r eqn:E. induction H; inv E; [constructor|].
      apply lang_star_app; auto.
Qed.

Lemma star_map (x y : re) : (forall w, lang x w -> lang y w) -> forall w, lang (Star x) w -> lang (Star y) w.
Proof.
  intros Hxy w H. remember (Star x) as r eqn:E. induction H; inv E; [constructor|].
  apply L_stars; auto.
Qed.

(** A tree all of whose nodes respect [children_shape]. *)
Inductive tree_ok (G : list rule) : tree -> Prop :=
| T_ok n ks : lang (children_shape G n) (map root ks) -> Forall (tree_ok G) ks -> tree_ok G (Node n ks).

Section Sound.
  Variable G : list rule.

  Scheme emits_mind := Minimality for emits Sort Prop
    with skips_mind := Minimality for skips Sort Prop
    with reps_mind := Minimality for reps Sort Prop.
  Combined Scheme emits_mutind from emits_mind, skips_mind, reps_mind.

  Let W f am e := walk (ref_shape G (shape G f) am) (skip_shape G (shape G f) am) e.
  Let SK f am := skip_shape G (shape G f) am.
  Let X f am a := Cat (W f am a) (SK f am).

  Lemma shape_of_walk am e w : (forall f, lang (W f am e) w) -> forall fuel, lang (shape G fuel am e) w.
  Proof. intros H [|f]; [apply lang_top|apply H]. Qed.

  Lemma star_X f am a w : lang (Star (X f am a)) w -> lang (star' (cat' (W f am a) (SK f am))) w.
  Proof.
    intros H. apply star'_spec. eapply star_map; [|exact H]. intros u Hu. apply cat'_spec; auto.
  Qed.

  Lemma sound_mut :
    (forall am e ts, emits G am e ts -> Forall (tree_ok G) ts /\ forall f, lang (W f am e) (map root ts))
    /\ (forall am sk, skips G am sk -> Forall (tree_ok G) sk /\ forall f, lang (SK f am) (map root sk))
    /\ (forall am a n ts, reps G am a n ts ->
          Forall (tree_ok G) ts /\
          forall f, lang (Star (X f am a)) (map root ts)
                    /\ (n <> 0 -> lang (Cat (X f am a) (Star (X f am a))) (map root ts))).
  Proof.
    apply emits_mutind.
    - (* Str *) intros; split; [constructor|intros; cbn; constructor].
    - intros; split; [constructor|intros; cbn; constructor].
    - intros; split; [constructor|intros; cbn; constructor].
    - (* builtin *) intros am n Hf Hn. split; [constructor|]. intros f. unfold W. cbn [walk]. unfold ref_shape. rewrite Hf.
      destruct (String.eqb n "EOI") eqn:E; [apply String.eqb_eq in E; congruence|]. constructor.
    - (* EOI *) intros am Hf. split.
      + destruct (is_atomic am); constructor; [|constructor].
        constructor; [|constructor]. unfold children_shape. rewrite Hf. constructor.
      + intros f. unfold W. cbn [walk]. unfold ref_shape. rewrite Hf.
        replace (String.eqb "EOI" "EOI") with true by reflexivity.
        destruct (is_atomic am); cbn; constructor.
    - (* rule *) intros am n r ts Hf _ [Hok Hl]. unfold wrap. split.
      + destruct (is_silent (r_kind r) || is_atomic am) eqn:E; auto.
        constructor; [|constructor]. constructor; auto.
        unfold children_shape. rewrite Hf. apply or'_spec.
        apply orb_false_iff in E as [_ Ea].
        destruct am; [left|right|discriminate]; apply shape_of_walk; auto.
      + intros f. unfold W. cbn [walk]. unfold ref_shape. rewrite Hf.
        destruct (is_silent (r_kind r) || is_atomic am); [|cbn; constructor].
        apply shape_of_walk; auto.
    - (* seq *) intros am a b t1 sk t2 _ [Ho1 Hl1] _ [Hos Hls] _ [Ho2 Hl2]. split.
      + apply Forall_app; split; auto. apply Forall_app; split; auto.
      + intros f. unfold W. cbn [walk]. rewrite !map_app. apply cat'_spec. constructor; [apply Hl1|].
        apply cat'_spec. constructor; [apply Hls|apply Hl2].
    - (* alt *) intros am a b ts _ [Ho Hl]. split; auto. intros f. unfold W. cbn [walk]. apply or'_spec. left. apply Hl.
    - intros am a b ts _ [Ho Hl]. split; auto. intros f. unfold W. cbn [walk]. apply or'_spec. right. apply Hl.
    - (* opt *) intros am a. split; [constructor|]. intros f. unfold W. cbn [walk]. apply or'_spec. left. constructor.
    - intros am a ts _ [Ho Hl]. split; auto. intros f. unfold W. cbn [walk]. apply or'_spec. right. apply Hl.
    - (* star *) intros am a n ts _ [Ho Hl]. split; auto. intros f. unfold W. cbn [walk].
      apply star_X. apply Hl.
    - (* plus *) intros am a n ts _ [Ho Hl]. split; auto. intros f. unfold W. cbn [walk].
      destruct (Hl f) as [_ H1]. specialize (H1 ltac:(discriminate)).
      inv H1. apply cat'_spec. constructor.
      + apply cat'_spec. auto.
      + apply star_X. auto.
    - (* rep *) intros am lo hi a n ts _ [Ho Hl]. split; auto. intros f. unfold W. cbn [walk].
      apply star_X. apply Hl.
    - intros; split; [constructor|intros; cbn; constructor].
    - intros; split; [constructor|intros; cbn; constructor].
    - (* skips nil *) intros am. split; [constructor|]. intros f. unfold SK, skip_shape.
      destruct (is_non am); [apply star'_spec|]; constructor.
    - (* skips cons *) intros n t sk Hws _ [Ho Hl] _ [Hos Hls]. split; [apply Forall_app; auto|].
      intros f. specialize (Hl f). specialize (Hls f). unfold W in Hl. cbn [walk] in Hl.
      unfold SK, skip_shape in *. cbn [is_non] in *. rewrite map_app.
      apply star'_spec. apply star'_spec in Hls. apply L_stars; auto.
      apply or'_spec. unfold is_ws in Hws. apply orb_true_iff in Hws as [E|E]; apply String.eqb_eq in E; subst; auto.
    - (* reps 0 *) intros. split; [constructor|]. intros f. split; [constructor|congruence].
    - (* reps S *) intros am a n t sk ts _ [Ho1 Hl1] _ [Hos Hls] _ [Ho2 Hl2]. split.
      + apply Forall_app; split; auto. apply Forall_app; split; auto.
      + intros f. rewrite app_assoc, map_app.
        assert (HX : lang (X f am a) (map root (t ++ sk))) by (rewrite map_app; constructor; [apply Hl1|apply Hls]).
        destruct (Hl2 f) as [Hst _]. split; [apply L_stars; auto|intros _; constructor; auto].
  Qed.

  (** Every forest a parse started at rule [n] can return is in [top_shape], and
      all its trees respect [children_shape]. *)
  Theorem top_sound n ts : emits G ANon (Ref n) ts ->
    lang (top_shape G n) (map root ts) /\ Forall (tree_ok G) ts.
  Proof.
    intros H. destruct sound_mut as [S _]. destruct (S _ _ _ H) as [Hok Hl].
    split; auto. unfold top_shape. apply shape_of_walk; auto.
  Qed.

  Theorem emits_tree_ok am e ts : emits G am e ts -> Forall (tree_ok G) ts.
  Proof. intros H. destruct sound_mut as [S _]. apply (S _ _ _ H). Qed.
End Sound.
