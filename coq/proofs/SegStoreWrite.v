(** [write] (with [build_skip_list]) preserves the layout invariant, and skip
    lists are transparent: erasing them changes no answer. *)
From Aranya Require Import base.Tactics gen.GenQueue model.TravQueue model.SegStore
  proofs.TravQueueVec proofs.TravQueueMoves proofs.TravQueueSpec proofs.TravQueueProofs
  proofs.SegStoreGraph proofs.SegStoreSearch.

(** * Growing the store *)
Lemma lookup_app i (a b : store) :
  lookup i (a ++ b) = match lookup i a with Some x => Some x | None => lookup i b end.
Proof.
  induction a as [|[j x] a IH]; cbn [app lookup]; auto. destruct (j =? i)%N; auto.
Qed.

Section Grow.
Variables (st : store) (idx : N) (ns : segment).
Hypothesis Hok : store_ok st.
Hypothesis Hfresh : lookup idx st = None.
Let st' := st ++ [(idx, ns)].

Lemma lookup_old i x : lookup i st = Some x -> lookup i st' = Some x.
Proof. intro H. unfold st'. now rewrite lookup_app, H. Qed.

Lemma lookup_new : lookup idx st' = Some ns.
Proof. unfold st'. rewrite lookup_app, Hfresh. cbn. now rewrite N.eqb_refl. Qed.

Lemma valid_old l : valid st l -> valid st' l.
Proof. intros (s & Hs & Hin). exists s. split; auto. apply lookup_old. exact Hs. Qed.

Lemma parents_old l : valid st l -> parents st' l = parents st l.
Proof. intros (s & Hs & _). unfold parents. rewrite Hs. unfold get_segment in *. now rewrite (lookup_old _ _ Hs). Qed.

Lemma reach_old a b : reach st a b -> valid st a -> reach st' a b.
Proof.
  induction 1 as [a|a p b Hp Hr IH]; intro Hv; [constructor|].
  destruct (parents_valid st Hok a p Hv Hp) as [Hvp _].
  eapply reach_step; [rewrite parents_old; eauto|auto].
Qed.

Lemma reach_new_old a b : reach st' a b -> valid st a -> reach st a b.
Proof.
  induction 1 as [a|a p b Hp Hr IH]; intro Hv; [constructor|].
  rewrite parents_old in Hp by auto. destruct (parents_valid st Hok a p Hv Hp) as [Hvp _].
  eapply reach_step; eauto.
Qed.

Lemma funnel_old c d : valid st c -> funnel st c d -> funnel st' c d.
Proof.
  intros Hv [Hr Hf]. split; [apply reach_old; auto|].
  intros t Ht Hle. apply reach_new_old in Ht; auto.
  apply reach_old; auto. apply (reach_valid st Hok c d Hr Hv).
Qed.

Lemma first_valid i x : lookup i st = Some x -> s_ids x <> [] -> valid st (first_location i x).
Proof.
  intros Hl Hne. exists x. unfold get_segment, first_location, in_seg. cbn [lseg lmc]. split; auto.
  destruct (s_ids x); [congruence|]. cbn [length]. repeat split; lia.
Qed.

Lemma seg_ok_old i x : lookup i st = Some x -> seg_ok st' i x.
Proof.
  intro Hl. destruct (Hok i x Hl) as (Hne & Hpr & Hsk). split; auto. split.
  - intros p Hp. destruct (Hpr p Hp). split; auto using valid_old.
  - intros k Hk. destruct (Hsk k Hk) as (Hv & Hlt & Hf). repeat split; auto using valid_old.
    + apply funnel_old; auto. apply first_valid; auto.
    + apply funnel_old; auto. apply first_valid; auto.
Qed.

End Grow.

(** * The walk only moves along funnels *)
Lemma min_by_mc_in l : forall b, In (min_by_mc b l) (b :: l).
Proof.
  induction l as [|x l IH]; intro b; cbn [min_by_mc]; [left; auto|].
  destruct (IH (if (lmc x <? lmc b)%N then x else b)) as [H|H].
  - rewrite <- H. destruct (lmc x <? lmc b)%N; [right; left; auto|left; auto].
  - right; right; auto.
Qed.

Lemma insert_by_mc_in x y l : In x (insert_by_mc y l) <-> x = y \/ In x l.
Proof.
  induction l as [|z l IH]; cbn [insert_by_mc]; [cbn; intuition|].
  destruct (lmc y <? lmc z)%N; cbn [In]; [intuition|]. rewrite IH. cbn [In]. intuition.
Qed.

Lemma sort_by_mc_in x l : In x (sort_by_mc l) -> In x l.
Proof.
  unfold sort_by_mc. assert (H : forall acc, In x (fold_left (fun a y => insert_by_mc y a) l acc) -> In x acc \/ In x l).
  { induction l as [|y l IH]; intros acc Hx; cbn [fold_left] in Hx; auto.
    destruct (IH _ Hx) as [H|H]; [|right; right; auto].
    apply insert_by_mc_in in H as [->|H]; [right; left; auto|left; auto]. }
  intro Hx. destruct (H [] Hx) as [[]|]; auto.
Qed.

Lemma dedup_in x l : In x (dedup l) -> In x l.
Proof.
  induction l as [|y l IH]; cbn [dedup]; auto. destruct l as [|z l]; auto.
  destruct (loc_eqb y z).
  - intro H. right. auto.
  - intros [->|H]; [left; auto|right; auto].
Qed.

Section Walk.
Variable st : store.
Hypothesis Hok : store_ok st.
Variable ws : loc.
Hypothesis Hws : valid st ws.

Definition good (k : loc) : Prop := valid st k /\ funnel st ws k.

Lemma record_targets_good first seg_min : forall rt sk,
  good first -> Forall good sk -> Forall good (snd (record_targets first seg_min rt sk)).
Proof.
  induction rt as [|t rt IH]; intros sk Hf Hs; cbn [record_targets snd]; auto.
  destruct (seg_min <=? t)%N; cbn [snd]; auto. apply IH; auto.
  apply Forall_app. split; auto.
Qed.

Lemma walk_good : forall fuel current rt sk out,
  walk_loop fuel st current rt sk = ROk out ->
  good current -> Forall good sk -> Forall good out.
Proof.
  induction fuel as [|f IH]; intros current rt sk out Hw [Hvc Hfc] Hsk; cbn [walk_loop] in Hw; [discriminate|].
  destruct (get_segment st current) as [s|] eqn:Hs; [|discriminate].
  destruct Hvc as (s0 & Hs0 & Hin). assert (s0 = s) by congruence. subst s0.
  destruct Hin as (_ & H1 & H2).
  assert (Hlk : lookup (lseg current) st = Some s) by exact Hs.
  destruct (Hok _ _ Hlk) as (Hne & Hpr & Hskip).
  assert (Hvc : valid st current) by (exists s; repeat split; auto).
  assert (Hgf : good (first_location (lseg current) s)).
  { split; [apply first_valid; auto|]. eapply funnel_trans; eauto. apply funnel_first; auto. }
  pose proof (record_targets_good (first_location (lseg current) s) (s_mc s) rt sk Hgf Hsk) as Hrec.
  destruct (record_targets (first_location (lseg current) s) (s_mc s) rt sk) as [rt' sk']. cbn [snd] in Hrec.
  destruct rt' as [|next rt'']; [inv Hw; auto|].
  destruct (filter _ (s_skip s)) as [|x r] eqn:Ef.
  - destruct (s_prior s) as [|p|l r'] eqn:Ep; try (inv Hw; auto; fail).
    destruct (next <=? lmc p)%N; [|inv Hw; auto].
    apply (IH _ _ _ _ Hw); auto. split.
    + apply Hpr. rewrite ?Ep. left; auto.
    + destruct Hgf as [Hvf Hff]. eapply funnel_trans; eauto. apply funnel_single_prior; auto.
  - apply (IH _ _ _ _ Hw); auto.
    assert (Hin : In (min_by_mc x r) (s_skip s)).
    { pose proof (min_by_mc_in r x) as Hm. rewrite <- Ef in Hm. apply filter_In in Hm. tauto. }
    destruct (Hskip _ Hin) as (Hvk & _ & Hfk). split; auto.
    destruct Hgf as [Hvf Hff]. eapply funnel_trans; eauto.
Qed.

End Walk.

(** * write preserves the invariant *)
(** What the caller of [write] guarantees about the perspective: the prior
    locations exist below the new segment and, for a merge, the recorded last
    common ancestor is a funnel of both parents (what [braiding::lca_pair]
    computes: it only walks along in-segment steps, single priors and recorded
    LCAs). *)
Definition persp_ok (st : store) (p : perspective) : Prop :=
  (forall q, In q (prior_list (p_prior p)) -> valid st q /\ (lmc q < p_mc p)%N)
  /\ match p_prior p with
     | PMerge l r => exists d, p_lca p = Some d /\ valid st d
                       /\ (reach st l d \/ reach st r d)
                       /\ (forall t, reach st l t \/ reach st r t -> (lmc t <= lmc d)%N -> reach st d t)
     | _ => True
     end.

Definition write_preserves_stmt : Prop :=
  forall st idx p st', store_ok st -> lookup idx st = None -> persp_ok st p ->
    write st idx p = ROk st' -> store_ok st'.

Lemma write_preserves_proof : write_preserves_stmt.
Proof.
  intros st idx p st' Hok Hfresh [Hpr Hlca] Hw. unfold write in Hw.
  destruct (p_ids p) as [|i0 ids] eqn:Eids; [discriminate|].
  destruct (build_skip_list st (p_prior p) (p_lca p) (p_mc p)) as [skip|] eqn:Eb; [|discriminate].
  cbn [rbind] in Hw. inv Hw.
  set (ns := {| s_prior := p_prior p; s_ids := i0 :: ids; s_mc := p_mc p; s_skip := skip |}).
  intros i x Hl. rewrite lookup_app in Hl. destruct (lookup i st) as [y|] eqn:Ey.
  { inv Hl. apply seg_ok_old; auto. }
  cbn [lookup] in Hl. destruct (N.eqb_spec idx i); [|discriminate]. inv Hl. fold ns.
  set (st' := st ++ [(i, ns)]).
  assert (Hnew : lookup i st' = Some ns) by (apply lookup_new; auto).
  set (F := first_location i ns).
  assert (HF : parents st' F = prior_list (p_prior p)) by (unfold F; rewrite first_parents; auto).
  (* a walk start [ws] below the new segment through which every older ancestor is reached *)
  assert (Hkey : forall ws, valid st ws -> (lmc ws < p_mc p)%N -> reach st' F ws ->
            (forall t, reach st' F t -> t <> F -> (lmc t <= lmc ws)%N -> reach st ws t) ->
            forall k, good st ws k -> valid st' k /\ (lmc k < p_mc p)%N /\ funnel st' F k).
  { intros ws Hvws Hlt HFws Hall k [Hvk [Hrk Hfk]].
    destruct (reach_valid st Hok ws k Hrk Hvws) as (_ & Hle & _).
    split; [apply valid_old; auto|]. split; [lia|]. split.
    - eapply reach_trans; [exact HFws|]. apply reach_old; auto.
    - intros t Ht Hlet. apply reach_old; auto. apply Hfk; auto. apply Hall; auto; [|lia].
      intros ->. unfold F in Hlet. cbn in Hlet. lia. }
  split; [discriminate|]. split.
  { intros q Hq. destruct (Hpr q Hq). split; auto. apply valid_old; auto. }
  intros k Hk. cbn [s_skip ns] in Hk. cbn [s_mc ns].
  unfold build_skip_list in Eb.
  destruct (p_prior p) as [|l|l r] eqn:Ep.
  - inv Eb. destruct Hk.
  - (* single prior: the walk starts at the prior *)
    cbn [rbind] in Eb. destruct (Hpr l (or_introl eq_refl)) as [Hvl Hltl].
    assert (Hgoodk : good st l k).
    { destruct (has_nearby_rich_anchor st l) as [rich|]; [|discriminate]. cbn [rbind] in Eb.
      destruct (rich || (p_mc p <? MIN_SKIP_GAP)%N); [inv Eb; destruct Hk|].
      destruct (skip_target_boundaries (p_mc p)) as [targets|]; [|discriminate]. cbn [rbind] in Eb.
      destruct (walk_collecting_skips st l targets) as [skips|] eqn:Ew; [|discriminate]. cbn [rbind] in Eb.
      inv Eb. apply dedup_in, sort_by_mc_in in Hk.
      pose proof (walk_good st Hok l Hvl _ _ _ _ _ Ew) as Hg.
      assert (Forall (good st l) skips) as Hall.
      { apply Hg; [split; auto using funnel_refl|constructor]. }
      rewrite Forall_forall in Hall. auto. }
    apply (Hkey l); auto.
    + eapply reach_step; [rewrite HF; left; reflexivity|constructor].
    + intros t Ht Hne _. inversion Ht; subst; [congruence|].
      rewrite HF in H. destruct H as [<-|[]]. apply reach_new_old with (idx := i) (ns := ns); auto.
  - (* merge: the walk starts at the recorded LCA *)
    destruct Hlca as (d & Ed & Hvd & Hrd & Hfd). rewrite Ed in Eb. cbn [rbind] in Eb.
    destruct (Hpr l (or_introl eq_refl)) as [Hvl Hltl].
    destruct (Hpr r (or_intror (or_introl eq_refl))) as [Hvr Hltr].
    assert (Hgoodk : good st d k).
    { assert (Hgd : good st d d) by (split; auto using funnel_refl).
      destruct (has_nearby_rich_anchor st d) as [rich|]; [|discriminate]. cbn [rbind] in Eb.
      destruct (rich || (p_mc p <? MIN_SKIP_GAP)%N); [inv Eb; destruct Hk as [<-|[]]; auto|].
      destruct (skip_target_boundaries (p_mc p)) as [targets|]; [|discriminate]. cbn [rbind] in Eb.
      destruct (walk_collecting_skips st d targets) as [skips|] eqn:Ew; [|discriminate]. cbn [rbind] in Eb.
      inv Eb. apply dedup_in, sort_by_mc_in in Hk.
      pose proof (walk_good st Hok d Hvd _ _ _ _ _ Ew) as Hg.
      assert (Forall (good st d) skips) as Hall by (apply Hg; [auto|constructor]).
      rewrite Forall_forall in Hall.
      destruct (existsb (loc_eqb d) skips); auto.
      apply in_app_or in Hk as [Hk|[<-|[]]]; auto. }
    assert (Hdlt : (lmc d < p_mc p)%N).
    { destruct Hrd as [H|H]; [destruct (reach_valid st Hok l d H Hvl) as (_ & ? & _)|destruct (reach_valid st Hok r d H Hvr) as (_ & ? & _)]; lia. }
    apply (Hkey d); auto.
    + destruct Hrd as [H|H].
      * eapply reach_step; [rewrite HF; left; reflexivity|]. apply reach_old; auto.
      * eapply reach_step; [rewrite HF; right; left; reflexivity|]. apply reach_old; auto.
    + intros t Ht Hne Hle. inversion Ht; subst; [congruence|].
      rewrite HF in H. apply Hfd; auto. destruct H as [<-|[<-|[]]].
      * left. apply reach_new_old with (idx := i) (ns := ns); auto.
      * right. apply reach_new_old with (idx := i) (ns := ns); auto.
Qed.

(** * Skip lists are transparent *)
Definition erase_seg (s : segment) : segment :=
  {| s_prior := s_prior s; s_ids := s_ids s; s_mc := s_mc s; s_skip := [] |}.
Definition erase (st : store) : store := map (fun x => (fst x, erase_seg (snd x))) st.

Lemma lookup_erase i st : lookup i (erase st) = option_map erase_seg (lookup i st).
Proof.
  induction st as [|[j x] st IH]; cbn [erase map lookup fst snd]; auto.
  destruct (j =? i)%N; auto.
Qed.

Lemma parents_erase st l : parents (erase st) l = parents st l.
Proof.
  unfold parents, get_segment. rewrite lookup_erase. destruct (lookup (lseg l) st); reflexivity.
Qed.

Lemma reach_erase st a b : reach (erase st) a b <-> reach st a b.
Proof.
  split; induction 1; try constructor.
  - eapply reach_step; eauto. now rewrite <- parents_erase.
  - eapply reach_step; eauto. now rewrite parents_erase.
Qed.

Lemma valid_erase st l : valid (erase st) l <-> valid st l.
Proof.
  unfold valid, get_segment. rewrite lookup_erase. destruct (lookup (lseg l) st) as [s|]; cbn [option_map].
  - split; intros (s' & E & H); inv E; eexists; split; eauto.
  - split; intros (s' & E & _); discriminate.
Qed.

Lemma id_at_erase st l : id_at (erase st) l = id_at st l.
Proof.
  unfold id_at, get_segment. rewrite lookup_erase. destruct (lookup (lseg l) st); reflexivity.
Qed.

Lemma store_ok_erase st : store_ok st -> store_ok (erase st).
Proof.
  intros Hok i x Hl. rewrite lookup_erase in Hl. destruct (lookup i st) as [s|] eqn:E; [|discriminate].
  inv Hl. destruct (Hok i s E) as (Hne & Hpr & _). split; auto. split.
  - intros p Hp. destruct (Hpr p Hp). split; auto. now apply valid_erase.
  - intros k [].
Qed.

Definition skip_lists_transparent_stmt : Prop :=
  forall st, store_ok st ->
    (* ancestry answers are identical *)
    (forall target start, valid st start ->
       exists b, is_ancestor st target start = ROk b /\ is_ancestor (erase st) target start = ROk b)
    (* lookups find a command with and without skip lists alike; the same location
       whenever at most one location holds the address *)
    /\ (forall hs id mc, heads_ok st hs ->
         exists r r', get_location st hs id mc = ROk r /\ get_location (erase st) hs id mc = ROk r'
           /\ (r = None <-> r' = None)
           /\ ((forall l l', holds st l id mc -> holds st l' id mc -> l = l') -> r = r')).

Lemma skip_lists_transparent_proof : skip_lists_transparent_stmt.
Proof.
  intros st Hok. pose proof (store_ok_erase st Hok) as Hok'. split.
  - intros target start Hv.
    destruct (is_ancestor_exact_here st Hok target start Hv) as (b & Hb & Hiff).
    destruct (is_ancestor_exact_here (erase st) Hok' target start) as (b' & Hb' & Hiff'); [now apply valid_erase|].
    exists b. split; auto. rewrite Hb'. f_equal. rewrite reach_erase in Hiff'.
    destruct b, b'; auto.
    + assert (false = true) by tauto. discriminate.
    + assert (false = true) by tauto. discriminate.
  - intros hs id mc Hh.
    destruct (get_location_exact_here st Hok hs id mc Hh) as (r & Hr & Hspec).
    destruct (get_location_exact_here (erase st) Hok' hs id mc) as (r' & Hr' & Hspec').
    { intros h Hin. apply valid_erase. auto. }
    exists r, r'. split; auto. split; auto.
    assert (Hfh : forall l, from_heads (erase st) hs l <-> from_heads st hs l).
    { intro l. unfold from_heads. split; intros (h & H1 & H2); exists h; split; auto; now apply reach_erase. }
    assert (Hho : forall l, holds (erase st) l id mc <-> holds st l id mc).
    { intro l. unfold holds. now rewrite id_at_erase. }
    split; [split|].
    + intros ->. destruct r' as [l'|]; auto. destruct Hspec' as [H1 H2]. exfalso.
      apply (Hspec l'); [apply Hfh|apply Hho]; auto.
    + intros ->. destruct r as [l|]; auto. destruct Hspec as [H1 H2]. exfalso.
      apply (Hspec' l); [apply Hfh|apply Hho]; auto.
    + intro Huniq. destruct r as [l|], r' as [l'|]; auto.
      * destruct Hspec as [_ H1], Hspec' as [_ H2]. f_equal. apply Huniq; auto. now apply Hho.
      * destruct Hspec as [H1 H2]. exfalso. apply (Hspec' l); [apply Hfh|apply Hho]; auto.
      * destruct Hspec' as [H1 H2]. exfalso. apply (Hspec l'); [apply Hfh|apply Hho]; auto.
Qed.
