(** Graph-level lemmas for the transaction model: ancestry on a well-formed
    graph (Dag.v), the one-pass [closure], [reachset], the sorted tips map. *)
From Aranya Require Import base.Tactics model.Dag model.Txn.
From Coq Require Import Sorted Permutation.

Lemma mem_In i l : mem i l = true <-> In i l.
Proof.
  unfold mem. rewrite existsb_exists. split.
  - intros (x & Hx & E). apply N.eqb_eq in E. subst; auto.
  - intros H. exists i. split; auto. apply N.eqb_refl.
Qed.
Lemma mem_false i l : mem i l = false <-> ~ In i l.
Proof.
  rewrite <- mem_In. destruct (mem i l); intuition congruence.
Qed.

(** * Dag.v: lookup, wf_graph, anc *)
Lemma lookup_Some g i c : lookup g i = Some c -> In c g /\ cid c = i.
Proof.
  induction g as [|d g IH]; cbn; [discriminate|].
  destruct (N.eqb_spec (cid d) i); intros H.
  - inv H. auto.
  - destruct (IH H); auto.
Qed.
Lemma lookup_None g i : lookup g i = None <-> ~ In i (ids g).
Proof.
  induction g as [|d g IH]; cbn; [tauto|].
  destruct (N.eqb_spec (cid d) i); split; intros H; try discriminate.
  - exfalso; apply H; auto.
  - intros [E|E]; [congruence|]. apply IH in H; auto.
  - apply IH. intros E; apply H; auto.
Qed.
Lemma In_ids_lookup g i : In i (ids g) -> exists c, lookup g i = Some c.
Proof.
  intros H. destruct (lookup g i) eqn:E; eauto. apply lookup_None in E. tauto.
Qed.
Lemma lookup_ids g i c : lookup g i = Some c -> In i (ids g).
Proof. intros H. destruct (lookup_Some _ _ _ H) as [Hi <-]. apply in_map; auto. Qed.

Lemma wf_graph_tail c g : wf_graph (c :: g) -> wf_graph g.
Proof. cbn; tauto. Qed.
Lemma wf_graph_NoDup g : wf_graph g -> NoDup (ids g).
Proof. induction g as [|c g IH]; cbn; [constructor|]. intros (H1 & H2 & H3). constructor; auto. Qed.
Lemma wf_lookup_parents g i c p : wf_graph g -> lookup g i = Some c -> In p (parents c) -> In p (ids g).
Proof.
  induction g as [|d g IH]; cbn; [discriminate|]. intros (Hw & Hn & Hp).
  destruct (N.eqb_spec (cid d) i); intros H Hin.
  - inv H. right. auto.
  - right. eapply IH; eauto.
Qed.
Lemma wf_graph_app a g : wf_graph (a ++ g) -> wf_graph g.
Proof. induction a; cbn; auto. intros (H & _); auto. Qed.

Lemma anc_ids g a b : wf_graph g -> anc g a b -> In a (ids g) /\ In b (ids g).
Proof.
  intros Hw H; induction H as [i Hi | a p i (c & Hl & Hp) _ [IH1 IH2]]; auto.
  split; auto. eapply lookup_ids; eauto.
Qed.

Lemma anc_trans g a b c : anc g a b -> anc g b c -> anc g a c.
Proof.
  intros Hab Hbc; revert a Hab. induction Hbc as [i Hi | b p i Hp _ IH]; auto.
  intros a Hab. eapply anc_step; eauto.
Qed.

(** (A) ancestry of an older command does not see a newer one *)
Lemma anc_cons_other c g x h :
  wf_graph (c :: g) -> h <> cid c -> (anc (c :: g) x h <-> anc g x h).
Proof.
  intros Hw Hne. pose proof Hw as (Hwg & Hn & Hp). split.
  - intros H. induction H as [i Hi | a p i (d & Hl & Hpd) _ IH].
    + apply anc_refl. cbn in Hi. destruct Hi; [congruence|auto].
    + cbn in Hl. destruct (N.eqb_spec (cid c) i); [congruence|].
      assert (Hpi : In p (ids g)) by (eapply wf_lookup_parents; eauto).
      apply anc_step with p; [exists d; auto|]. apply IH. intros ->; auto.
  - intros H. induction H as [i Hi | a p i (d & Hl & Hpd) Ha IH].
    + apply anc_refl. cbn; auto.
    + assert (Hpi : In p (ids g)) by (eapply wf_lookup_parents; eauto).
      apply anc_step with p.
      * exists d. split; auto. cbn. destruct (N.eqb_spec (cid c) i); [congruence|auto].
      * apply IH. intros ->; auto.
Qed.

(** (B) ancestry of the newest command *)
Lemma anc_cons_self c g x :
  wf_graph (c :: g) -> (anc (c :: g) x (cid c) <-> x = cid c \/ exists p, In p (parents c) /\ anc g x p).
Proof.
  intros Hw. pose proof Hw as (Hwg & Hn & Hp). split.
  - intros H. remember (cid c) as h eqn:Eh. destruct H as [i Hi | a p i (d & Hl & Hpd) Ha]; auto.
    subst i. cbn in Hl. rewrite N.eqb_refl in Hl. inv Hl.
    right. exists p. split; auto. apply (anc_cons_other d g a p Hw); auto.
    intros ->. apply Hn. apply Hp; auto.
  - intros [-> | (p & Hpin & Ha)].
    + apply anc_refl. cbn; auto.
    + apply anc_step with p.
      * exists c. cbn. rewrite N.eqb_refl. auto.
      * apply anc_cons_other; auto. intros ->. apply Hn. apply Hp; auto.
Qed.

Lemma anc_new_is_top c g h : wf_graph (c :: g) -> anc (c :: g) (cid c) h -> h = cid c.
Proof.
  intros Hw H. destruct (N.eq_dec h (cid c)); auto.
  apply anc_cons_other in H; auto. apply anc_ids in H; [|eapply wf_graph_tail; eauto].
  destruct Hw as (_ & Hn & _). tauto.
Qed.

Lemma anc_antisym g a b : wf_graph g -> anc g a b -> anc g b a -> a = b.
Proof.
  induction g as [|c g IH]; intros Hw Hab Hba.
  - apply anc_ids in Hab; auto. cbn in Hab. tauto.
  - destruct (N.eq_dec a (cid c)) as [->|Ha].
    + symmetry. eapply anc_new_is_top; eauto.
    + destruct (N.eq_dec b (cid c)) as [->|Hb].
      * eapply anc_new_is_top; eauto.
      * apply anc_cons_other in Hab; auto. apply anc_cons_other in Hba; auto.
        apply IH; auto. eapply wf_graph_tail; eauto.
Qed.

(** stability under growth *)
Lemma anc_app new g x h :
  wf_graph (new ++ g) -> In h (ids g) -> (anc (new ++ g) x h <-> anc g x h).
Proof.
  induction new as [|c new IH]; cbn [app]; [tauto|].
  intros Hw Hh. rewrite anc_cons_other; auto.
  - apply IH; auto. eapply wf_graph_tail; eauto.
  - destruct Hw as (_ & Hn & _). intros ->. apply Hn. unfold ids. rewrite map_app. apply in_or_app; auto.
Qed.

(** a proper ancestor has a child on the way *)
Lemma anc_child g x h : anc g x h -> x <> h -> exists y, parent_of g x y /\ anc g y h.
Proof.
  intros H. induction H as [i Hi | a p i Hp Ha IH]; [congruence|].
  intros Hne. destruct (N.eq_dec a p) as [->|Hap].
  - exists i. split; auto. apply anc_refl. destruct Hp as (c & Hl & _). eapply lookup_ids; eauto.
  - destruct (IH Hap) as (y & Hy & Hyp). exists y. split; auto. eapply anc_step; eauto.
Qed.

Lemma parent_anc g p i : wf_graph g -> parent_of g p i -> anc g p i.
Proof.
  intros Hw (c & Hl & Hp). eapply anc_step; [exists c; eauto|].
  apply anc_refl. eapply wf_lookup_parents; eauto.
Qed.

Lemma parent_not_self g p i : wf_graph g -> parent_of g p i -> p <> i.
Proof.
  induction g as [|c g IH]; intros Hw (d & Hl & Hp); [discriminate|].
  cbn in Hl. destruct (N.eqb_spec (cid c) i).
  - inv Hl. destruct Hw as (_ & Hn & Hpp). intros ->. apply Hn. auto.
  - apply IH; [eapply wf_graph_tail; eauto|]. exists d; auto.
Qed.

Section W.
Variable facts : Type.
Notation wcmd := (wcmd facts).
Implicit Types (W : list wcmd) (w : wcmd).

Lemma ids_sg W : ids (sg W) = map wid W.
Proof. unfold ids, sg. rewrite map_map. reflexivity. Qed.

Lemma wlookup_Some W i w : wlookup W i = Some w -> In w W /\ wid w = i.
Proof.
  induction W as [|d W IH]; cbn; [discriminate|].
  destruct (N.eqb_spec (wid d) i); intros H.
  - inv H. auto.
  - destruct (IH H); auto.
Qed.
Lemma wlookup_None W i : wlookup W i = None <-> ~ In i (map wid W).
Proof.
  induction W as [|d W IH]; cbn; [tauto|].
  destruct (N.eqb_spec (wid d) i); split; intros H; try discriminate.
  - exfalso; apply H; auto.
  - intros [E|E]; [congruence|]. apply IH in H; auto.
  - apply IH. intros E; apply H; auto.
Qed.
Lemma wlookup_In_ids W i : In i (map wid W) -> exists w, wlookup W i = Some w.
Proof. intros H. destruct (wlookup W i) eqn:E; eauto. apply wlookup_None in E; tauto. Qed.
Lemma wlookup_lookup W i : lookup (sg W) i = option_map wc (wlookup W i).
Proof.
  induction W as [|d W IH]; cbn; auto. unfold wid at 1. destruct (cid (wc d) =? i)%N; auto.
Qed.
Lemma wlookup_unique W w : NoDup (map wid W) -> In w W -> wlookup W (wid w) = Some w.
Proof.
  induction W as [|d W IH]; cbn; [tauto|]. intros Hn [->|Hin].
  - rewrite N.eqb_refl; auto.
  - inv Hn. destruct (N.eqb_spec (wid d) (wid w)) as [E|E]; auto.
    exfalso. apply H1. rewrite E. apply in_map; auto.
Qed.
Lemma wlookup_app new W i : ~ In i (map wid new) -> wlookup (new ++ W) i = wlookup W i.
Proof.
  induction new as [|d new IH]; cbn; auto. intros H.
  destruct (N.eqb_spec (wid d) i); [exfalso; auto|]. apply IH; auto.
Qed.

(** reachability predicate *)
Definition R W (hs : list N) (x : N) : Prop := exists h, In h hs /\ anc (sg W) x h.

Lemma R_app W a b x : R W (a ++ b) x <-> R W a x \/ R W b x.
Proof.
  unfold R. split.
  - intros (h & Hh & Ha). apply in_app_or in Hh. destruct Hh; [left|right]; eauto.
  - intros [(h & Hh & Ha)|(h & Hh & Ha)]; exists h; split; auto; apply in_or_app; auto.
Qed.
Lemma R_in W hs x : wf_graph (sg W) -> R W hs x -> In x (map wid W).
Proof. intros Hw (h & _ & Ha). apply anc_ids in Ha; auto. rewrite <- ids_sg. tauto. Qed.
Lemma R_self W hs x : In x hs -> In x (map wid W) -> R W hs x.
Proof. intros H1 H2. exists x. split; auto. apply anc_refl. rewrite ids_sg; auto. Qed.
Lemma R_trans W hs x y : R W hs x -> anc (sg W) y x -> R W hs y.
Proof. intros (h & Hh & Ha) Hy. exists h. split; auto. eapply anc_trans; eauto. Qed.
Lemma R_mono W hs hs' x : (forall h, In h hs -> R W hs' h) -> R W hs x -> R W hs' x.
Proof. intros H (h & Hh & Ha). eapply R_trans; eauto. Qed.
Lemma R_grow new W hs x :
  wf_graph (sg (new ++ W)) -> (forall h, In h hs -> In h (map wid W)) -> (R (new ++ W) hs x <-> R W hs x).
Proof.
  intros Hw Hin. unfold R, sg in *. rewrite map_app in *. split; intros (h & Hh & Ha); exists h; split; auto.
  - apply anc_app in Ha; auto. fold (sg W). rewrite ids_sg; auto.
  - apply anc_app; auto. fold (sg W). rewrite ids_sg; auto.
Qed.

(** [closure] computes [R] *)
Lemma closure_spec W : wf_graph (sg W) -> forall S x, In x (closure W S) <-> R W S x.
Proof.
  induction W as [|w W IH]; intros Hw S x.
  - cbn. split; [tauto|]. intros (h & _ & Ha). apply anc_ids in Ha; auto. cbn in Ha. tauto.
  - assert (Hwt : wf_graph (sg W)) by (eapply wf_graph_tail; exact Hw).
    cbn [closure]. change (sg (w :: W)) with (wc w :: sg W) in *.
    destruct (mem (wid w) S) eqn:Em.
    + apply mem_In in Em. cbn [In]. rewrite IH by auto. split.
      * intros [<- | (h & Hh & Ha)].
        -- exists (wid w). split; auto. apply anc_refl. cbn; auto.
        -- apply in_app_or in Hh. destruct Hh as [Hh|Hh].
           ++ exists (wid w). split; auto. apply anc_cons_self; auto. right; eauto.
           ++ destruct (N.eq_dec h (wid w)) as [->|Hne].
              ** apply anc_ids in Ha; auto. destruct Hw as (_ & Hn & _). tauto.
              ** exists h. split; auto. apply anc_cons_other; auto.
      * intros (h & Hh & Ha). destruct (N.eq_dec h (wid w)) as [->|Hne].
        -- apply anc_cons_self in Ha; auto. destruct Ha as [->|(p & Hp & Ha)]; auto.
           right. exists p. split; auto. apply in_or_app; auto.
        -- apply anc_cons_other in Ha; auto. right. exists h. split; auto. apply in_or_app; auto.
    + apply mem_false in Em. rewrite IH by auto. split; intros (h & Hh & Ha); exists h; split; auto.
      * apply anc_cons_other; auto. intros ->; auto.
      * apply anc_cons_other in Ha; auto. intros ->; auto.
Qed.

Lemma closure_grow new W S :
  (forall h, In h S -> ~ In h (map wid new)) -> closure (new ++ W) S = closure W S.
Proof.
  induction new as [|d new IH]; cbn [app closure]; auto. intros H.
  destruct (mem (wid d) S) eqn:E.
  - apply mem_In in E. exfalso. eapply H; eauto. cbn; auto.
  - apply IH. intros h Hh Hin. eapply H; eauto. cbn; auto.
Qed.

Lemma closure_sub W S x : In x (closure W S) -> In x (map wid W).
Proof.
  revert S; induction W as [|w W IH]; cbn; [tauto|]. intros S.
  destruct (mem (wid w) S); cbn; intros H.
  - destruct H; eauto.
  - eauto.
Qed.

(** * [reachset] *)
Lemma ins_cmd_In (c : wcmd) l x : In x (ins_cmd c l) -> x = c \/ In x l.
Proof.
  induction l as [|d l IH]; cbn; [intuition congruence|].
  destruct (wid c <? wid d)%N; cbn; [intuition congruence|]. destruct (wid c =? wid d)%N; cbn; [tauto|].
  intros [->|H]; auto. destruct (IH H); auto.
Qed.
Lemma ins_cmd_ids (c : wcmd) l i : In i (map wid (ins_cmd c l)) <-> i = wid c \/ In i (map wid l).
Proof.
  induction l as [|d l IH]; cbn; [intuition|].
  destruct (N.ltb_spec (wid c) (wid d)); cbn; [intuition|].
  destruct (N.eqb_spec (wid c) (wid d)) as [E|E]; cbn.
  - rewrite E. intuition.
  - rewrite IH. intuition.
Qed.

Definition wlt (a b : wcmd) : Prop := (wid a < wid b)%N.

Lemma ins_cmd_sorted (c : wcmd) l : StronglySorted wlt l -> StronglySorted wlt (ins_cmd c l).
Proof.
  induction l as [|d l IH]; cbn; intros Hs.
  - repeat constructor.
  - inv Hs. destruct (N.ltb_spec (wid c) (wid d)).
    + constructor; [constructor; auto|]. constructor; auto.
      rewrite Forall_forall in *. intros y Hy. unfold wlt in *. specialize (H2 y Hy). lia.
    + destruct (N.eqb_spec (wid c) (wid d)); [constructor; auto|].
      constructor; auto. rewrite Forall_forall in *. intros y Hy.
      apply ins_cmd_In in Hy. destruct Hy as [->|Hy]; auto. unfold wlt. lia.
Qed.

(** a new element of a list with unique ids really gets inserted *)
Lemma ins_cmd_In_new (c : wcmd) l : ~ In (wid c) (map wid l) -> In c (ins_cmd c l).
Proof.
  induction l as [|d l IH]; cbn; auto. intros H.
  destruct (wid c <? wid d)%N; cbn; auto.
  destruct (N.eqb_spec (wid c) (wid d)) as [E|E]; [exfalso; auto|]. cbn. right. apply IH. tauto.
Qed.
Lemma ins_cmd_keeps (c : wcmd) l x : In x l -> In x (ins_cmd c l).
Proof.
  induction l as [|d l IH]; cbn; [tauto|]. intros H.
  destruct (wid c <? wid d)%N; cbn; auto. destruct (wid c =? wid d)%N; cbn; auto.
  destruct H; auto.
Qed.

Definition rfold (cl : list N) W : list wcmd :=
  fold_right (fun w acc => if mem (wid w) cl then ins_cmd w acc else acc) [] W.

Lemma rfold_sorted cl W : StronglySorted wlt (rfold cl W).
Proof.
  induction W as [|w W IH]; cbn; [constructor|]. destruct (mem (wid w) cl); auto. apply ins_cmd_sorted; auto.
Qed.
Lemma rfold_In cl W x : NoDup (map wid W) -> (In x (rfold cl W) <-> In x W /\ In (wid x) cl).
Proof.
  revert x; induction W as [|w W IH]; intros x; cbn; [tauto|]. intros Hn. inv Hn.
  fold (rfold cl W) in *.
  assert (IH' : forall y, In y (rfold cl W) <-> In y W /\ In (wid y) cl) by (intros y; apply IH; auto).
  clear IH; rename IH' into IH.
  destruct (mem (wid w) cl) eqn:E.
  - apply mem_In in E. split.
    + intros H. apply ins_cmd_In in H. destruct H as [->|H]; auto. apply IH in H; tauto.
    + intros [[->|H] Hc].
      * apply ins_cmd_In_new. intros Hin. apply H1.
        apply in_map_iff in Hin. destruct Hin as (y & Ey & Hy). rewrite <- Ey.
        apply in_map. apply IH in Hy. tauto.
      * apply ins_cmd_keeps. apply IH; auto.
  - apply mem_false in E. rewrite IH. split; [tauto|]. intros [[->|H] Hc]; tauto.
Qed.
Lemma rfold_app cl new W :
  (forall w, In w new -> ~ In (wid w) cl) -> rfold cl (new ++ W) = rfold cl W.
Proof.
  induction new as [|d new IH]; cbn [app]; auto. intros H. cbn.
  destruct (mem (wid d) cl) eqn:E.
  - apply mem_In in E. exfalso. eapply H; eauto. cbn; auto.
  - apply IH. intros w Hw. apply H. cbn; auto.
Qed.

Lemma reachset_rfold W hs : reachset W hs = rfold (closure W hs) W.
Proof. reflexivity. Qed.

Lemma reachset_In W hs x :
  wf_graph (sg W) -> (In x (reachset W hs) <-> In x W /\ R W hs (wid x)).
Proof.
  intros Hw. rewrite reachset_rfold, rfold_In.
  - rewrite closure_spec; auto. tauto.
  - rewrite <- ids_sg. apply wf_graph_NoDup; auto.
Qed.

Lemma reachset_grow new W hs :
  wf_graph (sg (new ++ W)) -> (forall h, In h hs -> In h (map wid W)) ->
  reachset (new ++ W) hs = reachset W hs.
Proof.
  intros Hw Hin.
  assert (Hn : NoDup (map wid (new ++ W))) by (rewrite <- ids_sg; apply wf_graph_NoDup; auto).
  rewrite map_app in Hn.
  assert (Hdis : forall i, In i (map wid W) -> ~ In i (map wid new)).
  { intros i Hi Hi'. revert Hn Hi Hi'. generalize (map wid W) (map wid new). intros l1 l2.
    induction l2 as [|a l2 IH]; cbn; [tauto|]. intros Hn Hi [->|Hi'].
    - inv Hn. apply H1. apply in_or_app; auto.
    - inv Hn. auto. }
  rewrite !reachset_rfold.
  assert (Ecl : closure (new ++ W) hs = closure W hs) by (apply closure_grow; intros h Hh; auto).
  rewrite Ecl. apply rfold_app. intros w Hw' Hc. apply closure_sub in Hc.
  apply (Hdis _ Hc). apply in_map; auto.
Qed.

(** two strictly sorted lists with the same elements are equal *)
Lemma sorted_ext (l1 l2 : list wcmd) :
  StronglySorted wlt l1 -> StronglySorted wlt l2 -> (forall x, In x l1 <-> In x l2) -> l1 = l2.
Proof.
  revert l2; induction l1 as [|a l1 IH]; intros l2 H1 H2 Hx.
  - destruct l2 as [|b l2]; auto. exfalso. apply (Hx b). cbn; auto.
  - destruct l2 as [|b l2]; [exfalso; apply (Hx a); cbn; auto|].
    apply StronglySorted_inv in H1. destruct H1 as [S1 F1].
    apply StronglySorted_inv in H2. destruct H2 as [S2 F2].
    rewrite Forall_forall in F1, F2.
    assert (a = b).
    { destruct (proj1 (Hx a)) as [E|Ha]; [cbn; auto|auto|].
      destruct (proj2 (Hx b)) as [E|Hb]; [cbn; auto|auto|].
      specialize (F1 _ Hb). specialize (F2 _ Ha). unfold wlt in *. lia. }
    subst b. f_equal. apply IH; auto. intros x. split; intros Hin.
    + destruct (proj1 (Hx x)) as [E|Hb]; [cbn; auto| |auto]. subst x. specialize (F1 _ Hin). unfold wlt in F1. lia.
    + destruct (proj2 (Hx x)) as [E|Hb]; [cbn; auto| |auto]. subst x. specialize (F2 _ Hin). unfold wlt in F2. lia.
Qed.

(** * tips *)
Lemma tins_In i l x : In x (tins i l) <-> x = i \/ In x l.
Proof.
  induction l as [|j l IH]; cbn; [intuition|].
  destruct (N.ltb_spec i j); cbn; [intuition|].
  destruct (N.eqb_spec i j) as [E|E]; cbn.
  - subst. intuition.
  - rewrite IH. intuition.
Qed.
Lemma tins_sorted i l : StronglySorted N.lt l -> StronglySorted N.lt (tins i l).
Proof.
  induction l as [|j l IH]; cbn; intros Hs.
  - repeat constructor.
  - inv Hs. destruct (N.ltb_spec i j).
    + constructor; [constructor; auto|]. constructor; auto.
      rewrite Forall_forall in *. intros y Hy. specialize (H2 y Hy). lia.
    + destruct (N.eqb_spec i j); [constructor; auto|].
      constructor; auto. rewrite Forall_forall in *. intros y Hy.
      apply tins_In in Hy. destruct Hy as [->|Hy]; auto. lia.
Qed.
Lemma trem_In i l x : StronglySorted N.lt l -> (In x (trem i l) <-> In x l /\ x <> i).
Proof.
  induction l as [|j l IH]; cbn; [tauto|]. intros Hs. inv Hs. rewrite Forall_forall in H2.
  destruct (N.eqb_spec i j) as [E|E].
  - subst. split.
    + intros H. split; auto. intros ->. specialize (H2 _ H). lia.
    + intros [[->|H] Hne]; [congruence|auto].
  - cbn. rewrite IH by auto. split.
    + intros [->|[H Hne]]; auto.
    + intros [[->|H] Hne]; auto.
Qed.
Lemma trem_sorted i l : StronglySorted N.lt l -> StronglySorted N.lt (trem i l).
Proof.
  induction l as [|j l IH]; cbn; intros Hs; auto. inv Hs.
  destruct (N.eqb_spec i j); auto. constructor; auto.
  rewrite Forall_forall in *. intros y Hy. apply trem_In in Hy; auto. apply H2. tauto.
Qed.
Lemma tins_sorted_id l : StronglySorted N.lt l -> fold_left (fun acc i => tins i acc) l [] = l.
Proof.
  (* inserting the elements of a sorted list one by one rebuilds it *)
  intros Hs.
  assert (G : forall pre l, StronglySorted N.lt (pre ++ l) -> fold_left (fun acc i => tins i acc) l pre = pre ++ l).
  { intros pre l0; revert pre; induction l0 as [|a l0 IH]; intros pre Hp; cbn.
    - rewrite app_nil_r; auto.
    - assert (E : tins a pre = pre ++ [a]).
      { clear IH. induction pre as [|b pre IHp]; cbn; auto. cbn in Hp. inv Hp.
        rewrite Forall_forall in H2. assert (b < a)%N by (apply H2; apply in_or_app; cbn; auto).
        destruct (N.ltb_spec a b); [lia|]. destruct (N.eqb_spec a b); [lia|]. rewrite IHp; auto. }
      rewrite E. rewrite IH; rewrite <- app_assoc; auto. }
  apply (G [] l); auto.
Qed.
Lemma sorted_NoDup l : StronglySorted N.lt l -> NoDup l.
Proof.
  induction l as [|a l IH]; intros Hs; [constructor|]. inv Hs. constructor; auto.
  rewrite Forall_forall in H2. intros Hin. specialize (H2 _ Hin). lia.
Qed.
End W.
