(** Exactly-once at the level of the whole history: the sequence of commands
    that the runtime evaluates to obtain the state stored at a command (or
    the braided state of a head set) — the stored state of the base, itself
    obtained the same way, followed by the braid order — contains every
    non-merge ancestor exactly once, ancestors first, and no merge command. *)
From Aranya Require Import base.Tactics model.Dag model.Braid
  proofs.BraidDag proofs.BraidSpec proofs.BraidMain.

(** The recording policy: accept and append the command id.  The sequence of
    evaluated commands does not depend on the policy (the braid order does
    not), so this is the evaluation sequence under every policy. *)
Definition rec_eval (c : cmd) (f : list N) : outcome (list N) := OAccept (f ++ [cid c]).
Definition trace (g : graph) (i : N) : option (list N) := state_at (list N) rec_eval [] g i.
Definition braid_trace (g : graph) (hs : list N) : option (list N) := braid_state (list N) rec_eval [] g hs.

Definition trace_ok (g : graph) (S : N -> Prop) (t : list N) : Prop :=
  NoDup t
  /\ (forall x, In x t <-> S x /\ is_merge_id g x = false)
  /\ (forall a b, In a t -> In b t -> anc g a b -> a <> b -> before a b t).

Lemma before_app_l {T} (a b : T) l l' : before a b l -> before a b (l ++ l').
Proof. intros [l1 [l2 [l3 ->]]]. exists l1, l2, (l3 ++ l'). rewrite <- app_assoc. cbn [app]. rewrite <- app_assoc. reflexivity. Qed.

Lemma before_app_r {T} (a b : T) l l' : before a b l' -> before a b (l ++ l').
Proof. intros [l1 [l2 [l3 ->]]]. exists (l ++ l1), l2, l3. rewrite <- app_assoc. reflexivity. Qed.

Lemma before_split {T} (a b : T) l l' : In a l -> In b l' -> before a b (l ++ l').
Proof.
  intros Ha Hb. apply in_split in Ha as [l1 [l2 ->]]. apply in_split in Hb as [m1 [m2 ->]].
  exists l1, (l2 ++ m1), m2. rewrite <- app_assoc. cbn [app]. rewrite <- app_assoc. reflexivity.
Qed.

Lemma apply_order_rec g order : forall f, (forall x, In x order -> In x (ids g)) ->
  apply_order (list N) rec_eval g order f = Some (f ++ order).
Proof.
  induction order as [|x r IH]; intros f H; cbn [apply_order]; [rewrite app_nil_r; auto|].
  destruct (ids_lookup g x (H x (or_introl eq_refl))) as [c Hc]. rewrite Hc. unfold rec_eval at 1.
  destruct (lookup_In _ _ _ Hc) as [_ ->].
  rewrite IH by (intros y Hy; apply H; cbn; auto). rewrite <- app_assoc. reflexivity.
Qed.

(** The state of the base followed by the braid order. *)
Lemma compose_trace g hs base order tb : wf_graph g -> single_root g -> hs <> [] -> incl hs (ids g) ->
  braid_L1 g hs = BOk base order ->
  trace_ok g (fun x => anc g x base) tb ->
  trace_ok g (fun x => exists h, In h hs /\ anc g x h) (tb ++ order).
Proof.
  intros Hwf Hsr Hne Hin Hb [T1 [T2 T3]].
  destruct (braid_exactly_once_proof g hs base order Hwf Hsr Hne Hin Hb) as [E1 [[hb [Hhb Hbh]] [E3 [E4 E5]]]].
  split; [|split].
  - apply nodup_app; auto. intros x Hx Ho. apply T2 in Hx as [Hx _]. destruct (E3 x Ho) as [_ [_ Hn]]. auto.
  - intros x. rewrite in_app_iff. split.
    + intros [Hx|Hx].
      * apply T2 in Hx as [Hx Hm]. split; auto. exists hb. split; auto. eapply anc_trans; eauto.
      * destruct (E3 x Hx) as [Hm [Hh _]]. auto.
    + intros [[h [Hh Hx]] Hm]. destruct (E4 x h Hh Hx Hm) as [|Hxb]; auto. left. apply T2. auto.
  - intros a b Ha Hb' Hab Hneq. apply in_app_or in Ha. apply in_app_or in Hb'.
    destruct Ha as [Ha|Ha]; destruct Hb' as [Hb'|Hb'].
    + apply before_app_l. auto.
    + apply before_split; auto.
    + exfalso. apply T2 in Hb' as [Hbb _]. destruct (E3 a Ha) as [_ [_ Hn]]. apply Hn. eapply anc_trans; eauto.
    + apply before_app_r. auto.
Qed.

Lemma is_merge_id_cons c r x : wf_graph (c :: r) -> In x (ids r) -> is_merge_id (c :: r) x = is_merge_id r x.
Proof.
  intros [_ [Hn _]] Hx. unfold is_merge_id. rewrite lookup_cons_other; auto. intros E. apply Hn. rewrite E. auto.
Qed.

Lemma is_merge_id_head c r : is_merge_id (c :: r) (cid c) = is_merge c.
Proof. unfold is_merge_id. cbn. rewrite N.eqb_refl. auto. Qed.

Lemma anc_head c r x : wf_graph (c :: r) -> anc (c :: r) x (cid c) <-> x = cid c \/ exists p, In p (parents c) /\ anc r x p.
Proof.
  intros Hwf. pose proof Hwf as [Hwr [Hn Hp]]. split.
  - intros H. destruct (anc_inv _ _ _ H) as [|[p [Hpp Hxp]]]; auto. right.
    destruct (parent_of_cons_inv _ _ _ _ Hwf Hpp) as [[_ Hin]|[Hne _]]; [|congruence].
    exists p. split; auto. apply (anc_cons_inv c r); auto. intros ->. apply Hn. auto.
  - intros [->|[p [Hin Hx]]]; [apply anc_refl; cbn; auto|].
    eapply anc_step; [exists c; split; [cbn; rewrite N.eqb_refl; auto|exact Hin]|apply anc_cons; auto].
Qed.

(** Lifting a trace of an old command to the extended graph. *)
Lemma trace_ok_cons c r i t : wf_graph (c :: r) -> In i (ids r) ->
  trace_ok r (fun x => anc r x i) t -> trace_ok (c :: r) (fun x => anc (c :: r) x i) t.
Proof.
  intros Hwf Hi [T1 [T2 T3]]. pose proof Hwf as [Hwr [Hn Hp]].
  assert (Hne : i <> cid c) by (intros ->; auto).
  assert (Hin : forall x, In x t -> In x (ids r)).
  { intros x Hx. apply T2 in Hx as [Hx _]. apply (anc_in r x i); auto. }
  split; [auto|split].
  - intros x. rewrite T2. split.
    + intros [Hx Hm]. split; [apply anc_cons; auto|]. rewrite is_merge_id_cons; auto. apply (anc_in r x i); auto.
    + intros [Hx Hm]. apply (anc_cons_inv c r) in Hx; auto. split; auto.
      rewrite is_merge_id_cons in Hm; auto. apply (anc_in r x i); auto.
  - intros a b Ha Hb Hab Hneq. apply T3; auto. apply (anc_cons_inv c r); auto.
    intros ->. apply Hn. auto.
Qed.

Definition trace_exactly_once_stmt : Prop :=
  forall (g : graph) (i : N) (t : list N),
    wf_graph g -> single_root g -> trace g i = Some t ->
    NoDup t
    /\ (forall x, In x t <-> anc g x i /\ is_merge_id g x = false)
    /\ (forall a b, In a t -> In b t -> anc g a b -> a <> b -> before a b t).

Lemma trace_exactly_once_proof : trace_exactly_once_stmt.
Proof.
  intros g. unfold trace, state_at.
  induction g as [|c r IH]; intros i t Hwf Hsr; cbn [state_at_with]; [discriminate|].
  pose proof Hwf as [Hwr [Hn Hp]].
  assert (Hsrr : single_root r) by (intros c1 c2 H1 H2; apply Hsr; cbn; auto).
  destruct (cid c =? i)%N eqn:E.
  - apply N.eqb_eq in E. subst i.
    destruct (cpar c) as [|p|a b] eqn:Ep.
    + (* init *)
      unfold rec_eval. cbn [app]. intros H; inv H.
      split; [constructor; [cbn; tauto|constructor]|split].
      * intros x. rewrite anc_head by auto. unfold parents. rewrite Ep. cbn [In].
        split.
        -- intros [<-|[]]. split; auto. rewrite is_merge_id_head. unfold is_merge. rewrite Ep. auto.
        -- intros [[->|[p [[] _]]] _]. auto.
      * intros a b [<-|[]] [<-|[]] _ Hneq. congruence.
    + (* single parent *)
      assert (Hpr : In p (ids r)) by (apply Hp; unfold parents; rewrite Ep; cbn; auto).
      destruct (state_at_with (list N) rec_eval [] braid_L1 r p) as [tp|] eqn:Etp; [|discriminate].
      unfold rec_eval. intros H; inv H.
      destruct (IH p tp Hwr Hsrr Etp) as [T1 [T2 T3]].
      assert (Hcn : ~ In (cid c) tp).
      { intros Hx. apply T2 in Hx as [Hx _]. apply Hn. apply (anc_in r (cid c) p); auto. }
      split; [|split].
      * apply nodup_app; auto; [constructor; [cbn; tauto|constructor]|]. intros x Hx [<-|[]]. auto.
      * intros x. rewrite in_app_iff, anc_head by auto. unfold parents. rewrite Ep. cbn [In]. rewrite T2. split.
        -- intros [[Hx Hm]|[<-|[]]].
           ++ split; [right; exists p; auto|]. rewrite is_merge_id_cons; auto. apply (anc_in r x p); auto.
           ++ split; auto. rewrite is_merge_id_head. unfold is_merge. rewrite Ep. auto.
        -- intros [[->|[q [[<-|[]] Hx]]] Hm]; auto. left. split; auto.
           rewrite is_merge_id_cons in Hm; auto. apply (anc_in r x p); auto.
      * intros u v Hu Hv Huv Hneq. apply in_app_or in Hu. apply in_app_or in Hv.
        destruct Hv as [Hv|[<-|[]]].
        -- assert (Hvr : In v (ids r)) by (apply T2 in Hv as [Hv _]; apply (anc_in r v p); auto).
           assert (Huv' : anc r u v) by (apply (anc_cons_inv c r); auto; intros ->; auto).
           destruct Hu as [Hu|[<-|[]]].
           ++ apply before_app_l. auto.
           ++ exfalso. apply Hn. apply (anc_in r (cid c) v); auto.
        -- destruct Hu as [Hu|[<-|[]]]; [|congruence]. apply before_split; cbn; auto.
    + (* merge: the stored state is the braid of the two parents *)
      assert (Har : In a (ids r)) by (apply Hp; unfold parents; rewrite Ep; cbn; auto).
      assert (Hbr : In b (ids r)) by (apply Hp; unfold parents; rewrite Ep; cbn; auto).
      assert (Hinc : incl [a; b] (ids r)) by (intros x [<-|[<-|[]]]; auto).
      destruct (braid_L1 r [a; b]) as [base order| |] eqn:Eb; try discriminate.
      destruct (state_at_with (list N) rec_eval [] braid_L1 r base) as [tb|] eqn:Etb; [|discriminate].
      destruct (braid_exactly_once_proof r [a; b] base order Hwr Hsrr ltac:(discriminate) Hinc Eb) as [E1 [E2 [E3 _]]].
      rewrite apply_order_rec.
      2:{ intros x Hx. destruct (E3 x Hx) as [_ [[h [Hh Hxh]] _]]. apply (anc_in r x h); auto. }
      intros H; inv H.
      pose proof (IH base tb Hwr Hsrr Etb) as Tb.
      pose proof (compose_trace r [a; b] base order tb Hwr Hsrr ltac:(discriminate) Hinc Eb Tb) as [T1 [T2 T3]].
      assert (Hin : forall x, In x (tb ++ order) -> In x (ids r)).
      { intros x Hx. apply T2 in Hx as [[h [Hh Hx]] _]. apply (anc_in r x h); auto. }
      split; [auto|split].
      * intros x. rewrite T2, anc_head by auto. unfold parents. rewrite Ep. split.
        -- intros [[h [Hh Hx]] Hm]. split; [right; exists h; auto|]. rewrite is_merge_id_cons; auto. apply (anc_in r x h); auto.
        -- intros [[->|[h [Hh Hx]]] Hm].
           ++ rewrite is_merge_id_head in Hm. unfold is_merge in Hm. rewrite Ep in Hm. discriminate.
           ++ split; [eauto|]. rewrite is_merge_id_cons in Hm; auto. apply (anc_in r x h); auto.
      * intros u v Hu Hv Huv Hneq. apply T3; auto. apply (anc_cons_inv c r); auto.
        intros ->. apply Hn. auto.
  - intros H. apply N.eqb_neq in E.
    destruct (state_at_with (list N) rec_eval [] braid_L1 r i) eqn:Est; [|discriminate]. inv H.
    assert (Hi : In i (ids r)).
    { clear - Est. revert Est. generalize i t. induction r as [|x r IHr]; intros j u; cbn [state_at_with]; [discriminate|].
      destruct (cid x =? j)%N eqn:Ex; [apply N.eqb_eq in Ex; cbn; auto|]. intros H. right. eapply IHr; eauto. }
    apply (trace_ok_cons c r i t Hwf Hi). apply IH; auto.
Qed.

(** The same for the state obtained by braiding several heads (a multi-head commit). *)
Definition braid_trace_exactly_once_stmt : Prop :=
  forall (g : graph) (hs : list N) (t : list N),
    wf_graph g -> single_root g -> hs <> [] -> incl hs (ids g) -> braid_trace g hs = Some t ->
    NoDup t
    /\ (forall x, In x t <-> (exists h, In h hs /\ anc g x h) /\ is_merge_id g x = false)
    /\ (forall a b, In a t -> In b t -> anc g a b -> a <> b -> before a b t).

Lemma braid_trace_exactly_once_proof : braid_trace_exactly_once_stmt.
Proof.
  intros g hs t Hwf Hsr Hne Hin. unfold braid_trace, braid_state, braid_state_with.
  destruct (braid_L1 g hs) as [base order| |] eqn:Eb; try discriminate.
  fold (state_at (list N) rec_eval [] g base). fold (trace g base).
  destruct (trace g base) as [tb|] eqn:Etb; [|discriminate].
  destruct (braid_exactly_once_proof g hs base order Hwf Hsr Hne Hin Eb) as [E1 [E2 [E3 _]]].
  rewrite apply_order_rec.
  2:{ intros x Hx. destruct (E3 x Hx) as [_ [[h [Hh Hxh]] _]]. apply (anc_in g x h); auto. }
  intros H; inv H.
  apply (compose_trace g hs base order tb); auto.
  apply (trace_exactly_once_proof g base tb); auto.
Qed.

Example trace_example : trace g_simple 101%N = Some [1; 2; 4; 3]%N.
Proof. vm_compute. reflexivity. Qed.
