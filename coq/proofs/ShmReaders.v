(** Reader-side invariants of [model/Shm.v] and the C41 / C40 theorems for the
    shared-memory state. *)
From Coq Require Import String.
From Aranya Require Import gen.GenShm base.Tactics base.Sched model.Shm
  proofs.ShmLists proofs.ShmSteps proofs.ShmProofs.
From Coq Require Import Permutation.

(** ** helpers *)
Lemma Forall_set_ctx (P : ctx -> Prop) l : forall i x, Forall P l -> P x -> Forall P (set_ctx l i x).
Proof.
  induction l as [|y l IH]; intros [|i] x H Hx; cbn; auto; inv H; constructor; auto.
Qed.

Lemma reg_wstep_incl g : incl (reg g) (reg (wstep g)).
Proof.
  unfold wstep. destruct (wprog (wt g)) as [|op rest]; [apply incl_refl|].
  destruct (wpc_ (wt g)); try apply incl_refl.
  - destruct (sec1 op (w_id (wt g)) (side_of (sh g) (w_w (wt g)))); cbn; [apply incl_refl|].
    apply incl_appl, incl_refl.
  - destruct (sec2 op (w_id (wt g)) (w_idx (wt g)) (side_of (sh g) (w_r (wt g)))); apply incl_refl.
Qed.

Lemma rts_wstep g : rts (wstep g) = rts g /\ seqmax (wstep g) = seqmax g.
Proof.
  unfold wstep. destruct (wprog (wt g)) as [|op rest]; auto.
  destruct (wpc_ (wt g)); auto.
  - destruct (sec1 op (w_id (wt g)) (side_of (sh g) (w_w (wt g)))); auto.
  - destruct (sec2 op (w_id (wt g)) (w_idx (wt g)) (side_of (sh g) (w_r (wt g)))); auto.
Qed.

Lemma seqmax_step t g : seqmax (step t g) = seqmax g.
Proof. destruct t; cbn; [apply rts_wstep|reflexivity]. Qed.

Lemma cache_of_nth cs c d oc :
  cache_of cs c d = Some oc -> exists x, nth_error cs c = Some x /\ xdir x = d /\ xcache x = oc.
Proof. apply cache_of_some. Qed.

(** ** Contexts always refer to a registered channel (no hypothesis) *)
Definition ctx_reg (rg : list chan) (x : ctx) : Prop :=
  (exists c, In c rg /\ cid c = xid x /\ cdir c = xdir x)
  /\ forall k, xcache x = Some k ->
       kid k = xid x
       /\ exists c, In c rg /\ cid c = kid k /\ cdir c = xdir x /\ ckey c = kkey k /\ clabel c = klabel k.

Definition reginv (g : G) : Prop := Forall (fun r => Forall (ctx_reg (reg g)) (rctxs r)) (rts g).

Lemma ctx_reg_mono rg rg' x : incl rg rg' -> ctx_reg rg x -> ctx_reg rg' x.
Proof.
  intros Hi [(c & H1 & H2) Hk]. split.
  - exists c. split; auto.
  - intros k Ek. destruct (Hk k Ek) as (E & c' & H3 & H4). split; auto. exists c'. split; auto.
Qed.

Section WithInv.
Variable CAP : N.

Lemma side_in_reg g o c : inv CAP g -> In c (chans (side_of (sh g) o)) -> In c (reg g).
Proof. intros (_ & Hi & _) Hc. destruct Hi. apply id_reg. destruct o; cbn in Hc; auto. Qed.

Lemma reg_unique g c c' : inv CAP g -> In c (reg g) -> In c' (reg g) -> cid c = cid c' -> c = c'.
Proof. intros (_ & Hi & _). destruct Hi. eapply nodup_ids_unique; eauto. Qed.

(** the outcome of a returning reader step keeps [ctx_reg] *)
Lemma rfin_ctx_reg g r op res cs :
  inv CAP g -> Forall (ctx_reg (reg g)) (rctxs r) ->
  rfin (seqmax g) (sh g) r op res cs -> Forall (ctx_reg (reg g)) cs.
Proof.
  intros Hinv Hall Hf.
  assert (Hget : forall c d oc, cache_of (rctxs r) c d = Some oc ->
            exists x, nth_error (rctxs r) c = Some x /\ xdir x = d /\ xcache x = oc /\ ctx_reg (reg g) x).
  { intros c d oc H. apply cache_of_some in H as (x & H1 & H2 & H3). exists x. split; [auto|]. split; [auto|]. split; [auto|].
    rewrite Forall_forall in Hall. apply Hall. eapply nth_error_In; eauto. }
  inv Hf; auto.
  - (* seal hit *)
    destruct (Hget _ _ _ H0) as (x & _ & Hd & Hc & [Hx Hk]). destruct (Hk k Hc) as (E & Hch).
    apply Forall_set_ctx; auto. split; cbn.
    + rewrite E, <- Hd. exact Hx.
    + intros k' Ek. inv Ek. cbn. split; auto. rewrite <- Hd. exact Hch.
  - (* seal gone *)
    destruct (Hget _ _ _ H0) as (x & _ & Hd & Hc & [Hx Hk]). destruct (Hk k Hc) as (E & Hch).
    apply Forall_set_ctx; auto. split; cbn.
    + rewrite E, <- Hd. exact Hx.
    + intros k' Ek. discriminate.
  - (* seal miss *)
    destruct (fst (sealf (seqmax g) md (kseq k))); auto.
    destruct (Hget _ _ _ H0) as (x & _ & Hd & Hc & [Hx Hk]). destruct (Hk k Hc) as (E & c0 & Hc0 & Hi0 & Hd0 & Hk0 & Hl0).
    apply find_some in H1 as [Hin Hok].
    pose proof (side_in_reg _ _ _ Hinv Hin) as Hreg.
    pose proof (chan_ok_id _ _ _ Hok) as Hid.
    assert (ch = c0) by (eapply reg_unique; eauto; congruence). subst c0.
    apply Forall_set_ctx; auto. split; cbn.
    + rewrite E, <- Hd. exact Hx.
    + intros k' Ek. inv Ek. cbn. split; auto. exists ch. repeat split; auto. congruence.
  - (* open miss *)
    destruct (open_ok (ckey ch) (clabel ch) key label valid); auto.
    destruct (Hget _ _ _ H0) as (x & _ & Hd & Hc & [Hx Hk]). destruct (Hk k Hc) as (E & c0 & Hc0 & Hi0 & Hd0 & Hk0 & Hl0).
    apply find_some in H1 as [Hin Hok].
    pose proof (side_in_reg _ _ _ Hinv Hin) as Hreg.
    pose proof (chan_ok_id _ _ _ Hok) as Hid.
    assert (ch = c0) by (eapply reg_unique; eauto; congruence). subst c0.
    apply Forall_set_ctx; auto. split; cbn.
    + rewrite E, <- Hd. exact Hx.
    + intros k' Ek. inv Ek. cbn. split; auto. exists ch. repeat split; auto. congruence.
  - (* setup *)
    apply Forall_app. split; auto. constructor; auto.
    apply find_some in H0 as [Hin Hok].
    pose proof (side_in_reg _ _ _ Hinv Hin) as Hreg.
    apply chan_ok_dir in Hok as [Hid Hdir].
    split; cbn.
    + exists ch. auto.
    + intros k' Ek. inv Ek. cbn. split; auto. exists ch. repeat split; auto.
Qed.

Lemma reginv_step t g : inv CAP g -> reginv g -> reginv (step t g).
Proof.
  intros Hinv Hr. unfold reginv in *. destruct t as [|i]; cbn [step].
  - destruct (rts_wstep g) as [-> _].
    eapply Forall_impl; [|exact Hr]. intros r Hc.
    eapply Forall_impl; [|exact Hc]. intros x. apply ctx_reg_mono, reg_wstep_incl.
  - cbn [rstep rts reg]. apply Forall_upd_nth; auto.
    intros r _ Hc.
    destruct (rstep1_spec (seqmax g) (sh g) r) as [(_ & -> & _)|(op & res & cs & _ & Hf & ->)]; auto.
    cbn. eapply rfin_ctx_reg; eauto.
Qed.

End WithInv.

(** ** Sequence numbers of one seal context (C40, no hypothesis) *)
Fixpoint seal_seqs (c : nat) (log : list (rop * rres)) : list N :=   (* newest first *)
  match log with
  | [] => []
  | (RSeal c' _, RSealed _ (FOk s) _ _) :: rest => if c' =? c then s :: seal_seqs c rest else seal_seqs c rest
  | _ :: rest => seal_seqs c rest
  end.
(** newest first: the k-th successful seal carries k *)
Fixpoint contig (l : list N) : Prop :=
  match l with
  | [] => True
  | s :: rest => s = N.of_nat (length rest) /\ contig rest
  end.

Definition seq_ok (smax : N) (r : rthread) : Prop :=
  forall c,
    contig (seal_seqs c (rlog r))
    /\ Forall (fun s => (s < smax)%N) (seal_seqs c (rlog r))
    /\ match nth_error (rctxs r) c with
       | Some x => xdir x = DSeal -> forall k, xcache x = Some k -> kseq k = N.of_nat (length (seal_seqs c (rlog r)))
       | None => seal_seqs c (rlog r) = []
       end.

Definition seqinv (g : G) : Prop := Forall (seq_ok (seqmax g)) (rts g).

Lemma sealf_cases smax md sq :
  (fst (sealf smax md sq) = FOk sq /\ snd (sealf smax md sq) = (sq + 1)%N /\ (sq < smax)%N)
  \/ ((forall s, fst (sealf smax md sq) <> FOk s) /\ snd (sealf smax md sq) = sq).
Proof.
  unfold sealf. destruct md.
  - destruct (smax <=? sq)%N eqn:E; cbn.
    + right. split; auto. discriminate.
    + left. repeat split; auto. apply N.leb_gt in E. exact E.
  - right. cbn. split; auto. discriminate.
Qed.

Lemma seal_seqs_cons_other c op res log :
  (forall c' md s k l, op = RSeal c' md -> res = RSealed c' (FOk s) k l -> c' <> c) ->
  (forall c' md c'' s k l, op = RSeal c' md -> res = RSealed c'' (FOk s) k l -> c'' = c') ->
  seal_seqs c ((op, res) :: log) = seal_seqs c log.
Proof.
  intros H Hc. cbn. destruct op; auto. destruct res; auto. destruct f; auto.
  destruct (c0 =? c) eqn:E; auto. apply Nat.eqb_eq in E. subst.
  exfalso. pose proof (Hc _ _ _ _ _ _ eq_refl eq_refl). subst. eapply H; eauto.
Qed.

Lemma rfin_seq_ok smax m r op res cs :
  seq_ok smax r -> rfin smax m r op res cs -> seq_ok smax (r_finish r op res cs).
Proof.
  intros Hok Hf c0. specialize (Hok c0) as (Hcon & Hlt & Hctx). cbn [rlog rctxs r_finish].
  (* the seal cases on this context *)
  assert (Hsame : seal_seqs c0 ((op, res) :: rlog r) = seal_seqs c0 (rlog r) ->
                  match nth_error cs c0 with
                  | Some x => xdir x = DSeal -> forall k, xcache x = Some k -> kseq k = N.of_nat (length (seal_seqs c0 (rlog r)))
                  | None => seal_seqs c0 (rlog r) = []
                  end ->
                  contig (seal_seqs c0 ((op, res) :: rlog r)) /\
                  Forall (fun s => (s < smax)%N) (seal_seqs c0 ((op, res) :: rlog r)) /\
                  match nth_error cs c0 with
                  | Some x => xdir x = DSeal -> forall k, xcache x = Some k -> kseq k = N.of_nat (length (seal_seqs c0 ((op, res) :: rlog r)))
                  | None => seal_seqs c0 ((op, res) :: rlog r) = []
                  end).
  { intros -> H. auto. }
  inv Hf; try (apply Hsame; [reflexivity|exact Hctx]).
  - (* seal hit *)
    apply cache_of_some in H0 as (x & Hn & Hd & Hc).
    destruct (Nat.eq_dec c c0) as [->|Hne].
    + rewrite Hn in Hctx. specialize (Hctx Hd k Hc).
      rewrite set_ctx_nth, Nat.eqb_refl. cbn [andb].
      replace (c0 <? length (rctxs r)) with true
        by (symmetry; apply Nat.ltb_lt, nth_error_Some; congruence).
      destruct (sealf_cases smax md (kseq k)) as [(E1 & E2 & E3)|(E1 & E2)].
      * rewrite E1, E2. cbn [seal_seqs]. rewrite Nat.eqb_refl. cbn [contig length].
        split; [split; auto|]. split; [constructor; auto|].
        intros _ k' Ek. inv Ek. cbn. lia.
      * assert (Hs : seal_seqs c0 ((RSeal c0 md, RSealed c0 (fst (sealf smax md (kseq k))) (kkey k) (klabel k)) :: rlog r)
                     = seal_seqs c0 (rlog r)).
        { cbn. destruct (fst (sealf smax md (kseq k))) eqn:Ef; auto. exfalso. eapply E1; eauto. }
        rewrite Hs. split; auto. split; auto. intros _ k' Ek. inv Ek. cbn. rewrite E2. exact Hctx.
    + apply Hsame.
      * cbn. destruct (fst (sealf smax md (kseq k))); auto.
        replace (c =? c0) with false by (symmetry; apply Nat.eqb_neq; auto). reflexivity.
      * rewrite set_ctx_nth. replace (c =? c0) with false by (symmetry; apply Nat.eqb_neq; auto). exact Hctx.
  - (* seal gone *)
    apply cache_of_some in H0 as (x & Hn & Hd & Hc).
    apply Hsame; [reflexivity|]. rewrite set_ctx_nth.
    destruct ((c =? c0) && (c <? length (rctxs r))) eqn:E; auto.
    + intros _ k' Ek. discriminate.
  - (* seal miss *)
    apply cache_of_some in H0 as (x & Hn & Hd & Hc).
    destruct (Nat.eq_dec c c0) as [->|Hne].
    + rewrite Hn in Hctx. specialize (Hctx Hd k Hc).
      destruct (sealf_cases smax md (kseq k)) as [(E1 & E2 & E3)|(E1 & E2)].
      * rewrite E1, E2. cbn [seal_seqs]. rewrite Nat.eqb_refl. cbn [contig length].
        split; [split; auto|]. split; [constructor; auto|].
        rewrite set_ctx_nth, Nat.eqb_refl. cbn [andb].
        replace (c0 <? length (rctxs r)) with true
          by (symmetry; apply Nat.ltb_lt, nth_error_Some; congruence).
        intros _ k' Ek. inv Ek. cbn. lia.
      * assert (Hs : seal_seqs c0 ((RSeal c0 md, RSealed c0 (fst (sealf smax md (kseq k))) (ckey ch) (clabel ch)) :: rlog r)
                     = seal_seqs c0 (rlog r)).
        { cbn. destruct (fst (sealf smax md (kseq k))) eqn:Ef; auto. exfalso. eapply E1; eauto. }
        rewrite Hs. split; auto. split; auto.
        destruct (fst (sealf smax md (kseq k))) eqn:Ef; [exfalso; eapply E1; eauto| |];
          rewrite Hn; intros _ k' Ek; rewrite Hc in Ek; inv Ek; exact Hctx.
    + apply Hsame.
      * cbn. destruct (fst (sealf smax md (kseq k))); auto.
        replace (c =? c0) with false by (symmetry; apply Nat.eqb_neq; auto). reflexivity.
      * destruct (fst (sealf smax md (kseq k))); auto.
        rewrite set_ctx_nth. replace (c =? c0) with false by (symmetry; apply Nat.eqb_neq; auto). exact Hctx.
  - (* open miss: an open context changes *)
    apply cache_of_some in H0 as (x & Hn & Hd & Hc).
    apply Hsame; [reflexivity|].
    destruct (open_ok (ckey ch) (clabel ch) key label valid); auto.
    rewrite set_ctx_nth. destruct ((c =? c0) && (c <? length (rctxs r))) eqn:E; auto.
    intros Hd'. cbn in Hd'. discriminate.
  - (* setup: a new context at the end *)
    apply Hsame; [reflexivity|].
    destruct (Nat.lt_ge_cases c0 (length (rctxs r))) as [Hlt'|Hge].
    + rewrite nth_error_app1 by auto. exact Hctx.
    + assert (Hnone : nth_error (rctxs r) c0 = None) by (apply nth_error_None; auto).
      rewrite Hnone in Hctx. rewrite nth_error_app2 by auto.
      destruct (c0 - length (rctxs r)) eqn:E; cbn.
      * intros _ k' Ek. inv Ek. cbn. rewrite Hctx. reflexivity.
      * destruct n; exact Hctx.
  - (* invalid *)
    apply Hsame; [|exact Hctx]. cbn. destruct op; reflexivity.
Qed.

Lemma seqinv_step t g : seqinv g -> seqinv (step t g).
Proof.
  intros H. unfold seqinv in *. rewrite seqmax_step. destruct t as [|i]; cbn [step].
  - destruct (rts_wstep g) as [-> _]. exact H.
  - cbn [rstep rts]. apply Forall_upd_nth; auto. intros r _ Hr.
    destruct (rstep1_spec (seqmax g) (sh g) r) as [(E1 & E2 & _)|(op & res & cs & _ & Hf & ->)].
    + intros c. specialize (Hr c). rewrite E1, E2. exact Hr.
    + eapply rfin_seq_ok; eauto.
Qed.

Lemma seqinv_init cap smax wp rps : seqinv (init cap smax wp rps).
Proof.
  unfold seqinv, init. cbn. apply Forall_forall. intros r Hr. apply in_map_iff in Hr as (p & <- & _).
  intros c. cbn. repeat split; auto. destruct c; reflexivity.
Qed.

Lemma reginv_init cap smax wp rps : reginv (init cap smax wp rps).
Proof.
  unfold reginv, init. cbn. apply Forall_forall. intros r Hr. apply in_map_iff in Hr as (p & <- & _). constructor.
Qed.

(** ** Cached generations (needs: no generation wrap) *)
Definition nowrap (g : G) : Prop :=
  (gen (sA (sh g)) < gen_modulus)%N /\ (gen (sB (sh g)) < gen_modulus)%N.

Definition found_in (s : side) (d : dir) (k : cache) : Prop :=
  exists c, In c (chans s) /\ cid c = kid k /\ cdir c = d.

Definition cache_j (m : shm) (x : ctx) : Prop :=
  forall k, xcache x = Some k ->
    (kgen k <= N.max (gen (sA m)) (gen (sB m)))%N
    /\ forall o, gen (side_of m o) = kgen k -> found_in (side_of m o) (xdir x) k.

Definition jinv (g : G) : Prop := Forall (fun r => Forall (cache_j (sh g)) (rctxs r)) (rts g).

Lemma gen_mono_wstep g :
  (gen (sA (sh g)) <= gen (sA (sh (wstep g))))%N /\ (gen (sB (sh g)) <= gen (sB (sh (wstep g))))%N.
Proof.
  unfold wstep. destruct (wprog (wt g)) as [|op rest]; [lia|].
  destruct (wpc_ (wt g)); cbn; try lia.
  - destruct (sec1 op (w_id (wt g)) (side_of (sh g) (w_w (wt g)))) as [r|s' idx] eqn:E; cbn; [lia|].
    pose proof (sec1_go _ _ _ _ _ E) as (_ & _ & Hg & _).
    destruct (w_w (wt g)); cbn in *; destruct Hg as [[-> _]| ->]; lia.
  - destruct (sec2 op (w_id (wt g)) (w_idx (wt g)) (side_of (sh g) (w_r (wt g)))) as [r|s'] eqn:E; cbn; [lia|].
    pose proof (sec2_gen_mono _ _ _ _ _ E) as Hg.
    destruct (w_r (wt g)); cbn in *; lia.
Qed.

Lemma nowrap_back t g : nowrap (step t g) -> nowrap g.
Proof.
  unfold nowrap. destruct t as [|i]; cbn [step]; auto.
  pose proof (gen_mono_wstep g). lia.
Qed.

Lemma load_gen_nowrap g o : nowrap g -> load_gen (side_of (sh g) o) = gen (side_of (sh g) o).
Proof.
  intros [H1 H2]. unfold load_gen. apply N.mod_small. destruct o; auto.
Qed.

Section WithInv2.
Variable CAP : N.

(** equal generations mean equal lists, wherever the writer is *)
Lemma gen_eq_chans g : inv CAP g -> gen (sA (sh g)) = gen (sB (sh g)) -> chans (sA (sh g)) = chans (sB (sh g)).
Proof.
  intros (Hw & _ & _) Hg. unfold winv in Hw.
  assert (Hsync : in_sync (sh g) -> chans (sA (sh g)) = chans (sB (sh g))) by (intros [-> _]; auto).
  destruct (wprog (wt g)) as [|op rest]; auto.
  destruct (wpc_ (wt g)); try (apply Hsync; tauto).
  - destruct Hw as (_ & _ & H2). apply sec2_gen_eq in H2.
    + destruct (w_w (wt g)); cbn in *; congruence.
    + destruct (w_w (wt g)); cbn in *; congruence.
  - destruct Hw as (_ & _ & _ & H2). apply sec2_gen_eq in H2.
    + destruct (w_w (wt g)); cbn in *; congruence.
    + destruct (w_w (wt g)); cbn in *; congruence.
  - destruct Hw as (-> & _). reflexivity.
Qed.

Lemma gen_eq_chans_off g o o' : inv CAP g -> gen (side_of (sh g) o) = gen (side_of (sh g) o') ->
  chans (side_of (sh g) o) = chans (side_of (sh g) o').
Proof.
  intros Hinv. pose proof (gen_eq_chans g Hinv) as H. destruct o, o'; cbn; auto.
  intros E. symmetry. auto.
Qed.

(** a freshly cached generation satisfies [cache_j] *)
Lemma fresh_cache_j g o x k ch :
  inv CAP g -> xcache x = Some k -> kgen k = gen (side_of (sh g) o) ->
  In ch (chans (side_of (sh g) o)) -> cid ch = kid k -> cdir ch = xdir x ->
  cache_j (sh g) x.
Proof.
  intros Hinv Hc Hg Hin Hid Hdir k' Ek. rewrite Hc in Ek. inv Ek. split.
  - rewrite Hg. destruct o; cbn; lia.
  - intros o' Ho'. rewrite Hg in Ho'. unfold found_in. rewrite (gen_eq_chans_off g o' o Hinv Ho').
    exists ch. auto.
Qed.

Lemma rfin_cache_j g r op res cs :
  inv CAP g -> nowrap g -> Forall (cache_j (sh g)) (rctxs r) ->
  rfin (seqmax g) (sh g) r op res cs -> Forall (cache_j (sh g)) cs.
Proof.
  intros Hinv Hnw Hall Hf.
  assert (Hget : forall c d oc, cache_of (rctxs r) c d = Some oc ->
            exists x, nth_error (rctxs r) c = Some x /\ xdir x = d /\ xcache x = oc /\ cache_j (sh g) x).
  { intros c d oc H. apply cache_of_some in H as (x & H1 & H2 & H3). exists x. split; [auto|]. split; [auto|]. split; [auto|].
    rewrite Forall_forall in Hall. apply Hall. eapply nth_error_In; eauto. }
  inv Hf; auto.
  - destruct (Hget _ _ _ H0) as (x & _ & Hd & Hc & Hj).
    apply Forall_set_ctx; auto. intros k' Ek. inv Ek. cbn. rewrite <- Hd. apply (Hj k Hc).
  - apply Forall_set_ctx; auto. intros k' Ek. discriminate.
  - destruct (fst (sealf (seqmax g) md (kseq k))); auto.
    apply Forall_set_ctx; auto.
    apply find_some in H1 as [Hin Hok]. rewrite load_gen_nowrap by auto.
    eapply fresh_cache_j with (ch := ch); eauto; cbn; auto.
    + eapply chan_ok_id; eauto.
    + change OSeal with (op_of_dir DSeal) in Hok. apply chan_ok_dir in Hok. tauto.
  - destruct (open_ok (ckey ch) (clabel ch) key label valid); auto.
    apply Forall_set_ctx; auto.
    apply find_some in H1 as [Hin Hok]. rewrite load_gen_nowrap by auto.
    eapply fresh_cache_j with (ch := ch); eauto; cbn; auto.
    + eapply chan_ok_id; eauto.
    + change OOpen with (op_of_dir DOpen) in Hok. apply chan_ok_dir in Hok. tauto.
  - apply Forall_app. split; auto. constructor; auto.
    apply find_some in H0 as [Hin Hok]. rewrite load_gen_nowrap by auto.
    apply chan_ok_dir in Hok as [Hid Hdir].
    eapply fresh_cache_j with (ch := ch); eauto; cbn; auto.
Qed.

Lemma cache_j_wstep g x : inv CAP g -> cache_j (sh g) x -> cache_j (sh (wstep g)) x.
Proof.
  intros Hinv Hj. pose proof Hinv as (Hw & Hi & _).
  unfold wstep. destruct (wprog (wt g)) as [|op rest] eqn:Ep; auto.
  unfold winv in Hw. rewrite Ep in Hw.
  destruct (wpc_ (wt g)) eqn:Epc; auto.
  - (* W3 *)
    destruct Hw as [[Hsync _] _].
    destruct (sec1 op (w_id (wt g)) (side_of (sh g) (w_w (wt g)))) as [r|s' idx] eqn:E; auto.
    pose proof (sec1_go _ _ _ _ _ E) as (_ & _ & Hg & _).
    cbn [sh]. intros k Ek. destruct (Hj k Ek) as [HK HJ]. split.
    + destruct (w_w (wt g)); cbn in *; destruct Hg as [[-> _]| ->]; lia.
    + intros o Ho.
      destruct (off_eqb o (w_w (wt g))) eqn:Eo.
      * assert (o = w_w (wt g)) by (destruct o, (w_w (wt g)); cbn in Eo; congruence). subst o.
        rewrite side_set_same in *.
        destruct Hg as [[Hg1 Hg2]|Hg1].
        -- destruct (HJ (w_w (wt g))) as (c & H1 & H2); [congruence|]. exists c. rewrite Hg2. auto.
        -- exfalso. rewrite Hg1 in Ho.
           assert (gen (sA (sh g)) = gen (side_of (sh g) (w_w (wt g))) /\ gen (sB (sh g)) = gen (side_of (sh g) (w_w (wt g))))
             by (destruct (w_w (wt g)); cbn; rewrite Hsync; auto).
           lia.
      * assert (o = flip (w_w (wt g))) by (destruct o, (w_w (wt g)); cbn in *; congruence). subst o.
        rewrite side_set_flip in *. auto.
  - (* W5 *)
    destruct Hw as (_ & _ & H3 & H2). rewrite H3, H2. cbn [sh with_sh_wt].
    set (o := w_w (wt g)) in *.
    pose proof (sec2_gen_mono _ _ _ _ _ H2) as Hm.
    intros k Ek. destruct (Hj k Ek) as [HK HJ]. split.
    + destruct o; cbn in *; lia.
    + intros o' Ho'.
      destruct (off_eqb o' o) eqn:Eo.
      * assert (o' = o) by (destruct o', o; cbn in Eo; congruence). subst o'.
        replace (side_of (set_side (sh g) (flip o) (side_of (sh g) o)) o) with (side_of (sh g) o) in *
          by (destruct o; reflexivity). auto.
      * assert (o' = flip o) by (destruct o', o; cbn in *; congruence). subst o'.
        rewrite side_set_same in *. auto.
Qed.

Lemma jinv_step t g : inv CAP g -> jinv g -> nowrap (step t g) -> jinv (step t g).
Proof.
  intros Hinv Hj Hnw. pose proof (nowrap_back _ _ Hnw) as Hnw0.
  unfold jinv in *. destruct t as [|i]; cbn [step].
  - destruct (rts_wstep g) as [-> _].
    eapply Forall_impl; [|exact Hj]. intros r Hc.
    eapply Forall_impl; [|exact Hc]. intros x. apply cache_j_wstep; auto.
  - cbn [rstep rts sh]. apply Forall_upd_nth; auto.
    intros r _ Hc.
    destruct (rstep1_spec (seqmax g) (sh g) r) as [(_ & -> & _)|(op & res & cs & _ & Hf & ->)]; auto.
    cbn. eapply rfin_cache_j; eauto.
Qed.

End WithInv2.

Lemma jinv_init cap smax wp rps : jinv (init cap smax wp rps).
Proof.
  unfold jinv, init. cbn. apply Forall_forall. intros r Hr. apply in_map_iff in Hr as (p & <- & _). constructor.
Qed.

(** everything together along a run *)
Definition rinv (cap : N) (g : G) : Prop := inv cap g /\ specinv g /\ reginv g /\ seqinv g.

Lemma rinv_runs cap smax wp rps sched : rinv cap (runs sched (init cap smax wp rps)).
Proof.
  unfold runs. apply run_invariant.
  - intros t g (H1 & H2 & H3 & H4). split; [apply inv_step; auto|]. split; [eapply specinv_step; eauto|].
    split; [eapply reginv_step; eauto|apply seqinv_step; auto].
  - split; [apply inv_init|]. split; [|split; [apply reginv_init|apply seqinv_init]].
    unfold specinv, spec_table, inflight. cbn. destruct wp; reflexivity.
Qed.

Lemma rinv_run_from cap g sched : rinv cap g -> rinv cap (runs sched g).
Proof.
  unfold runs. apply run_invariant.
  intros t g' (H1 & H2 & H3 & H4). split; [apply inv_step; auto|]. split; [eapply specinv_step; eauto|].
  split; [eapply reginv_step; eauto|apply seqinv_step; auto].
Qed.

Lemma nowrap_runs_back sched g : nowrap (runs sched g) -> nowrap g.
Proof. unfold runs. apply run_back. intros t g'. apply nowrap_back. Qed.

Lemma jinv_run_from cap g sched :
  rinv cap g -> jinv g -> nowrap (runs sched g) -> jinv (runs sched g).
Proof.
  intros Hr Hj Hnw. unfold runs in *.
  pose proof (run_invariant_back G step (fun g => rinv cap g /\ jinv g) nowrap nowrap_back) as H.
  apply H; auto.
  intros t g' [(H1 & H2 & H3 & H4) H5] Hn. split.
  - split; [apply inv_step; auto|]. split; [eapply specinv_step; eauto|].
    split; [eapply reginv_step; eauto|apply seqinv_step; auto].
  - eapply jinv_step; eauto.
Qed.
