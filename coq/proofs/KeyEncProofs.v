(** Proofs about the fact-key codec ([model/KeyEnc.v]): generated-value pins,
    big-endian arithmetic, the sign-flip, injectivity, decode∘encode, order
    preservation per type and for compound keys, and [prefix_respected]. *)
From Aranya Require Import base.Tactics base.ListLex gen.GenKeyEnc model.KeyEnc.
From Coq Require Import String.
Local Notation length := List.length (only parsing).
Local Open Scope N_scope.

(** * Pins of the regenerated values: a change in io.rs / data.rs breaks these. *)
Lemma gen_keyenc_pins :
  keytype_tags = [("Int", 0); ("Bool", 1); ("String", 2); ("Id", 3); ("Enum", 4)]%string
  /\ keytype_from_u8_table = [(0, "Int"); (1, "Bool"); (2, "String"); (3, "Id"); (4, "Enum")]%string
  /\ (tag_int, tag_bool, tag_string, tag_id, tag_enum) = (0, 1, 2, 3, 4)
  /\ hashable_variants = ["Int"; "Bool"; "String"; "Id"; "Enum"]%string
  /\ ident_len_width = 8%nat /\ ident_len_big_endian = true
  /\ int_width = 8%nat /\ int_big_endian = true /\ sign_flip_bit = 63
  /\ (bool_true_byte, bool_false_byte) = (1, 0)
  /\ enum_concat_order = ["int_bytes.as_slice()"; "id.as_str().as_bytes()"]%string
  /\ key_concat_order = ["identifier_len.as_slice()"; "identifier.as_bytes()"; "&[tag as u8]"; "value_bytes"]%string
  /\ ser_keys_body = "keys.into_iter().map(|key| ser_key(&key)).collect()"%string
  /\ fact_query_uses_query_prefix = true.
Proof. repeat split; reflexivity. Qed.

(** The value-byte expression of every [ser_key] arm, as transcribed in [KeyEnc.ser_value]. *)
Lemma gen_ser_key_arms_pin :
  ser_key_arms =
  [("Int", "{ int_bytes = i64::to_be_bytes(int ^ (1 << 63)); (KeyType::Int, int_bytes.as_slice()) }");
   ("Bool", "{ let bytes = if bool { &[1] } else { &[0] }; (KeyType::Bool, bytes.as_slice()) }");
   ("String", "(KeyType::String, string.as_str().as_bytes())");
   ("Id", "(KeyType::Id, id.as_bytes())");
   ("Enum", "{ let int_bytes = i64::to_be_bytes(value ^ (1 << 63)); bytes = [int_bytes.as_slice(), id.as_str().as_bytes()].concat(); (KeyType::Enum, bytes.as_slice()) }")]%string.
Proof. reflexivity. Qed.

(** * Big-endian bytes *)
Lemma pow256_S w : pow256 (S w) = 256 * pow256 w.
Proof. unfold pow256. rewrite Nat2N.inj_succ, N.pow_succ_r'. reflexivity. Qed.
Lemma pow256_pos w : 0 < pow256 w.
Proof. unfold pow256. apply N.neq_0_lt_0, N.pow_nonzero. discriminate. Qed.
Lemma pow256_0 : pow256 0 = 1.
Proof. reflexivity. Qed.

Lemma be_bytes_length w : forall n, length (be_bytes w n) = w.
Proof. induction w; intros; cbn [be_bytes length]; auto. Qed.

Lemma be_bytes_bytes w : forall n, Forall (fun b => b < 256) (be_bytes w n).
Proof.
  induction w; intros; cbn [be_bytes]; constructor; auto.
  apply N.mod_lt. discriminate.
Qed.

Lemma div_small_byte w n : n < pow256 (S w) -> (n / pow256 w) mod 256 = n / pow256 w.
Proof.
  intros H. apply N.mod_small. apply N.div_lt_upper_bound.
  - pose proof (pow256_pos w); lia.
  - rewrite pow256_S in H. lia.
Qed.

Lemma from_be_acc l : forall acc,
  fold_left (fun a b => a * 256 + b) l acc = acc * pow256 (length l) + from_be l.
Proof.
  unfold from_be. induction l as [|x l IH]; intros acc; cbn [fold_left length].
  - rewrite pow256_0. lia.
  - rewrite IH, (IH (0 * 256 + x)), pow256_S. lia.
Qed.

Lemma from_be_cons x l : from_be (x :: l) = x * pow256 (length l) + from_be l.
Proof. unfold from_be at 1. cbn [fold_left]. rewrite from_be_acc. lia. Qed.

Lemma from_be_be_bytes w : forall n, n < pow256 w -> from_be (be_bytes w n) = n.
Proof.
  induction w; intros n H.
  - rewrite pow256_0 in H. cbn. unfold from_be; cbn. lia.
  - cbn [be_bytes]. rewrite from_be_cons, be_bytes_length, div_small_byte by auto.
    rewrite IHw by (apply N.mod_lt; pose proof (pow256_pos w); lia).
    pose proof (N.div_mod n (pow256 w)). pose proof (pow256_pos w). lia.
Qed.

Lemma be_bytes_inj w a b : a < pow256 w -> b < pow256 w -> be_bytes w a = be_bytes w b -> a = b.
Proof. intros Ha Hb H. rewrite <- (from_be_be_bytes w a), <- (from_be_be_bytes w b), H; auto. Qed.

(** byte-wise order of the big-endian images = numeric order *)
Lemma be_bytes_cmp w : forall a b, a < pow256 w -> b < pow256 w ->
  bcmp (be_bytes w a) (be_bytes w b) = N.compare a b.
Proof.
  induction w; intros a b Ha Hb.
  - rewrite pow256_0 in *. cbn. replace a with 0 by lia. replace b with 0 by lia. reflexivity.
  - cbn [be_bytes]. unfold bcmp in *. cbn [lex_cmp].
    rewrite !div_small_byte by auto.
    pose proof (pow256_pos w) as HP.
    pose proof (N.div_mod a (pow256 w)) as Da. pose proof (N.div_mod b (pow256 w)) as Db.
    pose proof (N.mod_lt a (pow256 w)) as Ma. pose proof (N.mod_lt b (pow256 w)) as Mb.
    set (P := pow256 w) in *. set (qa := a / P) in *. set (qb := b / P) in *.
    set (ra := a mod P) in *. set (rb := b mod P) in *.
    destruct (N.compare_spec qa qb) as [E|E|E].
    + rewrite IHw by lia. subst qb.
      destruct (N.compare_spec ra rb); symmetry; [apply N.compare_eq_iff|apply N.compare_lt_iff|apply N.compare_gt_iff]; nia.
    + symmetry; apply N.compare_lt_iff. nia.
    + symmetry; apply N.compare_gt_iff. nia.
Qed.

Lemma enc_ident_len n : enc_uint ident_len_big_endian ident_len_width n = be_bytes 8 n.
Proof. reflexivity. Qed.

(** * The sign flip *)
Lemma flip_mask_val : Z.of_N flip_mask = two63.
Proof. reflexivity. Qed.
Lemma two64_two63 : two64 = (2 * two63)%Z.
Proof. reflexivity. Qed.
Lemma two63_pos : (0 < two63)%Z.
Proof. reflexivity. Qed.
Lemma pow256_8 : Z.of_N (pow256 8) = two64.
Proof. reflexivity. Qed.

Lemma land_low_mask u : u < flip_mask -> N.land u flip_mask = 0.
Proof.
  intros H. rewrite <- (N.mod_small u flip_mask) by auto.
  change flip_mask with (2 ^ 63). rewrite <- N.land_ones, <- N.land_assoc.
  replace (N.land (N.ones 63) (2 ^ 63)) with 0 by (vm_compute; reflexivity).
  apply N.land_0_r.
Qed.

Lemma lxor_low u : u < flip_mask -> N.lxor u flip_mask = u + flip_mask.
Proof. intros H. symmetry. apply N.add_nocarry_lxor. apply land_low_mask; auto. Qed.

Lemma lxor_high u : flip_mask <= u -> u < 2 * flip_mask -> N.lxor u flip_mask = u - flip_mask.
Proof.
  intros H1 H2. assert (Hv : u - flip_mask < flip_mask) by lia.
  pose proof (lxor_low _ Hv) as E.
  replace (u - flip_mask + flip_mask) with u in E by lia.
  rewrite <- E at 1. rewrite N.lxor_assoc, N.lxor_nilpotent, N.lxor_0_r. reflexivity.
Qed.

Local Opaque flip_mask two63 two64.

(** [x ^ (1 << 63)] on the two's-complement pattern is [x + 2^63] — the fact the
    encoding's order preservation rests on. *)
Lemma flip_is_add z : in_i64 z -> N.lxor (to_u64 z) flip_mask = Z.to_N (z + two63).
Proof.
  unfold in_i64, to_u64. intros H.
  pose proof flip_mask_val. pose proof two64_two63. pose proof two63_pos.
  destruct (Z.neg_nonneg_cases z) as [Hn|Hp].
  - replace (z mod two64)%Z with (z + two64)%Z.
    2:{ rewrite <- (Z.mod_small (z + two64) two64) at 1 by lia.
        replace (z + two64)%Z with (z + 1 * two64)%Z by lia. apply Z.mod_add. lia. }
    rewrite lxor_high; lia.
  - rewrite Z.mod_small by lia. rewrite lxor_low; lia.
Qed.

Lemma flipped_range z : in_i64 z -> Z.to_N (z + two63) < pow256 8.
Proof.
  unfold in_i64. intros H. pose proof pow256_8. pose proof two64_two63. lia.
Qed.

Lemma of_u64_flip z : in_i64 z -> of_u64 (N.lxor (Z.to_N (z + two63)) flip_mask) = z.
Proof.
  unfold in_i64, of_u64. intros H.
  pose proof flip_mask_val. pose proof two64_two63. pose proof two63_pos.
  destruct (Z.neg_nonneg_cases z) as [Hn|Hp].
  - rewrite lxor_low by lia.
    destruct (Z.ltb_spec (Z.of_N (Z.to_N (z + two63) + flip_mask)) two63); lia.
  - rewrite lxor_high by lia.
    destruct (Z.ltb_spec (Z.of_N (Z.to_N (z + two63) - flip_mask)) two63); lia.
Qed.

Lemma ser_int_eq z : in_i64 z -> ser_int z = be_bytes 8 (Z.to_N (z + two63)).
Proof. intros H. unfold ser_int. rewrite flip_is_add by auto. reflexivity. Qed.

Lemma ser_int_length z : length (ser_int z) = 8%nat.
Proof. unfold ser_int. change (enc_uint int_big_endian int_width) with (be_bytes 8). apply be_bytes_length. Qed.

Lemma deser_ser_int z : in_i64 z -> deser_int (ser_int z) = z.
Proof.
  intros H. unfold deser_int. rewrite ser_int_eq, from_be_be_bytes by (auto using flipped_range).
  apply of_u64_flip; auto.
Qed.

Lemma ser_int_inj a b : in_i64 a -> in_i64 b -> ser_int a = ser_int b -> a = b.
Proof. intros Ha Hb H. rewrite <- (deser_ser_int a), <- (deser_ser_int b), H; auto. Qed.

(** Order preservation for [i64]: for all values. *)
Lemma ser_int_cmp a b : in_i64 a -> in_i64 b -> bcmp (ser_int a) (ser_int b) = Z.compare a b.
Proof.
  intros Ha Hb. rewrite !ser_int_eq, be_bytes_cmp by (auto using flipped_range).
  unfold in_i64 in *. pose proof two63_pos.
  destruct (Z.compare_spec a b); [apply N.compare_eq_iff|apply N.compare_lt_iff|apply N.compare_gt_iff]; lia.
Qed.

Lemma in_i64b_spec z : in_i64b z = true <-> in_i64 z.
Proof. unfold in_i64b, in_i64. lia. Qed.

(** * Laws of the orders *)
Lemma Z_cmp_laws : CmpLaws Z.compare.
Proof.
  constructor.
  - intros; apply Z.compare_eq_iff.
  - intros; apply Z.compare_antisym.
  - intros a b c; rewrite !Z.compare_lt_iff; lia.
Qed.

Lemma pcmp_laws {A B} (ca : A -> A -> comparison) (cb : B -> B -> comparison) :
  CmpLaws ca -> CmpLaws cb -> CmpLaws (pcmp ca cb).
Proof.
  intros LA LB. constructor.
  - intros [a1 b1] [a2 b2]. unfold pcmp; cbn. destruct (ca a1 a2) eqn:E.
    + apply (cmp_eq _ LA) in E; subst. rewrite (cmp_eq _ LB). split; congruence.
    + split; try discriminate. intros H; inv H. rewrite (cmp_refl _ LA) in E; discriminate.
    + split; try discriminate. intros H; inv H. rewrite (cmp_refl _ LA) in E; discriminate.
  - intros [a1 b1] [a2 b2]. unfold pcmp; cbn. rewrite (cmp_opp _ LA a1 a2).
    destruct (ca a1 a2); cbn; auto. apply (cmp_opp _ LB).
  - intros [a1 b1] [a2 b2] [a3 b3]. unfold pcmp; cbn.
    destruct (ca a1 a2) eqn:E1; try discriminate.
    + apply (cmp_eq _ LA) in E1; subst. destruct (ca a2 a3); try discriminate; auto.
      apply (cmp_lt_trans _ LB).
    + destruct (ca a2 a3) eqn:E2; try discriminate.
      * apply (cmp_eq _ LA) in E2; subst. rewrite E1; auto.
      * rewrite (cmp_lt_trans _ LA _ _ _ E1 E2); auto.
Qed.

Lemma bcmp_laws : CmpLaws bcmp.
Proof. apply lex_cmp_laws, N_cmp_laws. Qed.
Lemma kcmp_laws : CmpLaws kcmp.
Proof. apply lex_cmp_laws, bcmp_laws. Qed.
Lemma rank_cmp_laws : CmpLaws rank_cmp.
Proof. apply pcmp_laws; [apply N_cmp_laws|apply pcmp_laws; [apply Z_cmp_laws|apply bcmp_laws]]. Qed.

Lemma hval_rank_inj a b : hval_rank a = hval_rank b -> a = b.
Proof.
  destruct a as [z|[|]|s|i|n z], b as [z'|[|]|s'|i'|n' z']; cbn; intros H; inv H; auto.
Qed.

Lemma hval_cmp_laws : CmpLaws hval_cmp.
Proof.
  pose proof rank_cmp_laws as L. unfold hval_cmp. constructor.
  - intros a b. rewrite (cmp_eq _ L). split; [apply hval_rank_inj|congruence].
  - intros a b. apply (cmp_opp _ L).
  - intros a b c. apply (cmp_lt_trans _ L).
Qed.
Lemma tcmp_laws : CmpLaws tcmp.
Proof. apply lex_cmp_laws, hval_cmp_laws. Qed.

Lemma hval_eqb_spec a b : hval_eqb a b = true <-> a = b.
Proof. apply (cmp_eqb_spec _ hval_cmp_laws). Qed.

(** * Generic list facts *)
Lemma app_inv_len {A} (a1 a2 b1 b2 : list A) :
  a1 ++ b1 = a2 ++ b2 -> List.length a1 = List.length a2 -> a1 = a2 /\ b1 = b2.
Proof.
  revert a2; induction a1 as [|x a1 IH]; intros [|y a2] H L; cbn in *; try discriminate; auto.
  injection H as -> H. destruct (IH a2 H) as [-> ->]; auto.
Qed.

Lemma bcmp_app_same p a b : bcmp (p ++ a) (p ++ b) = bcmp a b.
Proof.
  unfold bcmp. induction p as [|x p IH]; cbn [app lex_cmp]; auto.
  rewrite N.compare_refl. auto.
Qed.

Lemma bcmp_app_eqlen a1 a2 r1 r2 : length a1 = length a2 ->
  bcmp (a1 ++ r1) (a2 ++ r2) = match bcmp a1 a2 with Eq => bcmp r1 r2 | c => c end.
Proof.
  unfold bcmp. revert a2; induction a1 as [|x a1 IH]; intros [|y a2] H; cbn in H; try discriminate; cbn [app lex_cmp]; auto.
  destruct (x ?= y); auto.
Qed.

Lemma firstn_app_exact {A} (a b : list A) : firstn (List.length a) (a ++ b) = a.
Proof. induction a; cbn; congruence. Qed.
Lemma skipn_app_exact {A} (a b : list A) : skipn (List.length a) (a ++ b) = b.
Proof. induction a; cbn; congruence. Qed.
Lemma split_chunk_app n a b : List.length a = n -> split_chunk n (a ++ b) = Some (a, b).
Proof.
  intros <-. unfold split_chunk. rewrite app_length.
  replace (List.length a <=? List.length a + List.length b)%nat with true by (symmetry; apply Nat.leb_le; lia).
  rewrite firstn_app_exact, skipn_app_exact. reflexivity.
Qed.

Local Opaque ser_int be_bytes from_be pow256.

(** * [ser_key] *)
Lemma ser_key_eq i v :
  ser_key (i, v) = be_bytes 8 (N.of_nat (length i)) ++ i ++ [fst (ser_value v)] ++ snd (ser_value v).
Proof. unfold ser_key. destruct (ser_value v). reflexivity. Qed.

Section WithUtf8.
  Variable utf8 : bytes -> bool.
  Notation wf_hvalb := (wf_hvalb utf8).
  Notation wf_keyb := (wf_keyb utf8).
  Notation deser_key := (deser_key utf8).
  Notation deser_keys := (deser_keys utf8).

  Lemma ser_value_inj a b : wf_hvalb a = true -> wf_hvalb b = true -> ser_value a = ser_value b -> a = b.
  Proof.
    intros Wa Wb H.
    assert (Hf : fst (ser_value a) = fst (ser_value b)) by congruence.
    assert (Hs : snd (ser_value a) = snd (ser_value b)) by congruence. clear H.
    destruct a as [z|x|s|i|n z], b as [z'|x'|s'|i'|n' z']; cbn [ser_value wf_hvalb fst snd] in *;
      try discriminate Hf.
    - f_equal. apply ser_int_inj; auto; apply in_i64b_spec; auto.
    - destruct x, x'; auto; discriminate.
    - congruence.
    - congruence.
    - apply andb_prop in Wa as [_ Wa]. apply andb_prop in Wb as [_ Wb].
      apply app_inv_len in Hs as [Hs1 Hs2]; [|rewrite !ser_int_length; auto]. subst.
      f_equal. apply ser_int_inj; auto; apply in_i64b_spec; auto.
  Qed.

  (** The encoding of one key is injective. *)
  Lemma ser_key_inj a b : wf_keyb a = true -> wf_keyb b = true -> ser_key a = ser_key b -> a = b.
  Proof.
    destruct a as [i v], b as [j w]. unfold KeyEnc.wf_keyb; cbn [fst snd]. intros Wa Wb H.
    apply andb_prop in Wa as [Wa Wav]. apply andb_prop in Wa as [_ Wal].
    apply andb_prop in Wb as [Wb Wbv]. apply andb_prop in Wb as [_ Wbl].
    rewrite !ser_key_eq in H.
    apply app_inv_len in H as [E1 E2]; [|rewrite !be_bytes_length; auto].
    apply be_bytes_inj in E1; [|change 8%nat with ident_len_width; lia ..].
    apply Nat2N.inj in E1.
    apply app_inv_len in E2 as [E2 E3]; auto. subst j.
    f_equal. apply ser_value_inj; auto.
    cbn [app] in E3. injection E3 as E3 E4. destruct (ser_value v), (ser_value w); cbn [fst snd] in *; congruence.
  Qed.

  Lemma ser_keys_inj a b : Forall (fun k => wf_keyb k = true) a -> Forall (fun k => wf_keyb k = true) b ->
    ser_keys a = ser_keys b -> a = b.
  Proof.
    intros Wa; revert b; induction Wa as [|x a Hx Wa IH]; intros b Wb H; destruct b as [|y b]; cbn in H; try discriminate; auto.
    inv H. inv Wb. f_equal; auto using ser_key_inj.
  Qed.

  (** Decoding inverts encoding. *)
  Lemma deser_ser_key k : wf_keyb k = true -> deser_key (ser_key k) = Some k.
  Proof.
    destruct k as [i v]. unfold KeyEnc.wf_keyb; cbn [fst snd]. intros W.
    apply andb_prop in W as [W Wv]. apply andb_prop in W as [W Wl]. apply andb_prop in W as [Wu Wi].
    rewrite ser_key_eq. unfold KeyEnc.deser_key.
    rewrite split_chunk_app by apply be_bytes_length.
    change ident_len_big_endian with true. cbv iota.
    rewrite from_be_be_bytes by (change 8%nat with ident_len_width; lia).
    rewrite app_length.
    replace (N.of_nat (List.length i + _) <? N.of_nat (List.length i)) with false by (symmetry; apply N.ltb_ge; lia).
    rewrite Nat2N.id, firstn_app_exact, skipn_app_exact.
    unfold parse_ident. rewrite Wu, Wi. cbn [andb app].
    destruct v as [z|x|s|j|n z]; cbn [ser_value fst snd KeyEnc.wf_hvalb] in *.
    - change (keytype_from_u8 tag_int) with (Some KInt). cbv iota.
      rewrite ser_int_length. change (8 =? int_width)%nat with true. cbv iota.
      rewrite deser_ser_int; auto. apply in_i64b_spec; auto.
    - change (keytype_from_u8 tag_bool) with (Some KBool). destruct x; reflexivity.
    - change (keytype_from_u8 tag_string) with (Some KString). cbv iota. rewrite Wv. reflexivity.
    - change (keytype_from_u8 tag_id) with (Some KId). cbv iota. rewrite Wv. reflexivity.
    - change (keytype_from_u8 tag_enum) with (Some KEnum). cbv iota.
      apply andb_prop in Wv as [Wv Wz]. apply andb_prop in Wv as [Wnu Wni].
      rewrite split_chunk_app by apply ser_int_length.
      rewrite Wnu, Wni. cbn [andb]. rewrite deser_ser_int; auto. apply in_i64b_spec; auto.
  Qed.

  Lemma deser_ser_keys ks : Forall (fun k => wf_keyb k = true) ks -> deser_keys (ser_keys ks) = Some ks.
  Proof.
    induction 1 as [|k ks Hk _ IH]; cbn [ser_keys map KeyEnc.deser_keys]; auto.
    rewrite deser_ser_key by auto. fold (ser_keys ks). rewrite IH. reflexivity.
  Qed.

  (** * Order preservation *)

  (** One key element, same identifier: byte order of the encodings = the typed order, for all
      well-formed values — within a type (the case storage relies on) and across types (tags
      ascend in the derive order of [HashableValue]). *)
  Lemma ser_key_cmp i a b : wf_hvalb a = true -> wf_hvalb b = true ->
    bcmp (ser_key (i, a)) (ser_key (i, b)) = hval_cmp a b.
  Proof.
    intros Wa Wb. rewrite !ser_key_eq, !bcmp_app_same.
    destruct a as [z|x|s|j|n z], b as [z'|x'|s'|j'|n' z']; cbn [ser_value fst snd app KeyEnc.wf_hvalb] in *;
      try reflexivity.
    - (* int *)
      change (bcmp (tag_int :: ser_int z) (tag_int :: ser_int z')) with (bcmp (ser_int z) (ser_int z')).
      rewrite ser_int_cmp by (apply in_i64b_spec; auto).
      unfold hval_cmp, rank_cmp, pcmp; cbn. destruct (z ?= z')%Z; reflexivity.
    - destruct x, x'; reflexivity.
    (* string, id: byte order of the payload on both sides — closed by [reflexivity] above *)
    - (* enum: (value, name) *)
      change (bcmp (tag_enum :: ser_int z ++ n) (tag_enum :: ser_int z' ++ n')) with (bcmp (ser_int z ++ n) (ser_int z' ++ n')).
      rewrite bcmp_app_eqlen by (rewrite !ser_int_length; auto).
      apply andb_prop in Wa as [_ Wa]. apply andb_prop in Wb as [_ Wb].
      rewrite ser_int_cmp by (apply in_i64b_spec; auto).
      unfold hval_cmp, rank_cmp, pcmp; cbn. destruct (z ?= z')%Z; reflexivity.
  Qed.

  (** Compound keys built over the same field names. *)

  Lemma ser_keys_cmp names : forall a b,
    Forall (fun v => wf_hvalb v = true) a -> Forall (fun v => wf_hvalb v = true) b ->
    (length a <= length names)%nat -> (length b <= length names)%nat ->
    kcmp (ser_keys (mk_keys names a)) (ser_keys (mk_keys names b)) = tcmp a b.
  Proof.
    unfold kcmp, tcmp, mk_keys. induction names as [|n names IH]; intros a b Wa Wb La Lb.
    - destruct a, b; cbn in *; try lia. reflexivity.
    - destruct a as [|x a], b as [|y b]; cbn [combine ser_keys map lex_cmp]; auto.
      inv Wa. inv Wb. rewrite ser_key_cmp by auto.
      destruct (hval_cmp x y); auto. apply IH; auto; cbn in *; lia.
  Qed.

  (** A fact matches a key-prefix query iff its serialised key list starts with the
      serialised prefix. *)
  Lemma prefix_respected names : forall p k,
    Forall (fun v => wf_hvalb v = true) p -> Forall (fun v => wf_hvalb v = true) k ->
    (length p <= length names)%nat -> (length k <= length names)%nat ->
    is_prefix bcmp (ser_keys (mk_keys names p)) (ser_keys (mk_keys names k)) = is_prefix hval_cmp p k.
  Proof.
    unfold mk_keys. induction names as [|n names IH]; intros p k Wp Wk Lp Lk.
    - destruct p, k; cbn in *; solve [lia | reflexivity].
    - destruct p as [|x p], k as [|y k]; cbn [combine ser_keys map is_prefix]; auto.
      inv Wp. inv Wk. rewrite ser_key_cmp by auto.
      destruct (hval_cmp x y); auto. apply IH; auto; cbn in *; lia.
  Qed.
End WithUtf8.

(** * The per-type statements, in the form the property is phrased *)

Definition be64 (n : N) : bytes := be_bytes 8 n.
Definition lex_lt (a b : bytes) : Prop := bcmp a b = Lt.

(** i64: [a < b <-> lex (be64 (a xor 2^63)) < lex (be64 (b xor 2^63))], all values. *)
Lemma i64_order_preserved a b : in_i64 a -> in_i64 b ->
  ((a < b)%Z <-> lex_lt (be64 (N.lxor (to_u64 a) flip_mask)) (be64 (N.lxor (to_u64 b) flip_mask))).
Proof.
  intros Ha Hb. unfold lex_lt. change (be64 (N.lxor (to_u64 a) flip_mask)) with (ser_int a).
  change (be64 (N.lxor (to_u64 b) flip_mask)) with (ser_int b).
  rewrite ser_int_cmp by auto. apply iff_sym, Z.compare_lt_iff.
Qed.

(** * Closed statements for [props/C29.v] *)
Definition ser_key_injective_stmt : Prop :=
  forall (utf8 : bytes -> bool) (a b : fkey),
  wf_keyb utf8 a = true -> wf_keyb utf8 b = true -> ser_key a = ser_key b -> a = b.
Lemma ser_key_injective_proof : ser_key_injective_stmt.
Proof. exact ser_key_inj. Qed.

Definition deser_ser_key_stmt : Prop :=
  forall (utf8 : bytes -> bool) (k : fkey), wf_keyb utf8 k = true -> deser_key utf8 (ser_key k) = Some k.
Lemma deser_ser_key_proof : deser_ser_key_stmt.
Proof. exact deser_ser_key. Qed.

(** Order preservation per type, all values, one key element under a common identifier. *)
Definition key_order_preserved_stmt : Prop :=
  (* i64, in the arithmetic form *)
  (forall a b, in_i64 a -> in_i64 b ->
     ((a < b)%Z <-> lex_lt (be64 (N.lxor (to_u64 a) flip_mask)) (be64 (N.lxor (to_u64 b) flip_mask))))
  (* and [x xor 2^63 = x + 2^63 (mod 2^64)] on the two's-complement pattern *)
  /\ (forall z, in_i64 z -> N.lxor (to_u64 z) flip_mask = Z.to_N (z + two63))
  (* per type, as serialised keys *)
  /\ (forall i a b, in_i64 a -> in_i64 b -> bcmp (ser_key (i, HInt a)) (ser_key (i, HInt b)) = Z.compare a b)
  /\ (forall i a b, bcmp (ser_key (i, HBool a)) (ser_key (i, HBool b)) = Bool.compare a b)
  /\ (forall i a b, bcmp (ser_key (i, HString a)) (ser_key (i, HString b)) = bcmp a b)
  /\ (forall i a b, bcmp (ser_key (i, HId a)) (ser_key (i, HId b)) = bcmp a b)
  /\ (forall i n m a b, in_i64 a -> in_i64 b ->
        bcmp (ser_key (i, HEnum n a)) (ser_key (i, HEnum m b)) = match Z.compare a b with Eq => bcmp n m | c => c end)
  (* every pair of well-formed values, also of different types (derive order of [HashableValue]) *)
  /\ (forall utf8 i a b, wf_hvalb utf8 a = true -> wf_hvalb utf8 b = true ->
        bcmp (ser_key (i, a)) (ser_key (i, b)) = hval_cmp a b)
  (* compound keys over the same field names *)
  /\ (forall utf8 names a b,
        Forall (fun v => wf_hvalb utf8 v = true) a -> Forall (fun v => wf_hvalb utf8 v = true) b ->
        (length a <= length names)%nat -> (length b <= length names)%nat ->
        kcmp (ser_keys (mk_keys names a)) (ser_keys (mk_keys names b)) = tcmp a b).

Definition utf8_any (b : bytes) : bool := true.
Lemma key_order_preserved_proof : key_order_preserved_stmt.
Proof.
  split; [exact i64_order_preserved|]. split; [exact flip_is_add|].
  split. { intros i a b Ha Hb. apply in_i64b_spec in Ha, Hb. rewrite (ser_key_cmp utf8_any i (HInt a) (HInt b)) by auto.
           unfold hval_cmp, rank_cmp, pcmp; cbn. destruct (a ?= b)%Z; reflexivity. }
  split. { intros i a b. rewrite !ser_key_eq, !bcmp_app_same. destruct a, b; reflexivity. }
  split. { intros. rewrite !ser_key_eq, !bcmp_app_same. reflexivity. }
  split. { intros. rewrite !ser_key_eq, !bcmp_app_same. reflexivity. }
  split. { intros i n m a b Ha Hb. rewrite !ser_key_eq, !bcmp_app_same. cbn [ser_value fst snd app].
           change (bcmp (tag_enum :: ser_int a ++ n) (tag_enum :: ser_int b ++ m)) with (bcmp (ser_int a ++ n) (ser_int b ++ m)).
           rewrite bcmp_app_eqlen by (rewrite !ser_int_length; auto). rewrite ser_int_cmp by auto. reflexivity. }
  split; [exact ser_key_cmp|exact ser_keys_cmp].
Qed.

Definition prefix_respected_stmt : Prop :=
  forall (utf8 : bytes -> bool) (names : list bytes) (p k : list hval),
  Forall (fun v => wf_hvalb utf8 v = true) p -> Forall (fun v => wf_hvalb utf8 v = true) k ->
  (length p <= length names)%nat -> (length k <= length names)%nat ->
  (is_prefix bcmp (ser_keys (mk_keys names p)) (ser_keys (mk_keys names k)) = true
   <-> exists rest, k = p ++ rest).
Lemma prefix_respected_proof : prefix_respected_stmt.
Proof.
  intros utf8 names p k Wp Wk Lp Lk. rewrite (prefix_respected utf8) by auto.
  apply (is_prefix_app _ hval_cmp_laws).
Qed.

Example key_codec_example :
  ser_key ([120], HInt (-1)) = [0;0;0;0;0;0;0;1; 120; 0; 127;255;255;255;255;255;255;255]
  /\ ser_key ([120], HInt 1) = [0;0;0;0;0;0;0;1; 120; 0; 128;0;0;0;0;0;0;1]
  /\ wf_keyb utf8_any ([120], HEnum [67] 2) = true
  /\ deser_key utf8_any (ser_key ([120], HEnum [67] 2)) = Some ([120], HEnum [67] 2).
Proof. repeat split; vm_compute; reflexivity. Qed.
