(** Sizes of the directly laid-out code: [len (d_expr pc e) = sz_expr e], for every
    syntactic category (mutual induction over the syntax). *)
From Aranya Require Import base.Tactics model.VmBase gen.GenVm model.Vm model.Lang model.Typing
  model.Compile model.CompileDirect proofs.SimBase proofs.CompileEqns.
Local Open Scope N_scope.

Scheme expr_mut := Induction for expr Sort Prop
  with exprs_mut := Induction for exprs Sort Prop
  with fields_mut := Induction for fields Sort Prop
  with stmt_mut := Induction for stmt Sort Prop
  with stmts_mut := Induction for stmts Sort Prop
  with ostmts_mut := Induction for ostmts Sort Prop
  with ovals_mut := Induction for ovals Sort Prop
  with earms_mut := Induction for earms Sort Prop
  with sarms_mut := Induction for sarms Sort Prop
  with branches_mut := Induction for branches Sort Prop.
Combined Scheme syntax_mutind from expr_mut, exprs_mut, fields_mut, stmt_mut, stmts_mut, ostmts_mut,
  ovals_mut, earms_mut, sarms_mut, branches_mut.

Lemma len_d_patterns p pats : forall addrs, len (d_patterns p pats addrs) = len (d_patterns p pats []).
Proof.
  assert (Ht : forall vals a b, len (d_tests p vals a) = len (d_tests p vals b)).
  { induction vals as [|[l|w x] r IH]; intros; cbn [d_tests]; autorewrite with len; auto.
    - rewrite (IH a b). reflexivity.
    - rewrite (IH a b). reflexivity. }
  induction pats as [|pt r IH]; intros; cbn [d_patterns]; auto.
  autorewrite with len. rewrite (IH (tl addrs)), (IH (tl [])).
  destruct pt; cbn [d_pattern]; [rewrite (Ht ps (hd 0 addrs) (hd 0 []))|]; reflexivity.
Qed.

Section Layout.
  Variable p : policy.
  Variable is_debug : bool.
  Variable la : Label -> N.
  Variable cmd : ident.
  Variable in_recall : bool.

  Notation sz_expr := (sz_expr p is_debug).
  Notation sz_exprs := (sz_exprs p is_debug).
  Notation sz_fields := (sz_fields p is_debug).
  Notation sz_stmt := (sz_stmt p is_debug).
  Notation sz_stmts := (sz_stmts p is_debug).
  Notation sz_earms := (sz_earms p is_debug).
  Notation sz_sarms := (sz_sarms p is_debug).
  Notation sz_branches := (sz_branches p is_debug).
  Notation d_expr := (d_expr p is_debug la cmd in_recall).
  Notation d_exprs := (d_exprs p is_debug la cmd in_recall).
  Notation d_fields := (d_fields p is_debug la cmd in_recall).
  Notation d_stmt := (d_stmt p is_debug la cmd in_recall).
  Notation d_stmts := (d_stmts p is_debug la cmd in_recall).
  Notation d_earms := (d_earms p is_debug la cmd in_recall).
  Notation d_sarms := (d_sarms p is_debug la cmd in_recall).
  Notation d_branches := (d_branches p is_debug la cmd in_recall).
  Notation d_fkeys := (d_fkeys p is_debug la cmd in_recall).
  Notation d_fvals := (d_fvals p is_debug la cmd in_recall).

  Lemma len_layout :
    (forall e pc, len (d_expr pc e) = sz_expr e)
    /\ (forall es pc, len (d_exprs pc es) = sz_exprs es)
    /\ (forall fs pc, len (d_fields pc fs) = sz_fields fs /\ len (d_fkeys pc fs) = sz_fields fs
                      /\ len (d_fvals pc fs) = sz_fields fs)
    /\ (forall s pc, len (d_stmt pc s) = sz_stmt s)
    /\ (forall ss pc, len (d_stmts pc ss) = sz_stmts ss)
    /\ (forall (o : ostmts), match o with ONone => True | OSome ss => forall pc, len (d_stmts pc ss) = sz_stmts ss end)
    /\ (forall (o : ovals), match o with VNone => True | VSome fs => forall pc, len (d_fvals pc fs) = sz_fields fs end)
    /\ (forall arms pc endl, len (d_earms pc endl arms) = sz_earms arms)
    /\ (forall arms pc endl, len (d_sarms pc endl arms) = sz_sarms arms)
    /\ (forall bs pc endl, len (d_branches pc endl bs) = sz_branches bs).
  Proof.
    apply syntax_mutind; intros; auto; try (repeat split);
      autorewrite with deq;
      repeat match goal with
             | H : forall pc, _ /\ _ /\ _ |- _ => let H1 := fresh in let H2 := fresh in let H3 := fresh in
                 assert (H1 := fun pc => proj1 (H pc)); assert (H2 := fun pc => proj1 (proj2 (H pc)));
                 assert (H3 := fun pc => proj2 (proj2 (H pc))); clear H
             end;
      repeat match goal with
             | |- context [match ?x with ONone => _ | OSome _ => _ end] => destruct x
             | |- context [match ?x with VNone => _ | VSome _ => _ end] => destruct x
             | |- context [match struct_fields_of ?p ?s with _ => _ end] => destruct (struct_fields_of p s) as [[|? ?]|]
             | |- context [if ?b then _ else _] => destruct b
             end;
      cbv zeta; unfold d_recall; cbn [app];
      autorewrite with len;
      repeat match goal with
             | H : forall pc, len _ = _ |- _ => rewrite H
             | H : forall pc endl, len _ = _ |- _ => rewrite H
             end;
      try rewrite len_d_patterns; try (cbn [len List.length]; lia); try reflexivity.
    all: try (intros; match goal with H : forall pc, _ /\ _ /\ _ |- _ => apply H end).
  Qed.

  Lemma len_d_expr e pc : len (d_expr pc e) = sz_expr e.
  Proof. apply len_layout. Qed.
  Lemma len_d_exprs es pc : len (d_exprs pc es) = sz_exprs es.
  Proof. apply len_layout. Qed.
  Lemma len_d_fields fs pc : len (d_fields pc fs) = sz_fields fs.
  Proof. apply len_layout. Qed.
  Lemma len_d_fkeys fs pc : len (d_fkeys pc fs) = sz_fields fs.
  Proof. apply len_layout. Qed.
  Lemma len_d_fvals fs pc : len (d_fvals pc fs) = sz_fields fs.
  Proof. apply len_layout. Qed.
  Lemma len_d_stmt s pc : len (d_stmt pc s) = sz_stmt s.
  Proof. apply len_layout. Qed.
  Lemma len_d_stmts ss pc : len (d_stmts pc ss) = sz_stmts ss.
  Proof. apply len_layout. Qed.
  Lemma len_d_earms arms pc endl : len (d_earms pc endl arms) = sz_earms arms.
  Proof. apply len_layout. Qed.
  Lemma len_d_sarms arms pc endl : len (d_sarms pc endl arms) = sz_sarms arms.
  Proof. apply len_layout. Qed.
  Lemma len_d_branches bs pc endl : len (d_branches pc endl bs) = sz_branches bs.
  Proof. apply len_layout. Qed.
End Layout.

Global Hint Rewrite len_d_expr len_d_exprs len_d_fields len_d_fkeys len_d_fvals len_d_stmt len_d_stmts
  len_d_earms len_d_sarms len_d_branches : len.
