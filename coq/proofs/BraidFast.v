(** [braid_fast] (tabulated max_cut / jump, used to evaluate the model on
    large generated graphs) is the model [braid_L1]. *)
From Aranya Require Import base.Tactics model.Dag model.Braid.

Lemma lca_loop_ext s1 s2 m1 m2 : (forall i, s1 i = s2 i) -> (forall i : N, m1 i = m2 i) ->
  forall fuel l r, lca_loop s1 m1 fuel l r = lca_loop s2 m2 fuel l r.
Proof.
  intros Hs Hm. induction fuel as [|f IH]; intros l r; cbn [lca_loop]; auto.
  destruct (l =? r)%N; auto. rewrite !Hm, !Hs.
  destruct (m2 r <? m2 l)%N; [destruct (s2 l)|destruct (s2 r)]; auto.
Qed.

Lemma tabs_spec g : (forall i, tlookN (fst (tabs g)) i = max_cut g i) /\ (forall i, tlookO (snd (tabs g)) i = jump g i).
Proof.
  induction g as [|c r [IH1 IH2]]; [split; reflexivity|].
  cbn [tabs]. destruct (tabs r) as [mt jt]. cbn [fst snd] in *. split.
  - intros i. cbn [tlookN max_cut]. destruct (cid c =? i)%N; auto.
    destruct (cpar c); rewrite ?IH1; auto.
  - intros i. cbn [tlookO jump]. destruct (cid c =? i)%N; auto.
    destruct (cpar c); auto. apply lca_loop_ext; auto.
Qed.

Lemma existsb_false {T} (l : list T) : existsb (fun _ => false) l = false.
Proof. induction l; cbn; auto. Qed.

Section Ext.
  Variables mc1 mc2 : N -> N.
  Hypothesis Hmc : forall x, mc1 x = mc2 x.

  Lemma visit_mc_ext g L s x : visit_mc mc1 g L s x = visit_mc mc2 g L s x.
  Proof. unfold visit_mc. rewrite Hmc. reflexivity. Qed.

  Lemma visit_all_mc_ext g L xs : forall s, visit_all_mc mc1 g L s xs = visit_all_mc mc2 g L s xs.
  Proof. induction xs as [|x r IH]; intros s; cbn [visit_all_mc]; auto. rewrite visit_mc_ext. destruct (visit_mc mc2 g L s x); auto. Qed.

  Lemma braid_loop_mc_ext g L fuel : forall s, braid_loop_mc mc1 g L fuel s = braid_loop_mc mc2 g L fuel s.
  Proof.
    induction fuel as [|f IH]; intros s; cbn [braid_loop_mc]; auto.
    destruct (pop_min (heap s)) as [[k h']|]; auto. rewrite visit_all_mc_ext.
    match goal with |- match ?v with _ => _ end = _ => destruct v as [s'|] end; auto.
    destruct (heap s') as [|b [|b2 hr]]; auto.
  Qed.

  Lemma arrivals_ext g L : forall reached, arrivals g mc1 L reached = arrivals g mc2 L reached.
  Proof. induction g as [|c r IH]; intros reached; cbn [arrivals]; auto. rewrite Hmc, !IH. reflexivity. Qed.

  Lemma conv_init_mc_ext g L hs : conv_init_mc mc1 g L hs = conv_init_mc mc2 g L hs.
  Proof.
    unfold conv_init_mc. rewrite arrivals_ext. f_equal. f_equal. apply filter_ext. intros x. rewrite Hmc. auto.
  Qed.
End Ext.

Lemma visit_mc_eq chk g L s x : visit_mc (max_cut g) g L s x = visit (fun _ _ => false) chk g L s x.
Proof.
  unfold visit_mc, visit. destruct (max_cut g x <=? L)%N; auto.
  destruct (conv_query (conv s) x) as [m' go]. destruct (negb go); auto.
  cbn [heap]. rewrite existsb_false, andb_false_r. reflexivity.
Qed.

Lemma visit_all_mc_eq chk g L xs : forall s, visit_all_mc (max_cut g) g L s xs = visit_all (fun _ _ => false) chk g L s xs.
Proof.
  induction xs as [|x r IH]; intros s; cbn [visit_all_mc visit_all]; auto.
  rewrite visit_mc_eq with (chk := chk). destruct (visit (fun _ _ => false) chk g L s x); auto.
Qed.

Lemma braid_loop_mc_eq g L fuel : forall s, braid_loop_mc (max_cut g) g L fuel s = braid_loop (fun _ _ => false) g L fuel s.
Proof.
  induction fuel as [|f IH]; intros s; cbn [braid_loop_mc braid_loop]; auto.
  destruct (pop_min (heap s)) as [[k h']|]; auto. rewrite visit_all_mc_eq with (chk := true).
  match goal with |- match ?v with _ => _ end = _ => destruct v as [s'|] end; auto.
  destruct (heap s') as [|b [|b2 hr]]; auto.
Qed.

Definition braid_fast_eq_stmt : Prop := forall (g : graph) (hs : list N), braid_fast g hs = braid_L1 g hs.

Lemma braid_fast_eq_proof : braid_fast_eq_stmt.
Proof.
  intros g hs. unfold braid_fast, braid_L1, braid_gen.
  destruct (tabs_spec g) as [H1 H2]. destruct (tabs g) as [mt jt]. cbn [fst snd] in *.
  assert (Hlca : match hs with
                 | [] => None
                 | h :: t => fold_left (fun acc x => match acc with
                                                    | Some l => lca_loop (tlookO jt) (tlookN mt) (S (length g + length g)) l x
                                                    | None => None end) t (Some h)
                 end = last_common_ancestor g hs).
  { unfold last_common_ancestor. destruct hs as [|h t]; auto. generalize (Some h).
    induction t as [|x t IH]; intros acc; cbn [fold_left]; auto. rewrite IH. f_equal.
    destruct acc; auto. unfold lca_pair. apply lca_loop_ext; auto. }
  rewrite Hlca. destruct (last_common_ancestor g hs) as [lca|]; auto.
  rewrite H1.
  rewrite (conv_init_mc_ext (tlookN mt) (max_cut g) H1).
  rewrite (visit_all_mc_ext (tlookN mt) (max_cut g) H1).
  change (conv_init_mc (max_cut g) g (max_cut g lca) hs) with (conv_init g (max_cut g lca) hs).
  rewrite visit_all_mc_eq with (chk := false).
  match goal with |- match ?v with _ => _ end = _ => destruct v as [s1|] end; auto.
  destruct (heap s1) as [|b [|b2 hr]]; auto.
  rewrite (braid_loop_mc_ext (tlookN mt) (max_cut g) H1). apply braid_loop_mc_eq.
Qed.

Lemma state_at_with_ext facts (eval : cmd -> facts -> outcome facts) empty b1 b2 :
  (forall g hs, b1 g hs = b2 g hs) ->
  forall g i, state_at_with facts eval empty b1 g i = state_at_with facts eval empty b2 g i.
Proof.
  intros Hb. induction g as [|c r IH]; intros i; cbn [state_at_with]; auto.
  destruct (cid c =? i)%N; auto. destruct (cpar c); auto.
  - rewrite IH. auto.
  - rewrite Hb. destruct (b2 r [l; r0]); auto. rewrite IH. auto.
Qed.

Definition braid_state_fast_eq_stmt : Prop :=
  forall facts (eval : cmd -> facts -> outcome facts) empty g hs,
    braid_state_with facts eval empty braid_fast g hs = braid_state facts eval empty g hs.

Lemma braid_state_fast_eq_proof : braid_state_fast_eq_stmt.
Proof.
  intros facts eval empty g hs. unfold braid_state, braid_state_with. rewrite braid_fast_eq_proof.
  destruct (braid_L1 g hs); auto. rewrite (state_at_with_ext facts eval empty braid_fast braid_L1 braid_fast_eq_proof). auto.
Qed.
