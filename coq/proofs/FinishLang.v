(** C30 at the level of the reference semantics ([model/Lang.v]): when a policy is
    accepted, evaluating a command's policy block changes the log of fact writes and
    effects only by completing a finish block.  An evaluation that stops with a failed
    check outside a recall, or with a panic, leaves the log as it was. *)
From Aranya Require Import base.Tactics model.VmBase gen.GenVm model.Vm model.Lang model.Typing
  model.Compile model.CompileDirect proofs.SimBase proofs.CompileEqns proofs.CompileLayout proofs.FinishOnly.
Local Open Scope string_scope.

Section LangWrites.
  Context {St Wl : Type}.
  Variable lio : lang_io St.
  (** the log of writes and effects kept by the I/O oracle: reads and foreign calls leave it alone *)
  Variable wl : St -> Wl.
  Hypothesis Hquery : forall s n k, wl (fst (lio_query lio s n k)) = wl s.
  Hypothesis Hffi : forall s a b vs c, wl (fst (lio_ffi lio s a b vs c)) = wl s.

  Definition same (w w' : world St) : Prop := wl (w_io w') = wl (w_io w) /\ w_ctx w' = w_ctx w.
  Lemma same_refl w : same w w. Proof. split; reflexivity. Qed.
  Lemma same_trans a b c : same a b -> same b c -> same a c.
  Proof. intros [H1 H2] [H3 H4]. split; congruence. Qed.

  (** outside finish: the log and the context are untouched, except by leaving for good *)
  Definition quiet {A} (w : world St) (o : outcome St A) : Prop :=
    match o with
    | OVal _ w' | ORet _ w' => same w w'
    | OExit r w' =>
      (is_recall_ctx (w_ctx w) = true -> is_recall_ctx (w_ctx w') = true)
      /\ (r = ER_Panic \/ (r = ER_Check /\ is_recall_ctx (w_ctx w') = false) -> wl (w_io w') = wl (w_io w))
    | _ => True
    end.
  (** finish code: comes back (or stops with an error), never returns or exits, keeps the context *)
  Definition calm {A} (w : world St) (o : outcome St A) : Prop :=
    match o with
    | OVal _ w' => w_ctx w' = w_ctx w
    | ORet _ _ | OExit _ _ => False
    | _ => True
    end.

  Lemma quiet_same {A} w w' (o : outcome St A) : same w w' -> quiet w' o -> quiet w o.
  Proof.
    intros [H1 H2] H. destruct o; cbn in *; auto.
    - eapply same_trans; [split; eassumption|assumption].
    - eapply same_trans; [split; eassumption|assumption].
    - destruct H as [Ha Hb]. split; [rewrite <- H2; exact Ha|]. intros Hr. rewrite (Hb Hr). exact H1.
  Qed.

  Section Ev.
    Variable p : policy.
    Variable is_debug : bool.
    Variable call_fun : ident -> list Value -> world St -> outcome St Value.
    Variable call_fin : ident -> list Value -> world St -> outcome St unit.
    Variable call_recall : ident -> list Value -> world St -> outcome St unit.
    Variable fin_exit : ExitReason.
    Hypothesis Hcf : forall f vs w, quiet w (call_fun f vs w).
    Hypothesis Hcfin : forall f vs w, calm w (call_fin f vs w).
    Hypothesis Hcr : forall name vs w, is_recall_ctx (w_ctx w) = true ->
      match call_recall name vs w with
      | ORet _ _ => False
      | OExit r w' => is_recall_ctx (w_ctx w') = true /\ (r = ER_Panic -> wl (w_io w') = wl (w_io w))
      | _ => True
      end.
    Hypothesis Hfx : fin_exit = ER_Normal \/ fin_exit = ER_Check.

    Notation eval_expr := (Lang.eval_expr lio p is_debug call_fun call_fin call_recall fin_exit).
    Notation eval_exprs := (Lang.eval_exprs lio p is_debug call_fun call_fin call_recall fin_exit).
    Notation eval_fields := (Lang.eval_fields lio p is_debug call_fun call_fin call_recall fin_exit).
    Notation eval_earms := (Lang.eval_earms lio p is_debug call_fun call_fin call_recall fin_exit).
    Notation eval_stmt := (Lang.eval_stmt lio p is_debug call_fun call_fin call_recall fin_exit).
    Notation eval_stmts := (Lang.eval_stmts lio p is_debug call_fun call_fin call_recall fin_exit).
    Notation eval_branches := (Lang.eval_branches lio p is_debug call_fun call_fin call_recall fin_exit).
    Notation eval_sarms := (Lang.eval_sarms lio p is_debug call_fun call_fin call_recall fin_exit).
    Notation eval_keys := (Lang.eval_keys lio p is_debug call_fun call_fin call_recall fin_exit).
    Notation eval_vals := (Lang.eval_vals lio p is_debug call_fun call_fin call_recall fin_exit).

    (** a finish block of a recall block runs in recall context *)
    Definition pre (w : world St) : Prop := fin_exit = ER_Check -> is_recall_ctx (w_ctx w) = true.
    Lemma pre_same w w' : same w w' -> pre w -> pre w'.
    Proof. intros [_ H] Hp Hc. rewrite H. exact (Hp Hc). Qed.

    Lemma quiet_bind {A B} w (o : outcome St A) (k : A -> world St -> outcome St B) :
      pre w -> quiet w o -> (forall a w', same w w' -> pre w' -> quiet w' (k a w')) -> quiet w (obind o k).
    Proof.
      intros Hp Ho Hk. destruct o; cbn in *; auto.
      eapply quiet_same; [exact Ho|]. apply Hk; [exact Ho|]. eapply pre_same; eassumption.
    Qed.
    Lemma calm_bind {A B} w (o : outcome St A) (k : A -> world St -> outcome St B) :
      calm w o -> (forall a w', w_ctx w' = w_ctx w -> calm w' (k a w')) -> calm w (obind o k).
    Proof.
      intros Ho Hk. destruct o; cbn in *; auto.
      specialize (Hk a w0 Ho). destruct (k a w0); cbn in *; auto. congruence.
    Qed.
    Lemma quiet_val {A} w (a : A) : quiet w (OVal a w). Proof. apply same_refl. Qed.
    Lemma quiet_ret {A} w v : quiet (A := A) w (ORet v w). Proof. apply same_refl. Qed.
    Lemma quiet_exit {A} w r : quiet (A := A) w (OExit r w). Proof. split; auto. Qed.

    Lemma recall_quiet {A} name (vs : list Value) en w :
      quiet (A := A) w
        match env_get (globals_of p) "this" en with
        | Some this =>
          match env_get (globals_of p) "envelope" en with
          | Some envelope =>
            match w_ctx w with
            | CC_Policy c =>
              ' _, _ <- call_recall name (vs ++ [this; envelope])%list {| w_io := w_io w; w_ctx := CC_Recall c |} ;; OWrong
            | _ => OWrong
            end
          | None => OWrong
          end
        | None => OWrong
        end.
    Proof.
      destruct (env_get _ "this" en) as [this|]; [|exact Logic.I].
      destruct (env_get _ "envelope" en) as [envelope|]; [|exact Logic.I].
      destruct (w_ctx w) as [| | | c|] eqn:Ec; try exact Logic.I.
      pose proof (Hcr name (vs ++ [this; envelope])%list {| w_io := w_io w; w_ctx := CC_Recall c |} eq_refl) as H.
      destruct (call_recall _ _ _) as [a w'|v w'|r w'|e w'| |]; cbn in *; auto; try contradiction.
      destruct H as [Hr Hp]. split; [auto|].
      intros [Hd|[_ Hd]]; [auto|congruence].
    Qed.

    Ltac qgo :=
      lazymatch goal with
      | |- quiet _ (obind _ _) =>
        eapply quiet_bind;
        [ assumption | qgo
        | let a := fresh "a" in let w := fresh "w" in let Hs := fresh "Hs" in let Hp := fresh "Hp" in
          intros a w Hs Hp; qgo ]
      | |- quiet ?w (OVal _ ?w) => apply quiet_val
      | |- quiet ?w (ORet _ ?w) => apply quiet_ret
      | |- quiet ?w (OExit _ ?w) => apply quiet_exit
      | |- quiet _ OWrong => exact Logic.I
      | |- quiet _ OFuel => exact Logic.I
      | |- quiet _ (OErr _ _) => exact Logic.I
      | |- quiet _ (match ?x with _ => _ end) => destruct x; qgo
      | |- _ => try solve [auto]
      end.
    Ltac cgo :=
      lazymatch goal with
      | |- calm _ (obind _ _) =>
        eapply calm_bind;
        [ cgo | let a := fresh "a" in let w := fresh "w" in let Hs := fresh "Hs" in intros a w Hs; cgo ]
      | |- calm _ (OVal _ _) => try reflexivity; try (cbn; congruence)
      | |- calm _ OWrong => exact Logic.I
      | |- calm _ OFuel => exact Logic.I
      | |- calm _ (OErr _ _) => exact Logic.I
      | |- calm _ (match ?x with _ => _ end) => destruct x; cgo
      | |- _ => try solve [auto]
      end.

    Definition L_expr (e : expr) : Prop :=
      (nw_expr e = true -> forall en w, pre w -> quiet w (eval_expr en w e))
      /\ (fin_expr_ok e = true -> forall en w, calm w (eval_expr en w e)).
    Definition L_exprs (es : exprs) : Prop :=
      (nw_exprs es = true -> forall en w, pre w -> quiet w (eval_exprs en w es))
      /\ (fin_exprs_ok es = true -> forall en w, calm w (eval_exprs en w es)).
    Definition L_fields (fs : fields) : Prop :=
      (nw_fields fs = true -> forall en w def acc, pre w -> quiet w (eval_fields en w fs def acc))
      /\ (fin_fields_ok fs = true ->
          (forall en w def acc, calm w (eval_fields en w fs def acc))
          /\ (forall en w acc, calm w (eval_keys en w fs acc))
          /\ (forall en w acc, calm w (eval_vals en w fs acc))).
    Definition L_stmt (s : stmt) : Prop :=
      (nw_stmt s = true -> forall en w, pre w -> quiet w (eval_stmt en w s))
      /\ (fin_stmt_ok s = true -> forall en w, calm w (eval_stmt en w s)).
    Definition L_stmts (ss : stmts) : Prop :=
      (nw_stmts ss = true -> forall en w, pre w -> quiet w (eval_stmts en w ss))
      /\ (fin_stmts_ok ss = true -> forall en w, calm w (eval_stmts en w ss)).
    Definition L_ostmts (o : ostmts) : Prop := match o with ONone => True | OSome ss => L_stmts ss end.
    Definition L_ovals (o : ovals) : Prop := match o with VNone => True | VSome fs => L_fields fs end.
    Definition L_earms (a : earms) : Prop :=
      nw_earms a = true -> forall en w v, pre w -> quiet w (eval_earms en w v a).
    Definition L_sarms (a : sarms) : Prop :=
      nw_sarms a = true -> forall en w v, pre w -> quiet w (eval_sarms en w v a).
    Definition L_branches (b : branches) : Prop :=
      nw_branches b = true -> forall en w, pre w -> quiet w (eval_branches en w b).

    Ltac bools :=
      repeat match goal with
             | H : _ && _ = true |- _ => apply andb_prop in H; destruct H
             end.
    Ltac spec_ih :=
      repeat match goal with
             | IH : ?a = true -> _, H : ?a = true |- _ => specialize (IH H)
             | IH : _ /\ _ |- _ => destruct IH
             end.

    Theorem lang_all :
      (forall e, L_expr e) /\ (forall es, L_exprs es) /\ (forall fs, L_fields fs) /\ (forall s, L_stmt s)
      /\ (forall ss, L_stmts ss) /\ (forall o, L_ostmts o) /\ (forall o, L_ovals o)
      /\ (forall a, L_earms a) /\ (forall a, L_sarms a) /\ (forall b, L_branches b).
    Proof.
      apply syntax_mutind; unfold L_expr, L_exprs, L_fields, L_stmt, L_stmts, L_ostmts, L_ovals, L_earms, L_sarms, L_branches;
        intros; auto.
      all: repeat split; intros;
        repeat match goal with H : _ = true |- _ => progress cbn in H end; try discriminate; bools; spec_ih.
      all: autorewrite with evq.
      all: try solve [qgo].
      all: try solve [cgo].
      - destruct w; try discriminate. spec_ih. cgo.
      - eapply quiet_bind; [assumption|auto|]. intros a w' Hs Hp. cbv zeta. apply quiet_val.
      - eapply quiet_bind; [assumption|auto|]. intros vs w' Hs Hp.
        destruct (find _ (p_ffi p)) as [d|]; [|exact Logic.I].
        pose proof (Hffi (w_io w') (ffi_mid d) (ffi_pid d) vs (w_ctx w')) as Hw.
        destruct (lio_ffi lio (w_io w') (ffi_mid d) (ffi_pid d) vs (w_ctx w')) as [io' [v|e]]; cbn in *; [|exact Logic.I].
        split; [exact Hw|reflexivity].
      - eapply quiet_bind; [assumption|auto|]. intros vs w' Hs Hp. apply recall_quiet.
      - destruct fallback as [|ss]; unfold L_stmts in *; spec_ih; qgo.
      - pose proof (H2 (env_push en) w) as Hc.
        destruct (eval_stmts (env_push en) w ss) as [a w'| | | | |]; cbn in *; auto; try contradiction.
        split; [rewrite Hc; auto|].
        intros [Hd|[Hd Hr]].
        + destruct Hfx as [Hx|Hx]; rewrite Hx in Hd; discriminate.
        + rewrite Hc in Hr. rewrite (H1 Hd) in Hr. discriminate.
      - destruct vals as [|fs]; unfold L_fields in *; spec_ih; cgo.
      - eapply quiet_bind; [assumption|auto|]. intros vs w' Hs Hp. apply recall_quiet.
    Qed.
  End Ev.

  Section Top.
    Variable p : policy.
    Variable dbg : bool.
    Hypothesis Hfuns : Forall (fun d => nw_stmts (fn_body d) = true) (p_funs p).
    Hypothesis Hfinfuns : Forall (fun d => fin_stmts_ok (ff_body d) = true) (p_finfuns p).

    Lemma call_fun_S n f args w :
      call_fun lio p dbg (S n) f args w =
      match find (fun d => fn_name d =s? f) (p_funs p) with
      | None => OWrong
      | Some d =>
        match fresh_env (globals_of p) (map fst (fn_params d)) args with
        | None => OWrong
        | Some en =>
          match eval_stmts lio p dbg (call_fun lio p dbg n) (call_fin lio p dbg n) no_recall ER_Normal en w (fn_body d) with
          | OVal _ w => OExit ER_Panic w
          | ORet v w => OVal v w
          | OExit r w => OExit r w
          | OErr e w => OErr e w
          | OWrong => OWrong
          | OFuel => OFuel
          end
        end
      end.
    Proof. reflexivity. Qed.
    Lemma call_fin_S n f args w :
      call_fin lio p dbg (S n) f args w =
      match find (fun d => ff_name d =s? f) (p_finfuns p) with
      | None => OWrong
      | Some d =>
        match fresh_env (globals_of p) (map fst (ff_params d)) args with
        | None => OWrong
        | Some en =>
          match eval_stmts lio p dbg (call_fun lio p dbg n) (call_fin lio p dbg n) no_recall ER_Normal en w (ff_body d) with
          | OVal _ w => OVal tt w
          | ORet _ _ => OWrong
          | OExit r w => OExit r w
          | OErr e w => OErr e w
          | OWrong => OWrong
          | OFuel => OFuel
          end
        end
      end.
    Proof. reflexivity. Qed.

    Lemma no_recall_ok : forall name vs (w : world St), is_recall_ctx (w_ctx w) = true ->
      match no_recall name vs w with
      | ORet _ _ => False
      | OExit r w' => is_recall_ctx (w_ctx w') = true /\ (r = ER_Panic -> wl (w_io w') = wl (w_io w))
      | _ => True
      end.
    Proof. intros. exact Logic.I. Qed.

    Lemma pre_normal (w : world St) : pre ER_Normal w.
    Proof. intros H. discriminate H. Qed.

    Lemma calls_ok n :
      (forall f vs w, quiet w (call_fun lio p dbg n f vs w)) /\ (forall f vs w, calm w (call_fin lio p dbg n f vs w)).
    Proof.
      induction n as [|n [IHf IHc]]; [split; intros; exact Logic.I|].
      destruct (lang_all p dbg (call_fun lio p dbg n) (call_fin lio p dbg n) no_recall ER_Normal IHf IHc no_recall_ok (or_introl eq_refl)) as (_ & _ & _ & _ & Hss & _).
      split; intros f vs w.
      - rewrite call_fun_S. destruct (find _ (p_funs p)) as [d|] eqn:Ef; [|exact Logic.I].
        apply find_some in Ef. destruct Ef as [Hin _].
        rewrite Forall_forall in Hfuns. specialize (Hfuns d Hin).
        destruct (fresh_env _ _ vs) as [en|]; [|exact Logic.I].
        pose proof (proj1 (Hss (fn_body d)) Hfuns en w (pre_normal w)) as Hq.
        destruct (eval_stmts _ _ _ _ _ _ _ en w (fn_body d)); cbn in *; auto.
        split; [destruct Hq as [_ Hc]; rewrite Hc; auto|]. intros _. apply Hq.
      - rewrite call_fin_S. destruct (find _ (p_finfuns p)) as [d|] eqn:Ef; [|exact Logic.I].
        apply find_some in Ef. destruct Ef as [Hin _].
        rewrite Forall_forall in Hfinfuns. specialize (Hfinfuns d Hin).
        destruct (fresh_env _ _ vs) as [en|]; [|exact Logic.I].
        pose proof (proj2 (Hss (ff_body d)) Hfinfuns en w) as Hq.
        destruct (eval_stmts _ _ _ _ _ _ _ en w (ff_body d)); cbn in *; auto.
    Qed.

    Lemma recall_ok fuel c :
      Forall (fun r => nw_stmts (rc_body r) = true) (cmd_recalls c) ->
      forall name vs (w : world St), is_recall_ctx (w_ctx w) = true ->
        match call_recall lio p dbg fuel c name vs w with
        | ORet _ _ => False
        | OExit r w' => is_recall_ctx (w_ctx w') = true /\ (r = ER_Panic -> wl (w_io w') = wl (w_io w))
        | _ => True
        end.
    Proof.
      intros Hr name vs w Hw. unfold call_recall.
      destruct (find _ (cmd_recalls c)) as [r|] eqn:Ef; [|exact Logic.I].
      apply find_some in Ef. destruct Ef as [Hin _].
      rewrite Forall_forall in Hr. specialize (Hr r Hin).
      destruct (fresh_env _ _ vs) as [en|]; [|exact Logic.I].
      destruct (calls_ok fuel) as [IHf IHc].
      destruct (lang_all p dbg (call_fun lio p dbg fuel) (call_fin lio p dbg fuel) no_recall ER_Check IHf IHc no_recall_ok (or_intror eq_refl)) as (_ & _ & _ & _ & Hss & _).
      pose proof (proj1 (Hss (rc_body r)) Hr en w (fun _ => Hw)) as Hq.
      destruct (eval_stmts _ _ _ _ _ _ _ en w (rc_body r)) as [a w'|v w'|x w'|e w'| |]; cbn in *; auto.
      - destruct Hq as [_ Hc]. split; [rewrite Hc; exact Hw|]. intros Hd. discriminate Hd.
      - destruct Hq as [Ha Hb]. split; [auto|]. intros Hd. apply Hb. left. exact Hd.
    Qed.

    Hypothesis Hcmds : Forall (fun c => nw_stmts (cmd_policy c) = true
                                        /\ Forall (fun r => nw_stmts (rc_body r) = true) (cmd_recalls c)) (p_cmds p).

    Theorem run_policy_quiet fuel name this envelope (w : world St) :
      quiet w (run_policy lio p dbg fuel name this envelope w).
    Proof.
      unfold run_policy. destruct (find _ (p_cmds p)) as [c|] eqn:Ef; [|exact Logic.I].
      apply find_some in Ef. destruct Ef as [Hin _].
      rewrite Forall_forall in Hcmds. destruct (Hcmds c Hin) as [Hpol Hrec].
      destruct (fresh_env _ _ _) as [en|]; [|exact Logic.I].
      destruct (calls_ok fuel) as [IHf IHc].
      destruct (lang_all p dbg (call_fun lio p dbg fuel) (call_fin lio p dbg fuel) (call_recall lio p dbg fuel c) ER_Normal
                         IHf IHc (recall_ok fuel c Hrec) (or_introl eq_refl)) as (_ & _ & _ & _ & Hss & _).
      pose proof (proj1 (Hss (cmd_policy c)) Hpol en w (pre_normal w)) as Hq.
      destruct (eval_stmts _ _ _ _ _ _ _ en w (cmd_policy c)) as [a w'|v w'|x w'|e w'| |]; cbn in *; auto.
      destruct Hq as [Ha Hb]. split; [rewrite Hb; auto|]. intros _. exact Ha.
    Qed.
  End Top.
End LangWrites.

(** ** For every policy the compiler accepts *)
Definition lang_writes_only_in_finish_stmt : Prop :=
  forall (St Wl : Type) (lio : lang_io St) (wl : St -> Wl),
    (forall s n k, wl (fst (lio_query lio s n k)) = wl s) ->
    (forall s a b vs c, wl (fst (lio_ffi lio s a b vs c)) = wl s) ->
    forall (p : policy) (dbg : bool) x, Compile.compile p dbg = ROk x ->
    forall fuel name this envelope (w : world St) r w',
      run_policy lio p dbg fuel name this envelope w = OExit r w' ->
      (r = ER_Panic \/ (r = ER_Check /\ is_recall_ctx (w_ctx w') = false)) ->
      wl (w_io w') = wl (w_io w).

Theorem lang_writes_only_in_finish_proof : lang_writes_only_in_finish_stmt.
Proof.
  intros St Wl lio wl Hq Hf p dbg x Hc fuel name this envelope w r w' Hrun Hr.
  destruct (compile_accepted p dbg x Hc) as (g & _ & Hfuns & Hfin & Hcm & _).
  assert (H : quiet wl w (run_policy lio p dbg fuel name this envelope w)).
  { apply run_policy_quiet; auto.
    - rewrite Forall_forall in *. intros d Hin. eapply fl_nw; [apply (Hfuns d Hin)|reflexivity].
    - rewrite Forall_forall in *. intros d Hin. eapply fl_fin. apply (Hfin d Hin).
    - rewrite Forall_forall in *. intros c Hin. destruct (Hcm c Hin) as (Hpol & Hrec & _). split.
      + eapply fl_nw; [apply Hpol|reflexivity].
      + rewrite Forall_forall in *. intros rc Hi. eapply fl_nw; [apply (Hrec rc Hi)|reflexivity]. }
  rewrite Hrun in H. cbn in H. apply H. exact Hr.
Qed.

