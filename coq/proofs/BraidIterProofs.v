(** [BraidResult]/[BraidIter]: for every block size B >= 1, iterating the
    result yields the pushed locations in reverse push order — whether or not
    (and however often) the buffer spilled. *)
From Aranya Require Import base.Tactics model.Dag model.Braid.

Lemma firstn_add {A} (l : list A) : forall a b, firstn (a + b) l = firstn a l ++ firstn b (skipn a l).
Proof.
  induction l as [|x l IH]; intros [|a] b; cbn; auto.
  - rewrite firstn_nil; reflexivity.
  - rewrite IH; reflexivity.
Qed.

Lemma bi_disk_rev B d : 1 <= B -> forall fuel rem,
  rem <= length d -> rem < fuel -> bi_disk B d fuel rem = rev (firstn rem d).
Proof.
  intros HB; induction fuel as [|f IH]; intros rem Hle Hf; [lia|].
  cbn [bi_disk]. destruct (rem =? 0) eqn:E.
  - apply Nat.eqb_eq in E; subst; reflexivity.
  - apply Nat.eqb_neq in E.
    set (cnt := Nat.min rem B). set (start := rem - cnt).
    assert (Hc : 1 <= cnt <= rem) by (unfold cnt; lia).
    rewrite IH by (unfold start; lia).
    unfold read_at.
    replace (rev (firstn rem d)) with (rev (firstn (start + cnt) d)) by (f_equal; f_equal; unfold start; lia).
    rewrite firstn_add, rev_app_distr. reflexivity.
Qed.

Definition br_empty : bresult := {| bmem := []; bdisk := [] |}.

Lemma br_push_inv B r x : bdisk (br_push B r x) ++ bmem (br_push B r x) = (bdisk r ++ bmem r) ++ [x].
Proof.
  unfold br_push, br_flush, write_at. destruct (length (bmem r) =? B); cbn [bmem bdisk].
  - rewrite firstn_all, skipn_all2 by lia. rewrite !app_nil_r. cbn. reflexivity.
  - rewrite app_assoc. reflexivity.
Qed.

Lemma br_fold_inv B xs : forall r,
  let r' := fold_left (br_push B) xs r in bdisk r' ++ bmem r' = (bdisk r ++ bmem r) ++ xs.
Proof.
  induction xs as [|x xs IH]; intros r; cbn [fold_left].
  - rewrite app_nil_r; reflexivity.
  - cbv zeta in *. rewrite IH, br_push_inv, <- app_assoc. reflexivity.
Qed.

Definition braid_iter_rev_stmt : Prop :=
  forall (B : nat) (xs : list N), 1 <= B ->
    br_iter B (fold_left (br_push B) xs br_empty) = rev xs.

Lemma braid_iter_rev_proof : braid_iter_rev_stmt.
Proof.
  intros B xs HB. unfold br_iter.
  pose proof (br_fold_inv B xs br_empty) as H. cbv zeta in H. cbn [bdisk bmem br_empty app] in H.
  set (r := fold_left (br_push B) xs br_empty) in *.
  rewrite bi_disk_rev by lia. rewrite firstn_all, <- rev_app_distr, H. reflexivity.
Qed.

(** The memory buffer never exceeds the block size (the [heapless::Vec]
    push cannot fail) and the spill is written in whole blocks. *)
Lemma br_push_bound B r x : 1 <= B -> length (bmem r) <= B -> length (bmem (br_push B r x)) <= B.
Proof.
  intros HB H. unfold br_push. destruct (length (bmem r) =? B) eqn:E; cbn [bmem br_flush].
  - cbn. lia.
  - apply Nat.eqb_neq in E. rewrite app_length. cbn. lia.
Qed.

Example braid_iter_example :
  br_iter 2 (fold_left (br_push 2) [1;2;3;4;5]%N br_empty) = [5;4;3;2;1]%N
  /\ bdisk (fold_left (br_push 2) [1;2;3;4;5]%N br_empty) = [1;2;3;4]%N.
Proof. split; vm_compute; reflexivity. Qed.
