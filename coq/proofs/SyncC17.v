(** C17: the statements proved about a whole responder session, from the
    request to the end message. *)
From Aranya Require Import base.Tactics gen.GenQueue gen.GenSync model.Dag model.TravQueue model.Wire model.SyncStore model.SyncResp
  proofs.TravQueueVec proofs.TravQueueMoves proofs.TravQueueSpec proofs.TravQueueProofs
  proofs.SyncStoreProofs proofs.SyncQueueFacts proofs.SyncRespProofs proofs.SyncSessionProofs.
From Coq Require Import Sorted.
Local Open Scope N_scope.

(** the command stored at a location *)
Definition cmd_at (st : store) (l : loc) : option scmd :=
  match find_seg (st_segs st) (lseg l) with Some s => get_command s l | None => None end.

Lemma in_skipn_nth {A} (l : list A) k x : In x (skipn k l) -> exists j, nth_error l (k + j) = Some x.
Proof.
  revert k; induction l as [|y l IH]; intros [|k]; cbn [skipn].
  - intros [].
  - intros [].
  - intro H. apply In_nth_error in H as [j Hj]. exists j. exact Hj.
  - intro H. destruct (IH k H) as [j Hj]. exists j. exact Hj.
Qed.

Lemma plan_committed st ts c : wf_store st -> In c (plan st ts) ->
  exists l, committed_loc st l /\ cmd_at st l = Some c.
Proof.
  intros W H. unfold plan in H. apply in_flat_map in H as (l0 & _ & H). unfold entry_cmds in H.
  destruct (find_seg (st_segs st) (lseg l0)) as [s|] eqn:Ef; [|destruct H]. unfold get_from in H.
  destruct (N.eqb_spec (g_idx s) (lseg l0)) as [Hi|]; cbn [andb] in H; [|destruct H].
  destruct (N.leb_spec (g_first s) (lmc l0)); cbn [andb] in H; [|destruct H].
  destruct (N.ltb_spec (lmc l0 - g_first s) (seg_len s)); [|destruct H].
  apply in_skipn_nth in H as [j Hj]. pose proof (nth_error_Some_lt _ _ _ Hj) as Hlt.
  pose proof Ef as Ef'. apply find_seg_some in Ef' as [Hin _].
  set (m := g_first s + N.of_nat (N.to_nat (lmc l0 - g_first s) + j)).
  assert (Hv : valid_loc st (L m (g_idx s))).
  { apply valid_in_seg; auto. unfold in_range, seg_longest, seg_len, m. lia. }
  exists (L m (g_idx s)). split.
  - split; auto. now apply valid_committed.
  - unfold cmd_at. cbn [lseg]. rewrite (wf_idx_unique _ W s Hin). unfold get_command. cbn [lseg lmc].
    rewrite N.eqb_refl. destruct (N.leb_spec (g_first s) m); [|unfold m in *; lia].
    destruct (N.ltb_spec (m - g_first s) (seg_len s)); [|unfold m, seg_len in *; lia]. cbn [andb].
    rewrite <- Hj. f_equal. unfold m. lia.
Qed.

(** * Statements *)
Definition responder_sound_stmt : Prop :=
  forall (dbg : bool) (st : store) (cmds : list addr),
  wf_store st -> (length cmds <= N.to_nat COMMAND_SAMPLE_MAX)%nat ->
  exists ts, find_needed_segments dbg st cmds = ROk ts /\
    Forall (committed_loc st) ts /\ StronglySorted loc_le ts /\ (length ts <= N.to_nat SEGMENT_BUFFER_MAX)%nat /\
    (forall c, In c (plan st ts) -> exists l, committed_loc st l /\ cmd_at st l = Some c).

Lemma responder_sound_proof : responder_sound_stmt.
Proof.
  intros dbg st cmds W Hl. destruct (find_needed_ok dbg st cmds W Hl) as (ts & E & H1 & H2 & H3).
  exists ts. repeat split; auto. intros c Hc. now apply (plan_committed st ts).
Qed.

(** the responder after it received the request *)
Definition after_request (sid g mb : N) (cmds : list addr) : responder :=
  fst (dispatch responder_new (SyncRequest sid g mb cmds)).

Definition session_exact_stmt : Prop :=
  forall (dbg : bool) (p : provider) (g sid mb : N) (st : store) (cmds : list addr),
  get_storage p g = ROk st -> wf_store st -> small_cmds st -> (length cmds <= N.to_nat COMMAND_SAMPLE_MAX)%nat ->
  exists ts, find_needed_segments dbg st cmds = ROk ts /\
    forall tlens : list N,
    let '(outs, rf) := run_polls dbg p (after_request sid g mb cmds) tlens in
    (* whatever the buffer sizes: the messages handed out are a prefix of the ideal sequence —
       full responses of the planned commands in order, indexes 0,1,2,…, then SyncEnd with the
       number of responses — and every other outcome is a buffer error or NotReady after the end *)
    prefix (oks outs) (ideal sid (S (length (plan st ts))) 0 (plan st ts)) /\ Forall benign outs.

Definition session_terminates_stmt : Prop :=
  forall (dbg : bool) (p : provider) (g sid mb : N) (st : store) (cmds : list addr),
  get_storage p g = ROk st -> wf_store st -> small_cmds st -> (length cmds <= N.to_nat COMMAND_SAMPLE_MAX)%nat ->
  exists ts, find_needed_segments dbg st cmds = ROk ts /\
    let total := length (plan st ts) in
    let polls := S ((total + N.to_nat COMMAND_RESPONSE_MAX - 1) / N.to_nat COMMAND_RESPONSE_MAX) in
    forall tlens : list N, Forall (fun t => BIG <= t) tlens -> (polls <= length tlens)%nat ->
    let '(outs, rf) := run_polls dbg p (after_request sid g mb cmds) tlens in
    oks outs = ideal sid (S total) 0 (plan st ts) /\ length (oks outs) = polls /\ r_state rf = RIdle /\ r_ready rf = false.

Section Proofs.
Variables (dbg : bool) (p : provider) (g sid mb : N) (st : store) (cmds : list addr).
Hypothesis Hst : get_storage p g = ROk st.
Hypothesis W : wf_store st.
Hypothesis Hsmall : small_cmds st.
Hypothesis Hlen : (length cmds <= N.to_nat COMMAND_SAMPLE_MAX)%nat.

Definition started (ts : list loc) : responder :=
  {| r_sid := Some sid; r_gid := Some g; r_state := RSend; r_bytes_sent := mb; r_next := 0; r_idx := 0; r_has := cmds; r_to_send := ts |}.

Lemma first_poll ts t : find_needed_segments dbg st cmds = ROk ts ->
  poll dbg p (after_request sid g mb cmds) t = poll dbg p (started ts) t.
Proof.
  intro E. unfold after_request, dispatch, responder_new. cbn [r_sid req_sid opt_N_eqb fst]. rewrite N.eqb_refl. cbn [negb fst].
  unfold poll. cbn [r_state r_gid r_has set_state r_sid r_bytes_sent r_next r_idx r_to_send]. rewrite Hst, E. reflexivity.
Qed.

Lemma run_first ts tlens : find_needed_segments dbg st cmds = ROk ts -> tlens <> [] ->
  run_polls dbg p (after_request sid g mb cmds) tlens = run_polls dbg p (started ts) tlens.
Proof. intros E H. destruct tlens as [|t r]; [congruence|]. cbn [run_polls]. now rewrite (first_poll ts t E). Qed.

Lemma seg_cmds_le s : In s (st_segs st) -> (length (g_cmds s) <= length (store_ids st))%nat.
Proof.
  unfold store_ids. induction (st_segs st) as [|x r IH]; [intros []|]. cbn [flat_map]. rewrite app_length, map_length.
  intros [->|H]; [lia|]. specialize (IH H). lia.
Qed.

Lemma entry_cmds_le l : (length (entry_cmds st l) <= length (store_ids st))%nat.
Proof.
  unfold entry_cmds. destruct (find_seg (st_segs st) (lseg l)) as [s|] eqn:E; [|cbn; lia].
  apply find_seg_some in E as [Hin _]. pose proof (seg_cmds_le s Hin). unfold get_from.
  destruct (_ && _); [|cbn; lia]. rewrite skipn_length. lia.
Qed.

Lemma plan_le ts : (length (plan st ts) <= length ts * length (store_ids st))%nat.
Proof.
  induction ts as [|l ts IH]; [cbn; lia|]. rewrite plan_cons, app_length. pose proof (entry_cmds_le l). cbn [length]. lia.
Qed.

Lemma started_sending ts : Forall (committed_loc st) ts -> (length ts <= cap_segs)%nat ->
  sending g sid st (started ts) 0 (plan st ts).
Proof.
  intros H Hl. constructor; cbn; auto; try lia.
  - eapply Forall_impl; [|exact H]. intros a [Ha _]. exact Ha.
  - pose proof (plan_le ts). pose proof (wf_size _ W) as Hs. fold (store_ids st) in Hs.
    unfold cap_segs in Hl. rewrite SEGMENT_BUFFER_MAX_pin in *. change (N.to_nat 100) with 100%nat in Hl.
    pose proof (Nat.mul_le_mono_r _ _ (length (store_ids st)) Hl) as Hm. unfold u64_max in *. lia.
Qed.

Lemma session_exact_proof0 :
  exists ts, find_needed_segments dbg st cmds = ROk ts /\
    forall tlens : list N,
    let '(outs, rf) := run_polls dbg p (after_request sid g mb cmds) tlens in
    prefix (oks outs) (ideal sid (S (length (plan st ts))) 0 (plan st ts)) /\ Forall benign outs.
Proof.
  destruct (find_needed_ok dbg st cmds W Hlen) as (ts & E & H1 & H2 & H3). exists ts. split; auto.
  intros [|t tl].
  - cbn [run_polls]. split; [eexists; reflexivity|constructor].
  - rewrite (run_first ts (t :: tl) E) by discriminate.
    apply (run_polls_sending dbg p g sid st Hst W Hsmall (t :: tl) (started ts) 0 (plan st ts)).
    now apply started_sending.
Qed.

Lemma session_terminates_proof0 :
  exists ts, find_needed_segments dbg st cmds = ROk ts /\
    let total := length (plan st ts) in
    let polls := S ((total + N.to_nat COMMAND_RESPONSE_MAX - 1) / N.to_nat COMMAND_RESPONSE_MAX) in
    forall tlens : list N, Forall (fun t => BIG <= t) tlens -> (polls <= length tlens)%nat ->
    let '(outs, rf) := run_polls dbg p (after_request sid g mb cmds) tlens in
    oks outs = ideal sid (S total) 0 (plan st ts) /\ length (oks outs) = polls /\ r_state rf = RIdle /\ r_ready rf = false.
Proof.
  destruct (find_needed_ok dbg st cmds W Hlen) as (ts & E & H1 & H2 & H3). exists ts. split; auto.
  intros total polls tlens Hbig Hpolls.
  assert (Hne : tlens <> []) by (destruct tlens; [cbn in Hpolls; lia|discriminate]).
  rewrite (run_first ts tlens E Hne).
  pose proof (ideal_length sid (length (plan st ts)) 0 (plan st ts) eq_refl) as Hil. unfold cap_resp in Hil.
  pose proof (run_polls_complete dbg p g sid st Hst W Hsmall tlens (started ts) 0 (plan st ts)
                (started_sending ts H1 H3) Hbig) as Hc.
  destruct (run_polls dbg p (started ts) tlens) as [outs rf].
  destruct Hc as [Eo Hidle]; [rewrite Hil; exact Hpolls|].
  repeat split; auto.
  - rewrite Eo. exact Hil.
  - unfold r_ready. now rewrite Hidle.
Qed.
End Proofs.

Lemma session_exact_proof : session_exact_stmt.
Proof. intros dbg p g sid mb st cmds H1 H2 H3 H4. now apply session_exact_proof0. Qed.
Lemma session_terminates_proof : session_terminates_stmt.
Proof. intros dbg p g sid mb st cmds H1 H2 H3 H4. now apply session_terminates_proof0. Qed.

(** * Non-vacuity: a concrete well-formed store (init segment, then a two-command segment) *)
Definition ex_c (i : N) (par : prior3 addr) : scmd :=
  {| c_id := i; c_prio := PBasic 0; c_par := par; c_plen := None; c_dlen := 50 |}.
Definition ex_seg1 : seg := {| g_idx := 1; g_first := 0; g_cmds := [ex_c 1 P0]; g_prior := P0; g_skip := [] |}.
Definition ex_seg2 : seg :=
  {| g_idx := 2; g_first := 1; g_cmds := [ex_c 2 (P1 (A 1 0)); ex_c 3 (P1 (A 2 1))]; g_prior := P1 (L 0 1); g_skip := [] |}.
Definition ex_st : store := {| st_segs := [ex_seg1; ex_seg2]; st_heads := [(3, L 2 2)] |}.

Lemma ex_valid_01 : valid_loc ex_st (L 0 1). Proof. exists ex_seg1. vm_compute. repeat split; congruence. Qed.
Lemma ex_valid_12 : valid_loc ex_st (L 1 2). Proof. exists ex_seg2. vm_compute. repeat split; congruence. Qed.
Lemma ex_valid_22 : valid_loc ex_st (L 2 2). Proof. exists ex_seg2. vm_compute. repeat split; congruence. Qed.

Example ex_wf : wf_store ex_st.
Proof.
  constructor.
  - intros s [<-|[<-|[]]]; discriminate.
  - intros s [<-|[<-|[]]]; reflexivity.
  - intros s p [<-|[<-|[]]]; cbn; [intros []|]. intros [<-|[]]. split; [apply ex_valid_01|vm_compute; reflexivity].
  - intros s p [<-|[<-|[]]] [].
  - intros i l [E|[]]. inv E. apply ex_valid_22.
  - intros s [<-|[<-|[]]]; vm_compute; reflexivity.
  - vm_compute. reflexivity.
  - intros s [<-|[<-|[]]]; exists 3, (L 2 2); (split; [now left|]).
    + (* tip of the init segment: 1.0 -> 2.1 -> 2.2 *)
      change (loc_anc ex_st (L 0 1) (L 2 2)).
      apply (la_step ex_st (L 0 1) (L 1 2) (L 2 2)).
      * apply (la_step ex_st (L 0 1) (L 0 1) (L 1 2)); [apply la_refl|].
        apply (step_prior ex_st (L 0 1) (L 1 2) ex_seg2); [reflexivity|reflexivity|now left].
      * apply step_in; [reflexivity|reflexivity|apply ex_valid_12|apply ex_valid_22].
    + change (loc_anc ex_st (L 2 2) (L 2 2)). apply la_refl.
Qed.

Example ex_small : small_cmds ex_st.
Proof. intros s c [<-|[<-|[]]] Hc; cbn in Hc; intuition; subst; vm_compute; congruence. Qed.

(** the peer advertises the init command: the session sends the two other commands, then SyncEnd *)
Example ex_session :
  find_needed_segments true ex_st [A 1 0] = ROk [L 1 2] /\
  map (fun c => c_id c) (plan ex_st [L 1 2]) = [2; 3] /\
  oks (fst (run_polls true [(7, ex_st)] (after_request 9 7 0 [A 1 0]) [10; BIG; 3; BIG])) =
    [SyncResponse 9 0 (map meta_of (plan ex_st [L 1 2])); SyncEnd 9 1 false].
Proof. vm_compute. repeat split; reflexivity. Qed.
