(** Facts about the storage model (model/SyncStore.v): segment lookup, valid
    locations, ancestry between locations, the finite rank of a location used
    as the termination measure of the responder's traversal. *)
From Aranya Require Import base.Tactics model.Dag model.TravQueue model.Wire model.SyncStore gen.GenSync
  proofs.TravQueueVec proofs.TravQueueMoves proofs.TravQueueSpec.
Local Open Scope N_scope.

(** * rres *)
Lemma rbind_ok {A B} (r : rres A) (f : A -> rres B) b :
  rbind r f = ROk b -> exists a, r = ROk a /\ f a = ROk b.
Proof. destruct r; cbn; try discriminate. eauto. Qed.

Ltac rinv H :=
  let a := fresh "a" in let Ha := fresh "Ha" in
  apply rbind_ok in H as (a & Ha & H).

(** * Lookup *)
Lemma find_seg_some segs i s : find_seg segs i = Some s -> In s segs /\ g_idx s = i.
Proof.
  induction segs as [|x r IH]; cbn; [discriminate|].
  destruct (N.eqb_spec (g_idx x) i).
  - intro H; inv H. auto.
  - intro H. destruct (IH H). auto.
Qed.

Lemma get_segment_ok st l s : get_segment st l = ROk s -> find_seg (st_segs st) (lseg l) = Some s.
Proof. unfold get_segment. destruct (find_seg _ _); congruence. Qed.

Lemma get_segment_in st l s : get_segment st l = ROk s -> In s (st_segs st) /\ g_idx s = lseg l.
Proof. intro H. apply get_segment_ok in H. now apply find_seg_some. Qed.

Lemma valid_get_segment st l : valid_loc st l -> exists s, get_segment st l = ROk s /\ in_range s (lmc l).
Proof. intros (s & Hf & Hr). exists s. unfold get_segment. rewrite Hf. auto. Qed.

Lemma seg_len_pos st s : wf_store st -> In s (st_segs st) -> 1 <= seg_len s.
Proof.
  intros W Hin. pose proof (wf_nonempty _ W s Hin). unfold seg_len.
  destruct (g_cmds s); [congruence|]. cbn [length]. lia.
Qed.

Lemma first_le_longest st s : wf_store st -> In s (st_segs st) -> g_first s <= seg_longest s.
Proof. intros W Hin. pose proof (seg_len_pos _ _ W Hin). unfold seg_longest. lia. Qed.

Lemma valid_first st s : wf_store st -> In s (st_segs st) -> valid_loc st (seg_first_loc s).
Proof.
  intros W Hin. exists s. cbn. split; [now apply wf_idx_unique|].
  pose proof (first_le_longest _ _ W Hin). lia.
Qed.

Lemma valid_in_seg st s m : wf_store st -> In s (st_segs st) -> in_range s m -> valid_loc st (L m (g_idx s)).
Proof. intros W Hin Hr. exists s. cbn. split; [now apply wf_idx_unique|exact Hr]. Qed.

Lemma valid_mc_bound st l : wf_store st -> valid_loc st l -> lmc l < u64_max - SEGMENT_BUFFER_MAX.
Proof.
  intros W (s & Hf & Hr). apply find_seg_some in Hf as [Hin _].
  pose proof (wf_bound _ W s Hin). lia.
Qed.

(** * Ancestry *)
Lemma loc_anc_trans st a b c : loc_anc st a b -> loc_anc st b c -> loc_anc st a c.
Proof. intros H1 H2. revert H1. induction H2; intro H1; auto. eapply la_step; [apply IHloc_anc; exact H1|exact H]. Qed.

Lemma loc_step_mc st a b : wf_store st -> loc_step st a b -> lmc a < lmc b.
Proof.
  intros W H. destruct H.
  - lia.
  - apply find_seg_some in H as [Hin _]. destruct (wf_prior _ W s p Hin H1). lia.
Qed.

Lemma loc_anc_mc st a b : wf_store st -> loc_anc st a b -> lmc a <= lmc b.
Proof. intros W H. induction H; [lia|]. pose proof (loc_step_mc _ _ _ W H0). lia. Qed.

(** inside a segment, lower max cuts are ancestors *)
Lemma anc_in_seg st s : wf_store st -> In s (st_segs st) ->
  forall (d : nat) m, in_range s m -> in_range s (m + N.of_nat d) ->
  loc_anc st (L m (g_idx s)) (L (m + N.of_nat d) (g_idx s)).
Proof.
  intros W Hin. induction d as [|d IH]; intros m H1 H2.
  - replace (m + N.of_nat 0) with m by lia. constructor.
  - assert (in_range s (m + N.of_nat d)) by (unfold in_range in *; lia).
    eapply la_step; [apply IH; auto|].
    apply step_in; cbn; auto; try lia; apply valid_in_seg; auto.
Qed.

Lemma anc_in_seg' st s m m' : wf_store st -> In s (st_segs st) -> in_range s m -> in_range s m' -> m <= m' ->
  loc_anc st (L m (g_idx s)) (L m' (g_idx s)).
Proof.
  intros W Hin H1 H2 Hle. replace m' with (m + N.of_nat (N.to_nat (m' - m))) by lia.
  apply anc_in_seg; auto. replace (m + N.of_nat (N.to_nat (m' - m))) with m' by lia. auto.
Qed.

Lemma loc_eta l : L (lmc l) (lseg l) = l.
Proof. destruct l; reflexivity. Qed.

(** every valid location is an ancestor-or-equal of a committed head *)
Lemma valid_committed st l : wf_store st -> valid_loc st l ->
  exists i h, In (i, h) (st_heads st) /\ loc_anc st l h.
Proof.
  intros W (s & Hf & Hr). pose proof Hf as Hf'. apply find_seg_some in Hf' as [Hin Hidx].
  destruct (wf_tips _ W s Hin) as (i & h & Hh & Ha). exists i, h. split; auto.
  eapply loc_anc_trans; [|exact Ha].
  rewrite <- (loc_eta l), <- Hidx. apply anc_in_seg'; auto.
  - pose proof (first_le_longest _ _ W Hin). unfold in_range. lia.
  - unfold in_range in Hr. lia.
Qed.

(** a prior of the segment is an ancestor of every location of the segment *)
Lemma prior_anc st s p m : wf_store st -> In s (st_segs st) -> In p (prior_list (g_prior s)) -> in_range s m ->
  loc_anc st p (L m (g_idx s)).
Proof.
  intros W Hin Hp Hr.
  eapply loc_anc_trans with (b := seg_first_loc s).
  - eapply la_step; [constructor|]. eapply step_prior with (s := s); cbn; auto. now apply wf_idx_unique.
  - unfold seg_first_loc. pose proof (first_le_longest _ _ W Hin).
    apply anc_in_seg'; auto; unfold in_range in *; lia.
Qed.

(** * get_location returns valid locations holding the address *)
Lemma seg_find_addr_spec s a l : seg_find_addr s a = Some l ->
  l = L (amc a) (g_idx s) /\ g_first s <= amc a /\ (N.to_nat (amc a - g_first s) < length (g_cmds s))%nat.
Proof.
  unfold seg_find_addr. destruct (N.leb_spec (g_first s) (amc a)); [|discriminate].
  destruct (N.ltb_spec (amc a - g_first s) (seg_len s)); [|discriminate]. cbn [andb].
  destruct (nth_error _ _) eqn:E; [|discriminate]. destruct (c_id s0 =? aid a); [|discriminate].
  intro E0; inv E0. repeat split; auto. apply nth_error_Some. congruence.
Qed.

Lemma get_location_in_valid segs a l : get_location_in segs a = Some l ->
  exists s, In s segs /\ l = L (amc a) (g_idx s) /\ in_range s (amc a).
Proof.
  induction segs as [|s r IH]; cbn; [discriminate|].
  destruct (seg_find_addr s a) eqn:E.
  - intro H; inv H. apply seg_find_addr_spec in E as (-> & H1 & H2). exists s. repeat split; auto.
    unfold seg_longest, seg_len. lia.
  - intro H. destruct (IH H) as (s' & ? & ? & ?). exists s'. auto.
Qed.

Lemma get_location_valid st a l : wf_store st -> get_location st a = Some l -> valid_loc st l.
Proof.
  intros W H. apply get_location_in_valid in H as (s & Hin & -> & Hr). now apply valid_in_seg.
Qed.

(** * The rank of a location: how many locations of the store lie strictly below it *)
Definition loc_ltb (a b : loc) : bool := loc_leb a b && negb (loc_eqb a b).

Definition seg_locs (s : seg) : list loc :=
  map (fun k => L (g_first s + N.of_nat k) (g_idx s)) (seq 0 (length (g_cmds s))).
Definition all_locs (st : store) : list loc := flat_map seg_locs (st_segs st).
Definition rank (st : store) (l : loc) : nat := length (filter (fun x => loc_ltb x l) (all_locs st)).

Lemma all_locs_length st : length (all_locs st) = length (store_ids st).
Proof.
  unfold all_locs, store_ids. induction (st_segs st) as [|s r IH]; cbn; auto.
  rewrite !app_length, IH. unfold seg_locs. now rewrite !map_length, seq_length.
Qed.

Lemma valid_in_all_locs st l : wf_store st -> valid_loc st l -> In l (all_locs st).
Proof.
  intros W (s & Hf & Hr). apply find_seg_some in Hf as [Hin Hidx]. pose proof (seg_len_pos _ _ W Hin) as Hpos.
  unfold all_locs. apply in_flat_map. exists s. split; auto.
  unfold seg_locs. apply in_map_iff. exists (N.to_nat (lmc l - g_first s)). split.
  - destruct l as [m sg]. cbn in *. subst sg. f_equal. lia.
  - apply in_seq. unfold seg_longest, seg_len in *. lia.
Qed.

Lemma filter_length_le {A} (p q : A -> bool) l :
  (forall x, In x l -> p x = true -> q x = true) -> (length (filter p l) <= length (filter q l))%nat.
Proof.
  induction l as [|x l IH]; cbn; auto. intro H.
  assert (IH' : (length (filter p l) <= length (filter q l))%nat) by (apply IH; intros; apply H; auto).
  destruct (p x) eqn:P.
  - rewrite (H x (or_introl eq_refl) P). cbn. lia.
  - destruct (q x); cbn; lia.
Qed.

Lemma filter_length_lt {A} (p q : A -> bool) l y :
  (forall x, In x l -> p x = true -> q x = true) -> In y l -> p y = false -> q y = true ->
  (length (filter p l) < length (filter q l))%nat.
Proof.
  induction l as [|x l IH]; cbn; [tauto|]. intros H [->|Hin] Py Qy.
  - rewrite Py, Qy. cbn. pose proof (filter_length_le p q l). assert (length (filter p l) <= length (filter q l))%nat by (apply H0; intros; apply H; auto). lia.
  - assert (length (filter p l) < length (filter q l))%nat by (apply IH; auto).
    destruct (p x) eqn:P.
    + rewrite (H x (or_introl eq_refl) P). cbn. lia.
    + destruct (q x); cbn; lia.
Qed.

Lemma loc_ltb_iff a b : loc_ltb a b = true <-> loc_leb a b = true /\ a <> b.
Proof.
  unfold loc_ltb. rewrite andb_true_iff, negb_true_iff. split; intros [H1 H2]; split; auto.
  - intro E. apply loc_eqb_eq in E. congruence.
  - destruct (loc_eqb a b) eqn:E; auto. apply loc_eqb_eq in E. contradiction.
Qed.

Lemma loc_ltb_irrefl a : loc_ltb a a = false.
Proof. destruct (loc_ltb a a) eqn:E; auto. apply loc_ltb_iff in E. tauto. Qed.

Lemma loc_ltb_trans a b c : loc_ltb a b = true -> loc_ltb b c = true -> loc_ltb a c = true.
Proof.
  rewrite !loc_ltb_iff. intros [H1 N1] [H2 N2]. split; [eapply loc_leb_trans; eauto|].
  intros ->. apply N1. now apply loc_leb_antisym.
Qed.

Lemma rank_lt st a b : wf_store st -> valid_loc st a -> loc_ltb a b = true -> (rank st a < rank st b)%nat.
Proof.
  intros W Va Hab. unfold rank. apply filter_length_lt with (y := a).
  - intros x _ Hx. eapply loc_ltb_trans; eauto.
  - now apply valid_in_all_locs.
  - apply loc_ltb_irrefl.
  - exact Hab.
Qed.

Lemma filter_true {A} (l : list A) : filter (fun _ => true) l = l.
Proof. induction l; cbn; f_equal; auto. Qed.

Lemma rank_bound st a : wf_store st -> valid_loc st a -> (rank st a < length (store_ids st))%nat.
Proof.
  intros W Va. rewrite <- all_locs_length. unfold rank.
  pose proof (filter_length_lt (fun x => loc_ltb x a) (fun _ => true) (all_locs st) a) as H.
  rewrite filter_true in H. apply H; auto.
  - now apply valid_in_all_locs.
  - apply loc_ltb_irrefl.
Qed.

(** lower max cut => strictly below in the derived order *)
Lemma mc_lt_ltb a b : lmc a < lmc b -> loc_ltb a b = true.
Proof.
  intro H. apply loc_ltb_iff. split.
  - apply loc_leb_iff. lia.
  - intros ->. lia.
Qed.
