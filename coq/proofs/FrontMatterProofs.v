(** The front-matter guard accepts as a closing fence exactly what the markdown crate accepts. *)
From Coq Require Import List NArith Bool Lia.
From Aranya Require Import model.FrontMatterSyntax model.FrontMatter gen.GenFrontMatter.
Import ListNotations.

Lemma text_eqb_eq a : forall b, text_eqb a b = true <-> a = b.
Proof.
  induction a as [|x a IH]; intros [|y b]; cbn; split; intros H; try discriminate; auto.
  - apply andb_true_iff in H as [H1 H2]. apply N.eqb_eq in H1. apply IH in H2. subst; auto.
  - inversion H; subst. rewrite N.eqb_refl. apply IH; auto.
Qed.

(** a line is its trimmed part followed by trimmed characters only *)
Lemma trim_end_decomp p l : exists ws, l = trim_end p l ++ ws /\ forallb p ws = true.
Proof.
  induction l as [|c r (ws & Hr & Hw)]; cbn.
  - exists []. auto.
  - destruct (trim_end p r) as [|y r'] eqn:E.
    + destruct (p c) eqn:Pc.
      * exists (c :: ws). cbn in Hr. subst r. cbn. rewrite Pc. auto.
      * exists ws. cbn in *. subst r. auto.
    + exists ws. cbn in *. rewrite Hr at 1. auto.
Qed.

Lemma trim_end_all p ws : forallb p ws = true -> trim_end p ws = [].
Proof.
  induction ws as [|c r IH]; cbn; auto. intros H. apply andb_true_iff in H as [Hc Hr].
  rewrite IH by auto. rewrite Hc. auto.
Qed.

(** trimming [o ++ ws] gives [o] when [o] ends in a character that is not trimmed *)
Lemma trim_end_app p o ws : forallb p ws = true -> o <> [] -> p (last o 0%N) = false -> trim_end p (o ++ ws) = o.
Proof.
  intros Hws. induction o as [|c o IH]; intros Hne Hl; [congruence|]. cbn [app trim_end].
  destruct o as [|d o'].
  - cbn [app]. rewrite trim_end_all by auto. cbn in Hl. rewrite Hl. auto.
  - rewrite IH; [reflexivity|discriminate|exact Hl].
Qed.

Lemma strip_prefix_spec o : forall l ws, strip_prefix o l = Some ws <-> l = o ++ ws.
Proof.
  induction o as [|x o IH]; intros l ws; cbn.
  - split; [intros H; inversion H; auto|intros ->; auto].
  - destruct l as [|y l]; [split; discriminate|].
    destruct (x =? y)%N eqn:E.
    + apply N.eqb_eq in E. subst. rewrite IH. split; [intros ->; auto|intros H; inversion H; auto].
    + split; [discriminate|]. intros H. inversion H. subst. rewrite N.eqb_refl in E. discriminate.
Qed.

(** the generated values are the ones the lemma below is about *)
Lemma fm_trim_pinned : fm_trim = TrimChars [32%N; 9%N].
Proof. reflexivity. Qed.
Lemma fm_fences_pinned : fm_fences = [[45%N; 45%N; 45%N]; [43%N; 43%N; 43%N]].
Proof. reflexivity. Qed.
Lemma fm_line_seps_pinned : fm_line_seps = [10%N; 13%N].
Proof. reflexivity. Qed.
(** markdown-rs skips one leading byte order mark (U+FEFF); so does the guard *)
Lemma fm_skip_prefix_pinned : fm_skip_prefix = [65279%N].
Proof. reflexivity. Qed.

Lemma trims_sp_tab c : trims (TrimChars [32%N; 9%N]) c = is_sp_tab c.
Proof. cbn. unfold is_sp_tab. rewrite orb_false_r. reflexivity. Qed.

Lemma forallb_ext {A} (f g : A -> bool) l : (forall x, f x = g x) -> forallb f l = forallb g l.
Proof. intros H. induction l; cbn; auto. rewrite H, IHl. auto. Qed.

(** For the generated trim set and fence literals: the guard's [fence] recognises a line as the fence
    [o] exactly when markdown-rs accepts that line as the closing fence of a block opened with [o]. *)
Definition front_matter_guard_exact_stmt : Prop :=
  forall (o line : text), In o fm_fences ->
    (fence fm_trim fm_fences line = Some o <-> md_closing_fence o line = true).

Lemma front_matter_guard_exact_proof : front_matter_guard_exact_stmt.
Proof.
  intros o line Ho. rewrite fm_trim_pinned, fm_fences_pinned in *.
  set (p := trims (TrimChars [32%N; 9%N])).
  assert (Hlast : p (last o 0%N) = false /\ o <> []).
  { destruct Ho as [<-|[<-|[]]]; split; try discriminate; reflexivity. }
  destruct Hlast as [Hl Hne].
  unfold fence, md_closing_fence. fold p. split.
  - intros H. apply find_some in H as [_ He]. apply text_eqb_eq in He.
    destruct (trim_end_decomp p line) as (ws & Hd & Hw). rewrite He in Hd.
    assert (Hs : strip_prefix o line = Some ws) by (apply strip_prefix_spec; auto).
    rewrite Hs. rewrite <- Hw. apply forallb_ext. intros x. symmetry. apply trims_sp_tab.
  - destruct (strip_prefix o line) as [ws|] eqn:Hs; [|discriminate]. intros Hw.
    apply strip_prefix_spec in Hs. subst line.
    assert (Hw' : forallb p ws = true) by (rewrite <- Hw; apply forallb_ext; intros x; apply trims_sp_tab).
    rewrite (trim_end_app p o ws Hw' Hne Hl).
    destruct Ho as [<-|[<-|[]]]; reflexivity.
Qed.

(** Consequence for whole documents: when the guard lets a document with an opening fence through,
    some later line is a closing fence in the markdown crate's sense (so its front-matter construct
    succeeds and never backtracks). *)
Definition guard_passes_only_closed_stmt : Prop :=
  forall (data first : text) (rest : list text) (o : text),
    split_on fm_line_seps [] (skip_prefix fm_skip_prefix data) = first :: rest ->
    fence fm_trim fm_fences first = Some o ->
    has_unterminated_front_matter fm_trim fm_fences fm_line_seps fm_skip_prefix data = false ->
    exists ln, In ln rest /\ md_closing_fence o ln = true.

Lemma guard_passes_only_closed_proof : guard_passes_only_closed_stmt.
Proof.
  intros data first rest o Hs Hf Hu. unfold has_unterminated_front_matter in Hu. rewrite Hs, Hf in Hu.
  apply negb_false_iff in Hu. apply existsb_exists in Hu as (ln & Hin & He).
  exists ln. split; auto.
  assert (Ho : In o fm_fences) by (unfold fence in Hf; apply find_some in Hf as [H _]; exact H).
  apply front_matter_guard_exact_proof; auto.
  destruct (fence fm_trim fm_fences ln) as [x|]; cbn in He; [|discriminate].
  apply text_eqb_eq in He. subst; auto.
Qed.

(** Non-vacuity, and the difference a Unicode-aware trim would make (NBSP after the closing fence). *)
Example front_matter_examples :
  let d1 := [45;45;45;10; 97;10; 45;45;45;32;9;10]%N in        (* ---\n a\n ---<sp><tab>\n *)
  let d2 := [45;45;45;10; 97;10; 45;45;45;160;10]%N in         (* ---\n a\n ---<NBSP>\n *)
  has_unterminated_front_matter fm_trim fm_fences fm_line_seps fm_skip_prefix d1 = false
  /\ has_unterminated_front_matter fm_trim fm_fences fm_line_seps fm_skip_prefix d2 = true
  /\ has_unterminated_front_matter TrimUnicodeWhitespace fm_fences fm_line_seps fm_skip_prefix d2 = false
  /\ md_closing_fence [45;45;45]%N [45;45;45;160]%N = false
  /\ has_unterminated_front_matter fm_trim fm_fences fm_line_seps fm_skip_prefix (65279 :: [45;45;45;10; 97;10])%N = true.
Proof. vm_compute. repeat split. Qed.
