(** Vector primitives of the [TraversalQueue] model: pointwise ([nth_error])
    characterisations and their multiset ([Permutation]) consequences. *)
From Aranya Require Import base.Tactics model.TravQueue.
From Coq Require Export Permutation.

(** * Pointwise characterisations *)

Lemma nth_error_ext {A} (l l' : list A) :
  (forall k, nth_error l k = nth_error l' k) -> l = l'.
Proof.
  revert l'; induction l as [|x l IH]; intros [|y l'] H; auto.
  - specialize (H 0); discriminate.
  - specialize (H 0); discriminate.
  - f_equal.
    + specialize (H 0); cbn in H; congruence.
    + apply IH. intro k. apply (H (S k)).
Qed.

Lemma set_at_length {A} (l : list A) i y : length (set_at l i y) = length l.
Proof. revert i; induction l; intros [|i]; cbn; auto. Qed.

Lemma nth_error_set_at {A} (l : list A) i y k :
  nth_error (set_at l i y) k =
  if (k =? i) && (i <? length l) then Some y else nth_error l k.
Proof.
  revert i k; induction l as [|x l IH]; intros [|i] [|k]; cbn [set_at nth_error length]; auto.
  all: try (destruct (_ =? _); reflexivity).
  rewrite IH. cbn [Nat.eqb]. replace (S i <? S (length l)) with (i <? length l); auto.
Qed.

Lemma nth_error_None_ge {A} (l : list A) k : length l <= k -> nth_error l k = None.
Proof. apply nth_error_None. Qed.

Lemma nth_error_Some_lt {A} (l : list A) k x : nth_error l k = Some x -> k < length l.
Proof. intro H. apply nth_error_Some. congruence. Qed.

Lemma nth_error_lt_Some {A} (l : list A) k : k < length l -> exists x, nth_error l k = Some x.
Proof. intro H. destruct (nth_error l k) eqn:E; eauto. apply nth_error_None in E. lia. Qed.

Lemma swap_length {A} (l l' : list A) i j : swap l i j = Some l' -> length l' = length l.
Proof.
  unfold swap. destruct (nth_error l i), (nth_error l j); try discriminate.
  intro H; inv H. now rewrite !set_at_length.
Qed.

Lemma swap_some {A} (l : list A) i j :
  i < length l -> j < length l -> exists l', swap l i j = Some l'.
Proof.
  intros Hi Hj. unfold swap.
  destruct (nth_error_lt_Some l i Hi) as [x ->], (nth_error_lt_Some l j Hj) as [y ->]. eauto.
Qed.

Lemma swap_bounds {A} (l l' : list A) i j : swap l i j = Some l' -> i < length l /\ j < length l.
Proof.
  unfold swap. destruct (nth_error l i) eqn:E1, (nth_error l j) eqn:E2; try discriminate.
  intros _. split; eapply nth_error_Some_lt; eauto.
Qed.

Lemma nth_error_swap {A} (l l' : list A) i j k :
  swap l i j = Some l' ->
  nth_error l' k = if k =? j then nth_error l i else if k =? i then nth_error l j else nth_error l k.
Proof.
  intro H. pose proof (swap_bounds _ _ _ _ H) as [Hi Hj]. unfold swap in H.
  destruct (nth_error l i) eqn:E1, (nth_error l j) eqn:E2; try discriminate. inv H.
  rewrite !nth_error_set_at, set_at_length.
  destruct (Nat.eqb_spec k j), (Nat.eqb_spec k i); subst; cbn [andb];
    repeat match goal with |- context [?a <? ?b] => destruct (Nat.ltb_spec a b); try lia end; auto.
Qed.

Lemma nth_error_removelast {A} (l : list A) k :
  nth_error (removelast l) k = if S k <? length l then nth_error l k else None.
Proof.
  revert k; induction l as [|x l IH]; intro k; [destruct k; reflexivity|].
  cbn [removelast]. destruct l as [|y l].
  - destruct k as [|[|k]]; reflexivity.
  - destruct k; [reflexivity|]. cbn [nth_error]. rewrite IH. cbn [length].
    destruct (Nat.ltb_spec (S k) (S (length l))), (Nat.ltb_spec (S (S k)) (S (S (length l)))); auto; lia.
Qed.

Lemma length_removelast {A} (l : list A) : length (removelast l) = length l - 1.
Proof.
  induction l as [|x l IH]; [reflexivity|]. cbn [removelast]. destruct l as [|y l]; [reflexivity|].
  cbn [length] in *. rewrite IH. lia.
Qed.

Lemma nth_error_last {A} (l : list A) d : l <> [] -> nth_error l (length l - 1) = Some (last l d).
Proof.
  induction l as [|x l IH]; [congruence|]. intros _. destruct l as [|y l]; [reflexivity|].
  cbn [length]. replace (S (S (length l)) - 1) with (S (length (y :: l) - 1)) by (cbn; lia).
  cbn [nth_error]. rewrite IH by discriminate. reflexivity.
Qed.

Lemma swap_remove_some {A} (l : list A) i : i < length l -> exists x l', swap_remove l i = Some (x, l').
Proof. intro H. unfold swap_remove. destruct (nth_error_lt_Some l i H) as [x ->]. eauto. Qed.

Lemma swap_remove_spec {A} (l l' : list A) i x :
  swap_remove l i = Some (x, l') ->
  nth_error l i = Some x /\ i < length l /\ length l' = length l - 1 /\
  forall k, nth_error l' k =
    if S k <? length l then (if k =? i then nth_error l (length l - 1) else nth_error l k) else None.
Proof.
  unfold swap_remove. destruct (nth_error l i) eqn:E; [|discriminate]. intro H; inv H.
  pose proof (nth_error_Some_lt _ _ _ E) as Hi.
  split; auto. split; auto. split.
  - rewrite length_removelast, set_at_length. reflexivity.
  - intro k. rewrite nth_error_removelast, set_at_length, nth_error_set_at.
    destruct (Nat.ltb_spec (S k) (length l)); auto.
    destruct (Nat.eqb_spec k i); cbn [andb]; auto.
    destruct (Nat.ltb_spec i (length l)); try lia.
    symmetry. apply nth_error_last. intro; subst; cbn in Hi; lia.
Qed.

Lemma position_spec {A} (p : A -> bool) l :
  match position p l with
  | Some i => exists x, nth_error l i = Some x /\ p x = true /\
                        forall j y, j < i -> nth_error l j = Some y -> p y = false
  | None => forall x, In x l -> p x = false
  end.
Proof.
  induction l as [|x l IH]; cbn [position]; [intros ? []|].
  destruct (p x) eqn:E.
  - exists x. repeat split; auto. intros; lia.
  - destruct (position p l) as [i|]; cbn [option_map].
    + destruct IH as (y & Hy & Hp & Hlt). exists y. repeat split; auto.
      intros [|j] z Hj Hz; cbn in Hz; [congruence|]. eapply Hlt; eauto. lia.
    + intros y [->|Hy]; auto.
Qed.

(** * Multiset consequences *)

Fixpoint remove_at {A} (i : nat) (l : list A) : list A :=
  match l, i with
  | [], _ => []
  | _ :: r, O => r
  | x :: r, S i' => x :: remove_at i' r
  end.

Lemma remove_at_perm {A} (l : list A) i x :
  nth_error l i = Some x -> Permutation l (x :: remove_at i l).
Proof.
  revert i; induction l as [|a l IH]; intros [|i] H; cbn in *; try discriminate.
  - inv H. reflexivity.
  - rewrite (IH _ H) at 1. apply perm_swap.
Qed.

Lemma set_at_perm {A} (l : list A) i x y :
  nth_error l i = Some x -> Permutation (set_at l i y) (y :: remove_at i l).
Proof.
  revert i; induction l as [|a l IH]; intros [|i] H; cbn in *; try discriminate.
  - reflexivity.
  - rewrite (IH _ H). apply perm_swap.
Qed.

Lemma set_at_same {A} (l : list A) i x : nth_error l i = Some x -> set_at l i x = l.
Proof.
  revert i; induction l as [|a l IH]; intros [|i] H; cbn in *; try discriminate.
  - congruence.
  - f_equal; auto.
Qed.

Lemma swap_perm {A} (l l' : list A) i j : swap l i j = Some l' -> Permutation l l'.
Proof.
  unfold swap. destruct (nth_error l i) as [x|] eqn:E1, (nth_error l j) as [y|] eqn:E2; try discriminate.
  intro H; inv H.
  destruct (Nat.eq_dec i j) as [->|Hne].
  - assert (x = y) by congruence. subst y.
    rewrite (set_at_same l j x E1). rewrite (set_at_same l j x E1). reflexivity.
  - assert (E3 : nth_error (set_at l i y) j = Some y).
    { rewrite nth_error_set_at. destruct (Nat.eqb_spec j i); [congruence|]. auto. }
    rewrite (set_at_perm _ j y x E3).
    pose proof (remove_at_perm _ _ _ E3) as P1.
    pose proof (set_at_perm l i x y E1) as P2.
    assert (P3 : Permutation (remove_at i l) (remove_at j (set_at l i y))).
    { eapply Permutation_cons_inv. rewrite <- P2. exact P1. }
    rewrite <- P3. apply remove_at_perm; auto.
Qed.

Lemma swap_remove_perm {A} (l l' : list A) i x :
  swap_remove l i = Some (x, l') -> Permutation l (x :: l').
Proof.
  unfold swap_remove. destruct (nth_error l i) eqn:E; [|discriminate]. intro H; inv H.
  assert (Hne : l <> []) by (intro; subst; destruct i; discriminate).
  destruct (exists_last Hne) as (l0 & z & ->).
  rewrite last_last.
  pose proof (nth_error_Some_lt _ _ _ E) as Hi. rewrite app_length in Hi. cbn in Hi.
  destruct (Nat.eq_dec i (length l0)) as [->|Hlt].
  - rewrite nth_error_app2, Nat.sub_diag in E by lia. cbn in E. inv E.
    rewrite set_at_same by (rewrite nth_error_app2, Nat.sub_diag by lia; reflexivity).
    rewrite removelast_last. rewrite Permutation_app_comm. reflexivity.
  - assert (Hi' : i < length l0) by lia.
    rewrite nth_error_app1 in E by auto.
    assert (Hs : set_at (l0 ++ [z]) i z = set_at l0 i z ++ [z]).
    { clear - Hi'. revert i Hi'; induction l0 as [|a l0 IH]; intros [|i] H; cbn in *; try lia; auto.
      f_equal. apply IH. lia. }
    rewrite Hs, removelast_last.
    rewrite (set_at_perm l0 i x z E).
    rewrite (remove_at_perm l0 i x E) at 1.
    rewrite Permutation_app_comm. cbn. apply perm_swap.
Qed.
