(** Pins of the regenerated compiler tables the fact-operation model is driven by
    ([gen/GenKeyEnc.v], from crates/aranya-policy-compiler/src/compile.rs). *)
From Aranya Require Import base.Tactics gen.GenKeyEnc.
From Coq Require Import String.

Lemma gen_counting_pins :
  counting_guard = "*limit <= 0"%string
  /\ counting_table =
     [(GUpTo, [GFactCount GLimit]);
      (GAtLeast, [GFactCount GLimit; GConstLimit; GLt; GNot]);
      (GAtMost, [GFactCount GLimitPlus1; GConstLimit; GGt; GNot]);
      (GExactly, [GFactCount GLimitPlus1; GConstLimit; GEq])]
  /\ limit_overflow_is_bad_argument = true
  /\ exists_lowering = [GQuery; GConstNone; GEq; GNot]
  /\ fact_literal_lowering = ["FactNew"; "FactKeySet"; "FactValueSet"]%string
  /\ query_lowering = ["Query"]%string
  /\ create_lowering = ["Create"]%string
  /\ delete_lowering = ["Delete"]%string
  /\ update_lowering = ["Dup"; "FactValueSet"; "Update"]%string
  /\ map_lowering = ["QueryStart"; "Block"; "QueryNext"; "Branch"; "End"; "Jump"; "End"]%string.
Proof. repeat split; reflexivity. Qed.
