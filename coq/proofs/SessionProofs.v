(** Sessions: overlay semantics (C14), exact revert (C13), failed calls, frame. *)
From Aranya Require Import base.Tactics base.ListLex base.SortedAssoc model.Facts model.Session
     proofs.FactsMaps proofs.FactsIndex proofs.FactsPersp proofs.SessionMerge proofs.CheckpointGeneric.

Definition put_update (m : nmap) (u : update) : nmap := let '(n, k, v) := u in nm_put m n k v.
Definition replay_log (log : list update) : nmap := fold_left put_update log [].

(** [current_facts] is the fact log replayed. *)
Definition session_inv (s : session) : Prop := s_cur s = replay_log (s_log s).

Lemma session_inv_new base : session_inv (s_new base).
Proof. reflexivity. Qed.

Lemma session_inv_insert s n k v : session_inv s -> session_inv (s_insert s n k v).
Proof.
  unfold session_inv, replay_log. intros H. cbn. rewrite fold_left_app. cbn. rewrite <- H. reflexivity.
Qed.

Lemma session_inv_delete s n k : session_inv s -> session_inv (s_delete s n k).
Proof.
  unfold session_inv, replay_log. intros H. cbn. rewrite fold_left_app. cbn. rewrite <- H. reflexivity.
Qed.

Lemma fold_put_ok log : forall m, nm_ok m -> nm_ok (fold_left put_update log m).
Proof.
  induction log as [|[[n k] v] log IH]; intros m H; cbn; auto. apply IH, nm_ok_put; auto.
Qed.

Lemma fold_put_over log : forall m g, over (fold_left put_update log m) g ≡ fupds (over m g) log.
Proof.
  induction log as [|[[n k] v] log IH]; intros m g; cbn [fold_left fupds].
  - apply feq_refl.
  - eapply feq_trans; [apply IH|]. apply fupds_feq. apply over_put.
Qed.

Lemma session_cur_ok s : session_inv s -> nm_ok (s_cur s).
Proof. intros ->. apply fold_put_ok, nm_ok_nil. Qed.

Lemma session_cur_over s g : session_inv s -> over (s_cur s) g ≡ fupds g (s_log s).
Proof.
  intros ->. eapply feq_trans; [apply fold_put_over|]. apply fupds_feq, over_nil.
Qed.

(** ** C14: the session answers like (apply log (flat base)) *)

Section WithDepth.
  Variable maxd : N.

  Theorem session_query_overlay st s g n k :
    wf_store maxd st -> iden st (s_base s) g -> session_inv s ->
    s_query st s n k = Ok (fupds g (s_log s) n k).
  Proof.
    intros W Hg Hi. unfold s_query. rewrite <- (session_cur_over s g Hi n k). unfold over.
    destruct (nm_get (s_cur s) n k); auto. apply (index_query_den maxd); auto.
  Qed.

  Lemma listing_sget (f : flat) n p (l : list fact) : sorted_listing f n p l ->
    sorted kcmp l /\ forall k, sget kcmp k l = if is_prefix bcmp p k then f n k else None.
  Proof.
    intros [S M]. split; [exact S|]. intros k.
    destruct (sget kcmp k l) as [v|] eqn:E.
    - apply (sget_In kcmp KL) in E; [|exact S]. apply M in E as [-> E]. auto.
    - destruct (is_prefix bcmp p k) eqn:Ep; auto. destruct (f n k) as [v|] eqn:Ef; auto.
      assert (In (k, v) l) by (apply M; auto). apply (sget_In kcmp KL) in H; [|exact S]. congruence.
  Qed.

  Lemma sget_listing (f : flat) n p (l : list fact) :
    sorted kcmp l -> (forall k, sget kcmp k l = if is_prefix bcmp p k then f n k else None) ->
    sorted_listing f n p l.
  Proof.
    intros S G. split; [exact S|]. intros k v. rewrite (sget_In kcmp KL), G; auto.
    destruct (is_prefix bcmp p k); split; try tauto; try discriminate. intros [H _]; discriminate.
  Qed.

  Theorem session_prefix_overlay st s g n p :
    wf_store maxd st -> iden st (s_base s) g -> session_inv s ->
    exists l, s_query_prefix st s n p = Ok (map Ok l) /\ sorted_listing (fupds g (s_log s)) n p l.
  Proof.
    intros W Hg Hi. unfold s_query_prefix.
    destruct (index_query_prefix_den maxd st (s_base s) g n p W Hg) as (prior & Hp & Hl). rewrite Hp.
    apply listing_sget in Hl as [Sp Gp].
    pose proof (session_cur_ok s Hi) as Hok.
    destruct (sget bcmp n (s_cur s)) as [fm|] eqn:E.
    - assert (Sfm : fm_ok fm) by (eapply nm_ok_inner; eauto).
      rewrite query_iterator_merge. eexists; split; [reflexivity|].
      destruct (pmerge_spec (find_prefixes fm p) (find_prefixes_sorted fm p Sfm) prior Sp) as [Sm Gm].
      apply sget_listing; auto. intros k. rewrite Gm, find_prefixes_get, Gp; auto.
      rewrite <- (session_cur_over s g Hi n k). unfold over, nm_get. rewrite E.
      destruct (is_prefix bcmp p k); cbn; auto.
    - cbn [pi_range pi_default length]. rewrite query_iterator_default.
      eexists; split; [reflexivity|]. apply sget_listing; auto. intros k. rewrite Gp.
      rewrite <- (session_cur_over s g Hi n k). unfold over, nm_get. rewrite E. reflexivity.
  Qed.
End WithDepth.

(** ** C13: session revert *)

Definition s_extends (S T : session) : Prop :=
  s_base T = s_base S /\ exists more, s_log T = s_log S ++ more.

Lemma s_extends_refl S : s_extends S S.
Proof. split; auto. exists []. rewrite app_nil_r; auto. Qed.

Definition s_write (s : session) (u : update) : session :=
  let '(n, k, v) := u in match v with Some b => s_insert s n k b | None => s_delete s n k end.

Lemma s_extends_write S T u : s_extends S T -> s_extends S (s_write T u).
Proof.
  intros [Hb [more Hm]]. destruct u as [[n k] [b|]]; cbn.
  - split; auto. exists (more ++ [(n, k, Some b)]). cbn. rewrite Hm, app_assoc; auto.
  - split; auto. exists (more ++ [(n, k, None)]). cbn. rewrite Hm, app_assoc; auto.
Qed.

Lemma session_inv_write s u : session_inv s -> session_inv (s_write s u).
Proof. destruct u as [[n k] [b|]]; cbn; auto using session_inv_insert, session_inv_delete. Qed.

Lemma session_eq A B : s_base A = s_base B -> s_log A = s_log B -> s_cur A = s_cur B -> A = B.
Proof. destruct A, B; cbn; intros; subst; auto. Qed.

Theorem s_revert_step_exact S T :
  session_inv S -> session_inv T -> s_extends S T -> s_revert T (s_checkpoint S) = Ok S.
Proof.
  intros IS IT [Hb [more Hm]]. unfold s_revert, s_checkpoint. cbn [cp_index].
  rewrite Hm, app_length.
  destruct (N.of_nat (length (s_log S)) =? N.of_nat (length (s_log S) + length more))%N eqn:E.
  - assert (more = []) by (destruct more; auto; cbn in E; lia). subst more. rewrite app_nil_r in Hm.
    f_equal. apply session_eq; auto. rewrite IT, IS, Hm. reflexivity.
  - destruct (N.of_nat (length (s_log S) + length more) <? N.of_nat (length (s_log S)))%N eqn:E2; [lia|].
    rewrite Nat2N.id, firstn_length_app. f_equal. apply session_eq; auto.
Qed.

(** ** Policy calls *)

Lemma s_op_extends st S T o : s_extends S T -> s_extends S (fst (s_op st T o)).
Proof.
  destruct o; cbn; auto.
  - apply (s_extends_write S T (n, k, Some v)).
  - apply (s_extends_write S T (n, k, None)).
Qed.

Lemma s_op_inv st s o : session_inv s -> session_inv (fst (s_op st s o)).
Proof. destruct o; cbn; auto using session_inv_insert, session_inv_delete. Qed.

Lemma s_script_ok st ops : forall S T, s_extends S T -> session_inv T ->
  s_extends S (fst (s_script st T ops)) /\ session_inv (fst (s_script st T ops)).
Proof.
  induction ops as [|o ops IH]; intros S T He Hi; cbn [s_script]; auto.
  pose proof (s_op_extends st S T o He) as He1. pose proof (s_op_inv st T o Hi) as Hi1.
  destruct (s_op st T o) as [s1 o1]. cbn [fst] in *.
  specialize (IH S s1 He1 Hi1). destruct (s_script st s1 ops) as [s2 o2]. cbn [fst] in *. auto.
Qed.

(** A failed [action] / [receive] leaves the session exactly as it was. *)
Theorem failed_call_exact st s ops : session_inv s -> fst (s_call st s ops false) = Ok s.
Proof.
  intros Hi. unfold s_call.
  destruct (s_script_ok st ops s s (s_extends_refl s) Hi) as [He Hi1].
  destruct (s_script st s ops) as [s1 outs]. cbn [fst] in *.
  apply s_revert_step_exact; auto.
Qed.

Theorem call_inv st s ops ok s' : session_inv s -> fst (s_call st s ops ok) = Ok s' -> session_inv s'.
Proof.
  intros Hi. destruct ok.
  - unfold s_call. destruct (s_script_ok st ops s s (s_extends_refl s) Hi) as [He Hi1].
    destruct (s_script st s ops) as [s1 outs]. cbn. intros H; inv H; auto.
  - rewrite failed_call_exact; auto. intros H; inv H; auto.
Qed.

(** Frame: a session call does not change the client state (store, heads, fact cache). *)
Theorem session_call_frame c s ops ok : fst (fst (session_call c s ops ok)) = c.
Proof. unfold session_call. destruct (s_call (c_store c) s ops ok). reflexivity. Qed.
