(** [parents_first]: in the result of [find_needed_segments] every entry
    starts either at the first command of its segment or right above a command
    the peer is known to hold, and every parent of a segment whose entry starts
    at its first command is either known to the peer or sent by an earlier
    entry.  Proved by an invariant over the traversal with a ghost bound
    [d] = the least max cut ever dropped by [push_bounded]. *)
From Aranya Require Import base.Tactics gen.GenQueue gen.GenSync model.Dag model.TravQueue model.Wire model.SyncStore model.SyncResp
  proofs.TravQueueVec proofs.TravQueueMoves proofs.TravQueueSpec proofs.TravQueueProofs
  proofs.SyncStoreProofs proofs.SyncQueueFacts proofs.SyncRespProofs proofs.SyncCoverProofs.
From Coq Require Import Sorted.
Local Open Scope N_scope.

Section Parents.
Variable dbg : bool.
Variable st : store.
Hypothesis W : wf_store st.
Variable haves : list loc.
Hypothesis Hhaves : Forall (valid_loc st) haves.

Notation Cov := (Cov st haves).
Notation cinv := (cinv st haves).
Notation tip := (tip st).

Definition inCU (s : fstate) (y : loc) : Prop := In y (f_collected s) \/ qin (f_pending s) y false.
Definition Sent (s : fstate) (p : loc) : Prop := exists y, inCU s y /\ lseg y = lseg p /\ lmc y <= lmc p.
Definition InH (s : fstate) (p : loc) : Prop := exists e b, qin (f_heads s) e b /\ lseg e = lseg p /\ lmc p <= lmc e.
Definition Hi (d : option N) (p : loc) : Prop := exists t, d = Some t /\ t <= lmc p.
Definition alt (X : loc -> Prop) (s : fstate) (d : option N) (p : loc) : Prop :=
  Cov p \/ Sent s p \/ InH s p \/ Hi d p \/ X p.

(** everything of the segment below the entry's start is known to the peer *)
Definition below_cov (y : loc) : Prop :=
  forall sg, find_seg (st_segs st) (lseg y) = Some sg -> lmc y = g_first sg \/ Cov (L (lmc y - 1) (lseg y)).

Record pinv (X : loc -> Prop) (s : fstate) (d : option N) : Prop := {
  pk1 : forall y, inCU s y -> valid_loc st y /\ below_cov y;
  pk2 : forall y sg, inCU s y -> find_seg (st_segs st) (lseg y) = Some sg -> lmc y = g_first sg ->
        forall p, In p (prior_list (g_prior sg)) -> alt X s d p;
  pk3 : forall x t, In x (f_collected s) -> d = Some t -> lmc x <= t;
  pk5 : d <> None -> length (f_collected s) = cap_segs }.

Lemma below_cov_lower l p : valid_loc st l -> below_cov l -> valid_loc st p -> lseg p = lseg l -> lmc p < lmc l -> Cov p.
Proof.
  intros Hvl Hb Hvp Hs Hlt. pose proof Hvl as (sg & Hf & Hr). destruct (Hb sg Hf) as [E|Hc].
  - destruct Hvp as (sg' & Hf' & Hr'). rewrite Hs, Hf in Hf'. inv Hf'. unfold in_range in *. lia.
  - eapply cov_down; [exact Hc|]. apply same_seg_anc; auto; cbn; try lia.
    exists sg. cbn. split; auto. destruct Hvp as (sg' & Hf' & Hr'). rewrite Hs, Hf in Hf'. inv Hf'. unfold in_range in *. lia.
Qed.

(** the generic step *)
Lemma pinv_step X X' s d s' d' :
  pinv X s d ->
  (forall y, inCU s' y -> inCU s y \/
     (valid_loc st y /\ below_cov y /\
      (forall sg, find_seg (st_segs st) (lseg y) = Some sg -> lmc y = g_first sg ->
                  forall p, In p (prior_list (g_prior sg)) -> alt X' s' d' p))) ->
  (forall p, valid_loc st p -> alt X s d p -> alt X' s' d' p) ->
  (forall x t, In x (f_collected s') -> d' = Some t -> lmc x <= t) ->
  (d' <> None -> length (f_collected s') = cap_segs) ->
  pinv X' s' d'.
Proof.
  intros [K1 K2 K3 K5] Hnew Halt H3 H5. constructor; auto.
  - intros y Hy. destruct (Hnew y Hy) as [Ho|(Hv & Hb & _)]; auto.
  - intros y sg Hy Hf Hfirst p Hp. destruct (Hnew y Hy) as [Ho|(_ & _ & Hk)]; [|eapply Hk; eauto].
    apply Halt; [|eapply K2; eauto].
    destruct (K1 y Ho) as [Hv _]. destruct Hv as (sg' & Hf' & _). rewrite Hf in Hf'. inv Hf'.
    apply find_seg_some in Hf as [Hin _]. now destruct (wf_prior _ W sg' p Hin Hp).
Qed.

(** * push_bounded with the ghost bound *)
Definition dmin (d : option N) (m : N) : option N := match d with Some t => Some (N.min t m) | None => Some m end.
Definition dle (d' d : option N) : Prop := forall t, d = Some t -> exists t', d' = Some t' /\ t' <= t.

Lemma dle_refl d : dle d d.
Proof. intros t E. exists t. split; auto. lia. Qed.
Lemma dle_trans a b c : dle a b -> dle b c -> dle a c.
Proof. intros H1 H2 t E. destruct (H2 t E) as (t1 & E1 & L1). destruct (H1 t1 E1) as (t2 & E2 & L2). exists t2. split; auto. lia. Qed.
Lemma dle_dmin d m : dle (dmin d m) d.
Proof. intros t ->. cbn. exists (N.min t m). split; auto. lia. Qed.
Lemma hi_dle d d' p : dle d' d -> Hi d p -> Hi d' p.
Proof. intros Hd (t & E & L). destruct (Hd t E) as (t' & E' & L'). exists t'. split; auto. lia. Qed.

Lemma argmax_mc_from_max l : forall i b,
  lmc (snd b) <= lmc (snd (argmax_mc_from i b l)) /\ forall x, In x l -> lmc x <= lmc (snd (argmax_mc_from i b l)).
Proof.
  induction l as [|x l IH]; intros i b; cbn [argmax_mc_from]; [split; [lia|intros ? []]|].
  destruct (N.leb_spec (lmc (snd b)) (lmc x)).
  - destruct (IH (S i) (i, x)) as [H1 H2]. cbn [snd] in *. split; [lia|]. intros y [->|Hy]; auto.
  - destruct (IH (S i) b) as [H1 H2]. split; auto. intros y [->|Hy]; auto. lia.
Qed.
Lemma argmax_mc_max v i m : argmax_mc v = Some (i, m) -> forall x, In x v -> lmc x <= lmc m.
Proof.
  destruct v as [|y v]; cbn [argmax_mc]; [discriminate|]. intro E; inv E.
  destruct (argmax_mc_from_max v 1 (0%nat, y)) as [H1 H2]. rewrite H0 in *. cbn [snd] in *.
  intros x [->|Hx]; auto.
Qed.

Lemma in_set_at_other {A} (v : list A) : forall k i x l, nth_error v k = Some x -> k <> i -> In x (set_at v i l).
Proof.
  induction v as [|z v IH]; intros [|k] [|i] x l Hk Hne; cbn in *; try discriminate; try congruence.
  - inv Hk. now left.
  - right. eapply nth_error_In; eauto.
  - right. eapply IH; eauto.
Qed.
Lemma in_set_at_self {A} (v : list A) : forall i m l, nth_error v i = Some m -> In l (set_at v i l).
Proof.
  induction v as [|z v IH]; intros [|i] m l Hi; cbn in *; try discriminate; auto. right. eapply IH; eauto.
Qed.

Lemma push_bounded_ghost v l v' d :
  push_bounded v l = ROk v' -> (length v <= cap_segs)%nat ->
  (forall x t, In x v -> d = Some t -> lmc x <= t) -> (d <> None -> length v = cap_segs) ->
  exists d', dle d' d /\
    (forall x t, In x v' -> d' = Some t -> lmc x <= t) /\ (d' <> None -> length v' = cap_segs) /\
    (forall x, In x v' -> In x v \/ x = l) /\
    (forall x, In x v \/ x = l -> In x v' \/ exists t, d' = Some t /\ t <= lmc x).
Proof.
  intros E Hle K3 K5. unfold push_bounded in E. destruct (Nat.ltb_spec (length v) cap_segs).
  - inv E. assert (d = None) by (destruct d; auto; exfalso; assert (length v = cap_segs) by (apply K5; discriminate); lia). subst d.
    exists None. split; [apply dle_refl|]. repeat split; try congruence.
    + intros x Hx. apply in_app_or in Hx as [?|[->|[]]]; auto.
    + intros x [Hx| ->]; left; apply in_or_app; [now left|right; now left].
  - pose proof (argmax_mc_spec v) as Ha. destruct (argmax_mc v) as [[i m]|] eqn:Em; [|discriminate].
    rewrite Ha in E. pose proof (argmax_mc_max v i m Em) as Hmax.
    assert (Hm : In m v) by (eapply nth_error_In; eauto).
    destruct (N.ltb_spec (lmc l) (lmc m)); inv E.
    + exists (dmin d (lmc m)). split; [apply dle_dmin|]. repeat split.
      * intros x t Hx Et. apply in_set_at in Hx as [->|Hx].
        -- destruct d as [t0|]; cbn in Et; inv Et; [pose proof (K3 m t0 Hm eq_refl)|]; lia.
        -- pose proof (Hmax x Hx). destruct d as [t0|]; cbn in Et; inv Et; [pose proof (K3 x t0 Hx eq_refl)|]; lia.
      * intros _. rewrite set_at_length. lia.
      * intros x Hx. apply in_set_at in Hx as [->|Hx]; auto.
      * intros x [Hx| ->].
        -- (* either still there, or it was the evicted maximum *)
           destruct (In_nth_error _ _ Hx) as [k Hk]. destruct (Nat.eq_dec k i) as [->|Hne].
           ++ right. assert (x = m) by congruence. subst x. destruct d as [t0|]; cbn; eexists; (split; [reflexivity|lia]).
           ++ left. eapply in_set_at_other; eauto.
        -- left. eapply in_set_at_self; eauto.
    + exists (dmin d (lmc l)). split; [apply dle_dmin|]. repeat split; auto.
      * intros x t Hx Et. pose proof (Hmax x Hx). destruct d as [t0|]; cbn in Et; inv Et; [pose proof (K3 x t0 Hx eq_refl)|]; lia.
      * intros _. lia.
      * intros x [Hx| ->]; auto. right. destruct d as [t0|]; cbn; eexists; (split; [reflexivity|lia]).
Qed.

Lemma push_bounded_all_ghost ls : forall v v' d,
  push_bounded_all v ls = ROk v' -> (length v <= cap_segs)%nat ->
  (forall x t, In x v -> d = Some t -> lmc x <= t) -> (d <> None -> length v = cap_segs) ->
  exists d', dle d' d /\
    (forall x t, In x v' -> d' = Some t -> lmc x <= t) /\ (d' <> None -> length v' = cap_segs) /\
    (forall x, In x v' -> In x v \/ In x ls) /\
    (forall x, In x v \/ In x ls -> In x v' \/ exists t, d' = Some t /\ t <= lmc x).
Proof.
  induction ls as [|l ls IH]; intros v v' d E Hle K3 K5; cbn [push_bounded_all] in E.
  - inv E. exists d. split; [apply dle_refl|]. repeat split; auto. intros x [?|[]]; auto.
  - apply rbind_ok in E as (v1 & E1 & E). destruct (push_bounded_ghost v l v1 d E1 Hle K3 K5) as (d1 & L1 & A1 & B1 & C1 & D1).
    assert (Hle1 : (length v1 <= cap_segs)%nat).
    { destruct (push_bounded_ok (fun _ => True) v l) as (v2 & E2 & _ & Hl2 & _); auto; [apply Forall_forall; auto|]. rewrite E1 in E2. inv E2. auto. }
    destruct (IH v1 v' d1 E Hle1 A1 B1) as (d2 & L2 & A2 & B2 & C2 & D2).
    exists d2. split; [eapply dle_trans; eauto|]. repeat split; auto.
    + intros x Hx. destruct (C2 x Hx) as [H|H]; [|right; now right]. destruct (C1 x H) as [?| ->]; auto. right. now left.
    + intros x Hx. assert (Hx1 : In x v \/ x = l \/ In x ls) by (destruct Hx as [?|[->|?]]; auto).
      destruct Hx1 as [H|[->|H]].
      * destruct (D1 x (or_introl H)) as [H1|(t & Et & Lt)]; [apply D2; auto|].
        right. destruct (L2 t Et) as (t' & E' & L'). exists t'. split; auto. lia.
      * destruct (D1 l (or_intror eq_refl)) as [H1|(t & Et & Lt)]; [apply D2; auto|].
        right. destruct (L2 t Et) as (t' & E' & L'). exists t'. split; auto. lia.
      * apply D2. auto.
Qed.

(** * The steps of one iteration *)
Definition with_pc (s : fstate) (p' : queue) (c' : list loc) (pv : option N) : fstate :=
  {| f_heads := f_heads s; f_pending := p'; f_collected := c'; f_prev := pv; f_cursor := f_cursor s |}.
Definition with_h (s : fstate) (h' : queue) (cur : nat) : fstate :=
  {| f_heads := h'; f_pending := f_pending s; f_collected := f_collected s; f_prev := f_prev s; f_cursor := cur |}.

Lemma alt_weaken (X X' : loc -> Prop) s d p : (forall q, X q -> X' q) -> alt X s d p -> alt X' s d p.
Proof. intros H [?|[?|[?|[?|?]]]]; unfold alt; auto 6. Qed.

(** moving pending entries above [t] into [collected] *)
Lemma flush_step X s d t p' ls c' pv :
  rep_ok (f_pending s) -> (length (f_collected s) <= cap_segs)%nat -> pinv X s d ->
  drain_above (f_pending s) t = Ok (p', ls) -> push_bounded_all (f_collected s) ls = ROk c' ->
  exists d1, dle d1 d /\ pinv X (with_pc s p' c' pv) d1.
Proof.
  intros Hpr Hcl Hp Ed Ec. pose proof Hp as [K1 K2 K3 K5].
  destruct (q_drain_above (f_pending s) t Hpr) as (p2 & ls2 & E2 & _ & Hin2 & Hls2 & _). rewrite Ed in E2. inv E2.
  destruct (push_bounded_all_ghost ls2 (f_collected s) c' d Ec Hcl K3 K5) as (d1 & L1 & A1 & B1 & C1 & D1).
  exists d1. split; auto. eapply pinv_step; [exact Hp| | |exact A1|exact B1].
  - intros y [Hy|Hy]; left; cbn in Hy.
    + destruct (C1 y Hy) as [H|H]; [now left|right]. now apply Hls2 in H.
    + right. now apply Hin2 in Hy.
  - intros p Hvp [Hc|[(y & Hy & Hs & Hm)|[Hh|[Hd|Hx]]]]; unfold alt; auto 6.
    + assert (Hcase : inCU (with_pc s p2 c' pv) y \/ exists t0, d1 = Some t0 /\ t0 <= lmc y).
      { destruct Hy as [Hy|Hy].
        - destruct (D1 y (or_introl Hy)) as [H|H]; [left; now left|right; exact H].
        - destruct (N.le_gt_cases (lmc y) t).
          + left. right. cbn. apply Hin2. auto.
          + destruct (D1 y (or_intror (proj2 (Hls2 y) (conj Hy H)))) as [H1|H1]; [left; now left|right; exact H1]. }
      destruct Hcase as [Hc|(t0 & Et & Lt)].
      * right. left. exists y. auto.
      * right. right. right. left. exists t0. split; auto. lia.
    + right. right. right. left. eapply hi_dle; eauto.
Qed.

(** pushing priors onto the heads queue *)
Lemma push_all_inh ps c : forall q q', push_all dbg q ps c = ROk q' -> rep_ok q ->
  (forall e b, qin q e b -> exists e' b', qin q' e' b' /\ lseg e' = lseg e /\ lmc e <= lmc e') /\
  (forall p, In p ps -> exists e' b', qin q' e' b' /\ lseg e' = lseg p /\ lmc p <= lmc e').
Proof.
  induction ps as [|p ps IH]; intros q q' E Hr; cbn [push_all] in E.
  - inv E. split; [intros e b Hq; exists e, b; repeat split; auto; lia|intros ? []].
  - apply rbind_ok in E as (q1 & E1 & E). apply (lift_q_inv dbg) in E1.
    destruct (q_push q p c Hr) as (q2 & E2 & Hr1 & _ & Hoth & Hhi & Hex & _). rewrite E1 in E2. inv E2.
    destruct (IH q2 q' E Hr1) as [I1 I2].
    assert (Hkeep : forall e b, qin q e b -> exists e' b', qin q2 e' b' /\ lseg e' = lseg e /\ lmc e <= lmc e').
    { intros e b Hq. destruct (N.eq_dec (lseg e) (lseg p)) as [Hs|Hs]; [|exists e, b; repeat split; auto; lia].
      destruct (N.lt_ge_cases (lmc p) (lmc e)); [exists e, b; repeat split; auto; lia|].
      destruct Hex as (e' & b' & Hq' & Hs' & Hm'). exists e', b'. repeat split; auto; [congruence|lia]. }
    split.
    + intros e b Hq. destruct (Hkeep e b Hq) as (e1 & b1 & Hq1 & Hs1 & Hm1).
      destruct (I1 e1 b1 Hq1) as (e2 & b2 & Hq2 & Hs2 & Hm2). exists e2, b2. repeat split; auto; [congruence|lia].
    + intros p0 [<-|Hp0]; [|now apply I2].
      destruct Hex as (e' & b' & Hq' & Hs' & Hm'). destruct (I1 e' b' Hq') as (e2 & b2 & Hq2 & Hs2 & Hm2).
      exists e2, b2. repeat split; auto; [congruence|lia].
Qed.

Lemma heads_step X s d ps c h' cur :
  push_all dbg (f_heads s) ps c = ROk h' -> rep_ok (f_heads s) -> pinv X s d ->
  pinv X (with_h s h' cur) d /\ (forall p, In p ps -> InH (with_h s h' cur) p).
Proof.
  intros E Hr Hp. destruct (push_all_inh ps c _ _ E Hr) as [I1 I2]. split.
  - eapply pinv_step; [exact Hp| | |apply (pk3 _ _ _ Hp)|apply (pk5 _ _ _ Hp)].
    + intros y Hy. left. exact Hy.
    + intros p Hvp [Hc|[Hs|[(e & b & Hq & Hs & Hm)|[Hd|Hx]]]]; unfold alt; auto 6.
      destruct (I1 e b Hq) as (e' & b' & Hq' & Hs' & Hm'). right. right. left. exists e', b'. repeat split; auto; [congruence|lia].
  - intros p Hin. destruct (I2 p Hin) as (e' & b' & Hq' & Hs' & Hm'). exists e', b'. auto.
Qed.

(** the unique entry of a segment *)
Lemma quniq_same q e b e' b' : quniq q -> qin q e b -> qin q e' b' -> lseg e = lseg e' -> e = e' /\ b = b'.
Proof.
  unfold quniq, uniq_ms, qin. intros Hu H1 H2 Hs.
  induction (absq q) as [|[x bx] m IH]; [destruct H1|]. cbn in Hu. apply NoDup_cons_iff in Hu as [Hni Hnd].
  destruct H1 as [E1|H1], H2 as [E2|H2].
  - inv E1. inv E2. auto.
  - inv E1. exfalso. apply Hni. rewrite Hs. apply in_map_iff. exists (e', b'). auto.
  - inv E2. exfalso. apply Hni. rewrite <- Hs. apply in_map_iff. exists (e, b). auto.
  - auto.
Qed.

(** pushing an uncovered location into [pending] *)
Lemma pend_step X s d l P' :
  push (f_pending s) l = Ok P' -> rep_ok (f_pending s) -> quniq (f_pending s) ->
  (forall y, qin (f_pending s) y true -> Cov (tip y)) -> (forall e b, qin (f_pending s) e b -> valid_loc st e) ->
  valid_loc st l -> below_cov l -> pinv X s d ->
  let s' := with_pc s P' (f_collected s) (f_prev s) in
  (forall sg, find_seg (st_segs st) (lseg l) = Some sg -> lmc l = g_first sg ->
              forall p, In p (prior_list (g_prior sg)) -> alt X s' d p) ->
  pinv X s' d /\
  (forall p, valid_loc st p -> lseg p = lseg l -> lmc l <= lmc p -> Cov p \/ Sent s' p).
Proof.
  intros E Hr Hu Hpc Hpv Hvl Hbl Hp s' Hk2. unfold push in E.
  destruct (q_push (f_pending s) l false Hr) as (q2 & E2 & Hr1 & Hin1 & Hoth & Hhi & Hex & Hu1). rewrite E in E2. inv E2.
  pose proof Hp as [K1 K2 K3 K5].
  (* an uncovered entry of the segment of [l] after the push, or full coverage *)
  assert (Huncov : forall y b, qin q2 y b -> lseg y = lseg l -> b = false \/ Cov (tip l)).
  { intros y b Hq Hs. destruct b; auto. right. rewrite <- (tip_same st y l Hs).
    destruct (Hin1 y true Hq) as [Ho|[-> [Hb|(b0 & Hb0 & Hb)]]]; auto; [discriminate|].
    rewrite orb_false_r in Hb. subst b0. auto. }
  split.
  - eapply pinv_step; [exact Hp| | |exact K3|exact K5].
    + intros y [Hy|Hy]; [left; now left|]. cbn in Hy.
      destruct (Hin1 y false Hy) as [Ho|[-> _]]; [left; now right|]. right. repeat split; auto.
    + intros p Hvp [Hc|[(y & Hy & Hs & Hm)|[Hh|[Hd|Hx]]]]; unfold alt; auto 6.
      destruct Hy as [Hy|Hy]; [right; left; exists y; split; [now left|auto]|].
      destruct (N.eq_dec (lseg y) (lseg l)) as [Hsl|Hsl]; [|right; left; exists y; split; [right; cbn; auto|auto]].
      destruct (N.lt_ge_cases (lmc l) (lmc y)) as [Hlt|Hge]; [right; left; exists y; split; [right; cbn; auto|auto]|].
      destruct Hex as (e' & b' & Hq' & Hs' & Hm').
      destruct (Hin1 e' b' Hq') as [Ho|[-> Hb]].
      * destruct (quniq_same _ _ _ _ _ Hu Ho Hy ltac:(congruence)) as [-> ->].
        right. left. exists y. split; [right; exact Hq'|auto].
      * assert (b' = false).
        { destruct Hb as [->|(b0 & Hb0 & ->)]; auto. destruct (quniq_same _ _ _ _ _ Hu Hb0 Hy ltac:(congruence)) as [_ ->]. reflexivity. }
        subst b'. destruct (N.le_gt_cases (lmc l) (lmc p)).
        -- right. left. exists l. split; [right; exact Hq'|split; [congruence|auto]].
        -- left. apply (below_cov_lower l p Hvl Hbl Hvp); [congruence|lia].
  - intros p Hvp Hs Hm. destruct Hex as (e' & b' & Hq' & Hs' & Hm').
    destruct (Huncov e' b' Hq' Hs') as [->|Hct].
    + destruct (Hin1 e' false Hq') as [Ho|[-> _]].
      * destruct (N.le_gt_cases (lmc e') (lmc p)).
        -- right. exists e'. split; [right; exact Hq'|split; [congruence|auto]].
        -- left. destruct (K1 e' (or_intror Ho)) as [Hve Hbe]. apply (below_cov_lower e' p Hve Hbe Hvp); [congruence|lia].
      * right. exists l. split; [right; exact Hq'|auto].
    + left. eapply cov_down; [exact Hct|]. rewrite <- (tip_same st p l Hs). now apply tip_anc.
Qed.

(** [cover_up_to] for a covered head *)
Lemma cover_step X s d head sg P' :
  cover_up_to (f_pending s) (lseg head) (lmc head) (seg_longest sg) = Ok P' ->
  rep_ok (f_pending s) -> quniq (f_pending s) -> (forall e b, qin (f_pending s) e b -> valid_loc st e) ->
  valid_loc st head -> find_seg (st_segs st) (lseg head) = Some sg -> Cov head -> pinv X s d ->
  pinv X (with_pc s P' (f_collected s) (f_prev s)) d.
Proof.
  intros E Hr Hu Hpv Hvh Hfs Hcov Hp. pose proof Hp as [K1 K2 K3 K5].
  pose proof Hfs as Hf'. apply find_seg_some in Hf' as [Hin Hidx].
  assert (Hrh : in_range sg (lmc head)).
  { destruct Hvh as (sg' & Hf' & Hr'). rewrite Hfs in Hf'. inv Hf'. exact Hr'. }
  assert (Hlg : seg_longest sg <= u64_max) by (pose proof (wf_bound _ W sg Hin); lia).
  destruct (q_cover (f_pending s) (lseg head) (lmc head) (seg_longest sg) Hr Hlg) as (p2 & E2 & Hrp & Hinp & Hoth & Habove & Hraise & _).
  rewrite E in E2. inv E2.
  assert (Hlow : forall p, valid_loc st p -> lseg p = lseg head -> lmc p <= lmc head -> Cov p).
  { intros p Hvp Hs Hm. eapply cov_down; [exact Hcov|]. apply same_seg_anc; auto. }
  eapply pinv_step; [exact Hp| | |exact K3|exact K5].
  - intros y [Hy|Hy]; [left; now left|]. cbn in Hy.
    destruct (Hinp y false Hy) as [Ho|[(Hf & _)|(_ & e0 & H0 & Hs0 & Hle & Hltc & ->)]]; [left; now right|discriminate|].
    right. pose proof (Hpv e0 false H0) as (sg0 & Hf0 & Hr0). rewrite Hs0, Hfs in Hf0. inv Hf0.
    split; [exists sg0; cbn; rewrite Hs0; split; auto; unfold in_range in *; lia|]. split.
    + intros sg1 Hf1. cbn in Hf1. rewrite Hs0, Hfs in Hf1. inv Hf1. right. cbn. rewrite Hs0.
      replace (lmc head + 1 - 1) with (lmc head) by lia. now rewrite loc_eta.
    + intros sg1 Hf1 Hfirst. cbn in Hf1, Hfirst. rewrite Hs0, Hfs in Hf1. inv Hf1. unfold in_range in *. lia.
  - intros p Hvp [Hc|[(y & Hy & Hs & Hm)|[Hh|[Hd|Hx]]]]; unfold alt; auto 6.
    destruct Hy as [Hy|Hy]; [right; left; exists y; split; [now left|auto]|].
    destruct (N.eq_dec (lseg y) (lseg head)) as [Hsh|Hsh]; [|right; left; exists y; split; [right; cbn; auto|auto]].
    destruct (N.le_gt_cases (lmc p) (lmc head)) as [Hle|Hgt]; [left; apply Hlow; auto; congruence|].
    assert (Hplg : lmc p <= seg_longest sg).
    { destruct Hvp as (sg' & Hf' & Hr'). rewrite <- Hs, Hsh, Hfs in Hf'. inv Hf'. unfold in_range in Hr'. lia. }
    destruct (N.le_gt_cases (lmc y) (lmc head)).
    + right. left. exists (with_mc y (lmc head + 1)). split; [right; cbn; apply Hraise; auto; lia|].
      split; [cbn; auto|cbn; lia].
    + right. left. exists y. split; [right; cbn; apply Habove; auto; lia|auto].
Qed.

(** * One iteration *)
Definition Popped (head p : loc) : Prop := lseg p = lseg head /\ lmc p <= lmc head.
Definition NoX (_ : loc) : Prop := False.

Lemma discharge head s d :
  pinv (Popped head) s d -> (forall p, valid_loc st p -> Popped head p -> alt NoX s d p) -> pinv NoX s d.
Proof.
  intros Hp Hd. eapply pinv_step; [exact Hp| | |apply (pk3 _ _ _ Hp)|apply (pk5 _ _ _ Hp)].
  - intros y Hy. now left.
  - intros p Hvp [Hc|[Hs|[Hh|[Hi0|Hx]]]]; [unfold alt; auto 6..|apply Hd; auto].
Qed.

Lemma body_parents s head covered c d :
  cinv s -> pinv (Popped head) s d -> valid_loc st head -> (covered = true -> Cov head) ->
  fns_body dbg st haves s head covered = ROk c ->
  exists d', dle d' d /\ pinv NoX (SyncRespProofs.ctl_state c) d'.
Proof.
  intros [Hhr Hpr Hhu Hpu Hhv Hpv Hhc Hpc Hcl] Hpi Hvh Hcov Hb. unfold fns_body in Hb.
  apply rbind_ok in Hb as (s1 & E1 & Hb).
  (* the flush *)
  assert (Hs1 : exists d1, dle d1 d /\ pinv (Popped head) s1 d1 /\ f_heads s1 = f_heads s /\
                rep_ok (f_pending s1) /\ quniq (f_pending s1) /\ (forall e b, qin (f_pending s1) e b -> valid_loc st e) /\
                (forall y, qin (f_pending s1) y true -> Cov (tip y))).
  { destruct (opt_N_eqb (f_prev s) (lmc head)).
    - inv E1. exists d. split; [apply dle_refl|]. split; [exact Hpi|]. split; [reflexivity|]. split; [auto|]. split; [auto|]. split; auto.
    - apply rbind_ok in E1 as ([p' ls] & Ed & E1). apply (lift_q_inv dbg) in Ed.
      apply rbind_ok in E1 as (c' & Ec & E1). inv E1.
      destruct (flush_step (Popped head) s d (lmc head) p' ls c' (Some (lmc head)) Hpr Hcl Hpi Ed Ec) as (d1 & L1 & P1).
      destruct (q_drain_above (f_pending s) (lmc head) Hpr) as (p2 & ls2 & E2 & Hr2 & Hin2 & _ & Hu2). rewrite Ed in E2. inv E2.
      exists d1. split; auto. split; [exact P1|]. cbn. split; [reflexivity|]. split; [auto|]. split; [auto|]. split.
      + intros e b Hq. apply Hin2 in Hq as [Hq _]. eauto.
      + intros y Hq. apply Hin2 in Hq as [Hq _]. eauto. }
  destruct Hs1 as (d1 & L1 & P1 & Eh & Hpr1 & Hpu1 & Hpv1 & Hpc1).
  assert (Hhr1 : rep_ok (f_heads s1)) by (rewrite Eh; auto).
  apply rbind_ok in Hb as (sg & Hsg & Hb).
  pose proof (get_segment_in _ _ _ Hsg) as [Hin Hidx].
  assert (Hfs : find_seg (st_segs st) (lseg head) = Some sg) by now apply get_segment_ok.
  assert (Hr : in_range sg (lmc head)).
  { destruct Hvh as (sg' & Hf' & Hr'). rewrite Hfs in Hf'. inv Hf'. exact Hr'. }
  assert (Hpin : forall p, valid_loc st p -> lseg p = lseg head -> in_range sg (lmc p)).
  { intros p (sg' & Hf' & Hr') Hs. rewrite Hs, Hfs in Hf'. inv Hf'. exact Hr'. }
  exists d1. split; auto.
  destruct covered.
  - (* covered *)
    specialize (Hcov eq_refl).
    apply rbind_ok in Hb as (p' & Ep & Hb). apply (lift_q_inv dbg) in Ep.
    apply rbind_ok in Hb as (h' & Eh' & Hb).
    pose proof (cover_step (Popped head) s1 d1 head sg p' Ep Hpr1 Hpu1 Hpv1 Hvh Hfs Hcov P1) as P2.
    destruct (heads_step (Popped head) (with_pc s1 p' (f_collected s1) (f_prev s1)) d1 _ true h' (f_cursor s1) Eh' Hhr1 P2) as [P3 _].
    assert (P4 : pinv NoX (with_h (with_pc s1 p' (f_collected s1) (f_prev s1)) h' (f_cursor s1)) d1).
    { apply (discharge head); auto. intros p Hvp [Hs Hm]. left. eapply cov_down; [exact Hcov|]. apply same_seg_anc; auto. }
    destruct (early_stop h'); inv Hb; exact P4.
  - (* uncovered *)
    apply rbind_ok in Hb as (best & Eb & Hb).
    apply rbind_ok in Hb as (s2 & E2 & Hb).
    assert (Hfin : pinv NoX s2 d1).
    { destruct best as [hloc|].
      - apply scan_have_in in Eb as (Hinh & Hsegh & Hsh).
        assert (Hvl : valid_loc st hloc) by (eapply Forall_forall in Hhaves; eauto).
        assert (Hrl : in_range sg (lmc hloc)) by (apply Hpin; auto).
        assert (Hch : Cov hloc) by (exists hloc; split; [auto|apply la_refl]).
        assert (Hlowc : forall p, valid_loc st p -> lseg p = lseg head -> lmc p <= lmc hloc -> Cov p).
        { intros p Hvp Hs Hm. eapply cov_down; [exact Hch|]. apply same_seg_anc; auto. congruence. }
        apply rbind_ok in E2 as (h' & Eh' & E2). apply rbind_ok in E2 as (p' & Ep & E2). inv E2.
        destruct (heads_step (Popped head) s1 d1 _ true h' (advance_cursor haves (f_cursor s1) (seg_longest sg) (length haves)) Eh' Hhr1 P1) as [PA _].
        destruct (N.ltb_spec (lmc hloc) (seg_longest sg)).
        + destruct (N.ltb_spec (lmc hloc) u64_max); [|destruct dbg; discriminate].
          apply (lift_q_inv dbg) in Ep.
          assert (Hvn : valid_loc st (L (lmc hloc + 1) (lseg head))).
          { exists sg. cbn. split; auto. unfold in_range in *. lia. }
          assert (Hbn : below_cov (L (lmc hloc + 1) (lseg head))).
          { intros sg1 Hf1. cbn in Hf1. rewrite Hfs in Hf1. inv Hf1. right. cbn.
            replace (lmc hloc + 1 - 1) with (lmc hloc) by lia. rewrite <- Hsegh, loc_eta. exact Hch. }
          destruct (pend_step (Popped head) (with_h s1 h' (advance_cursor haves (f_cursor s1) (seg_longest sg) (length haves))) d1 _ p' Ep Hpr1 Hpu1 Hpc1 Hpv1 Hvn Hbn PA) as [PB Hsent].
          { intros sg1 Hf1 Hfirst. cbn in Hf1, Hfirst. rewrite Hfs in Hf1. inv Hf1. unfold in_range in *. lia. }
          apply (discharge head); [exact PB|]. intros p Hvp [Hs Hm].
          destruct (N.le_gt_cases (lmc p) (lmc hloc)); [left; apply Hlowc; auto|].
          destruct (Hsent p Hvp Hs ltac:(cbn; lia)) as [Hc|Hs']; unfold alt; auto.
        + inv Ep. apply (discharge head); [exact PA|]. intros p Hvp [Hs Hm]. left. apply Hlowc; auto.
          pose proof (Hpin p Hvp Hs). unfold in_range in *. lia.
      - apply rbind_ok in E2 as (p' & Ep & E2). apply (lift_q_inv dbg) in Ep. apply rbind_ok in E2 as (h' & Eh' & E2). inv E2.
        destruct (heads_step (Popped head) s1 d1 _ false h' (advance_cursor haves (f_cursor s1) (seg_longest sg) (length haves)) Eh' Hhr1 P1) as [PA Hinh].
        assert (Hbn : below_cov (seg_first_loc sg)).
        { intros sg1 Hf1. cbn in Hf1. rewrite Hidx, Hfs in Hf1. inv Hf1. now left. }
        destruct (pend_step (Popped head) (with_h s1 h' (advance_cursor haves (f_cursor s1) (seg_longest sg) (length haves))) d1 _ p' Ep Hpr1 Hpu1 Hpc1 Hpv1 (valid_first _ _ W Hin) Hbn PA) as [PB Hsent].
        { intros sg1 Hf1 _ p Hp. cbn in Hf1. rewrite Hidx, Hfs in Hf1. inv Hf1.
          right. right. left. destruct (Hinh p Hp) as (e & b & Hq & Hs & Hm). exists e, b. auto. }
        apply (discharge head); [exact PB|]. intros p Hvp [Hs Hm].
        destruct (Hsent p Hvp ltac:(cbn; congruence) ltac:(cbn; pose proof (Hpin p Hvp Hs); unfold in_range in *; lia)) as [Hc|Hs']; unfold alt; auto. }
    destruct (early_stop (f_heads s2)); inv Hb; exact Hfin.
Qed.

(** * The loop and the final drain *)
Lemma loop_parents : forall fuel s s' d,
  fns_loop fuel dbg st haves s = ROk s' -> cinv s -> pinv NoX s d ->
  exists d', pinv NoX s' d' /\ cinv s' /\ (forall e b, qin (f_heads s') e b -> b = true).
Proof.
  induction fuel as [|f IH]; intros s s' d E Hinv Hp; cbn [fns_loop] in E; [discriminate|].
  pose proof Hinv as [Hhr Hpr Hhu Hpu Hhv Hpv Hhc Hpc Hcl].
  apply rbind_ok in E as ([h' r] & Ep & E). apply (lift_q_inv dbg) in Ep.
  destruct (q_pop (f_heads s) Hhr) as (h2 & r2 & E2 & Hr' & Hspec & Hu'). rewrite Ep in E2. inv E2.
  destruct r2 as [[head covered]|].
  - destruct Hspec as (Hin & Hmax & Hsub & Hoth & Hdiff).
    apply rbind_ok in E as (c & Ec & E).
    set (s0 := {| f_heads := h2; f_pending := f_pending s; f_collected := f_collected s; f_prev := f_prev s; f_cursor := f_cursor s |}) in *.
    assert (Hinv0 : cinv s0) by (constructor; cbn; eauto).
    assert (Hvh : valid_loc st head) by eauto.
    assert (Hcv : covered = true -> Cov head) by (intros ->; auto).
    assert (Hp0 : pinv (Popped head) s0 d).
    { eapply pinv_step; [exact Hp| | |apply (pk3 _ _ _ Hp)|apply (pk5 _ _ _ Hp)].
      - intros y Hy. now left.
      - intros p Hvp [Hc|[Hs|[(e & b & Hq & Hs & Hm)|[Hi0|[]]]]]; unfold alt; auto 6.
        destruct (N.eq_dec (lseg e) (lseg head)) as [Hsh|Hsh].
        + destruct (quniq_same _ _ _ _ _ Hhu Hq Hin Hsh) as [-> ->]. right. right. right. right. split; auto.
        + right. right. left. exists e, b. split; [cbn; eapply Hoth; eauto|auto]. }
    destruct (body_parents s0 head covered c d Hinv0 Hp0 Hvh Hcv Ec) as (d1 & L1 & P1).
    destruct (body_cover dbg st W haves Hhaves s0 head covered c Hinv0 Hvh Hcv Ec) as (Hic & _ & Hbr).
    destruct c as [s1|s1]; cbn [SyncRespProofs.ctl_state ctl_state] in *.
    + eapply IH; eauto.
    + inv E. exists d1. split; auto. split; auto.
      specialize (Hbr _ eq_refl). unfold early_stop in Hbr. apply andb_true_iff in Hbr as [Hall _].
      apply (proj1 (q_all_covered _ (ci_hr _ _ _ Hic))). exact Hall.
  - inv E. destruct Hspec as [Hn1 Hn2]. exists d. split; [|split].
    + eapply pinv_step; [exact Hp| | |apply (pk3 _ _ _ Hp)|apply (pk5 _ _ _ Hp)].
      * intros y Hy. now left.
      * intros p Hvp [Hc|[Hs|[(e & b & Hq & _)|[Hi0|[]]]]]; unfold alt; auto 6. exfalso. eapply Hn1; eauto.
    + constructor; cbn; auto.
      * intros e b Hq. exfalso. eapply Hn2; eauto.
      * intros e Hq. exfalso. eapply Hn2; eauto.
    + intros e b Hq. exfalso. eapply Hn2; eauto.
Qed.

(** what the final [collected] satisfies *)
Definition entry_ok (c : list loc) (x : loc) : Prop :=
  valid_loc st x /\ below_cov x /\
  (forall sg, find_seg (st_segs st) (lseg x) = Some sg -> lmc x = g_first sg ->
   forall p, In p (prior_list (g_prior sg)) -> Cov p \/ exists y, In y c /\ lseg y = lseg p /\ lmc y <= lmc p).

Lemma final_parents s d c :
  cinv s -> pinv NoX s d -> (forall e b, qin (f_heads s) e b -> b = true) ->
  push_bounded_all (f_collected s) (snd (drain_all (f_pending s))) = ROk c ->
  forall x, In x c -> entry_ok c x.
Proof.
  intros Hinv Hp Hcovd Ec x Hx. pose proof Hp as [K1 K2 K3 K5].
  pose proof (q_drain_all (f_pending s) (ci_pr _ _ _ Hinv)) as Hda.
  destruct (push_bounded_all_ghost _ _ _ d Ec (ci_cl _ _ _ Hinv) K3 K5) as (d' & L1 & A1 & B1 & C1 & D1).
  assert (Hcu : forall y, In y c -> inCU s y).
  { intros y Hy. destruct (C1 y Hy) as [H|H]; [now left|right; now apply Hda]. }
  destruct (K1 x (Hcu x Hx)) as [Hv Hb]. split; auto. split; auto.
  intros sg Hf Hfirst p Hpp.
  pose proof Hf as Hf'. apply find_seg_some in Hf' as [Hin _].
  destruct (wf_prior _ W sg p Hin Hpp) as [Hvp Hlt].
  assert (Hhi : forall t, d' = Some t -> t <= lmc p -> False).
  { intros t Et Lt. pose proof (A1 x t Hx Et). lia. }
  destruct (K2 x sg (Hcu x Hx) Hf Hfirst p Hpp) as [Hc|[(y & Hy & Hs & Hm)|[(e & b & Hq & Hs & Hm)|[Hi0|[]]]]]; auto.
  - assert (Hy' : In y (f_collected s) \/ In y (snd (drain_all (f_pending s)))) by (destruct Hy as [?|Hy]; [now left|right; now apply Hda]).
    destruct (D1 y Hy') as [Hyc|(t & Et & Lt)]; [right; exists y; auto|]. exfalso. eapply Hhi; eauto. lia.
  - left. rewrite (Hcovd e b Hq) in Hq. eapply cov_down; [apply (ci_hc _ _ _ Hinv e Hq)|].
    apply same_seg_anc; auto. eapply (ci_hv _ _ _ Hinv); eauto.
  - exfalso. destruct (hi_dle d d' p L1 Hi0) as (t & Et & Lt). eapply Hhi; eauto.
Qed.
End Parents.

(** * The theorem about [find_needed_segments] *)
Definition parents_first_stmt : Prop :=
  forall (dbg : bool) (st : store) (cmds : list addr) (ts : list loc),
  wf_store st -> find_needed_segments dbg st cmds = ROk ts ->
  forall x, In x ts ->
    valid_loc st x /\
    (* the entry starts at the first command of its segment, or right above a command the peer is known to hold *)
    (forall sg, find_seg (st_segs st) (lseg x) = Some sg ->
       lmc x = g_first sg \/ covered_by st cmds (L (lmc x - 1) (lseg x))) /\
    (* the parents of a segment sent from its first command are known to the peer, or are sent by an entry
       that sorts strictly earlier (entries are sent whole, in order) *)
    (forall sg, find_seg (st_segs st) (lseg x) = Some sg -> lmc x = g_first sg ->
       forall p, In p (prior_list (g_prior sg)) ->
         covered_by st cmds p \/ exists y, In y ts /\ lseg y = lseg p /\ lmc y <= lmc p /\ lmc y < lmc x).

Lemma parents_first_proof : parents_first_stmt.
Proof.
  intros dbg st cmds ts W E x Hx. unfold find_needed_segments in E.
  destruct (Nat.ltb _ _); [destruct dbg; discriminate|].
  set (haves := sort_desc_mc (have_locations st cmds)) in *.
  set (hi := match haves with h :: _ => lmc h | [] => 0 end) in *.
  destruct (N.ltb_spec (u64_max - SEGMENT_BUFFER_MAX) hi); [destruct dbg; discriminate|].
  apply rbind_ok in E as (heads & Eh & E). apply rbind_ok in E as (s & Es & E).
  destruct (drain_all (f_pending s)) as [q' rest] eqn:Ed. apply rbind_ok in E as (c & Ec & E). inv E.
  pose proof (haves_valid st W cmds) as Hhv. fold haves in Hhv.
  destruct qnew_ok as (Hr0 & Hu0 & Hn0).
  destruct (seed_cover dbg st W cmds (hi + SEGMENT_BUFFER_MAX)) with (hs := st_heads st) (q := qnew) (q' := heads)
    as (R1 & R2 & R3 & _); auto.
  { unfold highest. fold haves. fold hi. rewrite SEGMENT_BUFFER_MAX_pin. lia. }
  { intros e b Hq. exfalso. eapply Hn0; eauto. }
  { intros i' h' Hi'. eapply wf_heads; eauto. }
  set (s0 := {| f_heads := heads; f_pending := qnew; f_collected := []; f_prev := None; f_cursor := 0 |}) in *.
  assert (Hinv0 : cinv st haves s0).
  { constructor; cbn; auto; try lia;
      try (intros e b Hq; now destruct (R3 e b Hq));
      try (intros e Hq; destruct (R3 e true Hq) as [_ Hf]; discriminate);
      try (intros; exfalso; eapply Hn0; eauto). }
  assert (Hp0 : pinv st haves NoX s0 None).
  { constructor; cbn.
    - intros y [[]|Hq]. exfalso. eapply Hn0; eauto.
    - intros y sg [[]|Hq]. exfalso. eapply Hn0; eauto.
    - intros x0 t [].
    - congruence. }
  destruct (loop_parents dbg st W haves Hhv _ _ _ None Es Hinv0 Hp0) as (d' & Hp & Hinv & Hcovd).
  assert (Ec' : push_bounded_all (f_collected s) (snd (drain_all (f_pending s))) = ROk c) by (rewrite Ed; exact Ec).
  apply (proj1 (sort_locs_in _ _)) in Hx.
  destruct (final_parents dbg st W haves s d' c Hinv Hp Hcovd Ec' x Hx) as (Hv & Hb & Hk).
  split; auto. split.
  - intros sg Hf. destruct (Hb sg Hf) as [?|Hc]; auto. right. now apply (cov_covered st cmds).
  - intros sg Hf Hfirst p Hpp. destruct (Hk sg Hf Hfirst p Hpp) as [Hc|(y & Hy & Hs & Hm)].
    + left. now apply (cov_covered st cmds).
    + right. exists y. split; [now apply sort_locs_in|]. split; auto. split; auto.
      pose proof Hf as Hf'. apply find_seg_some in Hf' as [Hin _]. destruct (wf_prior _ W sg p Hin Hpp). lia.
Qed.
