(** C12 — fact storage behaves as a key-value map: final statements, the tie to the
    generated constants, and non-vacuity examples. *)
From Coq Require Import String.
From Aranya Require Import base.Tactics base.ListLex base.SortedAssoc model.Facts model.FactsWorld
     proofs.FactsMaps proofs.FactsIndex proofs.FactsWrite proofs.FactsPersp proofs.FactsWorldProofs
     gen.GenFacts.

(** The generated limit satisfies the only thing the proof needs of it, and the two
    guards of [write_facts_with_prior] are the ones [finish_write] transcribes. *)
Lemma max_fact_index_depth_ge2 : (2 <= max_fact_index_depth)%N.
Proof. vm_compute. discriminate. Qed.

Lemma depth_guards_pinned :
  depth_guards = ["p.depth > MAX_FACT_INDEX_DEPTH - 1"; "depth > MAX_FACT_INDEX_DEPTH"]%string.
Proof. reflexivity. Qed.

(** For every depth limit >= 2 and every sequence of storage operations used within
    the API's side conditions, every live perspective, fact perspective, segment fact
    index and written fact index answers exact and prefix queries like the flat map of
    the specification world; every stored index has depth within the limit. *)
Definition facts_refine_flat_stmt : Prop :=
  forall (maxd : N), (2 <= maxd)%N ->
  forall ops : list op, ops_ok sworld0 ops ->
  world_refines maxd (mrun maxd ops) (srun ops).

Lemma facts_refine_flat_proof : facts_refine_flat_stmt.
Proof. intros maxd H ops Hok. apply facts_refine_flat_gen; auto. Qed.

(** The instance for the limit the code is compiled with. *)
Definition facts_refine_flat_here_stmt : Prop :=
  forall ops : list op, ops_ok sworld0 ops ->
  world_refines max_fact_index_depth (mrun max_fact_index_depth ops) (srun ops).

Lemma facts_refine_flat_here_proof : facts_refine_flat_here_stmt.
Proof. intros ops Hok. apply facts_refine_flat_proof; auto. apply max_fact_index_depth_ge2. Qed.

(** The prefix scan relies on this: in key order the keys extending a prefix are
    contiguous and start at the prefix. *)
Definition prefix_range_stmt : Prop :=
  forall (p : keys) (m : fmap), sorted kcmp m ->
  find_prefixes m p = filter (fun e => is_prefix bcmp p (fst e)) m.

Lemma prefix_range_proof : prefix_range_stmt.
Proof. intros p m S. apply find_prefixes_filter; auto. Qed.

(** ** Non-vacuity *)

Definition nx : name := [120]%N.
Definition ka : keys := [[97]%N].
Definition kab : keys := [[97]; [98]]%N.
Definition ke : keys := [[]].

(** init segment with two facts; a second segment deleting one and adding one; a
    perspective reopened in the middle of the second segment. *)
Definition ex_ops : list op :=
  [ONew; OInsert 0 nx ka [1]%N; OInsert 0 nx kab [2]%N; OAddCmd 0 1; OCreate 0;
   OOpen 0 0; ODelete 1 nx ka; OAddCmd 1 2; OInsert 1 nx ke [3]%N; OAddCmd 1 3; OWrite 1;
   OOpen 1 0; OFactAt 1 1; OFailedRule 2 [(nx, ka, Some [9]%N)]].

Example ex_ops_ok : ops_ok sworld0 ex_ops.
Proof. cbn. repeat split; auto. Qed.

Example ex_ops_answers :
  let w := mrun max_fact_index_depth ex_ops in
  match get_h (w_persps w) 2, get_h (w_fps w) 0 with
  | Some P, Some fp =>
    p_query (w_store w) P nx ka = Ok None /\
    p_query (w_store w) P nx kab = Ok (Some [2]%N) /\
    p_query (w_store w) P nx ke = Ok None /\
    fp_query (w_store w) fp nx ke = Ok (Some [3]%N) /\
    fp_query_prefix (w_store w) fp nx [] = Ok [(ke, [3]%N); (kab, [2]%N)] /\
    fp_query_prefix (w_store w) fp nx ka = Ok [(kab, [2]%N)]
  | _, _ => False
  end.
Proof. vm_compute. repeat split; reflexivity. Qed.

(** A chain of forty single-command segments: the depth reaches the limit, is compacted
    (depth 1 then 2), and reaches the limit again. *)
Fixpoint deep_ops (n : nat) (s : nat) : list op :=
  match n with
  | O => []
  | S n' => [OOpen s 0; OInsert (S s) nx [[N.of_nat s]] [N.of_nat s]; OAddCmd (S s) (N.of_nat (S (S s))); OWrite (S s)]
              ++ deep_ops n' (S s)
  end.
Definition deep : list op := [ONew; OInsert 0 nx ka [1]%N; OAddCmd 0 1; OCreate 0] ++ deep_ops 40 0.

Definition depths (w : world) : list N :=
  flat_map (fun it => match it with IFacts f => [fi_depth f] | ISeg _ => [] end) (w_store w).

Example deep_crosses_limit_twice :
  depths (mrun max_fact_index_depth deep) =
  [1; 2; 3; 4; 5; 6; 7; 8; 9; 10; 11; 12; 13; 14; 15; 16; 1; 2; 3; 4; 5; 6; 7; 8; 9; 10; 11; 12; 13; 14;
   15; 16; 1; 2; 3; 4; 5; 6; 7; 8; 9; 10; 11]%N.
Proof. vm_compute. reflexivity. Qed.
