(** An executable check of [wf_store], sound: used to establish the
    hypotheses of the theorems on concrete stores (non-vacuity examples, the
    refutation witness of C16) by [vm_compute]. *)
From Aranya Require Import base.Tactics gen.GenQueue gen.GenSync model.Dag model.TravQueue model.Wire model.SyncStore model.SyncResp
  proofs.TravQueueVec proofs.TravQueueMoves proofs.TravQueueSpec proofs.TravQueueProofs
  proofs.SyncStoreProofs proofs.SyncQueueFacts proofs.SyncRespProofs proofs.SyncCoverProofs.
Local Open Scope N_scope.

Fixpoint nodupb (l : list N) : bool :=
  match l with [] => true | x :: r => negb (existsb (N.eqb x) r) && nodupb r end.

Lemma nodupb_sound l : nodupb l = true -> NoDup l.
Proof.
  induction l as [|x r IH]; cbn; [constructor|]. rewrite andb_true_iff, negb_true_iff. intros [H1 H2].
  constructor; auto. intro Hin. assert (existsb (N.eqb x) r = true) by (apply existsb_exists; exists x; split; auto; apply N.eqb_refl).
  congruence.
Qed.

Lemma find_seg_nodup segs s : NoDup (map g_idx segs) -> In s segs -> find_seg segs (g_idx s) = Some s.
Proof.
  induction segs as [|x r IH]; cbn; [intros _ []|]. intros Hn [->|Hin].
  - now rewrite N.eqb_refl.
  - apply NoDup_cons_iff in Hn as [Hni Hn]. destruct (N.eqb_spec (g_idx x) (g_idx s)); auto.
    exfalso. apply Hni. rewrite e. now apply in_map.
Qed.

(** locations reached walking from the heads towards init: one frontier step *)
Definition priors_of (st : store) (l : loc) : list loc :=
  match find_seg (st_segs st) (lseg l) with Some s => prior_list (g_prior s) | None => [] end.

Fixpoint reach (fuel : nat) (st : store) (frontier acc : list loc) : list loc :=
  match fuel with
  | O => acc
  | S f => match frontier with
           | [] => acc
           | _ => let nxt := flat_map (priors_of st) frontier in reach f st nxt (acc ++ nxt)
           end
  end.

Definition tips_okb (st : store) : bool :=
  let hs := map snd (st_heads st) in
  let r := reach (S (length (st_segs st))) st hs hs in
  forallb (fun s => existsb (fun l => (lseg l =? g_idx s) && (seg_longest s <=? lmc l)) r) (st_segs st).

Definition wf_storeb (st : store) : bool :=
  forallb (fun s => negb (match g_cmds s with [] => true | _ => false end)) (st_segs st)
  && nodupb (map g_idx (st_segs st))
  && forallb (fun s => forallb (fun p => valid_locb st p && (lmc p <? g_first s)) (prior_list (g_prior s) ++ g_skip s)) (st_segs st)
  && forallb (fun h => valid_locb st (snd h)) (st_heads st)
  && forallb (fun s => seg_longest s <? u64_max - SEGMENT_BUFFER_MAX) (st_segs st)
  && (N.of_nat (length (store_ids st)) * SEGMENT_BUFFER_MAX <? u64_max)
  && tips_okb st.

Lemma valid_locb_sound st l : valid_locb st l = true -> valid_loc st l.
Proof.
  unfold valid_locb, valid_loc. destruct (find_seg _ _) as [s|]; [|discriminate].
  rewrite andb_true_iff, !N.leb_le. intro H. exists s. split; auto.
Qed.

Section Sound.
Variable st : store.
Hypothesis Hne : forall s, In s (st_segs st) -> g_cmds s <> [].
Hypothesis Hidx : forall s, In s (st_segs st) -> find_seg (st_segs st) (g_idx s) = Some s.
Hypothesis Hpr : forall s p, In s (st_segs st) -> In p (prior_list (g_prior s)) -> valid_loc st p /\ lmc p < g_first s.
Hypothesis Hhd : forall i l, In (i, l) (st_heads st) -> valid_loc st l.

Definition to_head (l : loc) : Prop := valid_loc st l /\ exists i h, In (i, h) (st_heads st) /\ loc_anc st l h.

Lemma in_range_first s : In s (st_segs st) -> in_range s (g_first s).
Proof.
  intro Hin. pose proof (Hne s Hin). unfold in_range, seg_longest, seg_len. destruct (g_cmds s); [congruence|]. cbn [length]. lia.
Qed.

Lemma priors_to_head l p : to_head l -> In p (priors_of st l) -> to_head p.
Proof.
  intros [Hv (i & h & Hh & Ha)] Hp. unfold priors_of in Hp. destruct Hv as (s & Hf & Hr). rewrite Hf in Hp.
  pose proof Hf as Hf'. apply find_seg_some in Hf' as [Hin Hi]. destruct (Hpr s p Hin Hp) as [Hvp Hlt].
  split; auto. exists i, h. split; auto. eapply loc_anc_trans; [|exact Ha].
  (* p -> first location of s -> l *)
  eapply loc_anc_trans with (b := L (g_first s) (g_idx s)).
  - eapply la_step; [apply la_refl|]. eapply step_prior with (s := s); cbn; auto.
  - assert (Hvf : valid_loc st (L (g_first s) (g_idx s))).
    { exists s. cbn. split; auto. now apply in_range_first. }
    assert (Hvl : valid_loc st l) by (exists s; auto).
    (* inside the segment *)
    assert (forall d m, in_range s m -> in_range s (m + N.of_nat d) -> loc_anc st (L m (g_idx s)) (L (m + N.of_nat d) (g_idx s))) as Hseg.
    { induction d as [|d IH]; intros m H1 H2.
      - replace (m + N.of_nat 0) with m by lia. constructor.
      - assert (in_range s (m + N.of_nat d)) by (unfold in_range in *; lia).
        eapply la_step; [apply IH; auto|].
        apply step_in; cbn; auto; try lia; exists s; cbn; auto. }
    rewrite <- (loc_eta l), <- Hi. replace (lmc l) with (g_first s + N.of_nat (N.to_nat (lmc l - g_first s))) by (unfold in_range in Hr; lia).
    apply Hseg; [now apply in_range_first|]. replace (g_first s + N.of_nat (N.to_nat (lmc l - g_first s))) with (lmc l) by (unfold in_range in Hr; lia). exact Hr.
Qed.

Lemma reach_to_head fuel : forall frontier acc,
  Forall to_head frontier -> Forall to_head acc -> Forall to_head (reach fuel st frontier acc).
Proof.
  induction fuel as [|f IH]; intros frontier acc Hf Ha; cbn [reach]; auto.
  destruct frontier as [|x r]; auto.
  assert (Hn : Forall to_head (flat_map (priors_of st) (x :: r))).
  { apply Forall_forall. intros p Hp. apply in_flat_map in Hp as (l & Hl & Hp).
    eapply priors_to_head; eauto. eapply Forall_forall in Hf; eauto. }
  apply IH; auto. apply Forall_app. auto.
Qed.
End Sound.

Theorem wf_storeb_sound st : wf_storeb st = true -> wf_store st.
Proof.
  unfold wf_storeb. rewrite !andb_true_iff. intros ((((((H1 & H2) & H3) & H4) & H5) & H6) & H7).
  rewrite forallb_forall in H1, H3, H4, H5.
  assert (Hne : forall s, In s (st_segs st) -> g_cmds s <> []).
  { intros s Hin E. specialize (H1 s Hin). rewrite E in H1. discriminate. }
  assert (Hidx : forall s, In s (st_segs st) -> find_seg (st_segs st) (g_idx s) = Some s).
  { intros s Hin. apply find_seg_nodup; auto. now apply nodupb_sound. }
  assert (Hps : forall s p, In s (st_segs st) -> In p (prior_list (g_prior s) ++ g_skip s) -> valid_loc st p /\ lmc p < g_first s).
  { intros s p Hin Hp. specialize (H3 s Hin). rewrite forallb_forall in H3. specialize (H3 p Hp).
    apply andb_true_iff in H3 as [Ha Hb]. split; [now apply valid_locb_sound|now apply N.ltb_lt]. }
  assert (Hhd : forall i l, In (i, l) (st_heads st) -> valid_loc st l).
  { intros i l Hin. apply valid_locb_sound. apply (H4 (i, l) Hin). }
  constructor; auto.
  - intros s p Hin Hp. apply Hps; auto. apply in_or_app. now left.
  - intros s p Hin Hp. apply Hps; auto. apply in_or_app. now right.
  - intros s Hin. apply N.ltb_lt. now apply H5.
  - now apply N.ltb_lt.
  - intros s Hin. unfold tips_okb in H7. rewrite forallb_forall in H7. specialize (H7 s Hin).
    apply existsb_exists in H7 as (l & Hl & Hc). apply andb_true_iff in Hc as [Hs Hm].
    apply N.eqb_eq in Hs. apply N.leb_le in Hm.
    assert (Hpr : forall s p, In s (st_segs st) -> In p (prior_list (g_prior s)) -> valid_loc st p /\ lmc p < g_first s).
    { intros s0 p Hin0 Hp. apply Hps; auto. apply in_or_app. now left. }
    assert (Hall : Forall (to_head st) (reach (S (length (st_segs st))) st (map snd (st_heads st)) (map snd (st_heads st)))).
    { assert (Hh0 : Forall (to_head st) (map snd (st_heads st))).
      { apply Forall_forall. intros x Hx. apply in_map_iff in Hx as ([i h] & <- & Hin0). cbn.
        split; [eapply Hhd; eauto|]. exists i, h. split; auto. apply la_refl. }
      apply reach_to_head; auto. }
    eapply Forall_forall in Hall; eauto. destruct Hall as [Hvl (i & h & Hh & Ha)].
    exists i, h. split; auto. eapply loc_anc_trans; [|exact Ha].
    (* the tip lies at or below l in the same segment; l is valid, so it is the tip *)
    destruct Hvl as (s' & Hf' & Hr'). rewrite Hs, (Hidx s Hin) in Hf'. inv Hf'.
    assert (lmc l = seg_longest s') by (unfold in_range in Hr'; lia).
    rewrite <- Hs, <- H. rewrite loc_eta. apply la_refl.
Qed.
