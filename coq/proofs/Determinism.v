(** C28: every use of a hash collection in the compiler crate is order-insensitive.

    [gen/GenDeterminism.v] lists, from the current source, every use of a binding that the
    compiler crate declares with type HashMap / HashSet, of every value derived from one
    (`let` / `for` taint inside a function), and — because the match is by name — of every
    field that shares a name with such a binding.  Each row gets a reason:

    - [Membership]: the method is one of get / get_key_value / contains(_key) / insert / remove /
      entry / replace / len / is_empty (checked by computation); by
      [hash_membership_order_insensitive] the results of any sequence of such operations are
      the same for every iteration order of the collection;
    - [Ordered]: the receiver is declared as an ordered container (Vec / BTreeMap / BTreeSet / IndexMap);
    - [Element]: the receiver is not a collection (a looked-up value, an error, a closure ...);
    - [PassedTo]: handed to a callee whose own uses are listed.
    The last three are audited statements about declared types (no proof content).
    A new use (e.g. `type_defs.iter()`) has no row: [det_ledger_complete] fails; an
    order-observing method can never be classified [Membership]. *)
From Coq Require Import String List Bool NArith.
From Aranya Require Import model.ModuleMap proofs.ModuleMapProofs gen.GenDeterminism.
Import ListNotations.
Open Scope string_scope.

Inductive dreason :=
| Membership
| Ordered (decl : string)
| Element (why : string)
| PassedTo (callee : string).

Definition membership_methods : list string :=
  ["get"; "get_key_value"; "contains"; "contains_key"; "insert"; "remove"; "entry"; "replace"; "len"; "is_empty"].

(** methods and syntactic forms that observe the iteration order of their receiver *)
Definition order_observing : list string :=
  ["iter"; "iter_mut"; "into_iter"; "keys"; "values"; "values_mut"; "into_keys"; "into_values"; "drain"; "retain";
   "extend"; "for-in"; "first"; "last"; "pop_first"; "pop_last"].

Definition smem (s : string) (l : list string) : bool := existsb (String.eqb s) l.

Definition det_table : list (string * string * string * string * N * dreason) := [
  ("compile.rs", "compile_global_let", "self . m . interface . globals", "entry", 0%N, Ordered "BTreeMap<Ident, ConstValue> (PolicyInterface.globals / ModuleV0.globals)");
  ("compile.rs", "compile_command_recall", "prev", "moved", 0%N, Element "a value obtained from a lookup / an error value / an iterator adaptor over an ordered Vec, not a hash collection");
  ("compile.rs", "compile_command_recall", "named_blocks", "get", 0%N, Membership);
  ("compile.rs", "compile_command_recall", "prev", "clone", 0%N, Element "a value obtained from a lookup / an error value / an iterator adaptor over an ordered Vec, not a hash collection");
  ("compile.rs", "compile_command_recall", "named_blocks", "insert", 0%N, Membership);
  ("compile.rs", "sorted_type_definitions", "type_defs", "entry", 0%N, Membership);
  ("compile.rs", "sorted_type_definitions", "insert_type_def", "other:(", 0%N, Element "closure that captures type_defs mutably; its body only uses entry() (listed)");
  ("compile.rs", "sorted_type_definitions", "insert_type_def", "other:(", 1%N, Element "closure that captures type_defs mutably; its body only uses entry() (listed)");
  ("compile.rs", "sorted_type_definitions", "insert_type_def", "other:(", 2%N, Element "closure that captures type_defs mutably; its body only uses entry() (listed)");
  ("compile.rs", "sorted_type_definitions", "insert_type_def", "other:(", 3%N, Element "closure that captures type_defs mutably; its body only uses entry() (listed)");
  ("compile.rs", "sorted_type_definitions", "insert_type_def", "other:(", 4%N, Element "closure that captures type_defs mutably; its body only uses entry() (listed)");
  ("compile.rs", "sorted_type_definitions", "type_defs", "borrow", 0%N, PassedTo "CycleError::into_compile_error(ctx: &HashMap<..>), which only calls get_key_value (listed)");
  ("compile.rs", "sorted_type_definitions", "compile_err", "moved", 0%N, Element "a value obtained from a lookup / an error value / an iterator adaptor over an ordered Vec, not a hash collection");
  ("compile.rs", "sorted_type_definitions", "sorted_idents", "into_iter", 0%N, Ordered "Vec returned by TopoSort::sort: Tarjan SCC order over a petgraph DiGraphMap (IndexMap, insertion order)");
  ("compile.rs", "sorted_type_definitions", "type_defs", "remove", 0%N, Membership);
  ("compile.rs", "sorted_type_definitions", "sorted_defs", "moved", 0%N, Element "a value obtained from a lookup / an error value / an iterator adaptor over an ordered Vec, not a hash collection");
  ("compile.rs", "expression_value", "self . m . interface . globals", "get", 0%N, Ordered "BTreeMap<Ident, ConstValue> (PolicyInterface.globals / ModuleV0.globals)");
  ("compile.rs", "evaluate_sources", "base_fields", "contains", 0%N, Membership);
  ("compile.rs", "evaluate_sources", "other_type", "moved", 0%N, Element "a value obtained from a lookup / an error value / an iterator adaptor over an ordered Vec, not a hash collection");
  ("compile.rs", "evaluate_sources", "other_source", "moved", 0%N, Element "a value obtained from a lookup / an error value / an iterator adaptor over an ordered Vec, not a hash collection");
  ("compile.rs", "evaluate_sources", "seen", "insert", 0%N, Membership);
  ("compile.rs", "evaluate_sources", "other_type", "field:inner", 0%N, Element "a value obtained from a lookup / an error value / an iterator adaptor over an ordered Vec, not a hash collection");
  ("compile.rs", "evaluate_sources", "other_source", "field:span", 0%N, Element "a value obtained from a lookup / an error value / an iterator adaptor over an ordered Vec, not a hash collection");
  ("compile/target.rs", "into_module", "self . interface . globals", "into_iter", 0%N, Ordered "BTreeMap<Ident, ConstValue> (PolicyInterface.globals / ModuleV0.globals)");
  ("compile/topo.rs", "into_compile_error", "ctx", "get_key_value", 0%N, Membership);
  ("compile/topo.rs", "into_compile_error", "idents", "moved", 0%N, Element "a value obtained from a lookup / an error value / an iterator adaptor over an ordered Vec, not a hash collection");
  ("compile/types.rs", "add_global", "self . globals", "entry", 0%N, Membership);
  ("compile/types.rs", "add", "existing_global", "moved", 0%N, Element "a value obtained from a lookup / an error value / an iterator adaptor over an ordered Vec, not a hash collection");
  ("compile/types.rs", "add", "_", "moved", 0%N, Element "a value obtained from a lookup / an error value / an iterator adaptor over an ordered Vec, not a hash collection");
  ("compile/types.rs", "add", "self . globals", "get_key_value", 0%N, Membership);
  ("compile/types.rs", "add", "existing_global", "clone", 0%N, Element "a value obtained from a lookup / an error value / an iterator adaptor over an ordered Vec, not a hash collection");
  ("compile/types.rs", "add", "self . locals", "last_mut", 0%N, Ordered "Vec<Vec<HashMap<..>>>: only the Vecs are iterated / pushed / popped, in their own order");
  ("compile/types.rs", "add", "locals", "iter", 0%N, Ordered "Vec<Vec<HashMap<..>>>: only the Vecs are iterated / pushed / popped, in their own order");
  ("compile/types.rs", "add", "existing_var", "moved", 0%N, Element "a value obtained from a lookup / an error value / an iterator adaptor over an ordered Vec, not a hash collection");
  ("compile/types.rs", "add", "_", "moved", 1%N, Element "a value obtained from a lookup / an error value / an iterator adaptor over an ordered Vec, not a hash collection");
  ("compile/types.rs", "add", "prev", "get_key_value", 0%N, Membership);
  ("compile/types.rs", "add", "existing_var", "clone", 0%N, Element "a value obtained from a lookup / an error value / an iterator adaptor over an ordered Vec, not a hash collection");
  ("compile/types.rs", "add", "locals", "last_mut", 0%N, Ordered "Vec<Vec<HashMap<..>>>: only the Vecs are iterated / pushed / popped, in their own order");
  ("compile/types.rs", "add", "block", "entry", 0%N, Membership);
  ("compile/types.rs", "add", "_", "moved", 2%N, Element "a value obtained from a lookup / an error value / an iterator adaptor over an ordered Vec, not a hash collection");
  ("compile/types.rs", "get", "locals", "moved", 0%N, Ordered "Vec<Vec<HashMap<..>>>: only the Vecs are iterated / pushed / popped, in their own order");
  ("compile/types.rs", "get", "self . locals", "last", 0%N, Ordered "Vec<Vec<HashMap<..>>>: only the Vecs are iterated / pushed / popped, in their own order");
  ("compile/types.rs", "get", "locals", "iter", 0%N, Ordered "Vec<Vec<HashMap<..>>>: only the Vecs are iterated / pushed / popped, in their own order");
  ("compile/types.rs", "get", "v", "moved", 0%N, Element "a value obtained from a lookup / an error value / an iterator adaptor over an ordered Vec, not a hash collection");
  ("compile/types.rs", "get", "scope", "get", 0%N, Membership);
  ("compile/types.rs", "get", "v", "clone", 0%N, Element "a value obtained from a lookup / an error value / an iterator adaptor over an ordered Vec, not a hash collection");
  ("compile/types.rs", "get", "v", "moved", 1%N, Element "a value obtained from a lookup / an error value / an iterator adaptor over an ordered Vec, not a hash collection");
  ("compile/types.rs", "get", "self . globals", "get", 0%N, Membership);
  ("compile/types.rs", "get", "v", "clone", 1%N, Element "a value obtained from a lookup / an error value / an iterator adaptor over an ordered Vec, not a hash collection");
  ("compile/types.rs", "enter_function", "self . locals", "push", 0%N, Ordered "Vec<Vec<HashMap<..>>>: only the Vecs are iterated / pushed / popped, in their own order");
  ("compile/types.rs", "exit_function", "self . locals", "pop", 0%N, Ordered "Vec<Vec<HashMap<..>>>: only the Vecs are iterated / pushed / popped, in their own order");
  ("compile/types.rs", "enter_block", "self . locals", "last_mut", 0%N, Ordered "Vec<Vec<HashMap<..>>>: only the Vecs are iterated / pushed / popped, in their own order");
  ("compile/types.rs", "exit_block", "self . locals", "last_mut", 0%N, Ordered "Vec<Vec<HashMap<..>>>: only the Vecs are iterated / pushed / popped, in their own order");
  ("tracer/analyzers/value_analyzer.rs", "new", "globals", "into_iter", 0%N, Ordered "BTreeSet<Identifier> field / IntoIterator parameter collected into it");
  ("tracer/analyzers/value_analyzer.rs", "contains", "self . globals", "contains", 0%N, Ordered "BTreeSet<Identifier> field / IntoIterator parameter collected into it");
  ("validate.rs", "validate", "m . globals", "keys", 0%N, Ordered "BTreeMap<Ident, ConstValue> (PolicyInterface.globals / ModuleV0.globals)");
  ("validate.rs", "validate", "tracer", "other:=", 0%N, Ordered "values derived from ModuleV0.globals (BTreeMap) keys; TraceAnalyzerBuilder is not a collection");
  ("validate.rs", "validate", "tracer", "add_analyzer", 0%N, Ordered "values derived from ModuleV0.globals (BTreeMap) keys; TraceAnalyzerBuilder is not a collection");
  ("validate.rs", "validate", "tracer", "other:=", 1%N, Ordered "values derived from ModuleV0.globals (BTreeMap) keys; TraceAnalyzerBuilder is not a collection");
  ("validate.rs", "validate", "tracer", "add_analyzer", 1%N, Ordered "values derived from ModuleV0.globals (BTreeMap) keys; TraceAnalyzerBuilder is not a collection");
  ("validate.rs", "validate", "tracer", "other:=", 2%N, Ordered "values derived from ModuleV0.globals (BTreeMap) keys; TraceAnalyzerBuilder is not a collection");
  ("validate.rs", "validate", "tracer", "add_analyzer", 2%N, Ordered "values derived from ModuleV0.globals (BTreeMap) keys; TraceAnalyzerBuilder is not a collection");
  ("validate.rs", "validate", "tracer", "add_analyzer", 3%N, Ordered "values derived from ModuleV0.globals (BTreeMap) keys; TraceAnalyzerBuilder is not a collection");
  ("validate.rs", "validate", "global_names", "clone", 0%N, Ordered "values derived from ModuleV0.globals (BTreeMap) keys; TraceAnalyzerBuilder is not a collection");
  ("validate.rs", "validate", "tracer", "build", 0%N, Ordered "values derived from ModuleV0.globals (BTreeMap) keys; TraceAnalyzerBuilder is not a collection");
  ("validate.rs", "validate", "tracer", "trace", 0%N, Ordered "values derived from ModuleV0.globals (BTreeMap) keys; TraceAnalyzerBuilder is not a collection")

].

Definition det_reason (u : huse) : option dreason :=
  match find (fun e => match e with (f, fn, rc, us, o, _) =>
                String.eqb f (h_file u) && String.eqb fn (h_fn u) && String.eqb rc (h_recv u)
                && String.eqb us (h_use u) && N.eqb o (h_ord u) end) det_table with
  | Some (_, _, _, _, _, r) => Some r
  | None => None
  end.

Definition det_check (u : huse) : bool :=
  match det_reason u with
  | Some Membership => smem (h_use u) membership_methods && negb (smem (h_use u) order_observing)
  | Some _ => true
  | None => false
  end.

Definition det_ledger_complete : bool :=
  forallb (fun u => match det_reason u with Some _ => true | None => false end) hash_uses.

(** the hash-typed bindings of the crate are exactly the ones the table was written for *)
Definition expected_hash_bindings : list string :=
  ["base_fields"; "ctx"; "globals"; "locals"; "named_blocks"; "seen"; "type_defs"].
Definition det_bindings_known : bool :=
  forallb (fun b => smem (fst b) expected_hash_bindings) hash_bindings.

(** every place a hash-collection type is named (file, function, type with multiplicity): a new
    mention anywhere in the crate (e.g. a `collect::<HashMap<_, _>>()` without a binding) is not expected *)
Definition expected_mentions : list (string * string * string * nat) := [
  ("compile.rs", "<top>", "HashMap", 1); ("compile.rs", "<top>", "HashSet", 1);
  ("compile.rs", "compile_command_recall", "HashSet", 2);
  ("compile.rs", "evaluate_sources", "HashMap", 1); ("compile.rs", "evaluate_sources", "HashSet", 1);
  ("compile.rs", "sorted_type_definitions", "HashMap", 2);
  ("compile/topo.rs", "<top>", "HashMap", 2);
  ("compile/types.rs", "<top>", "HashMap", 3);
  ("compile/types.rs", "enter_block", "HashMap", 1); ("compile/types.rs", "enter_function", "HashMap", 1);
  ("compile/types.rs", "new", "HashMap", 2)].
Definition mention_eqb (a b : string * string * string) : bool :=
  String.eqb (fst (fst a)) (fst (fst b)) && String.eqb (snd (fst a)) (snd (fst b)) && String.eqb (snd a) (snd b).
Definition det_mentions_known : bool :=
  forallb (fun e => Nat.eqb (length (filter (mention_eqb (fst e)) hash_type_mentions)) (snd e)) expected_mentions
  && Nat.eqb (length hash_type_mentions) (fold_right (fun e n => snd e + n) 0 expected_mentions).

Definition use_order_free (u : huse) : Prop :=
  exists r, det_reason u = Some r /\
    match r with
    | Membership => In (h_use u) membership_methods /\ ~ In (h_use u) order_observing
                    /\ hash_membership_order_insensitive_stmt
    | _ => True
    end.

Definition determinism_sites_discharged_stmt : Prop :=
  det_ledger_complete = true /\ det_bindings_known = true /\ det_mentions_known = true
  /\ Forall use_order_free hash_uses.

Lemma smem_in s l : smem s l = true <-> In s l.
Proof.
  unfold smem. rewrite existsb_exists. split.
  - intros (x & Hx & E). apply String.eqb_eq in E. subst; auto.
  - intros H. exists s. split; auto. apply String.eqb_refl.
Qed.

Lemma determinism_sites_discharged_proof : determinism_sites_discharged_stmt.
Proof.
  split; [vm_compute; reflexivity|split; [vm_compute; reflexivity|split; [vm_compute; reflexivity|]]].
  apply Forall_forall. intros u Hu.
  assert (H : forallb det_check hash_uses = true) by (vm_compute; reflexivity).
  rewrite forallb_forall in H. specialize (H u Hu). unfold det_check, use_order_free in *.
  destruct (det_reason u) as [r|]; [|discriminate]. exists r. split; auto.
  destruct r; auto.
  apply andb_true_iff in H as [H1 H2]. split; [apply smem_in; auto|split].
  - intros C. apply smem_in in C. rewrite C in H2. discriminate.
  - exact hash_membership_order_insensitive_proof.
Qed.

Definition det_class_count (c : string) : nat :=
  length (filter (fun u => match det_reason u with
                           | Some Membership => String.eqb c "membership"
                           | Some (Ordered _) => String.eqb c "ordered"
                           | Some (Element _) => String.eqb c "element"
                           | Some (PassedTo _) => String.eqb c "passed"
                           | None => false end) hash_uses).
