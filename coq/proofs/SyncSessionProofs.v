(** The responder's session: [get_commands] / [get_next] / [poll] deliver
    exactly the commands of the planned entries, in order, at most
    COMMAND_RESPONSE_MAX per response, with consecutive indexes, ending with
    [SyncEnd]; a poll that fails for lack of buffer space changes nothing. *)
From Aranya Require Import base.Tactics gen.GenQueue gen.GenSync model.Dag model.TravQueue model.Wire model.SyncStore model.SyncResp
  proofs.TravQueueVec proofs.TravQueueMoves proofs.TravQueueSpec proofs.TravQueueProofs
  proofs.SyncStoreProofs proofs.SyncQueueFacts proofs.SyncRespProofs.
From Coq Require Import Sorted.
Local Open Scope N_scope.

(** * The plan: what the entries of [to_send] stand for *)
Definition entry_cmds (st : store) (l : loc) : list scmd :=
  match find_seg (st_segs st) (lseg l) with Some s => get_from s l | None => [] end.
Definition plan (st : store) (ts : list loc) : list scmd := flat_map (entry_cmds st) ts.

Definition bytes (l : list scmd) : N := fold_right (fun c a => cmd_bytes c + a) 0 l.

Lemma bytes_app a b : bytes (a ++ b) = bytes a + bytes b.
Proof. unfold bytes. induction a as [|x a IH]; cbn [app fold_right]; [lia|]. rewrite IH. lia. Qed.

Lemma bytes_cons c l : bytes (c :: l) = cmd_bytes c + bytes l.
Proof. reflexivity. Qed.

Lemma bytes_firstn_le n l : bytes (firstn n l) <= bytes l.
Proof.
  revert n; induction l as [|x l IH]; intros [|n]; cbn [firstn]; rewrite ?bytes_cons; try lia.
  - unfold bytes; cbn; lia.
  - specialize (IH n). lia.
Qed.

(** every stored command is small enough for COMMAND_RESPONSE_MAX of them to fit one message *)
Definition small_cmds (st : store) : Prop :=
  forall s c, In s (st_segs st) -> In c (g_cmds s) -> cmd_bytes c * COMMAND_RESPONSE_MAX <= MAX_SYNC_MESSAGE_SIZE.

Lemma get_from_sub s l c : In c (get_from s l) -> In c (g_cmds s).
Proof.
  unfold get_from. destruct (_ && _ && _); [|intros []]. revert c. generalize (N.to_nat (lmc l - g_first s)).
  intros n c Hc. rewrite <- (firstn_skipn n (g_cmds s)). apply in_or_app. now right.
Qed.

Lemma entry_cmds_sub st l c : In c (entry_cmds st l) -> exists s, In s (st_segs st) /\ In c (g_cmds s).
Proof.
  unfold entry_cmds. destruct (find_seg _ _) eqn:E; [|intros []]. intro H. apply find_seg_some in E as [Hin _].
  exists s. split; auto. eapply get_from_sub; eauto.
Qed.

Lemma plan_sub st ts c : In c (plan st ts) -> exists s, In s (st_segs st) /\ In c (g_cmds s).
Proof. unfold plan. intro H. apply in_flat_map in H as (l & _ & H). eapply entry_cmds_sub; eauto. Qed.

Lemma bytes_bound st l : small_cmds st -> (forall c, In c l -> exists s, In s (st_segs st) /\ In c (g_cmds s)) ->
  bytes l * COMMAND_RESPONSE_MAX <= MAX_SYNC_MESSAGE_SIZE * N.of_nat (length l).
Proof.
  intros Hs. induction l as [|c l IH]; intro H; cbn [bytes fold_right length]; [lia|].
  destruct (H c (or_introl eq_refl)) as (s & Hin & Hc). pose proof (Hs s c Hin Hc).
  assert (bytes l * COMMAND_RESPONSE_MAX <= MAX_SYNC_MESSAGE_SIZE * N.of_nat (length l)) by (apply IH; intros; apply H; now right).
  unfold bytes in *. lia.
Qed.

Lemma bytes_fit st l : small_cmds st -> (forall c, In c l -> exists s, In s (st_segs st) /\ In c (g_cmds s)) ->
  (length l <= cap_resp)%nat -> bytes l <= MAX_SYNC_MESSAGE_SIZE.
Proof.
  intros Hs H Hl. pose proof (bytes_bound st l Hs H) as Hb. unfold cap_resp in Hl.
  rewrite COMMAND_RESPONSE_MAX_pin in *. nia.
Qed.

(** a valid location stands for at least one command *)
Lemma entry_cmds_valid st l : wf_store st -> valid_loc st l -> entry_cmds st l <> [].
Proof.
  intros W (s & Hf & Hr). unfold entry_cmds. rewrite Hf. pose proof Hf as Hf'. apply find_seg_some in Hf' as [Hin Hidx].
  pose proof (seg_len_pos _ _ W Hin).
  unfold get_from. rewrite Hidx, N.eqb_refl. destruct (N.leb_spec (g_first s) (lmc l)); [|lia].
  destruct (N.ltb_spec (lmc l - g_first s) (seg_len s)); [|unfold seg_longest in *; lia]. cbn [andb].
  unfold seg_longest, seg_len in *.
  intro E. apply (f_equal (@length _)) in E. rewrite skipn_length in E. cbn in E. lia.
Qed.

Lemma entry_cmds_nonempty_valid st l : entry_cmds st l <> [] -> valid_loc st l.
Proof.
  unfold entry_cmds. destruct (find_seg (st_segs st) (lseg l)) as [s|] eqn:Ef; [|congruence].
  intro Hne. exists s. split; auto. unfold get_from in Hne.
  destruct (g_idx s =? lseg l); cbn [andb] in Hne; [|congruence].
  destruct (N.leb_spec (g_first s) (lmc l)); cbn [andb] in Hne; [|congruence].
  destruct (N.ltb_spec (lmc l - g_first s) (seg_len s)); [|congruence].
  unfold seg_longest. lia.
Qed.

Lemma skipn_add {A} (l : list A) : forall a b, skipn a (skipn b l) = skipn (b + a) l.
Proof.
  induction l as [|x l IH]; intros a b.
  - now rewrite !skipn_nil.
  - destruct b; cbn [skipn Nat.add]; auto.
Qed.

(** resuming inside a segment *)
Lemma entry_cmds_resume st l k : (k < length (entry_cmds st l))%nat ->
  entry_cmds st (L (lmc l + N.of_nat k) (lseg l)) = skipn k (entry_cmds st l).
Proof.
  unfold entry_cmds. cbn [lseg]. destruct (find_seg _ _) as [s|]; [|cbn; intro; lia].
  unfold get_from. cbn [lseg lmc]. destruct (g_idx s =? lseg l); cbn [andb]; [|cbn; intro; lia].
  destruct (N.leb_spec (g_first s) (lmc l)); cbn [andb]; [|cbn; intro; lia].
  destruct (N.ltb_spec (lmc l - g_first s) (seg_len s)); [|cbn; intro; lia].
  rewrite skipn_length. intro Hk. destruct (N.leb_spec (g_first s) (lmc l + N.of_nat k)); [|lia].
  destruct (N.ltb_spec (lmc l + N.of_nat k - g_first s) (seg_len s)); [|unfold seg_len in *; lia]. cbn [andb].
  rewrite skipn_add. f_equal. lia.
Qed.

(** * take_cmds *)
Lemma take_cmds_spec found : forall room dlen acc sent,
  dlen + bytes (firstn room found) <= MAX_SYNC_MESSAGE_SIZE ->
  take_cmds found room dlen acc sent =
    Some (acc ++ map meta_of (firstn room found), dlen + bytes (firstn room found), (sent + min room (length found))%nat).
Proof.
  induction found as [|c r IH]; intros room dlen acc sent Hb.
  - rewrite firstn_nil. cbn [map length]. rewrite app_nil_r, Nat.min_0_r, Nat.add_0_r.
    replace (dlen + bytes []) with dlen by (unfold bytes; cbn; lia). destruct room; reflexivity.
  - destruct room as [|room].
    + cbn [take_cmds firstn map min]. rewrite app_nil_r, Nat.add_0_r.
      replace (dlen + bytes []) with dlen by (unfold bytes; cbn; lia). reflexivity.
    + cbn [take_cmds firstn] in *. rewrite bytes_cons in *.
      destruct (N.ltb_spec MAX_SYNC_MESSAGE_SIZE (dlen + cmd_bytes c)); [lia|].
      rewrite IH by lia. cbn [map length min]. rewrite <- app_assoc. cbn [app].
      f_equal. f_equal; [f_equal; lia|]. lia.
Qed.

(** * get_commands *)
Definition apply_resume (l : list loc) (r : option loc) : list loc :=
  match r with Some x => x :: tl l | None => l end.

Lemma plan_cons st l ts : plan st (l :: ts) = entry_cmds st l ++ plan st ts.
Proof. reflexivity. Qed.

Lemma skipn_nth {A} (l : list A) i x : nth_error l i = Some x -> skipn i l = x :: skipn (S i) l.
Proof.
  revert i; induction l as [|y l IH]; intros [|i]; cbn; try discriminate.
  - intro H; inv H; reflexivity.
  - intro H. now apply IH.
Qed.

Lemma gc_loop_spec dbg st ts : (forall l, In l ts -> exists s, get_segment st l = ROk s) ->
  forall n i acc dlen,
  n = (length ts - i)%nat -> (i <= length ts)%nat -> (length acc <= cap_resp)%nat ->
  dlen + bytes (firstn (cap_resp - length acc) (plan st (skipn i ts))) <= MAX_SYNC_MESSAGE_SIZE ->
  exists index resume,
    gc_loop dbg st ts i n acc dlen i =
      inl (ROk (acc ++ map meta_of (firstn (cap_resp - length acc) (plan st (skipn i ts))),
                dlen + bytes (firstn (cap_resp - length acc) (plan st (skipn i ts))), index, resume)) /\
    (i <= index <= length ts)%nat /\ (resume <> None -> (index < length ts)%nat) /\
    (forall l, resume = Some l -> entry_cmds st l <> []) /\
    plan st (apply_resume (skipn index ts) resume) = skipn (cap_resp - length acc) (plan st (skipn i ts)).
Proof.
  intro Hseg. induction n as [|n IH]; intros i acc dlen Hn Hi Hacc Hb.
  - assert (i = length ts) by lia. subst i. rewrite skipn_all in *. cbn [gc_loop plan flat_map firstn].
    exists (length ts), None. rewrite firstn_nil, skipn_nil, app_nil_r. cbn [map bytes fold_right].
    rewrite N.add_0_r, skipn_all. repeat split; auto; try lia; congruence.
  - cbn [gc_loop]. destruct (Nat.leb_spec cap_resp (length acc)).
    + replace (cap_resp - length acc)%nat with 0%nat by lia. cbn [firstn map bytes fold_right skipn].
      exists i, None. rewrite app_nil_r, N.add_0_r. repeat split; auto; try lia; congruence.
    + destruct (nth_error_lt_Some ts i) as [location Hloc]; [lia|]. rewrite Hloc.
      destruct (Hseg location (nth_error_In _ _ Hloc)) as (sg & Hsg). rewrite Hsg.
      rewrite (skipn_nth _ _ _ Hloc) in *. rewrite plan_cons in *.
      assert (Hfound : entry_cmds st location = get_from sg location).
      { unfold entry_cmds. now rewrite (get_segment_ok _ _ _ Hsg). }
      rewrite Hfound in *. set (found := get_from sg location) in *.
      set (room := (cap_resp - length acc)%nat) in *.
      assert (Hb1 : dlen + bytes (firstn room found) <= MAX_SYNC_MESSAGE_SIZE).
      { rewrite firstn_app, bytes_app in Hb. lia. }
      rewrite (take_cmds_spec found room dlen acc 0 Hb1). cbn [Nat.add].
      destruct (Nat.ltb_spec (min room (length found)) (length found)) as [Hlt|Hge].
      * (* the response fills up inside this entry *)
        assert (Hroom : (room < length found)%nat) by lia.
        exists i, (Some (L (lmc location + N.of_nat (min room (length found))) (lseg location))).
        rewrite firstn_app. replace (room - length found)%nat with 0%nat by lia. cbn [firstn]. rewrite app_nil_r.
        replace (min room (length found)) with room by lia.
        assert (Hres : entry_cmds st (L (lmc location + N.of_nat room) (lseg location)) = skipn room found).
        { rewrite entry_cmds_resume by (rewrite Hfound; exact Hroom). now rewrite Hfound. }
        repeat split; auto; try lia.
        -- intros l El. inv El. rewrite Hres. intro E0. apply (f_equal (@length _)) in E0.
           rewrite skipn_length in E0. cbn in E0. lia.
        -- rewrite (skipn_nth _ _ _ Hloc). cbn [apply_resume tl]. rewrite plan_cons, Hres.
           rewrite skipn_app. replace (room - length found)%nat with 0%nat by lia. reflexivity.
      * (* the whole entry fits: continue with the next one *)
        assert (Hall : firstn room found = found) by (apply firstn_all2; lia).
        rewrite Hall in *.
        destruct (IH (S i) (acc ++ map meta_of found) (dlen + bytes found)) as (index & resume & E & Hidx & Hres & Hrv & Hplan); try lia.
        { rewrite app_length, map_length. lia. }
        { rewrite app_length, map_length. rewrite firstn_app, bytes_app in Hb.
          replace (cap_resp - (length acc + length found))%nat with (room - length found)%nat by lia.
          rewrite Hall in Hb. lia. }
        rewrite app_length, map_length in E, Hplan.
        replace (cap_resp - (length acc + length found))%nat with (room - length found)%nat in * by lia.
        exists index, resume. rewrite E. rewrite firstn_app, Hall, map_app, bytes_app, <- app_assoc, N.add_assoc.
        repeat split; auto; try lia. rewrite Hplan, skipn_app.
        rewrite (skipn_all2 found) by lia. reflexivity.
Qed.

(** * Message sizes *)
Lemma enc_varint_len fuel : forall n, (length (enc_varint fuel n) <= fuel)%nat.
Proof. induction fuel as [|f IH]; intro n; cbn; auto. destruct (n <? 128); cbn; [lia|]. specialize (IH (n / 128)). lia. Qed.

Lemma be_bytes_len n v : length (be_bytes n v) = n.
Proof. revert v; induction n as [|n IH]; intro v; cbn; auto. rewrite app_length, IH. cbn. lia. Qed.

Lemma enc_addr_len a : (length (enc_addr a) <= 43)%nat.
Proof.
  unfold enc_addr, enc_id, enc_u64. cbn [app length]. rewrite app_length, be_bytes_len.
  pose proof (enc_varint_len 10 (amc a)). lia.
Qed.

Lemma enc_meta_len m : (length (enc_meta m) <= 136)%nat.
Proof.
  unfold enc_meta, enc_id. cbn [app length]. rewrite !app_length, be_bytes_len.
  assert (length (enc_prio (m_prio m)) <= 6)%nat.
  { destruct (m_prio m); cbn [enc_prio length]; try lia. pose proof (enc_varint_len 5 n). unfold enc_u32. lia. }
  assert (length (enc_prior (m_parent m)) <= 87)%nat.
  { destruct (m_parent m) as [|a|a b]; cbn [enc_prior length]; try lia.
    - pose proof (enc_addr_len a). lia.
    - rewrite app_length. pose proof (enc_addr_len a). pose proof (enc_addr_len b). lia. }
  pose proof (enc_varint_len 5 (m_plen m)). pose proof (enc_varint_len 5 (m_len m)). unfold enc_u32. lia.
Qed.

Lemma concat_len_bound {A} (f : A -> list N) k (l : list A) :
  (forall x, (length (f x) <= k)%nat) -> (length (concat (map f l)) <= k * length l)%nat.
Proof. intro H. induction l as [|x l IH]; cbn; [lia|]. rewrite app_length. specialize (H x). lia. Qed.

Definition HEADER_MAX : N := 40 + 136 * COMMAND_RESPONSE_MAX.
(** a target this large always holds one response *)
Definition BIG : N := HEADER_MAX + MAX_SYNC_MESSAGE_SIZE.

Lemma enc_len_response sid idx cs : (length cs <= cap_resp)%nat -> enc_len_resp (SyncResponse sid idx cs) <= HEADER_MAX.
Proof.
  intro Hl. unfold enc_len_resp, enc_resp, enc_seq, enc_u128, enc_u64, HEADER_MAX. cbn [length]. rewrite !app_length.
  pose proof (enc_varint_len 19 sid). pose proof (enc_varint_len 10 idx). pose proof (enc_varint_len 10 (N.of_nat (length cs))).
  pose proof (concat_len_bound enc_meta 136 cs enc_meta_len). unfold cap_resp in Hl. rewrite COMMAND_RESPONSE_MAX_pin in *. lia.
Qed.

Lemma enc_len_end sid idx b : enc_len_resp (SyncEnd sid idx b) <= HEADER_MAX.
Proof.
  unfold enc_len_resp, enc_resp, enc_u128, enc_u64, enc_bool, HEADER_MAX. cbn [length]. rewrite !app_length. cbn [length].
  pose proof (enc_varint_len 19 sid). pose proof (enc_varint_len 10 idx). rewrite COMMAND_RESPONSE_MAX_pin. lia.
Qed.

Lemma In_firstn_sub {A} n (l : list A) x : In x (firstn n l) -> In x l.
Proof. intro H. rewrite <- (firstn_skipn n l). apply in_or_app. now left. Qed.

(** * One poll in the sending state *)
Section Session.
Variable dbg : bool.
Variable p : provider.
Variable g sid : N.
Variable st : store.
Hypothesis Hst : get_storage p g = ROk st.
Hypothesis W : wf_store st.
Hypothesis Hsmall : small_cmds st.

(** the responder is in the middle of a session whose remaining commands are [rem] *)
Record sending (r : responder) (idx : N) (rem : list scmd) : Prop := {
  sd_state : r_state r = RSend;
  sd_sid : r_sid r = Some sid;
  sd_gid : r_gid r = Some g;
  sd_idx : r_idx r = idx;
  sd_valid : Forall (valid_loc st) (r_to_send r);
  sd_next : (r_next r <= length (r_to_send r))%nat;
  sd_rem : plan st (skipn (r_next r) (r_to_send r)) = rem;
  sd_bound : idx + N.of_nat (length rem) < u64_max }.

Definition is_buffer_err (o : rres out_msg) : Prop := o = RErr ESerialize \/ o = RErr EBufferTooSmall.

Lemma set_at_skipn {A} (l : list A) i x : (i < length l)%nat -> skipn i (set_at l i x) = x :: tl (skipn i l).
Proof.
  revert i; induction l as [|y l IH]; intros [|i] H; cbn in *; try lia; auto. apply IH. lia.
Qed.

Lemma Forall_set_at {A} (P : A -> Prop) l i x : Forall P l -> P x -> Forall P (set_at l i x).
Proof. intros Hl Hx. apply Forall_forall. intros y Hy. apply in_set_at in Hy as [->|Hy]; auto. eapply Forall_forall in Hl; eauto. Qed.

Lemma rem_nonempty r idx rem : sending r idx rem -> (r_next r < length (r_to_send r))%nat -> rem <> [].
Proof.
  intros S Hlt. destruct (nth_error_lt_Some (r_to_send r) (r_next r) Hlt) as [l Hl].
  rewrite <- (sd_rem _ _ _ S), (skipn_nth _ _ _ Hl), plan_cons.
  assert (valid_loc st l) by (eapply Forall_forall; [apply (sd_valid _ _ _ S)|eapply nth_error_In; eauto]).
  pose proof (entry_cmds_valid st l W H). destruct (entry_cmds st l); [congruence|discriminate].
Qed.

Theorem get_next_step r idx rem tlen :
  sending r idx rem ->
  let '(r', o) := get_next dbg p r tlen in
  (is_buffer_err o /\ r' = r /\ tlen < BIG)
  \/ (rem = [] /\ r_state r' = RIdle /\ exists n, o = ROk {| o_msg := SyncEnd sid idx false; o_hdr := n; o_data := 0 |} /\ n <= tlen)
  \/ (rem <> [] /\ sending r' (idx + 1) (skipn cap_resp rem) /\
      exists n, o = ROk {| o_msg := SyncResponse sid idx (map meta_of (firstn cap_resp rem)); o_hdr := n;
                           o_data := bytes (firstn cap_resp rem) |} /\ n + bytes (firstn cap_resp rem) <= tlen).
Proof.
  intros S. pose proof S as [Hs Hsid Hgid Hidx Hval Hnext Hrem Hbound]. unfold get_next.
  destruct (Nat.leb_spec (length (r_to_send r)) (r_next r)) as [Hend|Hmore].
  - (* SyncEnd *)
    unfold session_id. rewrite Hsid, Hidx. unfold write_msg.
    destruct (N.ltb_spec tlen (enc_len_resp (SyncEnd sid idx false))).
    + left. split; [left; reflexivity|]. split; auto.
      pose proof (enc_len_end sid idx false). unfold BIG. lia.
    + right. left. repeat split.
      * rewrite <- Hrem, skipn_all2 by lia. reflexivity.
      * eexists. split; [reflexivity|lia].
  - (* a response *)
    assert (Hne : rem <> []) by (eapply rem_nonempty; eauto).
    unfold get_commands. rewrite Hgid, Hst.
    assert (Hsegs : forall l, In l (r_to_send r) -> exists s, get_segment st l = ROk s).
    { intros l Hl. eapply Forall_forall in Hval; eauto. destruct (valid_get_segment _ _ Hval) as (s & E & _). eauto. }
    assert (Hfit : 0 + bytes (firstn (cap_resp - length (@nil meta)) (plan st (skipn (r_next r) (r_to_send r)))) <= MAX_SYNC_MESSAGE_SIZE).
    { cbn [length]. rewrite Nat.sub_0_r, N.add_0_l. apply (bytes_fit st); auto.
      - intros c Hc. apply (plan_sub st (skipn (r_next r) (r_to_send r))). eapply (In_firstn_sub); eauto.
      - apply firstn_le_length. }
    destruct (gc_loop_spec dbg st (r_to_send r) Hsegs (length (r_to_send r) - r_next r) (r_next r) [] 0 eq_refl Hnext (Nat.le_0_l _) Hfit)
      as (index & resume & E & Hidx' & Hres & Hrv & Hplan).
    rewrite E. cbn [length app] in *. rewrite Nat.sub_0_r, N.add_0_l, Hrem in *.
    unfold session_id. rewrite Hsid, Hidx. unfold write_msg.
    set (m := SyncResponse sid idx (map meta_of (firstn cap_resp rem))).
    assert (Hm : enc_len_resp m <= HEADER_MAX).
    { apply enc_len_response. rewrite map_length. apply firstn_le_length. }
    destruct (N.ltb_spec tlen (enc_len_resp m)); [left; split; [left; reflexivity|]; split; auto; unfold BIG; lia|].
    destruct (N.ltb_spec tlen (enc_len_resp m + bytes (firstn cap_resp rem)));
      [left; split; [right; reflexivity|]; split; auto; unfold BIG; lia|].
    destruct (N.leb_spec u64_max idx); [lia|].
    assert (Hadv : exists r', advance dbg r index resume (idx + 1) = ROk r' /\ sending r' (idx + 1) (skipn cap_resp rem)).
    { assert (Hlen : (1 <= length rem)%nat) by (destruct rem; [congruence|cbn; lia]).
      pose proof cap_resp_pos as Hcap.
      unfold advance. destruct resume as [l|].
      - assert (Hlt : (index < length (r_to_send r))%nat) by (apply Hres; discriminate).
        destruct (Nat.ltb_spec index (length (r_to_send r))); [|lia].
        eexists. split; [reflexivity|]. cbn [apply_resume] in Hplan.
        assert (Hvl : valid_loc st l) by (apply entry_cmds_nonempty_valid; now apply Hrv).
        constructor; cbn; auto.
        + now apply Forall_set_at.
        + rewrite set_at_length. lia.
        + rewrite set_at_skipn by lia. exact Hplan.
        + rewrite skipn_length. lia.
      - eexists. split; [reflexivity|]. cbn [apply_resume] in Hplan. constructor; cbn; auto; try lia.
        rewrite skipn_length. lia. }
    destruct Hadv as (r' & Ea & Hs'). rewrite Ea. right. right. split; auto. split; auto.
    eexists. split; [reflexivity|lia].
Qed.

(** ** Whole sessions *)
(** the ideal message sequence for [rem]: full responses, then the end message *)
Fixpoint ideal (fuel : nat) (idx : N) (rem : list scmd) : list resp_msg :=
  match fuel with
  | O => []
  | S f => match rem with
           | [] => [SyncEnd sid idx false]
           | _ => SyncResponse sid idx (map meta_of (firstn cap_resp rem)) :: ideal f (idx + 1) (skipn cap_resp rem)
           end
  end.

Definition oks (outs : list (rres out_msg)) : list resp_msg :=
  flat_map (fun o => match o with ROk m => [o_msg m] | _ => [] end) outs.

Lemma oks_ok m os : oks (ROk m :: os) = o_msg m :: oks os.
Proof. reflexivity. Qed.
Lemma oks_err e os : oks (RErr e :: os) = oks os.
Proof. reflexivity. Qed.
Lemma ideal_cons f idx x rem :
  ideal (S f) idx (x :: rem) = SyncResponse sid idx (map meta_of (firstn cap_resp (x :: rem))) :: ideal f (idx + 1) (skipn cap_resp (x :: rem)).
Proof. reflexivity. Qed.
Lemma ideal_nil f idx : ideal (S f) idx [] = [SyncEnd sid idx false].
Proof. reflexivity. Qed.

Definition prefix {A} (a b : list A) : Prop := exists c, b = a ++ c.

(** outcomes of a poll in a well-formed session: a message, a buffer error, or NotReady after the end *)
Definition benign (o : rres out_msg) : Prop :=
  (exists m, o = ROk m) \/ o = RErr ESerialize \/ o = RErr EBufferTooSmall \/ o = RErr ENotReady.

Lemma skipn_shorter {A} (l : list A) : l <> [] -> (length (skipn cap_resp l) < length l)%nat.
Proof. intro H. rewrite skipn_length. pose proof cap_resp_pos. destruct l; [congruence|cbn [length]; lia]. Qed.

Lemma ideal_fuel2 f1 : forall f2 idx rem, (length rem < f1)%nat -> (length rem < f2)%nat -> ideal f1 idx rem = ideal f2 idx rem.
Proof.
  induction f1 as [|f1 IH]; intros f2 idx rem H1 H2; [lia|]. destruct f2 as [|f2]; [lia|].
  cbn [ideal]. destruct rem as [|c rem]; auto. f_equal.
  pose proof (skipn_shorter (c :: rem) ltac:(discriminate)) as Hs. apply IH; lia.
Qed.
Lemma ideal_fuel fuel idx rem : (length rem < fuel)%nat -> ideal fuel idx rem = ideal (S (length rem)) idx rem.
Proof. intro H. apply ideal_fuel2; lia. Qed.

Lemma idle_polls r tlens : r_state r = RIdle ->
  let '(outs, rf) := run_polls dbg p r tlens in oks outs = [] /\ rf = r /\ Forall benign outs.
Proof.
  intro Hs. induction tlens as [|t ts IH]; cbn [run_polls]; auto.
  unfold poll. rewrite Hs. destruct (run_polls dbg p r ts) as [os rf]. destruct IH as (E & -> & Hb).
  rewrite oks_err. repeat split; auto. constructor; auto. right. right. right. reflexivity.
Qed.

Theorem run_polls_sending : forall tlens r idx rem,
  sending r idx rem ->
  let '(outs, rf) := run_polls dbg p r tlens in
  prefix (oks outs) (ideal (S (length rem)) idx rem) /\ Forall benign outs.
Proof.
  induction tlens as [|t ts IH]; intros r idx rem S; cbn [run_polls].
  - split; [eexists; reflexivity|constructor].
  - unfold poll at 1. rewrite (sd_state _ _ _ S). pose proof (get_next_step r idx rem t S) as Hstep.
    destruct (get_next dbg p r t) as [r' o].
    destruct Hstep as [(Hb & -> & _)|[(-> & Hidle & n & -> & _)|(Hne & S' & n & -> & _)]].
    + specialize (IH r idx rem S). destruct (run_polls dbg p r ts) as [os rf]. destruct IH as [Hp Hbn].
      split.
      * destruct Hb as [->| ->]; rewrite oks_err; exact Hp.
      * constructor; auto. destruct Hb as [->| ->]; [right; left|right; right; left]; reflexivity.
    + pose proof (idle_polls r' ts Hidle) as Hi. destruct (run_polls dbg p r' ts) as [os rf]. destruct Hi as (E & _ & Hbn).
      rewrite oks_ok, E. cbn [o_msg]. rewrite ideal_nil. split; [exists []; reflexivity|].
      constructor; auto. left. eauto.
    + specialize (IH r' (idx + 1) (skipn cap_resp rem) S'). destruct (run_polls dbg p r' ts) as [os rf]. destruct IH as [[c Hc] Hbn].
      split.
      * exists c. destruct rem as [|x rem]; [congruence|]. rewrite oks_ok. cbn [o_msg].
        rewrite ideal_cons, <- app_comm_cons. f_equal.
        rewrite ideal_fuel by (apply skipn_shorter; discriminate). exact Hc.
      * constructor; auto. left. eauto.
Qed.

(** with buffers of at least [BIG] bytes every poll makes progress, and the session completes *)
Theorem run_polls_complete : forall tlens r idx rem,
  sending r idx rem -> Forall (fun t => BIG <= t) tlens ->
  (length (ideal (S (length rem)) idx rem) <= length tlens)%nat ->
  let '(outs, rf) := run_polls dbg p r tlens in
  oks outs = ideal (S (length rem)) idx rem /\ r_state rf = RIdle.
Proof.
  induction tlens as [|t ts IH]; intros r idx rem Hsd Hbig Hlen; cbn [run_polls].
  - cbn [ideal length] in Hlen. destruct rem; cbn in Hlen; lia.
  - inv Hbig. unfold poll at 1. rewrite (sd_state _ _ _ Hsd). pose proof (get_next_step r idx rem t Hsd) as Hstep.
    destruct (get_next dbg p r t) as [r' o].
    destruct Hstep as [(_ & _ & Hlt)|[(-> & Hidle & n & -> & _)|(Hne & Hsd' & n & -> & _)]]; [lia| |].
    + pose proof (idle_polls r' ts Hidle) as Hi. destruct (run_polls dbg p r' ts) as [os rf]. destruct Hi as (E & -> & _).
      rewrite oks_ok, E. cbn [o_msg]. rewrite ideal_nil. auto.
    + destruct rem as [|x rem]; [congruence|].
      assert (Hl' : (length (ideal (S (length (skipn cap_resp (x :: rem)))) (idx + 1) (skipn cap_resp (x :: rem))) <= length ts)%nat).
      { rewrite ideal_cons in Hlen. rewrite ideal_fuel in Hlen by (apply skipn_shorter; discriminate). cbn [length] in Hlen. lia. }
      specialize (IH r' (idx + 1) (skipn cap_resp (x :: rem)) Hsd' H2 Hl').
      destruct (run_polls dbg p r' ts) as [os rf]. destruct IH as [E Hi]. split; auto.
      rewrite oks_ok, E. cbn [o_msg]. rewrite ideal_cons. f_equal.
      symmetry. apply ideal_fuel. apply skipn_shorter. discriminate.
Qed.

(** the number of messages of a complete session: ceil(total / COMMAND_RESPONSE_MAX) responses and the end message *)
Lemma ideal_length : forall n idx rem, length rem = n ->
  length (ideal (S n) idx rem) = S ((n + cap_resp - 1) / cap_resp).
Proof.
  induction n as [n IH] using lt_wf_ind. intros idx rem Hn. pose proof cap_resp_pos as Hc.
  destruct rem as [|x rem].
  - cbn in Hn. subst n. rewrite ideal_nil. cbn [length]. rewrite Nat.div_small by lia. reflexivity.
  - rewrite ideal_cons. cbn [length]. f_equal.
    assert (Hs : (length (skipn cap_resp (x :: rem)) < n)%nat) by (rewrite <- Hn; apply skipn_shorter; discriminate).
    rewrite ideal_fuel by lia. rewrite (IH _ Hs _ _ eq_refl). rewrite skipn_length, Hn.
    destruct (Nat.le_gt_cases n cap_resp).
    + replace (n - cap_resp)%nat with 0%nat by lia. rewrite Nat.div_small by lia.
      cbn in Hn. replace (n + cap_resp - 1)%nat with ((n - 1) + 1 * cap_resp)%nat by lia.
      rewrite Nat.div_add by lia. rewrite Nat.div_small by lia. reflexivity.
    + replace (n + cap_resp - 1)%nat with ((n - cap_resp + cap_resp - 1) + 1 * cap_resp)%nat by lia.
      rewrite Nat.div_add by lia. lia.
Qed.
End Session.
